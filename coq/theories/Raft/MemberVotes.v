(* Raft/MemberVotes.v — round 6, system level: elections when the membership changes.

   Alphabet [astep]: EVERY event of Core.run_event on any node, with or without a crash after the k-th durable mutation —
   in particular AddNode and RemoveNode exactly as the core accepts / refuses them, with configurations of any size, and
   no side condition on the configurations at all.  Ghost: the list EC of "election configurations": whenever a node
   ends a step as a newly elected leader, (term, id, the configuration it held while it counted the votes) is recorded.

   Invariant [EM]: the quorum-free part of Election.inv plus
     e_req   a VoteReq in the soup whose sender is still the candidate of that term is addressed to a member of the
             sender's configuration;
     e_resp  a granted VoteResp v -> c of term t in the soup answers a VoteReq c -> v of term t in the soup;
     e_cvm   every vote a candidate counts comes from a member of its configuration;
     e_hist  every leader ever seen has an EC record (t, c, C) and was elected by a duplicate-free set Q of members of C,
             |Q| >= quorum C, all of which cast their term-t vote for c.

   election_safety_given_adjacent: if any two EC records of one term carry equal or adjacent configurations (one is the
   other plus one member), two leaders of one term are equal — by adjacent_quorums_intersect and "one vote per term". *)
From Coq Require Import List NArith ZArith Bool Lia ZifyN ZifyNat ZifyBool.
From BLB Require Import Lib.LTS Raft.Core Raft.Wire Raft.NodeProofs Raft.NodeKeep Raft.NodeElect Raft.Election
  Raft.MembershipQuorum Raft.NodeKeepV Raft.MemberNode.
Import ListNotations.
Open Scope N_scope.

Definition ecent := (N * nid * membership)%type.

Definition is_leader (s : node) : bool := match n_role s with Leader => true | _ => false end.
Definition newly (s s' : node) : bool :=
  is_leader s' && negb (is_leader s && (p_term (n_p s') =? p_term (n_p s))).
Definition ec_of (s s' : node) : list ecent :=
  if newly s s' then match n_conf s with Some c => [(p_term (n_p s'), n_id s', c)] | None => [] end else [].

Definition asys := (sys * list ecent)%type.

Inductive astep : asys -> sys_event -> asys -> Prop :=
| AStep : forall σ EC i s ev k crashed st s',
    get_node i (sy_nodes σ) = Some s ->
    (forall m, ev = EDeliver m -> In m (sy_soup σ) /\ m_to m <> 0) ->
    run_event_crash (settle s) ev k = Ret (crashed, st, s') ->
    astep (σ, EC) (i, ev, k)
      ({| sy_nodes := put_node s' (sy_nodes σ); sy_soup := sy_soup σ ++ out_msgs s';
          sy_cast := sy_cast σ ++ cast_of s'; sy_hist := sy_hist σ ++ hist_of s' |}, EC ++ ec_of s s').

Definition ainit (a : asys) : Prop :=
  NoDup (map n_id (sy_nodes (fst a))) /\
  (forall s, In s (sy_nodes (fst a)) -> n_id s <> 0 /\ n_role s = Follower) /\
  sy_soup (fst a) = [] /\ sy_cast (fst a) = [] /\ sy_hist (fst a) = [] /\ snd a = [].

Lemma is_leader_true s : is_leader s = true <-> n_role s = Leader.
Proof. unfold is_leader. destruct (n_role s); split; intro H; congruence. Qed.

Lemma newly_true s s' :
  newly s s' = true <-> (n_role s' = Leader /\ ~ (n_role s = Leader /\ p_term (n_p s') = p_term (n_p s))).
Proof.
  unfold newly. rewrite andb_true_iff, negb_true_iff, andb_false_iff, is_leader_true. split.
  - intros [A B]. split; [exact A|]. intros [X Y]. destruct B as [B | B].
    + apply is_leader_true in X. congruence.
    + apply N.eqb_neq in B. contradiction.
  - intros [A B]. split; [exact A|]. destruct (is_leader s) eqn:E; [| left; reflexivity]. right.
    apply N.eqb_neq. intro X. apply B. split; [apply is_leader_true; exact E | exact X].
Qed.

Lemma newly_false s s' :
  newly s s' = false -> n_role s' = Leader -> n_role s = Leader /\ p_term (n_p s') = p_term (n_p s).
Proof.
  unfold newly. intros H Hl. apply is_leader_true in Hl. rewrite Hl in H. simpl in H. apply negb_false_iff in H.
  apply andb_true_iff in H. destruct H as [A B]. apply is_leader_true in A. apply N.eqb_eq in B. auto.
Qed.

Record EM (a : asys) : Prop := {
  e_nodup : NoDup (map n_id (sy_nodes (fst a)));
  e_nz : forall i s, get_node i (sy_nodes (fst a)) = Some s -> n_id s <> 0;
  e_fun : forall n t c1 c2, In (n, t, c1) (sy_cast (fst a)) -> In (n, t, c2) (sy_cast (fst a)) -> c1 = c2;
  e_cast : forall n t c, In (n, t, c) (sy_cast (fst a)) ->
             c <> 0 /\ exists s, get_node n (sy_nodes (fst a)) = Some s /\ t <= p_term (n_p s) /\
                                 (t = p_term (n_p s) -> p_vote (n_p s) = c);
  e_grant : forall m, In m (sy_soup (fst a)) -> m_body m = VoteResp true -> m_to m <> 0 ->
              In (m_from m, m_term m, m_to m) (sy_cast (fst a));
  e_votes : forall i s, get_node i (sy_nodes (fst a)) = Some s -> n_role s <> Follower ->
              asc (c_votes s) /\ forall v, In v (c_votes s) -> In (v, p_term (n_p s), n_id s) (sy_cast (fst a));
  e_mterm : forall m x, In m (sy_soup (fst a)) -> get_node (m_from m) (sy_nodes (fst a)) = Some x ->
              m_term m <= p_term (n_p x);
  e_req : forall m x, In m (sy_soup (fst a)) -> is_vreq (m_body m) ->
            get_node (m_from m) (sy_nodes (fst a)) = Some x -> n_role x = Candidate -> p_term (n_p x) = m_term m ->
            memb_of x (m_to m);
  e_resp : forall r, In r (sy_soup (fst a)) -> m_body r = VoteResp true ->
             exists q, In q (sy_soup (fst a)) /\ is_vreq (m_body q) /\ m_from q = m_to r /\ m_to q = m_from r /\
                       m_term q = m_term r;
  e_cvm : forall i x, get_node i (sy_nodes (fst a)) = Some x -> n_role x = Candidate ->
            forall v, In v (c_votes x) -> memb_of x v;
  e_lh : forall i x, get_node i (sy_nodes (fst a)) = Some x -> n_role x = Leader ->
           In (p_term (n_p x), n_id x) (sy_hist (fst a));
  e_hist : forall t c, In (t, c) (sy_hist (fst a)) ->
             exists C Q, In (t, c, C) (snd a) /\ NoDup Q /\ incl Q (mb_members C) /\
                         quorum C <= N.of_nat (length Q) /\ forall v, In v Q -> In (v, t, c) (sy_cast (fst a))
}.

Lemma EM_init a : ainit a -> EM a.
Proof.
  intros [Hn [Ha [Hs [Hc [Hh He]]]]].
  assert (Hf : forall i s, get_node i (sy_nodes (fst a)) = Some s -> n_role s = Follower).
  { intros i s G. apply get_node_in in G. destruct G as [G _]. apply Ha; auto. }
  constructor; auto.
  - intros i s G. apply get_node_in in G. destruct G as [G _]. apply Ha; auto.
  - rewrite Hc. intros n t c1 c2 [].
  - rewrite Hc. intros n t c [].
  - rewrite Hs. intros m [].
  - intros i s G Hr. exfalso. apply Hr. eapply Hf; eauto.
  - rewrite Hs. intros m x [].
  - rewrite Hs. intros m x [].
  - rewrite Hs. intros r [].
  - intros i x G Hr. rewrite (Hf i x G) in Hr. discriminate.
  - intros i x G Hr. rewrite (Hf i x G) in Hr. discriminate.
  - rewrite Hh. intros t c [].
Qed.

(* ---------------------------------------------------------------- election safety from the invariant *)
Definition adj (A B : list nid) : Prop := incl A B /\ length B = S (length A).
Definition near (C1 C2 : membership) : Prop :=
  mb_members C1 = mb_members C2 \/ adj (mb_members C1) (mb_members C2) \/ adj (mb_members C2) (mb_members C1).
Definition adjP (EC : list ecent) : Prop :=
  forall t a b Ca Cb, In (t, a, Ca) EC -> In (t, b, Cb) EC -> near Ca Cb.

Lemma EM_election a : EM a -> adjP (snd a) ->
  forall t x y, In (t, x) (sy_hist (fst a)) -> In (t, y) (sy_hist (fst a)) -> x = y.
Proof.
  intros I HA t x y Hx Hy.
  destruct (e_hist a I t x Hx) as [Cx [Qx [Ex [Nx [Ix [Lx Vx]]]]]].
  destruct (e_hist a I t y Hy) as [Cy [Qy [Ey [Ny [Iy [Ly Vy]]]]]].
  assert (Hv : exists v, In v Qx /\ In v Qy).
  { unfold quorum in Lx, Ly. destruct (HA t x y Cx Cy Ex Ey) as [E | [[A1 A2] | [A1 A2]]].
    - apply (pigeon Qx Qy (mb_members Cx) Nx Ny Ix); [rewrite E; exact Iy|].
      rewrite <- E in Ly. apply majority_arith; assumption.
    - apply (adjacent_quorums_intersect (mb_members Cx) (mb_members Cy) Qx Qy); auto.
    - destruct (adjacent_quorums_intersect (mb_members Cy) (mb_members Cx) Qy Qx) as [v [V1 V2]]; auto.
      exists v. auto. }
  destruct Hv as [v [V1 V2]]. eapply (e_fun a I); eauto.
Qed.

(* ---------------------------------------------------------------- the invariant is inductive *)
Lemma memb_of_conf x y v : n_conf y = n_conf x -> memb_of x v -> memb_of y v.
Proof. intros E [c [A B]]. exists c. split; [congruence | exact B]. Qed.

Lemma ev_msg_deliver ev m : ev_msg ev = Some m -> ev = EDeliver m.
Proof. destruct ev; simpl; intro H; try discriminate. inversion H. reflexivity. Qed.

Lemma EM_step a e a' : EM a -> astep a e a' -> EM a'.
Proof.
  intros I Hst. inversion Hst as [σ EC i s ev k crashed st s' G Hdel Hrun]. subst. clear Hst.
  pose proof (e_nodup _ I) as Ind. pose proof (e_nz _ I) as Inz. pose proof (e_fun _ I) as Ifun.
  pose proof (e_cast _ I) as Icast. pose proof (e_grant _ I) as Igrant. pose proof (e_votes _ I) as Ivotes.
  pose proof (e_mterm _ I) as Imterm. pose proof (e_req _ I) as Ireq. pose proof (e_resp _ I) as Iresp.
  pose proof (e_cvm _ I) as Icvm. pose proof (e_lh _ I) as Ilh. pose proof (e_hist _ I) as Ihist.
  cbn [fst snd] in *.
  destruct (step_facts _ _ _ _ _ _ Hrun) as [Hid [Hp [Hm He]]].
  destruct (step_csum _ _ _ _ _ _ Hrun) as [CV [CR CP]].
  destruct (get_node_in _ _ _ G) as [Gin Gid].
  assert (Hi : n_id s' = i) by congruence.
  assert (Gs' : get_node i (put_node s' (sy_nodes σ)) = Some s').
  { rewrite <- Hi. eapply get_put_same. rewrite Hi. exact G. }
  assert (Go : forall j, j <> i -> get_node j (put_node s' (sy_nodes σ)) = get_node j (sy_nodes σ)).
  { intros j Hj. apply get_put_other. congruence. }
  assert (Gcase : forall j x, get_node j (put_node s' (sy_nodes σ)) = Some x ->
                    (j = i /\ x = s') \/ (j <> i /\ get_node j (sy_nodes σ) = Some x)).
  { intros j x Hx. destruct (N.eq_dec j i) as [E | E].
    - subst j. rewrite Gs' in Hx. inversion Hx. auto.
    - rewrite Go in Hx; auto. }
  destruct Hp as [Pt [Pv _]].
  assert (Hnz : n_id s <> 0) by (eapply Inz; eauto).
  assert (Hold : forall t c, In (i, t, c) (sy_cast σ) -> t <= p_term (n_p s') /\ (t = p_term (n_p s') -> p_vote (n_p s') = c)).
  { intros t c Hc. destruct (Icast _ _ _ Hc) as [Cnz [x [Gx [Le Eq]]]].
    rewrite G in Gx. inversion Gx. subst x. split; [lia|].
    intro Et. assert (t = p_term (n_p s)) by lia. specialize (Eq H). subst t.
    assert (p_term (n_p s') = p_term (n_p s)) by lia. destruct (Pv H0); congruence. }
  (* every vote the touched node counts at the end of the step comes from a member of its configuration *)
  assert (VM : cand_like s s' -> forall v, In v (c_votes s') -> memb_of s v).
  { intros Hc. destruct (CP Hc) as [_ [[R1 [R2 R3]] | [R1 R2]]].
    - intros v Hv. destruct (R3 v Hv) as [X | [m [X1 [X2 [X3 [X4 X5]]]]]].
      + exact (Icvm i s G R1 v X).
      + apply ev_msg_deliver in X1. destruct (Hdel m X1) as [Min Mto].
        destruct (Iresp m Min X2) as [q [Q1 [Q2 [Q3 [Q4 Q5]]]]].
        assert (Et : m_to m = i) by (destruct X5 as [X5 | X5]; [congruence | contradiction]).
        assert (Gq : get_node (m_from q) (sy_nodes σ) = Some s) by (rewrite Q3, Et; exact G).
        pose proof (Ireq q s Q1 Q2 Gq R1 ltac:(congruence)) as Y. rewrite Q4, <- X3 in Y. exact Y.
    - intros v Hv. exact (proj2 (R2 v Hv)). }
  (* and is backed by a cast vote *)
  assert (VC : n_role s' <> Follower -> forall v, In v (c_votes s') ->
               In (v, p_term (n_p s'), n_id s') (sy_cast σ ++ cast_of s')).
  { intros Hr v Hv. destruct (He Hr) as [S1 _].
    destruct (S1 v Hv) as [[R1 [R2 R3]] | [[R1 R2] | [m [R1 [R2 [R3 [R4 R5]]]]]]].
    - apply in_or_app. left. rewrite R2, Hid. apply (Ivotes i s G R1). exact R3.
    - apply in_or_app. right. subst v. assert (X := cast_of_in s' ltac:(congruence)). rewrite R2, Hid in X. rewrite Hid. exact X.
    - apply ev_msg_deliver in R1. destruct (Hdel m R1) as [Min Mto].
      apply in_or_app. left. subst v. rewrite <- R4, Hid.
      destruct R5 as [R5 | R5]; [| contradiction].
      rewrite <- R5. apply Igrant; auto. }
  constructor; cbn [fst snd sy_nodes sy_soup sy_cast sy_hist].
  - rewrite put_node_ids. exact Ind.
  - intros j x Hx. destruct (Gcase j x Hx) as [[_ E] | [_ E]]; [subst; congruence | eapply Inz; eauto].
  - intros n t c1 c2 H1 H2. apply in_app_or in H1. apply in_app_or in H2.
    destruct H1 as [H1 | H1]; destruct H2 as [H2 | H2].
    + eapply Ifun; eauto.
    + apply in_cast_of in H2. destruct H2 as [A [B [C D]]]. subst. rewrite Hi in H1.
      destruct (Hold _ _ H1) as [_ X]. symmetry. apply X. reflexivity.
    + apply in_cast_of in H1. destruct H1 as [A [B [C D]]]. subst. rewrite Hi in H2.
      destruct (Hold _ _ H2) as [_ X]. apply X. reflexivity.
    + apply in_cast_of in H1. apply in_cast_of in H2. destruct H1 as [_ [_ [C _]]]. destruct H2 as [_ [_ [C' _]]]. congruence.
  - intros n t c Hc. apply in_app_or in Hc. destruct Hc as [Hc | Hc].
    + destruct (Icast _ _ _ Hc) as [Cnz [x [Gx [Le Eq]]]]. split; auto.
      destruct (N.eq_dec n i) as [E | E].
      * subst n. exists s'. split; auto.
      * exists x. rewrite Go; auto.
    + apply in_cast_of in Hc. destruct Hc as [A [B [C D]]]. subst. split; auto.
      exists s'. rewrite Hi. split; auto; split; [lia | auto].
  - intros m Hin Hg Hto. apply in_app_or in Hin. destruct Hin as [Hin | Hin].
    + apply in_or_app. left. apply Igrant; auto.
    + apply in_out_msgs in Hin. destruct Hin as [m0 [H0 [Et [Ef [Eto Eb]]]]].
      unfold msgs_ok in Hm. rewrite Forall_forall in Hm. destruct (Hm m0 H0) as [X [Y Z]].
      apply in_or_app. right. rewrite Et, Ef, Eto, X, Y. rewrite <- (Z ltac:(congruence)).
      apply cast_of_in. rewrite (Z ltac:(congruence)). congruence.
  - intros j x Hx Hr. destruct (Gcase j x Hx) as [[_ E] | [Hj E]].
    + subst x. destruct (He Hr) as [_ [S2 _]]. split.
      * apply S2. intro Hrs. apply (Ivotes i s G Hrs).
      * exact (VC Hr).
    + destruct (Ivotes j x E Hr) as [A B]. split; auto. intros v Hv. apply in_or_app. left. auto.
  - (* message terms *)
    intros m x Hin Hx. apply in_app_or in Hin. destruct Hin as [Hin | Hin].
    + destruct (Gcase _ x Hx) as [[E1 E2] | [E1 E2]].
      * subst x. rewrite E1 in *. pose proof (Imterm m s Hin ltac:(rewrite E1; exact G)) as X. lia.
      * exact (Imterm m x Hin E2).
    + apply in_out_msgs in Hin. destruct Hin as [m0 [H0 [Et [Ef [Eto Eb]]]]].
      unfold msgs_ok in Hm. rewrite Forall_forall in Hm. destruct (Hm m0 H0) as [X [Y Z]].
      assert (Ei : m_from m = i) by congruence. rewrite Ei in Hx. rewrite Gs' in Hx. inversion Hx. subst x.
      rewrite Et, X. apply N.le_refl.
  - (* vote requests of a still-standing candidate go to members of its configuration *)
    intros m x Hin Hq Hx Hr Ht. apply in_app_or in Hin. destruct Hin as [Hin | Hin].
    + destruct (Gcase _ x Hx) as [[E1 E2] | [E1 E2]].
      * subst x. assert (G1 : get_node (m_from m) (sy_nodes σ) = Some s) by (rewrite E1; exact G).
        pose proof (Imterm m s Hin G1) as X.
        assert (Hc : cand_like s s') by (left; exact Hr).
        destruct (CP Hc) as [Cf [[R1 [R2 _]] | [R1 _]]]; [| lia].
        apply (memb_of_conf s s'); [exact (Cf Hr)|]. apply (Ireq m s Hin Hq G1 R1). congruence.
      * exact (Ireq m x Hin Hq E2 Hr Ht).
    + apply in_out_msgs in Hin. destruct Hin as [m0 [H0 [Et [Ef [Eto Eb]]]]].
      unfold msgs_ok in Hm. rewrite Forall_forall in Hm. destruct (Hm m0 H0) as [X [Y Z]].
      assert (Ei : m_from m = i) by congruence. rewrite Ei in Hx. rewrite Gs' in Hx. inversion Hx. subst x.
      assert (Hc : cand_like s s') by (left; exact Hr).
      destruct (CP Hc) as [Cf _]. apply (memb_of_conf s s'); [exact (Cf Hr)|].
      rewrite Eto. apply (CV m0 H0). rewrite <- Eb. exact Hq.
  - (* a granted vote answers a vote request *)
    intros r Hin Hb. apply in_app_or in Hin. destruct Hin as [Hin | Hin].
    + destruct (Iresp r Hin Hb) as [q [Q1 Q2]]. exists q. split; [apply in_or_app; left; exact Q1 | exact Q2].
    + apply in_out_msgs in Hin. destruct Hin as [r0 [H0 [Et [Ef [Eto Eb]]]]].
      unfold msgs_ok in Hm. rewrite Forall_forall in Hm. destruct (Hm r0 H0) as [X [Y Z]].
      destruct (CR r0 H0 ltac:(congruence)) as [m [M1 [M2 [M3 [M4 M5]]]]].
      apply ev_msg_deliver in M1. destruct (Hdel m M1) as [Min Mto].
      exists m. split; [apply in_or_app; left; exact Min|]. split; [exact M2|].
      split; [congruence|]. split; [| congruence].
      destruct M5 as [M5 | M5]; [congruence | contradiction].
  - (* the votes a candidate counts come from members *)
    intros j x Hx Hr v Hv. destruct (Gcase j x Hx) as [[_ E] | [Hj E]].
    + subst x. assert (Hc : cand_like s s') by (left; exact Hr).
      destruct (CP Hc) as [Cf _]. apply (memb_of_conf s s'); [exact (Cf Hr)|]. exact (VM Hc v Hv).
    + exact (Icvm j x E Hr v Hv).
  - (* leaders are in the history *)
    intros j x Hx Hl. destruct (Gcase j x Hx) as [[_ E] | [Hj E]].
    + subst x. apply in_or_app. right. unfold hist_of. rewrite Hl. simpl. auto.
    + apply in_or_app. left. exact (Ilh j x E Hl).
  - (* every leader ever seen was elected by a quorum of members of its election configuration *)
    intros t c Hin. apply in_app_or in Hin. destruct Hin as [Hin | Hin].
    + destruct (Ihist t c Hin) as [C [Q [A1 [A2 [A3 [A4 A5]]]]]]. exists C, Q.
      split; [apply in_or_app; left; exact A1|]. repeat split; auto.
      intros v Hv. apply in_or_app. left. auto.
    + unfold hist_of in Hin. destruct (n_role s') eqn:Er; simpl in Hin; try contradiction.
      destruct Hin as [Hin | []]. inversion Hin. subst t c.
      assert (Hr : n_role s' <> Follower) by congruence.
      destruct (newly s s') eqn:En.
      * pose proof En as En'. apply newly_true in En'. destruct En' as [_ Hn].
        destruct (He Hr) as [_ [S2 S3]].
        destruct (S3 Er) as [[R1 [R2 R3]] | [c0 [R1 R2]]]; [exfalso; apply Hn; auto|].
        assert (Hc : cand_like s s') by (right; auto).
        exists c0, (c_votes s'). split.
        { apply in_or_app. right. unfold ec_of. rewrite En, R1. simpl. auto. }
        split; [apply asc_nodup; apply S2; intro Hrs; apply (Ivotes i s G Hrs)|].
        split; [| split; [exact R2 | exact (VC ltac:(discriminate))]].
        intros v Hv. destruct (VM Hc v Hv) as [c1 [Y1 Y2]]. congruence.
      * destruct (newly_false s s' En Er) as [R1 R2].
        pose proof (Ilh i s G R1) as X. rewrite R2, Hid.
        destruct (Ihist _ _ X) as [C [Q [A1 [A2 [A3 [A4 A5]]]]]]. exists C, Q.
        split; [apply in_or_app; left; exact A1|]. repeat split; auto.
        intros v Hv. apply in_or_app. left. auto.
Qed.

Lemma EM_run a0 sched a : EM a0 -> run asys sys_event astep a0 sched a -> EM a.
Proof. intros I Hrun. induction Hrun; auto. apply IHHrun. eapply EM_step; eauto. Qed.

(* ---------------------------------------------------------------- theorems over all schedules *)
(* every vote a candidate counts, and every vote that ever elected a leader, was cast by a member of the counting node's
   configuration — whatever AddNode / RemoveNode did to the configurations *)
Theorem counted_votes_come_from_members_sys a0 a sched :
  ainit a0 -> run asys sys_event astep a0 sched a ->
  (forall i x, get_node i (sy_nodes (fst a)) = Some x -> n_role x = Candidate ->
     forall v, In v (c_votes x) -> memb_of x v /\ In (v, p_term (n_p x), n_id x) (sy_cast (fst a))) /\
  (forall t c, In (t, c) (sy_hist (fst a)) ->
     exists C Q, In (t, c, C) (snd a) /\ NoDup Q /\ incl Q (mb_members C) /\ quorum C <= N.of_nat (length Q) /\
                 forall v, In v Q -> In (v, t, c) (sy_cast (fst a))).
Proof.
  intros Hi Hrun. pose proof (EM_run _ _ _ (EM_init _ Hi) Hrun) as I. split.
  - intros i x G Hr v Hv. split; [exact (e_cvm a I i x G Hr v Hv)|].
    apply (e_votes a I i x G); [congruence | exact Hv].
  - exact (e_hist a I).
Qed.

Theorem election_safety_given_adjacent_sys a0 a sched :
  ainit a0 -> run asys sys_event astep a0 sched a -> adjP (snd a) ->
  forall t x y, In (t, x) (sy_hist (fst a)) -> In (t, y) (sy_hist (fst a)) -> x = y.
Proof.
  intros Hi Hrun HA. apply EM_election; [| exact HA]. exact (EM_run _ _ _ (EM_init _ Hi) Hrun).
Qed.
