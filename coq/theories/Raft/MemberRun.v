(* Raft/MemberRun.v — round 8: the membership-change results as theorems over runs.
   Alphabet mstepS = astep (every event on any node: bootstrap, delivery of any soup message any number of times or never,
   ticks, proposals, AddNode / RemoveNode as the core accepts or refuses them, restarts; crash after any durable mutation)
   restricted by evS: one bootstrap membership (bm, be), no SnapshotDone, proposals carry no configuration entries,
   no node is asked to add itself.  No condition on the configurations. *)
From Coq Require Import List NArith ZArith Bool Lia ZifyN ZifyNat ZifyBool.
From BLB Require Import Lib.LTS Raft.Core Raft.Wire Raft.NodeProofs Raft.NodeKeep Raft.NodeElect Raft.NodeConf
  Raft.Election Raft.ElectionFixed Raft.LogMatchLists Raft.CommitCount Raft.LogMatchNode Raft.LogMatch Raft.Completeness Raft.CompletenessAck
  Raft.CompletenessVote Raft.SMSafetyNode Raft.SMSafetyBound Raft.MembershipQuorum Raft.NodeKeepV Raft.MemberNode Raft.MemberVotes Raft.MemberConfStep
  Raft.MemberPeers Raft.MemberConfTrack Raft.MemberLeaderOut Raft.MemberLeaderLog
  Raft.LogMatchNodeM Raft.LogMatchM Raft.CompletenessAckM Raft.MemberAbstract Raft.CompletenessVoteM Raft.MemberSafety Raft.MemberStep.
Import ListNotations.
Open Scope N_scope.

Definition evS (bm : list nid) (be : N) (i : nid) (ev : event) : Prop :=
  evres bm be ev /\
  (forall es, ev = EPropose es -> Forall (fun e => isconfb e = false) es) /\
  (forall x rnd, ev = EAddNode x rnd -> x <> i).

Definition mstepS (bm : list nid) (be : N) (a : asys) (e : sys_event) (a' : asys) : Prop :=
  astep a e a' /\ evS bm be (fst (fst e)) (snd (fst e)).

Definition minitS (a : asys) : Prop :=
  ainit a /\
  forall s, In s (sy_nodes (fst a)) ->
    p_log (n_p s) = [] /\ p_snap (n_p s) = None /\ n_conf s = None /\ n_commit s = 0 /\ n_commits s = [].

Section Run.
  Variables (bm : list nid) (be : N).
  Hypothesis Hbm : NoDup bm.
  Let bootE := boot_entry bm be.

  Lemma cmem_boot : cmem bootE = bm.
  Proof. unfold cmem, bootE, boot_entry, decode_conf, encode_conf. simpl. apply map_to_of. Qed.

  Lemma MS_init a : minitS a -> MS bm be a [(1, 0, [bootE])] [] [] [] [].
  Proof.
    intros [Hi Hl]. pose proof Hi as [Hn [Ha [Hs [Hc [Hh He]]]]].
    assert (Hnode : forall i s, get_node i (sy_nodes (fst a)) = Some s -> In s (sy_nodes (fst a))).
    { intros i s G. apply get_node_in in G. tauto. }
    assert (Hfol : forall i s, get_node i (sy_nodes (fst a)) = Some s -> n_role s = Follower).
    { intros i s G. apply Ha. eauto. }
    assert (GI : ginvM bm be (fst a) [(1, 0, [bootE])]).
    { constructor.
      - intros i s G. apply Ha. eauto.
      - exact Hn.
      - rewrite Hh. intros t x y [].
      - intros i s G. destruct (Hl s (Hnode _ _ G)) as [A1 [A2 [A3 _]]]. pose proof (Hfol i s G) as R.
        unfold base. rewrite A1, A2, R. repeat split; auto; try (simpl; auto; fail); congruence.
      - intros i s G R. rewrite (Hfol i s G) in R. discriminate.
      - intros i s G R. rewrite (Hfol i s G) in R. discriminate.
      - intros t i l [H | []]. inversion H. left. auto.
      - intros t i l [H | []]. inversion H. congruence.
      - intros t i l j l' [H | []] [H' | []]. inversion H. inversion H'. subst. left. apply pfx_refl.
      - intros t i l [H | []]. inversion H. subst. simpl. auto.
      - intros t i l [H | []]. inversion H. subst. intros k e Hk. destruct k; [| destruct k; discriminate].
        simpl in Hk. inversion Hk. subst e. exists 0, [bootE]. split; [left; reflexivity | reflexivity].
      - intros i s G. destruct (Hl s (Hnode _ _ G)) as [A1 _]. rewrite A1. intros k e Hk. destruct k; discriminate.
      - rewrite Hs. intros m [].
      - left. reflexivity.
      - intros t i l [H | []]. inversion H. subst. split.
        + constructor; [simpl; lia | constructor].
        + intros k1 k2 e1 e2 Hk H1 H2. destruct k2; [| destruct k2; discriminate]. destruct k1; [| lia]. simpl in H1, H2. inversion H1. inversion H2. subst. apply N.le_refl.
      - intros i s G. destruct (Hl s (Hnode _ _ G)) as [A1 _]. rewrite A1. split; [constructor|].
        intros k1 k2 e1 e2 Hk H1 H2. destruct k1; discriminate. }
    assert (KI : ackinvM bm be (fst a) [(1, 0, [bootE])] []).
    { constructor.
      - exact GI.
      - intros v T P [].
      - rewrite Hs. intros m idx h [].
      - intros T i l [H | []]. inversion H. congruence.
      - intros v T P []. }
    assert (WI : voteinvM bm be (fst a) [(1, 0, [bootE])] [] [] [] []).
    { constructor; try (intros; contradiction).
      - exact KI.
      - intros i s G R. rewrite (Hfol i s G) in R. congruence.
      - intros U c l [H | []]. inversion H. congruence.
      - rewrite Hs. intros m li lt [].
      - intros i s G R. rewrite (Hfol i s G) in R. congruence.
      - intros i s G R. rewrite (Hfol i s G) in R. congruence.
      - rewrite Hs. intros m [].
      - intros U c l [H | []]. inversion H. congruence. }
    assert (Hcat : forall j e, cat [bootE] j e -> j = 0%nat /\ e = bootE).
    { intros j e [H _]. destruct j; [simpl in H; inversion H; auto | destruct j; discriminate]. }
    constructor.
    - apply EM_init. exact Hi.
    - exact WI.
    - intros i s G. destruct (Hl s (Hnode _ _ G)) as [A1 [A2 [A3 _]]]. split; [exact A2|]. split; [rewrite A1; constructor|].
      unfold ct. rewrite A1, A3. reflexivity.
    - intros i s G R. rewrite (Hfol i s G) in R. discriminate.
    - intros i s G R. rewrite (Hfol i s G) in R. discriminate.
    - rewrite Hh. intros t c [].
    - intros i s G. destruct (Hl s (Hnode _ _ G)) as [_ [_ [_ [A4 _]]]]. rewrite A4. simpl. split; [lia | left; reflexivity].
    - rewrite Hs. intros m pi pt cm oe [].
    - intros T i l j1 e1 j2 e2 [H | []] H1 H2 Hlt. inversion H. subst. destruct (Hcat _ _ H1). destruct (Hcat _ _ H2). lia.
    - intros T i l j2 e2 [H | []] H2 Hj. inversion H. subst. destruct (Hcat _ _ H2). lia.
    - intros T i l j2 e2 j1 e1 [H | []] H2 H1. inversion H. subst. destruct (Hcat _ _ H2) as [Z _]. subst j2.
      destruct H1 as [[X _] _]. simpl in X. destruct j1; discriminate.
    - intros T i l j e [H | []] H2. inversion H. subst. destruct (Hcat _ _ H2) as [_ Z]. subst e. rewrite cmem_boot. exact Hbm.
  Qed.
  Lemma MS_stepS a G A CL GR GL e a' :
    MS bm be a G A CL GR GL -> mstepS bm be a e a' ->
    exists G' A' CL' GR' GL', MS bm be a' G' A' CL' GR' GL' /\ incl G G' /\ incl A A'.
  Proof.
    intros M [Hst [Hres [Hprop Hadd]]]. destruct Hst as [σ EC i s ev k crashed st s' Gs Hdel Hrun]. simpl in Hres, Hprop, Hadd.
    destruct (get_node_in _ _ _ Gs) as [_ Gid].
    assert (HevC : evC ev).
    { pose proof (k_g _ _ _ _ _ (w_k _ _ _ _ _ _ _ _ (ms_w _ _ _ _ _ _ _ _ M))) as GI. clear - Hres Hprop Hdel GI.
      destruct ev; simpl in *; auto.
      - destruct (Hdel m eq_refl) as [Min _]. pose proof (LogMatchM.g_msgs _ _ _ _ GI m Min) as Mk. unfold msg_ok3 in Mk.
        unfold not_snap. destruct (m_body m); auto. }
    assert (Hns : noself s ev) by (intros x rnd Hx; rewrite Gid; exact (Hadd x rnd Hx)).
    eexists _, _, _, _, _. split; [exact (MS_step_node bm be σ EC G A CL GR GL i s ev k crashed st s' M Gs Hdel Hrun Hres HevC Hns)|].
    split; intros r Hr; apply in_or_app; left; exact Hr.
  Qed.

  Lemma MS_run a sched a' G A CL GR GL :
    MS bm be a G A CL GR GL -> run asys sys_event (mstepS bm be) a sched a' ->
    exists G' A' CL' GR' GL', MS bm be a' G' A' CL' GR' GL' /\ incl G G' /\ incl A A'.
  Proof.
    intros M Hrun. revert G A CL GR GL M. induction Hrun as [a0 | a0 e a1 es a2 Hst Hr IH]; intros G A CL GR GL M.
    - exists G, A, CL, GR, GL. split; [exact M|]. split; apply incl_refl.
    - destruct (MS_stepS _ _ _ _ _ _ _ _ M Hst) as [G1 [A1 [CL1 [GR1 [GL1 [M1 [I1 I2]]]]]]].
      destruct (IH _ _ _ _ _ M1) as [G2 [A2 [CL2 [GR2 [GL2 [M2 [J1 J2]]]]]]].
      exists G2, A2, CL2, GR2, GL2. split; [exact M2|]. split; eapply incl_tran; eauto.
  Qed.

  (* what every node has handed to its state machine lies inside its committed prefix *)
  Definition appl_okM (a : asys) : Prop :=
    forall i s, get_node i (sy_nodes (fst a)) = Some s -> forall x, In x (n_commits s) -> In x (p_log (n_p s)) /\ e_index x <= n_commit s.

  Lemma appl_stepS a G A CL GR GL e a' :
    MS bm be a G A CL GR GL -> appl_okM a -> mstepS bm be a e a' -> appl_okM a'.
  Proof.
    intros M AO [Hst [Hres _]]. destruct Hst as [σ EC i s ev k crashed st s' Gs Hdel Hrun]. simpl in Hres.
    pose proof (k_g _ _ _ _ _ (w_k _ _ _ _ _ _ _ _ (ms_w _ _ _ _ _ _ _ _ M))) as GI.
    assert (Hi : n_id s' = i) by (destruct (step_facts _ _ _ _ _ _ Hrun) as [Hid' _]; destruct (get_node_in _ _ _ Gs) as [_ Gid']; congruence).
    intros j x0 Hx. cbn [fst sy_nodes] in Hx. destruct (N.eq_dec j i) as [E | E].
    - subst j. rewrite <- Hi in Hx. rewrite (get_put_same s' (sy_nodes σ) s) in Hx by (rewrite Hi; exact Gs). inversion Hx. subst x0.
      intros x Hin. split.
      + assert (Hok : ev_applied_ok ev).
        { clear - Hres Hdel GI. destruct ev; simpl in *; auto. destruct (Hdel m eq_refl) as [Min _]. pose proof (LogMatchM.g_msgs _ _ _ _ GI m Min) as Mk.
          unfold msg_ok3 in Mk. unfold no_snap_msg. destruct (m_body m); auto. }
        apply (applied_in_own_log s ev k crashed st s' Hok Hrun x Hin).
      + apply (applied_index_bound s ev k crashed st s' Hrun x Hin).
    - rewrite get_put_other in Hx by congruence. apply (AO j x0 Hx).
  Qed.

  Lemma appl_run a sched a' G A CL GR GL :
    MS bm be a G A CL GR GL -> appl_okM a -> run asys sys_event (mstepS bm be) a sched a' -> appl_okM a'.
  Proof.
    intros M AO Hrun. revert G A CL GR GL M AO. induction Hrun as [a0 | a0 e a1 es a2 Hst Hr IH]; intros G A CL GR GL M AO; auto.
    destruct (MS_stepS _ _ _ _ _ _ _ _ M Hst) as [G1 [A1 [CL1 [GR1 [GL1 [M1 _]]]]]].
    apply (IH _ _ _ _ _ M1). exact (appl_stepS _ _ _ _ _ _ _ _ M AO Hst).
  Qed.
  Lemma committedM_comparable a G A CL GR GL T1 P1 T2 P2 :
    MS bm be a G A CL GR GL -> committedM G A T1 P1 -> committedM G A T2 P2 -> comparable P1 P2.
  Proof.
    intros M C1 C2. pose proof (k_g _ _ _ _ _ (w_k _ _ _ _ _ _ _ _ (ms_w _ _ _ _ _ _ _ _ M))) as GI.
    assert (Hlt : forall Ta Pa Tb Pb, committedM G A Ta Pa -> committedM G A Tb Pb -> Ta < Tb -> comparable Pa Pb).
    { intros Ta Pa Tb Pb Ca Cb Hab. pose proof Cb as [lT [C [[[iT [D1 _]] _] D3]]].
      pose proof (committedM_kept bm be _ _ _ _ _ _ M Ta Pa _ _ _ Ca D1 Hab) as K.
      eapply pfx_comparable; [| exact D3]. exists (skipn (length Pa) lT). unfold keeps in K. rewrite <- K at 1. symmetry. apply firstn_skipn. }
    destruct (N.lt_trichotomy T1 T2) as [H | [H | H]].
    - eapply Hlt; eauto.
    - subst T2. destruct C1 as [l1 [c1 [[[i1 [A1 _]] _] A3]]]. destruct C2 as [l2 [c2 [[[i2 [B1 _]] _] B3]]].
      destruct (LogMatchM.g_cmp _ _ _ _ GI _ _ _ _ _ A1 B1) as [X | X].
      + eapply pfx_comparable; [eapply pfx_trans; [exact A3 | exact X] | exact B3].
      + eapply pfx_comparable; [exact A3 | eapply pfx_trans; [exact B3 | exact X]].
    - apply comparable_sym. eapply Hlt; eauto.
  Qed.

  (* ---------------------------------------------------------------- the four clauses over runs *)
  Theorem election_safety_membership_change_sys a0 a sched :
    minitS a0 -> run asys sys_event (mstepS bm be) a0 sched a ->
    forall t x y, In (t, x) (sy_hist (fst a)) -> In (t, y) (sy_hist (fst a)) -> x = y.
  Proof.
    intros Hi Hrun. destruct (MS_run _ _ _ _ _ _ _ _ (MS_init a0 Hi) Hrun) as [G [A [CL [GR [GL [M _]]]]]].
    exact (LogMatchM.g_es _ _ _ _ (k_g _ _ _ _ _ (w_k _ _ _ _ _ _ _ _ (ms_w _ _ _ _ _ _ _ _ M)))).
  Qed.

  Theorem log_matching_membership_change_sys a0 a sched :
    minitS a0 -> run asys sys_event (mstepS bm be) a0 sched a ->
    forall x y k k' e e',
      In x (sy_nodes (fst a)) -> In y (sy_nodes (fst a)) ->
      nth_error (p_log (n_p x)) k = Some e -> nth_error (p_log (n_p y)) k' = Some e' ->
      e_index e = e_index e' -> e_term e = e_term e' ->
      k = k' /\ firstn (S k) (p_log (n_p x)) = firstn (S k) (p_log (n_p y)).
  Proof.
    intros Hi Hrun x y k k' e e' Hx Hy Hk Hk' Ei Et.
    destruct (MS_run _ _ _ _ _ _ _ _ (MS_init a0 Hi) Hrun) as [G [A [CL [GR [GL [M _]]]]]].
    pose proof (k_g _ _ _ _ _ (w_k _ _ _ _ _ _ _ _ (ms_w _ _ _ _ _ _ _ _ M))) as GI.
    pose proof (LogMatchM.g_nd _ _ _ _ GI) as Hnd.
    pose proof (in_get_node _ _ Hnd Hx) as Gx. pose proof (in_get_node _ _ Hnd Hy) as Gy.
    destruct (LogMatchM.g_base _ _ _ _ GI _ _ Gx) as [_ [Wx _]]. destruct (LogMatchM.g_base _ _ _ _ GI _ _ Gy) as [_ [Wy _]].
    pose proof (wf_from_nth _ _ _ _ Wx Hk) as Ia. pose proof (wf_from_nth _ _ _ _ Wy Hk') as Ib.
    assert (Ek : k = k') by lia. subst k'. split; auto.
    eapply same_term_prefix; eauto.
    - apply (LogMatchM.g_cmp _ _ _ _ GI).
    - apply (LogMatchM.g_lm_node _ _ _ _ GI _ _ Gx).
    - apply (LogMatchM.g_lm_node _ _ _ _ GI _ _ Gy).
  Qed.

  (* whatever any node has committed is in the log of every leader of a later term *)
  Theorem leader_completeness_membership_change_sys a0 a1 a2 sched1 sched2 :
    minitS a0 -> run asys sys_event (mstepS bm be) a0 sched1 a1 -> run asys sys_event (mstepS bm be) a1 sched2 a2 ->
    forall x b,
      In x (sy_nodes (fst a1)) -> In b (sy_nodes (fst a2)) -> n_role b = Leader -> p_term (n_p x) < p_term (n_p b) ->
      (N.to_nat (n_commit x) <= length (p_log (n_p x)))%nat /\
      firstn (N.to_nat (n_commit x)) (p_log (n_p b)) = firstn (N.to_nat (n_commit x)) (p_log (n_p x)).
  Proof.
    intros Hi Hr1 Hr2 x b Hx Hb Hlb Htb.
    destruct (MS_run _ _ _ _ _ _ _ _ (MS_init a0 Hi) Hr1) as [G1 [A1 [CL1 [GR1 [GL1 [M1 _]]]]]].
    destruct (MS_run _ _ _ _ _ _ _ _ M1 Hr2) as [G2 [A2 [CL2 [GR2 [GL2 [M2 [HG HA]]]]]]].
    pose proof (k_g _ _ _ _ _ (w_k _ _ _ _ _ _ _ _ (ms_w _ _ _ _ _ _ _ _ M1))) as GI1.
    pose proof (k_g _ _ _ _ _ (w_k _ _ _ _ _ _ _ _ (ms_w _ _ _ _ _ _ _ _ M2))) as GI2.
    pose proof (in_get_node _ _ (LogMatchM.g_nd _ _ _ _ GI1) Hx) as Gx.
    pose proof (in_get_node _ _ (LogMatchM.g_nd _ _ _ _ GI2) Hb) as Gb.
    destruct (ms_cn _ _ _ _ _ _ _ _ M1 _ _ Gx) as [Hcl Hcp]. split; [exact Hcl|].
    destruct Hcp as [Z | [T [P [Cm [HT Hp]]]]]; [rewrite Z; reflexivity|].
    pose proof (committedM_mono G1 G2 A1 A2 T P HG HA Cm) as Cm2.
    pose proof (LogMatchM.g_rec_leader _ _ _ _ GI2 _ _ Gb Hlb) as Rb.
    pose proof (committedM_kept bm be _ _ _ _ _ _ M2 T P _ _ _ Cm2 Rb ltac:(lia)) as K.
    set (c := N.to_nat (n_commit x)) in *.
    assert (Hlen : length (firstn c (p_log (n_p x))) = c) by (rewrite firstn_length; lia).
    assert (HcP : (c <= length P)%nat) by (destruct Hp as [w Hw]; rewrite Hw, app_length; lia).
    assert (E1 : firstn c P = firstn c (p_log (n_p x))).
    { destruct Hp as [w Hw]. rewrite Hw. rewrite firstn_app, Hlen, Nat.sub_diag. simpl. rewrite app_nil_r. rewrite firstn_firstn, Nat.min_id. reflexivity. }
    rewrite <- E1. unfold keeps in K. rewrite <- K. rewrite firstn_firstn, Nat.min_l by lia. reflexivity.
  Qed.

  (* entries handed to the state machine by any two nodes at any two moments with the same index are equal *)
  Theorem state_machine_safety_membership_change_sys a0 a1 a2 sched1 sched2 :
    minitS a0 -> run asys sys_event (mstepS bm be) a0 sched1 a1 -> run asys sys_event (mstepS bm be) a1 sched2 a2 ->
    forall n1 n2 x y,
      In n1 (sy_nodes (fst a1)) -> In n2 (sy_nodes (fst a2)) -> In x (n_commits n1) -> In y (n_commits n2) ->
      e_index x = e_index y -> x = y.
  Proof.
    intros Hi Hr1 Hr2 n1 n2 x y Hn1 Hn2 Hx Hy Ei.
    pose proof (MS_init a0 Hi) as M0.
    assert (AO0 : appl_okM a0).
    { intros i s G z Hz. apply get_node_in in G. destruct G as [G _]. destruct Hi as [_ Hl]. destruct (Hl s G) as [_ [_ [_ [_ E]]]].
      rewrite E in Hz. contradiction. }
    destruct (MS_run _ _ _ _ _ _ _ _ M0 Hr1) as [G1 [A1 [CL1 [GR1 [GL1 [M1 _]]]]]].
    pose proof (appl_run _ _ _ _ _ _ _ _ M0 AO0 Hr1) as AO1.
    destruct (MS_run _ _ _ _ _ _ _ _ M1 Hr2) as [G2 [A2 [CL2 [GR2 [GL2 [M2 [HG HA]]]]]]].
    pose proof (appl_run _ _ _ _ _ _ _ _ M1 AO1 Hr2) as AO2.
    pose proof (k_g _ _ _ _ _ (w_k _ _ _ _ _ _ _ _ (ms_w _ _ _ _ _ _ _ _ M1))) as GI1.
    pose proof (k_g _ _ _ _ _ (w_k _ _ _ _ _ _ _ _ (ms_w _ _ _ _ _ _ _ _ M2))) as GI2.
    pose proof (in_get_node _ _ (LogMatchM.g_nd _ _ _ _ GI1) Hn1) as Ga.
    pose proof (in_get_node _ _ (LogMatchM.g_nd _ _ _ _ GI2) Hn2) as Gb.
    assert (Hpos : forall a G A CL GR GL (M : MS bm be a G A CL GR GL) s z,
               get_node (n_id s) (sy_nodes (fst a)) = Some s -> In z (p_log (n_p s)) -> e_index z <= n_commit s ->
               exists T P, committedM G A T P /\ nth_error P (N.to_nat (e_index z) - 1) = Some z /\ 1 <= e_index z).
    { intros a G A CL GR GL M s z Gz Hz Hb0.
      pose proof (k_g _ _ _ _ _ (w_k _ _ _ _ _ _ _ _ (ms_w _ _ _ _ _ _ _ _ M))) as GI.
      destruct (LogMatchM.g_base _ _ _ _ GI _ _ Gz) as [_ [Wf _]]. apply In_nth_error in Hz. destruct Hz as [kz Hk].
      pose proof (wf_from_nth _ _ _ _ Wf Hk) as Iz.
      destruct (ms_cn _ _ _ _ _ _ _ _ M _ _ Gz) as [Hcl [Z | [T [P [Cm [_ [w Hw]]]]]]]; [lia|].
      exists T, P. split; [exact Cm|]. split; [| lia].
      replace (N.to_nat (e_index z) - 1)%nat with kz by lia.
      rewrite Hw. rewrite nth_error_app1 by (rewrite firstn_length; lia). rewrite nth_error_firstn'.
      assert (Y : (kz <? N.to_nat (n_commit s))%nat = true) by (apply Nat.ltb_lt; lia). rewrite Y. exact Hk. }
    destruct (AO1 _ _ Ga x Hx) as [Lx Bx]. destruct (AO2 _ _ Gb y Hy) as [Ly By].
    destruct (Hpos _ _ _ _ _ _ M1 n1 x Ga Lx Bx) as [Tx [Px [Cx [Nx Ix]]]].
    destruct (Hpos _ _ _ _ _ _ M2 n2 y Gb Ly By) as [Ty [Py [Cy [Ny Iy]]]].
    pose proof (committedM_mono G1 G2 A1 A2 Tx Px HG HA Cx) as Cx2.
    pose proof (committedM_comparable _ _ _ _ _ _ _ _ _ _ M2 Cx2 Cy) as Cmp.
    rewrite Ei in Nx.
    assert (H1 : (S (N.to_nat (e_index y) - 1) <= length Px)%nat) by (eapply nth_len; eauto).
    assert (H2 : (S (N.to_nat (e_index y) - 1) <= length Py)%nat) by (eapply nth_len; eauto).
    pose proof (comparable_firstn _ _ _ Cmp H1 H2) as Pf. apply firstn_nth_eq in Pf. congruence.
  Qed.
End Run.
