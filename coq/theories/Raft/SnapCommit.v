(* Raft/SnapCommit.v — round 4 (A): a snapshot covers only committed entries, node level, ALL events (including InstallSnapshot
   deliveries, SnapshotDone with metadata of an applied position, AddNode/RemoveNode, Restart) and all crash points:
   if the snapshot index of a node is at most its commit index before an event, so it is afterwards.
   Relation [sk]: the commit index does not decrease and either the snapshot is untouched or it is within the new commit
   index.  Same skeleton as Raft/NodeMono.v. *)
From Coq Require Import List NArith ZArith Bool Lia.
From BLB Require Import Raft.Core Raft.NodeProofs.
Import ListNotations.
Open Scope N_scope.

Definition snle (s : node) : Prop := forall m, p_snap (n_p s) = Some m -> sn_index m <= n_commit s.

Definition sk (s s' : node) : Prop :=
  n_commit s <= n_commit s' /\ (p_snap (n_p s') = p_snap (n_p s) \/ snle s').

Lemma sk_refl s : sk s s.
Proof. split; [lia | left; reflexivity]. Qed.

Lemma sk_trans a b c : sk a b -> sk b c -> sk a c.
Proof.
  intros [A1 A2] [B1 B2]. split; [lia|]. destruct B2 as [B2 | B2]; [| right; exact B2].
  destruct A2 as [A2 | A2]; [left; congruence | right]. intros m Hm. rewrite B2 in Hm. specialize (A2 m Hm). lia.
Qed.

Lemma sk_snle s s' : snle s -> sk s s' -> snle s'.
Proof. intros H [A [B | B]]; [| exact B]. intros m Hm. rewrite B in Hm. specialize (H m Hm). lia. Qed.

Lemma sk_vol s s' : n_commit s <= n_commit s' -> p_snap (n_p s') = p_snap (n_p s) -> sk s s'.
Proof. intros A B. split; [exact A | left; exact B]. Qed.

Definition kx (s : node) (r : R node) : Prop := match r with Ret s' => sk s s' | _ => True end.
Definition kx2 (s : node) (r : R (N * node)) : Prop := match r with Ret (_, s') => sk s s' | _ => True end.

Lemma kx_bind s (a : R node) (f : node -> R node) :
  kx s a -> (forall s1, kx s1 (f s1)) -> kx s (bind a f).
Proof.
  intros Ha Hf. destruct a as [s1 | c | p]; simpl in *; auto.
  specialize (Hf s1). destruct (f s1); simpl in *; auto. eapply sk_trans; eauto.
Qed.

Lemma kx_bind_pure {A} s (a : R A) (f : A -> R node) :
  (forall x, a = Ret x -> kx s (f x)) -> kx s (bind a f).
Proof. intros Hf. destruct a; simpl in *; auto. Qed.

Lemma kx_pre s s' r : sk s s' -> kx s' r -> kx s r.
Proof. intros H K. destruct r; simpl in *; auto. eapply sk_trans; eauto. Qed.

Lemma kx2_bind s (a : R node) (f : node -> R (N * node)) :
  kx s a -> (forall s1, kx2 s1 (f s1)) -> kx2 s (bind a f).
Proof.
  intros Ha Hf. destruct a as [s1 | c | p]; simpl in *; auto.
  specialize (Hf s1). destruct (f s1) as [[st s2] | |]; simpl in *; auto. eapply sk_trans; eauto.
Qed.

Lemma kx2_bind_pure {A} s (a : R A) (f : A -> R (N * node)) :
  (forall x, a = Ret x -> kx2 s (f x)) -> kx2 s (bind a f).
Proof. intros Hf. destruct a; simpl in *; auto. Qed.

Lemma kx2_pre s s' r : sk s s' -> kx2 s' r -> kx2 s r.
Proof. intros H K. destruct r as [[st x] | |]; simpl in *; auto. eapply sk_trans; eauto. Qed.

Lemma kx2_of_kx s r st : kx s r -> kx2 s (s1 <- r ;; Ret (st, s1)).
Proof. destruct r; simpl; auto. Qed.

Ltac kvol := apply sk_vol; simpl; auto; try lia.
Ltac kleaf := simpl; solve [kvol].
Ltac ksend := kleaf.

Definition keeps_snap (m : mut) : Prop := match m with MSnapCommit _ => False | _ => True end.

Lemma kx_do_mut s m : keeps_snap m -> kx s (do_mut m s).
Proof.
  intro H. unfold do_mut. destruct (negb (n_budget s =? 0) && (n_budget s =? n_cnt s + 1)); simpl; auto.
  apply sk_vol; simpl; [lia|]. destruct m; simpl; try reflexivity. contradiction.
Qed.

Lemma kx_do_mut_snap s m : sn_index m <= n_commit s -> kx s (do_mut (MSnapCommit m) s).
Proof.
  intro H. unfold do_mut. destruct (negb (n_budget s =? 0) && (n_budget s =? n_cnt s + 1)); simpl; auto.
  split; simpl; [lia|]. right. intros m' Hm. simpl in Hm. inversion Hm. subst. exact H.
Qed.

(* ---------------------------------------------------------------- handlers *)
Lemma kx_log_append s es : kx s (log_append s es).
Proof.
  unfold log_append. apply kx_bind; [apply kx_do_mut; exact I|].
  intros s1. destruct (snd (mem_append (p_log (n_p s)) es)); simpl; auto using sk_refl.
Qed.

Lemma kx_commit_up_to s i : n_commit s <= i -> kx s (commit_up_to s i).
Proof.
  intro Hi. unfold commit_up_to.
  destruct (p_snap (n_p s)) as [m |].
  - destruct (n_commit s <? sn_index m) eqn:E.
    + apply N.ltb_lt in E. destruct (negb (sn_index m =? i)) eqn:E3; simpl; auto. kvol.
    + apply kx_bind_pure. intros ents _.
      match goal with |- kx s (if ?c then _ else _) => destruct c end; [| kleaf].
      match goal with |- kx s (match ?x with _ => _ end) => destruct x eqn:E2 end; simpl; auto.
      eapply kx_pre; [| apply kx_do_mut; exact I]. kvol.
  - apply kx_bind_pure. intros ents _.
    match goal with |- kx s (if ?c then _ else _) => destruct c end; [| kleaf].
    match goal with |- kx s (match ?x with _ => _ end) => destruct x eqn:E2 end; simpl; auto.
    eapply kx_pre; [| apply kx_do_mut; exact I]. kvol.
Qed.

Lemma kx_trim_log s i : kx s (trim_log s i).
Proof.
  unfold trim_log. destruct (log_first (p_log (n_p s))); [| kleaf]. destruct (log_last (p_log (n_p s))); [| kleaf].
  destruct (i =? n - 1); [kleaf|]. destruct ((i <? n) || (n0 <? i)); simpl; auto.
  destruct (i - n <? cf_keep (n_cfg s)); [kleaf|]. apply kx_do_mut; exact I.
Qed.

Lemma kx_send_app_ents s p : kx s (send_app_ents s p).
Proof.
  unfold send_app_ents. apply kx_bind_pure. intros ob Hob.
  destruct ob as [b |].
  - kleaf.
  - destruct (p_snap (n_p s)); simpl; auto. destruct (sn_conf s0); simpl; auto. kvol.
Qed.

Lemma kx_for_peers ids f s :
  (forall s1 p, kx s1 (f s1 p)) -> kx s (for_peers ids f s).
Proof.
  intro Hf. revert s. induction ids as [| id r IH]; intros s; simpl.
  - apply sk_refl.
  - destruct (peer_get id (l_peers s)); auto. apply kx_bind; auto.
Qed.

Lemma kx_leader_commit_up_to s i : n_commit s <= i -> kx s (leader_commit_up_to s i).
Proof.
  intro Hi. unfold leader_commit_up_to. apply kx_bind; [apply kx_commit_up_to; exact Hi|]. intros s1.
  match goal with |- kx s1 (if ?c then _ else _) => destruct c end; kleaf.
Qed.

Lemma kx_leader_maybe_commit s : kx s (leader_maybe_commit s).
Proof.
  unfold leader_maybe_commit. apply kx_bind_pure. intros mi _.
  destruct (n_commit s <? mi) eqn:Ec; [| kleaf]. apply N.ltb_lt in Ec.
  apply kx_bind_pure. intros [t ok] _.
  destruct (negb ok); simpl; auto. destruct (negb (t =? p_term (n_p s))); [kleaf|].
  apply kx_bind; [apply kx_leader_commit_up_to; lia|]. intros s1.
  apply kx_for_peers. intros s2 p. destruct (pr_match p =? last_index (n_p s2)); [apply kx_send_app_ents | kleaf].
Qed.

Lemma kx_fold_enter (others : list nid) li : forall (acc : R node) s,
  kx s acc ->
  kx s (fold_left (fun (acc : R node) (m : nid) =>
                     a <- acc ;;
                     let p := mk_peer m (li + 1) 0 false 0 0 in
                     let a1 := set_leader a (l_check a) (peer_set p (l_peers a)) in
                     send_app_ents a1 p) others acc).
Proof.
  induction others as [| m r IH]; intros acc s H; simpl; auto.
  apply IH. apply kx_bind; auto. intros s1.
  eapply kx_pre; [| apply kx_send_app_ents]. kvol.
Qed.

Lemma kx_enter_leader s : kx s (enter_leader s).
Proof.
  unfold enter_leader. destruct (n_conf s); simpl; auto.
  apply kx_bind.
  - apply kx_fold_enter. kleaf.
  - intros s1. destruct (l_peers s1); [apply kx_leader_maybe_commit | kleaf].
Qed.

Lemma kx_tick_leader s : kx s (tick_leader s).
Proof.
  unfold tick_leader. apply kx_bind.
  - apply kx_for_peers. intros s2 p. destruct (should_send s2 p); [apply kx_send_app_ents | kleaf].
  - intros s1.
    match goal with |- kx s1 (if ?c then _ else _) => destruct c end; [| kleaf].
    apply kx_bind_pure. intros ok _. destruct ok; kleaf.
Qed.

Lemma kx_handle_app_ents_resp s from su ix hi : kx s (handle_app_ents_resp s from su ix hi).
Proof.
  unfold handle_app_ents_resp. destruct (peer_get from (l_peers s)); [| kleaf].
  destruct (ix <? pr_match p); [kleaf|]. destruct (negb su).
  - eapply kx_pre; [| apply kx_send_app_ents]. kvol.
  - match goal with |- kx s (if ?c then _ else _) => destruct c end; simpl; auto.
    apply kx_bind.
    + match goal with |- kx s (if ?c then _ else _) => destruct c end.
      * eapply kx_pre; [| apply kx_send_app_ents]. kvol.
      * kleaf.
    + intros s2. apply kx_leader_maybe_commit.
Qed.

Lemma kx_leader_propose s es : kx s (leader_propose s es).
Proof.
  unfold leader_propose. apply kx_bind; [apply kx_log_append|]. intros s1.
  apply kx_bind.
  - apply kx_for_peers. intros s3 p.
    match goal with |- kx s3 (if ?c then _ else _) => destruct c end; [apply kx_send_app_ents | kleaf].
  - intros s2. destruct (l_peers s2); [apply kx_leader_maybe_commit | kleaf].
Qed.

Lemma kx2_leader_add_node s m rnd : kx2 s (leader_add_node s m rnd).
Proof.
  unfold leader_add_node. apply kx2_bind_pure. intros _ _.
  destruct (n_conf s); simpl; auto.
  destruct (memb m (mb_members m0)); [simpl; apply sk_refl|].
  destruct (negb (latest_conf_committed s)); [simpl; apply sk_refl|].
  eapply kx2_pre; [| apply kx2_of_kx; apply kx_leader_propose]. kvol.
Qed.

Lemma kx2_leader_remove_node s m : kx2 s (leader_remove_node s m).
Proof.
  unfold leader_remove_node. apply kx2_bind_pure. intros _ _.
  destruct (n_conf s); simpl; auto.
  destruct (negb (memb m (mb_members m0))); [simpl; apply sk_refl|].
  destruct (negb (latest_conf_committed s)); [simpl; apply sk_refl|].
  eapply kx2_pre; [| apply kx2_bind; [apply kx_leader_propose |]].
  - kvol.
  - intros s3. apply kx2_of_kx. apply kx_leader_maybe_commit.
Qed.

Lemma kx_handle_leader s m : kx s (handle_leader s m).
Proof.
  unfold handle_leader. destruct (m_body m).
  - exact I.
  - apply kx_handle_app_ents_resp.
  - kleaf.
  - kleaf.
  - exact I.
Qed.

Lemma kx_follower_maybe_commit s lc mi : kx s (follower_maybe_commit s lc mi).
Proof.
  unfold follower_maybe_commit. destruct (n_commit s <? N.min mi lc) eqn:E; [| kleaf].
  apply N.ltb_lt in E. apply kx_commit_up_to. lia.
Qed.

Lemma fold_conf_sk (app : list entry) : forall s,
  sk s (fold_left (fun a e => if e_type e =? EntryConf then set_conf a (decode_conf e) else a) app s).
Proof.
  induction app as [| e r IH]; intros s; simpl; [apply sk_refl|].
  destruct (e_type e =? EntryConf); [| apply IH].
  eapply sk_trans; [| apply IH]. kvol.
Qed.

Lemma kx_handle_app_ents s from pi pt cm oes : kx s (handle_app_ents s from pi pt cm oes).
Proof.
  unfold handle_app_ents.
  eapply kx_pre with (s' := set_follower_contact s); [kvol|].
  set (s0 := set_follower_contact s).
  apply kx_bind_pure. intros ok _.
  destruct (negb ok); [kleaf|].
  destruct oes as [ents |].
  2: { eapply kx_pre; [| apply kx_follower_maybe_commit]. ksend. }
  apply kx_bind_pure. intros [ci any] _.
  apply kx_bind.
  - destruct any; [| kleaf]. apply kx_bind; [apply kx_do_mut; exact I|]. intros s'.
    destruct (n_conf s'); [| kleaf]. destruct (ci <=? mb_index m); kleaf.
  - intros s1.
    destruct (last_ent_index ents <=? last_index (n_p s1)).
    + eapply kx_pre; [| apply kx_follower_maybe_commit]. ksend.
    + destruct ents as [| e0 r]; simpl; auto.
      match goal with |- kx s1 (if ?c then _ else _) => destruct c end; simpl; auto.
      match goal with |- kx s1 (match ?x with _ => _ end) => destruct x as [| a0 ar] eqn:Eapp end; simpl; auto.
      match goal with |- kx s1 (if ?c then _ else _) => destruct c end; simpl; auto.
      match goal with |- kx s1 (bind (log_append ?x _) _) =>
        eapply kx_pre with (s' := x); [apply (fold_conf_sk (a0 :: ar) s1) |] end.
      apply kx_bind; [apply kx_log_append|]. intros s3.
      eapply kx_pre; [| apply kx_follower_maybe_commit]. ksend.
Qed.

Lemma do_mut_ret m s s1 : do_mut m s = Ret s1 -> n_commit s1 = n_commit s /\ n_p s1 = apply_mut (n_p s) m.
Proof.
  unfold do_mut. destruct (negb (n_budget s =? 0) && (n_budget s =? n_cnt s + 1)); [discriminate|].
  intro H. inversion H. simpl. auto.
Qed.

Lemma trim_log_ret s i s1 : trim_log s i = Ret s1 -> n_commit s1 = n_commit s /\ p_snap (n_p s1) = p_snap (n_p s).
Proof.
  unfold trim_log. destruct (log_first (p_log (n_p s))); [| intro H; inversion H; auto].
  destruct (log_last (p_log (n_p s))); [| intro H; inversion H; auto].
  destruct (i =? n - 1); [intro H; inversion H; auto|]. destruct ((i <? n) || (n0 <? i)); [discriminate|].
  destruct (i - n <? cf_keep (n_cfg s)); [intro H; inversion H; auto|].
  intro H. apply do_mut_ret in H. destruct H as [A B]. rewrite B. simpl. auto.
Qed.

Lemma kx_handle_snapshot s from li lt c : kx s (handle_snapshot s from li lt c).
Proof.
  unfold handle_snapshot.
  eapply kx_pre with (s' := set_follower_contact s); [kvol|].
  set (s0 := set_follower_contact s).
  match goal with |- kx s0 (match ?x with _ => _ end) => destruct x end; [kleaf|].
  set (M := {| sn_index := li; sn_term := lt; sn_conf := Some c |}).
  destruct (do_mut (MSnapCommit M) s0) as [s1 | |] eqn:E1; simpl; auto.
  apply do_mut_ret in E1. destruct E1 as [C1 P1].
  destruct (in_log (n_p s1) li lt) as [il | |]; simpl; auto.
  assert (H2 : forall s2, (if il then trim_log s1 li else s' <- do_mut (MTruncate 0) s1;; Ret (set_conf s' (Some c))) = Ret s2 ->
               n_commit s2 = n_commit s0 /\ p_snap (n_p s2) = Some M).
  { intros s2. destruct il.
    - intro H. apply trim_log_ret in H. destruct H as [A B]. rewrite A, B, C1, P1. simpl. auto.
    - destruct (do_mut (MTruncate 0) s1) as [x | |] eqn:E2; simpl; try discriminate.
      apply do_mut_ret in E2. destruct E2 as [A B]. intro H. inversion H. subst. simpl. rewrite A, B, C1, P1. simpl. auto. }
  destruct (if il then trim_log s1 li else s' <- do_mut (MTruncate 0) s1;; Ret (set_conf s' (Some c))) as [s2 | |]; simpl; auto.
  destruct (H2 s2 eq_refl) as [C2 P2]. subst M.
  destruct (n_commit s2 <? li) eqn:E3.
  - apply N.ltb_lt in E3. unfold commit_up_to. rewrite P2. simpl.
    assert (X : (n_commit s2 <? li) = true) by (apply N.ltb_lt; exact E3). rewrite X. rewrite N.eqb_refl. simpl.
    simpl in C2. split; simpl; [lia|]. right. intros m Hm. simpl in Hm. rewrite P2 in Hm. inversion Hm. simpl. lia.
  - apply N.ltb_ge in E3. simpl in C2. simpl. split; simpl; [lia|]. right. intros m Hm. simpl in Hm. rewrite P2 in Hm. inversion Hm. simpl. lia.
Qed.

Lemma kx_snapshot_done s m : sn_index m <= n_commit s -> kx s (snapshot_done s m).
Proof.
  intro Hl. unfold snapshot_done.
  match goal with |- kx s (if ?c then _ else _) => destruct c end; [kleaf|].
  apply kx_bind; [apply kx_do_mut_snap; exact Hl | intros; apply kx_trim_log].
Qed.

Lemma kx2_propose s es : kx2 s (propose s es).
Proof.
  unfold propose. destruct (n_role s); try (simpl; apply sk_refl).
  apply kx2_of_kx. apply kx_leader_propose.
Qed.

Lemma kx2_add_node s m rnd : kx2 s (add_node s m rnd).
Proof. unfold add_node. destruct (n_role s); try (simpl; apply sk_refl). apply kx2_leader_add_node. Qed.

Lemma kx2_remove_node s m : kx2 s (remove_node s m).
Proof. unfold remove_node. destruct (n_role s); try (simpl; apply sk_refl). apply kx2_leader_remove_node. Qed.

(* ---------------------------------------------------------------- the remaining handlers *)
Lemma kx_become_leader s : kx s (become_leader s).
Proof. unfold become_leader. eapply kx_pre; [| apply kx_enter_leader]. kvol. Qed.

Lemma kx_check_if_elected s : kx s (check_if_elected s).
Proof.
  unfold check_if_elected. destruct (n_conf s); simpl; auto.
  destruct (quorum m <=? N.of_nat (length (c_votes s))); [apply kx_become_leader | kleaf].
Qed.

Lemma fold_send_sk (ms : list nid) b : forall s,
  sk s (fold_left (fun a m => if m =? n_id a then a else send a m b) ms s).
Proof.
  induction ms as [| m r IH]; intros s; simpl; [apply sk_refl|].
  destruct (m =? n_id s); [apply IH|]. eapply sk_trans; [| apply IH]. kvol.
Qed.

Lemma kx_enter_candidate s : kx s (enter_candidate s).
Proof.
  unfold enter_candidate.
  match goal with |- kx s (if ?c then _ else _) => destruct c end; [kleaf|].
  eapply kx_pre with (s' := set_candidate s (c_timeout s) []); [kvol|].
  apply kx_bind; [apply kx_do_mut; exact I|]. intros s1.
  set (s2 := if in_latest_conf s1 then set_candidate s1 (c_timeout s1) (set_add (n_id s1) (c_votes s1)) else s1).
  assert (H2 : sk s1 s2) by (unfold s2; destruct (in_latest_conf s1); [kvol | apply sk_refl]).
  eapply kx_pre; [exact H2|].
  apply kx_bind_pure. intros [lt ok] _.
  destruct (negb ok); simpl; auto. destruct (n_conf s2); simpl; auto.
  match goal with |- kx s2 (check_if_elected (set_candidate ?x _ _)) =>
    eapply kx_pre with (s' := x); [apply fold_send_sk|];
    eapply kx_pre; [| apply kx_check_if_elected]; kvol end.
Qed.

Lemma kx_become_candidate s : kx s (become_candidate s).
Proof. unfold become_candidate. eapply kx_pre; [| apply kx_enter_candidate]. kvol. Qed.

Lemma kx_handle_candidate s m : kx s (handle_candidate s m).
Proof.
  unfold handle_candidate. destruct (m_body m); try exact I; try kleaf.
  destruct granted; [| kleaf]. eapply kx_pre; [| apply kx_check_if_elected]. kvol.
Qed.

Lemma kx_follower_note_leader s from : kx s (follower_note_leader s from).
Proof.
  unfold follower_note_leader. apply kx_bind.
  - destruct (p_vote (n_p s) =? 0); [apply kx_do_mut; exact I | kleaf].
  - intros s1. destruct (n_leader s1 =? 0); [kleaf|]. destruct (negb (n_leader s1 =? from)); simpl; auto using sk_refl.
Qed.

Lemma kx_handle_follower s m : kx s (handle_follower s m).
Proof.
  unfold handle_follower. destruct (m_body m); try kleaf.
  - apply kx_bind; [apply kx_follower_note_leader|]. intros; apply kx_handle_app_ents.
  - apply kx_bind_pure. intros g _. apply kx_bind.
    + destruct g; [apply kx_do_mut; exact I | kleaf].
    + intros; kleaf.
  - apply kx_bind; [apply kx_follower_note_leader|]. intros; apply kx_handle_snapshot.
Qed.

Lemma kx_handle_by_role s m : kx s (handle_by_role s m).
Proof.
  unfold handle_by_role. destruct (n_role s); [apply kx_handle_follower | apply kx_handle_candidate | apply kx_handle_leader].
Qed.

Lemma kx_handle_msg s m : kx s (handle_msg s m).
Proof.
  unfold handle_msg.
  match goal with |- kx s (if ?c then _ else _) => destruct c end; [kleaf|].
  match goal with |- kx s (if ?c then _ else _) => destruct c end; [kleaf|].
  apply kx_bind.
  - match goal with |- kx s (if ?c then _ else _) => destruct c end; [apply kx_do_mut; exact I | kleaf].
  - intros s1.
    match goal with |- kx s1 (if ?c then _ else _) => destruct c end; [kleaf|].
    destruct (m_term m <? p_term (n_p s1)); [kleaf|].
    apply kx_bind; [| intros; apply kx_handle_by_role].
    destruct (p_term (n_p s1) <? m_term m); [| kleaf].
    destruct (m_body m); simpl; auto; (apply kx_bind; [apply kx_do_mut; exact I | intros; kleaf]).
Qed.

Lemma kx_tick s : kx s (tick s).
Proof.
  unfold tick.
  set (s0 := set_elapsed s ((n_elapsed s + 1) mod 4294967296)).
  eapply kx_pre with (s' := s0); [kvol|].
  destruct (n_role s0).
  - match goal with |- kx s0 (if ?c then _ else _) => destruct c end; [apply kx_become_candidate | kleaf].
  - match goal with |- kx s0 (if ?c then _ else _) => destruct c end; [apply kx_become_candidate | kleaf].
  - apply kx_tick_leader.
Qed.

Lemma kx2_propose_initial s ms ep : kx2 s (propose_initial_membership s ms ep).
Proof.
  unfold propose_initial_membership.
  destruct (n_role s); try (simpl; apply sk_refl).
  destruct (is_clean (n_p s)); [| simpl; apply sk_refl].
  apply kx2_bind; [apply kx_do_mut; exact I|]. intros s1.
  apply kx2_bind; [apply kx_log_append|]. intros s2. simpl. kvol.
Qed.


(* ---------------------------------------------------------------- every event, with a crash point *)
Lemma commit_up_to_ret s i s1 : commit_up_to s i = Ret s1 -> n_commit s1 = i /\ p_snap (n_p s1) = p_snap (n_p s).
Proof.
  unfold commit_up_to.
  match goal with |- (match ?x with _ => _ end) = _ -> _ => destruct x as [m |] end.
  - destruct (negb (sn_index m =? i)) eqn:E; [discriminate|]. apply negb_false_iff in E. apply N.eqb_eq in E.
    intro H. inversion H. simpl. auto.
  - destruct (log_entries (n_p s) (n_commit s + 1) (i + 1)) as [ents | |]; simpl; try discriminate.
    match goal with |- (if ?c then _ else _) = _ -> _ => destruct c end.
    + match goal with |- (match ?x with _ => _ end) = _ -> _ => destruct x end; [| discriminate].
      intro H. apply do_mut_ret in H. destruct H as [A B]. rewrite A, B. simpl. auto.
    + intro H. inversion H. simpl. auto.
Qed.

Lemma new_core_snle id cfg p s' : new_core id cfg p = Ret s' -> snle s'.
Proof.
  unfold new_core.
  destruct (reconcile (blank_node id cfg p)) as [r | |]; simpl; try discriminate.
  set (s0 := set_conf (blank_node id cfg (n_p r)) (init_latest_conf (n_p r))).
  destruct (p_snap (n_p r)) as [m |] eqn:Es.
  - destruct (commit_up_to s0 (sn_index m)) as [s1 | |] eqn:Ec; simpl; try discriminate.
    apply commit_up_to_ret in Ec. destruct Ec as [A B]. intro H. inversion H. subst. unfold snle. simpl. rewrite B. simpl. rewrite Es.
    intros m' Hm. inversion Hm. subst. lia.
  - simpl. intro H. inversion H. subst. unfold snle. simpl. rewrite Es. intros m' Hm. discriminate.
Qed.

Theorem snapshot_within_commit s ev k crashed st s' :
  snle s -> (forall m, ev = ESnapDone m -> sn_index m <= n_commit s) ->
  run_event_crash (settle s) ev k = Ret (crashed, st, s') -> snle s'.
Proof.
  intros Hs Hev. unfold run_event_crash. set (s0 := with_budget (settle s) k).
  assert (Hs0 : snle s0) by exact Hs.
  destruct (run_event s0 ev) as [[st0 y] | c | p] eqn:E; try discriminate.
  - intro H. inversion H. subst.
    assert (A : snle y).
    { destruct ev; simpl in E.
      - pose proof (kx2_propose_initial s0 members epoch) as K. rewrite E in K. eapply sk_snle; eauto.
      - unfold wrap0 in E. pose proof (kx_handle_msg s0 m) as K. destruct (handle_msg s0 m); simpl in E; try discriminate.
        inversion E. subst. eapply sk_snle; eauto.
      - unfold wrap0 in E. pose proof (kx_tick s0) as K. destruct (tick s0); simpl in E; try discriminate.
        inversion E. subst. eapply sk_snle; eauto.
      - pose proof (kx2_propose s0 es) as K. rewrite E in K. eapply sk_snle; eauto.
      - pose proof (kx2_add_node s0 member rnd) as K. rewrite E in K. eapply sk_snle; eauto.
      - pose proof (kx2_remove_node s0 member) as K. rewrite E in K. eapply sk_snle; eauto.
      - unfold wrap0 in E. pose proof (kx_snapshot_done s0 m (Hev m eq_refl)) as K. destruct (snapshot_done s0 m); simpl in E; try discriminate.
        inversion E. subst. eapply sk_snle; eauto.
      - unfold wrap0 in E. simpl in E.
        destruct (new_core (n_id s) (n_cfg s) (n_p s)) as [z | |] eqn:En; simpl in E; try discriminate.
        inversion E. subst. eapply new_core_snle; eauto. }
    exact A.
  - intro H. simpl in H.
    destruct (new_core (n_id s) (n_cfg s) p) as [z | |] eqn:En; simpl in H; try discriminate.
    inversion H. subst. eapply new_core_snle; eauto.
Qed.
