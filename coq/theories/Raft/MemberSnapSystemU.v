(* Raft/MemberSnapSystemU.v — round 12: Raft/MemberSnapSystem.v once more (generated from it) WITHOUT the restriction on deliveries:
   an InstallSnap may be delivered to a node that is leader (Raft/LeaderInstall.v: such a node, if it stays in its term, has
   changed neither log nor snapshot).
   Raft/MemberSnapSystem.v — round 11: the four clauses over the COMBINED alphabet (membership changes AND snapshots).
   The invariant MS of the membership-change rounds is maintained on the VIRTUAL system (every node replaced by its virtual node:
   logical log = ghost prefix ++ physical log, no snapshot; InstallSnap messages replaced by heartbeat images, delivered
   InstallSnaps by injected stand-in AppEnts), through the abstract step of Raft/MemberStepV.v. *)
From Coq Require Import List NArith ZArith Bool Lia ZifyN ZifyNat ZifyBool.
From BLB Require Import Lib.LTS Raft.Core Raft.Wire Raft.NodeProofs Raft.NodeKeep Raft.NodeElect Raft.NodeConf
  Raft.Election Raft.ElectionFixed Raft.LogMatchLists Raft.CommitCount Raft.LogMatchNode Raft.LogMatch Raft.Completeness Raft.CompletenessAck
  Raft.CompletenessVote Raft.MembershipQuorum Raft.NodeKeepV Raft.MemberNode Raft.MemberVotes Raft.MemberConfStep
  Raft.MemberPeers Raft.MemberConfTrack Raft.MemberLeaderOut Raft.MemberLeaderLog
  Raft.LogMatchNodeM Raft.LogMatchM Raft.CompletenessAckM Raft.MemberAbstract Raft.CompletenessVoteM Raft.MemberSafety Raft.MemberStep
  Raft.MemberRun Raft.MemberStepV Raft.SnapContig Raft.SnapCommit Raft.SnapIndexPos Raft.SnapConfTrack Raft.LogMatchNodeSQ Raft.LogMatchNodeSMQ Raft.SnapVirtualQ
  Raft.SnapEventsQ Raft.InvWeaken Raft.MemberSnapNode Raft.MemberSnapLeader Raft.SnapMetaPass.
From BLB Require Import Raft.LeaderInstall.
From BLB Require Import Raft.LogMatchNodeQ Raft.LogMatchNodeMQ Raft.LogMatchNodeSQ.
Import ListNotations.
Open Scope N_scope.

Definition vinj (σ : sys) (m : msg) : sys :=
  {| sy_nodes := sy_nodes σ; sy_soup := sy_soup σ ++ [m]; sy_cast := sy_cast σ; sy_hist := sy_hist σ |}.
Definition is_ae (m : msg) : Prop := exists pi pt cm oe, m_body m = AppEnts pi pt cm oe.

Section Inject.
  Variables (bm : list nid) (be : N).

  Lemma ginvM_inject σ G m : ginvM bm be σ G -> msg_ok3 G m -> ginvM bm be (vinj σ m) G.
  Proof.
    intros GI Hk. destruct GI. constructor; simpl; auto.
    intros m0 H0. apply in_app_or in H0. destruct H0 as [H0 | [E | []]]; [auto | subst; exact Hk].
  Qed.

  Lemma ackinvM_inject σ G A m : ackinvM bm be σ G A -> is_ae m -> msg_ok3 G m -> ackinvM bm be (vinj σ m) G A.
  Proof.
    intros KI [pi [pt [cm [oe Hb]]]] Hk. destruct KI. constructor; simpl; auto.
    - apply ginvM_inject; auto.
    - intros m0 idx h H0 Hb0. apply in_app_or in H0. destruct H0 as [H0 | [E | []]]; [eauto | subst; congruence].
  Qed.

  Lemma voteinvM_inject σ G A CL GR GL m :
    voteinvM bm be σ G A CL GR GL -> is_ae m -> msg_ok3 G m -> voteinvM bm be (vinj σ m) G A CL GR GL.
  Proof.
    intros WI Ha Hk. pose proof Ha as [pi [pt [cm [oe Hb]]]]. destruct WI. constructor; simpl; auto.
    - apply ackinvM_inject; auto.
    - intros m0 li lt H0 Hb0. apply in_app_or in H0. destruct H0 as [H0 | [E | []]]; [eauto | subst; congruence].
    - intros m0 H0 Hb0. apply in_app_or in H0. destruct H0 as [H0 | [E | []]]; [eauto | subst; congruence].
  Qed.

  Lemma EM_inject σ EC m :
    EM (σ, EC) -> is_ae m -> (forall x, get_node (m_from m) (sy_nodes σ) = Some x -> m_term m <= p_term (n_p x)) -> EM (vinj σ m, EC).
  Proof.
    intros E [pi [pt [cm [oe Hb]]]] Ht. destruct E. constructor; simpl in *; auto.
    - intros m0 H0 Hb0. apply in_app_or in H0. destruct H0 as [H0 | [X | []]]; [auto | subst; congruence].
    - intros m0 x H0 Gx. apply in_app_or in H0. destruct H0 as [H0 | [X | []]]; [eauto | subst; auto].
    - intros m0 x H0 Hv. apply in_app_or in H0. destruct H0 as [H0 | [X | []]]; [eauto|]. subst. destruct Hv as [li [lt Hv]]. congruence.
    - intros r H0 Hb0. apply in_app_or in H0. destruct H0 as [H0 | [X | []]]; [| subst; congruence].
      destruct (e_resp r H0 Hb0) as [q [Q1 Q2]]. exists q. split; [apply in_or_app; left; exact Q1 | exact Q2].
  Qed.

  Lemma MS_inject σ EC G A CL GR GL m :
    MS bm be (σ, EC) G A CL GR GL -> is_ae m -> msg_ok3 G m ->
    (forall x, get_node (m_from m) (sy_nodes σ) = Some x -> m_term m <= p_term (n_p x)) ->
    (forall pi pt cm oe, m_body m = AppEnts pi pt cm oe ->
       exists i l, In (m_term m, i, l) G /\ (N.to_nat cm <= length l)%nat /\ cprefixM G A (m_term m) l (N.to_nat cm)) ->
    MS bm be (vinj σ m, EC) G A CL GR GL.
  Proof.
    intros M Ha Hk Ht Hc. destruct M. constructor; cbn [fst snd] in *; auto.
    - apply EM_inject; auto.
    - apply voteinvM_inject; auto.
    - intros m0 pi pt cm oe H0 Hb0. simpl in H0. apply in_app_or in H0. destruct H0 as [H0 | [X | []]]; [eauto | subst; eauto].
  Qed.
End Inject.

(* ---------------------------------------------------------------- the vote invariant of the virtual system *)
Definition soup_rel (σ : sys) (S : list msg) : Prop :=
  (forall m, In m (sy_soup σ) -> In (img m) S) /\
  (forall m', In m' S -> exists m, In m (sy_soup σ) /\ m_from m' = m_from m /\ m_term m' = m_term m /\ m_to m' = m_to m /\
                                   (m' = img m \/ is_ae m')).

Lemma img_body_inv b b' : img_body b = b' -> (forall pi pt cm oe, b' <> AppEnts pi pt cm oe) -> b = b'.
Proof. destruct b; simpl; intros E H; auto. exfalso. eapply H. symmetry. exact E. Qed.

Lemma get_vsys Cf S σ i s : get_node i (sy_nodes σ) = Some s -> get_node i (sy_nodes (vsys Cf S σ)) = Some (vn (Cf i) s).
Proof.
  intro G. simpl. rewrite get_node_vsys, G. simpl. unfold vnode. destruct (get_node_in _ _ _ G) as [_ E]. rewrite E. reflexivity.
Qed.

Lemma EM_vsys Cf S σ EC : EM (σ, EC) -> soup_rel σ S -> EM (vsys Cf S σ, EC).
Proof.
  intros E [R1 R2]. destruct E. cbn [fst snd] in *. constructor; cbn [fst snd]; simpl sy_cast; simpl sy_hist; simpl sy_soup.
  - simpl. rewrite ids_vsys. exact e_nodup.
  - intros i s G. apply get_node_vsys_some in G. destruct G as [x [Gx Ex]]. subst s. simpl. eapply e_nz; eauto.
  - exact e_fun.
  - intros n t c Hin. destruct (e_cast n t c Hin) as [A [x [Gx [B D]]]]. split; auto.
    exists (vnode Cf x). split; [simpl; rewrite get_node_vsys, Gx; reflexivity | simpl; auto].
  - intros m' Hin Hb Hto. destruct (R2 m' Hin) as [m [Min [F1 [F2 [F3 F4]]]]].
    destruct F4 as [F4 | [pi [pt [cm [oe F4]]]]]; [| congruence].
    assert (Eb : m_body m = VoteResp true).
    { subst m'. simpl in Hb. apply (img_body_inv _ _ Hb). intros; discriminate. }
    rewrite F1, F2, F3. apply e_grant; auto. rewrite <- F3. exact Hto.
  - intros i s G Hr. apply get_node_vsys_some in G. destruct G as [x [Gx Ex]]. subst s. exact (e_votes i x Gx Hr).
  - intros m' x Hin G. apply get_node_vsys_some in G. destruct G as [y [Gy Ey]]. subst x.
    destruct (R2 m' Hin) as [m [Min [F1 [F2 _]]]]. rewrite F2. simpl. apply (e_mterm m y Min). rewrite <- F1. exact Gy.
  - intros m' x Hin Hv G Hr Ht. apply get_node_vsys_some in G. destruct G as [y [Gy Ey]]. subst x.
    destruct (R2 m' Hin) as [m [Min [F1 [F2 [F3 F4]]]]]. destruct Hv as [li [lt Hv]].
    destruct F4 as [F4 | [pi [pt [cm [oe F4]]]]]; [| congruence].
    assert (Eb : m_body m = VoteReq li lt).
    { subst m'. simpl in Hv. apply (img_body_inv _ _ Hv). intros; discriminate. }
    rewrite F3. simpl in Hr, Ht. apply (e_req m y Min); [exists li, lt; exact Eb | rewrite <- F1; exact Gy | exact Hr | rewrite <- F2; exact Ht].
  - intros r Hin Hb. destruct (R2 r Hin) as [m [Min [F1 [F2 [F3 F4]]]]].
    destruct F4 as [F4 | [pi [pt [cm [oe F4]]]]]; [| congruence].
    assert (Eb : m_body m = VoteResp true).
    { subst r. simpl in Hb. apply (img_body_inv _ _ Hb). intros; discriminate. }
    destruct (e_resp m Min Eb) as [q [Q1 [[li [lt Q2]] [Q3 [Q4 Q5]]]]].
    exists (img q). split; [apply R1; exact Q1|]. split; [exists li, lt; simpl; rewrite Q2; reflexivity|].
    simpl. rewrite F1, F2, F3. auto.
  - intros i s G Hr. apply get_node_vsys_some in G. destruct G as [x [Gx Ex]]. subst s. exact (e_cvm i x Gx Hr).
  - intros i s G Hr. apply get_node_vsys_some in G. destruct G as [x [Gx Ex]]. subst s. exact (e_lh i x Gx Hr).
  - exact e_hist.
Qed.

Lemma pfx_nth {A} (a b : list A) k x : pfx a b -> nth_error a k = Some x -> nth_error b k = Some x.
Proof. intros [y Hy] H. rewrite Hy. rewrite nth_error_app1; [exact H | apply nth_error_Some; congruence]. Qed.

Lemma pfx_nth_inv {A} (a b : list A) k x : pfx a b -> (k < length a)%nat -> nth_error b k = Some x -> nth_error a k = Some x.
Proof. intros [y Hy] Hk H. rewrite Hy in H. rewrite nth_error_app1 in H; auto. Qed.

Lemma pfx_length {A} (a b : list A) : pfx a b -> (length a <= length b)%nat.
Proof. intros [y Hy]. rewrite Hy, app_length. lia. Qed.

Section Agree.
  Variables (bm : list nid) (be : N).

  (* a record of a term not below the node's term agrees with the node's committed prefix wherever it is defined; and some record
     of that term, comparable with it, is at least as long as the committed prefix *)
  Lemma agree_committed σ EC G A CL GR GL i s U j l :
    MS bm be (σ, EC) G A CL GR GL -> get_node i (sy_nodes σ) = Some s -> In (U, j, l) G -> p_term (n_p s) <= U ->
    (forall k e, (k < N.to_nat (n_commit s))%nat -> nth_error l k = Some e -> nth_error (p_log (n_p s)) k = Some e) /\
    (exists j' l', In (U, j', l') G /\ (N.to_nat (n_commit s) <= length l')%nat /\ comparable l l').
  Proof.
    intros CI Gs Hr Ht. pose proof (ms_w _ _ _ _ _ _ _ _ CI) as WI. pose proof (k_g _ _ _ _ _ (w_k _ _ _ _ _ _ _ _ WI)) as GI. cbn [fst] in *.
    destruct (ms_cn _ _ _ _ _ _ _ _ CI i s Gs) as [Hcl Hcp]. set (c0 := N.to_nat (n_commit s)) in *. set (L := p_log (n_p s)) in *.
    destruct Hcp as [Z | [T0 [P [Cm [HT Hp]]]]].
    { split; [intros k e Hk; lia|]. exists j, l. split; [exact Hr|]. split; [lia | left; apply pfx_refl]. }
    assert (HPlen : (c0 <= length P)%nat).
    { apply pfx_length in Hp. rewrite firstn_length in Hp. lia. }
    assert (HPL : forall k e, (k < c0)%nat -> nth_error P k = Some e -> nth_error L k = Some e).
    { intros k e Hk He. assert (X : nth_error (firstn c0 L) k = Some e).
      { eapply pfx_nth_inv; [exact Hp | rewrite firstn_length; lia | exact He]. }
      rewrite nth_error_firstn' in X. destruct (k <? c0)%nat; [exact X | discriminate]. }
    pose proof Cm as [lT [Cc [[[iT [C1 Cnz]] _] C3]]].
    destruct (N.eq_dec T0 U) as [E | Ne].
    - rewrite E in C1. pose proof (g_cmp _ _ _ _ GI _ _ _ _ _ Hr C1) as Cmp. split.
      + intros k e Hk He. apply HPL; auto. apply (pfx_nth_inv P lT); [exact C3 | lia|].
        destruct Cmp as [X | X]; [eapply pfx_nth; eauto|]. eapply pfx_nth_inv; [exact X | | exact He].
        apply pfx_length in C3. lia.
      + exists iT, lT. split; [exact C1|]. split; [apply pfx_length in C3; lia | exact Cmp].
    - assert (Hlt : T0 < U) by lia.
      pose proof (committedM_kept bm be _ _ _ _ _ _ CI T0 P U j l Cm Hr Hlt) as K. unfold keeps in K. split.
      + intros k e Hk He. apply HPL; auto. rewrite <- K. rewrite nth_error_firstn'.
        assert (Hb : (k <? length P)%nat = true) by (apply Nat.ltb_lt; lia). rewrite Hb. exact He.
      + exists j, l. split; [exact Hr|]. split; [| left; apply pfx_refl].
        assert (X : length (firstn (length P) l) = length P) by (rewrite K; reflexivity). rewrite firstn_length in X. lia.
  Qed.
End Agree.

(* ---------------------------------------------------------------- the completeness premises, from the invariants before the step *)
Section Premises.
  Variables (bm : list nid) (be : N).
  Variables (σv : sys) (EC : list ecent) (G : list lrec) (A : list ack) (CL : list cand) (GR GL : list grant).
  Hypothesis CI : MS bm be (σv, EC) G A CL GR GL.
  Variables (i : nid) (C : list entry) (s : node).
  Hypothesis Gv : get_node i (sy_nodes σv) = Some (vn C s).
  Hypothesis Sh : shape C (n_p s) (n_commit s).

  Let GI : ginvM bm be σv G := k_g _ _ _ _ _ (w_k _ _ _ _ _ _ _ _ (ms_w _ _ _ _ _ _ _ _ CI)).

  Lemma snapi_le_commit : snapi (n_p s) <= n_commit s.
  Proof. unfold snapi. destruct Sh as [_ Sx]. destruct (p_snap (n_p s)); [tauto | lia]. Qed.

  (* a delivered AppEnts of a term not below the receiver's *)
  Lemma derive_premS m pi pt cm oes :
    In m (sy_soup σv) -> m_body m = AppEnts pi pt cm oes -> p_term (n_p s) <= m_term m -> premS C (n_p s) pi pt oes.
  Proof.
    intros Hin Hb Ht. pose proof (g_msgs _ _ _ _ GI m Hin) as Mk. unfold msg_ok3 in Mk. rewrite Hb in Mk.
    destruct Mk as [j [l [Hr [Sl _]]]].
    destruct (agree_committed bm be σv EC G A CL GR GL i (vn C s) (m_term m) j l CI Gv Hr Ht) as [Hag _]. simpl in Hag.
    pose proof snapi_le_commit as Hsc. split.
    - intros Hpi. destruct Sl as [_ [Ta _]]. destruct (N.eq_dec pi 0) as [Z0 | Z0]; [left; exact Z0|].
      destruct Ta as [Z | [e [E1 E2]]]; [left; exact Z | right].
      exists e. split; [| exact E2]. apply Hag; [lia | exact E1].
    - destruct oes as [ents |]; [| exact I]. intros k e1 e2 Hk Hpk H1 H2.
      pose proof (slice_nth _ _ _ _ _ _ Sl H2) as Hl. replace (N.to_nat pi + (k - N.to_nat pi))%nat with k in Hl by lia.
      assert (X : nth_error (C ++ p_log (n_p s)) k = Some e2) by (apply Hag; [lia | exact Hl]).
      rewrite H1 in X. inversion X. reflexivity.
  Qed.
  (* the longest common prefix of two lists of entries *)
  Fixpoint lcp (a b : list entry) : nat :=
    match a, b with
    | x :: a', y :: b' => if entry_eq_dec x y then S (lcp a' b') else 0%nat
    | _, _ => 0%nat
    end.

  Lemma lcp_firstn a : forall b, firstn (lcp a b) a = firstn (lcp a b) b.
  Proof.
    induction a as [| x a' IH]; intros b; simpl; [destruct b; reflexivity|].
    destruct b as [| y b']; [reflexivity|]. destruct (entry_eq_dec x y) as [E | E]; [| reflexivity].
    simpl. rewrite E. f_equal. apply IH.
  Qed.

  Lemma lcp_le a : forall b, (lcp a b <= length a)%nat /\ (lcp a b <= length b)%nat.
  Proof.
    induction a as [| x a' IH]; intros b; simpl; [lia|]. destruct b as [| y b']; simpl; [lia|].
    destruct (entry_eq_dec x y); [destruct (IH b'); simpl; lia | lia].
  Qed.

  Lemma lcp_stop a : forall b e1 e2, nth_error a (lcp a b) = Some e1 -> nth_error b (lcp a b) = Some e2 -> e1 <> e2.
  Proof.
    induction a as [| x a' IH]; intros b e1 e2; simpl; [intro H; discriminate|].
    destruct b as [| y b']; [intros _ H; discriminate|]. destruct (entry_eq_dec x y) as [E | E].
    - simpl. apply IH.
    - simpl. intros H1 H2. inversion H1. inversion H2. subst. exact E.
  Qed.

  (* a delivered InstallSnapshot (li, lt) of a term not below the receiver's: its image in the virtual soup is a heartbeat *)
  Lemma derive_premV mi li lt :
    In mi (sy_soup σv) -> m_body mi = AppEnts li lt li None -> p_term (n_p s) <= m_term mi -> 1 <= li ->
    exists j l Cs,
      In (m_term mi, j, l) G /\ Cs = firstn (length Cs) l /\ (N.to_nat li <= length l)%nat /\
      cprefixM G A (m_term mi) l (N.to_nat li) /\ 1 <= m_term mi /\
      premV C (vn C s) (n_p s) (m_term mi) Cs li lt.
  Proof.
    intros Hin Hb Ht Hli. set (U := m_term mi) in *.
    pose proof (g_msgs _ _ _ _ GI mi Hin) as Mk. unfold msg_ok3 in Mk. rewrite Hb in Mk.
    destruct Mk as [j [l [Hr [[Sl1 [Sl2 _]] HU]]]]. fold U in Hr, HU.
    destruct (ms_cm _ _ _ _ _ _ _ _ CI mi _ _ _ _ Hin Hb) as [j2 [l2 [Hr2 [Hl2 Cp2]]]]. fold U in Hr2, Cp2.
    destruct (agree_committed bm be σv EC G A CL GR GL i (vn C s) U j l CI Gv Hr Ht) as [_ [j' [l' [Hr' [Hl' Cmp']]]]]. simpl in Hl'.
    (* the longer of l and l' *)
    assert (Hstar : exists js ls, In (U, js, ls) G /\ (length l <= length ls)%nat /\ (N.to_nat (n_commit s) <= length ls)%nat /\ pfx l ls).
    { destruct Cmp' as [X | X].
      - exists j', l'. split; [exact Hr'|]. split; [apply pfx_length in X; exact X|]. split; [exact Hl' | exact X].
      - exists j, l. split; [exact Hr|]. split; [lia|]. split; [apply pfx_length in X; lia | apply pfx_refl]. }
    destruct Hstar as [js [ls [Hrs [Hls1 [Hls2 Hpls]]]]].
    destruct (agree_committed bm be σv EC G A CL GR GL i (vn C s) U js ls CI Gv Hrs Ht) as [Hag _]. simpl in Hag.
    pose proof snapi_le_commit as Hsc.
    set (L := C ++ p_log (n_p s)) in *.
    set (nn := N.to_nat (N.max li (snapi (n_p s)))).
    assert (Hnn : (nn <= length ls)%nat) by (unfold nn; lia).
    set (Cs := firstn nn ls).
    assert (HlenCs : length Cs = nn) by (unfold Cs; rewrite firstn_length; lia).
    assert (HCsn : forall k, (k < nn)%nat -> nth_error Cs k = nth_error ls k).
    { intros k Hk. unfold Cs. rewrite nth_error_firstn'. apply Nat.ltb_lt in Hk. rewrite Hk. reflexivity. }
    assert (Hlt : term_at Cs li lt).
    { destruct Sl2 as [Z | [e [E1 E2]]]; [lia | right]. exists e. split; [| exact E2].
      rewrite HCsn by (unfold nn; lia). eapply pfx_nth; eauto. }
    exists js, ls, Cs. split; [exact Hrs|]. split; [rewrite HlenCs; reflexivity|]. split; [lia|]. split.
    { (* committed up to li in ls *)
      destruct Cp2 as [Z | [T [P [Cm [HT Hp]]]]]; [left; exact Z | right]. exists T, P. split; [exact Cm|]. split; [exact HT|].
      pose proof (g_cmp _ _ _ _ GI _ _ _ _ _ Hrs Hr2) as Cmp. rewrite (comparable_firstn _ _ _ Cmp) by lia. exact Hp. }
    split; [exact HU|].
    pose proof (g_rec_wf _ _ _ _ GI _ _ _ Hrs) as Wls.
    unfold premV. split; [unfold Cs; apply wf_from_firstn; exact Wls|]. split; [exact HU|]. split; [exact Hli|].
    split; [rewrite HlenCs; unfold nn; lia|]. split; [exact Hlt|]. split.
    - (* the receiver's own snapshot position *)
      intros cur Hc Hle. assert (Ecur : snapi (n_p s) = sn_index cur) by (unfold snapi; rewrite Hc; reflexivity).
      assert (Hc1 : 1 <= sn_index cur) by lia.
      destruct (nth_error ls (N.to_nat (sn_index cur - 1))) as [e' |] eqn:E'; [| apply nth_error_None in E'; lia].
      exists e', e'. split; [apply Hag; [lia | exact E']|]. split; [rewrite HCsn by (unfold nn; lia); exact E' | reflexivity].
    - (* the log does not hold (li, lt) *)
      intro Hcase.
      assert (Hnst : snapi (n_p s) < li).
      { destruct (N.lt_ge_cases (snapi (n_p s)) li) as [X | X]; [exact X | exfalso].
        (* li inside the committed prefix: the logical log holds the record's entry, of term lt *)
        destruct Hlt as [Z | [e [E1 E2]]]; [lia|]. rewrite HCsn in E1 by (unfold nn; lia).
        assert (HL : nth_error L (N.to_nat (li - 1)) = Some e) by (apply Hag; [lia | exact E1]).
        destruct Hcase as [Y | [e0 [Y1 Y2]]].
        - assert (Z1 : nth_error L (N.to_nat (li - 1)) <> None) by congruence. apply nth_error_Some in Z1. unfold L in *. lia.
        - unfold L in *. rewrite HL in Y1. assert (Ee : e = e0) by congruence. rewrite <- Ee in Y2. contradiction. }
      assert (HlenCs' : N.of_nat (length Cs) = li) by (rewrite HlenCs; unfold nn; lia).
      split; [exact HlenCs'|].
      pose proof (g_lm_node _ _ _ _ GI i (vn C s) Gv) as LmL. simpl in LmL. fold L in LmL.
      assert (LmCs : lm G Cs) by (unfold Cs; apply lm_firstn; apply (g_lm_rec _ _ _ _ GI _ _ _ Hrs)).
      set (c := lcp L Cs).
      pose proof (lcp_firstn L Cs) as Hf. fold c in Hf. destruct (lcp_le L Cs) as [Hc1 Hc2]. fold c in Hc1, Hc2.
      assert (Hcli : (c < N.to_nat li)%nat).
      { destruct (Nat.lt_ge_cases c (N.to_nat li)) as [X | X]; [exact X | exfalso].
        assert (Ec : c = length Cs) by lia.
        destruct Hlt as [Z | [e [E1 E2]]]; [lia|].
        assert (HL : nth_error L (N.to_nat (li - 1)) = Some e).
        { assert (Y : nth_error (firstn c L) (N.to_nat (li - 1)) = Some e).
          { rewrite Hf. rewrite nth_error_firstn'. assert (Hb' : (N.to_nat (li - 1) <? c)%nat = true) by (apply Nat.ltb_lt; lia). rewrite Hb'. exact E1. }
          rewrite nth_error_firstn' in Y. destruct (N.to_nat (li - 1) <? c)%nat; [exact Y | discriminate]. }
        destruct Hcase as [Y | [e0 [Y1 Y2]]].
        - assert (Z1 : nth_error L (N.to_nat (li - 1)) <> None) by congruence. apply nth_error_Some in Z1. unfold L in *. lia.
        - unfold L in *. rewrite HL in Y1. assert (Ee : e = e0) by congruence. rewrite <- Ee in Y2. contradiction. }
      exists c. split; [| split; [exact Hcli | exact Hf]].
      unfold qtrunc. simpl. fold L. split; [lia|]. split; [| split].
      + intros _. destruct (Nat.eq_dec c 0) as [Z | Z]; [left; exact Z | right]. split; [lia|].
        destruct (nth_error Cs (c - 1)) as [e2 |] eqn:E2; [| apply nth_error_None in E2; lia].
        assert (E1 : nth_error L (c - 1) = Some e2).
        { assert (Y : nth_error (firstn c Cs) (c - 1) = Some e2).
          { rewrite nth_error_firstn'. assert (Hb' : (c - 1 <? c)%nat = true) by (apply Nat.ltb_lt; lia). rewrite Hb'. exact E2. }
          rewrite <- Hf in Y. rewrite nth_error_firstn' in Y. destruct (c - 1 <? c)%nat; [exact Y | discriminate]. }
        exists e2, e2. rewrite Nat.sub_0_r. repeat split; auto. lia.
      + intro X. lia.
      + destruct (Nat.eq_dec c (length L)) as [Z | Z]; [left; exact Z | right].
        unfold conflict_at. simpl. split; [lia|].
        destruct (nth_error L c) as [e1 |] eqn:E1; [| apply nth_error_None in E1; lia].
        destruct (nth_error Cs c) as [e2 |] eqn:E2; [| apply nth_error_None in E2; lia].
        exists e1, e2. rewrite Nat.sub_0_r. split; [reflexivity|]. split; [exact E2|].
        intro Et. pose proof (same_term_prefix G L Cs c e1 e2 (g_cmp _ _ _ _ GI) LmL LmCs E1 E2 Et) as Pf.
        apply (lcp_stop L Cs e1 e2 E1 E2).
        assert (Y : nth_error (firstn (S c) L) c = nth_error (firstn (S c) Cs) c) by (rewrite Pf; reflexivity).
        rewrite !nth_error_firstn' in Y. assert (Hb' : (c <? S c)%nat = true) by (apply Nat.ltb_lt; lia). rewrite Hb' in Y.
        rewrite E1, E2 in Y. inversion Y. reflexivity.
  Qed.
  Lemma derive_IS_basic mi li lt :
    In mi (sy_soup σv) -> m_body mi = AppEnts li lt li None ->
    exists j l, In (m_term mi, j, l) G /\ (N.to_nat li <= length l)%nat /\ cprefixM G A (m_term mi) l (N.to_nat li) /\ 1 <= m_term mi.
  Proof.
    intros Hin Hb. pose proof (g_msgs _ _ _ _ GI mi Hin) as Mk. unfold msg_ok3 in Mk. rewrite Hb in Mk.
    destruct Mk as [j [l [Hr [[Sl1 _] HU]]]].
    destruct (ms_cm _ _ _ _ _ _ _ _ CI mi _ _ _ _ Hin Hb) as [j2 [l2 [Hr2 [Hl2 Cp2]]]].
    exists j, l. split; [exact Hr|]. split; [lia|]. split; [| exact HU].
    destruct Cp2 as [Z | [T [P [Cm [HT Hp]]]]]; [left; exact Z | right]. exists T, P. split; [exact Cm|]. split; [exact HT|].
    pose proof (g_cmp _ _ _ _ GI _ _ _ _ _ Hr Hr2) as Cmp. rewrite (comparable_firstn _ _ _ Cmp) by lia. exact Hp.
  Qed.

  Lemma derive_IS mi li lt :
    In mi (sy_soup σv) -> m_body mi = AppEnts li lt li None -> 1 <= li ->
    exists j l Cs,
      In (m_term mi, j, l) G /\ Cs = firstn (length Cs) l /\ (N.to_nat li <= length l)%nat /\
      cprefixM G A (m_term mi) l (N.to_nat li) /\ 1 <= m_term mi /\
      (p_term (n_p s) <= m_term mi -> premV C (vn C s) (n_p s) (m_term mi) Cs li lt).
  Proof.
    intros Hin Hb Hli. destruct (N.le_gt_cases (p_term (n_p s)) (m_term mi)) as [Ht | Ht].
    - destruct (derive_premV mi li lt Hin Hb Ht Hli) as [j [l [Cs [H1 [H2 [H3 [H4 [H5 H6]]]]]]]].
      exists j, l, Cs. split; [exact H1|]. split; [exact H2|]. split; [exact H3|]. split; [exact H4|]. split; [exact H5|]. intros _. exact H6.
    - destruct (derive_IS_basic mi li lt Hin Hb) as [j [l [H1 [H3 [H4 H5]]]]].
      exists j, l, (firstn (N.to_nat li) l). split; [exact H1|]. split; [rewrite firstn_length, Nat.min_l by lia; reflexivity|].
      split; [exact H3|]. split; [exact H4|]. split; [exact H5|]. intro X. lia.
  Qed.

  Lemma derive_legit m :
    1 <= sn_index m -> sn_index m <= n_commit s ->
    (exists e, In e (p_log (n_p s)) /\ e_index e = sn_index m /\ e_term e = sn_term m) -> legitS C s m.
  Proof.
    intros H1 H2 [e [Hin [Ei Et]]]. pose proof Sh as [W _].
    apply In_nth_error in Hin. destruct Hin as [k Hk].
    assert (HL : nth_error (C ++ p_log (n_p s)) (length C + k) = Some e).
    { rewrite nth_error_app2 by lia. replace (length C + k - length C)%nat with k by lia. exact Hk. }
    pose proof (wf_from_nth _ _ _ _ W HL) as Ix.
    assert (Hlen : (length C + k < length (C ++ p_log (n_p s)))%nat) by (apply nth_error_Some; congruence).
    unfold legitS. split; [exact H1|]. split; [exact H2|]. split; [lia|].
    right. exists e. split; [| exact Et]. rewrite <- HL. f_equal. lia.
  Qed.
End Premises.


(* ================================================================ the alphabet and the system invariant *)
Section System.
  Variables (bm : list nid) (be : N).

  (* the store cut at index u: what the state machine has applied when it has applied u entries *)
  Definition cut (p : pstate) (u : N) : pstate := set_log p (mem_truncate u (p_log p)).

  (* SnapshotDone reports an applied position with its term (round 5) and the membership the state machine holds at that
     position (fsm_loop.go: lastAppliedMembership at lastApplied) *)
  Definition snap_okC (s : node) (m : snapmeta) : Prop :=
    1 <= sn_index m /\ sn_index m <= n_commit s /\
    (match p_snap (n_p s) with Some cur => sn_index m <=? sn_index cur | None => false end = false ->
     (exists e, In e (p_log (n_p s)) /\ e_index e = sn_index m /\ e_term e = sn_term m) /\
     sn_conf m = iconf (cut (n_p s) (sn_index m))).

  Definition evresC (s : node) (ev : event) : Prop :=
    match ev with
    | EBootstrap ms ep => ms = bm /\ ep = be
    | EPropose es => Forall (fun e => isconfb e = false) es
    | EAddNode x _ => x <> n_id s
    | ESnapDone m => snap_okC s m
    | _ => True
    end.

  (* THE COMBINED ALPHABET: every event of Core.run_event on any node - bootstrap with the one membership, delivery of any message
     ever sent (InstallSnap included) any number of times or never, ticks, proposals without configuration entries, AddNode (not of
     the node itself), RemoveNode, SnapshotDone as the state machine issues it, restart - with a crash after any durable mutation *)
  Inductive cstep : asys -> sys_event -> asys -> Prop :=
  | CStep : forall σ EC i s ev k crashed st s',
      get_node i (sy_nodes σ) = Some s ->
      (forall m, ev = EDeliver m -> In m (sy_soup σ) /\ m_to m <> 0) ->
      evresC s ev ->
      run_event_crash (settle s) ev k = Ret (crashed, st, s') ->
      cstep (σ, EC) (i, ev, k) (step_sys σ s', EC ++ ec_of s s').

  Definition isc (G : list lrec) (m : msg) : Prop :=
    forall li lt cf, m_body m = InstallSnap li lt cf ->
      exists j l, In (m_term m, j, l) G /\ sn_conf {| sn_index := li; sn_term := lt; sn_conf := Some cf |} = lconf (firstn (N.to_nat li) l) /\
                  (N.to_nat li <= length l)%nat.

  Record MSI (a : asys) (Cf : ghost) (S : list msg) (G : list lrec) (A : list ack) (CL : list cand) (GR GL : list grant) : Prop := {
    mi_ms : MS bm be (vsys Cf S (fst a), snd a) G A CL GR GL;
    mi_em : EM a;
    mi_node : forall i s, get_node i (sy_nodes (fst a)) = Some s ->
                shape (Cf i) (n_p s) (n_commit s) /\ shapeC (Cf i) (n_p s) /\ conf_logical s;
    mi_soup : soup_rel (fst a) S;
    mi_is1 : forall m, In m (sy_soup (fst a)) -> isq1 m;
    mi_isc : forall m, In m (sy_soup (fst a)) -> isc G m
  }.

  Lemma gset_same Cf i C' : gset Cf i C' i = C'.
  Proof. unfold gset. rewrite N.eqb_refl. reflexivity. Qed.
  Lemma gset_other Cf i C' j : j <> i -> gset Cf i C' j = Cf j.
  Proof. intro H. unfold gset. destruct (j =? i) eqn:E; [apply N.eqb_eq in E; contradiction | reflexivity]. Qed.
  Lemma shape_snap1 C p cm : shape C p cm -> snap1 p.
  Proof. intros [_ Sx] m Hm. rewrite Hm in Sx. tauto. Qed.

  (* the common tail of every case of the step *)
  Lemma MSI_tail σ EC Cf S1 G A CL GR GL i s ev k crashed st s' ev' C' :
    MS bm be (vsys Cf S1 σ, EC) G A CL GR GL -> EM (σ, EC) ->
    (forall j x, get_node j (sy_nodes σ) = Some x -> shape (Cf j) (n_p x) (n_commit x) /\ shapeC (Cf j) (n_p x) /\ conf_logical x) ->
    soup_rel σ S1 -> (forall m, In m (sy_soup σ) -> isq1 m) -> (forall m, In m (sy_soup σ) -> isc G m) ->
    get_node i (sy_nodes σ) = Some s ->
    (forall m, ev = EDeliver m -> In m (sy_soup σ) /\ m_to m <> 0) ->
    run_event_crash (settle s) ev k = Ret (crashed, st, s') ->
    noself s ev -> (forall m, ev = ESnapDone m -> 1 <= sn_index m) ->
    (forall m, ev' = EDeliver m -> In m S1 /\ m_to m <> 0) -> evres bm be ev' ->
    nstep (vn (Cf i) s) ev' k (vn C' s') -> NIQ (vn (Cf i) s) ev' k (vn C' s') ->
    cpart (vn (Cf i) s) (vn C' s') (ev_msg ev') ->
    shape C' (n_p s') (n_commit s') -> shapeC C' (n_p s') -> conf_logical s' ->
    (n_role s = Leader -> p_term (n_p s') = p_term (n_p s) -> ShT (vn (Cf i) s) (C' ++ p_log (n_p s'))) ->
    (forall m0 li lt cf, In m0 (n_msgs s') -> m_body m0 = InstallSnap li lt cf ->
       Some cf = lconf (firstn (N.to_nat li) (C' ++ p_log (n_p s'))) /\ (N.to_nat li <= length (C' ++ p_log (n_p s')))%nat) ->
    MSI (step_sys σ s', EC ++ ec_of s s') (gset Cf i C') (S1 ++ out_msgs (vn C' s'))
        (G ++ rec_of (vn (Cf i) s) (vn C' s'))
        (A ++ acks_of (vn C' s') ++ rec_acks (rec_of (vn (Cf i) s) (vn C' s')))
        (CL ++ cl_of (vn (Cf i) s) (vn C' s')) (GR ++ gr_of G (vn (Cf i) s) (vn C' s')) (GL ++ gl_of G (vn (Cf i) s) (vn C' s')).
  Proof.
    intros HM HE HN HS H1 HC Gs Hdel Hrun Hns Hsd Hdel' Hres' NS NQ HCP Sh' ShC' Cl' HSh Hisc.
    destruct (get_node_in _ _ _ Gs) as [Gin Gid].
    destruct (step_facts _ _ _ _ _ _ Hrun) as [Hid _].
    assert (Hid' : n_id s' = i) by congruence.
    assert (Hnd : NoDup (map n_id (sy_nodes σ))) by (apply (e_nodup _ HE)).
    pose proof (step_vsys Cf S1 σ s' C' Hnd) as Ev. rewrite Hid' in Ev.
    pose proof (get_vsys Cf S1 σ i s Gs) as Gv.
    assert (EMr : EM (step_sys σ s', EC ++ ec_of s s')).
    { apply (EM_step (σ, EC) (i, ev, k)); [exact HE|]. eapply AStep; eauto. }
    assert (HS' : soup_rel (step_sys σ s') (S1 ++ out_msgs (vn C' s'))).
    { destruct HS as [R1 R2]. split.
      - intros m Hm. simpl in Hm. apply in_app_or in Hm. apply in_or_app. destruct Hm as [Hm | Hm]; [left; auto | right].
        apply out_msgs_vn_in. exists m. auto.
      - intros m' H'. apply in_app_or in H'. destruct H' as [H' | H'].
        + destruct (R2 m' H') as [m [X Y]]. exists m. split; [simpl; apply in_or_app; left; exact X | exact Y].
        + apply out_msgs_vn_in in H'. destruct H' as [m [X Y]]. exists m. split; [simpl; apply in_or_app; right; exact X|].
          subst m'. simpl. auto. }
    assert (EMv : EM (step_sys (vsys Cf S1 σ) (vn C' s'), EC ++ ec_of (vn (Cf i) s) (vn C' s'))).
    { rewrite Ev. change (ec_of (vn (Cf i) s) (vn C' s')) with (ec_of s s'). apply EM_vsys; [exact EMr | exact HS']. }
    assert (Hctw : ctw (vn C' s')) by (destruct Cl' as [_ Cn]; exact (ctw_vn C' s' _ Sh' ShC' Cn)).
    assert (Hpk0 : peers_ok s) by exact (ms_pk _ _ _ _ _ _ _ _ HM i _ Gv).
    assert (Hpk : peers_ok (vn C' s')) by exact (peers_ok_step s ev k crashed st s' Hrun Hns Hpk0).
    assert (Hlps : n_role (vn (Cf i) s) = Leader -> p_term (n_p (vn C' s')) = p_term (n_p (vn (Cf i) s)) -> peers_sub (vn C' s')).
    { intros Hr Ht. exact (leader_peers_sub s ev k crashed st s' Hrun Hr Ht Hns (Hpk0 Hr)). }
    pose proof (MS_step_abs bm be (vsys Cf S1 σ) EC G A CL GR GL i (vn (Cf i) s) ev' k (vn C' s') HM Gv Hdel' Hres' NS NQ EMv HCP Hctw Hpk Hlps HSh) as M'.
    rewrite Ev in M'. change (ec_of (vn (Cf i) s) (vn C' s')) with (ec_of s s') in M'.
    assert (Gs' : get_node i (sy_nodes (step_sys σ s')) = Some s').
    { simpl. rewrite <- Hid'. eapply get_put_same. rewrite Hid'. exact Gs. }
    constructor; cbn [fst snd].
    - exact M'.
    - exact EMr.
    - intros j x Hx. destruct (N.eq_dec j i) as [E | E].
      + subst j. rewrite Gs' in Hx. inversion Hx. subst x. rewrite gset_same. auto.
      + simpl in Hx. rewrite get_put_other in Hx by congruence. rewrite gset_other by exact E. apply HN. exact Hx.
    - exact HS'.
    - intros m Hm. simpl in Hm. apply in_app_or in Hm. destruct Hm as [Hm | Hm]; [auto|].
      apply in_out_msgs in Hm. destruct Hm as [m0 [H0 [_ [_ [_ Eb]]]]].
      assert (Hq : Forall isq1 (n_msgs s')).
      { destruct (HN i s Gs) as [Sh _]. eapply emitted_install_snapshot_index_positive; [apply (shape_snap1 _ _ _ Sh) | | exact Hsd | exact Hrun].
        intros m1 E1. apply H1. apply (Hdel m1 E1). }
      rewrite Forall_forall in Hq. specialize (Hq m0 H0). unfold isq1 in *. rewrite Eb. exact Hq.
    - intros m Hm. simpl in Hm. apply in_app_or in Hm. destruct Hm as [Hm | Hm].
      + intros li lt cf Hb. destruct (HC m Hm li lt cf Hb) as [j [l [X Y]]]. exists j, l. split; [apply in_or_app; left; exact X | exact Y].
      + intros li lt cf Hb. apply in_out_msgs in Hm. destruct Hm as [m0 [H0 [Et [_ [_ Eb]]]]]. rewrite Hb in Eb. symmetry in Eb.
        destruct (Hisc m0 li lt cf H0 Eb) as [Y1 Y2].
        exists (n_id (vn C' s')), (p_log (n_p (vn C' s'))). split; [| split; [simpl; exact Y1 | exact Y2]].
        apply in_or_app. right.
        assert (Hmt : m_term m = p_term (n_p (vn C' s'))).
        { pose proof (ns_msgs _ _ _ _ NS) as Mk. unfold msgs_ok in Mk. rewrite Forall_forall in Mk.
          assert (Hin : In (img m0) (n_msgs (vn C' s'))) by (simpl; apply in_map; exact H0).
          destruct (Mk _ Hin) as [Z _]. simpl in Z. simpl. congruence. }
        rewrite Hmt. apply rec_of_in.
        destruct (LogMatchNodeQ.v_lead _ _ _ _ _ _ _ _ _ NQ) as [Na | Ld].
        * exfalso. unfold LogMatchNodeQ.no_appents in Na. rewrite Forall_forall in Na.
          apply (Na (img m0)); [simpl; apply in_map; exact H0|]. unfold LogMatchNodeQ.is_appents. simpl. rewrite Eb. simpl. exact I.
        * destruct Ld as [Ld | [Ld1 Ld2]]; [left; exact Ld | right; split; [exact Ld1 | exact Ld2]].
  Qed.

  (* ---------------------------------------------------------------- helpers for the step *)
  Lemma shapeC_keep C p p' :
    p_snap p' = p_snap p ->
    (forall m, p_snap p = Some m -> firstn (N.to_nat (sn_index m)) (C ++ p_log p') = firstn (N.to_nat (sn_index m)) (C ++ p_log p)) ->
    shapeC C p -> shapeC C p'.
  Proof. intros E H Hc. unfold shapeC in *. rewrite E. destruct (p_snap p) as [m |]; auto. rewrite (H m eq_refl). exact Hc. Qed.

  Lemma firstn_le_eq {A} (a b : nat) (l l' : list A) : (a <= b)%nat -> firstn b l = firstn b l' -> firstn a l = firstn a l'.
  Proof. intros H E. rewrite <- (Nat.min_l a b H). rewrite <- !firstn_firstn. rewrite E. reflexivity. Qed.

  Lemma settledT_vn C s cm : shape C (n_p s) cm -> settled s -> settledT (vn C s).
  Proof.
    intros Sh [Hl [t [Hst Et]]]. split; [exact Hl|]. simpl.
    destruct (st_term_S C (n_p s) cm Sh _ _ _ Hst) as [[_ [Hle [_ Ta]]] | [X _]]; [| discriminate].
    split; [rewrite <- Et; exact Ta | unfold llen; simpl; exact Hle].
  Qed.

  Lemma ShT_vn C s cm L1 : shape C (n_p s) cm -> Sh s L1 -> ShT (vn C s) (C ++ L1).
  Proof.
    intros Sh [[es [E Hn]] | [ce [E [H1 [H2 [H3 [c [nc H4]]]]]]]].
    - left. exists es. split; [simpl; rewrite E, app_assoc; reflexivity | exact Hn].
    - right. exists ce. split; [simpl; rewrite E, app_assoc; reflexivity|].
      split; [exact H1|]. split; [exact H2|]. split; [eapply settledT_vn; eauto|]. exists c, nc. exact H4.
  Qed.

  (* a continuing leader (real node with snapshot): the virtual log has the leader shape *)
  Lemma leader_ShT C s ev k crashed st s' ev' :
    shape C (n_p s) (n_commit s) ->
    run_event_crash (settle s) ev k = Ret (crashed, st, s') -> evL ev ->
    NIQ (vn C s) ev' k (vn C s') ->
    n_role s = Leader -> p_term (n_p s') = p_term (n_p s) -> ShT (vn C s) (C ++ p_log (n_p s')).
  Proof.
    intros Sh Hrun He NQ Hr Ht.
    destruct (leader_log_shape_snap s ev k crashed st s' Hrun Hr Ht He) as [L1 [HS E]].
    assert (Htail : exists tail, L1 = p_log (n_p s') ++ tail).
    { destruct E as [E | E]; [exists []; rewrite app_nil_r; symmetry; exact E|].
      destruct (mem_truncate_split 0 L1) as [tail [X _]]. exists tail. rewrite E. exact X. }
    destruct Htail as [tail Htail].
    pose proof (LogMatchNodeQ.v_lr _ _ _ _ _ _ _ _ _ NQ) as LR0. unfold LogMatchNodeQ.LR in LR0. cbv zeta in LR0. simpl in LR0.
    assert (Hcont : n_role s = Leader /\ p_term (n_p s') = p_term (n_p s)) by auto.
    assert (HL : exists new, p_log (n_p s') = p_log (n_p s) ++ new).
    { destruct LR0 as [X | [[_ [X _]] | [[_ [X _]] | [[_ [_ [new [X _]]]] | [_ [X _]]]]]]; try (exfalso; apply X; exact Hcont).
      - exists []. rewrite app_nil_r. apply app_inv_head in X. exact X.
      - exists new. rewrite <- app_assoc in X. apply app_inv_head in X. exact X. }
    destruct HL as [new HL]. rewrite HL.
    destruct HS as [[es [E1 Hn]] | [ce [E1 [H1 [H2 [H3 [c [nc H4]]]]]]]]; rewrite E1, HL, <- app_assoc in Htail; apply app_inv_head in Htail.
    - left. exists new. split; [simpl; rewrite app_assoc; reflexivity|]. rewrite Htail in Hn. apply Forall_app in Hn. tauto.
    - destruct new as [| n0 nr].
      + left. exists []. split; [simpl; rewrite app_assoc; reflexivity | constructor].
      + simpl in Htail. inversion Htail as [[X1 X2]]. destruct nr; [| discriminate]. subst n0.
        right. exists ce. split; [simpl; rewrite app_assoc; reflexivity|].
        split; [exact H1|]. split; [exact H2|]. split; [eapply settledT_vn; eauto|]. exists c, nc. exact H4.
  Qed.

  Lemma mwf_virtual σv G m : ginvM bm be σv G -> In m (sy_soup σv) -> mwf m.
  Proof.
    intros GI Hin. pose proof (ginvM_deliver_ok bm be σv G m GI Hin) as H. unfold mwf. simpl in H.
    destruct (m_body m); auto. destruct ents as [es |]; auto. destruct H as [W _]. unfold ents_wf.
    destruct es as [| e r]; auto. pose proof W as [Hi _]. rewrite Hi. exact W.
  Qed.

  Lemma cpart_vn C C' s s' om : cpart s s' om -> cpart (vn C s) (vn C' s') om.
  Proof. intro H. exact H. Qed.

  Definition not_is (ev : event) : Prop :=
    match ev with
    | EDeliver m => match m_body m with InstallSnap _ _ _ => False | _ => True end
    | ESnapDone _ => False
    | _ => True
    end.

  (* ---------------------------------------------------------------- the step: every event but SnapshotDone and InstallSnap deliveries *)
  Lemma MSI_step_generic σ EC Cf S G A CL GR GL i s ev k crashed st s' :
    MSI (σ, EC) Cf S G A CL GR GL ->
    get_node i (sy_nodes σ) = Some s ->
    (forall m, ev = EDeliver m -> In m (sy_soup σ) /\ m_to m <> 0) ->
    evresC s ev -> not_is ev ->
    run_event_crash (settle s) ev k = Ret (crashed, st, s') ->
    exists Cf' S' G' A' CL' GR' GL', MSI (step_sys σ s', EC ++ ec_of s s') Cf' S' G' A' CL' GR' GL' /\ incl G G' /\ incl A A'.
  Proof.
    intros HI Gs Hdel Hres Hni Hrun. destruct HI as [HM HE HN HS H1 HC]. cbn [fst snd] in *.
    pose proof (get_vsys Cf S σ i s Gs) as Gv.
    pose proof (ms_w _ _ _ _ _ _ _ _ HM) as WI. pose proof (k_g _ _ _ _ _ (w_k _ _ _ _ _ _ _ _ WI)) as GI. cbn [fst] in GI.
    destruct (HN i s Gs) as [Sh [ShC Cl]].
    destruct (get_node_in _ _ _ Gs) as [Gin Gid].
    assert (Hb : LogMatchNodeQ.base (vn (Cf i) s)) by exact (LogMatchM.g_base _ _ _ _ GI i _ Gv).
    assert (Hns : noself s ev) by (intros x rnd E; subst ev; exact Hres).
    (* the delivered message is its own image in the virtual soup *)
    assert (HdelV : forall m, ev = EDeliver m -> In m S /\ m_to m <> 0).
    { intros m E. destruct (Hdel m E) as [Min Mto]. split; [| exact Mto]. subst ev. simpl in Hni.
      destruct HS as [R1 _]. specialize (R1 m Min). rewrite img_nis in R1; [exact R1|]. unfold nis. destruct (m_body m); auto. }
    assert (Hpk0 : peers_ok s) by exact (ms_pk _ _ _ _ _ _ _ _ HM i _ Gv).
    assert (He : LogMatchNodeMQ.evokM s ev).
    { destruct ev; simpl in *; auto; try contradiction.
      - destruct (HdelV m eq_refl) as [Min _]. exact (ginvM_deliver_ok bm be _ G m GI Min).
      - split; [exact Hres|]. intros Hr c Hc Hm. apply peer_get_none. fold (peer_ids s).
        intro Hin. apply (Hpk0 Hr member) in Hin. destruct Hin as [[c0 [A1 A2]] _]. assert (c0 = c) by congruence. subst c0.
        apply (memb_false _ _ Hm). exact A2. }
    assert (Hp : premE (Cf i) s ev).
    { unfold premE. destruct ev; auto. destruct (m_body m) eqn:Eb; auto. intro Ht. destruct (HdelV m eq_refl) as [Min _].
      eapply (derive_premS bm be (vsys Cf S σ) EC G A CL GR GL HM i (Cf i) s Gv Sh m); eauto. }
    destruct (vstep_generic (Cf i) s ev k crashed st s' Hb Sh He Hp Hrun) as [NS [NQ Sh']].
    destruct (snapshot_meta_step s ev k crashed st s' Hrun) as [Hq Hsn].
    assert (Hsn' : p_snap (n_p s') = p_snap (n_p s)).
    { destruct Hsn as [X | X]; [exact X|]. rewrite X. unfold alt_of. destruct ev; auto; simpl in Hni; try contradiction.
      destruct (m_body m); auto; contradiction. }
    assert (HCP : cpart (vn (Cf i) s) (vn (Cf i) s') (ev_msg ev)).
    { destruct (step_csum _ _ _ _ _ _ Hrun) as [_ [_ X]]. exact X. }
    assert (HevL : evL ev) by (destruct ev; simpl in *; auto).
    assert (HSh : n_role s = Leader -> p_term (n_p s') = p_term (n_p s) -> ShT (vn (Cf i) s) (Cf i ++ p_log (n_p s'))).
    { intros Hr Ht. eapply leader_ShT; eauto. }
    assert (Hlps : n_role (vn (Cf i) s) = Leader -> p_term (n_p (vn (Cf i) s')) = p_term (n_p (vn (Cf i) s)) -> peers_sub (vn (Cf i) s')).
    { intros Hr Ht. exact (leader_peers_sub s ev k crashed st s' Hrun Hr Ht Hns (Hpk0 Hr)). }
    assert (HresV : evres bm be ev) by (destruct ev; simpl in *; auto).
    pose proof (sp_no_trunc bm be (vsys Cf S σ) EC G A CL GR GL i (vn (Cf i) s) ev k (vn (Cf i) s') HM Gv HdelV HresV NS NQ HCP Hlps HSh) as Hnt.
    simpl in Hnt.
    assert (Hkeep : forall m, p_snap (n_p s) = Some m ->
              firstn (N.to_nat (sn_index m)) (Cf i ++ p_log (n_p s')) = firstn (N.to_nat (sn_index m)) (Cf i ++ p_log (n_p s))).
    { intros m Hm. eapply firstn_le_eq; [| exact Hnt]. destruct Sh as [_ Sx]. rewrite Hm in Sx. lia. }
    assert (ShC' : shapeC (Cf i) (n_p s')) by (eapply shapeC_keep; eauto).
    assert (Cl' : conf_logical s').
    { apply (conf_tracks_logical_step s ev k crashed st s' Cl); [| exact Hrun].
      destruct ev; simpl in *; auto; try contradiction. destruct (HdelV m eq_refl) as [Min _].
      split; [exact (mwf_virtual _ G m GI Min)|]. unfold snap_msg_pre. destruct (m_body m); auto; contradiction. }
    assert (Hisc : forall m0 li lt cf, In m0 (n_msgs s') -> m_body m0 = InstallSnap li lt cf ->
              Some cf = lconf (firstn (N.to_nat li) (Cf i ++ p_log (n_p s'))) /\ (N.to_nat li <= length (Cf i ++ p_log (n_p s')))%nat).
    { intros m0 li lt cf Hin Hb0. rewrite Forall_forall in Hq. specialize (Hq m0 Hin). unfold isqc in Hq. rewrite Hb0 in Hq.
      destruct Hq as [sm [E1 [E2 [E3 E4]]]]. subst li.
      unfold shapeC in ShC. rewrite E1 in ShC. rewrite (Hkeep sm E1). split; [rewrite <- ShC; symmetry; exact E4|].
      destruct Sh' as [_ Sx]. rewrite Hsn', E1 in Sx. lia. }
    assert (Hsd : forall m, ev = ESnapDone m -> 1 <= sn_index m) by (intros m E; subst ev; simpl in Hni; contradiction).
    pose proof (MSI_tail σ EC Cf S G A CL GR GL i s ev k crashed st s' ev (Cf i) HM HE HN HS H1 HC Gs Hdel Hrun Hns Hsd HdelV HresV NS NQ HCP
                  Sh' ShC' Cl' HSh Hisc) as T.
    eexists _, _, _, _, _, _, _. split; [exact T|]. split; intros r Hr; apply in_or_app; left; exact Hr.
  Qed.

  (* ---------------------------------------------------------------- SnapshotDone *)
  Lemma cut_conf C p cm u :
    shape C p cm -> shapeC C p -> N.of_nat (length C) <= u -> u <= N.of_nat (length (C ++ p_log p)) ->
    (forall m, p_snap p = Some m -> sn_index m <= u) ->
    iconf (cut p u) = lconf (firstn (N.to_nat u) (C ++ p_log p)).
  Proof.
    intros [Wf Sx] Hc H1 H2 H3.
    pose proof Wf as Wf0. apply wf_from_app in Wf0. destruct Wf0 as [_ Wl].
    assert (Etr : C ++ mem_truncate u (p_log p) = firstn (N.to_nat u) (C ++ p_log p)).
    { rewrite (mem_truncate_from (1 + N.of_nat (length C)) u (p_log p) Wl). rewrite firstn_app.
      rewrite (firstn_all2 C) by lia. f_equal. f_equal. lia. }
    rewrite <- Etr. apply (iconf_lconf_gen C (cut p u)).
    - simpl. rewrite Etr. apply wf_from_firstn. exact Wf.
    - simpl. destruct (p_snap p) as [m |] eqn:Es; [| exact Sx]. destruct Sx as [S1 _]. split; [exact S1|].
      rewrite Etr, firstn_length. specialize (H3 m eq_refl). rewrite app_length in *. lia.
    - unfold shapeC in *. simpl. destruct (p_snap p) as [m |] eqn:Es; [| exact I].
      rewrite Etr, firstn_firstn. specialize (H3 m eq_refl). rewrite Nat.min_l by lia. exact Hc.
  Qed.

  Lemma snapdone_stale s m k crashed st s' :
    match p_snap (n_p s) with Some cur => sn_index m <=? sn_index cur | None => false end = true ->
    run_event_crash (settle s) (ESnapDone m) k = Ret (crashed, st, s') ->
    n_p s' = n_p s /\ n_conf s' = n_conf s.
  Proof.
    intros Hst. unfold run_event_crash. simpl. unfold wrap0, snapshot_done. simpl. rewrite Hst. simpl.
    intro H. inversion H. subst. simpl. auto.
  Qed.

  Lemma MSI_step_snapdone σ EC Cf S G A CL GR GL i s m k crashed st s' :
    MSI (σ, EC) Cf S G A CL GR GL ->
    get_node i (sy_nodes σ) = Some s ->
    snap_okC s m ->
    run_event_crash (settle s) (ESnapDone m) k = Ret (crashed, st, s') ->
    exists Cf' S' G' A' CL' GR' GL', MSI (step_sys σ s', EC ++ ec_of s s') Cf' S' G' A' CL' GR' GL' /\ incl G G' /\ incl A A'.
  Proof.
    intros HI Gs [R1 [R2 R3]] Hrun. destruct HI as [HM HE HN HS H1 HC]. cbn [fst snd] in *.
    pose proof (get_vsys Cf S σ i s Gs) as Gv.
    pose proof (ms_w _ _ _ _ _ _ _ _ HM) as WI. pose proof (k_g _ _ _ _ _ (w_k _ _ _ _ _ _ _ _ WI)) as GI. cbn [fst] in GI.
    destruct (HN i s Gs) as [Sh [ShC Cl]].
    assert (Hb : LogMatchNodeQ.base (vn (Cf i) s)) by exact (LogMatchM.g_base _ _ _ _ GI i _ Gv).
    assert (Lg : match p_snap (n_p s) with Some cur => sn_index m <=? sn_index cur | None => false end = false -> legitS (Cf i) s m).
    { intro X. destruct (R3 X) as [Y _]. exact (derive_legit (Cf i) s Sh m R1 R2 Y). }
    destruct (vstep_snapdone (Cf i) s m k crashed st s' Hb Sh Lg Hrun) as [C' [HL [Sh' [NS NQ]]]].
    destruct (snapshot_meta_step s (ESnapDone m) k crashed st s' Hrun) as [Hq Hsn]. simpl in Hsn.
    pose proof Sh as [Wf Sx].
    (* the configuration named by the metadata, when the snapshot is taken *)
    assert (Hconf : match p_snap (n_p s) with Some cur => sn_index m <=? sn_index cur | None => false end = false ->
              N.of_nat (length (Cf i)) <= sn_index m /\ sn_index m <= N.of_nat (length (Cf i ++ p_log (n_p s))) /\
              sn_conf m = lconf (firstn (N.to_nat (sn_index m)) (Cf i ++ p_log (n_p s)))).
    { intro X. destruct (R3 X) as [[e [Hin [Ei Et]]] Hcf].
      apply In_nth_error in Hin. destruct Hin as [kk Hk].
      assert (HLk : nth_error (Cf i ++ p_log (n_p s)) (length (Cf i) + kk) = Some e).
      { rewrite nth_error_app2 by lia. replace (length (Cf i) + kk - length (Cf i))%nat with kk by lia. exact Hk. }
      pose proof (wf_from_nth _ _ _ _ Wf HLk) as Ix.
      assert (Hlen : (length (Cf i) + kk < length (Cf i ++ p_log (n_p s)))%nat) by (apply nth_error_Some; congruence).
      assert (B1 : N.of_nat (length (Cf i)) <= sn_index m) by lia.
      assert (B2 : sn_index m <= N.of_nat (length (Cf i ++ p_log (n_p s)))) by lia.
      split; [exact B1|]. split; [exact B2|]. rewrite Hcf.
      apply (cut_conf (Cf i) (n_p s) (n_commit s) (sn_index m) Sh ShC B1 B2).
      intros cur Hc. rewrite Hc in X. apply N.leb_gt in X. lia. }
    assert (Both : shapeC C' (n_p s') /\ conf_logical s').
    { destruct (match p_snap (n_p s) with Some cur => sn_index m <=? sn_index cur | None => false end) eqn:Est.
      - destruct (snapdone_stale s m k crashed st s' Est Hrun) as [Ep Ec].
        rewrite Ep in HL. apply app_inv_tail in HL. subst C'. split.
        + unfold shapeC. rewrite Ep. exact ShC.
        + destruct Cl as [Cc Cn]. split; [rewrite Ep; exact Cc | rewrite Ec, Ep; exact Cn].
      - destruct (Hconf eq_refl) as [B1 [B2 B3]]. split.
        + unfold shapeC. rewrite HL. destruct Hsn as [X | X]; rewrite X; [exact ShC | exact B3].
        + apply (conf_tracks_logical_step s (ESnapDone m) k crashed st s' Cl); [| exact Hrun]. simpl.
          destruct Cl as [_ Cn]. exact (snap_conf_ok_of_prefix (Cf i) s m (n_commit s) Sh ShC Cn B1 B2 B3). }
    destruct Both as [ShC' Cl'].
    assert (HCP : cpart (vn (Cf i) s) (vn C' s') (ev_msg ETick)).
    { destruct (step_csum _ _ _ _ _ _ Hrun) as [_ [_ X]]. exact X. }
    assert (HSh : n_role s = Leader -> p_term (n_p s') = p_term (n_p s) -> ShT (vn (Cf i) s) (C' ++ p_log (n_p s'))).
    { intros _ _. rewrite HL. left. exists []. split; [simpl; rewrite app_nil_r; reflexivity | constructor]. }
    assert (Hisc : forall m0 li lt cf, In m0 (n_msgs s') -> m_body m0 = InstallSnap li lt cf ->
              Some cf = lconf (firstn (N.to_nat li) (C' ++ p_log (n_p s'))) /\ (N.to_nat li <= length (C' ++ p_log (n_p s')))%nat).
    { intros m0 li lt cf Hin Hb0. rewrite Forall_forall in Hq. specialize (Hq m0 Hin). unfold isqc in Hq. rewrite Hb0 in Hq.
      destruct Hq as [sm [E1 [E2 [E3 E4]]]]. subst li. rewrite HL.
      unfold shapeC in ShC. rewrite E1 in ShC. split; [rewrite <- ShC; symmetry; exact E4|]. rewrite E1 in Sx. lia. }
    pose proof (MSI_tail σ EC Cf S G A CL GR GL i s (ESnapDone m) k crashed st s' ETick C' HM HE HN HS H1 HC Gs
                  ltac:(intros m0 E; discriminate) Hrun ltac:(intros x rnd E; discriminate) ltac:(intros m0 E; inversion E; subst; exact R1)
                  ltac:(intros m0 E; discriminate) Logic.I NS NQ HCP Sh' ShC' Cl' HSh Hisc) as T.
    eexists _, _, _, _, _, _, _. split; [exact T|]. split; intros r Hr; apply in_or_app; left; exact Hr.
  Qed.

  (* ---------------------------------------------------------------- delivery of an InstallSnap *)
  Lemma cpart_other s s' m om' : cpart s s' (Some m) -> m_body m <> VoteResp true -> cpart s s' om'.
  Proof.
    intros H Hb Hc. destruct (H Hc) as [A [[B1 [B2 B3]] | B]]; split; auto. left. split; [exact B1|]. split; [exact B2|].
    intros v Hv. destruct (B3 v Hv) as [X | [m0 [E [Y _]]]]; [left; exact X|]. inversion E. subst m0. contradiction.
  Qed.

  Lemma premV_v0 C v0 v0' p T Cs li lt :
    p_log (n_p v0') = p_log (n_p v0) -> premV C v0 p T Cs li lt -> premV C v0' p T Cs li lt.
  Proof.
    intros E [H1 [H2 [H3 [H4 [H5 [H6 H7]]]]]]. unfold premV. repeat (split; [assumption|]).
    intro Hc. destruct (H7 Hc) as [A1 [c [Q [B D]]]]. split; [exact A1|]. exists c. split; [| split; [exact B | exact D]].
    unfold qtrunc, conflict_at in *. simpl in *. rewrite E. exact Q.
  Qed.

  Lemma MSI_step_install σ EC Cf S G A CL GR GL i s m li lt cf k crashed st s' :
    MSI (σ, EC) Cf S G A CL GR GL ->
    get_node i (sy_nodes σ) = Some s ->
    In m (sy_soup σ) -> m_to m <> 0 -> m_body m = InstallSnap li lt cf ->
    run_event_crash (settle s) (EDeliver m) k = Ret (crashed, st, s') ->
    exists Cf' S' G' A' CL' GR' GL', MSI (step_sys σ s', EC ++ ec_of s s') Cf' S' G' A' CL' GR' GL' /\ incl G G' /\ incl A A'.
  Proof.
    intros HI Gs Min Mto Eb Hrun. destruct HI as [HM HE HN HS H1 HC]. cbn [fst snd] in *.
    pose proof (get_vsys Cf S σ i s Gs) as Gv.
    pose proof (ms_w _ _ _ _ _ _ _ _ HM) as WI. pose proof (k_g _ _ _ _ _ (w_k _ _ _ _ _ _ _ _ WI)) as GI. cbn [fst] in GI.
    destruct (HN i s Gs) as [Sh [ShC Cl]].
    destruct (get_node_in _ _ _ Gs) as [Gin Gid].
    assert (Hb : LogMatchNodeQ.base (vn (Cf i) s)) by exact (LogMatchM.g_base _ _ _ _ GI i _ Gv).
    assert (Hli : 1 <= li) by (pose proof (H1 m Min) as X; unfold isq1 in X; rewrite Eb in X; exact X).
    pose proof HS as [R1 R2].
    assert (MinS : In (img m) S) by (apply R1; exact Min).
    assert (Ebi : m_body (img m) = AppEnts li lt li None) by (simpl; rewrite Eb; reflexivity).
    destruct (derive_IS bm be (vsys Cf S σ) EC G A CL GR GL HM i (Cf i) s Gv Sh (img m) li lt MinS Ebi Hli)
      as [j [l [Cs [Hr [HCs [Hll [Cp [HU HpV]]]]]]]]. simpl m_term in *.
    set (ms := vmsg m Cs li).
    (* the stand-in joins the virtual soup *)
    assert (HM1 : MS bm be (vsys Cf (S ++ [ms]) σ, EC) G A CL GR GL).
    { change (vsys Cf (S ++ [ms]) σ) with (vinj (vsys Cf S σ) ms). apply MS_inject; [exact HM | | | |].
      - eexists _, _, _, _. reflexivity.
      - unfold msg_ok3. simpl. exists j, l. split; [exact Hr|]. split; [| exact HU].
        unfold slice. split; [lia|]. split; [left; reflexivity|]. simpl. exact HCs.
      - intros x Gx. exact (e_mterm _ (ms_em _ _ _ _ _ _ _ _ HM) (img m) x MinS Gx).
      - intros pi pt cm oe E. simpl in E. inversion E. subst. simpl. exists j, l. auto. }
    assert (HS1 : soup_rel σ (S ++ [ms])).
    { split.
      - intros m0 H0. apply in_or_app. left. auto.
      - intros m' H'. apply in_app_or in H'. destruct H' as [H' | [E | []]]; [auto|]. subst m'.
        exists m. split; [exact Min|]. simpl. repeat split; auto. right. eexists _, _, _, _. reflexivity. }
    assert (HpV' : p_term (n_p s) <= m_term m -> premV (Cf i) (with_budget (settle (vn (Cf i) s)) k) (n_p s) (m_term m) Cs li lt).
    { intro X. eapply premV_v0; [| exact (HpV X)]. reflexivity. }
    destruct (vstep_install (Cf i) s m li lt cf Cs k crashed st s' Hb Sh Eb HpV' Hrun) as [C' [NS [NQ [Sh' Hi']]]].
    destruct (snapshot_meta_step s (EDeliver m) k crashed st s' Hrun) as [Hq Hsn]. simpl in Hsn. rewrite Eb in Hsn.
    assert (Hns : noself s (EDeliver m)) by (intros x rnd E; discriminate).
    assert (Hpk0 : peers_ok s) by exact (ms_pk _ _ _ _ _ _ _ _ HM i _ Gv).
    assert (HCP : cpart (vn (Cf i) s) (vn C' s') (ev_msg (EDeliver ms))).
    { destruct (step_csum _ _ _ _ _ _ Hrun) as [_ [_ X]]. simpl in X. simpl. eapply cpart_other; [exact X|]. rewrite Eb. discriminate. }
    assert (HSh : n_role s = Leader -> p_term (n_p s') = p_term (n_p s) -> ShT (vn (Cf i) s) (C' ++ p_log (n_p s'))).
    { intros Hrl Ht. destruct (leader_install_unchanged (Cf i) s m li lt cf k crashed st s' Sh Hrl Eb Hrun Ht) as [K1 K2].
      assert (Sh2 : shape C' (n_p s) (n_commit s')) by (apply (shape_ext C' (n_p s') (n_p s) _ _ (eq_sym K1) (eq_sym K2) (N.le_refl _) Sh')).
      pose proof (shape_len_eq (Cf i) C' (n_p s) _ _ Sh Sh2) as Hlen.
      pose proof (LogMatchNodeQ.v_lr _ _ _ _ _ _ _ _ _ NQ) as LR0. unfold LogMatchNodeQ.LR in LR0. cbv zeta in LR0. simpl in LR0.
      assert (Hcont : n_role s = Leader /\ p_term (n_p s') = p_term (n_p s)) by auto.
      assert (HL : exists new, C' ++ p_log (n_p s') = (Cf i ++ p_log (n_p s)) ++ new).
      { destruct LR0 as [X | [[_ [X _]] | [[_ [X _]] | [[_ [_ [new [X _]]]] | [_ [X _]]]]]]; try (exfalso; apply X; exact Hcont).
        - exists []. rewrite app_nil_r. exact X.
        - exists new. exact X. }
      destruct HL as [new HL].
      assert (Hn : new = []).
      { assert (Y : length (C' ++ p_log (n_p s')) = length ((Cf i ++ p_log (n_p s)) ++ new)) by (rewrite HL; reflexivity).
        rewrite !app_length, K1 in Y. destruct new; [reflexivity | simpl in Y; lia]. }
      subst new. rewrite app_nil_r in HL. rewrite HL. left. exists []. split; [simpl; rewrite app_nil_r; reflexivity | constructor]. }
    assert (Hlps : n_role (vn (Cf i) s) = Leader -> p_term (n_p (vn C' s')) = p_term (n_p (vn (Cf i) s)) -> peers_sub (vn C' s')).
    { intros Hrl Ht. exact (leader_peers_sub s (EDeliver m) k crashed st s' Hrun Hrl Ht Hns (Hpk0 Hrl)). }
    assert (HdelI : forall m0, EDeliver ms = EDeliver m0 -> In m0 (S ++ [ms]) /\ m_to m0 <> 0).
    { intros m0 E. inversion E. subst m0. split; [apply in_or_app; right; left; reflexivity | exact Mto]. }
    pose proof (get_vsys Cf (S ++ [ms]) σ i s Gs) as Gv1.
    pose proof (sp_no_trunc bm be (vsys Cf (S ++ [ms]) σ) EC G A CL GR GL i (vn (Cf i) s) (EDeliver ms) k (vn C' s') HM1 Gv1 HdelI Logic.I NS NQ HCP Hlps HSh) as Hnt.
    simpl in Hnt.
    assert (Hkeep : forall sm, p_snap (n_p s) = Some sm ->
              firstn (N.to_nat (sn_index sm)) (C' ++ p_log (n_p s')) = firstn (N.to_nat (sn_index sm)) (Cf i ++ p_log (n_p s))).
    { intros sm Hm. eapply firstn_le_eq; [| exact Hnt]. destruct Sh as [_ Sx]. rewrite Hm in Sx. lia. }
    (* the post-state of the virtual system matches logs: the prefix the new snapshot covers is the sender's *)
    destruct (step_facts _ _ _ _ _ _ Hrun) as [Hid _].
    assert (Hid' : n_id s' = i) by congruence.
    assert (Hnd : NoDup (map n_id (sy_nodes σ))) by (apply (e_nodup _ HE)).
    pose proof (step_vsys Cf (S ++ [ms]) σ s' C' Hnd) as Ev. rewrite Hid' in Ev.
    assert (EMr : EM (step_sys σ s', EC ++ ec_of s s')).
    { apply (EM_step (σ, EC) (i, EDeliver m, k)); [exact HE|]. eapply AStep; eauto. intros m0 E. inversion E. subst. auto. }
    assert (HS' : soup_rel (step_sys σ s') ((S ++ [ms]) ++ out_msgs (vn C' s'))).
    { destruct HS1 as [Q1 Q2]. split.
      - intros m0 Hm. simpl in Hm. apply in_app_or in Hm. apply in_or_app. destruct Hm as [Hm | Hm]; [left; auto | right].
        apply out_msgs_vn_in. exists m0. auto.
      - intros m' H'. apply in_app_or in H'. destruct H' as [H' | H'].
        + destruct (Q2 m' H') as [m0 [X Y]]. exists m0. split; [simpl; apply in_or_app; left; exact X | exact Y].
        + apply out_msgs_vn_in in H'. destruct H' as [m0 [X Y]]. exists m0. split; [simpl; apply in_or_app; right; exact X|].
          subst m'. simpl. auto. }
    assert (EMv : EM (step_sys (vsys Cf (S ++ [ms]) σ) (vn C' s'), EC ++ ec_of (vn (Cf i) s) (vn C' s'))).
    { rewrite Ev. change (ec_of (vn (Cf i) s) (vn C' s')) with (ec_of s s'). apply EM_vsys; [exact EMr | exact HS']. }
    pose proof (GI' bm be (vsys Cf (S ++ [ms]) σ) EC G A CL GR GL i (vn (Cf i) s) (EDeliver ms) k (vn C' s') HM1 Gv1 HdelI Logic.I NS EMv HCP Hlps HSh) as GIp.
    assert (Gs'v : get_node i (sy_nodes (step_sys (vsys Cf (S ++ [ms]) σ) (vn C' s'))) = Some (vn C' s')).
    { exact (stM_Gs' (vsys Cf (S ++ [ms]) σ) i (vn (Cf i) s) (EDeliver ms) k (vn C' s') Gv1 NS). }
    (* the record the message speaks about *)
    pose proof (LogMatchM.g_msgs _ _ _ _ GI (img m) MinS) as Mk. unfold msg_ok3 in Mk. rewrite Ebi in Mk.
    destruct Mk as [j0 [l0 [Hr0 [[Sl1 [Sl2 _]] _]]]]. simpl m_term in Hr0.
    destruct (HC m Min li lt cf Eb) as [j1 [l1 [Hr1 [Hc1 Hl1]]]]. simpl in Hc1.
    pose proof (LogMatchM.g_cmp _ _ _ _ GI _ _ _ _ _ Hr0 Hr1) as Cmp01.
    assert (F01 : firstn (N.to_nat li) l0 = firstn (N.to_nat li) l1) by (apply comparable_firstn; auto; lia).
    assert (Tl0 : exists e0, nth_error l0 (N.to_nat li - 1) = Some e0 /\ e_term e0 = lt).
    { destruct Sl2 as [Z | [e0 [E1 E2]]]; [lia|]. exists e0. split; [rewrite <- E1; f_equal; lia | exact E2]. }
    destruct Tl0 as [e0 [Tl0 Tl0t]].
    assert (Hagree : forall L, lm (G ++ rec_of (vn (Cf i) s) (vn C' s')) L \/ lm G L -> term_at L li lt -> firstn (N.to_nat li) L = firstn (N.to_nat li) l0).
    { intros L HL [Z | [e1 [E1 E2]]]; [lia|].
      replace (N.to_nat li) with (Datatypes.S (N.to_nat li - 1)) by lia.
      destruct HL as [HL | HL].
      - apply (same_term_prefix (G ++ rec_of (vn (Cf i) s) (vn C' s')) L l0 (N.to_nat li - 1) e1 e0); auto.
        + apply (LogMatchM.g_cmp _ _ _ _ GIp).
        + apply (LogMatchM.g_lm_rec _ _ _ _ GIp (m_term m) j0 l0). apply in_or_app. left. exact Hr0.
        + rewrite <- E1. f_equal. lia.
        + congruence.
      - apply (same_term_prefix G L l0 (N.to_nat li - 1) e1 e0); auto.
        + apply (LogMatchM.g_cmp _ _ _ _ GI).
        + apply (LogMatchM.g_lm_rec _ _ _ _ GI (m_term m) j0 l0 Hr0).
        + rewrite <- E1. f_equal. lia.
        + congruence. }
    assert (ShC' : shapeC C' (n_p s')).
    { unfold shapeC. destruct Hsn as [X | X]; rewrite X.
      - destruct (p_snap (n_p s)) as [sm |] eqn:Es; [| exact I]. rewrite (Hkeep sm eq_refl). unfold shapeC in ShC. rewrite Es in ShC. exact ShC.
      - simpl. pose proof Sh' as [_ Sx]. rewrite X in Sx. simpl in Sx. destruct Sx as [_ [_ [Ta _]]].
        rewrite (Hagree (C' ++ p_log (n_p s'))); [rewrite F01; exact Hc1 | left; exact (LogMatchM.g_lm_node _ _ _ _ GIp i _ Gs'v) | exact Ta]. }
    assert (Cl' : conf_logical s').
    { apply (conf_tracks_logical_step s (EDeliver m) k crashed st s' Cl); [| exact Hrun]. simpl. split.
      - unfold mwf. rewrite Eb. exact I.
      - unfold snap_msg_pre. rewrite Eb. unfold snap_pre. simpl. intro Hil.
        pose proof (in_log_S (Cf i) (n_p s) (n_commit s) Sh li lt true Hil) as [B1 [B2 B3]].
        destruct Cl as [_ Cn].
        apply (snap_conf_ok_of_prefix (Cf i) s _ (n_commit s) Sh ShC Cn); simpl; try lia.
        rewrite (Hagree (Cf i ++ p_log (n_p s))); [rewrite F01; exact Hc1 | right; exact (LogMatchM.g_lm_node _ _ _ _ GI i _ Gv) | exact B3]. }
    assert (Hisc : forall m0 li0 lt0 cf0, In m0 (n_msgs s') -> m_body m0 = InstallSnap li0 lt0 cf0 ->
              Some cf0 = lconf (firstn (N.to_nat li0) (C' ++ p_log (n_p s'))) /\ (N.to_nat li0 <= length (C' ++ p_log (n_p s')))%nat).
    { intros m0 li0 lt0 cf0 Hin Hb0. rewrite Forall_forall in Hq. specialize (Hq m0 Hin). unfold isqc in Hq. rewrite Hb0 in Hq.
      destruct Hq as [sm [E1 [E2 [E3 E4]]]]. subst li0.
      unfold shapeC in ShC. rewrite E1 in ShC. rewrite (Hkeep sm E1). split; [rewrite <- ShC; symmetry; exact E4|].
      assert (Y : length (firstn (N.to_nat (sn_index sm)) (C' ++ p_log (n_p s'))) = length (firstn (N.to_nat (sn_index sm)) (Cf i ++ p_log (n_p s))))
        by (rewrite (Hkeep sm E1); reflexivity).
      rewrite !firstn_length in Y. destruct Sh as [_ Sx]. rewrite E1 in Sx. lia. }
    pose proof (MSI_tail σ EC Cf (S ++ [ms]) G A CL GR GL i s (EDeliver m) k crashed st s' (EDeliver ms) C' HM1 HE HN HS1 H1 HC Gs
                  ltac:(intros m0 E; inversion E; subst; auto) Hrun Hns ltac:(intros m0 E; discriminate)
                  HdelI Logic.I NS NQ HCP Sh' ShC' Cl' HSh Hisc) as T.
    eexists _, _, _, _, _, _, _. split; [exact T|]. split; intros r Hr2; apply in_or_app; left; exact Hr2.
  Qed.

  (* ---------------------------------------------------------------- THE STEP *)
  Lemma MSI_step a Cf S G A CL GR GL e a' :
    MSI a Cf S G A CL GR GL -> cstep a e a' ->
    exists Cf' S' G' A' CL' GR' GL', MSI a' Cf' S' G' A' CL' GR' GL' /\ incl G G' /\ incl A A'.
  Proof.
    intros HI Hst. destruct Hst as [σ EC i s ev k crashed st s' Gs Hdel Hres Hrun].
    destruct ev as [ms ep | m | | es | mem rnd | mem | sm |].
    - eapply MSI_step_generic; eauto; try exact Logic.I.
    - destruct (m_body m) as [pi pt cm oes | su ix hi | vli vlt | gr | li lt cf] eqn:Eb.
      5: { destruct (Hdel m eq_refl) as [Min Mto]. eapply MSI_step_install; eauto. }
      all: eapply MSI_step_generic; eauto; try (simpl; rewrite Eb; exact Logic.I).
    - eapply MSI_step_generic; eauto; try exact Logic.I.
    - eapply MSI_step_generic; eauto; try exact Logic.I.
    - eapply MSI_step_generic; eauto; try exact Logic.I.
    - eapply MSI_step_generic; eauto; try exact Logic.I.
    - eapply MSI_step_snapdone; eauto.
    - eapply MSI_step_generic; eauto; try exact Logic.I.
  Qed.

  Hypothesis Hbm : NoDup bm.
  Definition Cf0 : ghost := fun _ => [].

  Lemma MSI_init a : minitS a -> MSI a Cf0 [] [(1, 0, [boot_entry bm be])] [] [] [] [].
  Proof.
    intros [Hi Hl]. pose proof Hi as [Hn [Ha [Hs [Hc [Hh He]]]]].
    constructor.
    - apply (MS_init bm be Hbm). split.
      + split; [simpl; rewrite ids_vsys; exact Hn|]. split; [| simpl; auto].
        intros v Hv. simpl in Hv. apply in_map_iff in Hv. destruct Hv as [x [E Hx]]. subst v. exact (Ha x Hx).
      + intros v Hv. simpl in Hv. apply in_map_iff in Hv. destruct Hv as [x [E Hx]]. subst v.
        destruct (Hl x Hx) as [L1 [L2 [L3 [L4 L5]]]]. simpl. rewrite L1. auto.
    - apply EM_init. exact Hi.
    - intros i s G. apply get_node_in in G. destruct G as [G _]. destruct (Hl s G) as [L1 [L2 [L3 [L4 L5]]]].
      split; [| split].
      + unfold shape, Cf0. rewrite L1, L2. simpl. auto.
      + unfold shapeC. rewrite L2. exact Logic.I.
      + split; [unfold contig, lwf; rewrite L1; simpl; auto|]. rewrite L3. unfold init_latest_conf. rewrite L2, L1. reflexivity.
    - unfold soup_rel. rewrite Hs. split; [intros m [] | intros m' []].
    - intros m Hm. rewrite Hs in Hm. destruct Hm.
    - intros m Hm. rewrite Hs in Hm. destruct Hm.
  Qed.

  Lemma MSI_run a1 sched a2 Cf1 S1 G1 A1 CL1 GR1 GL1 :
    MSI a1 Cf1 S1 G1 A1 CL1 GR1 GL1 -> run asys sys_event cstep a1 sched a2 ->
    exists Cf2 S2 G2 A2 CL2 GR2 GL2, MSI a2 Cf2 S2 G2 A2 CL2 GR2 GL2 /\ incl G1 G2 /\ incl A1 A2.
  Proof.
    intros HS Hrun. revert Cf1 S1 G1 A1 CL1 GR1 GL1 HS.
    induction Hrun as [a | a e a' es a'' Hst Hr IH]; intros Cf1 S1 G1 A1 CL1 GR1 GL1 HS.
    - exists Cf1, S1, G1, A1, CL1, GR1, GL1. split; [exact HS|]. split; apply incl_refl.
    - destruct (MSI_step a Cf1 S1 G1 A1 CL1 GR1 GL1 e a' HS Hst) as [Cf' [S' [G' [A' [CL' [GR' [GL' [HS' [Hi Ha]]]]]]]]].
      destruct (IH Cf' S' G' A' CL' GR' GL' HS') as [Cf2 [S2 [G2 [A2 [CL2 [GR2 [GL2 [HS2 [Hi2 Ha2]]]]]]]]].
      exists Cf2, S2, G2, A2, CL2, GR2, GL2. split; [exact HS2|]. split; eapply incl_tran; eauto.
  Qed.

  (* ================================================================ THE THEOREMS over the combined alphabet *)
  (* logical log: the entries the snapshot covers and the log no longer holds, then the physical log *)
  Definition llogC (Cf : ghost) (x : node) : list entry := Cf (n_id x) ++ p_log (n_p x).
  (* the ghost assignment fits the state *)
  Definition fitsC (a : asys) (Cf : ghost) : Prop :=
    forall x, In x (sy_nodes (fst a)) -> shape (Cf (n_id x)) (n_p x) (n_commit x) /\ shapeC (Cf (n_id x)) (n_p x).

  Lemma MSI_fits a Cf S G A CL GR GL : MSI a Cf S G A CL GR GL -> fitsC a Cf.
  Proof.
    intros HI x Hx. pose proof (in_get_node _ _ (e_nodup _ (mi_em _ _ _ _ _ _ _ _ HI)) Hx) as Gx.
    destruct (mi_node _ _ _ _ _ _ _ _ HI _ _ Gx) as [A1 [A2 _]]. auto.
  Qed.

  Theorem election_safety_combined_sys a0 a sched :
    minitS a0 -> run asys sys_event cstep a0 sched a ->
    forall t x y, In (t, x) (sy_hist (fst a)) -> In (t, y) (sy_hist (fst a)) -> x = y.
  Proof.
    intros Hi Hrun. destruct (MSI_run _ _ _ _ _ _ _ _ _ _ (MSI_init a0 Hi) Hrun) as [Cf [S [G [A [CL [GR [GL [HI _]]]]]]]].
    pose proof (mi_ms _ _ _ _ _ _ _ _ HI) as M.
    exact (LogMatchM.g_es _ _ _ _ (k_g _ _ _ _ _ (w_k _ _ _ _ _ _ _ _ (ms_w _ _ _ _ _ _ _ _ M)))).
  Qed.

  Lemma vsys_in Cf S σ x : In x (sy_nodes σ) -> In (vnode Cf x) (sy_nodes (vsys Cf S σ)).
  Proof. intro H. simpl. apply in_map. exact H. Qed.

  Theorem log_matching_combined_sys a0 a sched :
    minitS a0 -> run asys sys_event cstep a0 sched a ->
    exists Cf, fitsC a Cf /\
      forall x y k k' e e',
        In x (sy_nodes (fst a)) -> In y (sy_nodes (fst a)) ->
        nth_error (llogC Cf x) k = Some e -> nth_error (llogC Cf y) k' = Some e' ->
        e_index e = e_index e' -> e_term e = e_term e' ->
        k = k' /\ firstn (Datatypes.S k) (llogC Cf x) = firstn (Datatypes.S k) (llogC Cf y).
  Proof.
    intros Hi Hrun. destruct (MSI_run _ _ _ _ _ _ _ _ _ _ (MSI_init a0 Hi) Hrun) as [Cf [S [G [A [CL [GR [GL [HI _]]]]]]]].
    exists Cf. split; [eapply MSI_fits; eauto|].
    intros x y k k' e e' Hx Hy Hk Hk' Ei Et.
    pose proof (mi_ms _ _ _ _ _ _ _ _ HI) as M.
    pose proof (k_g _ _ _ _ _ (w_k _ _ _ _ _ _ _ _ (ms_w _ _ _ _ _ _ _ _ M))) as GI. cbn [fst] in GI.
    pose proof (LogMatchM.g_nd _ _ _ _ GI) as Hnd.
    pose proof (in_get_node _ _ Hnd (vsys_in Cf S _ x Hx)) as Gx. pose proof (in_get_node _ _ Hnd (vsys_in Cf S _ y Hy)) as Gy.
    destruct (LogMatchM.g_base _ _ _ _ GI _ _ Gx) as [_ [Wx _]]. destruct (LogMatchM.g_base _ _ _ _ GI _ _ Gy) as [_ [Wy _]].
    simpl in Wx, Wy. unfold llogC in *.
    pose proof (wf_from_nth _ _ _ _ Wx Hk) as Ia. pose proof (wf_from_nth _ _ _ _ Wy Hk') as Ib.
    assert (Ek : k = k') by lia. subst k'. split; auto.
    eapply same_term_prefix; eauto.
    - apply (LogMatchM.g_cmp _ _ _ _ GI).
    - exact (LogMatchM.g_lm_node _ _ _ _ GI _ _ Gx).
    - exact (LogMatchM.g_lm_node _ _ _ _ GI _ _ Gy).
  Qed.

  (* whatever any node has committed is in the logical log of every leader of a later term *)
  Theorem leader_completeness_combined_sys a0 a1 a2 sched1 sched2 :
    minitS a0 -> run asys sys_event cstep a0 sched1 a1 -> run asys sys_event cstep a1 sched2 a2 ->
    exists Cf1 Cf2, fitsC a1 Cf1 /\ fitsC a2 Cf2 /\
      forall x b,
        In x (sy_nodes (fst a1)) -> In b (sy_nodes (fst a2)) -> n_role b = Leader -> p_term (n_p x) < p_term (n_p b) ->
        (N.to_nat (n_commit x) <= length (llogC Cf1 x))%nat /\
        firstn (N.to_nat (n_commit x)) (llogC Cf2 b) = firstn (N.to_nat (n_commit x)) (llogC Cf1 x).
  Proof.
    intros Hi Hr1 Hr2.
    destruct (MSI_run _ _ _ _ _ _ _ _ _ _ (MSI_init a0 Hi) Hr1) as [Cf1 [S1 [G1 [A1 [CL1 [GR1 [GL1 [HI1 _]]]]]]]].
    destruct (MSI_run _ _ _ _ _ _ _ _ _ _ HI1 Hr2) as [Cf2 [S2 [G2 [A2 [CL2 [GR2 [GL2 [HI2 [HG HA]]]]]]]]].
    exists Cf1, Cf2. split; [eapply MSI_fits; eauto|]. split; [eapply MSI_fits; eauto|].
    intros x b Hx Hb Hlb Htb.
    pose proof (mi_ms _ _ _ _ _ _ _ _ HI1) as M1. pose proof (mi_ms _ _ _ _ _ _ _ _ HI2) as M2.
    pose proof (k_g _ _ _ _ _ (w_k _ _ _ _ _ _ _ _ (ms_w _ _ _ _ _ _ _ _ M1))) as GI1.
    pose proof (k_g _ _ _ _ _ (w_k _ _ _ _ _ _ _ _ (ms_w _ _ _ _ _ _ _ _ M2))) as GI2. cbn [fst] in GI1, GI2.
    pose proof (in_get_node _ _ (LogMatchM.g_nd _ _ _ _ GI1) (vsys_in Cf1 S1 _ x Hx)) as Gx.
    pose proof (in_get_node _ _ (LogMatchM.g_nd _ _ _ _ GI2) (vsys_in Cf2 S2 _ b Hb)) as Gb.
    destruct (ms_cn _ _ _ _ _ _ _ _ M1 _ _ Gx) as [Hcl Hcp]. simpl in Hcl, Hcp. unfold llogC. split; [exact Hcl|].
    destruct Hcp as [Z | [T [P [Cm [HT Hp]]]]]; [rewrite Z; reflexivity|].
    pose proof (committedM_mono G1 G2 A1 A2 T P HG HA Cm) as Cm2.
    pose proof (LogMatchM.g_rec_leader _ _ _ _ GI2 _ _ Gb Hlb) as Rb. simpl in Rb.
    pose proof (committedM_kept bm be _ _ _ _ _ _ M2 T P _ _ _ Cm2 Rb ltac:(simpl in *; lia)) as K.
    set (c := N.to_nat (n_commit x)) in *. set (Lx := Cf1 (n_id x) ++ p_log (n_p x)) in *.
    assert (Hlen : length (firstn c Lx) = c) by (rewrite firstn_length; lia).
    assert (HcP : (c <= length P)%nat) by (destruct Hp as [w Hw]; rewrite Hw, app_length; lia).
    assert (E1 : firstn c P = firstn c Lx).
    { destruct Hp as [w Hw]. rewrite Hw. rewrite firstn_app, Hlen, Nat.sub_diag. simpl. rewrite app_nil_r. rewrite firstn_firstn, Nat.min_id. reflexivity. }
    rewrite <- E1. unfold keeps in K. rewrite <- K. rewrite firstn_firstn, Nat.min_l by lia. reflexivity.
  Qed.
End System.
