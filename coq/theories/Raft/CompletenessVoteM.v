(* Raft/CompletenessVoteM.v — round 7: the vote invariant of Raft/CompletenessVote.v over ackinvM / ginvM, with per-record
   quorums.  Generated from it by text replacement and then edited: (1) grants given when a leader record of the term
   already exists are no longer dropped but collected in GL with the weaker fact v1_late; (2) w_quorum says that the
   leader's quorum of grants lies inside the latest configuration of its candidacy log, is a majority of it, and every
   member of it is a cast vote (MemberAbstract.win); (3) a candidate's candidacy log IS its log. *)
From Coq Require Import List NArith ZArith Bool Lia ZifyN ZifyNat ZifyBool.
From BLB Require Import Lib.LTS Raft.Core Raft.Wire Raft.NodeProofs Raft.NodeKeep Raft.NodeElect Raft.NodeConf
  Raft.Election Raft.ElectionFixed Raft.LogMatchLists Raft.LogMatchNode Raft.LogMatch Raft.Completeness Raft.CompletenessAck
  Raft.CompletenessVote Raft.LogMatchNodeM Raft.LogMatchM Raft.CompletenessAckM Raft.MemberAbstract.
Import ListNotations.
Open Scope N_scope.

Definition gl_of (G : list lrec) (s s' : node) : list grant :=
  if has_rec G (p_term (n_p s')) then resp_grants s' else [].

Section VoteInvM.
  Variables (bm : list nid) (be : N).

  Record voteinvM (σ : sys) (G : list lrec) (A : list ack) (CL : list cand) (GR GL : list grant) : Prop := {
    w_k : ackinvM bm be σ G A;
    w_c0 : forall c U lc, In (c, U, lc) CL -> lm G lc /\ (forall e, In e lc -> e_term e < U);
    w_cterm : forall c U lc, In (c, U, lc) CL -> exists s, get_node c (sy_nodes σ) = Some s /\ U <= p_term (n_p s);
    w_cfun : forall c U l1 l2, In (c, U, l1) CL -> In (c, U, l2) CL -> l1 = l2;
    w_c3 : forall i s, get_node i (sy_nodes σ) = Some s -> n_role s <> Follower ->
             exists lc, In (n_id s, p_term (n_p s), lc) CL /\ pfx lc (p_log (n_p s)) /\ (n_role s = Candidate -> lc = p_log (n_p s));
    w_c2 : forall U c l, In (U, c, l) G -> c <> 0 -> exists lc, In (c, U, lc) CL /\ pfx lc l;
    w_vr : forall m li lt, In m (sy_soup σ) -> m_body m = VoteReq li lt ->
             exists lc, In (m_from m, m_term m, lc) CL /\ li = N.of_nat (length lc) /\ lt = last_term lc;
    w_v0 : forall v U c, In (v, U, c) GR -> exists s, get_node v (sy_nodes σ) = Some s /\ U <= p_term (n_p s);
    w_vl0 : forall v U c, In (v, U, c) GL -> exists s, get_node v (sy_nodes σ) = Some s /\ U <= p_term (n_p s);
    w_v1 : forall v U c, In (v, U, c) GR -> exists lc, In (c, U, lc) CL /\ v1_fact G A v U lc;
    w_vl : forall v U c, In (v, U, c) GL -> exists lc, In (c, U, lc) CL /\ v1_late G A v U lc;
    w_glrec : forall v U c, In (v, U, c) GL -> has_rec G U = true;
    w_self : forall i s, get_node i (sy_nodes σ) = Some s -> n_role s <> Follower -> In (n_id s, p_term (n_p s), n_id s) GR;
    w_votes : forall i s, get_node i (sy_nodes σ) = Some s -> n_role s <> Follower ->
                forall v, In v (c_votes s) -> In (v, p_term (n_p s), n_id s) GR \/ In (v, p_term (n_p s), n_id s) GL;
    w_resp : forall m, In m (sy_soup σ) -> m_body m = VoteResp true -> m_to m <> 0 ->
               In (m_from m, m_term m, m_to m) GR \/ In (m_from m, m_term m, m_to m) GL;
    w_quorum : forall U c l, In (U, c, l) G -> c <> 0 -> exists lc, win CL GR (sy_cast σ) U c lc /\ pfx lc l
  }.

  Section Step.
    Variables (σ : sys) (G : list lrec) (A : list ack) (CL : list cand) (GR GL : list grant).
    Variables (i : nid) (s : node) (ev : event) (k : N) (s' : node).
    Hypothesis WI : voteinvM σ G A CL GR GL.
    Hypothesis Gs : get_node i (sy_nodes σ) = Some s.
    Hypothesis Hdel : forall m, ev = EDeliver m -> In m (sy_soup σ) /\ m_to m <> 0.
    Hypothesis Hres : evres bm be ev.
    Hypothesis NS : nstep s ev k s'.
    Hypothesis ESp : forall t a b, In (t, a) (sy_hist (step_sys σ s')) -> In (t, b) (sy_hist (step_sys σ s')) -> a = b.
    Hypothesis Hasc : n_role s' <> Follower ->
      asc (c_votes s') /\ forall v, In v (c_votes s') -> In (v, p_term (n_p s'), n_id s') (sy_cast (step_sys σ s')).
    Hypothesis Hwin : n_role s' = Leader -> ~ (n_role s = Leader /\ p_term (n_p s') = p_term (n_p s)) ->
      exists j e, latest (p_log (n_p s)) j e /\ incl (c_votes s') (cmem e) /\ maj (cmem e) <= N.of_nat (length (c_votes s')).
    Hypothesis Hcastmono : forall x, In x (sy_cast σ) -> In x (sy_cast (step_sys σ s')).

    Let σ' := step_sys σ s'.
    Let G' := G ++ rec_of s s'.
    Let A' := A ++ acks_of s' ++ rec_acks (rec_of s s').
    Let CL' := CL ++ cl_of s s'.
    Let GR' := GR ++ gr_of G s s'.
    Let GL' := GL ++ gl_of G s s'.
    Let L0 := p_log (n_p s).
    Let L' := p_log (n_p s').
    Let T' := p_term (n_p s').

    Let KI := w_k _ _ _ _ _ _ WI.
    Let GI := k_g _ _ _ _ _ KI.
    Let KI' : ackinvM bm be σ' G' A' := ackinvM_step_abs bm be σ G A i s ev k s' KI Gs Hdel Hres NS ESp.
    Let GI' : ginvM bm be σ' G' := k_g _ _ _ _ _ KI'.
    Let NI := stM_NI s ev k s' NS.
    Let Hi : n_id s' = i := stM_id σ i s ev k s' Gs NS.
    Let Gs' : get_node i (sy_nodes σ') = Some s' := stM_Gs' σ i s ev k s' Gs NS.

    Lemma vsM_incl : incl G G'. Proof. intros r Hr. apply in_or_app. left. exact Hr. Qed.
    Lemma vsM_inclA : incl A A'. Proof. intros r Hr. apply in_or_app. left. exact Hr. Qed.

    Lemma vsM_term_le : p_term (n_p s) <= T'.
    Proof. exact (v_tm _ _ _ _ _ _ _ _ _ NI). Qed.

    Lemma vsM_rt : T' = p_term (n_p s) -> n_role s' = n_role s \/ n_role s' = Follower \/ (n_role s = Candidate /\ n_role s' = Leader).
    Proof. exact (v_rt _ _ _ _ _ _ _ _ _ NI). Qed.

    (* a non-follower never truncates: its log extends the old one *)
    Lemma vsM_nf_ext : n_role s' <> Follower -> pfx L0 L'.
    Proof.
      intro Hr. pose proof (v_lr _ _ _ _ _ _ _ _ _ NI) as N_lr. unfold LR in N_lr. cbv zeta in N_lr.
      change (p_log (n_p (with_budget (settle s) k))) with L0 in N_lr. fold L' in N_lr.
      destruct N_lr as [X | [[X _] | [[X _] | [[_ [_ [new [X _]]]] | [X _]]]]]; try contradiction.
      - rewrite X. apply pfx_refl.
      - rewrite X. exists new. reflexivity.
    Qed.

    Lemma vsM_nf_same : n_role s' <> Follower -> T' <> p_term (n_p s) -> L' = L0.
    Proof.
      intros Hr Ht. pose proof (v_lr _ _ _ _ _ _ _ _ _ NI) as N_lr. unfold LR in N_lr. cbv zeta in N_lr.
      change (p_log (n_p (with_budget (settle s) k))) with L0 in N_lr. fold L' in N_lr.
      change (p_term (n_p (with_budget (settle s) k))) with (p_term (n_p s)) in N_lr. fold T' in N_lr.
      destruct N_lr as [X | [[X _] | [[X _] | [[_ [X _]] | [X _]]]]]; try contradiction; auto.
    Qed.

    (* a candidacy starts with the unchanged log, in a strictly higher term *)
    Lemma vsM_cl : forall c, In c (cl_of s s') -> c = (n_id s', T', L') /\ L' = L0 /\ p_term (n_p s) < T'.
    Proof.
      intros c. unfold cl_of. fold T'. destruct (T' =? p_term (n_p s)) eqn:Et; [intros []|]. apply N.eqb_neq in Et.
      assert (Hlt : p_term (n_p s) < T') by (pose proof vsM_term_le; lia).
      destruct (existsb is_votereq (n_msgs s')) eqn:Ev; simpl.
      - intros [H | []]. split; [auto|]. split; [| exact Hlt].
        apply existsb_exists in Ev. destruct Ev as [m [Hm Hv]]. unfold is_votereq in Hv.
        pose proof (v_msgs _ _ _ _ _ _ _ _ _ NI) as N_msgs. rewrite Forall_forall in N_msgs. pose proof (N_msgs m Hm) as Mg.
        unfold mgood in Mg. destruct (m_body m); try discriminate. destruct Mg as [_ [_ [X _]]]. exact X.
      - destruct (role_nf (n_role s')) eqn:Er; [| intros []]. intros [H | []]. split; [auto|]. split; [| exact Hlt].
        apply vsM_nf_same; auto. intro X. rewrite X in Er. discriminate.
    Qed.

    Lemma vsM_cl_in : (existsb is_votereq (n_msgs s') = true \/ n_role s' <> Follower) -> T' <> p_term (n_p s) ->
                     In (n_id s', T', L') (cl_of s s').
    Proof.
      intros H Ht. unfold cl_of. fold T'. apply N.eqb_neq in Ht. rewrite Ht.
      destruct H as [H | H]; [rewrite H; left; reflexivity|].
      destruct (n_role s') eqn:Er; try congruence; rewrite orb_true_r; left; reflexivity.
    Qed.

    Lemma vsM_ids : n_id s' = n_id s /\ n_id s = i.
    Proof. pose proof (ns_id _ _ _ _ NS) as Hid. destruct (get_node_in _ _ _ Gs) as [_ Gid]. auto. Qed.

    Lemma vsM_Go j : j <> i -> get_node j (sy_nodes σ') = get_node j (sy_nodes σ).
    Proof. apply (stM_Go σ i s ev k s' Gs NS). Qed.

    Lemma vsM_Gcase j x : get_node j (sy_nodes σ') = Some x -> (j = i /\ x = s') \/ (j <> i /\ get_node j (sy_nodes σ) = Some x).
    Proof.
      intro Hx. destruct (N.eq_dec j i) as [E | E].
      - subst j. rewrite Gs' in Hx. inversion Hx. auto.
      - rewrite vsM_Go in Hx; auto.
    Qed.

    Lemma vsM_nf_old : n_role s' <> Follower -> T' = p_term (n_p s) -> n_role s <> Follower.
    Proof. intros Hr Et. destruct (vsM_rt Et) as [X | [X | [X _]]]; congruence. Qed.

    Lemma vsM_self : n_role s' <> Follower -> In (n_id s', T', n_id s') GR'.
    Proof.
      intro Hr. destruct vsM_ids as [Hid Gid]. destruct (N.eq_dec T' (p_term (n_p s))) as [Et | Et].
      - apply in_or_app. left. rewrite Hid, Et. apply (w_self _ _ _ _ _ _ WI i s Gs). apply vsM_nf_old; auto.
      - apply in_or_app. right. unfold gr_of. apply in_or_app. left.
        pose proof (vsM_cl_in (or_intror Hr) Et) as Hc. destruct (cl_of s s'); [contradiction | left; reflexivity].
    Qed.

    Lemma vsM_votes_src : n_role s' <> Follower -> forall v, In v (c_votes s') -> In (v, T', n_id s') GR' \/ In (v, T', n_id s') GL'.
    Proof.
      intros Hr v Hv. destruct vsM_ids as [Hid Gid].
      pose proof (ns_esum _ _ _ _ NS) as He. destruct (He Hr) as [S1 _].
      destruct (S1 v Hv) as [[R1 [R2 R3]] | [[R1 R2] | [m [R1 [R2 [R3 [R4 R5]]]]]]].
      - fold T' in R2. destruct (w_votes _ _ _ _ _ _ WI i s Gs R1 v R3) as [X | X].
        + left. apply in_or_app. left. rewrite Hid, R2. exact X.
        + right. apply in_or_app. left. rewrite Hid, R2. exact X.
      - left. subst v. rewrite <- Hid. apply vsM_self; auto.
      - destruct ev; simpl in R1; try discriminate. inversion R1. subst m0.
        destruct (Hdel m eq_refl) as [Min Mto]. destruct R5 as [R5 | R5]; [| contradiction].
        fold T' in R4. destruct (w_resp _ _ _ _ _ _ WI m Min R2 Mto) as [X | X].
        + left. apply in_or_app. left. rewrite R3, <- R4, Hid, <- R5. exact X.
        + right. apply in_or_app. left. rewrite R3, <- R4, Hid, <- R5. exact X.
    Qed.

    (* a node that is not the leader and does not end as follower keeps its log *)
    Lemma vsM_nl_same : n_role s' <> Follower -> n_role s <> Leader -> L' = L0.
    Proof.
      intros Hr Hnl. pose proof (v_lr _ _ _ _ _ _ _ _ _ NI) as N_lr. unfold LR in N_lr. cbv zeta in N_lr.
      change (p_log (n_p (with_budget (settle s) k))) with L0 in N_lr. fold L' in N_lr.
      change (n_role (with_budget (settle s) k)) with (n_role s) in N_lr.
      destruct N_lr as [X | [[X _] | [[X _] | [[X _] | [X _]]]]]; try contradiction; auto.
    Qed.

    Lemma vlM_mono lc v U : v1_late G A v U lc -> (forall T P, In (v, T, P) A' -> T < U -> In (v, T, P) A) -> v1_late G' A' v U lc.
    Proof.
      intros H Hold T P Hin Hlt kk Htp. destruct (H T P (Hold T P Hin Hlt) Hlt kk Htp) as [X | X]; [left; exact X | right].
      destruct X as [U' [j [l [E1 [E2 [E3 E4]]]]]]. exists U', j, l. split; [apply vsM_incl; exact E1 | auto].
    Qed.

    Lemma v1M_mono lc v U : v1_fact G A v U lc -> (forall T P, In (v, T, P) A' -> T < U -> In (v, T, P) A) -> v1_fact G' A' v U lc.
    Proof.
      intros H Hold T P Hin Hlt kk Htp. destruct (H T P (Hold T P Hin Hlt) Hlt kk Htp) as [X | X]; [left; exact X | right].
      eapply escapes_lt_mono; [apply vsM_incl | exact X].
    Qed.

    (* new acknowledgements of the touched node carry its final term *)
    Lemma vsM_new_ack v T P : In (v, T, P) A' -> In (v, T, P) A \/ (v = n_id s' /\ T = T').
    Proof.
      intro Hin. unfold A' in Hin. apply in_app_or in Hin. destruct Hin as [Hin | Hin]; [left; exact Hin | right].
      apply in_app_or in Hin. destruct Hin as [Hin | Hin].
      - apply in_acks_of in Hin. destruct Hin as [m0 [idx [h [_ [_ Ea]]]]]. inversion Ea. auto.
      - apply in_rec_acks in Hin. destruct Hin as [t [j [l [Hr Ea]]]]. inversion Ea. subst v T P.
        apply in_rec_of in Hr. destruct Hr as [Er _]. inversion Er. auto.
    Qed.

    Lemma voteinvM_step_abs : voteinvM σ' G' A' CL' GR' GL'.
    Proof.
      destruct vsM_ids as [Hid Gid].
      pose proof (ns_pext _ _ _ _ NS) as Hp. pose proof (ns_msgs _ _ _ _ NS) as Hm. pose proof (ns_esum _ _ _ _ NS) as He.
      assert (Hsame_ids : map n_id (sy_nodes σ') = map n_id (sy_nodes σ)) by (simpl; apply put_node_ids).
      constructor.
      - exact KI'.
      - (* candidacy logs satisfy LM and hold only earlier terms *)
        intros c U lc Hin. apply in_app_or in Hin. destruct Hin as [Hin | Hin].
        + destruct (w_c0 _ _ _ _ _ _ WI _ _ _ Hin) as [X Y]. split; auto. eapply lm_mono; [apply vsM_incl | exact X].
        + destruct (vsM_cl _ Hin) as [Ec [EL Hlt]]. inversion Ec. subst c U lc. split.
          * apply (g_lm_node _ _ _ _ GI' i s' Gs').
          * intros e He'. fold L' in He'. rewrite EL in He'. destruct (g_tb_node _ _ _ _ GI i s Gs) as [TB _].
            unfold tbound in TB. rewrite Forall_forall in TB. specialize (TB e He'). cbv beta in TB. fold T'. lia.
      - intros c U lc Hin. apply in_app_or in Hin. destruct Hin as [Hin | Hin].
        + destruct (w_cterm _ _ _ _ _ _ WI _ _ _ Hin) as [x [Gx Le]]. destruct (N.eq_dec c i) as [E | E].
          * subst c. rewrite Gs in Gx. inversion Gx. subst x. exists s'. split; [exact Gs'|]. pose proof vsM_term_le. fold T'. lia.
          * exists x. split; [rewrite vsM_Go; auto | exact Le].
        + destruct (vsM_cl _ Hin) as [Ec _]. inversion Ec. exists s'. rewrite Hi. split; [exact Gs' | apply N.le_refl].
      - intros c U l1 l2 H1 H2. apply in_app_or in H1. apply in_app_or in H2.
        destruct H1 as [H1 | H1]; destruct H2 as [H2 | H2].
        + eapply (w_cfun _ _ _ _ _ _ WI); eauto.
        + destruct (vsM_cl _ H2) as [Ec [_ Hlt]]. inversion Ec. subst c U l2.
          destruct (w_cterm _ _ _ _ _ _ WI _ _ _ H1) as [x [Gx Le]]. rewrite Hi, Gs in Gx. inversion Gx. subst x. fold T' in Le. lia.
        + destruct (vsM_cl _ H1) as [Ec [_ Hlt]]. inversion Ec. subst c U l1.
          destruct (w_cterm _ _ _ _ _ _ WI _ _ _ H2) as [x [Gx Le]]. rewrite Hi, Gs in Gx. inversion Gx. subst x. fold T' in Le. lia.
        + destruct (vsM_cl _ H1) as [E1 _]. destruct (vsM_cl _ H2) as [E2 _]. congruence.
      - (* every candidate / leader has a candidacy log that is a prefix of its log; a candidate's is its log *)
        intros j x Hx Hr. destruct (vsM_Gcase j x Hx) as [[_ E] | [Hj E]].
        + subst x. destruct (N.eq_dec T' (p_term (n_p s))) as [Et | Et].
          * destruct (w_c3 _ _ _ _ _ _ WI i s Gs (vsM_nf_old Hr Et)) as [lc [X [Y Z]]]. exists lc. split.
            -- apply in_or_app. left. rewrite Hid. fold T'. rewrite Et. exact X.
            -- split; [eapply pfx_trans; [exact Y | apply vsM_nf_ext; exact Hr]|].
               intro Hc. assert (Hcs : n_role s = Candidate) by (destruct (vsM_rt Et) as [W | [W | [_ W]]]; congruence).
               rewrite (Z Hcs). symmetry. apply vsM_nl_same; congruence.
          * exists L'. split; [apply in_or_app; right; apply vsM_cl_in; auto|]. split; [apply pfx_refl | intros _; reflexivity].
        + destruct (w_c3 _ _ _ _ _ _ WI j x E Hr) as [lc [X [Y Z]]]. exists lc. split; [apply in_or_app; left; exact X | split; auto].
      - (* every leader record extends the candidacy log of its leader *)
        intros U c l Hin Hc. apply in_app_or in Hin. destruct Hin as [Hin | Hin].
        + destruct (w_c2 _ _ _ _ _ _ WI _ _ _ Hin Hc) as [lc [X Y]]. exists lc. split; auto. apply in_or_app. left. exact X.
        + apply in_rec_of in Hin. destruct Hin as [Er Cond]. inversion Er. subst U c l. fold T'. fold L'.
          destruct Cond as [Hl | [Hl Ht]].
          * destruct (N.eq_dec T' (p_term (n_p s))) as [Et | Et].
            -- assert (Hr : n_role s' <> Follower) by congruence.
               destruct (w_c3 _ _ _ _ _ _ WI i s Gs (vsM_nf_old Hr Et)) as [lc [X [Y _]]]. exists lc. split.
               ++ apply in_or_app. left. rewrite Hid. rewrite Et. exact X.
               ++ eapply pfx_trans; [exact Y | apply vsM_nf_ext; exact Hr].
            -- exists L'. split; [apply in_or_app; right; apply vsM_cl_in; auto; right; congruence | apply pfx_refl].
          * fold T' in Ht. assert (Hr : n_role s <> Follower) by congruence.
            destruct (w_c3 _ _ _ _ _ _ WI i s Gs Hr) as [lc [X [Y _]]]. exists lc. split.
            -- apply in_or_app. left. rewrite Hid, Ht. exact X.
            -- eapply pfx_trans; [exact Y|].
               pose proof (v_lr _ _ _ _ _ _ _ _ _ NI) as N_lr.
               destruct (strong_lr _ _ _ _ _ N_lr Hl Ht) as [Z | [new [Z _]]]; fold L'; change (p_log (n_p (with_budget (settle s) k))) with L0 in Z.
               ++ fold L' in Z. rewrite Z. apply pfx_refl.
               ++ fold L' in Z. rewrite Z. exists new. reflexivity.
      - (* VoteReq messages carry the candidacy log's last index and term *)
        intros m li lt Hin Hb. simpl in Hin. apply in_app_or in Hin. destruct Hin as [Hin | Hin].
        + destruct (w_vr _ _ _ _ _ _ WI m li lt Hin Hb) as [lc [X Y]]. exists lc. split; auto. apply in_or_app. left. exact X.
        + apply in_out_msgs in Hin. destruct Hin as [m0 [H0 [Et [Ef [Eto Eb]]]]].
          unfold msgs_ok in Hm. rewrite Forall_forall in Hm. destruct (Hm m0 H0) as [X [Y Z]].
          pose proof (v_msgs _ _ _ _ _ _ _ _ _ NI) as N_msgs. rewrite Forall_forall in N_msgs. pose proof (N_msgs m0 H0) as Mg.
          unfold mgood in Mg. rewrite <- Eb, Hb in Mg. destruct Mg as [M1 [M2 [M3 M4]]].
          exists L'. split; [| split; [exact M1 | exact M2]].
          apply in_or_app. right. rewrite Et, Ef, X, Y. apply vsM_cl_in.
          * left. apply existsb_exists. exists m0. split; auto. unfold is_votereq. rewrite <- Eb, Hb. reflexivity.
          * rewrite X in M4. fold T' in M4. lia.
      - intros v U c Hin. apply in_app_or in Hin. destruct Hin as [Hin | Hin].
        + destruct (w_v0 _ _ _ _ _ _ WI _ _ _ Hin) as [x [Gx Le]]. destruct (N.eq_dec v i) as [E | E].
          * subst v. rewrite Gs in Gx. inversion Gx. subst x. exists s'. split; [exact Gs'|]. pose proof vsM_term_le. fold T'. lia.
          * exists x. split; [rewrite vsM_Go; auto | exact Le].
        + assert (Hv : v = n_id s' /\ U = T').
          { unfold gr_of in Hin. apply in_app_or in Hin. destruct Hin as [Hin | Hin].
            - destruct (cl_of s s'); [contradiction|]. destruct Hin as [Hin | []]. inversion Hin. auto.
            - destruct (has_rec G (p_term (n_p s'))); [contradiction|]. apply in_resp_grants in Hin.
              destruct Hin as [m [_ [_ Eg]]]. inversion Eg. auto. }
          destruct Hv as [-> ->]. exists s'. rewrite Hi. split; [exact Gs' | apply N.le_refl].
      - intros v U c Hin. apply in_app_or in Hin. destruct Hin as [Hin | Hin].
        + destruct (w_vl0 _ _ _ _ _ _ WI _ _ _ Hin) as [x [Gx Le]]. destruct (N.eq_dec v i) as [E | E].
          * subst v. rewrite Gs in Gx. inversion Gx. subst x. exists s'. split; [exact Gs'|]. pose proof vsM_term_le. fold T'. lia.
          * exists x. split; [rewrite vsM_Go; auto | exact Le].
        + unfold gl_of in Hin. destruct (has_rec G (p_term (n_p s'))); [| contradiction]. apply in_resp_grants in Hin.
          destruct Hin as [m [_ [_ Eg]]]. inversion Eg. exists s'. rewrite Hi. split; [exact Gs' | apply N.le_refl].
      - (* the vote-time fact *)
        intros v U c Hin. apply in_app_or in Hin. destruct Hin as [Hin | Hin].
        + destruct (w_v1 _ _ _ _ _ _ WI _ _ _ Hin) as [lc [X Y]]. exists lc. split; [apply in_or_app; left; exact X|].
          apply v1M_mono; auto. intros T P HA Hlt. destruct (vsM_new_ack _ _ _ HA) as [Old | [Ev ET]]; [exact Old | exfalso].
          destruct (w_v0 _ _ _ _ _ _ WI _ _ _ Hin) as [x [Gx Le]]. rewrite Ev, Hi, Gs in Gx. inversion Gx. subst x.
          pose proof vsM_term_le. subst T. lia.
        + unfold gr_of in Hin. apply in_app_or in Hin. destruct Hin as [Hin | Hin].
          * (* the candidate votes for itself *)
            assert (Hc0 : exists c0, In c0 (cl_of s s')).
            { destruct (cl_of s s') as [| c0 r0]; [contradiction | exists c0; left; reflexivity]. }
            assert (Hin' : (v, U, c) = (n_id s', p_term (n_p s'), n_id s')).
            { destruct (cl_of s s'); [contradiction|]. destruct Hin as [Hin | []]. auto. }
            inversion Hin'. subst v U c. clear Hin Hin'. destruct Hc0 as [c0 Hc0].
            destruct (vsM_cl c0 Hc0) as [Ec [EL Hlt]].
            exists L'. split; [apply in_or_app; right; rewrite Ec in Hc0; exact Hc0|].
            intros T P HA HT kk Htp. destruct (vsM_new_ack _ _ _ HA) as [Old | [_ ET]]; [| fold T' in HT; lia].
            rewrite Hi in Old. destruct (k_esc _ _ _ _ _ KI _ _ _ Old) as [x [Gx [Le Hk]]]. rewrite Gs in Gx. inversion Gx. subst x.
            destruct (Hk kk Htp) as [K | [U' [j [l [E1 [E2 [E3 E4]]]]]]].
            -- left. rewrite EL. exact K.
            -- right. exists U', j, l. split; [apply vsM_incl; exact E1|]. fold T'. repeat split; auto. lia.
          * (* a vote granted to a candidate whose term has no leader yet *)
            destruct (has_rec G (p_term (n_p s'))) eqn:Ehr; [contradiction|]. fold T' in Ehr.
            apply in_resp_grants in Hin. destruct Hin as [m0 [H0 [Hb Eg]]]. inversion Eg. subst v U c. fold T'.
            pose proof (v_msgs _ _ _ _ _ _ _ _ _ NI) as N_msgs. rewrite Forall_forall in N_msgs. pose proof (N_msgs m0 H0) as Mg.
            unfold mgood in Mg. rewrite Hb in Mg. unfold vq_of in Mg.
            destruct ev as [| md | | | | | |]; try contradiction. destruct (m_body md) eqn:Ebd; try contradiction.
            destruct Mg as [Eto Up]. fold L' in Up.
            destruct (Hdel md eq_refl) as [Min _].
            destruct (w_vr _ _ _ _ _ _ WI md _ _ Min Ebd) as [lc [Xc [Eli Elt]]].
            assert (Htm : m_term md = T').
            { destruct (ns_term _ _ _ _ NS md eq_refl) as [D | D]; [rewrite D in H0; contradiction | unfold T'; congruence]. }
            exists lc. split; [apply in_or_app; left; rewrite Eto, <- Htm; exact Xc|].
            intros T P HA HT kk Htp. destruct (vsM_new_ack _ _ _ HA) as [Old | [_ ET]]; [| lia].
            rewrite Hi in Old.
            destruct (stM_esc_node bm be σ G A i s (EDeliver md) k s' KI Gs Hdel Hres NS ESp T P kk Old Htp) as [Le [K | Es]].
            -- (* the voter still holds the prefix: compare with the candidate's log *)
               destruct (k_rec _ _ _ _ _ KI' _ _ _ HA) as [Pn | [iT [lT [RT PT]]]].
               { subst P. destruct Htp as [[H1 H2] _]. simpl in H2. lia. }
               destruct (w_c0 _ _ _ _ _ _ WI _ _ _ Xc) as [LmC Bc]. rewrite Htm in Bc.
               eapply (vote_compare G' L' lc T T' P kk iT lT); eauto.
               ++ apply (g_cmp _ _ _ _ GI').
               ++ apply (g_lm_node _ _ _ _ GI' i s' Gs').
               ++ eapply lm_mono; [apply vsM_incl | exact LmC].
               ++ apply (g_tb_node _ _ _ _ GI' i s' Gs').
               ++ intros t j l Hr. apply (g_tb_rec _ _ _ _ GI' _ _ _ Hr).
               ++ rewrite <- Eli, <- Elt. exact Up.
            -- right. destruct Es as [U' [j [l [E1 [E2 [E3 E4]]]]]]. exists U', j, l. split; [apply vsM_incl; exact E1|].
               repeat split; auto. fold T' in E3. destruct (N.eq_dec U' T') as [Eq | Ne]; [| lia]. exfalso.
               subst U'. assert (has_rec G T' = true) by (apply has_rec_in; eauto). congruence.
      - (* the vote-time fact of a late grant *)
        intros v U c Hin. apply in_app_or in Hin. destruct Hin as [Hin | Hin].
        + destruct (w_vl _ _ _ _ _ _ WI _ _ _ Hin) as [lc [X Y]]. exists lc. split; [apply in_or_app; left; exact X|].
          apply vlM_mono; auto. intros T P HA Hlt. destruct (vsM_new_ack _ _ _ HA) as [Old | [Ev ET]]; [exact Old | exfalso].
          destruct (w_vl0 _ _ _ _ _ _ WI _ _ _ Hin) as [x [Gx Le]]. rewrite Ev, Hi, Gs in Gx. inversion Gx. subst x.
          pose proof vsM_term_le. subst T. lia.
        + unfold gl_of in Hin. destruct (has_rec G (p_term (n_p s'))) eqn:Ehr; [| contradiction]. fold T' in Ehr.
            apply in_resp_grants in Hin. destruct Hin as [m0 [H0 [Hb Eg]]]. inversion Eg. subst v U c. fold T'.
            pose proof (v_msgs _ _ _ _ _ _ _ _ _ NI) as N_msgs. rewrite Forall_forall in N_msgs. pose proof (N_msgs m0 H0) as Mg.
            unfold mgood in Mg. rewrite Hb in Mg. unfold vq_of in Mg.
            destruct ev as [| md | | | | | |]; try contradiction. destruct (m_body md) eqn:Ebd; try contradiction.
            destruct Mg as [Eto Up]. fold L' in Up.
            destruct (Hdel md eq_refl) as [Min _].
            destruct (w_vr _ _ _ _ _ _ WI md _ _ Min Ebd) as [lc [Xc [Eli Elt]]].
            assert (Htm : m_term md = T').
            { destruct (ns_term _ _ _ _ NS md eq_refl) as [D | D]; [rewrite D in H0; contradiction | unfold T'; congruence]. }
            exists lc. split; [apply in_or_app; left; rewrite Eto, <- Htm; exact Xc|].
            intros T P HA HT kk Htp. destruct (vsM_new_ack _ _ _ HA) as [Old | [_ ET]]; [| lia].
            rewrite Hi in Old.
            destruct (stM_esc_node bm be σ G A i s (EDeliver md) k s' KI Gs Hdel Hres NS ESp T P kk Old Htp) as [Le [K | Es]].
            -- destruct (k_rec _ _ _ _ _ KI' _ _ _ HA) as [Pn | [iT [lT [RT PT]]]].
               { subst P. destruct Htp as [[H1 H2] _]. simpl in H2. lia. }
               destruct (w_c0 _ _ _ _ _ _ WI _ _ _ Xc) as [LmC Bc]. rewrite Htm in Bc.
               assert (VC : keeps lc (firstn kk P) \/ escapes_lt G' T T' (firstn kk P)).
               { eapply (vote_compare G' L' lc T T' P kk iT lT); eauto.
                 ++ apply (g_cmp _ _ _ _ GI').
                 ++ apply (g_lm_node _ _ _ _ GI' i s' Gs').
                 ++ eapply lm_mono; [apply vsM_incl | exact LmC].
                 ++ apply (g_tb_node _ _ _ _ GI' i s' Gs').
                 ++ intros t j l Hr. apply (g_tb_rec _ _ _ _ GI' _ _ _ Hr).
                 ++ rewrite <- Eli, <- Elt. exact Up. }
               destruct VC as [VC | [U' [j [l [E1 [E2 [E3 E4]]]]]]]; [left; exact VC | right].
               exists U', j, l. split; [exact E1|]. split; [exact E2|]. split; [lia | exact E4].
            -- right. destruct Es as [U' [j [l [E1 [E2 [E3 E4]]]]]]. exists U', j, l. split; [apply vsM_incl; exact E1|].
               fold T' in E3. auto.
      - intros v U c Hin. apply in_app_or in Hin. destruct Hin as [Hin | Hin].
        + eapply has_rec_mono; [apply vsM_incl | apply (w_glrec _ _ _ _ _ _ WI _ _ _ Hin)].
        + unfold gl_of in Hin. destruct (has_rec G (p_term (n_p s'))) eqn:Ehr; [| contradiction].
          apply in_resp_grants in Hin. destruct Hin as [m [_ [_ Eg]]]. inversion Eg. eapply has_rec_mono; [apply vsM_incl | exact Ehr].
      - intros j x Hx Hr. destruct (vsM_Gcase j x Hx) as [[_ E] | [Hj E]].
        + subst x. apply vsM_self. exact Hr.
        + apply in_or_app. left. apply (w_self _ _ _ _ _ _ WI j x E Hr).
      - intros j x Hx Hr v Hv. destruct (vsM_Gcase j x Hx) as [[_ E] | [Hj E]].
        + subst x. exact (vsM_votes_src Hr v Hv).
        + destruct (w_votes _ _ _ _ _ _ WI j x E Hr v Hv) as [X | X]; [left | right]; apply in_or_app; left; exact X.
      - intros m Hin Hb Hto. simpl in Hin. apply in_app_or in Hin. destruct Hin as [Hin | Hin].
        + destruct (w_resp _ _ _ _ _ _ WI m Hin Hb Hto) as [X | X]; [left | right]; apply in_or_app; left; exact X.
        + apply in_out_msgs in Hin. destruct Hin as [m0 [H0 [Et [Ef [Eto Eb]]]]].
          unfold msgs_ok in Hm. rewrite Forall_forall in Hm. destruct (Hm m0 H0) as [X [Y Z]].
          rewrite Et, Ef, Eto, X, Y. fold T'. destruct (has_rec G T') eqn:Ehr.
          * right. apply in_or_app. right. unfold gl_of. fold T'. rewrite Ehr. apply resp_grants_in; auto. congruence.
          * left. apply in_or_app. right. unfold gr_of. apply in_or_app. right. fold T'. rewrite Ehr.
            apply resp_grants_in; auto. congruence.
      - (* every leader record is backed by a quorum of grants inside the configuration of its candidacy log *)
        assert (Wmono : forall U c lc, win CL GR (sy_cast σ) U c lc -> win CL' GR' (sy_cast σ') U c lc).
        { intros U c lc [W1 [j [e [Q [W2 [W3 [W4 [W5 W6]]]]]]]]. split; [apply in_or_app; left; exact W1|].
          exists j, e, Q. split; [exact W2|]. split; [exact W3|]. split; [exact W4|]. split; [exact W5|].
          intros v Hv. destruct (W6 v Hv) as [Y1 Y2]. split; [apply in_or_app; left; exact Y1 | apply Hcastmono; exact Y2]. }
        intros U c l Hin Hc.
        apply in_app_or in Hin. destruct Hin as [Hin | Hin].
        + destruct (w_quorum _ _ _ _ _ _ WI _ _ _ Hin Hc) as [lc [W P]]. exists lc. split; [apply Wmono; exact W | exact P].
        + apply in_rec_of in Hin. destruct Hin as [Er Cond]. inversion Er. subst U c l. fold T'. fold L'.
          destruct (classic_cond s s') as [Hold | Hnew].
          * (* it was already leader of this term: reuse the quorum of its earlier record *)
            destruct Hold as [Hl Ht]. pose proof (g_rec_leader _ _ _ _ GI i s Gs Hl) as Rold.
            assert (Hnz : n_id s <> 0) by (eapply (g_nz _ _ _ _ GI); eauto).
            destruct (w_quorum _ _ _ _ _ _ WI _ _ _ Rold Hnz) as [lc [W P]]. exists lc. fold T' in Ht. split.
            -- rewrite Hid, Ht. apply Wmono. exact W.
            -- eapply pfx_trans; [exact P|].
               pose proof (v_lr _ _ _ _ _ _ _ _ _ NI) as N_lr.
               destruct (strong_lr _ _ _ _ _ N_lr Hl Ht) as [Z | [new [Z _]]]; fold L'; change (p_log (n_p (with_budget (settle s) k))) with L0 in Z.
               ++ fold L' in Z. rewrite Z. apply pfx_refl.
               ++ fold L' in Z. rewrite Z. exists new. reflexivity.
          * destruct Cond as [Hl | [Hl Ht]]; [| exfalso; apply Hnew; split; auto].
            assert (Hr : n_role s' <> Follower) by congruence.
            destruct (Hwin Hl Hnew) as [j [e [Lje [Hinc Hmaj]]]]. fold L0 in Lje.
            destruct (Hasc Hr) as [Hasc1 Hasc2].
            (* the candidacy log is the log the node held when the step began *)
            assert (HCL : In (n_id s', T', L0) CL' /\ pfx L0 L').
            { destruct (N.eq_dec T' (p_term (n_p s))) as [Et | Et].
              - assert (Hcs : n_role s = Candidate).
                { destruct (vsM_rt Et) as [W | [W | [W _]]]; try congruence. exfalso. apply Hnew. split; [congruence | exact Et]. }
                destruct (w_c3 _ _ _ _ _ _ WI i s Gs ltac:(congruence)) as [lc [X [Y Z]]]. rewrite (Z Hcs) in X. split.
                + apply in_or_app. left. rewrite Hid. rewrite Et. exact X.
                + apply vsM_nf_ext. exact Hr.
              - assert (EL : L' = L0) by (apply vsM_nf_same; auto). split.
                + apply in_or_app. right. rewrite <- EL. apply vsM_cl_in; auto.
                + rewrite EL. apply pfx_refl. }
            destruct HCL as [HCL1 HCL2]. exists L0. split; [| exact HCL2]. split; [exact HCL1|].
            exists j, e, (c_votes s'). split; [exact Lje|]. split; [apply asc_nodup; exact Hasc1|]. split; [exact Hinc|]. split; [exact Hmaj|].
            intros v Hv. split; [| apply Hasc2; exact Hv].
            destruct (vsM_votes_src Hr v Hv) as [X | X]; [exact X | exfalso].
            assert (Hhr : has_rec G T' = true).
            { unfold GL' in X. apply in_app_or in X. destruct X as [X | X].
              - apply (w_glrec _ _ _ _ _ _ WI _ _ _ X).
              - unfold gl_of in X. fold T' in X. destruct (has_rec G T') eqn:Ehr; [reflexivity | contradiction]. }
            apply has_rec_in in Hhr. destruct Hhr as [j0 [l0 X0]].
            destruct (g_rec_hist _ _ _ _ GI _ _ _ X0) as [[Z1 [Z2 Z3]] | [Jnz [Jh J2]]].
            { pose proof (g_base _ _ _ _ GI' i s' Gs') as [_ [_ [_ B2]]]. assert (2 <= T') by (apply B2; congruence). lia. }
            assert (Hh : In (T', n_id s') (sy_hist σ')).
            { simpl. apply in_or_app. right. unfold hist_of. rewrite Hl. left. reflexivity. }
            assert (Ej : j0 = n_id s').
            { apply (ESp T'); [simpl; apply in_or_app; left; exact Jh | exact Hh]. }
            destruct (g_rec_node _ _ _ _ GI _ _ _ X0 Jnz) as [x [Gx [Le Eq]]]. rewrite Ej, Hi, Gs in Gx. inversion Gx. subst x.
            pose proof vsM_term_le. assert (Et : T' = p_term (n_p s)) by lia. destruct (Eq Et) as [Hnc _].
            apply Hnew. split; [| exact Et]. destruct (vsM_rt Et) as [Y | [Y | [Y _]]]; congruence.
    Qed.
  End Step.
End VoteInvM.
