(* Raft/NodeElect.v — node-level summary of every event for the election argument and for "acts after persist":
   from a settled node (empty outbox) every completed event leaves
     msgs_ok : every emitted message carries the durable term and the node's id, and a granted vote is emitted only with
               the vote durable;
     esum    : if the node ends as candidate or leader, every vote it counts is an earlier counted vote of the same
               candidacy, its own (durable) vote, or the sender of a granted VoteResp of the current term addressed to
               it that was delivered in this very event; the vote list stays strictly ascending (no duplicates); and it
               is leader only if it already was (same term, same votes) or it counted a quorum of the configuration it held. *)
From Coq Require Import List NArith ZArith Bool Lia.
From BLB Require Import Raft.Core Raft.NodeProofs Raft.NodeKeep.
Import ListNotations.
Open Scope N_scope.

Definition msg_ok (s : node) (m : msg) : Prop :=
  m_term m = p_term (n_p s) /\ m_from m = n_id s /\ (m_body m = VoteResp true -> p_vote (n_p s) = m_to m).
Definition msgs_ok (s : node) : Prop := Forall (msg_ok s) (n_msgs s).

Lemma ext_msgs_ok s s' new :
  p_term (n_p s') = p_term (n_p s) -> p_vote (n_p s') = p_vote (n_p s) -> n_id s' = n_id s ->
  n_msgs s' = n_msgs s ++ new -> Forall (okmsg s) new -> msgs_ok s -> msgs_ok s'.
Proof.
  intros A B C E F H. unfold msgs_ok. rewrite E. apply Forall_app. split.
  - eapply Forall_impl; [| exact H]. intros m [X [Y Z]]. unfold msg_ok. rewrite A, B, C. auto.
  - eapply Forall_impl; [| exact F]. intros m [X [Y Z]]. unfold msg_ok. rewrite A, C. repeat split; auto.
    intro W. contradiction.
Qed.

Lemma keep_msgs_ok s s' : keep s s' -> msgs_ok s -> msgs_ok s'.
Proof. intros [A [B [C [_ [_ [new [E F]]]]]]] H. eapply ext_msgs_ok; eauto. Qed.

Lemma msgs_ok_nil s : n_msgs s = [] -> msgs_ok s.
Proof. intro H. unfold msgs_ok. rewrite H. constructor. Qed.

(* ---------------------------------------------------------------- set_add keeps the list strictly ascending *)
Fixpoint asc (l : list N) : Prop :=
  match l with [] => True | x :: r => (forall y, In y r -> x < y) /\ asc r end.

Lemma in_set_add v x l : In v (set_add x l) <-> v = x \/ In v l.
Proof.
  induction l as [| y r IH]; simpl.
  - intuition.
  - destruct (x =? y) eqn:E.
    + apply N.eqb_eq in E. subst. simpl. intuition.
    + destruct (x <? y); simpl.
      * intuition.
      * rewrite IH. intuition.
Qed.

Lemma asc_set_add x l : asc l -> asc (set_add x l).
Proof.
  induction l as [| y r IH]; simpl; intro H.
  - split; auto. intros y [].
  - destruct H as [H1 H2]. destruct (x =? y) eqn:E; [simpl; auto|].
    destruct (x <? y) eqn:E2.
    + apply N.ltb_lt in E2. simpl. split; [| split; auto].
      intros z [Hz | Hz]; [subst; auto | specialize (H1 z Hz); lia].
    + simpl. split; auto. intros z Hz. apply in_set_add in Hz. destruct Hz as [Hz | Hz]; auto.
      subst. apply N.ltb_ge in E2. apply N.eqb_neq in E. lia.
Qed.

Lemma asc_nodup l : asc l -> NoDup l.
Proof.
  induction l as [| a r IH]; simpl; intro H; constructor.
  - intro Hin. destruct H as [H _]. specialize (H a Hin). lia.
  - apply IH. tauto.
Qed.

(* ---------------------------------------------------------------- the summary *)
Definition elected_by (s : node) (votes : list nid) : Prop :=
  exists c, n_conf s = Some c /\ quorum c <= N.of_nat (length votes).

Definition vsrc (s s' : node) (om : option msg) (v : nid) : Prop :=
  (n_role s <> Follower /\ p_term (n_p s') = p_term (n_p s) /\ In v (c_votes s)) \/
  (v = n_id s /\ p_vote (n_p s') = n_id s) \/
  (exists m, om = Some m /\ m_body m = VoteResp true /\ v = m_from m /\ m_term m = p_term (n_p s') /\
             (m_to m = n_id s \/ m_to m = 0)).

Definition esum (s s' : node) (om : option msg) : Prop :=
  n_role s' <> Follower ->
    (forall v, In v (c_votes s') -> vsrc s s' om v) /\
    ((n_role s <> Follower -> asc (c_votes s)) -> asc (c_votes s')) /\
    (n_role s' = Leader ->
       (n_role s = Leader /\ c_votes s' = c_votes s /\ p_term (n_p s') = p_term (n_p s)) \/ elected_by s (c_votes s')).

Lemma esum_follower s s' om : n_role s' = Follower -> esum s s' om.
Proof. intros H N. contradiction. Qed.

Lemma keep_esum s s' om : keep s s' -> esum s s' om.
Proof.
  intros [A [B [C [D [E _]]]]] Hr.
  assert (Hrole : n_role s' = n_role s) by (destruct E; [auto | contradiction]).
  repeat split.
  - intros v Hv. left. rewrite <- Hrole, <- D. auto.
  - intro Ha. rewrite D. apply Ha. rewrite <- Hrole. exact Hr.
  - intro Hl. left. rewrite <- Hrole. auto.
Qed.

(* ---------------------------------------------------------------- becoming leader *)
Definition keepL (s s' : node) : Prop :=
  p_term (n_p s') = p_term (n_p s) /\ p_vote (n_p s') = p_vote (n_p s) /\ n_id s' = n_id s /\
  c_votes s' = c_votes s /\
  (n_role s' = n_role s \/ n_role s' = Follower \/ (n_role s' = Leader /\ elected_by s (c_votes s))) /\
  exists new, n_msgs s' = n_msgs s ++ new /\ Forall (okmsg s) new.

Lemma keep_keepL s s' : keep s s' -> keepL s s'.
Proof. intros [A [B [C [D [E F]]]]]. unfold keepL. repeat split; auto. destruct E; auto. Qed.

Lemma check_if_elected_L s s' : check_if_elected s = Ret s' -> keepL s s'.
Proof.
  unfold check_if_elected. destruct (n_conf s) as [c |] eqn:Ec; [| discriminate].
  destruct (quorum c <=? N.of_nat (length (c_votes s))) eqn:Eq.
  - unfold become_leader. intro H.
    pose proof (kx_enter_leader (set_role s Leader (n_id s) 0)) as K. rewrite H in K. simpl in K.
    destruct K as [A [B [C [D [E [new [F G]]]]]]]. simpl in *. unfold keepL. repeat split; auto.
    + destruct E as [E | E]; [| auto]. right. right. split; auto. exists c. split; auto. apply N.leb_le. exact Eq.
    + exists new. split; auto.
  - intro H. inversion H. subst. apply keep_keepL. apply keep_refl.
Qed.

(* ---------------------------------------------------------------- candidate *)
Lemma handle_candidate_sum s m s' :
  handle_candidate s m = Ret s' ->
  p_term (n_p s') = p_term (n_p s) /\ p_vote (n_p s') = p_vote (n_p s) /\ n_id s' = n_id s /\
  (c_votes s' = c_votes s \/ (m_body m = VoteResp true /\ c_votes s' = set_add (m_from m) (c_votes s))) /\
  (n_role s' = n_role s \/ n_role s' = Follower \/ (n_role s' = Leader /\ elected_by s (c_votes s'))) /\
  exists new, n_msgs s' = n_msgs s ++ new /\ Forall (okmsg s) new.
Proof.
  unfold handle_candidate. destruct (m_body m) eqn:Eb.
  - intro H. inversion H. subst. simpl. repeat split; auto. exists []. rewrite app_nil_r. auto.
  - discriminate.
  - intro H. inversion H. subst. simpl. repeat split; auto. eexists. split; [reflexivity|].
    constructor; [| constructor]. unfold okmsg. simpl. repeat split; auto. discriminate.
  - destruct granted.
    + intro H. apply check_if_elected_L in H. destruct H as [A [B [C [D [E [new [F G]]]]]]]. simpl in *.
      repeat split; auto.
      * destruct E as [E | [E | [E1 [c [E2 E3]]]]]; auto. right. right. split; auto. exists c. rewrite D. auto.
      * exists new. auto.
    + intro H. inversion H. subst. repeat split; auto. exists []. rewrite app_nil_r. auto.
  - intro H. inversion H. subst. simpl. repeat split; auto. exists []. rewrite app_nil_r. auto.
Qed.

Lemma fold_send_keep (ms : list nid) b : b <> VoteResp true -> forall s,
  keep s (fold_left (fun a m => if m =? n_id a then a else send a m b) ms s) /\
  n_conf (fold_left (fun a m => if m =? n_id a then a else send a m b) ms s) = n_conf s.
Proof.
  intro Hb. induction ms as [| m r IH]; intros s; simpl; [split; auto using keep_refl|].
  destruct (m =? n_id s); [apply IH|].
  destruct (IH (send s m b)) as [A B]. split; [| rewrite B; reflexivity].
  eapply keep_trans; [apply keep_send; exact Hb | exact A].
Qed.

Lemma enter_candidate_sum s s' :
  n_msgs s = [] -> enter_candidate s = Ret s' ->
  n_id s' = n_id s /\
  ((n_role s' = Follower /\ n_p s' = n_p s /\ n_msgs s' = []) \/
   (p_term (n_p s') = p_term (n_p s) + 1 /\ p_vote (n_p s') = n_id s /\ msgs_ok s' /\
    (c_votes s' = [] \/ c_votes s' = [n_id s]) /\
    (n_role s' = n_role s \/ n_role s' = Follower \/ (n_role s' = Leader /\ elected_by s (c_votes s'))))).
Proof.
  intros Hm. unfold enter_candidate.
  destruct (negb (in_latest_conf s) && latest_conf_committed s).
  { intro H. inversion H. subst. simpl. split; auto. }
  unfold do_mut at 1. simpl.
  destruct (negb (n_budget s =? 0) && (n_budget s =? n_cnt s + 1)); simpl; [discriminate|].
  match goal with |- context [bind (st_term (n_p ?s2) _) _] => set (x2 := s2) end.
  assert (H2 : n_p x2 = apply_mut (n_p s) (MSaveState (n_id s) (p_term (n_p s) + 1)) /\ n_id x2 = n_id s /\
               n_msgs x2 = [] /\ n_conf x2 = n_conf s /\ n_role x2 = n_role s /\
               (c_votes x2 = [] \/ c_votes x2 = [n_id s])).
  { unfold x2. match goal with |- context [if ?c then _ else _] => destruct c end; simpl; repeat split; auto. }
  destruct H2 as [P2 [I2 [M2 [C2 [R2 V2]]]]].
  destruct (st_term (n_p x2) (last_index (n_p x2))) as [[lt ok] | |]; simpl; try discriminate.
  destruct (negb ok); [discriminate|].
  destruct (n_conf x2) as [c |] eqn:Ec; [| discriminate].
  intro H. apply check_if_elected_L in H.
  match type of H with keepL (set_candidate ?f _ _) _ => set (x3 := f) in * end.
  destruct (fold_send_keep (mb_members c) (VoteReq (last_index (n_p x2)) lt) ltac:(discriminate) x2) as [K3 C3].
  fold x3 in K3, C3.
  destruct H as [A [B [C [D [E [new [F G]]]]]]]. simpl in *.
  destruct K3 as [A3 [B3 [I3 [V3 [R3 [new3 [F3 G3]]]]]]].
  split; [congruence|]. right.
  assert (Ht : p_term (n_p s') = p_term (n_p s) + 1) by (rewrite A, A3, P2; reflexivity).
  assert (Hv : p_vote (n_p s') = n_id s) by (rewrite B, B3, P2; reflexivity).
  repeat split; auto.
  - (* msgs_ok *)
    assert (M3 : msgs_ok x3).
    { eapply ext_msgs_ok; eauto. apply msgs_ok_nil. exact M2. }
    eapply ext_msgs_ok with (s := set_candidate x3 (cf_cand_to (n_cfg x3)) (c_votes x3)); eauto.
  - rewrite D, V3. exact V2.
  - destruct E as [E | [E | [E1 [c' [E2 E3]]]]].
    + destruct R3 as [R3 | R3]; [left; congruence | right; left; congruence].
    + right. left. exact E.
    + right. right. split; auto. exists c'. rewrite D. split; auto. simpl in E2. congruence.
Qed.

(* ---------------------------------------------------------------- follower *)
Lemma follower_note_leader_sum s from s1 :
  follower_note_leader s from = Ret s1 ->
  n_msgs s1 = n_msgs s /\ n_id s1 = n_id s /\ p_term (n_p s1) = p_term (n_p s) /\ n_role s1 = n_role s /\
  c_votes s1 = c_votes s.
Proof.
  unfold follower_note_leader.
  assert (H : forall x, (if p_vote (n_p s) =? 0 then do_mut (MSetVote from) s else Ret s) = Ret x ->
              n_msgs x = n_msgs s /\ n_id x = n_id s /\ p_term (n_p x) = p_term (n_p s) /\ n_role x = n_role s /\
              c_votes x = c_votes s /\ n_leader x = n_leader s).
  { intros x. destruct (p_vote (n_p s) =? 0).
    - unfold do_mut. destruct (negb (n_budget s =? 0) && (n_budget s =? n_cnt s + 1)); [discriminate|].
      intro E. inversion E. simpl. repeat split; auto.
    - intro E. inversion E. repeat split; auto. }
  destruct (if p_vote (n_p s) =? 0 then do_mut (MSetVote from) s else Ret s) as [x | |]; simpl; try discriminate.
  destruct (H x eq_refl) as [A [B [C [D [E F]]]]].
  destruct (n_leader x =? 0).
  - intro G. inversion G. subst. simpl. repeat split; auto.
  - destruct (negb (n_leader x =? from)); [discriminate|]. intro G. inversion G. subst. repeat split; auto.
Qed.

Lemma handle_follower_sum s m s' :
  n_msgs s = [] -> handle_follower s m = Ret s' ->
  n_id s' = n_id s /\ p_term (n_p s') = p_term (n_p s) /\ msgs_ok s' /\
  (n_role s' = n_role s \/ n_role s' = Follower) /\ c_votes s' = c_votes s.
Proof.
  intro Hm. unfold handle_follower. destruct (m_body m) eqn:Eb.
  - destruct (follower_note_leader s (m_from m)) as [s1 | |] eqn:E1; simpl; try discriminate.
    apply follower_note_leader_sum in E1. destruct E1 as [A [B [C [D E]]]].
    intro H. pose proof (kx_handle_app_ents s1 (m_from m) prev_idx prev_term commit ents) as K. rewrite H in K.
    simpl in K. pose proof (keep_msgs_ok _ _ K (msgs_ok_nil s1 ltac:(congruence))) as M.
    destruct K as [K1 [K2 [K3 [K4 [K5 _]]]]]. repeat split; try congruence;
      try (destruct K5 as [K5 | K5]; [left; congruence | right; auto]).
  - intro H. inversion H. subst. repeat split; auto. apply msgs_ok_nil. auto.
  - destruct (can_grant_vote s (m_from m) last_idx last_term) as [g | |] eqn:Eg; simpl; try discriminate.
    destruct g.
    + unfold do_mut. destruct (negb (n_budget s =? 0) && (n_budget s =? n_cnt s + 1)); simpl; [discriminate|].
      intro H. inversion H. subst. simpl. repeat split; auto.
      unfold msgs_ok. simpl. rewrite Hm. simpl. constructor; [| constructor]. unfold msg_ok. simpl. auto.
    + simpl. intro H. inversion H. subst. simpl. repeat split; auto.
      unfold msgs_ok. simpl. rewrite Hm. simpl. constructor; [| constructor]. unfold msg_ok. simpl.
      repeat split; auto. discriminate.
  - intro H. inversion H. subst. repeat split; auto. apply msgs_ok_nil. auto.
  - destruct (follower_note_leader s (m_from m)) as [s1 | |] eqn:E1; simpl; try discriminate.
    apply follower_note_leader_sum in E1. destruct E1 as [A [B [C [D E]]]].
    intro H. pose proof (kx_handle_snapshot s1 (m_from m) last_idx last_term conf) as K. rewrite H in K.
    simpl in K. pose proof (keep_msgs_ok _ _ K (msgs_ok_nil s1 ltac:(congruence))) as M.
    destruct K as [K1 [K2 [K3 [K4 [K5 _]]]]]. repeat split; try congruence;
      try (destruct K5 as [K5 | K5]; [left; congruence | right; auto]).
Qed.

(* ---------------------------------------------------------------- HandleMsg *)
Definition same_vol (s s1 : node) : Prop :=
  n_msgs s1 = n_msgs s /\ n_id s1 = n_id s /\ p_term (n_p s1) = p_term (n_p s) /\ p_vote (n_p s1) = p_vote (n_p s) /\
  n_role s1 = n_role s /\ c_votes s1 = c_votes s /\ n_conf s1 = n_conf s.

Lemma same_vol_keep s s1 : same_vol s s1 -> keep s s1.
Proof.
  intros [A [B [C [D [E [F G]]]]]]. unfold keep. repeat split; auto. exists []. rewrite app_nil_r. auto.
Qed.

Lemma triple (A B C : Prop) : A -> B -> C -> A /\ B /\ C.
Proof. auto. Qed.

Lemma handle_msg_sum s m s' :
  n_msgs s = [] -> handle_msg s m = Ret s' ->
  n_id s' = n_id s /\ msgs_ok s' /\ esum s s' (Some m).
Proof.
  intro Hm. unfold handle_msg.
  destruct ((negb (m_to m =? 0) && negb (m_to m =? n_id s)) || (negb (m_tog m =? 0) && negb (m_tog m =? p_guid (n_p s)))) eqn:Eto.
  { intro H. inversion H. subst. apply triple; [reflexivity | apply msgs_ok_nil; auto | apply keep_esum, keep_refl]. }
  destruct (negb (guid_get (m_from m) (p_guids (n_p s)) =? 0) && negb (guid_get (m_from m) (p_guids (n_p s)) =? m_fromg m)).
  { intro H. inversion H. subst. apply triple; [reflexivity | apply msgs_ok_nil; auto | apply keep_esum, keep_refl]. }
  assert (H1 : forall s1, (if guid_get (m_from m) (p_guids (n_p s)) =? 0 then do_mut (MSetGuid (m_from m) (m_fromg m)) s else Ret s) = Ret s1 ->
               same_vol s s1).
  { intros s1. destruct (guid_get (m_from m) (p_guids (n_p s)) =? 0).
    - unfold do_mut. destruct (negb (n_budget s =? 0) && (n_budget s =? n_cnt s + 1)); [discriminate|].
      intro E. inversion E. unfold same_vol. simpl. repeat split; auto.
    - intro E. inversion E. unfold same_vol. repeat split; auto. }
  destruct (if guid_get (m_from m) (p_guids (n_p s)) =? 0 then do_mut (MSetGuid (m_from m) (m_fromg m)) s else Ret s) as [s1 | |];
    simpl; try discriminate.
  specialize (H1 s1 eq_refl). destruct H1 as [A [B [C [D [E [F G]]]]]].
  assert (Hs1 : forall x, x = s1 -> n_id x = n_id s /\ msgs_ok x /\ esum s x (Some m)).
  { intros x Hx. subst x. apply triple; auto.
    - apply msgs_ok_nil. congruence.
    - apply keep_esum. apply same_vol_keep. unfold same_vol. repeat split; auto. }
  match goal with |- (if ?c then _ else _) = _ -> _ => destruct c end.
  { intro H. inversion H. apply Hs1. auto. }
  destruct (m_term m <? p_term (n_p s1)) eqn:Elt.
  { intro H. inversion H. apply Hs1. auto. }
  destruct (p_term (n_p s1) <? m_term m) eqn:Egt.
  - (* higher term: persist, step down, then the follower handles the message *)
    assert (H2 : forall s2,
               (match m_body m with
                | AppEnts _ _ _ _ | InstallSnap _ _ _ =>
                    s'0 <- do_mut (MSaveState (m_from m) (m_term m)) s1 ;; Ret (become_follower s'0 (m_from m))
                | VoteReq _ _ => s'0 <- do_mut (MSaveState 0 (m_term m)) s1 ;; Ret (become_follower s'0 0)
                | _ => Fatal F_RESP_HIGHER_TERM
                end) = Ret s2 -> n_msgs s2 = [] /\ n_id s2 = n_id s /\ n_role s2 = Follower).
    { intros s2. destruct (m_body m); try discriminate;
        unfold do_mut; destruct (negb (n_budget s1 =? 0) && (n_budget s1 =? n_cnt s1 + 1)); simpl; try discriminate;
        intro X; inversion X; simpl; repeat split; congruence. }
    match goal with |- bind ?a _ = _ -> _ => destruct a as [s2 | |] end; simpl; try discriminate.
    destruct (H2 s2 eq_refl) as [M2 [I2 R2]].
    unfold handle_by_role. rewrite R2. intro H. apply handle_follower_sum in H; auto.
    destruct H as [P [Q [S [T U]]]]. apply triple; try congruence.
    apply esum_follower. destruct T; congruence.
  - (* same term *)
    apply N.ltb_ge in Elt, Egt. assert (Heq : m_term m = p_term (n_p s1)) by lia.
    simpl. unfold handle_by_role. destruct (n_role s1) eqn:Er.
    + intro H. apply handle_follower_sum in H; [| congruence].
      destruct H as [P [Q [S [T U]]]]. apply triple; try congruence.
      apply esum_follower. destruct T; congruence.
    + intro H. apply handle_candidate_sum in H.
      destruct H as [P [Q [S [T [U [new [V W]]]]]]].
      split; [congruence|]. split.
      * eapply ext_msgs_ok; eauto. apply msgs_ok_nil. congruence.
      * intro Hr. apply triple.
        -- intros v Hv. destruct T as [T | [T1 T2]].
           ++ left. rewrite T, F in Hv. repeat split; try congruence; auto.
           ++ rewrite T2 in Hv. apply in_set_add in Hv. destruct Hv as [Hv | Hv].
              ** right. right. exists m. split; [reflexivity|]. split; [exact T1|]. split; [exact Hv|].
                 split; [congruence|].
                 apply orb_false_iff in Eto. destruct Eto as [Eto _].
                 apply andb_false_iff in Eto.
                 destruct Eto as [Eto | Eto]; apply negb_false_iff in Eto; apply N.eqb_eq in Eto; [right | left]; exact Eto.
              ** left. rewrite F in Hv. repeat split; try congruence; auto.
        -- intro Ha. assert (Ha' : asc (c_votes s1)) by (rewrite F; apply Ha; congruence).
           destruct T as [T | [T1 T2]]; [rewrite T; auto | rewrite T2; apply asc_set_add; auto].
        -- intro Hl. right. destruct U as [U | [U | [U1 [c [U2 U3]]]]]; try congruence.
           exists c. split; congruence.
    + intro H. pose proof (kx_handle_leader s1 m) as K. rewrite H in K. simpl in K.
      split; [destruct K as [_ [_ [K _]]]; congruence|]. split.
      * eapply keep_msgs_ok; eauto. apply msgs_ok_nil. congruence.
      * apply keep_esum. eapply keep_trans; [| exact K]. apply same_vol_keep. unfold same_vol. repeat split; auto.
  all: try assumption; try congruence.
Qed.

(* ---------------------------------------------------------------- Tick *)
Lemma tick_sum s s' :
  n_msgs s = [] -> tick s = Ret s' -> n_id s' = n_id s /\ msgs_ok s' /\ esum s s' None.
Proof.
  intro Hm. unfold tick.
  set (s0 := set_elapsed s ((n_elapsed s + 1) mod 4294967296)).
  assert (K0 : keep s s0) by (apply keep_vol; simpl; auto).
  assert (Hcand : become_candidate s0 = Ret s' -> n_role s <> Leader -> n_id s' = n_id s /\ msgs_ok s' /\ esum s s' None).
  { unfold become_candidate. intros H Hnl. apply enter_candidate_sum in H; [| exact Hm].
    simpl in H. destruct H as [I [[R [P M]] | [T [V [M [C E]]]]]].
    - apply triple; auto using msgs_ok_nil. apply esum_follower; auto.
    - apply triple; auto. intro Hr. apply triple.
      + intros v Hv. right. left. destruct C as [C | C]; rewrite C in Hv; simpl in Hv; [contradiction|].
        destruct Hv as [Hv | []]. auto.
      + intros _. destruct C as [C | C]; rewrite C; simpl; auto. split; auto. intros y [].
      + intro Hl. destruct E as [E | [E | [E1 [c [E2 E3]]]]]; try congruence. right. exists c. auto. }
  destruct (n_role s0) eqn:Er.
  - destruct (f_timeout s0 <=? sub32 (n_elapsed s0) (f_contact s0)).
    + intro H. apply Hcand; auto. simpl in Er. congruence.
    + intro H. inversion H. subst. apply triple; auto. apply msgs_ok_nil; auto. apply keep_esum; auto.
  - destruct (c_timeout s0 <=? n_elapsed s0).
    + intro H. apply Hcand; auto. simpl in Er. congruence.
    + intro H. inversion H. subst. apply triple; auto. apply msgs_ok_nil; auto. apply keep_esum; auto.
  - intro H. pose proof (kx_tick_leader s0) as K. rewrite H in K. simpl in K.
    assert (K' : keep s s') by (exact (keep_trans _ _ _ K0 K)).
    split; [destruct K' as [_ [_ [K' _]]]; auto|]. split; [eapply keep_msgs_ok; eauto using msgs_ok_nil | apply keep_esum; auto].
Qed.

(* ---------------------------------------------------------------- all events *)
Definition ev_msg (ev : event) : option msg := match ev with EDeliver m => Some m | _ => None end.

Lemma keep2_sum s (st : N) s' om :
  n_msgs s = [] -> keep s s' -> n_id s' = n_id s /\ msgs_ok s' /\ esum s s' om.
Proof.
  intros Hm K. split; [destruct K as [_ [_ [K _]]]; auto|].
  split; [eapply keep_msgs_ok; eauto using msgs_ok_nil | apply keep_esum; auto].
Qed.

Lemma propose_initial_sum s ms ep st s' :
  n_msgs s = [] -> propose_initial_membership s ms ep = Ret (st, s') ->
  n_id s' = n_id s /\ msgs_ok s' /\ esum s s' None.
Proof.
  intro Hm. unfold propose_initial_membership.
  destruct (n_role s) eqn:Er.
  2,3: intro H; inversion H; subst; apply (keep2_sum s' 0 s' None Hm (keep_refl s')).
  destruct (is_clean (n_p s)).
  2: intro H; inversion H; subst; apply (keep2_sum s' 0 s' None Hm (keep_refl s')).
  unfold do_mut at 1. destruct (negb (n_budget s =? 0) && (n_budget s =? n_cnt s + 1)); simpl; [discriminate|].
  unfold log_append. unfold do_mut. simpl.
  match goal with |- context [if ?c then _ else _] => destruct c end; simpl; [discriminate|].
  match goal with |- context [if ?c then _ else _] => destruct c end; simpl; [| discriminate].
  intro H. inversion H. subst. simpl. apply triple; auto.
  - apply msgs_ok_nil. simpl. auto.
  - apply esum_follower. simpl. auto.
Qed.

Theorem run_event_sum s ev st s' :
  n_msgs s = [] -> run_event s ev = Ret (st, s') ->
  n_id s' = n_id s /\ msgs_ok s' /\ esum s s' (ev_msg ev).
Proof.
  intro Hm. destruct ev; simpl.
  - apply propose_initial_sum; auto.
  - unfold wrap0. destruct (handle_msg s m) as [x | |] eqn:E; simpl; try discriminate.
    intro H. inversion H. subst. apply handle_msg_sum; auto.
  - unfold wrap0. destruct (tick s) as [x | |] eqn:E; simpl; try discriminate.
    intro H. inversion H. subst. apply tick_sum; auto.
  - intro H. pose proof (kx2_propose s es) as K. rewrite H in K. apply (keep2_sum s st s' None Hm K).
  - intro H. pose proof (kx2_add_node s member rnd) as K. rewrite H in K. apply (keep2_sum s st s' None Hm K).
  - intro H. pose proof (kx2_remove_node s member) as K. rewrite H in K. apply (keep2_sum s st s' None Hm K).
  - unfold wrap0. destruct (snapshot_done s m) as [x | |] eqn:E; simpl; try discriminate.
    intro H. inversion H. subst. pose proof (kx_snapshot_done s m) as K. rewrite E in K.
    apply (keep2_sum s 0 s' None Hm K).
  - unfold wrap0. pose proof (new_core_pext (n_id s) (n_cfg s) (n_p s)) as P.
    destruct (new_core (n_id s) (n_cfg s) (n_p s)) as [x | |]; simpl; try discriminate.
    intro H. inversion H. subst. destruct P as [_ [I [_ [Rl M]]]]. apply triple; auto using msgs_ok_nil.
    apply esum_follower; auto.
Qed.
