(* Raft/MemberNode.v — round 6, node level.  What one event does to the votes a node counts and to the vote traffic it
   emits, RELATIVE TO THE CONFIGURATION THE NODE HOLDS (n_conf, "the latest configuration in its log, committed or not"):

     vreq_ok   every VoteReq the event emits is addressed to a member of the node's configuration (enterCandidate is the
               only sender; everything else — NodeKeepV.v — emits none);
     resp_src  every granted VoteResp the event emits answers a delivered VoteReq of the same term from the addressee;
     cpart     a node that ends the event as candidate, or as a newly elected leader, either continues a candidacy of the
               same term (configuration unchanged, every counted vote was counted before or is the delivered granted
               VoteResp of this term) or started it in this very event (term + 1, configuration unchanged, the only
               possible vote is its own and it is counted only if the node is a member of its configuration).

   All events (incl. AddNode / RemoveNode, SnapshotDone, Restart) and the crash variants. *)
From Coq Require Import List NArith ZArith Bool Lia ZifyN ZifyNat ZifyBool.
From BLB Require Import Raft.Core Raft.NodeProofs Raft.NodeKeep Raft.NodeKeepV Raft.NodeElect.
Import ListNotations.
Open Scope N_scope.

Definition memb_of (s : node) (v : nid) : Prop := exists c, n_conf s = Some c /\ In v (mb_members c).
Definition is_vreq (b : mbody) : Prop := exists li lt, b = VoteReq li lt.

Definition vreq_ok (s s' : node) : Prop :=
  forall m, In m (n_msgs s') -> is_vreq (m_body m) -> memb_of s (m_to m).

Definition resp_src (s s' : node) (om : option msg) : Prop :=
  forall r, In r (n_msgs s') -> m_body r = VoteResp true ->
    exists m, om = Some m /\ is_vreq (m_body m) /\ m_from m = m_to r /\ m_term m = m_term r /\
              (m_to m = n_id s \/ m_to m = 0).

Definition vfrom (s : node) (om : option msg) (v : nid) : Prop :=
  In v (c_votes s) \/
  exists m, om = Some m /\ m_body m = VoteResp true /\ v = m_from m /\ m_term m = p_term (n_p s) /\
            (m_to m = n_id s \/ m_to m = 0).

Definition cand_like (s s' : node) : Prop :=
  n_role s' = Candidate \/
  (n_role s' = Leader /\ ~ (n_role s = Leader /\ p_term (n_p s') = p_term (n_p s))).

Definition cpart (s s' : node) (om : option msg) : Prop :=
  cand_like s s' ->
    (n_role s' = Candidate -> n_conf s' = n_conf s) /\
    ((n_role s = Candidate /\ p_term (n_p s') = p_term (n_p s) /\ forall v, In v (c_votes s') -> vfrom s om v) \/
     (p_term (n_p s') = p_term (n_p s) + 1 /\ forall v, In v (c_votes s') -> v = n_id s /\ memb_of s v)).

Definition csum (s s' : node) (om : option msg) : Prop := vreq_ok s s' /\ resp_src s s' om /\ cpart s s' om.

(* ---------------------------------------------------------------- the "keep" handlers *)
Lemma keepV_msgs s s' : n_msgs s = [] -> keepV s s' -> forall r, In r (n_msgs s') -> nvq (m_body r).
Proof.
  intros Hm [_ [_ [_ [_ [_ [new [F G]]]]]]] r Hin. rewrite Hm in F. simpl in F. rewrite F in Hin.
  rewrite Forall_forall in G. destruct (G r Hin) as [_ [_ X]]. exact X.
Qed.

Lemma nvq_vreq b : nvq b -> ~ is_vreq b.
Proof. intros [_ H] [li [lt E]]. exact (H li lt E). Qed.

Lemma keepV_csum s s' om :
  n_msgs s = [] -> keepV s s' -> (n_role s = Candidate -> n_conf s' = n_conf s) -> csum s s' om.
Proof.
  intros Hm K Hc. pose proof (keepV_msgs s s' Hm K) as M.
  destruct K as [A [B [C [D [E _]]]]]. split; [| split].
  - intros m Hin Hv. exfalso. exact (nvq_vreq _ (M m Hin) Hv).
  - intros r Hin Hb. exfalso. destruct (M r Hin) as [X _]. contradiction.
  - intros [Hc' | [Hl Hn]].
    + assert (Hr : n_role s = Candidate) by (destruct E; congruence). split; [auto|]. left.
      split; [exact Hr|]. split; [exact A|]. intros v Hv. left. rewrite <- D. exact Hv.
    + exfalso. apply Hn. split; [destruct E; congruence | exact A].
Qed.

Lemma keepV_refl_csum s om : n_msgs s = [] -> csum s s om.
Proof. intro Hm. apply keepV_csum; auto. apply keepV_refl. Qed.

Lemma csum_pre s s1 s' om : same_vol s s1 -> csum s1 s' om -> csum s s' om.
Proof.
  intros [A [B [C [D [E [F G]]]]]] [V [R P]]. split; [| split].
  - intros m Hin Hv. destruct (V m Hin Hv) as [c [X Y]]. exists c. split; [congruence | exact Y].
  - intros r Hin Hb. destruct (R r Hin Hb) as [m [X1 [X2 [X3 [X4 X5]]]]]. exists m. rewrite <- B. auto.
  - intros Hc. assert (Hc1 : cand_like s1 s').
    { destruct Hc as [Hc | [Hc Hn]]; [left; exact Hc | right]. split; [exact Hc|]. intros [X Y]. apply Hn. split; congruence. }
    destruct (P Hc1) as [P1 P2]. split; [intro X; rewrite (P1 X); exact G|].
    destruct P2 as [[Q1 [Q2 Q3]] | [Q1 Q2]]; [left | right].
    + split; [congruence|]. split; [congruence|]. intros v Hv.
      destruct (Q3 v Hv) as [X | [m [X1 [X2 [X3 [X4 X5]]]]]]; [left; congruence | right].
      exists m. rewrite <- C, <- B. auto.
    + split; [congruence|]. intros v Hv. destruct (Q2 v Hv) as [X [c [Y Z]]]. split; [congruence|].
      exists c. split; [congruence | exact Z].
Qed.

(* ---------------------------------------------------------------- becoming leader *)
Lemma check_if_elected_V s s' : check_if_elected s = Ret s' ->
  s' = s \/ (n_role s' <> Candidate /\ keepV (set_role s Leader (n_id s) 0) s').
Proof.
  unfold check_if_elected. destruct (n_conf s) as [c |]; [| discriminate].
  destruct (quorum c <=? N.of_nat (length (c_votes s))).
  - unfold become_leader. intro H. right.
    pose proof (kxV_enter_leader (set_role s Leader (n_id s) 0)) as K. rewrite H in K. simpl in K.
    split; [| exact K]. destruct K as [_ [_ [_ [_ [E _]]]]]. simpl in E. destruct E; congruence.
  - intro H. inversion H. auto.
Qed.

(* ---------------------------------------------------------------- candidate *)
Lemma handle_candidate_V s m s' :
  n_msgs s = [] -> n_role s = Candidate -> m_term m = p_term (n_p s) -> (m_to m = n_id s \/ m_to m = 0) ->
  handle_candidate s m = Ret s' -> csum s s' (Some m).
Proof.
  intros Hm Hr Ht Hto. unfold handle_candidate. destruct (m_body m) eqn:Eb.
  - intro H. inversion H. subst. apply keepV_csum; auto. apply keepV_vol; simpl; auto.
  - discriminate.
  - intro H. inversion H. subst. apply keepV_csum; auto. apply keepV_send. split; [discriminate | intros; discriminate].
  - destruct granted.
    + intro H. apply check_if_elected_V in H.
      assert (HV : forall v, In v (set_add (m_from m) (c_votes s)) -> vfrom s (Some m) v).
      { intros v Hv. apply in_set_add in Hv. destruct Hv as [Hv | Hv]; [right | left; exact Hv].
        exists m. auto. }
      destruct H as [H | [Hnc K]].
      * subst s'. split; [| split].
        -- intros r Hin. simpl in Hin. rewrite Hm in Hin. contradiction.
        -- intros r Hin. simpl in Hin. rewrite Hm in Hin. contradiction.
        -- intros _. split; [reflexivity|]. left. simpl. auto.
      * pose proof (keepV_msgs _ s' (Hm : n_msgs (set_role (set_candidate s (c_timeout s) (set_add (m_from m) (c_votes s))) Leader (n_id s) 0) = []) K) as M. destruct K as [A [_ [_ [D _]]]]. simpl in A, D. split; [| split].
        -- intros r Hin Hq. exfalso. exact (nvq_vreq _ (M r Hin) Hq).
        -- intros r Hin Hb. exfalso. destruct (M r Hin) as [X _]. contradiction.
        -- intros _. split; [intro X; contradiction|]. left. split; [exact Hr|]. split; [exact A|].
           intros v Hv. apply HV. rewrite <- D. exact Hv.
    + intro H. inversion H. subst. apply keepV_refl_csum. exact Hm.
  - intro H. inversion H. subst. apply keepV_csum; auto. apply keepV_vol; simpl; auto.
Qed.

(* ---------------------------------------------------------------- enterCandidate: the only source of vote requests *)
Lemma memb_In x l : memb x l = true -> In x l.
Proof. unfold memb. rewrite existsb_exists. intros [y [H E]]. apply N.eqb_eq in E. subst. exact H. Qed.

Lemma fold_send_msgs (ms : list nid) b : forall s r,
  In r (n_msgs (fold_left (fun a m => if m =? n_id a then a else send a m b) ms s)) ->
  In r (n_msgs s) \/ (m_body r = b /\ In (m_to r) ms).
Proof.
  induction ms as [| a ms IH]; intros s r; simpl; [auto|].
  destruct (a =? n_id s).
  - intro H. destruct (IH s r H) as [X | [X Y]]; auto.
  - intro H. destruct (IH (send s a b) r H) as [X | [X Y]]; [| auto].
    unfold send in X. simpl in X. apply in_app_or in X. destruct X as [X | [X | []]]; [left; exact X | right].
    subst r. simpl. auto.
Qed.

Lemma enter_candidate_V s s' :
  n_msgs s = [] -> enter_candidate s = Ret s' ->
  (n_role s' = Follower /\ n_msgs s' = []) \/
  (p_term (n_p s') = p_term (n_p s) + 1 /\ (n_role s' = Candidate -> n_conf s' = n_conf s) /\
   (forall v, In v (c_votes s') -> v = n_id s /\ memb_of s v) /\
   (forall r, In r (n_msgs s') -> m_body r <> VoteResp true /\ (is_vreq (m_body r) -> memb_of s (m_to r)))).
Proof.
  intros Hm. unfold enter_candidate.
  destruct (negb (in_latest_conf s) && latest_conf_committed s).
  { intro H. inversion H. subst. simpl. left. auto. }
  unfold do_mut at 1. simpl.
  destruct (negb (n_budget s =? 0) && (n_budget s =? n_cnt s + 1)); simpl; [discriminate|].
  match goal with |- context [bind (st_term (n_p ?s2) _) _] => set (x2 := s2) end.
  assert (H2 : p_term (n_p x2) = p_term (n_p s) + 1 /\ n_id x2 = n_id s /\ n_msgs x2 = [] /\ n_conf x2 = n_conf s /\
               (forall v, In v (c_votes x2) -> v = n_id s /\ memb_of s v)).
  { unfold x2. match goal with |- context [if ?c then _ else _] => destruct c eqn:Ec end.
    - simpl. split; [reflexivity|]. split; [reflexivity|]. split; [exact Hm|]. split; [reflexivity|].
      intros v [Hv | []]. split; [auto|].
      unfold in_latest_conf in Ec. simpl in Ec. destruct (n_conf s) as [c |] eqn:E; [| discriminate].
      exists c. split; [exact E|]. apply memb_In. subst v. exact Ec.
    - simpl. split; [reflexivity|]. split; [reflexivity|]. split; [exact Hm|]. split; [reflexivity|]. intros v []. }
  destruct H2 as [P2 [I2 [M2 [C2 V2]]]].
  destruct (st_term (n_p x2) (last_index (n_p x2))) as [[lt ok] | |]; simpl; try discriminate.
  destruct (negb ok); [discriminate|].
  destruct (n_conf x2) as [c |] eqn:Ec; [| discriminate].
  intro H. apply check_if_elected_V in H.
  match type of H with _ \/ (_ /\ keepV (set_role (set_candidate ?f _ _) _ _ _) _) => set (x3 := f) in * end.
  destruct (fold_send_keep (mb_members c) (VoteReq (last_index (n_p x2)) lt) ltac:(discriminate) x2) as [K3 C3].
  fold x3 in K3, C3. destruct K3 as [A3 [B3 [I3 [V3 _]]]].
  assert (M3 : forall r, In r (n_msgs x3) -> m_body r <> VoteResp true /\ (is_vreq (m_body r) -> memb_of s (m_to r))).
  { intros r Hin. apply fold_send_msgs in Hin. destruct Hin as [Hin | [Hb Hin]]; [rewrite M2 in Hin; contradiction|].
    split; [rewrite Hb; discriminate|]. intros _. exists c. split; [congruence | exact Hin]. }
  right. destruct H as [H | [Hnc K]].
  - subst s'. simpl. split; [congruence|]. split; [intros _; congruence|]. split; [| exact M3].
    intros v Hv. apply V2. rewrite <- V3. exact Hv.
  - destruct K as [A [_ [_ [D [_ [new [F G]]]]]]]. simpl in A, D, F.
    split; [congruence|]. split; [intro X; contradiction|]. split.
    + intros v Hv. apply V2. rewrite <- V3, <- D. exact Hv.
    + intros r Hin. rewrite F in Hin. apply in_app_or in Hin. destruct Hin as [Hin | Hin]; [apply M3; exact Hin|].
      rewrite Forall_forall in G. destruct (G r Hin) as [_ [_ X]]. split; [destruct X; auto|].
      intro Y. exfalso. exact (nvq_vreq _ X Y).
Qed.

(* ---------------------------------------------------------------- follower: a granted vote answers a vote request *)
Definition fmsg (s : node) (m r : msg) : Prop :=
  ~ is_vreq (m_body r) /\
  (m_body r = VoteResp true -> is_vreq (m_body m) /\ m_to r = m_from m /\ m_term r = p_term (n_p s)).

Lemma nvq_fmsg s m r : nvq (m_body r) -> fmsg s m r.
Proof. intro H. split; [apply nvq_vreq; exact H|]. intro X. destruct H as [H _]. contradiction. Qed.

Lemma handle_follower_V s m s' :
  n_msgs s = [] -> handle_follower s m = Ret s' -> forall r, In r (n_msgs s') -> fmsg s m r.
Proof.
  intro Hm. unfold handle_follower. destruct (m_body m) eqn:Eb.
  - destruct (follower_note_leader s (m_from m)) as [s1 | |] eqn:E1; simpl; try discriminate.
    apply follower_note_leader_sum in E1. destruct E1 as [A _].
    intro H. pose proof (kxV_handle_app_ents s1 (m_from m) prev_idx prev_term commit ents) as K. rewrite H in K.
    simpl in K. intros r Hin. apply nvq_fmsg. apply (keepV_msgs s1 s'); auto. congruence.
  - intro H. inversion H. subst. intros r Hin. rewrite Hm in Hin. contradiction.
  - destruct (can_grant_vote s (m_from m) last_idx last_term) as [g | |] eqn:Eg; simpl; try discriminate.
    assert (X : forall s1, n_msgs s1 = [] -> p_term (n_p s1) = p_term (n_p s) ->
                forall r, In r (n_msgs (send s1 (m_from m) (VoteResp g))) -> fmsg s m r).
    { intros s1 M1 T1 r Hin. unfold send in Hin. simpl in Hin. rewrite M1 in Hin. simpl in Hin.
      destruct Hin as [Hin | []]. subst r. split; simpl.
      - intros [li [lt Y]]. discriminate.
      - intros _. split; [exists last_idx, last_term; exact Eb|]. auto. }
    destruct g.
    + unfold do_mut. destruct (negb (n_budget s =? 0) && (n_budget s =? n_cnt s + 1)); simpl; [discriminate|].
      intro H. inversion H. subst. apply X; simpl; auto.
    + simpl. intro H. inversion H. subst. apply X; auto.
  - intro H. inversion H. subst. intros r Hin. rewrite Hm in Hin. contradiction.
  - destruct (follower_note_leader s (m_from m)) as [s1 | |] eqn:E1; simpl; try discriminate.
    apply follower_note_leader_sum in E1. destruct E1 as [A _].
    intro H. pose proof (kxV_handle_snapshot s1 (m_from m) last_idx last_term conf) as K. rewrite H in K.
    simpl in K. intros r Hin. apply nvq_fmsg. apply (keepV_msgs s1 s'); auto. congruence.
Qed.

(* a follower that stays a follower: the summary *)
Lemma follower_csum s x s' m :
  n_role s' = Follower -> n_id x = n_id s -> m_term m = p_term (n_p x) -> (m_to m = n_id s \/ m_to m = 0) ->
  (forall r, In r (n_msgs s') -> fmsg x m r) -> csum s s' (Some m).
Proof.
  intros Hr Hi Ht Hto M. split; [| split].
  - intros r Hin Hq. exfalso. destruct (M r Hin) as [X _]. exact (X Hq).
  - intros r Hin Hb. destruct (M r Hin) as [_ X]. destruct (X Hb) as [X1 [X2 X3]].
    exists m. split; [reflexivity|]. split; [exact X1|]. split; [auto|]. split; [congruence | exact Hto].
  - intros [Hc | [Hc _]]; congruence.
Qed.

(* ---------------------------------------------------------------- HandleMsg *)
Lemma handle_msg_V s m s' : n_msgs s = [] -> handle_msg s m = Ret s' -> csum s s' (Some m).
Proof.
  intro Hm. unfold handle_msg.
  destruct ((negb (m_to m =? 0) && negb (m_to m =? n_id s)) || (negb (m_tog m =? 0) && negb (m_tog m =? p_guid (n_p s)))) eqn:Eto.
  { intro H. inversion H. subst. apply keepV_refl_csum. exact Hm. }
  assert (Hto : m_to m = n_id s \/ m_to m = 0).
  { apply orb_false_iff in Eto. destruct Eto as [Eto _]. apply andb_false_iff in Eto.
    destruct Eto as [Eto | Eto]; apply negb_false_iff in Eto; apply N.eqb_eq in Eto; [right | left]; exact Eto. }
  destruct (negb (guid_get (m_from m) (p_guids (n_p s)) =? 0) && negb (guid_get (m_from m) (p_guids (n_p s)) =? m_fromg m)).
  { intro H. inversion H. subst. apply keepV_refl_csum. exact Hm. }
  assert (H1 : forall s1, (if guid_get (m_from m) (p_guids (n_p s)) =? 0 then do_mut (MSetGuid (m_from m) (m_fromg m)) s else Ret s) = Ret s1 ->
               same_vol s s1).
  { intros s1. destruct (guid_get (m_from m) (p_guids (n_p s)) =? 0).
    - unfold do_mut. destruct (negb (n_budget s =? 0) && (n_budget s =? n_cnt s + 1)); [discriminate|].
      intro E. inversion E. unfold same_vol. simpl. repeat split; auto.
    - intro E. inversion E. unfold same_vol. repeat split; auto. }
  destruct (if guid_get (m_from m) (p_guids (n_p s)) =? 0 then do_mut (MSetGuid (m_from m) (m_fromg m)) s else Ret s) as [s1 | |];
    simpl; try discriminate.
  specialize (H1 s1 eq_refl). pose proof H1 as SV. destruct H1 as [A [B [C [D [E [F G]]]]]].
  assert (M1 : n_msgs s1 = []) by congruence.
  assert (Hs1 : csum s s1 (Some m)).
  { apply (csum_pre s s1 s1 (Some m) SV). apply keepV_refl_csum. exact M1. }
  match goal with |- (if ?c then _ else _) = _ -> _ => destruct c end.
  { intro H. inversion H. subst. exact Hs1. }
  destruct (m_term m <? p_term (n_p s1)) eqn:Elt.
  { intro H. inversion H. subst. exact Hs1. }
  destruct (p_term (n_p s1) <? m_term m) eqn:Egt.
  - assert (H2 : forall s2,
               (match m_body m with
                | AppEnts _ _ _ _ | InstallSnap _ _ _ =>
                    s'0 <- do_mut (MSaveState (m_from m) (m_term m)) s1 ;; Ret (become_follower s'0 (m_from m))
                | VoteReq _ _ => s'0 <- do_mut (MSaveState 0 (m_term m)) s1 ;; Ret (become_follower s'0 0)
                | _ => Fatal F_RESP_HIGHER_TERM
                end) = Ret s2 -> n_msgs s2 = [] /\ n_id s2 = n_id s /\ n_role s2 = Follower /\ p_term (n_p s2) = m_term m).
    { intros s2. destruct (m_body m); try discriminate;
        unfold do_mut; destruct (negb (n_budget s1 =? 0) && (n_budget s1 =? n_cnt s1 + 1)); simpl; try discriminate;
        intro X; inversion X; simpl; repeat split; congruence. }
    match goal with |- bind ?a _ = _ -> _ => destruct a as [s2 | |] end; simpl; try discriminate.
    destruct (H2 s2 eq_refl) as [M2 [I2 [R2 T2]]].
    unfold handle_by_role. rewrite R2. intro H.
    pose proof (handle_follower_V s2 m s' M2 H) as MV.
    apply handle_follower_sum in H; auto. destruct H as [_ [_ [_ [T _]]]].
    apply (follower_csum s s2 s' m); auto. destruct T; congruence.
  - apply N.ltb_ge in Elt, Egt. assert (Heq : m_term m = p_term (n_p s1)) by lia.
    simpl. unfold handle_by_role. destruct (n_role s1) eqn:Er.
    + intro H. pose proof (handle_follower_V s1 m s' M1 H) as MV.
      apply handle_follower_sum in H; auto. destruct H as [_ [_ [_ [T _]]]].
      apply (follower_csum s s1 s' m); auto. destruct T; congruence.
    + intro H. apply (csum_pre s s1 s' (Some m) SV). apply handle_candidate_V; auto. rewrite B. exact Hto.
    + intro H. pose proof (kxV_handle_leader s1 m) as K. rewrite H in K. simpl in K.
      apply (csum_pre s s1 s' (Some m) SV). apply keepV_csum; auto. intro X. congruence.
Qed.

(* ---------------------------------------------------------------- Tick *)
Lemma quiet_csum s s' om : n_role s' = Follower -> n_msgs s' = [] -> csum s s' om.
Proof.
  intros Hr Hm. split; [| split].
  - intros r Hin. rewrite Hm in Hin. contradiction.
  - intros r Hin. rewrite Hm in Hin. contradiction.
  - intros [Hc | [Hc _]]; congruence.
Qed.

Lemma tick_V s s' : n_msgs s = [] -> tick s = Ret s' -> csum s s' None.
Proof.
  intro Hm. unfold tick.
  set (s0 := set_elapsed s ((n_elapsed s + 1) mod 4294967296)).
  assert (K0 : keepV s s0) by (apply keepV_vol; simpl; auto).
  assert (Hcand : become_candidate s0 = Ret s' -> csum s s' None).
  { unfold become_candidate. intros H. apply enter_candidate_V in H; [| exact Hm].
    destruct H as [[R M] | [T [Cf [V M]]]]; [apply quiet_csum; auto|]. simpl in T, Cf.
    split; [| split].
    - intros r Hin Hq. destruct (M r Hin) as [_ X]. destruct (X Hq) as [c [Y Z]]. exists c. auto.
    - intros r Hin Hb. exfalso. destruct (M r Hin) as [X _]. contradiction.
    - intros _. split; [exact Cf|]. right. split; [exact T|]. intros v Hv. destruct (V v Hv) as [X [c [Y Z]]].
      split; [exact X|]. exists c. auto. }
  destruct (n_role s0) eqn:Er.
  - destruct (f_timeout s0 <=? sub32 (n_elapsed s0) (f_contact s0)).
    + exact Hcand.
    + intro H. inversion H. subst. apply keepV_csum; auto.
  - destruct (c_timeout s0 <=? n_elapsed s0).
    + exact Hcand.
    + intro H. inversion H. subst. apply keepV_csum; auto.
  - intro H. pose proof (kxV_tick_leader s0) as K. rewrite H in K. simpl in K.
    apply keepV_csum; [exact Hm | exact (keepV_trans _ _ _ K0 K) |]. simpl in Er. intro X. congruence.
Qed.

(* ---------------------------------------------------------------- all events *)
Lemma do_mut_conf mu s s' : do_mut mu s = Ret s' -> n_conf s' = n_conf s.
Proof.
  unfold do_mut. destruct (negb (n_budget s =? 0) && (n_budget s =? n_cnt s + 1)); [discriminate|].
  intro H. inversion H. reflexivity.
Qed.

Lemma trim_log_conf s i s' : trim_log s i = Ret s' -> n_conf s' = n_conf s.
Proof.
  unfold trim_log. destruct (log_first (p_log (n_p s))); [| intro H; inversion H; reflexivity].
  destruct (log_last (p_log (n_p s))); [| intro H; inversion H; reflexivity].
  destruct (i =? n - 1); [intro H; inversion H; reflexivity|].
  destruct ((i <? n) || (n0 <? i)); [discriminate|].
  destruct (i - n <? cf_keep (n_cfg s)); [intro H; inversion H; reflexivity|].
  apply do_mut_conf.
Qed.

Lemma snapshot_done_conf s m s' : snapshot_done s m = Ret s' -> n_conf s' = n_conf s.
Proof.
  unfold snapshot_done.
  match goal with |- (if ?c then _ else _) = _ -> _ => destruct c end; [intro H; inversion H; reflexivity|].
  destruct (do_mut (MSnapCommit m) s) as [s1 | |] eqn:E; simpl; try discriminate.
  intro H. apply trim_log_conf in H. apply do_mut_conf in E. congruence.
Qed.

Theorem run_event_csum s ev st s' :
  n_msgs s = [] -> run_event s ev = Ret (st, s') -> csum s s' (ev_msg ev).
Proof.
  intro Hm. destruct ev; simpl.
  - unfold propose_initial_membership. destruct (n_role s) eqn:Er.
    2,3: intro H; inversion H; subst; apply keepV_refl_csum; exact Hm.
    destruct (is_clean (n_p s)).
    2: intro H; inversion H; subst; apply keepV_refl_csum; exact Hm.
    unfold do_mut at 1. destruct (negb (n_budget s =? 0) && (n_budget s =? n_cnt s + 1)); simpl; [discriminate|].
    unfold log_append. unfold do_mut. simpl.
    match goal with |- context [if ?c then _ else _] => destruct c end; simpl; [discriminate|].
    match goal with |- context [if ?c then _ else _] => destruct c end; simpl; [| discriminate].
    intro H. inversion H. subst. apply quiet_csum; simpl; auto.
  - unfold wrap0. destruct (handle_msg s m) as [x | |] eqn:E; simpl; try discriminate.
    intro H. inversion H. subst. apply handle_msg_V; auto.
  - unfold wrap0. destruct (tick s) as [x | |] eqn:E; simpl; try discriminate.
    intro H. inversion H. subst. apply tick_V; auto.
  - intro H. pose proof (kxV2_propose s es) as K. rewrite H in K. apply keepV_csum; auto.
    intro Hr. unfold propose in H. rewrite Hr in H. inversion H. reflexivity.
  - intro H. pose proof (kxV2_add_node s member rnd) as K. rewrite H in K. apply keepV_csum; auto.
    intro Hr. unfold add_node in H. rewrite Hr in H. inversion H. reflexivity.
  - intro H. pose proof (kxV2_remove_node s member) as K. rewrite H in K. apply keepV_csum; auto.
    intro Hr. unfold remove_node in H. rewrite Hr in H. inversion H. reflexivity.
  - unfold wrap0. destruct (snapshot_done s m) as [x | |] eqn:E; simpl; try discriminate.
    intro H. inversion H. subst. pose proof (kxV_snapshot_done s m) as K. rewrite E in K.
    apply keepV_csum; auto. intros _. apply snapshot_done_conf in E. exact E.
  - unfold wrap0. pose proof (new_core_pext (n_id s) (n_cfg s) (n_p s)) as P.
    destruct (new_core (n_id s) (n_cfg s) (n_p s)) as [x | |]; simpl; try discriminate.
    intro H. inversion H. subst. destruct P as [_ [_ [_ [Rl M]]]]. apply quiet_csum; auto.
Qed.

(* ---------------------------------------------------------------- one step of the system's node, crash variants included *)
Theorem step_csum s ev k crashed st s' :
  run_event_crash (settle s) ev k = Ret (crashed, st, s') -> csum s s' (ev_msg ev).
Proof.
  unfold run_event_crash.
  destruct (run_event (with_budget (settle s) k) ev) as [[st0 x] | c | p] eqn:E; try discriminate.
  - intro H. inversion H. subst.
    apply run_event_csum in E; [| reflexivity]. destruct E as [V [R P]]. split; [| split].
    + intros m Hin Hq. exact (V m Hin Hq).
    + intros r Hin Hb. exact (R r Hin Hb).
    + intro Hc. exact (P Hc).
  - pose proof (new_core_pext (n_id (settle s)) (n_cfg (settle s)) p) as Q.
    destruct (new_core (n_id (settle s)) (n_cfg (settle s)) p) as [s2 | c | q]; simpl; try discriminate.
    intro H. inversion H. subst. destruct Q as [_ [_ [_ [Rl M]]]]. apply quiet_csum; auto.
Qed.
