(* Raft/Completeness.v — towards Leader Completeness over the system of Raft/LogMatch.v (same restricted alphabet):
   the acknowledging half of the classical argument.

     ack_matches_leader_log : whenever a step makes a node emit a successful AppEntsResp for index idx in term T, that
       node's log — at that very moment — holds at least idx entries and its first idx entries are exactly the first idx
       entries of the log of the leader of term T (stated against the node that is Leader with term T in the same state,
       if there is one; the proof goes through the ghost leader-log records of Raft/LogMatch.v, which exist whether or
       not the leader is still in office).
     log_terms_sys : entry terms never exceed the holder's current term and never decrease along a log.

   NOT proved here (see notes/C02.md): that an acknowledged prefix survives until the acknowledger votes (escape-clause
   invariant), the up-to-date comparison at vote time against the candidate's log, and the quorum intersection. *)
From Coq Require Import List NArith ZArith Bool Lia ZifyN ZifyNat ZifyBool.
From BLB Require Import Lib.LTS Raft.Core Raft.Wire Raft.NodeProofs Raft.NodeKeep Raft.NodeElect Raft.NodeConf
  Raft.Election Raft.ElectionFixed Raft.LogMatchLists Raft.LogMatchNode Raft.LogMatch.
Import ListNotations.
Open Scope N_scope.

Lemma nodup_in_eq (c : list node) a b : NoDup (map n_id c) -> In a c -> In b c -> n_id a = n_id b -> a = b.
Proof.
  intros Hn Ha Hb E. pose proof (in_get_node _ _ Hn Ha) as Ga. pose proof (in_get_node _ _ Hn Hb) as Gb.
  rewrite E in Ga. rewrite Ga in Gb. inversion Gb. reflexivity.
Qed.

Lemma ack_step bm be n σ G e σ' :
  length (sy_nodes σ) = n -> ginv bm be σ G -> lstep n bm be σ e σ' ->
  forall m idx hint, In m (sy_soup σ') -> ~ In m (sy_soup σ) -> m_body m = AppEntsResp true idx hint ->
  forall a b, In a (sy_nodes σ') -> n_id a = m_from m -> In b (sy_nodes σ') -> n_role b = Leader -> p_term (n_p b) = m_term m ->
    (N.to_nat idx <= length (p_log (n_p a)))%nat /\
    firstn (N.to_nat idx) (p_log (n_p a)) = firstn (N.to_nat idx) (p_log (n_p b)).
Proof.
  intros Hlen GI Hst m idx hint Hin Hnew Hbody a b Ha Hfrom Hb Hrole Hterm.
  destruct (ginv_step bm be n σ G e σ' Hlen GI Hst) as [G' [GI' HG]].
  pose proof (g_el _ _ _ _ GI') as El'.
  assert (Hnd : NoDup (map n_id (sy_nodes σ'))) by (apply (i_nodup _ _ El')).
  destruct Hst as [Hst Hres].
  destruct Hst as [σ i s ev k crashed st s' Gs Hdel Hev Hrun]. simpl in *.
  destruct (step_facts _ _ _ _ _ _ Hrun) as [Hid [Hp [Hm He]]].
  destruct (get_node_in _ _ _ Gs) as [Gin Gid].
  assert (Hi : n_id s' = i) by congruence.
  assert (Gs' : get_node i (put_node s' (sy_nodes σ)) = Some s').
  { rewrite <- Hi. eapply get_put_same. rewrite Hi. exact Gs. }
  (* the message is a fresh one of s' *)
  apply in_app_or in Hin. destruct Hin as [Hin | Hin]; [contradiction|].
  apply in_out_msgs in Hin. destruct Hin as [m0 [H0 [Et [Ef [Eto Eb]]]]].
  unfold msgs_ok in Hm. rewrite Forall_forall in Hm. destruct (Hm m0 H0) as [X [Y Z]].
  assert (Ea : a = s').
  { apply (nodup_in_eq _ a s' Hnd Ha); [| congruence]. apply get_node_in in Gs'. tauto. }
  subst a.
  (* node-level: what the acknowledgement says about the final log *)
  assert (Hev4 : evok4 ev).
  { destruct ev; simpl in *; auto; try contradiction.
    destruct (Hdel m1 eq_refl) as [Min _]. pose proof (g_msgs _ _ _ _ GI m1 Min) as Mk. unfold msg_ok3 in Mk.
    destruct (m_body m1); auto. destruct ents as [es |]; auto. destruct Mk as [j [l1 [X1 [Y1 Z1]]]]. split; auto.
    eapply slice_wf; eauto. eapply (g_rec_wf _ _ _ _ GI); eauto. }
  pose proof (run_event_crash_lm s ev k crashed st s' (g_base _ _ _ _ GI i s Gs) Hev4 Hrun) as NI.
  pose proof (v_msgs _ _ _ _ _ _ _ _ _ NI) as N_msgs. rewrite Forall_forall in N_msgs.
  pose proof (N_msgs m0 H0) as Mg. unfold mgood in Mg. rewrite <- Eb, Hbody in Mg.
  destruct (N.eq_dec idx 0) as [Z0 | Hnz].
  { subst idx. simpl. split; [lia | reflexivity]. }
  destruct Mg as [Z0 | [e1 [X1 R1]]]; [contradiction|].
  (* the delivered AppEnts and the leader record it is a slice of *)
  assert (Hd : exists md pi pt cm oe, ev = EDeliver md /\ m_body md = AppEnts pi pt cm oe).
  { unfold rt_of in R1. destruct ev; try contradiction. destruct (m_body m1) eqn:Ebd; try contradiction.
    eexists _, _, _, _, _. split; [reflexivity | exact Ebd]. }
  destruct Hd as [md [pi [pt [cm [oe [Eev Ebd]]]]]]. subst ev.
  destruct (Hdel md eq_refl) as [Min _]. pose proof (g_msgs _ _ _ _ GI md Min) as Mk. unfold msg_ok3 in Mk. rewrite Ebd in Mk.
  destruct Mk as [j [l [Rin [Sl Tm1]]]].
  assert (Htm : m_term md = m_term m).
  { destruct (deliver_term _ _ _ _ _ _ Hrun) as [D | D]; [rewrite D in H0; contradiction | congruence]. }
  (* the leader record has an entry of the same term at position idx - 1 *)
  assert (Hl : exists e2, nth_error l (N.to_nat (idx - 1)) = Some e2 /\ e_term e2 = e_term e1).
  { unfold rt_of in R1. rewrite Ebd in R1. destruct R1 as [[R1 R2] | [ents [jj [ee [R1 [R2 [R3 R4]]]]]]].
    - destruct Sl as [_ [Ta _]]. destruct Ta as [Z0 | [e2 [A1 A2]]].
      + exfalso. subst. contradiction.
      + exists e2. subst idx. split; auto. congruence.
    - subst oe. pose proof (slice_nth _ _ _ _ _ _ Sl R2) as A1. exists ee. split; [| congruence].
      rewrite <- A1. f_equal. lia. }
  destruct Hl as [e2 [A1 A2]].
  assert (Hpos : 1 <= idx) by lia.
  assert (HG'l : In (m_term md, j, l) G') by (apply HG; exact Rin).
  pose proof (same_term_prefix G' (p_log (n_p s')) l (N.to_nat (idx - 1)) e1 e2 (g_cmp _ _ _ _ GI')
                (g_lm_node _ _ _ _ GI' i s' Gs') (g_lm_rec _ _ _ _ GI' _ _ _ HG'l) X1 A1 (eq_sym A2)) as Pf.
  replace (S (N.to_nat (idx - 1))) with (N.to_nat idx) in Pf by lia.
  (* the leader b holds every record of its term as a prefix *)
  pose proof (in_get_node _ _ Hnd Hb) as Gb.
  pose proof (g_hist_leader _ _ _ _ GI' _ _ Gb Hrole) as Hh. rewrite Hterm in Hh.
  destruct (g_rec_hist _ _ _ _ GI' _ _ _ HG'l) as [[Z1 [Z2 Z3]] | [Jnz [Jh J2]]].
  { exfalso. pose proof (g_base _ _ _ _ GI' _ _ Gb) as [_ [_ [_ B2]]].
    assert (2 <= p_term (n_p b)) by (apply B2; congruence). lia. }
  rewrite Htm in Jh.
  assert (Ej : j = n_id b) by (eapply (Election.inv_election _ _ El'); eauto).
  destruct (g_rec_node _ _ _ _ GI' _ _ _ HG'l Jnz) as [x [Gx [Le Eq]]].
  simpl in Gx, Gb. rewrite Ej, Gb in Gx. inversion Gx. subst x.
  destruct (Eq ltac:(congruence)) as [_ Hpf]. specialize (Hpf Hrole).
  assert (Hlen_l : (N.to_nat idx <= length l)%nat) by (apply nth_len in A1; lia).
  split; [apply nth_len in X1; lia|].
  rewrite Pf. apply pfx_firstn; auto.
Qed.

Lemma lrun_length n bm be σ0 sched σ :
  run sys sys_event (lstep n bm be) σ0 sched σ -> length (sy_nodes σ0) = n -> length (sy_nodes σ) = n.
Proof.
  intros Hrun. induction Hrun as [σ1 | σ1 e1 σ2 es σ3 Hs1 Hr IH]; intro Hn; auto.
  apply IH. destruct Hs1 as [Hs1 _]. destruct Hs1. simpl in *.
  rewrite <- (map_length n_id (put_node s' (sy_nodes σ))), put_node_ids, map_length. exact Hn.
Qed.

Theorem ack_matches_leader_log_sys :
  forall (bm : list nid) (be : N) (σ0 σ σ' : sys) (sched : list sys_event) (e : sys_event),
    linit σ0 ->
    run sys sys_event (lstep (length (sy_nodes σ0)) bm be) σ0 sched σ ->
    lstep (length (sy_nodes σ0)) bm be σ e σ' ->
    forall m idx hint,
      In m (sy_soup σ') -> ~ In m (sy_soup σ) -> m_body m = AppEntsResp true idx hint ->
      forall a b,
        In a (sy_nodes σ') -> n_id a = m_from m ->
        In b (sy_nodes σ') -> n_role b = Leader -> p_term (n_p b) = m_term m ->
        (N.to_nat idx <= length (p_log (n_p a)))%nat /\
        firstn (N.to_nat idx) (p_log (n_p a)) = firstn (N.to_nat idx) (p_log (n_p b)).
Proof.
  intros bm be σ0 σ σ' sched e Hinit Hrun Hst.
  destruct (lrun_inv bm be σ0 sched σ _ (ginv_init bm be σ0 Hinit) Hrun) as [G [GI _]].
  assert (Hlen : length (sy_nodes σ) = length (sy_nodes σ0)) by (eapply lrun_length; eauto).
  intros. eapply (ack_step bm be _ σ G e σ' Hlen GI Hst); eauto.
Qed.

(* entry terms: never above the holder's current term, never decreasing along the log *)
Theorem log_terms_sys :
  forall (bm : list nid) (be : N) (σ0 σ : sys) (sched : list sys_event),
    linit σ0 ->
    run sys sys_event (lstep (length (sy_nodes σ0)) bm be) σ0 sched σ ->
    forall a, In a (sy_nodes σ) ->
      (forall e, In e (p_log (n_p a)) -> e_term e <= p_term (n_p a)) /\
      (forall k1 k2 e1 e2, (k1 <= k2)%nat -> nth_error (p_log (n_p a)) k1 = Some e1 ->
                           nth_error (p_log (n_p a)) k2 = Some e2 -> e_term e1 <= e_term e2).
Proof.
  intros bm be σ0 σ sched Hinit Hrun a Ha.
  destruct (lrun_inv bm be σ0 sched σ _ (ginv_init bm be σ0 Hinit) Hrun) as [G [GI _]].
  pose proof (g_el _ _ _ _ GI) as El.
  assert (Hnd : NoDup (map n_id (sy_nodes σ))) by (apply (i_nodup _ _ El)).
  pose proof (in_get_node _ _ Hnd Ha) as Ga.
  destruct (g_tb_node _ _ _ _ GI _ _ Ga) as [TB TM]. split; [| exact TM].
  unfold tbound in TB. rewrite Forall_forall in TB. exact TB.
Qed.

(* the ghost leader-log records, exposed: one append-only log per term, every AppEnts ever sent is a slice of it *)
Theorem leader_log_records_sys :
  forall (bm : list nid) (be : N) (σ0 σ : sys) (sched : list sys_event),
    linit σ0 ->
    run sys sys_event (lstep (length (sy_nodes σ0)) bm be) σ0 sched σ ->
    exists G : list (N * nid * list entry),
      (forall t i l j l', In (t, i, l) G -> In (t, j, l') G -> pfx l l' \/ pfx l' l) /\
      (forall t i l, In (t, i, l) G -> i <> 0 -> In (t, i) (sy_hist σ)) /\
      (forall a, In a (sy_nodes σ) -> n_role a = Leader -> In (p_term (n_p a), n_id a, p_log (n_p a)) G) /\
      (forall a k e, In a (sy_nodes σ) -> nth_error (p_log (n_p a)) k = Some e ->
                     exists i l, In (e_term e, i, l) G /\ firstn (S k) (p_log (n_p a)) = firstn (S k) l) /\
      (forall m pi pt cm oe, In m (sy_soup σ) -> m_body m = AppEnts pi pt cm oe ->
                             exists i l, In (m_term m, i, l) G /\ slice l pi pt oe) /\
      (forall m li lt c, In m (sy_soup σ) -> m_body m <> InstallSnap li lt c).
Proof.
  intros bm be σ0 σ sched Hinit Hrun.
  destruct (lrun_inv bm be σ0 sched σ _ (ginv_init bm be σ0 Hinit) Hrun) as [G [GI _]].
  pose proof (g_el _ _ _ _ GI) as El.
  assert (Hnd : NoDup (map n_id (sy_nodes σ))) by (apply (i_nodup _ _ El)).
  exists G. split; [| split; [| split; [| split; [| split]]]].
  - intros t i l j l' H1 H2. apply (g_cmp _ _ _ _ GI _ _ _ _ _ H1 H2).
  - intros t i l H Hi. destruct (g_rec_hist _ _ _ _ GI _ _ _ H) as [[Z _] | [_ [X _]]]; [contradiction | exact X].
  - intros a Ha Hr. apply (g_rec_leader _ _ _ _ GI _ _ (in_get_node _ _ Hnd Ha) Hr).
  - intros a k e Ha Hk. apply (g_lm_node _ _ _ _ GI _ _ (in_get_node _ _ Hnd Ha) k e Hk).
  - intros m pi pt cm oe Hm Hb. pose proof (g_msgs _ _ _ _ GI m Hm) as Mk. unfold msg_ok3 in Mk. rewrite Hb in Mk.
    destruct Mk as [i [l [A [B _]]]]. exists i, l. auto.
  - intros m li lt c Hm Hb. pose proof (g_msgs _ _ _ _ GI m Hm) as Mk. unfold msg_ok3 in Mk. rewrite Hb in Mk. exact Mk.
Qed.
