(* Raft/MemberSafety.v — round 7: the assembly.  One invariant MS over the alphabet astep (without snapshots) that carries
   EM, the re-based vote / ack / log-matching invariants, (a) ct, (d) peers_ok, the peer-table justification, the leader
   commit invariant and the three configuration invariants; MS gives the record minv of Raft/MemberAbstract.v, hence
   leader completeness and election safety with per-configuration quorums for the state. *)
From Coq Require Import List NArith ZArith Bool Lia ZifyN ZifyNat ZifyBool.
From BLB Require Import Lib.LTS Raft.Core Raft.Wire Raft.NodeProofs Raft.NodeKeep Raft.NodeElect Raft.NodeConf
  Raft.Election Raft.ElectionFixed Raft.LogMatchLists Raft.LogMatchNode Raft.LogMatch Raft.Completeness Raft.CompletenessAck
  Raft.CompletenessVote Raft.MembershipQuorum Raft.NodeKeepV Raft.MemberNode Raft.MemberVotes Raft.MemberConfStep
  Raft.MemberPeers Raft.MemberConfTrack Raft.MemberLeaderOut Raft.MemberLeaderLog
  Raft.LogMatchNodeM Raft.LogMatchM Raft.CompletenessAckM Raft.MemberAbstract Raft.CompletenessVoteM.
Import ListNotations.
Open Scope N_scope.

Definition pjust_ackM (A : list ack) (id t m : N) : Prop :=
  m = 0 \/ exists P, In (id, t, P) A /\ length P = N.to_nat m.

Section Safety.
  Variables (bm : list nid) (be : N).
  Let bootE := boot_entry bm be.

  (* committed under the configuration of the committing leader *)
  Definition committedM (G : list lrec) (A : list ack) (T : N) (P : list entry) : Prop :=
    exists L C, cmr G A T L (length P) C /\ pfx P L.
  Definition cprefixM (G : list lrec) (A : list ack) (t : N) (L : list entry) (c : nat) : Prop :=
    c = 0%nat \/ exists T P, committedM G A T P /\ T <= t /\ pfx (firstn c L) P.

  Record MS (a : asys) (G : list lrec) (A : list ack) (CL : list cand) (GR GL : list grant) : Prop := {
    ms_em : EM a;
    ms_w : voteinvM bm be (fst a) G A CL GR GL;
    ms_ct : forall i s, get_node i (sy_nodes (fst a)) = Some s -> ctw s;
    ms_pk : all_peers_ok a;
    ms_cp : forall i s, get_node i (sy_nodes (fst a)) = Some s -> n_role s = Leader ->
              forall p, In p (l_peers s) -> pjust_ackM A (pr_id p) (p_term (n_p s)) (pr_match p);
    ms_hr : forall t c, In (t, c) (sy_hist (fst a)) -> exists l, In (t, c, l) G;
    ms_cn : forall i s, get_node i (sy_nodes (fst a)) = Some s ->
              (N.to_nat (n_commit s) <= length (p_log (n_p s)))%nat /\
              cprefixM G A (p_term (n_p s)) (p_log (n_p s)) (N.to_nat (n_commit s));
    ms_cm : forall m pi pt cm oe, In m (sy_soup (fst a)) -> m_body m = AppEnts pi pt cm oe ->
              exists i l, In (m_term m, i, l) G /\ (N.to_nat cm <= length l)%nat /\ cprefixM G A (m_term m) l (N.to_nat cm);
    ms_B : forall T i l j1 e1 j2 e2, In (T, i, l) G -> cat l j1 e1 -> cat l j2 e2 -> (j1 < j2)%nat ->
      exists T' L' mi', cmr G A T' L' mi' (cmem e1) /\ latest L' j1 e1 /\ (j1 < mi')%nat /\ agree L' l (S j1) /\ T' <= e_term e2;
    ms_F : forall T i l j2 e2, In (T, i, l) G -> cat l j2 e2 -> (1 <= j2)%nat ->
      exists j1 e1 L2 i2, latest (firstn j2 l) j1 e1 /\ cmr G A (e_term e2) L2 i2 (cmem e1) /\ latest L2 j1 e1 /\
                          (i2 <= j2)%nat /\ agree L2 l i2;
    ms_chain : forall T i l j2 e2 j1 e1, In (T, i, l) G -> cat l j2 e2 -> latest (firstn j2 l) j1 e1 ->
      adj (cmem e1) (cmem e2) \/ adj (cmem e2) (cmem e1);
    ms_nd : forall T i l j e, In (T, i, l) G -> cat l j e -> NoDup (cmem e)
  }.

  Lemma cmr_mono G G' A A' T L mi C : incl G G' -> incl A A' -> cmr G A T L mi C -> cmr G' A' T L mi C.
  Proof.
    intros HG HA [[iT [R N0]] [H1 [H2 [H3 [Q [Q1 [Q2 [Q3 Q4]]]]]]]].
    split; [exists iT; split; [apply HG; exact R | exact N0]|]. split; [exact H1|]. split; [exact H2|]. split; [exact H3|].
    exists Q. split; [exact Q1|]. split; [exact Q2|]. split; [exact Q3|].
    intros v Hv. destruct (Q4 v Hv) as [P [X Y]]. exists P. split; [apply HA; exact X | exact Y].
  Qed.

  Lemma committedM_mono G G' A A' T P : incl G G' -> incl A A' -> committedM G A T P -> committedM G' A' T P.
  Proof. intros HG HA [L [C [X Y]]]. exists L, C. split; [eapply cmr_mono; eauto | exact Y]. Qed.

  Lemma cprefixM_mono G G' A A' t t' L c : incl G G' -> incl A A' -> t <= t' -> cprefixM G A t L c -> cprefixM G' A' t' L c.
  Proof.
    intros HG HA Ht [Z | [T [P [C1 [C2 C3]]]]]; [left; exact Z | right]. exists T, P. split; [eapply committedM_mono; eauto|].
    split; [lia | exact C3].
  Qed.

  Section State.
    Variables (a : asys) (G : list lrec) (A : list ack) (CL : list cand) (GR GL : list grant).
    Hypothesis M : MS a G A CL GR GL.
    Let W := ms_w _ _ _ _ _ _ M.
    Let KI := w_k _ _ _ _ _ _ _ _ W.
    Let GI := k_g _ _ _ _ _ KI.

    (* every log in play starts with the bootstrap entry *)
    Lemma first_is_boot X e : lm G X -> nth_error X 0 = Some e -> e = bootE.
    Proof.
      intros HX He. destruct (HX 0%nat e He) as [i [l [R Ag]]].
      assert (El : nth_error l 0 = Some e).
      { rewrite <- (agree_nth X l 1 0 Ag ltac:(lia)). exact He. }
      destruct (g_rec_hist _ _ _ _ GI _ _ _ R) as [[Z1 [Z2 Z3]] | [Jnz _]].
      - subst l. simpl in El. inversion El. reflexivity.
      - exfalso. destruct (w_quorum _ _ _ _ _ _ _ _ W _ _ _ R Jnz) as [lc [[Hc [j [e0 [Q [La _]]]]] P]].
        destruct (w_c0 _ _ _ _ _ _ _ _ W _ _ _ Hc) as [_ Hlt].
        pose proof (cat_len _ _ _ (proj1 La)) as Hlen.
        destruct lc as [| x lc']; [simpl in Hlen; lia|].
        destruct P as [r Hr]. rewrite Hr in El. simpl in El. inversion El. subst x.
        specialize (Hlt e (or_introl eq_refl)). lia.
    Qed.

    Lemma MS_minv : minv G A CL GR GL (sy_cast (fst a)) bootE.
    Proof.
      constructor.
      - apply (g_cmp _ _ _ _ GI).
      - apply (g_lm_rec _ _ _ _ GI).
      - intros T i l R. apply (g_tb_rec _ _ _ _ GI _ _ _ R).
      - intros U l R. destruct (g_rec_hist _ _ _ _ GI _ _ _ R) as [[_ [Z _]] | [Z _]]; [lia | congruence].
      - intros T i l R. destruct (g_rec_hist _ _ _ _ GI _ _ _ R) as [[_ [Z _]] | [_ [_ Z]]]; lia.
      - apply (w_c0 _ _ _ _ _ _ _ _ W).
      - apply (w_cfun _ _ _ _ _ _ _ _ W).
      - apply (k_rec _ _ _ _ _ KI).
      - apply (w_v1 _ _ _ _ _ _ _ _ W).
      - apply (w_quorum _ _ _ _ _ _ _ _ W).
      - intros T i l R. apply (g_tb_rec _ _ _ _ GI _ _ _ R).
      - intros T i l R. pose proof (g_rec_wf _ _ _ _ GI _ _ _ R) as Wf. pose proof (g_lm_rec _ _ _ _ GI _ _ _ R) as Lm.
        destruct (g_rec_hist _ _ _ _ GI _ _ _ R) as [[_ [_ Z]] | [Jnz _]]; [subst l; reflexivity|].
        destruct (w_quorum _ _ _ _ _ _ _ _ W _ _ _ R Jnz) as [lc [[Hc [j [e0 [Q [La _]]]]] P]].
        pose proof (cat_len _ _ _ (proj1 La)) as Hlen. destruct l as [| x l'].
        + destruct P as [r Hr]. destruct lc; [simpl in Hlen; lia | discriminate].
        + simpl. f_equal. apply (first_is_boot (x :: l') x Lm). reflexivity.
      - intros c U lc Hc Hne. destruct (w_c0 _ _ _ _ _ _ _ _ W _ _ _ Hc) as [Lm _].
        destruct lc as [| x l']; [congruence|]. simpl. f_equal. apply (first_is_boot (x :: l') x Lm). reflexivity.
      - apply (ms_B _ _ _ _ _ _ M).
      - apply (ms_F _ _ _ _ _ _ M).
      - apply (ms_chain _ _ _ _ _ _ M).
      - apply (w_vl _ _ _ _ _ _ _ _ W).
      - apply (e_fun _ (ms_em _ _ _ _ _ _ M)).
    Qed.
    (* what a state satisfying MS knows *)
    Theorem MS_leader_completeness U c l T L mi C :
      cmr G A T L mi C -> In (U, c, l) G -> T < U -> keeps l (firstn mi L).
    Proof. intros Hcm R HT. exact (leader_completeness_records_of_minv _ _ _ _ _ _ _ MS_minv U c l T L mi C Hcm R HT). Qed.

    Theorem MS_one_leader_per_term U c1 l1 c2 l2 :
      In (U, c1, l1) G -> In (U, c2, l2) G -> c1 <> 0 -> c2 <> 0 -> c1 = c2.
    Proof.
      intros R1 R2 N1 N2.
      destruct (w_quorum _ _ _ _ _ _ _ _ W _ _ _ R1 N1) as [lc1 [W1 _]].
      destruct (w_quorum _ _ _ _ _ _ _ _ W _ _ _ R2 N2) as [lc2 [W2 _]].
      exact (election_safety_of_minv _ _ _ _ _ _ _ MS_minv U c1 lc1 c2 lc2 (win_winl _ _ _ _ _ _ _ W1) (win_winl _ _ _ _ _ _ _ W2)).
    Qed.

    Lemma committedM_kept T P U c l : committedM G A T P -> In (U, c, l) G -> T < U -> keeps l P.
    Proof.
      intros [L [C [Hcm Pf]]] R HT. pose proof (MS_leader_completeness U c l T L (length P) C Hcm R HT) as K.
      assert (E : firstn (length P) L = P).
      { destruct Pf as [x Hx]. rewrite Hx. rewrite firstn_app, firstn_all, Nat.sub_diag. simpl. apply app_nil_r. }
      rewrite E in K. exact K.
    Qed.
  End State.
End Safety.
