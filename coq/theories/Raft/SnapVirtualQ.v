(* Raft/SnapVirtualQ.v — round 10: the definitions of Raft/SnapVirtual.v over the virtual nodes of Raft/LogMatchNodeSQ.v (generated).
   Raft/SnapVirtual.v — round 5: the VIRTUAL system of a system whose nodes hold snapshots.
   Every node is replaced by its virtual node (Raft/LogMatchNodeS.v: logical log = ghost prefix ++ physical log, no snapshot,
   InstallSnapshot messages dropped); the soup is a ghost list holding the real soup's other messages plus injected AppEnts
   (the stand-ins for delivered InstallSnapshots). The snapshot-free invariants of Raft/LogMatch.v ..
   Raft/CompletenessCommit.v are maintained on the virtual system through their abstract step lemmas. *)
From Coq Require Import List NArith ZArith Bool Lia ZifyN ZifyNat ZifyBool.
From BLB Require Import Lib.LTS Raft.Core Raft.Wire Raft.NodeProofs Raft.NodeKeep Raft.NodeElect Raft.NodeConf
  Raft.Election Raft.ElectionFixed Raft.LogMatchLists Raft.CommitCount Raft.LogMatchNodeQ Raft.LogMatch Raft.SnapContig Raft.LogMatchNodeSQ.
Import ListNotations.
Open Scope N_scope.

Definition ghost := nid -> list entry.

Definition vnode (Cf : ghost) (s : node) : node := vn (Cf (n_id s)) s.

(* S is the virtual soup (ghost): it contains every non-InstallSnapshot message of the real soup, and stand-ins *)
Definition vsys (Cf : ghost) (S : list msg) (σ : sys) : sys :=
  {| sy_nodes := map (vnode Cf) (sy_nodes σ); sy_soup := S; sy_cast := sy_cast σ; sy_hist := sy_hist σ |}.

Lemma vnode_id Cf s : n_id (vnode Cf s) = n_id s.
Proof. reflexivity. Qed.

Lemma get_node_vsys Cf i c : get_node i (map (vnode Cf) c) = option_map (vnode Cf) (get_node i c).
Proof.
  induction c as [| s r IH]; simpl; [reflexivity|]. destruct (n_id s =? i); [reflexivity | exact IH].
Qed.

Lemma get_node_vsys_some Cf i c v : get_node i (map (vnode Cf) c) = Some v -> exists s, get_node i c = Some s /\ v = vnode Cf s.
Proof.
  rewrite get_node_vsys. destruct (get_node i c) as [s |]; simpl; [| discriminate]. intro H. inversion H. eauto.
Qed.

Lemma ids_vsys Cf c : map n_id (map (vnode Cf) c) = map n_id c.
Proof. rewrite map_map. apply map_ext. intro s. reflexivity. Qed.

(* replacing node s' whose ghost prefix becomes C' *)
Definition gset (Cf : ghost) (i : nid) (C' : list entry) : ghost := fun j => if j =? i then C' else Cf j.

Lemma put_node_vsys Cf s' C' c :
  NoDup (map n_id c) ->
  put_node (vn C' s') (map (vnode Cf) c) = map (vnode (gset Cf (n_id s') C')) (put_node s' c).
Proof.
  induction c as [| x r IH]; intros Hn; simpl; [reflexivity|]. inversion Hn as [| ? ? Hx Hr]; subst.
  destruct (n_id x =? n_id s') eqn:E.
  - simpl. f_equal.
    + unfold vnode, gset. rewrite N.eqb_refl. reflexivity.
    + apply N.eqb_eq in E. apply map_ext_in. intros y Hy. unfold vnode, gset.
      destruct (n_id y =? n_id s') eqn:Ey; [| reflexivity]. apply N.eqb_eq in Ey. exfalso. apply Hx. rewrite E, <- Ey. apply in_map. exact Hy.
  - simpl. f_equal; [| apply IH; exact Hr]. unfold vnode, gset. rewrite E. reflexivity.
Qed.


(* ---------------------------------------------------------------- messages of a virtual node *)
Lemma stamp_vn C s m : stamp_msg (vn C s) m = stamp_msg s m.
Proof. reflexivity. Qed.

Lemma img_stamp s m : img (stamp_msg s m) = stamp_msg s (img m).
Proof. reflexivity. Qed.

Lemma out_msgs_vn_in C s m' : In m' (out_msgs (vn C s)) <-> exists m, In m (out_msgs s) /\ m' = img m.
Proof.
  unfold out_msgs. rewrite in_sort_by_to, in_map_iff. split.
  - intros [m0 [E H]]. simpl in H. apply in_map_iff in H. destruct H as [m1 [E1 H1]].
    exists (stamp_msg s m1). split; [rewrite in_sort_by_to; apply in_map; exact H1|].
    rewrite <- E, <- E1. rewrite stamp_vn. symmetry. apply img_stamp.
  - intros [m [H E]]. rewrite in_sort_by_to, in_map_iff in H. destruct H as [m1 [E1 H1]].
    exists (img m1). split; [rewrite stamp_vn, <- img_stamp, E1; symmetry; exact E | simpl; apply in_map; exact H1].
Qed.

Lemma step_vsys Cf S σ s' C' :
  NoDup (map n_id (sy_nodes σ)) ->
  step_sys (vsys Cf S σ) (vn C' s') = vsys (gset Cf (n_id s') C') (S ++ out_msgs (vn C' s')) (step_sys σ s').
Proof.
  intro Hn. unfold step_sys, vsys. simpl. f_equal. apply put_node_vsys. exact Hn.
Qed.

(* ---------------------------------------------------------------- the abstract node step of a virtual node, from a real run *)
Lemma msgs_ok_vn C s : msgs_ok s -> msgs_ok (vn C s).
Proof.
  unfold msgs_ok. rewrite !Forall_forall. intros H m Hm. simpl in Hm. apply in_map_iff in Hm. destruct Hm as [m1 [E H1]]. subst m.
  destruct (H m1 H1) as [X [Y Z]]. unfold msg_ok. simpl. split; [exact X|]. split; [exact Y|].
  intro Hb. apply Z. destruct (m_body m1); simpl in Hb; try discriminate; auto.
Qed.

