(* Raft/NodeKeepR.v — round 7: the pass of NodeKeep.v once more (generated from NodeKeepV.v), message clause: the handlers of a
   leader and a candidate, commit and trim emit no AppEntsResp (only handleAppEnts / handleSnapshot do, and they leave a follower). *)
From Coq Require Import List NArith ZArith Bool Lia.
From BLB Require Import Raft.Core Raft.NodeProofs Raft.NodeKeep.
Import ListNotations.
Open Scope N_scope.

Definition nvqR (b : mbody) : Prop := forall su i h, b <> AppEntsResp su i h.

Definition okmsgR (s : node) (m : msg) : Prop :=
  m_term m = p_term (n_p s) /\ m_from m = n_id s /\ nvqR (m_body m).

Definition keepR (s s' : node) : Prop :=
  p_term (n_p s') = p_term (n_p s) /\ p_vote (n_p s') = p_vote (n_p s) /\ n_id s' = n_id s /\
  c_votes s' = c_votes s /\ (n_role s' = n_role s \/ n_role s' = Follower) /\
  exists new, n_msgs s' = n_msgs s ++ new /\ Forall (okmsgR s) new.

Lemma okmsgR_same s s' m :
  p_term (n_p s') = p_term (n_p s) -> n_id s' = n_id s -> okmsgR s' m -> okmsgR s m.
Proof. unfold okmsgR. intros A B [C [D E]]. rewrite <- A, <- B. auto. Qed.

Lemma keepR_refl s : keepR s s.
Proof. unfold keepR. repeat split; auto. exists []. rewrite app_nil_r. auto. Qed.

Lemma keepR_trans a b c : keepR a b -> keepR b c -> keepR a c.
Proof.
  unfold keepR. intros [A1 [A2 [A3 [A4 [A5 [n1 [A6 A7]]]]]]] [B1 [B2 [B3 [B4 [B5 [n2 [B6 B7]]]]]]].
  repeat split; try congruence.
  - destruct B5 as [B5 | B5]; [rewrite B5; exact A5 | right; exact B5].
  - exists (n1 ++ n2). split; [rewrite B6, A6, app_assoc; reflexivity|].
    apply Forall_app. split; auto. eapply Forall_impl; [| exact B7]. intros m Hm. eapply okmsgR_same; eauto.
Qed.

Lemma keepR_vol s s' :
  n_p s' = n_p s -> n_id s' = n_id s -> c_votes s' = c_votes s ->
  (n_role s' = n_role s \/ n_role s' = Follower) -> n_msgs s' = n_msgs s -> keepR s s'.
Proof.
  intros A B C D E. unfold keepR. rewrite A. repeat split; auto. exists []. rewrite app_nil_r. auto.
Qed.

Lemma keepR_send s to b : nvqR b -> keepR s (send s to b).
Proof.
  intro H. unfold keepR, send. simpl. repeat split; auto. eexists. split; [reflexivity|].
  constructor; [| constructor]. unfold okmsgR. simpl. auto.
Qed.

Lemma keepR_send_vol s s' to b :
  n_msgs s' = n_msgs (send s to b) -> nvqR b ->
  n_p s' = n_p s -> n_id s' = n_id s -> c_votes s' = c_votes s ->
  (n_role s' = n_role s \/ n_role s' = Follower) -> keepR s s'.
Proof.
  intros M H A B C D. eapply keepR_trans; [apply (keepR_send s to b H)|].
  apply keepR_vol; auto.
Qed.

Definition kxR (s : node) (r : R node) : Prop := match r with Ret s' => keepR s s' | _ => True end.
Definition kxR2 (s : node) (r : R (N * node)) : Prop := match r with Ret (_, s') => keepR s s' | _ => True end.

Lemma kxR_bind s (a : R node) (f : node -> R node) :
  kxR s a -> (forall s1, kxR s1 (f s1)) -> kxR s (bind a f).
Proof.
  intros Ha Hf. destruct a as [s1 | c | p]; simpl in *; auto.
  specialize (Hf s1). destruct (f s1); simpl in *; auto. eapply keepR_trans; eauto.
Qed.

Lemma kxR_bind_pure {A} s (a : R A) (f : A -> R node) :
  (forall x, a = Ret x -> kxR s (f x)) -> kxR s (bind a f).
Proof. intros Hf. destruct a; simpl in *; auto. Qed.

Lemma kxR_pre s s' r : keepR s s' -> kxR s' r -> kxR s r.
Proof. intros H K. destruct r; simpl in *; auto. eapply keepR_trans; eauto. Qed.

Lemma kxR2_bind s (a : R node) (f : node -> R (N * node)) :
  kxR s a -> (forall s1, kxR2 s1 (f s1)) -> kxR2 s (bind a f).
Proof.
  intros Ha Hf. destruct a as [s1 | c | p]; simpl in *; auto.
  specialize (Hf s1). destruct (f s1) as [[st s2] | |]; simpl in *; auto. eapply keepR_trans; eauto.
Qed.

Lemma kxR2_bind_pure {A} s (a : R A) (f : A -> R (N * node)) :
  (forall x, a = Ret x -> kxR2 s (f x)) -> kxR2 s (bind a f).
Proof. intros Hf. destruct a; simpl in *; auto. Qed.

Lemma kxR2_pre s s' r : keepR s s' -> kxR2 s' r -> kxR2 s r.
Proof. intros H K. destruct r as [[st x] | |]; simpl in *; auto. eapply keepR_trans; eauto. Qed.

Lemma kxR2_of_kx s r st : kxR s r -> kxR2 s (s1 <- r ;; Ret (st, s1)).
Proof. destruct r; simpl; auto. Qed.

Ltac kvolR := apply keepR_vol; simpl; auto.
Ltac ksendR := eapply keepR_send_vol; [simpl; reflexivity | first [solve [intros; discriminate] | eassumption] | simpl; auto ..].
Ltac kleafR := simpl; first [ solve [kvolR] | solve [ksendR] ].

Lemma kxR_do_mut s m :
  match m with MSaveState _ _ | MSetVote _ => False | _ => True end -> kxR s (do_mut m s).
Proof.
  intro H. unfold do_mut. destruct (negb (n_budget s =? 0) && (n_budget s =? n_cnt s + 1)); simpl; auto.
  unfold keepR. simpl. destruct m; try contradiction; simpl; repeat split; auto; exists []; rewrite app_nil_r; auto.
Qed.

(* ---------------------------------------------------------------- handlers *)
Lemma kxR_log_append s es : kxR s (log_append s es).
Proof.
  unfold log_append. apply kxR_bind; [apply kxR_do_mut; exact I|].
  intros s1. destruct (snd (mem_append (p_log (n_p s)) es)); simpl; auto using keepR_refl.
Qed.

Lemma kxR_commit_up_to s i : kxR s (commit_up_to s i).
Proof.
  unfold commit_up_to.
  match goal with |- kxR s (match ?x with _ => _ end) => destruct x end.
  - destruct (negb (sn_index s0 =? i)); simpl; auto. kvolR.
  - apply kxR_bind_pure. intros ents _.
    match goal with |- kxR s (if ?c then _ else _) => destruct c end; [| kleafR].
    match goal with |- kxR s (match ?x with _ => _ end) => destruct x eqn:E end; simpl; auto.
    eapply kxR_pre; [| apply kxR_do_mut; exact I]. kvolR.
Qed.

Lemma kxR_trim_log s i : kxR s (trim_log s i).
Proof.
  unfold trim_log. destruct (log_first (p_log (n_p s))); [| kleafR]. destruct (log_last (p_log (n_p s))); [| kleafR].
  destruct (i =? n - 1); [kleafR|]. destruct ((i <? n) || (n0 <? i)); simpl; auto.
  destruct (i - n <? cf_keep (n_cfg s)); [kleafR|]. apply kxR_do_mut; exact I.
Qed.

Lemma get_app_ents_bodyR s p b : get_app_ents s p = Ret (Some b) -> nvqR b.
Proof.
  unfold get_app_ents. destruct (negb (pr_next p =? pr_match p + 1)).
  - destruct (st_term (n_p s) (pr_next p - 1)) as [[pt ok] | |]; simpl; try discriminate.
    destruct (negb ok); intro E; inversion E; (intros; discriminate).
  - destruct (pr_match p =? last_index (n_p s)).
    + destruct (st_term (n_p s) (pr_match p)) as [[pt ok] | |]; simpl; try discriminate.
      destruct (negb ok); intro E; inversion E; (intros; discriminate).
    + destruct (get_log_entries (n_p s) (pr_match p + 1)
                  (N.min (last_index (n_p s) + 1) (pr_match p + 1 + cf_max_ents (n_cfg s)))) as [[[pt es] ok] | |];
        simpl; try discriminate.
      destruct (negb ok); intro E; inversion E; (intros; discriminate).
Qed.

Lemma kxR_send_app_ents s p : kxR s (send_app_ents s p).
Proof.
  unfold send_app_ents. apply kxR_bind_pure. intros ob Hob.
  destruct ob as [b |].
  - apply get_app_ents_bodyR in Hob. simpl. ksendR.
  - destruct (p_snap (n_p s)); simpl; auto. destruct (sn_conf s0); simpl; auto. ksendR.
Qed.

Lemma kxR_for_peers ids f s :
  (forall s1 p, kxR s1 (f s1 p)) -> kxR s (for_peers ids f s).
Proof.
  intro Hf. revert s. induction ids as [| id r IH]; intros s; simpl.
  - apply keepR_refl.
  - destruct (peer_get id (l_peers s)); auto. apply kxR_bind; auto.
Qed.

Lemma kxR_leader_commit_up_to s i : kxR s (leader_commit_up_to s i).
Proof.
  unfold leader_commit_up_to. apply kxR_bind; [apply kxR_commit_up_to|]. intros s1.
  match goal with |- kxR s1 (if ?c then _ else _) => destruct c end; kleafR.
Qed.

Lemma kxR_leader_maybe_commit s : kxR s (leader_maybe_commit s).
Proof.
  unfold leader_maybe_commit. apply kxR_bind_pure. intros mi _.
  destruct (n_commit s <? mi); [| kleafR].
  apply kxR_bind_pure. intros [t ok] _.
  destruct (negb ok); simpl; auto. destruct (negb (t =? p_term (n_p s))); [kleafR|].
  apply kxR_bind; [apply kxR_leader_commit_up_to|]. intros s1.
  apply kxR_for_peers. intros s2 p. destruct (pr_match p =? last_index (n_p s2)); [apply kxR_send_app_ents | kleafR].
Qed.

Lemma kxR_fold_enter (others : list nid) li : forall (acc : R node) s,
  kxR s acc ->
  kxR s (fold_left (fun (acc : R node) (m : nid) =>
                     a <- acc ;;
                     let p := mk_peer m (li + 1) 0 false 0 0 in
                     let a1 := set_leader a (l_check a) (peer_set p (l_peers a)) in
                     send_app_ents a1 p) others acc).
Proof.
  induction others as [| m r IH]; intros acc s H; simpl; auto.
  apply IH. apply kxR_bind; auto. intros s1.
  eapply kxR_pre; [| apply kxR_send_app_ents]. kvolR.
Qed.

Lemma kxR_enter_leader s : kxR s (enter_leader s).
Proof.
  unfold enter_leader. destruct (n_conf s); simpl; auto.
  apply kxR_bind.
  - apply kxR_fold_enter. kleafR.
  - intros s1. destruct (l_peers s1); [apply kxR_leader_maybe_commit | kleafR].
Qed.

Lemma kxR_tick_leader s : kxR s (tick_leader s).
Proof.
  unfold tick_leader. apply kxR_bind.
  - apply kxR_for_peers. intros s2 p. destruct (should_send s2 p); [apply kxR_send_app_ents | kleafR].
  - intros s1.
    match goal with |- kxR s1 (if ?c then _ else _) => destruct c end; [| kleafR].
    apply kxR_bind_pure. intros ok _. destruct ok; kleafR.
Qed.

Lemma kxR_handle_app_ents_resp s from su ix hi : kxR s (handle_app_ents_resp s from su ix hi).
Proof.
  unfold handle_app_ents_resp. destruct (peer_get from (l_peers s)); [| kleafR].
  destruct (ix <? pr_match p); [kleafR|]. destruct (negb su).
  - eapply kxR_pre; [| apply kxR_send_app_ents]. kvolR.
  - match goal with |- kxR s (if ?c then _ else _) => destruct c end; simpl; auto.
    apply kxR_bind.
    + match goal with |- kxR s (if ?c then _ else _) => destruct c end.
      * eapply kxR_pre; [| apply kxR_send_app_ents]. kvolR.
      * kleafR.
    + intros s2. apply kxR_leader_maybe_commit.
Qed.

Lemma kxR_leader_propose s es : kxR s (leader_propose s es).
Proof.
  unfold leader_propose. apply kxR_bind; [apply kxR_log_append|]. intros s1.
  apply kxR_bind.
  - apply kxR_for_peers. intros s3 p.
    match goal with |- kxR s3 (if ?c then _ else _) => destruct c end; [apply kxR_send_app_ents | kleafR].
  - intros s2. destruct (l_peers s2); [apply kxR_leader_maybe_commit | kleafR].
Qed.

Lemma kxR2_leader_add_node s m rnd : kxR2 s (leader_add_node s m rnd).
Proof.
  unfold leader_add_node. apply kxR2_bind_pure. intros _ _.
  destruct (n_conf s); simpl; auto.
  destruct (memb m (mb_members m0)); [simpl; apply keepR_refl|].
  destruct (negb (latest_conf_committed s)); [simpl; apply keepR_refl|].
  eapply kxR2_pre; [| apply kxR2_of_kx; apply kxR_leader_propose]. kvolR.
Qed.

Lemma kxR2_leader_remove_node s m : kxR2 s (leader_remove_node s m).
Proof.
  unfold leader_remove_node. apply kxR2_bind_pure. intros _ _.
  destruct (n_conf s); simpl; auto.
  destruct (negb (memb m (mb_members m0))); [simpl; apply keepR_refl|].
  destruct (negb (latest_conf_committed s)); [simpl; apply keepR_refl|].
  eapply kxR2_pre; [| apply kxR2_bind; [apply kxR_leader_propose |]].
  - kvolR.
  - intros s3. apply kxR2_of_kx. apply kxR_leader_maybe_commit.
Qed.

Lemma kxR_handle_leader s m : kxR s (handle_leader s m).
Proof.
  unfold handle_leader. destruct (m_body m).
  - exact I.
  - apply kxR_handle_app_ents_resp.
  - kleafR.
  - kleafR.
  - exact I.
Qed.

Lemma kxR_follower_maybe_commit s lc mi : kxR s (follower_maybe_commit s lc mi).
Proof. unfold follower_maybe_commit. destruct (n_commit s <? N.min mi lc); [apply kxR_commit_up_to | kleafR]. Qed.

Lemma fold_conf_keepR (app : list entry) : forall s,
  keepR s (fold_left (fun a e => if e_type e =? EntryConf then set_conf a (decode_conf e) else a) app s).
Proof.
  induction app as [| e r IH]; intros s; simpl; [apply keepR_refl|].
  destruct (e_type e =? EntryConf); [| apply IH].
  eapply keepR_trans; [| apply IH]. kvolR.
Qed.

Lemma kxR_snapshot_done s m : kxR s (snapshot_done s m).
Proof.
  unfold snapshot_done.
  match goal with |- kxR s (if ?c then _ else _) => destruct c end; [kleafR|].
  apply kxR_bind; [apply kxR_do_mut; exact I | intros; apply kxR_trim_log].
Qed.

Lemma kxR2_propose s es : kxR2 s (propose s es).
Proof.
  unfold propose. destruct (n_role s); try (simpl; apply keepR_refl).
  apply kxR2_of_kx. apply kxR_leader_propose.
Qed.

Lemma kxR2_add_node s m rnd : kxR2 s (add_node s m rnd).
Proof. unfold add_node. destruct (n_role s); try (simpl; apply keepR_refl). apply kxR2_leader_add_node. Qed.

Lemma kxR2_remove_node s m : kxR2 s (remove_node s m).
Proof. unfold remove_node. destruct (n_role s); try (simpl; apply keepR_refl). apply kxR2_leader_remove_node. Qed.
