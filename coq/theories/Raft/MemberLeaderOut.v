(* Raft/MemberLeaderOut.v — round 7: two small facts about a node that ENDS an event as leader, crash variants included:
   R1  its outbox holds no AppEntsResp (only a follower acknowledges);
   R2  if the event delivered an AppEnts of the node's final term, the commit index did not move
       (a leader / candidate of that term does not process it; a dropped message changes nothing). *)
From Coq Require Import List NArith ZArith Bool Lia ZifyN ZifyNat ZifyBool.
From BLB Require Import Raft.Core Raft.NodeProofs Raft.NodeKeep Raft.NodeKeepV Raft.NodeKeepR Raft.NodeElect
  Raft.MemberNode Raft.MemberConfStep Raft.MemberPeers.
Import ListNotations.
Open Scope N_scope.

Definition noresp (s : node) : Prop := forall m, In m (n_msgs s) -> nvqR (m_body m).

Lemma keepR_noresp s s' : n_msgs s = [] -> keepR s s' -> noresp s'.
Proof.
  intros Hm [_ [_ [_ [_ [_ [new [F G]]]]]]] r Hin. rewrite Hm in F. simpl in F. rewrite F in Hin.
  rewrite Forall_forall in G. destruct (G r Hin) as [_ [_ X]]. exact X.
Qed.

Lemma noresp_nil s : n_msgs s = [] -> noresp s.
Proof. intros H m Hin. rewrite H in Hin. contradiction. Qed.

Lemma check_if_elected_R x s' : check_if_elected x = Ret s' -> s' = x \/ keepR (set_role x Leader (n_id x) 0) s'.
Proof.
  unfold check_if_elected. destruct (n_conf x); [| discriminate].
  destruct (quorum m <=? N.of_nat (length (c_votes x))).
  - unfold become_leader. intro H. right. pose proof (kxR_enter_leader (set_role x Leader (n_id x) 0)) as K. rewrite H in K. exact K.
  - intro H. inversion H. auto.
Qed.

Lemma enter_candidate_R x s' : n_msgs x = [] -> enter_candidate x = Ret s' -> noresp s'.
Proof.
  intros Hm. unfold enter_candidate.
  destruct (negb (in_latest_conf x) && latest_conf_committed x).
  { intro H. inversion H. subst. apply noresp_nil. simpl. exact Hm. }
  unfold do_mut at 1. simpl.
  destruct (negb (n_budget x =? 0) && (n_budget x =? n_cnt x + 1)); simpl; [discriminate|].
  match goal with |- context [bind (st_term (n_p ?s2) _) _] => set (x2 := s2) end.
  assert (M2 : n_msgs x2 = []).
  { unfold x2. match goal with |- context [if ?c then _ else _] => destruct c end; simpl; exact Hm. }
  destruct (st_term (n_p x2) (last_index (n_p x2))) as [[lt ok] | |]; simpl; try discriminate.
  destruct (negb ok); [discriminate|].
  destruct (n_conf x2) as [c |] eqn:Ec; [| discriminate].
  intro H. apply check_if_elected_R in H.
  match type of H with _ \/ keepR (set_role (set_candidate ?f _ _) _ _ _) _ => set (x3 := f) in * end.
  assert (M3 : forall r, In r (n_msgs x3) -> nvqR (m_body r)).
  { intros r Hin. apply fold_send_msgs in Hin. destruct Hin as [Hin | [Hb _]]; [rewrite M2 in Hin; contradiction|].
    rewrite Hb. intros su i h. discriminate. }
  destruct H as [H | K].
  - subst s'. exact M3.
  - destruct K as [_ [_ [_ [_ [_ [new [F G]]]]]]]. simpl in F. intros r Hin. rewrite F in Hin.
    apply in_app_or in Hin. destruct Hin as [Hin | Hin]; [apply M3; exact Hin|].
    rewrite Forall_forall in G. destruct (G r Hin) as [_ [_ X]]. exact X.
Qed.

Lemma run_event_noresp s ev st s' :
  n_msgs s = [] -> run_event s ev = Ret (st, s') -> n_role s' = Leader -> noresp s'.
Proof.
  intros Hm H Hl. revert H. destruct ev; simpl.
  - unfold propose_initial_membership. destruct (n_role s) eqn:Er.
    2,3: intro H; inversion H; subst; apply noresp_nil; exact Hm.
    destruct (is_clean (n_p s)).
    2: intro H; inversion H; subst; apply noresp_nil; exact Hm.
    unfold do_mut at 1. destruct (negb (n_budget s =? 0) && (n_budget s =? n_cnt s + 1)); simpl; [discriminate|].
    unfold log_append. unfold do_mut. simpl.
    match goal with |- context [if ?c then _ else _] => destruct c end; simpl; [discriminate|].
    match goal with |- context [if ?c then _ else _] => destruct c end; simpl; [| discriminate].
    intro H. inversion H. subst. apply noresp_nil. simpl. exact Hm.
  - unfold wrap0. destruct (handle_msg s m) as [x | |] eqn:E; simpl; try discriminate.
    intro H. inversion H. subst.
    destruct (handle_msg_shape s m s' Hm E) as [L | [[F _] | [[s1 [L [R Hc]]] | [s1 [L [R Hld]]]]]].
    + apply noresp_nil. destruct L as [_ [_ [_ [_ [L _]]]]]. congruence.
    + congruence.
    + assert (M1 : n_msgs s1 = []) by (destruct L as [_ [_ [_ [_ [L _]]]]]; congruence).
      revert Hc. unfold handle_candidate. destruct (m_body m).
      * intro X. inversion X. subst. simpl in Hl. discriminate.
      * discriminate.
      * intro X. inversion X. subst. simpl in Hl. congruence.
      * destruct granted.
        -- intro X. apply check_if_elected_R in X. destruct X as [X | X].
           ++ subst s'. apply noresp_nil. simpl. exact M1.
           ++ eapply keepR_noresp; [| exact X]. simpl. exact M1.
        -- intro X. inversion X. subst. apply noresp_nil. exact M1.
      * intro X. inversion X. subst. simpl in Hl. discriminate.
    + assert (M1 : n_msgs s1 = []) by (destruct L as [_ [_ [_ [_ [L _]]]]]; congruence).
      pose proof (kxR_handle_leader s1 m) as K. rewrite Hld in K. simpl in K. eapply keepR_noresp; eauto.
  - unfold wrap0. destruct (tick s) as [x | |] eqn:E; simpl; try discriminate.
    intro H. inversion H. subst. revert E. unfold tick.
    set (s0 := set_elapsed s ((n_elapsed s + 1) mod 4294967296)).
    destruct (n_role s0) eqn:Er.
    + destruct (f_timeout s0 <=? sub32 (n_elapsed s0) (f_contact s0)).
      * unfold become_candidate. intro E. eapply enter_candidate_R; [| exact E]. simpl. exact Hm.
      * intro E. inversion E. subst. apply noresp_nil. simpl. exact Hm.
    + destruct (c_timeout s0 <=? n_elapsed s0).
      * unfold become_candidate. intro E. eapply enter_candidate_R; [| exact E]. simpl. exact Hm.
      * intro E. inversion E. subst. apply noresp_nil. simpl. exact Hm.
    + intro E. pose proof (kxR_tick_leader s0) as K. rewrite E in K. simpl in K. eapply keepR_noresp; [| exact K]. simpl. exact Hm.
  - intro H. pose proof (kxR2_propose s es) as K. rewrite H in K. eapply keepR_noresp; eauto.
  - intro H. pose proof (kxR2_add_node s member rnd) as K. rewrite H in K. eapply keepR_noresp; eauto.
  - intro H. pose proof (kxR2_remove_node s member) as K. rewrite H in K. eapply keepR_noresp; eauto.
  - unfold wrap0. destruct (snapshot_done s m) as [x | |] eqn:E; simpl; try discriminate.
    intro H. inversion H. subst. pose proof (kxR_snapshot_done s m) as K. rewrite E in K. eapply keepR_noresp; eauto.
  - unfold wrap0. pose proof (new_core_pext (n_id s) (n_cfg s) (n_p s)) as P.
    destruct (new_core (n_id s) (n_cfg s) (n_p s)) as [x | |]; simpl; try discriminate.
    intro H. inversion H. subst. destruct P as [_ [_ [_ [Rl _]]]]. congruence.
Qed.

Theorem leader_outbox_has_no_ack s ev k crashed st s' :
  run_event_crash (settle s) ev k = Ret (crashed, st, s') -> n_role s' = Leader -> noresp s'.
Proof.
  unfold run_event_crash.
  destruct (run_event (with_budget (settle s) k) ev) as [[st0 x] | c | p] eqn:E; try discriminate.
  - intro H. inversion H. subst. intro Hl. exact (run_event_noresp (with_budget (settle s) k) ev st x eq_refl E Hl).
  - pose proof (new_core_pext (n_id (settle s)) (n_cfg (settle s)) p) as Q.
    destruct (new_core (n_id (settle s)) (n_cfg (settle s)) p) as [s2 | c | q]; simpl; try discriminate.
    intro H. inversion H. subst. destruct Q as [_ [_ [_ [Rl _]]]]. intro X. congruence.
Qed.

(* R2 *)
Lemma deliver_appents_leader_commit s m s' pi pt cm oe :
  n_msgs s = [] -> handle_msg s m = Ret s' -> m_body m = AppEnts pi pt cm oe -> n_role s' = Leader -> n_commit s' = n_commit s.
Proof.
  intros Hm H Hb Hl.
  destruct (handle_msg_shape s m s' Hm H) as [L | [[F _] | [[s1 [L [R Hc]]] | [s1 [L [R Hld]]]]]].
  - destruct L as [_ [_ [_ [_ [_ [L _]]]]]]. exact L.
  - congruence.
  - exfalso. revert Hc. unfold handle_candidate. rewrite Hb. intro X. inversion X. subst. simpl in Hl. discriminate.
  - exfalso. revert Hld. unfold handle_leader. rewrite Hb. discriminate.
Qed.

Theorem leader_ignores_appents s m k crashed st s' pi pt cm oe :
  run_event_crash (settle s) (EDeliver m) k = Ret (crashed, st, s') -> m_body m = AppEnts pi pt cm oe ->
  n_role s' = Leader -> n_commit s' = n_commit s.
Proof.
  unfold run_event_crash. simpl. unfold wrap0.
  destruct (handle_msg (with_budget (settle s) k) m) as [x | c | p] eqn:E; simpl; try discriminate.
  - intro H. inversion H. subst. intros Hb Hl. simpl in Hl.
    exact (deliver_appents_leader_commit (with_budget (settle s) k) m x pi pt cm oe eq_refl E Hb Hl).
  - pose proof (new_core_pext (n_id s) (n_cfg s) p) as Q.
    destruct (new_core (n_id s) (n_cfg s) p) as [s2 | c | q]; simpl; try discriminate.
    intro H. inversion H. subst. destruct Q as [_ [_ [_ [Rl _]]]]. intros _ X. congruence.
Qed.
