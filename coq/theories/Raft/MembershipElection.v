(* Raft/MembershipElection.v — election safety across AddNode / RemoveNode for the changes that keep the quorum size:
   in a system of 2k+1 nodes every configuration a node holds has 2k or 2k+1 members (quorum k+1 either way), and the
   schedule is otherwise unrestricted (AddNode, RemoveNode, snapshots, restarts, crashes after any durable mutation).
   This is an instance of Raft/Election.v's theorem, whose side condition compares quorum sizes, not member counts.
   OPEN: the changes 2k-1 <-> 2k members, where the quorum size itself changes. *)
From Coq Require Import List NArith ZArith Bool Lia ZifyN ZifyNat ZifyBool.
From BLB Require Import Lib.LTS Raft.Core Raft.Wire Raft.Election.
Import ListNotations.
Open Scope N_scope.

Definition conf_near (k : nat) (s : node) : Prop :=
  forall c, n_conf s = Some c -> length (mb_members c) = (2 * k)%nat \/ length (mb_members c) = (2 * k + 1)%nat.

Lemma half_even (k : nat) : N.of_nat (2 * k) / 2 = N.of_nat k.
Proof. symmetry. apply N.div_unique with (r := 0); lia. Qed.

Lemma half_odd (k : nat) : N.of_nat (2 * k + 1) / 2 = N.of_nat k.
Proof. symmetry. apply N.div_unique with (r := 1); lia. Qed.

Lemma conf_near_okq k s : conf_near k s -> conf_okq (N.of_nat k + 1) s.
Proof.
  intros H c Hc. unfold quorum. destruct (H c Hc) as [E | E]; rewrite E.
  - rewrite half_even. reflexivity.
  - rewrite half_odd. reflexivity.
Qed.

Inductive mstep (k : nat) : sys -> sys_event -> sys -> Prop :=
| MStep : forall σ i s ev k0 crashed st s',
    get_node i (sy_nodes σ) = Some s ->
    (forall m, ev = EDeliver m -> In m (sy_soup σ) /\ m_to m <> 0) ->
    run_event_crash (settle s) ev k0 = Ret (crashed, st, s') ->
    conf_near k s' ->
    mstep k σ (i, ev, k0)
      {| sy_nodes := put_node s' (sy_nodes σ); sy_soup := sy_soup σ ++ out_msgs s';
         sy_cast := sy_cast σ ++ cast_of s'; sy_hist := sy_hist σ ++ hist_of s' |}.

Definition minit (k : nat) (σ : sys) : Prop :=
  NoDup (map n_id (sy_nodes σ)) /\ length (sy_nodes σ) = (2 * k + 1)%nat /\
  (forall s, In s (sy_nodes σ) -> n_id s <> 0 /\ n_role s = Follower /\ conf_near k s) /\
  sy_soup σ = [] /\ sy_cast σ = [] /\ sy_hist σ = [].

Lemma mstep_sstep k σ e σ' : mstep k σ e σ' -> sstep (N.of_nat k + 1) σ e σ'.
Proof.
  intros H. destruct H. eapply SStep; eauto. apply conf_near_okq. assumption.
Qed.

Lemma mrun_srun k σ es σ' : run sys sys_event (mstep k) σ es σ' -> run sys sys_event (sstep (N.of_nat k + 1)) σ es σ'.
Proof.
  intros H. induction H; [apply run_nil|]. eapply run_cons; eauto. apply mstep_sstep. assumption.
Qed.

Lemma mstep_length k σ e σ' : mstep k σ e σ' -> length (sy_nodes σ') = length (sy_nodes σ).
Proof.
  intros H. destruct H. simpl. clear. induction (sy_nodes σ) as [| x r IH]; simpl; [reflexivity|].
  destruct (n_id x =? n_id s'); simpl; congruence.
Qed.

Theorem election_safety_near_sys k σ0 σ sched :
  minit k σ0 -> run sys sys_event (mstep k) σ0 sched σ ->
  forall t a b, In (t, a) (sy_hist σ) -> In (t, b) (sy_hist σ) -> a = b.
Proof.
  intros [ND [Len [Hn [S0 [C0 H0]]]]] Hrun.
  assert (Q : quorum_of (map n_id (sy_nodes σ0)) = N.of_nat k + 1).
  { unfold quorum_of. rewrite map_length, Len, half_odd. reflexivity. }
  apply (election_safety_sys σ0 σ sched).
  - rewrite Q. split; [exact ND|]. split; [|auto].
    intros s Hs. destruct (Hn s Hs) as [A [B C]]. split; [exact A|]. split; [exact B|]. apply conf_near_okq. exact C.
  - rewrite Q. apply mrun_srun. exact Hrun.
Qed.
