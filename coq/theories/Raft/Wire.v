(* Raft/Wire.v — the integer-line codec between the Go simulation (go/C02/zz_verif_raftsim_test.go) and Raft/Core.v,
   and [run_case]: ops of one case -> predicted observation lines.  Shared by C02 and C07 (same simulation, same wire).
   ops:  0 N followerTO candTO hbTO stepdownTO snapTO maxEnts keep guid_1..guid_N        (init; obs = [0])
         1 node epoch nm members..          Bootstrap (proposeInitialMembership)
         2 node <msg>                       Deliver (HandleMsg)
         3 node                             Tick
         4 node n (type cmd)*               Propose
         5 node member rnd                  AddNode          6 node member   RemoveNode
         7 node lastIndex lastTerm <mptr>   SnapshotDone (fsmSnapshotDone)
         8 node                             Restart (newCore on the persistent state)
         9 node k <op>    what-if: crash right after the k-th durable mutation of <op>, then newCore; main line unchanged
        10 node k <op>    the same crash for real
   obs:  status <projection> nmsgs msgs.. ncommits commits..   |  666 code (log.Fatalf / panic)
         for 9/10 the line is prefixed by the flag "crashed". *)
From Coq Require Import List NArith ZArith Bool.
From BLB Require Import Raft.Core.
Import ListNotations.
Open Scope N_scope.

Definition zn (z : Z) : N := Z.to_N z.
Definition nz (n : N) : Z := Z.of_N n.
Definition bz (b : bool) : Z := if b then 1%Z else 0%Z.
Definition zb (z : Z) : bool := negb (Z.eqb z 0).

(* ---------------------------------------------------------------- decoding *)
Definition take_n (n : nat) (l : list Z) : option (list Z * list Z) :=
  if Nat.leb n (length l) then Some (firstn n l, skipn n l) else None.

Definition parse_counted (l : list Z) : option (list Z * list Z) :=
  match l with
  | n :: r => take_n (Z.to_nat n) r
  | [] => None
  end.

Definition parse_entry (l : list Z) : option (entry * list Z) :=
  match l with
  | t :: i :: ty :: r =>
      match parse_counted r with
      | Some (pl, rest) => Some ({| e_term := zn t; e_index := zn i; e_type := zn ty; e_pl := pl |}, rest)
      | None => None
      end
  | _ => None
  end.

Fixpoint parse_entries (n : nat) (l : list Z) : option (list entry * list Z) :=
  match n with
  | O => Some ([], l)
  | S k => match parse_entry l with
           | Some (e, r) => match parse_entries k r with
                            | Some (es, rest) => Some (e :: es, rest)
                            | None => None
                            end
           | None => None
           end
  end.

(* epoch nm members *)
Definition parse_members (idx term : N) (l : list Z) : option (membership * list Z) :=
  match l with
  | ep :: r => match parse_counted r with
               | Some (ms, rest) => Some ({| mb_members := map zn ms; mb_epoch := zn ep; mb_index := idx; mb_term := term |}, rest)
               | None => None
               end
  | [] => None
  end.

(* has index term epoch nm members *)
Definition parse_mptr (l : list Z) : option (option membership * list Z) :=
  match l with
  | 0%Z :: r => Some (None, r)
  | _ :: i :: t :: r => match parse_members (zn i) (zn t) r with
                        | Some (m, rest) => Some (Some m, rest)
                        | None => None
                        end
  | _ => None
  end.

Definition parse_msg (l : list Z) : option (msg * list Z) :=
  match l with
  | kind :: term :: from :: to :: fg :: tg :: ep :: r =>
      let mk b := {| m_term := zn term; m_from := zn from; m_to := zn to; m_fromg := zn fg; m_tog := zn tg; m_epoch := zn ep; m_body := b |} in
      match kind, r with
      | 1%Z, pi :: pt :: cm :: has :: n :: r1 =>
          match parse_entries (Z.to_nat n) r1 with
          | Some (es, rest) => Some (mk (AppEnts (zn pi) (zn pt) (zn cm) (if zb has then Some es else None)), rest)
          | None => None
          end
      | 2%Z, su :: ix :: hi :: rest => Some (mk (AppEntsResp (zb su) (zn ix) (zn hi)), rest)
      | 3%Z, li :: lt :: rest => Some (mk (VoteReq (zn li) (zn lt)), rest)
      | 4%Z, g :: rest => Some (mk (VoteResp (zb g)), rest)
      | 5%Z, li :: lt :: mi :: mt :: r1 =>
          match parse_members (zn mi) (zn mt) r1 with
          | Some (c, rest) => Some (mk (InstallSnap (zn li) (zn lt) c), rest)
          | None => None
          end
      | _, _ => None
      end
  | _ => None
  end.

Fixpoint parse_proposals (n : nat) (l : list Z) : option (list entry) :=
  match n, l with
  | O, [] => Some []
  | S k, ty :: c :: r =>
      match parse_proposals k r with
      | Some es => Some ({| e_term := 0; e_index := 0; e_type := zn ty;
                            e_pl := if Z.eqb c 0 then [] else [c] |} :: es)
      | None => None
      end
  | _, _ => None
  end.

(* an op line without crash prefix -> (node, event) *)
Definition parse_event (l : list Z) : option (N * event) :=
  match l with
  | 1%Z :: nd :: ep :: r =>
      match parse_counted r with
      | Some (ms, []) => Some (zn nd, EBootstrap (map zn ms) (zn ep))
      | _ => None
      end
  | 2%Z :: nd :: r =>
      match parse_msg r with
      | Some (m, []) => Some (zn nd, EDeliver m)
      | _ => None
      end
  | [3%Z; nd] => Some (zn nd, ETick)
  | 4%Z :: nd :: n :: r =>
      match parse_proposals (Z.to_nat n) r with
      | Some es => Some (zn nd, EPropose es)
      | None => None
      end
  | [5%Z; nd; m; rnd] => Some (zn nd, EAddNode (zn m) (zn rnd))
  | [6%Z; nd; m] => Some (zn nd, ERemoveNode (zn m))
  | 7%Z :: nd :: li :: lt :: r =>
      match parse_mptr r with
      | Some (c, []) => Some (zn nd, ESnapDone {| sn_index := zn li; sn_term := zn lt; sn_conf := c |})
      | _ => None
      end
  | [8%Z; nd] => Some (zn nd, ERestart)
  | _ => None
  end.

(* ---------------------------------------------------------------- encoding *)
Definition enc_counted (l : list Z) : list Z := Z.of_nat (length l) :: l.

Definition enc_entry (e : entry) : list Z :=
  nz (e_term e) :: nz (e_index e) :: nz (e_type e) :: enc_counted (e_pl e).

Definition enc_members (m : membership) : list Z :=
  nz (mb_epoch m) :: enc_counted (map nz (mb_members m)).

Definition enc_mptr (o : option membership) : list Z :=
  match o with
  | None => [0%Z]
  | Some m => 1%Z :: nz (mb_index m) :: nz (mb_term m) :: enc_members m
  end.

Definition enc_msg (m : msg) : list Z :=
  let hdr k := k :: nz (m_term m) :: nz (m_from m) :: nz (m_to m) :: nz (m_fromg m) :: nz (m_tog m) :: [nz (m_epoch m)] in
  match m_body m with
  | AppEnts pi pt cm oes =>
      hdr 1%Z ++ [nz pi; nz pt; nz cm] ++
      match oes with
      | None => [0%Z; 0%Z]
      | Some es => 1%Z :: Z.of_nat (length es) :: flat_map enc_entry es
      end
  | AppEntsResp su ix hi => hdr 2%Z ++ [bz su; nz ix; nz hi]
  | VoteReq li lt => hdr 3%Z ++ [nz li; nz lt]
  | VoteResp g => hdr 4%Z ++ [bz g]
  | InstallSnap li lt c => hdr 5%Z ++ [nz li; nz lt; nz (mb_index c); nz (mb_term c)] ++ enc_members c
  end.

Definition role_code (r : role) : Z := match r with Follower => 0 | Candidate => 1 | Leader => 2 end%Z.

Definition enc_peer (p : peer) : list Z :=
  [nz (pr_id p); nz (pr_next p); nz (pr_match p); bz (pr_snap p); nz (pr_contact p); nz (pr_recv p)].

Definition proj (s : node) : list Z :=
  let p := n_p s in
  [nz (p_term p); nz (p_vote p); role_code (n_role s); nz (n_leader s); nz (n_commit s); bz (n_restore s); nz (n_elapsed s);
   nz (f_contact s); nz (f_timeout s); nz (c_timeout s)]
  ++ enc_counted (map nz (c_votes s))
  ++ [nz (l_check s); Z.of_nat (length (l_peers s))] ++ flat_map enc_peer (l_peers s)
  ++ Z.of_nat (length (p_log p)) :: flat_map enc_entry (p_log p)
  ++ match p_snap p with
     | None => [0%Z]
     | Some m => 1%Z :: nz (sn_index m) :: nz (sn_term m) :: enc_mptr (sn_conf m)
     end
  ++ enc_mptr (n_conf s)
  ++ Z.of_nat (length (p_guids p)) :: flat_map (fun kv => [nz (fst kv); nz (snd kv)]) (p_guids p).

Definition obs_ok (status : N) (s : node) : list Z :=
  nz status :: proj s
  ++ Z.of_nat (length (n_msgs s)) :: flat_map enc_msg (out_msgs s)
  ++ Z.of_nat (length (n_commits s)) :: flat_map enc_entry (n_commits s).

(* ---------------------------------------------------------------- the cluster: nodes 1..N *)
Definition cluster := list node.

Fixpoint get_node (id : N) (c : cluster) : option node :=
  match c with [] => None | s :: r => if n_id s =? id then Some s else get_node id r end.

Fixpoint put_node (x : node) (c : cluster) : cluster :=
  match c with [] => [] | s :: r => if n_id s =? n_id x then x :: r else s :: put_node x r end.

Definition blank_pstate (guid : N) : pstate :=
  {| p_term := 0; p_vote := 0; p_guid := guid; p_guids := []; p_log := []; p_snap := None |}.

Fixpoint init_nodes (cfg : config) (id : N) (guids : list Z) : option cluster :=
  match guids with
  | [] => Some []
  | g :: r => match new_core id cfg (blank_pstate (zn g)), init_nodes cfg (id + 1) r with
              | Ret s, Some c => Some (s :: c)
              | _, _ => None
              end
  end.

Definition init_cluster (l : list Z) : option cluster :=
  match l with
  | n :: fto :: cto :: hb :: sd :: sn :: me :: kp :: guids =>
      if Nat.eqb (Z.to_nat n) (length guids) then
        init_nodes {| cf_follower_to := zn fto; cf_cand_to := zn cto; cf_hb_to := zn hb; cf_stepdown_to := zn sd;
                      cf_snap_to := zn sn; cf_max_ents := zn me; cf_keep := zn kp |} 1 guids
      else None
  | _ => None
  end.

Definition bad : list Z := [(-1)%Z].

(* one op line: new cluster state and the predicted observation *)
Definition step_wire (st : option cluster) (op : list Z) : option cluster * list Z :=
  match op with
  | 0%Z :: r => match init_cluster r with
                | Some c => (Some c, [0%Z])
                | None => (st, bad)
                end
  | code :: nd :: k :: inner =>
      if Z.eqb code 9 || Z.eqb code 10 then
        match st, parse_event inner with
        | Some c, Some (id, ev) =>
            match get_node id c with
            | Some s =>
                match run_event_crash (settle s) ev (zn k) with
                | Ret (crashed, status, s') =>
                    ((if Z.eqb code 10 then Some (put_node s' c) else st), bz crashed :: obs_ok status s')
                | Fatal fc => (st, [666%Z; nz fc])
                | Crashed _ => (st, bad)
                end
            | None => (st, bad)
            end
        | _, _ => (st, bad)
        end
      else
        match st, parse_event op with
        | Some c, Some (id, ev) =>
            match get_node id c with
            | Some s =>
                match run_event (settle s) ev with
                | Ret (status, s') => (Some (put_node s' c), obs_ok status s')
                | Fatal fc => (st, [666%Z; nz fc])
                | Crashed _ => (st, bad)
                end
            | None => (st, bad)
            end
        | _, _ => (st, bad)
        end
  | _ =>
      match st, parse_event op with
      | Some c, Some (id, ev) =>
          match get_node id c with
          | Some s =>
              match run_event (settle s) ev with
              | Ret (status, s') => (Some (put_node s' c), obs_ok status s')
              | Fatal fc => (st, [666%Z; nz fc])
              | Crashed _ => (st, bad)
              end
          | None => (st, bad)
          end
      | _, _ => (st, bad)
      end
  end.

Fixpoint run_ops (st : option cluster) (ops : list (list Z)) : list (list Z) :=
  match ops with
  | [] => []
  | op :: r => let '(st', o) := step_wire st op in o :: run_ops st' r
  end.

Definition run_case (ops : list (list Z)) : list (list Z) := run_ops None ops.
