(* Raft/SnapshotExample.v — a run with a lagging follower receiving InstallSnapshot (non-vacuity for Raft/SnapCommit.v and
   Raft/Snapshots.v): 3 nodes; node 1 is elected, replicates two entries to node 2 only, commits them, takes a snapshot of the
   applied prefix (index 2) and trims its whole log; node 3, which has nothing, rejects the heartbeat; the leader cannot
   produce the entries any more and ships its snapshot; node 3 installs it and its commit index becomes 2.
   The run is a run of snstep of Raft/SnapSys.v (the general system of Raft/Election.v; SnapshotDone reports an applied position). *)
From Coq Require Import List NArith ZArith Bool Lia.
From BLB Require Import Lib.LTS Raft.Core Raft.Wire Raft.Election Raft.ElectionFixed Raft.ElectionExample Raft.LogMatchExample
  Raft.SnapCommit Raft.Snapshots Raft.SnapSys.
Import ListNotations.
Open Scope N_scope.

Definition t0 : sys := {| sy_nodes := [mk_node 1; mk_node 2; mk_node 3]; sy_soup := []; sy_cast := []; sy_hist := [] |}.
Definition snapm : snapmeta :=
  {| sn_index := 2; sn_term := 2; sn_conf := Some {| mb_members := [1; 2; 3]; mb_epoch := 5; mb_index := 1; mb_term := 1 |} |}.

Definition t1 := apply_step t0 1 (EBootstrap [1; 2; 3] 5) 0.
Definition t2 := apply_step t1 1 ETick 0.
Definition t3 := apply_step t2 1 ETick 0.
Definition u3 := Eval vm_compute in nthmsg t3 0.
Definition t4 := apply_step t3 2 (EDeliver u3) 0.
Definition u4 := Eval vm_compute in nthmsg t4 2.
Definition t5 := apply_step t4 1 (EDeliver u4) 0.             (* node 1 leader of term 2 *)
Definition t6 := apply_step t5 1 (EPropose [ex_ent]) 0.
Definition u6 := Eval vm_compute in nthmsg t6 3.
Definition t7 := apply_step t6 2 (EDeliver u6) 0.
Definition u7 := Eval vm_compute in nthmsg t7 5.
Definition t8 := apply_step t7 1 (EDeliver u7) 0.
Definition u8 := Eval vm_compute in nthmsg t8 6.
Definition t9 := apply_step t8 2 (EDeliver u8) 0.             (* node 2 holds both entries *)
Definition u9 := Eval vm_compute in nthmsg t9 7.
Definition t10 := apply_step t9 1 (EDeliver u9) 0.            (* leader commits index 2 *)
Definition t11 := apply_step t10 1 (ESnapDone snapm) 0.       (* snapshot of the applied prefix, log trimmed away *)
Definition u11 := Eval vm_compute in nthmsg t11 4.            (* the old heartbeat for node 3 *)
Definition t12 := apply_step t11 3 (EDeliver u11) 0.          (* node 3 rejects *)
Definition u12 := Eval vm_compute in nthmsg t12 9.
Definition t13 := apply_step t12 1 (EDeliver u12) 0.          (* leader ships InstallSnapshot *)
Definition u13 := Eval vm_compute in nthmsg t13 10.
Definition t14 := apply_step t13 3 (EDeliver u13) 0.          (* node 3 installs it *)

Definition conf_okqb (q : N) (s : node) : bool := match n_conf s with Some c => quorum c =? q | None => true end.

Lemma conf_okqb_ok q s : conf_okqb q s = true -> conf_okq q s.
Proof. unfold conf_okqb, conf_okq. intros H c Hc. rewrite Hc in H. apply N.eqb_eq. exact H. Qed.

Lemma snstep_exec q σ i ev k s crashed st s' :
  get_node i (sy_nodes σ) = Some s ->
  (forall m, ev = EDeliver m -> In m (sy_soup σ) /\ m_to m <> 0) ->
  run_event_crash (settle s) ev k = Ret (crashed, st, s') ->
  conf_okqb q s' = true ->
  (forall m, ev = ESnapDone m -> sn_index m <=? n_commit s = true) ->
  snstep q σ (i, ev, k) (apply_step σ i ev k).
Proof.
  intros G D Rn C A. split.
  - eapply sstep_exec; eauto. apply conf_okqb_ok. exact C.
  - intros m s1 Hm Hs. simpl in Hm, Hs. rewrite G in Hs. inversion Hs; subst s1. apply N.leb_le. apply A. exact Hm.
Qed.

Ltac one_plain :=
  eapply snstep_exec;
  [ vm_compute; reflexivity
  | let m := fresh in let Hm := fresh in intros m Hm; discriminate
  | vm_compute; reflexivity
  | vm_compute; reflexivity
  | let m := fresh in let Hm := fresh in intros m Hm; try discriminate; inversion Hm; subst; vm_compute; reflexivity ].

Ltac one_deliver :=
  eapply snstep_exec;
  [ vm_compute; reflexivity
  | let m := fresh in let Hm := fresh in intros m Hm; inversion Hm; subst; split; [vm_compute; tauto | vm_compute; discriminate]
  | vm_compute; reflexivity
  | vm_compute; reflexivity
  | let m := fresh in let Hm := fresh in intros m Hm; discriminate ].

Definition snleb (s : node) : bool :=
  match p_snap (n_p s) with Some m => sn_index m <=? n_commit s | None => true end.

Lemma snleb_snle s : snleb s = true -> snle s.
Proof.
  unfold snleb, snle. intros H m Hm. rewrite Hm in H. apply N.leb_le. exact H.
Qed.

Lemma forallb_snle l : forallb snleb l = true -> Forall snle l.
Proof.
  intros H. apply Forall_forall. intros x Hx. apply snleb_snle. rewrite forallb_forall in H. exact (H x Hx).
Qed.

Definition snap_sched : list sys_event :=
  [(1, EBootstrap [1; 2; 3] 5, 0); (1, ETick, 0); (1, ETick, 0); (2, EDeliver u3, 0); (1, EDeliver u4, 0);
   (1, EPropose [ex_ent], 0); (2, EDeliver u6, 0); (1, EDeliver u7, 0); (2, EDeliver u8, 0); (1, EDeliver u9, 0);
   (1, ESnapDone snapm, 0); (3, EDeliver u11, 0); (1, EDeliver u12, 0); (3, EDeliver u13, 0)].

Example install_snapshot_run :
  Forall snle (sy_nodes t0) /\ run sys sys_event (snstep 2) t0 snap_sched t14 /\
  (* the snapshot was taken of an applied position *)
  snap_legit (nth 0 (sy_nodes t10) (mk_node 1)) snapm /\
  (* the leader shipped it *)
  m_body u13 = InstallSnap 2 2 {| mb_members := [1; 2; 3]; mb_epoch := 5; mb_index := 1; mb_term := 1 |} /\
  (* the lagging follower installed it: snapshot (2, 2), empty log, commit index 2; every snapshot is within its commit index *)
  p_snap (n_p (nth 2 (sy_nodes t14) (mk_node 1))) = Some snapm /\ p_log (n_p (nth 2 (sy_nodes t14) (mk_node 1))) = [] /\
  n_commit (nth 2 (sy_nodes t14) (mk_node 1)) = 2 /\ Forall snle (sy_nodes t14).
Proof.
  split; [apply forallb_snle; vm_compute; reflexivity|].
  split; [| split; [| split; [| split; [| split; [| split]]]]].
  - unfold snap_sched.
    apply run_cons with (s1 := t1); [one_plain|].
    apply run_cons with (s1 := t2); [one_plain|].
    apply run_cons with (s1 := t3); [one_plain|].
    apply run_cons with (s1 := t4); [one_deliver|].
    apply run_cons with (s1 := t5); [one_deliver|].
    apply run_cons with (s1 := t6); [one_plain|].
    apply run_cons with (s1 := t7); [one_deliver|].
    apply run_cons with (s1 := t8); [one_deliver|].
    apply run_cons with (s1 := t9); [one_deliver|].
    apply run_cons with (s1 := t10); [one_deliver|].
    apply run_cons with (s1 := t11); [one_plain|].
    apply run_cons with (s1 := t12); [one_deliver|].
    apply run_cons with (s1 := t13); [one_deliver|].
    apply run_cons with (s1 := t14); [one_deliver|].
    apply run_nil.
  - unfold snap_legit. split; [vm_compute; discriminate|]. split; [vm_compute; discriminate|].
    eexists. split; [vm_compute; reflexivity|]. split; reflexivity.
  - reflexivity.
  - vm_compute. reflexivity.
  - vm_compute. reflexivity.
  - vm_compute. reflexivity.
  - apply forallb_snle. vm_compute. reflexivity.
Qed.

(* the hypotheses of snapshot_within_commit hold for the installing step, and its conclusion is not vacuous *)
Example snapshot_within_commit_nonvacuous :
  exists s ev s' m,
    snle s /\ (forall m0, ev = ESnapDone m0 -> sn_index m0 <= n_commit s) /\
    run_event_crash (settle s) ev 0 = Ret (false, 0, s') /\
    (exists md li lt c, ev = EDeliver md /\ m_body md = InstallSnap li lt c) /\
    p_snap (n_p s) = None /\ p_snap (n_p s') = Some m /\ sn_index m = 2 /\ n_commit s' = 2.
Proof.
  exists (nth 2 (sy_nodes t13) (mk_node 1)), (EDeliver u13), (nth 2 (sy_nodes t14) (mk_node 1)), snapm.
  split; [apply snleb_snle; vm_compute; reflexivity|]. split; [intros m0 Hm; discriminate|].
  split; [vm_compute; reflexivity|]. split; [eexists _, _, _, _; split; reflexivity|].
  split; [vm_compute; reflexivity|]. split; [vm_compute; reflexivity|]. split; vm_compute; reflexivity.
Qed.

(* ---------------------------------------------------------------- contiguity (Raft/SnapContig.v, Raft/SnapContigSys.v) *)
From BLB Require Import Raft.SnapContig Raft.SnapContigMsgs Raft.SnapContigSys.

Definition t15 := apply_step t14 1 (EPropose [ex_ent]) 0.   (* the leader appends index 3 on top of its snapshot of index 2 *)

Lemma run_snoc (step : sys -> sys_event -> sys -> Prop) s es s1 e s2 :
  run sys sys_event step s es s1 -> step s1 e s2 -> run sys sys_event step s (es ++ [e]) s2.
Proof.
  intros H Hs. induction H; simpl.
  - eapply run_cons; [exact Hs | apply run_nil].
  - eapply run_cons; eauto.
Qed.

Lemma snrun_srun q s es s' : run sys sys_event (snstep q) s es s' -> run sys sys_event (sstep q) s es s'.
Proof. intro H. induction H; [apply run_nil|]. eapply run_cons; eauto. destruct H as [A _]. exact A. Qed.

(* all hypotheses of log_snapshot_contiguous_sys hold for the run extended by one proposal; at its end the leader's store is
   snapshot (2, 2) + a physical log holding exactly index 3, the follower that installed the snapshot has an empty log,
   and the soup contains an AppEnts carrying two entries *)
Example log_snapshot_contiguous_nonvacuous :
  cinv t0 /\ run sys sys_event (sstep 2) t0 (snap_sched ++ [(1, EPropose [ex_ent], 0)]) t15 /\
  p_snap (n_p (nth 0 (sy_nodes t15) (mk_node 1))) = Some snapm /\
  map e_index (p_log (n_p (nth 0 (sy_nodes t15) (mk_node 1)))) = [3] /\
  p_log (n_p (nth 2 (sy_nodes t15) (mk_node 1))) = [] /\
  (exists a b c e1 e2, m_body u8 = AppEnts a b c (Some [e1; e2])) /\ In u8 (sy_soup t15) /\
  cinv t15.
Proof.
  assert (C0 : cinv t0).
  { split; [| intros m []]. intros s Hs. simpl in Hs.
    destruct Hs as [E | [E | [E | []]]]; subst s; vm_compute; auto. }
  assert (R : run sys sys_event (sstep 2) t0 (snap_sched ++ [(1, EPropose [ex_ent], 0)]) t15).
  { apply run_snoc with (s1 := t14).
    - apply snrun_srun. destruct install_snapshot_run as [_ [H _]]. exact H.
    - assert (X : snstep 2 t14 (1, EPropose [ex_ent], 0) t15) by one_plain. destruct X as [X _]. exact X. }
  split; [exact C0|]. split; [exact R|].
  split; [vm_compute; reflexivity|]. split; [vm_compute; reflexivity|]. split; [vm_compute; reflexivity|].
  split; [eexists _, _, _, _, _; vm_compute; reflexivity|]. split; [vm_compute; tauto|].
  exact (log_snapshot_contiguous_sys 2 t0 _ t15 C0 R).
Qed.
