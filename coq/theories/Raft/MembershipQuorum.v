(* Raft/MembershipQuorum.v — round 4 (B), first rungs for single-server membership change.

   adjacent_quorums_intersect : majorities of two configurations that differ by one server (Members and Members +/- 1)
     always share a member — the arithmetic heart of single-server reconfiguration.
   one_change_at_a_time_*     : AddNode / RemoveNode are refused while the latest configuration is not committed, and hit the
     sanity Fatalf before an entry of the current term is committed (verifyNopCommitted), so a leader has at most one
     uncommitted configuration entry, proposed on top of a committed current-term entry. *)
From Coq Require Import List NArith ZArith Bool Lia ZifyN ZifyNat ZifyBool.
From BLB Require Import Raft.Core Raft.NodeProofs Raft.Election.
Import ListNotations.
Open Scope N_scope.

Lemma adjacent_majorities_arith (n a b : nat) :
  N.of_nat n / 2 + 1 <= N.of_nat a -> N.of_nat (S n) / 2 + 1 <= N.of_nat b -> (S n < a + b)%nat.
Proof.
  intros A B.
  pose proof (N.div_mod' (N.of_nat n) 2) as D1. pose proof (N.mod_lt (N.of_nat n) 2 ltac:(discriminate)) as M1.
  pose proof (N.div_mod' (N.of_nat (S n)) 2) as D2. pose proof (N.mod_lt (N.of_nat (S n)) 2 ltac:(discriminate)) as M2.
  remember (N.of_nat n / 2) as x1. remember (N.of_nat n mod 2) as r1.
  remember (N.of_nat (S n) / 2) as x2. remember (N.of_nat (S n) mod 2) as r2. clear Heqx1 Heqr1 Heqx2 Heqr2. lia.
Qed.

(* C1 is contained in C2 and C2 has exactly one more member: any majority of C1 meets any majority of C2 *)
Theorem adjacent_quorums_intersect (C1 C2 Q1 Q2 : list nid) :
  incl C1 C2 -> length C2 = S (length C1) ->
  NoDup Q1 -> NoDup Q2 -> incl Q1 C1 -> incl Q2 C2 ->
  N.of_nat (length C1) / 2 + 1 <= N.of_nat (length Q1) ->
  N.of_nat (length C2) / 2 + 1 <= N.of_nat (length Q2) ->
  exists v, In v Q1 /\ In v Q2.
Proof.
  unfold nid in *. intros Hi Hl N1 N2 I1 I2 M1 M2.
  apply (pigeon Q1 Q2 C2 N1 N2); auto.
  - intros v Hv. apply Hi. apply I1. exact Hv.
  - rewrite Hl in M2. pose proof (adjacent_majorities_arith (length C1) (length Q1) (length Q2) M1 M2) as X. lia.
Qed.

(* in terms of the model's memberships: AddNode appends one member, RemoveNode filters one out *)
Corollary add_node_quorums_intersect (c : membership) (x : nid) (Q1 Q2 : list nid) :
  NoDup Q1 -> NoDup Q2 -> incl Q1 (mb_members c) -> incl Q2 (mb_members c ++ [x]) ->
  quorum c <= N.of_nat (length Q1) ->
  N.of_nat (length (mb_members c ++ [x])) / 2 + 1 <= N.of_nat (length Q2) ->
  exists v, In v Q1 /\ In v Q2.
Proof.
  intros N1 N2 I1 I2 M1 M2. apply (adjacent_quorums_intersect (mb_members c) (mb_members c ++ [x]) Q1 Q2); auto.
  - intros v Hv. apply in_or_app. left. exact Hv.
  - rewrite app_length. simpl. lia.
Qed.

Lemma filter_one_length (l : list nid) x :
  NoDup l -> In x l -> length l = S (length (filter (fun m => negb (m =? x)) l)).
Proof.
  induction l as [| y r IH]; simpl; intros Hn Hin; [contradiction|]. inversion Hn; subst.
  destruct (y =? x) eqn:E; simpl.
  - apply N.eqb_eq in E. subst y. f_equal.
    assert (Hf : filter (fun m => negb (m =? x)) r = r).
    { clear - H1. induction r as [| z t IH]; simpl; auto. destruct (z =? x) eqn:E; simpl.
      - apply N.eqb_eq in E. subst. exfalso. apply H1. left. reflexivity.
      - rewrite IH; auto. intro X. apply H1. right. exact X. }
    rewrite Hf. reflexivity.
  - apply N.eqb_neq in E. destruct Hin as [Hin | Hin]; [congruence|]. rewrite (IH H2 Hin). reflexivity.
Qed.

Corollary remove_node_quorums_intersect (c : membership) (x : nid) (Q1 Q2 : list nid) :
  NoDup (mb_members c) -> In x (mb_members c) ->
  NoDup Q1 -> NoDup Q2 -> incl Q1 (filter (fun m => negb (m =? x)) (mb_members c)) -> incl Q2 (mb_members c) ->
  N.of_nat (length (filter (fun m => negb (m =? x)) (mb_members c))) / 2 + 1 <= N.of_nat (length Q1) ->
  quorum c <= N.of_nat (length Q2) ->
  exists v, In v Q1 /\ In v Q2.
Proof.
  intros Nc Hx N1 N2 I1 I2 M1 M2.
  apply (adjacent_quorums_intersect (filter (fun m => negb (m =? x)) (mb_members c)) (mb_members c) Q1 Q2); auto.
  - intros v Hv. apply filter_In in Hv. tauto.
  - apply filter_one_length; auto.
Qed.

(* ---------------------------------------------------------------- one configuration change at a time *)
Lemma add_node_refused_while_pending s member rnd c :
  verify_nop_committed s = Ret tt -> n_conf s = Some c -> memb member (mb_members c) = false ->
  latest_conf_committed s = false -> leader_add_node s member rnd = Ret (E_TOO_MANY, s).
Proof.
  intros Hv Hc Hm Hl. unfold leader_add_node. rewrite Hv. simpl. rewrite Hc, Hm, Hl. reflexivity.
Qed.

Lemma remove_node_refused_while_pending s member c :
  verify_nop_committed s = Ret tt -> n_conf s = Some c -> memb member (mb_members c) = true ->
  latest_conf_committed s = false -> leader_remove_node s member = Ret (E_TOO_MANY, s).
Proof.
  intros Hv Hc Hm Hl. unfold leader_remove_node. rewrite Hv. simpl. rewrite Hc, Hm, Hl. reflexivity.
Qed.

(* a reconfiguration that goes through was issued with the latest configuration committed and an entry of the current term committed *)
Lemma add_node_accepted_only_when_settled s member rnd s' :
  leader_add_node s member rnd = Ret (E_NONE, s') ->
  latest_conf_committed s = true /\ exists t, st_term (n_p s) (n_commit s) = Ret (t, true) /\ t = p_term (n_p s).
Proof.
  unfold leader_add_node, verify_nop_committed.
  destruct (st_term (n_p s) (n_commit s)) as [[t ok] | |] eqn:Et; simpl; try discriminate.
  destruct ok; simpl; [| discriminate]. destruct (p_term (n_p s) =? t) eqn:Ep; simpl; [| discriminate].
  destruct (n_conf s) as [c |]; [| discriminate]. destruct (memb member (mb_members c)); [discriminate|].
  destruct (latest_conf_committed s) eqn:El; simpl; [| discriminate].
  intros _. split; auto. exists t. split; auto. apply N.eqb_eq in Ep. auto.
Qed.
