(* Raft/CombinedRunSMS.v — round 12: state machine safety over the combined alphabet instantiated on the 20-step combined run. *)
From Coq Require Import List NArith ZArith Bool Lia.
From BLB Require Import Lib.LTS Raft.Core Raft.Wire Raft.Election Raft.MemberVotes Raft.MemberVotesExample Raft.MemberRun Raft.MemberRunExample
  Raft.CombinedExample Raft.CombinedRunC Raft.CombinedRunU Raft.MemberSnapSystemU Raft.MemberSnapSMS.
Import ListNotations.
Open Scope N_scope.

Lemma applied_C20 : existsb (fun s => existsb (fun y => e_index y =? 4) (n_commits s)) (sy_nodes (fst C20)) = true.
Proof. vm_compute. reflexivity. Qed.
Lemma applied_A13 : existsb (fun s => existsb (fun y => e_index y =? 3) (n_commits s)) (sy_nodes (fst A13)) = true.
Proof. vm_compute. reflexivity. Qed.

Example combined_run_sms :
  run asys sys_event (cstep [1; 2] 5) A0 (sched10 ++ sched13) A13 /\ run asys sys_event (cstep [1; 2] 5) A13 schedT C20 /\
  (forall n1 n2 x y, In n1 (sy_nodes (fst A13)) -> In n2 (sy_nodes (fst C20)) -> In x (n_commits n1) -> In y (n_commits n2) ->
     e_index x = e_index y -> x = y) /\
  existsb (fun s => existsb (fun y => e_index y =? 3) (n_commits s)) (sy_nodes (fst A13)) = true /\
  existsb (fun s => existsb (fun y => e_index y =? 4) (n_commits s)) (sy_nodes (fst C20)) = true.
Proof.
  exact (conj urun_to_A13 (conj urun_C20 (conj
    (state_machine_safety_combined_sys [1; 2] 5 Hn12 A0 A13 C20 (sched10 ++ sched13) schedT minitS_A0 urun_to_A13 urun_C20)
    (conj applied_A13 applied_C20)))).
Qed.
