(* Raft/MemberVotesExample.v — round 6, non-vacuity for Raft/MemberVotes.v (alphabet astep, ghost EC).

   Run A (add a third node to a two-node group and elect it leader): the 17 steps of MembershipExample.add_sched
     (node 1 bootstraps [1; 2], wins term 2 under [1; 2], commits a term-2 entry, accepts AddNode 3, commits the
     configuration entry under [1; 2; 3], brings node 3 up to date), then node 3 times out, campaigns for term 3 under
     [1; 2; 3], node 2 grants, node 3 is leader of term 3.  The quorum size did not change (2 of 2, 2 of 3) but the
     member set did; EC = [(2, 1, [1; 2]); (3, 3, [1; 2; 3])].
   Run B (remove a node and commit with the smaller quorum): the first 10 steps, then RemoveNode 2 at the leader:
     accepted, the leader holds [1] and commits the configuration entry at once with the quorum 1 of the new
     configuration (2 members -> 1 member: the quorum size changes 2 -> 1). *)
From Coq Require Import List NArith ZArith Bool Lia.
From BLB Require Import Lib.LTS Raft.Core Raft.Wire Raft.Election Raft.ElectionExample Raft.LogMatchExample
  Raft.MembershipQuorum Raft.MembershipElection Raft.MembershipExample Raft.MemberNode Raft.MemberVotes.
Import ListNotations.
Open Scope N_scope.

Definition aapply (a : asys) (i : nid) (ev : event) (k : N) : asys :=
  match get_node i (sy_nodes (fst a)) with
  | Some s => match run_event_crash (settle s) ev k with
              | Ret (_, _, s') => (apply_step (fst a) i ev k, snd a ++ ec_of s s')
              | _ => a
              end
  | None => a
  end.

Lemma astep_exec a i ev k s crashed st s' :
  get_node i (sy_nodes (fst a)) = Some s ->
  (forall m, ev = EDeliver m -> In m (sy_soup (fst a)) /\ m_to m <> 0) ->
  run_event_crash (settle s) ev k = Ret (crashed, st, s') ->
  astep a (i, ev, k) (aapply a i ev k).
Proof.
  destruct a as [σ EC]. simpl. intros G D Rn. unfold aapply, apply_step. simpl. rewrite G, Rn.
  eapply AStep; eauto.
Qed.

Ltac a_plain :=
  eapply astep_exec;
  [ vm_compute; reflexivity
  | let m := fresh in let Hm := fresh in intros m Hm; discriminate
  | vm_compute; reflexivity ].

Ltac a_deliver :=
  eapply astep_exec;
  [ vm_compute; reflexivity
  | let m := fresh in let Hm := fresh in intros m Hm; inversion Hm; subst; split; [vm_compute; tauto | vm_compute; discriminate]
  | vm_compute; reflexivity ].

Lemma run_app (S E : Type) (step : S -> E -> S -> Prop) s1 es1 s2 es2 s3 :
  run S E step s1 es1 s2 -> run S E step s2 es2 s3 -> run S E step s1 (es1 ++ es2) s3.
Proof. intros H1 H2. induction H1; simpl; auto. eapply run_cons; eauto. Qed.

(* a checker for the adjacency premise that is enough for runs whose same-term records carry the same members *)
Definition ec_okb (x y : ecent) : bool :=
  negb (fst (fst x) =? fst (fst y)) ||
  (if list_eq_dec N.eq_dec (mb_members (snd x)) (mb_members (snd y)) then true else false).
Definition adjPb (EC : list ecent) : bool := forallb (fun x => forallb (ec_okb x) EC) EC.

Lemma adjPb_ok EC : adjPb EC = true -> adjP EC.
Proof.
  unfold adjPb. rewrite forallb_forall. intros H t a b Ca Cb Ha Hb.
  specialize (H _ Ha). rewrite forallb_forall in H. specialize (H _ Hb). unfold ec_okb in H. simpl in H.
  rewrite N.eqb_refl in H. simpl in H.
  destruct (list_eq_dec N.eq_dec (mb_members Ca) (mb_members Cb)) as [E | E]; [| discriminate]. left. exact E.
Qed.

(* ---------------------------------------------------------------- the shared prefix *)
Definition A0 : asys := (a0, []).
Definition A1 := aapply A0 1 (EBootstrap [1; 2] 5) 0.
Definition A2 := aapply A1 1 ETick 0.
Definition A3 := aapply A2 1 ETick 0.
Definition A4 := aapply A3 2 (EDeliver w3) 0.
Definition A5 := aapply A4 1 (EDeliver w4) 0.
Definition A6 := aapply A5 1 (EPropose [ex_ent]) 0.
Definition A7 := aapply A6 2 (EDeliver w6) 0.
Definition A8 := aapply A7 1 (EDeliver w7) 0.
Definition A9 := aapply A8 2 (EDeliver w8) 0.
Definition A10 := aapply A9 1 (EDeliver w9) 0.

Definition sched10 : list sys_event :=
  [(1, EBootstrap [1; 2] 5, 0); (1, ETick, 0); (1, ETick, 0); (2, EDeliver w3, 0); (1, EDeliver w4, 0);
   (1, EPropose [ex_ent], 0); (2, EDeliver w6, 0); (1, EDeliver w7, 0); (2, EDeliver w8, 0); (1, EDeliver w9, 0)].

Lemma ainit_A0 : ainit A0.
Proof.
  split; [vm_compute; repeat constructor; simpl; intuition discriminate|].
  split; [| simpl; auto]. intros s Hs. simpl in Hs.
  destruct Hs as [E | [E | [E | []]]]; subst s; (split; [vm_compute; discriminate | vm_compute; reflexivity]).
Qed.

Lemma run_A10 : run asys sys_event astep A0 sched10 A10.
Proof.
  unfold sched10.
  apply run_cons with (s1 := A1); [a_plain|].
  apply run_cons with (s1 := A2); [a_plain|].
  apply run_cons with (s1 := A3); [a_plain|].
  apply run_cons with (s1 := A4); [a_deliver|].
  apply run_cons with (s1 := A5); [a_deliver|].
  apply run_cons with (s1 := A6); [a_plain|].
  apply run_cons with (s1 := A7); [a_deliver|].
  apply run_cons with (s1 := A8); [a_deliver|].
  apply run_cons with (s1 := A9); [a_deliver|].
  apply run_cons with (s1 := A10); [a_deliver|].
  apply run_nil.
Qed.

(* ---------------------------------------------------------------- run A: add node 3, then node 3 wins term 3 *)
Definition A11 := aapply A10 1 (EAddNode 3 77) 0.
Definition A12 := aapply A11 2 (EDeliver w11) 0.
Definition A13 := aapply A12 1 (EDeliver w12) 0.
Definition A14 := aapply A13 1 ETick 0.
Definition A15 := aapply A14 3 (EDeliver w14) 0.
Definition A16 := aapply A15 1 (EDeliver w15) 0.
Definition A17 := aapply A16 3 (EDeliver w16) 0.
Definition A18 := aapply A17 3 ETick 0.
Definition A19 := aapply A18 3 ETick 0.                          (* node 3 campaigns for term 3 under [1; 2; 3] *)
Definition v19 := Eval vm_compute in nthmsg (fst A19) 16.        (* VoteReq 3 -> 2 *)
Definition A20 := aapply A19 2 (EDeliver v19) 0.
Definition v20 := Eval vm_compute in nthmsg (fst A20) 17.        (* VoteResp granted 2 -> 3 *)
Definition A21 := aapply A20 3 (EDeliver v20) 0.                 (* node 3 is leader of term 3 *)

Definition schedA : list sys_event :=
  sched10 ++
  [(1, EAddNode 3 77, 0); (2, EDeliver w11, 0); (1, EDeliver w12, 0); (1, ETick, 0); (3, EDeliver w14, 0);
   (1, EDeliver w15, 0); (3, EDeliver w16, 0); (3, ETick, 0); (3, ETick, 0); (2, EDeliver v19, 0); (3, EDeliver v20, 0)].

Definition ec_view (EC : list ecent) : list (N * nid * list nid) :=
  map (fun x => (fst (fst x), snd (fst x), mb_members (snd x))) EC.

Example add_node_then_elect_it :
  ainit A0 /\ run asys sys_event astep A0 schedA A21 /\
  (* the election configurations recorded along the run, and the premise of election_safety_given_adjacent *)
  ec_view (snd A21) = [(2, 1, [1; 2]); (3, 3, [1; 2; 3])] /\ adjP (snd A21) /\
  (* the added node is leader of term 3, elected under the NEW configuration with the votes of 3 and 2 *)
  In (3, 3) (sy_hist (fst A21)) /\
  (exists s, get_node 3 (sy_nodes (fst A21)) = Some s /\ n_role s = Leader /\ p_term (n_p s) = 3 /\
             members_of s = [1; 2; 3] /\ c_votes s = [2; 3]) /\
  In (2, 3, 3) (sy_cast (fst A21)) /\ In (3, 3, 3) (sy_cast (fst A21)) /\
  (* and the theorem's conclusion on this run *)
  (forall t x y, In (t, x) (sy_hist (fst A21)) -> In (t, y) (sy_hist (fst A21)) -> x = y).
Proof.
  assert (HA : adjP (snd A21)) by (apply adjPb_ok; vm_compute; reflexivity).
  assert (HR : run asys sys_event astep A0 schedA A21).
  { unfold schedA. apply (run_app _ _ _ A0 sched10 A10); [exact run_A10|].
    apply run_cons with (s1 := A11); [a_plain|].
    apply run_cons with (s1 := A12); [a_deliver|].
    apply run_cons with (s1 := A13); [a_deliver|].
    apply run_cons with (s1 := A14); [a_plain|].
    apply run_cons with (s1 := A15); [a_deliver|].
    apply run_cons with (s1 := A16); [a_deliver|].
    apply run_cons with (s1 := A17); [a_deliver|].
    apply run_cons with (s1 := A18); [a_plain|].
    apply run_cons with (s1 := A19); [a_plain|].
    apply run_cons with (s1 := A20); [a_deliver|].
    apply run_cons with (s1 := A21); [a_deliver|].
    apply run_nil. }
  split; [exact ainit_A0|]. split; [exact HR|]. split; [vm_compute; reflexivity|]. split; [exact HA|].
  split; [vm_compute; tauto|].
  split; [eexists; split; [vm_compute; reflexivity|]; repeat split; vm_compute; reflexivity|].
  split; [vm_compute; tauto|]. split; [vm_compute; tauto|].
  exact (election_safety_given_adjacent_sys A0 A21 schedA ainit_A0 HR HA).
Qed.

(* ---------------------------------------------------------------- run B: remove node 2, commit with the quorum 1 *)
Definition B11 := aapply A10 1 (ERemoveNode 2) 0.
Definition schedB : list sys_event := sched10 ++ [(1, ERemoveNode 2, 0)].

Example remove_node_then_commit_with_smaller_quorum :
  ainit A0 /\ run asys sys_event astep A0 schedB B11 /\ adjP (snd B11) /\
  (* before: the leader holds [1; 2] (quorum 2), log length 2, commit index 2; RemoveNode 2 is accepted *)
  (exists s s', get_node 1 (sy_nodes (fst A10)) = Some s /\ members_of s = [1; 2] /\ n_commit s = 2 /\
                run_event_crash (settle s) (ERemoveNode 2) 0 = Ret (false, E_NONE, s') /\
                (* after: it holds [1] (quorum 1) and has committed the configuration entry at index 3 by itself *)
                members_of s' = [1] /\ n_commit s' = 3 /\ length (p_log (n_p s')) = 3%nat /\ n_role s' = Leader) /\
  (exists c c', quorum c = 2 /\ quorum c' = 1 /\ mb_members c = [1; 2] /\ mb_members c' = [1] /\
                adj (mb_members c') (mb_members c)) /\
  (forall t x y, In (t, x) (sy_hist (fst B11)) -> In (t, y) (sy_hist (fst B11)) -> x = y).
Proof.
  assert (HA : adjP (snd B11)) by (apply adjPb_ok; vm_compute; reflexivity).
  assert (HR : run asys sys_event astep A0 schedB B11).
  { unfold schedB. apply (run_app _ _ _ A0 sched10 A10); [exact run_A10|].
    apply run_cons with (s1 := B11); [a_plain|]. apply run_nil. }
  split; [exact ainit_A0|]. split; [exact HR|]. split; [exact HA|].
  split.
  { eexists _, _. split; [vm_compute; reflexivity|]. split; [vm_compute; reflexivity|]. split; [vm_compute; reflexivity|].
    split; [vm_compute; reflexivity|]. repeat split; vm_compute; reflexivity. }
  split.
  { exists {| mb_members := [1; 2]; mb_epoch := 0; mb_index := 0; mb_term := 0 |},
           {| mb_members := [1]; mb_epoch := 0; mb_index := 0; mb_term := 0 |}.
    split; [vm_compute; reflexivity|]. split; [vm_compute; reflexivity|]. split; [reflexivity|]. split; [reflexivity|].
    split; [| reflexivity]. intros x Hx. cbn [mb_members] in Hx |- *. destruct Hx as [Hx | []]. left. exact Hx. }
  exact (election_safety_given_adjacent_sys A0 B11 schedB ainit_A0 HR HA).
Qed.
