(* Raft/MemberRunExample.v — round 8, non-vacuity of the run-level membership-change theorems (Raft/MemberRun.v) on the two runs of
   Raft/MemberVotesExample.v: run A (add node 3 to the group 1, 2 and elect it leader of term 3) and run B (remove node 2, the
   leader commits alone with the quorum 1 of the new configuration).  Both are runs of mstepS [1; 2] 5 from an initial state. *)
From Coq Require Import List NArith ZArith Bool Lia.
From BLB Require Import Lib.LTS Raft.Core Raft.Wire Raft.Election Raft.ElectionExample Raft.LogMatch Raft.LogMatchExample
  Raft.MembershipExample Raft.MemberVotes Raft.MemberConfTrack Raft.MemberVotesExample Raft.MemberRun.
Import ListNotations.
Open Scope N_scope.

Definition evSb (bm : list nid) (be : N) (e : sys_event) : bool :=
  match snd (fst e) with
  | EBootstrap ms ep => (if list_eq_dec N.eq_dec ms bm then true else false) && (ep =? be)
  | ESnapDone _ => false
  | EPropose es => forallb (fun x => negb (isconfb x)) es
  | EAddNode x _ => negb (x =? fst (fst e))
  | _ => true
  end.

Lemma evSb_ok bm be e : evSb bm be e = true -> evS bm be (fst (fst e)) (snd (fst e)).
Proof.
  unfold evSb, evS. destruct e as [[i ev] k]. simpl. destruct ev; intro H; (split; [| split]); simpl; auto; try discriminate;
    try (intros ? H0; discriminate H0); try (intros ? ? H0; discriminate H0).
  - apply andb_true_iff in H. destruct H as [H1 H2]. destruct (list_eq_dec N.eq_dec members bm); [| discriminate].
    apply N.eqb_eq in H2. auto.
  - intros es0 E. inversion E. subst es0. rewrite forallb_forall in H. apply Forall_forall. intros x Hx.
    specialize (H x Hx). apply negb_true_iff in H. exact H.
  - intros x r E. inversion E. subst. apply negb_true_iff, N.eqb_neq in H. exact H.
Qed.

Lemma run_mstepS_of bm be a es a' :
  run asys sys_event astep a es a' -> forallb (evSb bm be) es = true -> run asys sys_event (mstepS bm be) a es a'.
Proof.
  intro H. induction H as [s | s e s1 es s2 Hst Hr IH]; simpl; intro Hf; [apply run_nil|].
  apply andb_true_iff in Hf. destruct Hf as [H1 H2]. eapply run_cons; [| apply IH; exact H2].
  split; [exact Hst | apply evSb_ok; exact H1].
Qed.

Lemma minitS_A0 : minitS A0.
Proof.
  split; [exact ainit_A0|]. intros s Hs. simpl in Hs.
  destruct Hs as [E | [E | [E | []]]]; subst s; vm_compute; repeat split; reflexivity.
Qed.

Definition schedA2 : list sys_event :=
  [(1, EAddNode 3 77, 0); (2, EDeliver w11, 0); (1, EDeliver w12, 0); (1, ETick, 0); (3, EDeliver w14, 0);
   (1, EDeliver w15, 0); (3, EDeliver w16, 0); (3, ETick, 0); (3, ETick, 0); (2, EDeliver v19, 0); (3, EDeliver v20, 0)].

Lemma run_A21 : run asys sys_event astep A10 schedA2 A21.
Proof.
  unfold schedA2.
  apply run_cons with (s1 := A11); [a_plain|].
  apply run_cons with (s1 := A12); [a_deliver|].
  apply run_cons with (s1 := A13); [a_deliver|].
  apply run_cons with (s1 := A14); [a_plain|].
  apply run_cons with (s1 := A15); [a_deliver|].
  apply run_cons with (s1 := A16); [a_deliver|].
  apply run_cons with (s1 := A17); [a_deliver|].
  apply run_cons with (s1 := A18); [a_plain|].
  apply run_cons with (s1 := A19); [a_plain|].
  apply run_cons with (s1 := A20); [a_deliver|].
  apply run_cons with (s1 := A21); [a_deliver|].
  apply run_nil.
Qed.

Lemma run_B11 : run asys sys_event astep A10 [(1, ERemoveNode 2, 0)] B11.
Proof. apply run_cons with (s1 := B11); [a_plain|]. apply run_nil. Qed.

Definition node_view (s : node) := (n_id s, n_role s, p_term (n_p s), members_of s, n_commit s, length (p_log (n_p s))).

Lemma Hn12 : NoDup [1; 2].
Proof. constructor; [simpl; intros [H | []]; discriminate|]. constructor; [intros [] | constructor]. Qed.
Lemma RS1 : run asys sys_event (mstepS [1; 2] 5) A0 sched10 A10.
Proof. apply run_mstepS_of; [exact run_A10 | vm_compute; reflexivity]. Qed.
Lemma RS2 : run asys sys_event (mstepS [1; 2] 5) A10 schedA2 A21.
Proof. apply run_mstepS_of; [exact run_A21 | vm_compute; reflexivity]. Qed.
Lemma RS3 : run asys sys_event (mstepS [1; 2] 5) A10 [(1, ERemoveNode 2, 0)] B11.
Proof. apply run_mstepS_of; [exact run_B11 | vm_compute; reflexivity]. Qed.
Lemma ES_A21 : forall t x y, In (t, x) (sy_hist (fst A21)) -> In (t, y) (sy_hist (fst A21)) -> x = y.
Proof. exact (election_safety_membership_change_sys [1; 2] 5 Hn12 A0 A21 (sched10 ++ schedA2) minitS_A0 (run_app _ _ _ _ _ _ _ _ RS1 RS2)). Qed.
Lemma V10 : map node_view (sy_nodes (fst A10)) = [(1, Leader, 2, [1; 2], 2, 2%nat); (2, Follower, 2, [1; 2], 0, 2%nat); (3, Follower, 0, [], 0, 0%nat)].
Proof. vm_compute. reflexivity. Qed.
Lemma H21 : In (2, 1) (sy_hist (fst A21)) /\ In (3, 3) (sy_hist (fst A21)).
Proof. split; vm_compute; tauto. Qed.
Lemma LC_A : forall x b, In x (sy_nodes (fst A10)) -> In b (sy_nodes (fst A21)) -> n_role b = Leader -> p_term (n_p x) < p_term (n_p b) ->
     firstn (N.to_nat (n_commit x)) (p_log (n_p b)) = firstn (N.to_nat (n_commit x)) (p_log (n_p x)).
Proof.
  intros x b Hx Hb Hl Ht.
  exact (proj2 (leader_completeness_membership_change_sys [1; 2] 5 Hn12 A0 A10 A21 sched10 schedA2 minitS_A0 RS1 RS2 x b Hx Hb Hl Ht)).
Qed.
Lemma V21 : map node_view (sy_nodes (fst A21)) = [(1, Leader, 2, [1; 2; 3], 3, 3%nat); (2, Follower, 3, [1; 2; 3], 2, 3%nat); (3, Leader, 3, [1; 2; 3], 3, 3%nat)].
Proof. vm_compute. reflexivity. Qed.
Lemma VB11 : map node_view (sy_nodes (fst B11)) = [(1, Leader, 2, [1], 3, 3%nat); (2, Follower, 2, [1; 2], 0, 2%nat); (3, Follower, 0, [], 0, 0%nat)].
Proof. vm_compute. reflexivity. Qed.
Lemma ES_B11 : forall t x y, In (t, x) (sy_hist (fst B11)) -> In (t, y) (sy_hist (fst B11)) -> x = y.
Proof. exact (election_safety_membership_change_sys [1; 2] 5 Hn12 A0 B11 (sched10 ++ [(1, ERemoveNode 2, 0)]) minitS_A0 (run_app _ _ _ _ _ _ _ _ RS1 RS3)). Qed.
Lemma SMS_B : forall n1 n2 x y, In n1 (sy_nodes (fst A10)) -> In n2 (sy_nodes (fst B11)) -> In x (n_commits n1) -> In y (n_commits n2) ->
     e_index x = e_index y -> x = y.
Proof. exact (state_machine_safety_membership_change_sys [1; 2] 5 Hn12 A0 A10 B11 sched10 [(1, ERemoveNode 2, 0)] minitS_A0 RS1 RS3). Qed.
Lemma applied_B : existsb (fun s => existsb (fun y => e_index y =? 3) (n_commits s)) (sy_nodes (fst B11)) = true.
Proof. vm_compute. reflexivity. Qed.

(* run A: the hypotheses of the run-level theorems hold and their conclusions are instantiated *)
Example membership_change_run_A :
  minitS A0 /\ NoDup [1; 2] /\
  run asys sys_event (mstepS [1; 2] 5) A0 sched10 A10 /\ run asys sys_event (mstepS [1; 2] 5) A10 schedA2 A21 /\
  map node_view (sy_nodes (fst A10)) = [(1, Leader, 2, [1; 2], 2, 2%nat); (2, Follower, 2, [1; 2], 0, 2%nat); (3, Follower, 0, [], 0, 0%nat)] /\
  map node_view (sy_nodes (fst A21)) = [(1, Leader, 2, [1; 2; 3], 3, 3%nat); (2, Follower, 3, [1; 2; 3], 2, 3%nat); (3, Leader, 3, [1; 2; 3], 3, 3%nat)] /\
  (forall t x y, In (t, x) (sy_hist (fst A21)) -> In (t, y) (sy_hist (fst A21)) -> x = y) /\
  (In (2, 1) (sy_hist (fst A21)) /\ In (3, 3) (sy_hist (fst A21))) /\
  (forall x b, In x (sy_nodes (fst A10)) -> In b (sy_nodes (fst A21)) -> n_role b = Leader -> p_term (n_p x) < p_term (n_p b) ->
     firstn (N.to_nat (n_commit x)) (p_log (n_p b)) = firstn (N.to_nat (n_commit x)) (p_log (n_p x))).
Proof. exact (conj minitS_A0 (conj Hn12 (conj RS1 (conj RS2 (conj V10 (conj V21 (conj ES_A21 (conj H21 LC_A)))))))). Qed.

(* run B: after RemoveNode 2 the leader commits index 3 under the configuration 1 alone *)
Example membership_change_run_B :
  run asys sys_event (mstepS [1; 2] 5) A10 [(1, ERemoveNode 2, 0)] B11 /\
  map node_view (sy_nodes (fst B11)) = [(1, Leader, 2, [1], 3, 3%nat); (2, Follower, 2, [1; 2], 0, 2%nat); (3, Follower, 0, [], 0, 0%nat)] /\
  (forall t x y, In (t, x) (sy_hist (fst B11)) -> In (t, y) (sy_hist (fst B11)) -> x = y) /\
  (forall n1 n2 x y, In n1 (sy_nodes (fst A10)) -> In n2 (sy_nodes (fst B11)) -> In x (n_commits n1) -> In y (n_commits n2) ->
     e_index x = e_index y -> x = y) /\
  existsb (fun s => existsb (fun y => e_index y =? 3) (n_commits s)) (sy_nodes (fst B11)) = true.
Proof. exact (conj RS3 (conj VB11 (conj ES_B11 (conj SMS_B applied_B)))). Qed.
