(* Raft/NonMemberLeader.v — round 14: the three guards by which core_candidate.go and core_leader.go keep a node that is not a
   member of its latest configuration, once that configuration is committed, from being (or staying) candidate or leader:
   J s := the role is not Follower -> the latest configuration is committed -> the node is a member of it.
   (1) enterCandidate steps back to follower instead of campaigning (core_candidate.go: !inLatestConf && isLatestConfCommitted);
   (2) leaderCommitUpTo steps down when the commit makes the latest configuration committed and the node is not in it
       (core_leader.go: !wasCommitted && isLatestConfCommitted && !inLatestConf);
   (3) a configuration the leader itself sets (addNode / removeNode) has index lastIndex + 1, above the commit index, so it is
       uncommitted at that moment (verifyNopCommitted has read the term at the commit index: commit index <= lastIndex).
   Node level.  The reachable-state invariant J for all events is NOT assembled here, see notes/C02.md round 14. *)
From Coq Require Import List NArith ZArith Bool Lia ZifyN ZifyNat ZifyBool.
From BLB Require Import Raft.Core Raft.NodeProofs Raft.MemberConfTrack Raft.LeaderSuffixS.
Import ListNotations.
Open Scope N_scope.

Definition Jnm (s : node) : Prop :=
  n_role s <> Follower -> latest_conf_committed s = true -> in_latest_conf s = true.

(* (1) a non-member with committed configuration does not campaign *)
Lemma enter_candidate_guard s :
  in_latest_conf s = false -> latest_conf_committed s = true -> enter_candidate s = Ret (become_follower s 0).
Proof. intros H1 H2. unfold enter_candidate. rewrite H1, H2. reflexivity. Qed.

(* (2) the commit that makes a configuration without the leader committed makes the leader step down; J is preserved *)
Lemma leader_commit_up_to_guard s i s' :
  Jnm s -> leader_commit_up_to s i = Ret s' -> Jnm s'.
Proof.
  intros J. unfold leader_commit_up_to. pose proof (srx_commit_up_to s i) as K.
  destruct (commit_up_to s i) as [s1 | |] eqn:E; simpl; try discriminate.
  destruct K as [_ [_ [Kc Ki]]].
  assert (Em : in_latest_conf s1 = in_latest_conf s) by (unfold in_latest_conf; rewrite Kc, Ki; reflexivity).
  destruct (negb (latest_conf_committed s)) eqn:Ew; simpl.
  - destruct (latest_conf_committed s1) eqn:Ec; simpl.
    + destruct (in_latest_conf s1) eqn:Ei; simpl.
      * intro H. inversion H. subst. intros _ _. exact Ei.
      * intro H. inversion H. subst. intros Hr. exfalso. apply Hr. reflexivity.
    + intro H. inversion H. subst. intros _ X. congruence.
  - intro H. inversion H. subst. apply negb_false_iff in Ew. intros Hr _. rewrite Em. apply J; [| exact Ew].
    (* the role is not changed by commit_up_to *)
    intro X. apply Hr. revert E X. unfold commit_up_to.
    assert (Common : forall ents r, (let s2 := set_commit s i (n_restore s) (n_commits s ++ ents) in
               if negb (latest_conf_committed s) && latest_conf_committed s2
               then match n_conf s2 with Some c => do_mut (MFilterGuids (mb_members c)) s2 | None => Fatal F_PANIC end
               else Ret s2) = Ret r -> n_role s = Follower -> n_role r = Follower).
    { intros ents r. cbv zeta. destruct (negb (latest_conf_committed s) && latest_conf_committed (set_commit s i (n_restore s) (n_commits s ++ ents))).
      - destruct (n_conf (set_commit s i (n_restore s) (n_commits s ++ ents))); [| discriminate].
        unfold do_mut. destruct (negb _ && _); [discriminate|]. intro H9. inversion H9. simpl. auto.
      - intro H9. inversion H9. simpl. auto. }
    destruct (p_snap (n_p s)) as [m |].
    + destruct (n_commit s <? sn_index m).
      * destruct (negb (sn_index m =? i)); [discriminate|]. intro H9. inversion H9. simpl. auto.
      * destruct (log_entries (n_p s) (n_commit s + 1) (i + 1)) as [ents | |]; simpl; try discriminate. apply Common.
    + destruct (log_entries (n_p s) (n_commit s + 1) (i + 1)) as [ents | |]; simpl; try discriminate. apply Common.
Qed.

(* (3) a configuration set by the leader itself is uncommitted when it is set *)
Lemma verify_nop_commit_le s : verify_nop_committed s = Ret tt -> n_commit s <= last_index (n_p s).
Proof.
  unfold verify_nop_committed. destruct (st_term (n_p s) (n_commit s)) as [r | |] eqn:E; simpl; try discriminate.
  intros _. exact (st_term_le _ _ _ E).
Qed.

Lemma own_conf_uncommitted s nc :
  verify_nop_committed s = Ret tt -> mb_index nc = last_index (n_p s) + 1 ->
  latest_conf_committed (set_conf s (Some nc)) = false.
Proof.
  intros Hv Hi. pose proof (verify_nop_commit_le s Hv) as Hle. unfold latest_conf_committed. simpl. apply N.leb_gt. lia.
Qed.
