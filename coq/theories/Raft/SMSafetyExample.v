(* Raft/SMSafetyExample.v — non-vacuity of applied_entries_agree_sys: the run of Raft/LogMatchExample.v continued by the
   delivery of the follower's acknowledgement (the leader commits and applies entries 1..2) and of the leader's next
   AppEnts carrying commit index 2 (the follower applies entries 1..2): two different nodes, at two different moments,
   hand the same entry (index 2, term 2) to the state machine. *)
From Coq Require Import List NArith ZArith Bool Lia.
From BLB Require Import Lib.LTS Raft.Core Raft.Wire Raft.Election Raft.ElectionExample Raft.NodeConf Raft.ElectionFixed
  Raft.LogMatchLists Raft.LogMatchNode Raft.LogMatch Raft.LogMatchExample Raft.SMSafety.
Import ListNotations.
Open Scope N_scope.

Definition l12 := apply_step l11 1 (EDeliver m10) 0.     (* leader counts the acknowledgement: commit = 2, applies 1..2 *)
Definition m12 := Eval vm_compute in nthmsg l12 7.       (* AppEnts prev=(2,2) commit=2 *)
Definition l13 := apply_step l12 2 (EDeliver m12) 0.     (* follower commits and applies 1..2 *)

Definition sm_sched1 : list sys_event := lm_sched ++ [(1, EDeliver m10, 0)].
Definition sm_sched2 : list sys_event := [(2, EDeliver m12, 0)].

Example applied_entries_nonvacuous :
  exists σ0 σ1 σ2 sched1 sched2 a b x,
    linit σ0 /\ (forall s, In s (sy_nodes σ0) -> n_commits s = []) /\
    run sys sys_event (lstep (length (sy_nodes σ0)) [1; 2] 5) σ0 sched1 σ1 /\
    run sys sys_event (lstep (length (sy_nodes σ0)) [1; 2] 5) σ1 sched2 σ2 /\
    In a (sy_nodes σ1) /\ In b (sy_nodes σ2) /\ n_id a <> n_id b /\
    In x (n_commits a) /\ In x (n_commits b) /\ e_index x = 2 /\ e_term x = 2.
Proof.
  exists l0, l12, l13, sm_sched1, sm_sched2, (nth 0 (sy_nodes l12) (mk_node 1)), (nth 1 (sy_nodes l13) (mk_node 1)),
    {| e_term := 2; e_index := 2; e_type := EntryNormal; e_pl := [42%Z] |}.
  split; [| split; [| split; [| split]]].
  - split.
    + unfold sinit2. split; [| split; [| auto]].
      * simpl. constructor; [simpl; intros [H | []]; discriminate | constructor; [simpl; tauto | constructor]].
      * intros s [H | [H | []]]; subst s; (split; [vm_compute; discriminate|]; split; [reflexivity|]);
          unfold sok, pok; vm_compute; repeat split; auto.
    + intros s [H | [H | []]]; subst s; vm_compute; auto.
  - intros s [H | [H | []]]; subst s; vm_compute; reflexivity.
  - change (length (sy_nodes l0)) with 2%nat. unfold sm_sched1, lm_sched. simpl app.
    apply run_cons with (s1 := l1); [lstep_plain; repeat split; auto|].
    apply run_cons with (s1 := l2); [lstep_plain|].
    apply run_cons with (s1 := l3); [lstep_plain|].
    apply run_cons with (s1 := l4); [lstep_deliver|].
    apply run_cons with (s1 := l5); [lstep_deliver|].
    apply run_cons with (s1 := l6); [lstep_plain; constructor; [unfold eok; vm_compute; exact Logic.I | constructor]|].
    apply run_cons with (s1 := l7); [lstep_deliver|].
    apply run_cons with (s1 := l8); [lstep_deliver|].
    apply run_cons with (s1 := l9); [lstep_deliver|].
    apply run_cons with (s1 := l10); [lstep_deliver|].
    apply run_cons with (s1 := l11); [lstep_deliver|].
    apply run_cons with (s1 := l12); [lstep_deliver|].
    apply run_nil.
  - change (length (sy_nodes l0)) with 2%nat. unfold sm_sched2.
    apply run_cons with (s1 := l13); [lstep_deliver|]. apply run_nil.
  - split; [vm_compute; auto|]. split; [vm_compute; auto|]. split; [vm_compute; discriminate|].
    split; [vm_compute; auto|]. split; [vm_compute; auto|]. split; reflexivity.
Qed.
