(* Raft/MemberConfStep.v — round 6, node level: how the configuration a LEADER holds moves.

   cfx_* : the pass of NodeKeep.v once more (generated from it by renaming) for the relation "n_conf is unchanged":
           everything a leader does except AddNode / RemoveNode (append, replicate, commit, heartbeat, handle acks).
   add_node_conf / remove_node_conf : an ACCEPTED change (status E_NONE) was issued with the latest configuration
           committed and an entry of the current term committed, replaces the configuration C by C ++ [member]
           (member not in C) resp. C minus member (member in C), stamped with index last+1; a refused one changes nothing.
   leader_conf_step : over any event, crash variants included, a node that is leader of the same term before and after
           holds the same configuration or one that differs by exactly the added / removed member. *)
From Coq Require Import List NArith ZArith Bool Lia ZifyN ZifyNat ZifyBool.
From BLB Require Import Raft.Core Raft.NodeProofs Raft.NodeKeep Raft.NodeKeepV Raft.NodeElect Raft.MembershipQuorum
  Raft.MemberNode.
Import ListNotations.
Open Scope N_scope.

Definition cf (s s' : node) : Prop := n_conf s' = n_conf s.
Lemma cf_refl s : cf s s. Proof. reflexivity. Qed.
Lemma cf_trans a b c : cf a b -> cf b c -> cf a c. Proof. unfold cf. congruence. Qed.

Definition cfx (s : node) (r : R node) : Prop := match r with Ret s' => cf s s' | _ => True end.
Definition cfx2 (s : node) (r : R (N * node)) : Prop := match r with Ret (_, s') => cf s s' | _ => True end.

Lemma cfx_bind s (a : R node) (f : node -> R node) :
  cfx s a -> (forall s1, cfx s1 (f s1)) -> cfx s (bind a f).
Proof.
  intros Ha Hf. destruct a as [s1 | c | p]; simpl in *; auto.
  specialize (Hf s1). destruct (f s1); simpl in *; auto. eapply cf_trans; eauto.
Qed.

Lemma cfx_bind_pure {A} s (a : R A) (f : A -> R node) :
  (forall x, a = Ret x -> cfx s (f x)) -> cfx s (bind a f).
Proof. intros Hf. destruct a; simpl in *; auto. Qed.

Lemma cfx_pre s s' r : cf s s' -> cfx s' r -> cfx s r.
Proof. intros H K. destruct r; simpl in *; auto. eapply cf_trans; eauto. Qed.

Ltac kvolC := unfold cf; simpl; auto.
Ltac ksendC := unfold cf; simpl; auto.
Ltac kleafC := simpl; first [ solve [kvolC] | solve [ksendC] ].

Lemma cfx_do_mut s m : True -> cfx s (do_mut m s).
Proof.
  intros _. unfold do_mut. destruct (negb (n_budget s =? 0) && (n_budget s =? n_cnt s + 1)); simpl; auto.
  reflexivity.
Qed.

(* ---------------------------------------------------------------- handlers *)
Lemma cfx_log_append s es : cfx s (log_append s es).
Proof.
  unfold log_append. apply cfx_bind; [apply cfx_do_mut; exact I|].
  intros s1. destruct (snd (mem_append (p_log (n_p s)) es)); simpl; auto using cf_refl.
Qed.

Lemma cfx_commit_up_to s i : cfx s (commit_up_to s i).
Proof.
  unfold commit_up_to.
  match goal with |- cfx s (match ?x with _ => _ end) => destruct x end.
  - destruct (negb (sn_index s0 =? i)); simpl; auto. kvolC.
  - apply cfx_bind_pure. intros ents _.
    match goal with |- cfx s (if ?c then _ else _) => destruct c end; [| kleafC].
    match goal with |- cfx s (match ?x with _ => _ end) => destruct x eqn:E end; simpl; auto.
    eapply cfx_pre; [| apply cfx_do_mut; exact I]. kvolC.
Qed.

Lemma cfx_trim_log s i : cfx s (trim_log s i).
Proof.
  unfold trim_log. destruct (log_first (p_log (n_p s))); [| kleafC]. destruct (log_last (p_log (n_p s))); [| kleafC].
  destruct (i =? n - 1); [kleafC|]. destruct ((i <? n) || (n0 <? i)); simpl; auto.
  destruct (i - n <? cf_keep (n_cfg s)); [kleafC|]. apply cfx_do_mut; exact I.
Qed.

Lemma cfx_send_app_ents s p : cfx s (send_app_ents s p).
Proof.
  unfold send_app_ents. apply cfx_bind_pure. intros ob Hob.
  destruct ob as [b |].
  - apply get_app_ents_body in Hob. simpl. ksendC.
  - destruct (p_snap (n_p s)); simpl; auto. destruct (sn_conf s0); simpl; auto. ksendC.
Qed.

Lemma cfx_for_peers ids f s :
  (forall s1 p, cfx s1 (f s1 p)) -> cfx s (for_peers ids f s).
Proof.
  intro Hf. revert s. induction ids as [| id r IH]; intros s; simpl.
  - apply cf_refl.
  - destruct (peer_get id (l_peers s)); auto. apply cfx_bind; auto.
Qed.

Lemma cfx_leader_commit_up_to s i : cfx s (leader_commit_up_to s i).
Proof.
  unfold leader_commit_up_to. apply cfx_bind; [apply cfx_commit_up_to|]. intros s1.
  match goal with |- cfx s1 (if ?c then _ else _) => destruct c end; kleafC.
Qed.

Lemma cfx_leader_maybe_commit s : cfx s (leader_maybe_commit s).
Proof.
  unfold leader_maybe_commit. apply cfx_bind_pure. intros mi _.
  destruct (n_commit s <? mi); [| kleafC].
  apply cfx_bind_pure. intros [t ok] _.
  destruct (negb ok); simpl; auto. destruct (negb (t =? p_term (n_p s))); [kleafC|].
  apply cfx_bind; [apply cfx_leader_commit_up_to|]. intros s1.
  apply cfx_for_peers. intros s2 p. destruct (pr_match p =? last_index (n_p s2)); [apply cfx_send_app_ents | kleafC].
Qed.

Lemma cfx_fold_enter (others : list nid) li : forall (acc : R node) s,
  cfx s acc ->
  cfx s (fold_left (fun (acc : R node) (m : nid) =>
                     a <- acc ;;
                     let p := mk_peer m (li + 1) 0 false 0 0 in
                     let a1 := set_leader a (l_check a) (peer_set p (l_peers a)) in
                     send_app_ents a1 p) others acc).
Proof.
  induction others as [| m r IH]; intros acc s H; simpl; auto.
  apply IH. apply cfx_bind; auto. intros s1.
  eapply cfx_pre; [| apply cfx_send_app_ents]. kvolC.
Qed.

Lemma cfx_enter_leader s : cfx s (enter_leader s).
Proof.
  unfold enter_leader. destruct (n_conf s); simpl; auto.
  apply cfx_bind.
  - apply cfx_fold_enter. kleafC.
  - intros s1. destruct (l_peers s1); [apply cfx_leader_maybe_commit | kleafC].
Qed.

Lemma cfx_tick_leader s : cfx s (tick_leader s).
Proof.
  unfold tick_leader. apply cfx_bind.
  - apply cfx_for_peers. intros s2 p. destruct (should_send s2 p); [apply cfx_send_app_ents | kleafC].
  - intros s1.
    match goal with |- cfx s1 (if ?c then _ else _) => destruct c end; [| kleafC].
    apply cfx_bind_pure. intros ok _. destruct ok; kleafC.
Qed.

Lemma cfx_handle_app_ents_resp s from su ix hi : cfx s (handle_app_ents_resp s from su ix hi).
Proof.
  unfold handle_app_ents_resp. destruct (peer_get from (l_peers s)); [| kleafC].
  destruct (ix <? pr_match p); [kleafC|]. destruct (negb su).
  - eapply cfx_pre; [| apply cfx_send_app_ents]. kvolC.
  - match goal with |- cfx s (if ?c then _ else _) => destruct c end; simpl; auto.
    apply cfx_bind.
    + match goal with |- cfx s (if ?c then _ else _) => destruct c end.
      * eapply cfx_pre; [| apply cfx_send_app_ents]. kvolC.
      * kleafC.
    + intros s2. apply cfx_leader_maybe_commit.
Qed.

Lemma cfx_leader_propose s es : cfx s (leader_propose s es).
Proof.
  unfold leader_propose. apply cfx_bind; [apply cfx_log_append|]. intros s1.
  apply cfx_bind.
  - apply cfx_for_peers. intros s3 p.
    match goal with |- cfx s3 (if ?c then _ else _) => destruct c end; [apply cfx_send_app_ents | kleafC].
  - intros s2. destruct (l_peers s2); [apply cfx_leader_maybe_commit | kleafC].
Qed.


(* ---------------------------------------------------------------- AddNode / RemoveNode at the leader *)
Definition conf_add (o o' : option membership) (x : nid) : Prop :=
  exists c c', o = Some c /\ o' = Some c' /\ mb_members c' = mb_members c ++ [x] /\ ~ In x (mb_members c).
Definition conf_del (o o' : option membership) (x : nid) : Prop :=
  exists c c', o = Some c /\ o' = Some c' /\
               mb_members c' = filter (fun m => negb (m =? x)) (mb_members c) /\ In x (mb_members c).

Lemma memb_false x l : memb x l = false -> ~ In x l.
Proof.
  unfold memb. intros H Hin. assert (X : existsb (N.eqb x) l = true).
  { apply existsb_exists. exists x. split; [exact Hin | apply N.eqb_refl]. }
  congruence.
Qed.

Definition settled (s : node) : Prop :=
  latest_conf_committed s = true /\ exists t, st_term (n_p s) (n_commit s) = Ret (t, true) /\ t = p_term (n_p s).
(* i.e. the latest configuration is committed and the entry at the commit index is of the node's current term *)

Lemma verify_nop_settled s : verify_nop_committed s = Ret tt -> latest_conf_committed s = true -> settled s.
Proof.
  unfold verify_nop_committed. destruct (st_term (n_p s) (n_commit s)) as [[t ok] | |] eqn:Et; simpl; try discriminate.
  destruct ok; simpl; [| discriminate]. destruct (p_term (n_p s) =? t) eqn:Ep; simpl; [| discriminate].
  intros _ Hl. split; [exact Hl|]. exists t. split; [exact Et|]. apply N.eqb_eq in Ep. auto.
Qed.

Lemma add_node_conf s member rnd st s' :
  leader_add_node s member rnd = Ret (st, s') ->
  (st <> E_NONE /\ s' = s) \/
  (st = E_NONE /\ settled s /\ conf_add (n_conf s) (n_conf s') member /\
   exists c', n_conf s' = Some c' /\ mb_index c' = last_index (n_p s) + 1 /\ mb_term c' = p_term (n_p s)).
Proof.
  unfold leader_add_node. destruct (verify_nop_committed s) as [[] | |] eqn:Ev; simpl; try discriminate.
  destruct (n_conf s) as [c |] eqn:Ec; [| discriminate].
  destruct (memb member (mb_members c)) eqn:Em.
  { intro H. inversion H. left. split; [discriminate | reflexivity]. }
  destruct (latest_conf_committed s) eqn:El; simpl.
  2: { intro H. inversion H. left. split; [discriminate | reflexivity]. }
  cbv zeta.
  match goal with |- bind (leader_propose ?x ?es) _ = _ -> _ =>
    pose proof (cfx_leader_propose x es) as K; destruct (leader_propose x es) as [s3 | |]; simpl; try discriminate end.
  intro H. inversion H. subst. right. simpl in K. unfold cf in K. simpl in K.
  split; [reflexivity|]. split; [apply verify_nop_settled; auto|]. split.
  - eexists _, _. split; [reflexivity|]. split; [exact K|]. split; [reflexivity|]. apply memb_false. exact Em.
  - eexists. split; [exact K|]. split; reflexivity.
Qed.

Lemma remove_node_conf s member st s' :
  leader_remove_node s member = Ret (st, s') ->
  (st <> E_NONE /\ s' = s) \/
  (st = E_NONE /\ settled s /\ conf_del (n_conf s) (n_conf s') member /\
   exists c', n_conf s' = Some c' /\ mb_index c' = last_index (n_p s) + 1 /\ mb_term c' = p_term (n_p s)).
Proof.
  unfold leader_remove_node. destruct (verify_nop_committed s) as [[] | |] eqn:Ev; simpl; try discriminate.
  destruct (n_conf s) as [c |] eqn:Ec; [| discriminate].
  destruct (memb member (mb_members c)) eqn:Em; simpl.
  2: { intro H. inversion H. left. split; [discriminate | reflexivity]. }
  destruct (latest_conf_committed s) eqn:El; simpl.
  2: { intro H. inversion H. left. split; [discriminate | reflexivity]. }
  cbv zeta.
  match goal with |- bind (leader_propose ?x ?es) _ = _ -> _ =>
    pose proof (cfx_leader_propose x es) as K; destruct (leader_propose x es) as [s3 | |]; simpl; try discriminate end.
  pose proof (cfx_leader_maybe_commit s3) as K2. destruct (leader_maybe_commit s3) as [s4 | |]; simpl; try discriminate.
  intro H. inversion H. subst. right. simpl in K, K2. unfold cf in K, K2. simpl in K. rewrite K in K2.
  split; [reflexivity|]. split; [apply verify_nop_settled; auto|]. split.
  - eexists _, _. split; [reflexivity|]. split; [exact K2|]. split; [reflexivity|]. apply memb_In. exact Em.
  - eexists. split; [exact K2|]. split; reflexivity.
Qed.

(* ---------------------------------------------------------------- a leader's configuration over any event *)
Lemma handle_msg_leader_conf s m s' :
  n_msgs s = [] -> handle_msg s m = Ret s' -> n_role s = Leader -> n_role s' = Leader -> n_conf s' = n_conf s.
Proof.
  intros Hm H Hr Hr'. revert H. unfold handle_msg.
  destruct ((negb (m_to m =? 0) && negb (m_to m =? n_id s)) || (negb (m_tog m =? 0) && negb (m_tog m =? p_guid (n_p s)))).
  { intro H. inversion H. reflexivity. }
  destruct (negb (guid_get (m_from m) (p_guids (n_p s)) =? 0) && negb (guid_get (m_from m) (p_guids (n_p s)) =? m_fromg m)).
  { intro H. inversion H. reflexivity. }
  assert (H1 : forall s1, (if guid_get (m_from m) (p_guids (n_p s)) =? 0 then do_mut (MSetGuid (m_from m) (m_fromg m)) s else Ret s) = Ret s1 ->
               n_conf s1 = n_conf s /\ n_role s1 = n_role s /\ n_msgs s1 = []).
  { intros s1. destruct (guid_get (m_from m) (p_guids (n_p s)) =? 0).
    - unfold do_mut. destruct (negb (n_budget s =? 0) && (n_budget s =? n_cnt s + 1)); [discriminate|].
      intro E. inversion E. simpl. auto.
    - intro E. inversion E. subst. auto. }
  destruct (if guid_get (m_from m) (p_guids (n_p s)) =? 0 then do_mut (MSetGuid (m_from m) (m_fromg m)) s else Ret s) as [s1 | |];
    simpl; try discriminate.
  destruct (H1 s1 eq_refl) as [C1 [R1 M1]].
  match goal with |- (if ?c then _ else _) = _ -> _ => destruct c end.
  { intro H. inversion H. subst. exact C1. }
  destruct (m_term m <? p_term (n_p s1)).
  { intro H. inversion H. subst. exact C1. }
  destruct (p_term (n_p s1) <? m_term m).
  - assert (H2 : forall s2,
               (match m_body m with
                | AppEnts _ _ _ _ | InstallSnap _ _ _ =>
                    s'0 <- do_mut (MSaveState (m_from m) (m_term m)) s1 ;; Ret (become_follower s'0 (m_from m))
                | VoteReq _ _ => s'0 <- do_mut (MSaveState 0 (m_term m)) s1 ;; Ret (become_follower s'0 0)
                | _ => Fatal F_RESP_HIGHER_TERM
                end) = Ret s2 -> n_msgs s2 = [] /\ n_role s2 = Follower).
    { intros s2. destruct (m_body m); try discriminate;
        unfold do_mut; destruct (negb (n_budget s1 =? 0) && (n_budget s1 =? n_cnt s1 + 1)); simpl; try discriminate;
        intro X; inversion X; simpl; split; congruence. }
    match goal with |- bind ?a _ = _ -> _ => destruct a as [s2 | |] end; simpl; try discriminate.
    destruct (H2 s2 eq_refl) as [M2 R2].
    unfold handle_by_role. rewrite R2. intro H. apply handle_follower_sum in H; auto.
    destruct H as [_ [_ [_ [T _]]]]. exfalso. destruct T; congruence.
  - simpl. unfold handle_by_role. rewrite R1, Hr. unfold handle_leader. destruct (m_body m).
    + discriminate.
    + intro H. pose proof (cfx_handle_app_ents_resp s1 (m_from m) success index hint) as K. rewrite H in K.
      simpl in K. unfold cf in K. congruence.
    + intro H. inversion H. subst. simpl. exact C1.
    + intro H. inversion H. subst. exact C1.
    + discriminate.
Qed.

Definition conf_moved (s : node) (ev : event) (st : N) (s' : node) : Prop :=
  settled s /\ st = E_NONE /\
  ((exists x rnd, ev = EAddNode x rnd /\ conf_add (n_conf s) (n_conf s') x) \/
   (exists x, ev = ERemoveNode x /\ conf_del (n_conf s) (n_conf s') x)).

Lemma run_event_leader_conf s ev st s' :
  n_msgs s = [] -> run_event s ev = Ret (st, s') -> n_role s = Leader -> n_role s' = Leader ->
  n_conf s' = n_conf s \/ conf_moved s ev st s'.
Proof.
  intros Hm H Hr Hr'. revert H. destruct ev; simpl.
  - unfold propose_initial_membership. rewrite Hr. intro H. inversion H. left. reflexivity.
  - unfold wrap0. destruct (handle_msg s m) as [x | |] eqn:E; simpl; try discriminate.
    intro H. inversion H. subst. left. eapply handle_msg_leader_conf; eauto.
  - unfold wrap0. destruct (tick s) as [x | |] eqn:E; simpl; try discriminate.
    intro H. inversion H. subst. left. revert E. unfold tick. simpl. rewrite Hr. intro E.
    match type of E with tick_leader ?x = _ => pose proof (cfx_tick_leader x) as K end. rewrite E in K.
    simpl in K. unfold cf in K. simpl in K. exact K.
  - unfold propose. rewrite Hr. pose proof (cfx_leader_propose s es) as K.
    destruct (leader_propose s es) as [x | |]; simpl; try discriminate. intro H. inversion H. subst. left. exact K.
  - unfold add_node. rewrite Hr. intro H. apply add_node_conf in H.
    destruct H as [[_ E] | [E1 [E2 [E3 _]]]]; [left; subst; reflexivity | right].
    split; [exact E2|]. split; [exact E1|]. left. exists member, rnd. auto.
  - unfold remove_node. rewrite Hr. intro H. apply remove_node_conf in H.
    destruct H as [[_ E] | [E1 [E2 [E3 _]]]]; [left; subst; reflexivity | right].
    split; [exact E2|]. split; [exact E1|]. right. exists member. auto.
  - unfold wrap0. destruct (snapshot_done s m) as [x | |] eqn:E; simpl; try discriminate.
    intro H. inversion H. subst. left. apply snapshot_done_conf in E. exact E.
  - unfold wrap0. pose proof (new_core_pext (n_id s) (n_cfg s) (n_p s)) as P.
    destruct (new_core (n_id s) (n_cfg s) (n_p s)) as [x | |]; simpl; try discriminate.
    intro H. inversion H. subst. destruct P as [_ [_ [_ [Rl _]]]]. congruence.
Qed.

(* over one step of the system's node, crash variants included *)
Theorem leader_conf_step s ev k crashed st s' :
  run_event_crash (settle s) ev k = Ret (crashed, st, s') -> n_role s = Leader -> n_role s' = Leader ->
  n_conf s' = n_conf s \/ conf_moved s ev st s'.
Proof.
  unfold run_event_crash.
  destruct (run_event (with_budget (settle s) k) ev) as [[st0 x] | c | p] eqn:E; try discriminate.
  - intro H. inversion H. subst. intros Hr Hr'.
    apply run_event_leader_conf in E; [| reflexivity | exact Hr | exact Hr']. exact E.
  - pose proof (new_core_pext (n_id (settle s)) (n_cfg (settle s)) p) as Q.
    destruct (new_core (n_id (settle s)) (n_cfg (settle s)) p) as [s2 | c | q]; simpl; try discriminate.
    intro H. inversion H. subst. destruct Q as [_ [_ [_ [Rl _]]]]. intros _ X. congruence.
Qed.

(* an accepted single-server change yields an ADJACENT configuration: one is the other plus exactly one member *)
Lemma conf_add_adj o o' x : conf_add o o' x ->
  exists c c', o = Some c /\ o' = Some c' /\ incl (mb_members c) (mb_members c') /\
               length (mb_members c') = S (length (mb_members c)).
Proof.
  intros [c [c' [A [B [C D]]]]]. exists c, c'. split; [exact A|]. split; [exact B|]. rewrite C. split.
  - intros v Hv. apply in_or_app. left. exact Hv.
  - rewrite app_length. simpl. lia.
Qed.

Lemma conf_del_adj o o' x : conf_del o o' x ->
  forall c, o = Some c -> NoDup (mb_members c) ->
  exists c', o' = Some c' /\ incl (mb_members c') (mb_members c) /\
             length (mb_members c) = S (length (mb_members c')).
Proof.
  intros [c0 [c' [A [B [C D]]]]] c Hc Hn. assert (c0 = c) by congruence. subst c0.
  exists c'. split; [exact B|]. rewrite C. split.
  - intros v Hv. apply filter_In in Hv. tauto.
  - apply filter_one_length; auto.
Qed.
