(* Raft/LeaderSuffixSExample.v — round 9, non-vacuity of leader_commits_own_suffix_snap: node 1 of the combined run of
   Raft/CombinedExample.v at C17 (leader of term 2, log trimmed to nothing behind the snapshot of index 3, commit index 3)
   proposes one command, a tick passes, and the acknowledgement of node 3 (which had installed the snapshot) arrives. *)
From Coq Require Import List NArith ZArith Bool Lia.
From BLB Require Import Lib.LTS Raft.Core Raft.Wire Raft.Election Raft.ElectionExample Raft.LogMatchLists
  Raft.LogMatchExample Raft.LeaderSuffix Raft.LeaderSuffixExample Raft.MemberVotes Raft.MemberVotesExample
  Raft.SnapContig Raft.CombinedExample Raft.LeaderSuffixS.
Import ListNotations.
Open Scope N_scope.

Definition D18 := apply_step (fst C17) 1 (EPropose [e3]) 0.
Definition d18 := Eval vm_compute in nthmsg D18 14.          (* AppEnts 1 -> 3 carrying entry 4 *)
Definition D19 := apply_step D18 3 (EDeliver d18) 0.
Definition d19 := Eval vm_compute in nthmsg D19 15.          (* AppEntsResp true 4, 3 -> 1 *)

Definition sld0 : node := Eval vm_compute in nth 0 (sy_nodes (fst C17)) (mk_node 1).
Definition sld1 : node := Eval vm_compute in step_node sld0 (EPropose [e3]).
Definition sld2 : node := Eval vm_compute in step_node sld1 ETick.
Definition sld3 : node := Eval vm_compute in step_node sld2 (EDeliver d19).

Lemma sld0_start : loop_start_snap sld0.
Proof. unfold loop_start_snap. split; [reflexivity|]. split; [vm_compute; repeat split|]. split; [vm_compute; discriminate | vm_compute; reflexivity]. Qed.

Lemma sld0_snap : p_log (n_p sld0) = [] /\ option_map sn_index (p_snap (n_p sld0)) = Some 3 /\ n_commit sld0 = 3.
Proof. vm_compute. auto. Qed.

Example leader_suffix_snap_nonvacuous :
  exists s0 evs st,
    loop_start_snap s0 /\ ~ loop_start s0 /\
    p_log (n_p s0) = [] /\ option_map sn_index (p_snap (n_p s0)) = Some 3 /\ n_commit s0 = 3 /\
    loop_run {| lp_node := s0; lp_prop := []; lp_comm := [] |} evs st /\
    lp_comm st = [{| e_term := 2; e_index := 4; e_type := EntryNormal; e_pl := [43%Z] |}] /\
    lp_prop st = lp_comm st /\ length evs = 3%nat.
Proof.
  exists sld0, [EPropose [e3]; ETick; EDeliver d19].
  eexists. split; [exact sld0_start|]. split; [intros [_ [H _]]; vm_compute in H; discriminate H|].
  destruct sld0_snap as [A [B C]]. split; [exact A|]. split; [exact B|]. split; [exact C|]. split.
  - eapply loop_cons.
    { apply (loop_step_exec _ (EPropose [e3]) 0 sld1); [exact I | vm_compute; reflexivity | reflexivity | reflexivity]. }
    eapply loop_cons.
    { apply (loop_step_exec _ ETick 0 sld2); [exact I | vm_compute; reflexivity | reflexivity | reflexivity]. }
    eapply loop_cons.
    { apply (loop_step_exec _ (EDeliver d19) 0 sld3); [exact I | vm_compute; reflexivity | reflexivity | reflexivity]. }
    apply loop_nil.
  - vm_compute. auto.
Qed.
