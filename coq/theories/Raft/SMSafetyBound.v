(* Raft/SMSafetyBound.v — node-level pass: the entries an event hands to the state machine have indices up to the commit index
   the event ends with (they come from commitUpTo's log_entries (commit+1) (index+1)).  Same skeleton as Raft/NodeMono.v. *)
From Coq Require Import List NArith ZArith Bool Lia.
From BLB Require Import Raft.Core Raft.NodeProofs.
Import ListNotations.
Open Scope N_scope.

Definition cbound (s : node) : Prop := forall x, In x (n_commits s) -> e_index x <= n_commit s.

Definition bd (s s' : node) : Prop := n_commit s <= n_commit s' /\ (cbound s -> cbound s').

Lemma bd_refl s : bd s s.
Proof. split; [lia | auto]. Qed.

Lemma bd_trans a b c : bd a b -> bd b c -> bd a c.
Proof. intros [A1 A2] [B1 B2]. split; [lia | auto]. Qed.

Lemma bd_vol s s' : n_commit s' = n_commit s -> n_commits s' = n_commits s -> bd s s'.
Proof. intros A B. unfold bd, cbound. rewrite A, B. split; [lia | auto]. Qed.

Definition bx (s : node) (r : R node) : Prop := match r with Ret s' => bd s s' | _ => True end.
Definition bx2 (s : node) (r : R (N * node)) : Prop := match r with Ret (_, s') => bd s s' | _ => True end.

Lemma bx_bind s (a : R node) (f : node -> R node) :
  bx s a -> (forall s1, bx s1 (f s1)) -> bx s (bind a f).
Proof.
  intros Ha Hf. destruct a as [s1 | c | p]; simpl in *; auto.
  specialize (Hf s1). destruct (f s1); simpl in *; auto. eapply bd_trans; eauto.
Qed.

Lemma bx_bind_pure {A} s (a : R A) (f : A -> R node) :
  (forall x, a = Ret x -> bx s (f x)) -> bx s (bind a f).
Proof. intros Hf. destruct a; simpl in *; auto. Qed.

Lemma bx_pre s s' r : bd s s' -> bx s' r -> bx s r.
Proof. intros H K. destruct r; simpl in *; auto. eapply bd_trans; eauto. Qed.

Lemma bx2_bind s (a : R node) (f : node -> R (N * node)) :
  bx s a -> (forall s1, bx2 s1 (f s1)) -> bx2 s (bind a f).
Proof.
  intros Ha Hf. destruct a as [s1 | c | p]; simpl in *; auto.
  specialize (Hf s1). destruct (f s1) as [[st s2] | |]; simpl in *; auto. eapply bd_trans; eauto.
Qed.

Lemma bx2_bind_pure {A} s (a : R A) (f : A -> R (N * node)) :
  (forall x, a = Ret x -> bx2 s (f x)) -> bx2 s (bind a f).
Proof. intros Hf. destruct a; simpl in *; auto. Qed.

Lemma bx2_pre s s' r : bd s s' -> bx2 s' r -> bx2 s r.
Proof. intros H K. destruct r as [[st x] | |]; simpl in *; auto. eapply bd_trans; eauto. Qed.

Lemma bx2_of_bx s r st : bx s r -> bx2 s (s1 <- r ;; Ret (st, s1)).
Proof. destruct r; simpl; auto. Qed.

Ltac kvol := apply bd_vol; reflexivity.
Ltac kleaf := simpl; solve [kvol].
Ltac ksend := kleaf.

Lemma bx_do_mut s m : bx s (do_mut m s).
Proof.
  unfold do_mut. destruct (negb (n_budget s =? 0) && (n_budget s =? n_cnt s + 1)); simpl; auto. kvol.
Qed.

Lemma entries_loop_bound l b e es : entries_loop l b e = Ret es -> forall x, In x es -> e_index x < e.
Proof.
  revert b es. induction l as [| y r IH]; intros b es; simpl.
  - intro H. inversion H. intros x [].
  - destruct (negb (e_index y =? b)); [discriminate|]. destruct (e <=? e_index y) eqn:E; [intro H; inversion H; intros x []|].
    apply N.leb_gt in E. destruct (entries_loop r (b + 1) e) eqn:E2; simpl; try discriminate.
    intro H. inversion H. subst. intros x [Hx | Hx]; [subst; exact E | eapply IH; eauto].
Qed.

(* ---------------------------------------------------------------- handlers *)
Lemma bx_log_append s es : bx s (log_append s es).
Proof.
  unfold log_append. apply bx_bind; [apply bx_do_mut|].
  intros s1. destruct (snd (mem_append (p_log (n_p s)) es)); simpl; auto using bd_refl.
Qed.

Lemma bd_commit s i r ents :
  n_commit s <= i -> (forall x, In x ents -> e_index x <= i) -> bd s (set_commit s i r (n_commits s ++ ents)).
Proof.
  intros Hi He. unfold bd, cbound. simpl. split; [exact Hi|]. intros H x Hx. apply in_app_or in Hx.
  destruct Hx as [Hx | Hx]; [specialize (H x Hx); lia | auto].
Qed.

Lemma bx_commit_up_to s i : n_commit s <= i -> bx s (commit_up_to s i).
Proof.
  intro Hi. unfold commit_up_to.
  match goal with |- bx s (match ?x with _ => _ end) => destruct x eqn:Ex end.
  - destruct (negb (sn_index s0 =? i)) eqn:E; simpl; auto. apply negb_false_iff in E. apply N.eqb_eq in E.
    unfold bd, cbound. simpl. split; [lia|]. intros H x Hx. specialize (H x Hx). lia.
  - apply bx_bind_pure. intros ents He.
    assert (Hb : forall x, In x ents -> e_index x <= i).
    { intros x Hx. unfold log_entries in He. pose proof (entries_loop_bound _ _ _ _ He x Hx). lia. }
    match goal with |- bx s (if ?c then _ else _) => destruct c end; [| simpl; apply bd_commit; auto].
    match goal with |- bx s (match ?x with _ => _ end) => destruct x eqn:E2 end; simpl; auto.
    eapply bx_pre; [apply bd_commit; [exact Hi | exact Hb] | apply bx_do_mut].
Qed.

Lemma bx_trim_log s i : bx s (trim_log s i).
Proof.
  unfold trim_log. destruct (log_first (p_log (n_p s))); [| kleaf]. destruct (log_last (p_log (n_p s))); [| kleaf].
  destruct (i =? n - 1); [kleaf|]. destruct ((i <? n) || (n0 <? i)); simpl; auto.
  destruct (i - n <? cf_keep (n_cfg s)); [kleaf|]. apply bx_do_mut.
Qed.

Lemma bx_send_app_ents s p : bx s (send_app_ents s p).
Proof.
  unfold send_app_ents. apply bx_bind_pure. intros ob Hob.
  destruct ob as [b |].
  - kleaf.
  - destruct (p_snap (n_p s)); simpl; auto. destruct (sn_conf s0); simpl; auto. kvol.
Qed.

Lemma bx_for_peers ids f s :
  (forall s1 p, bx s1 (f s1 p)) -> bx s (for_peers ids f s).
Proof.
  intro Hf. revert s. induction ids as [| id r IH]; intros s; simpl.
  - apply bd_refl.
  - destruct (peer_get id (l_peers s)); auto. apply bx_bind; auto.
Qed.

Lemma bx_leader_commit_up_to s i : n_commit s <= i -> bx s (leader_commit_up_to s i).
Proof.
  intro Hi. unfold leader_commit_up_to. apply bx_bind; [apply bx_commit_up_to; exact Hi|]. intros s1.
  match goal with |- bx s1 (if ?c then _ else _) => destruct c end; kleaf.
Qed.

Lemma bx_leader_maybe_commit s : bx s (leader_maybe_commit s).
Proof.
  unfold leader_maybe_commit. apply bx_bind_pure. intros mi _.
  destruct (n_commit s <? mi) eqn:Ec; [| kleaf]. apply N.ltb_lt in Ec.
  apply bx_bind_pure. intros [t ok] _.
  destruct (negb ok); simpl; auto. destruct (negb (t =? p_term (n_p s))); [kleaf|].
  apply bx_bind; [apply bx_leader_commit_up_to; lia|]. intros s1.
  apply bx_for_peers. intros s2 p. destruct (pr_match p =? last_index (n_p s2)); [apply bx_send_app_ents | kleaf].
Qed.

Lemma bx_fold_enter (others : list nid) li : forall (acc : R node) s,
  bx s acc ->
  bx s (fold_left (fun (acc : R node) (m : nid) =>
                     a <- acc ;;
                     let p := mk_peer m (li + 1) 0 false 0 0 in
                     let a1 := set_leader a (l_check a) (peer_set p (l_peers a)) in
                     send_app_ents a1 p) others acc).
Proof.
  induction others as [| m r IH]; intros acc s H; simpl; auto.
  apply IH. apply bx_bind; auto. intros s1.
  eapply bx_pre; [| apply bx_send_app_ents]. kvol.
Qed.

Lemma bx_enter_leader s : bx s (enter_leader s).
Proof.
  unfold enter_leader. destruct (n_conf s); simpl; auto.
  apply bx_bind.
  - apply bx_fold_enter. kleaf.
  - intros s1. destruct (l_peers s1); [apply bx_leader_maybe_commit | kleaf].
Qed.

Lemma bx_tick_leader s : bx s (tick_leader s).
Proof.
  unfold tick_leader. apply bx_bind.
  - apply bx_for_peers. intros s2 p. destruct (should_send s2 p); [apply bx_send_app_ents | kleaf].
  - intros s1.
    match goal with |- bx s1 (if ?c then _ else _) => destruct c end; [| kleaf].
    apply bx_bind_pure. intros ok _. destruct ok; kleaf.
Qed.

Lemma bx_handle_app_ents_resp s from su ix hi : bx s (handle_app_ents_resp s from su ix hi).
Proof.
  unfold handle_app_ents_resp. destruct (peer_get from (l_peers s)); [| kleaf].
  destruct (ix <? pr_match p); [kleaf|]. destruct (negb su).
  - eapply bx_pre; [| apply bx_send_app_ents]. kvol.
  - match goal with |- bx s (if ?c then _ else _) => destruct c end; simpl; auto.
    apply bx_bind.
    + match goal with |- bx s (if ?c then _ else _) => destruct c end.
      * eapply bx_pre; [| apply bx_send_app_ents]. kvol.
      * kleaf.
    + intros s2. apply bx_leader_maybe_commit.
Qed.

Lemma bx_leader_propose s es : bx s (leader_propose s es).
Proof.
  unfold leader_propose. apply bx_bind; [apply bx_log_append|]. intros s1.
  apply bx_bind.
  - apply bx_for_peers. intros s3 p.
    match goal with |- bx s3 (if ?c then _ else _) => destruct c end; [apply bx_send_app_ents | kleaf].
  - intros s2. destruct (l_peers s2); [apply bx_leader_maybe_commit | kleaf].
Qed.

Lemma bx2_leader_add_node s m rnd : bx2 s (leader_add_node s m rnd).
Proof.
  unfold leader_add_node. apply bx2_bind_pure. intros _ _.
  destruct (n_conf s); simpl; auto.
  destruct (memb m (mb_members m0)); [simpl; apply bd_refl|].
  destruct (negb (latest_conf_committed s)); [simpl; apply bd_refl|].
  eapply bx2_pre; [| apply bx2_of_bx; apply bx_leader_propose]. kvol.
Qed.

Lemma bx2_leader_remove_node s m : bx2 s (leader_remove_node s m).
Proof.
  unfold leader_remove_node. apply bx2_bind_pure. intros _ _.
  destruct (n_conf s); simpl; auto.
  destruct (negb (memb m (mb_members m0))); [simpl; apply bd_refl|].
  destruct (negb (latest_conf_committed s)); [simpl; apply bd_refl|].
  eapply bx2_pre; [| apply bx2_bind; [apply bx_leader_propose |]].
  - kvol.
  - intros s3. apply bx2_of_bx. apply bx_leader_maybe_commit.
Qed.

Lemma bx_handle_leader s m : bx s (handle_leader s m).
Proof.
  unfold handle_leader. destruct (m_body m).
  - exact I.
  - apply bx_handle_app_ents_resp.
  - kleaf.
  - kleaf.
  - exact I.
Qed.

Lemma bx_follower_maybe_commit s lc mi : bx s (follower_maybe_commit s lc mi).
Proof.
  unfold follower_maybe_commit. destruct (n_commit s <? N.min mi lc) eqn:E; [| kleaf].
  apply N.ltb_lt in E. apply bx_commit_up_to. lia.
Qed.

Lemma fold_conf_bd (app : list entry) : forall s,
  bd s (fold_left (fun a e => if e_type e =? EntryConf then set_conf a (decode_conf e) else a) app s).
Proof.
  induction app as [| e r IH]; intros s; simpl; [apply bd_refl|].
  destruct (e_type e =? EntryConf); [| apply IH].
  eapply bd_trans; [| apply IH]. kvol.
Qed.

Lemma bx_handle_app_ents s from pi pt cm oes : bx s (handle_app_ents s from pi pt cm oes).
Proof.
  unfold handle_app_ents.
  eapply bx_pre with (s' := set_follower_contact s); [kvol|].
  set (s0 := set_follower_contact s).
  apply bx_bind_pure. intros ok _.
  destruct (negb ok); [kleaf|].
  destruct oes as [ents |].
  2: { eapply bx_pre; [| apply bx_follower_maybe_commit]. ksend. }
  apply bx_bind_pure. intros [ci any] _.
  apply bx_bind.
  - destruct any; [| kleaf]. apply bx_bind; [apply bx_do_mut|]. intros s'.
    destruct (n_conf s'); [| kleaf]. destruct (ci <=? mb_index m); kleaf.
  - intros s1.
    destruct (last_ent_index ents <=? last_index (n_p s1)).
    + eapply bx_pre; [| apply bx_follower_maybe_commit]. ksend.
    + destruct ents as [| e0 r]; simpl; auto.
      match goal with |- bx s1 (if ?c then _ else _) => destruct c end; simpl; auto.
      match goal with |- bx s1 (match ?x with _ => _ end) => destruct x as [| a0 ar] eqn:Eapp end; simpl; auto.
      match goal with |- bx s1 (if ?c then _ else _) => destruct c end; simpl; auto.
      match goal with |- bx s1 (bind (log_append ?x _) _) =>
        eapply bx_pre with (s' := x); [apply (fold_conf_bd (a0 :: ar) s1) |] end.
      apply bx_bind; [apply bx_log_append|]. intros s3.
      eapply bx_pre; [| apply bx_follower_maybe_commit]. ksend.
Qed.

Lemma bx_handle_snapshot s from li lt c : bx s (handle_snapshot s from li lt c).
Proof.
  unfold handle_snapshot.
  eapply bx_pre with (s' := set_follower_contact s); [kvol|].
  set (s0 := set_follower_contact s).
  match goal with |- bx s0 (match ?x with _ => _ end) => destruct x end; [kleaf|].
  apply bx_bind; [apply bx_do_mut|]. intros s1.
  apply bx_bind_pure. intros il _.
  apply bx_bind.
  - destruct il; [apply bx_trim_log|]. apply bx_bind; [apply bx_do_mut|]. intros; kleaf.
  - intros s2. apply bx_bind.
    + destruct (n_commit s2 <? li) eqn:E; [apply N.ltb_lt in E; apply bx_commit_up_to; lia | kleaf].
    + intros s3. kleaf.
Qed.

Lemma bx_snapshot_done s m : bx s (snapshot_done s m).
Proof.
  unfold snapshot_done.
  match goal with |- bx s (if ?c then _ else _) => destruct c end; [kleaf|].
  apply bx_bind; [apply bx_do_mut | intros; apply bx_trim_log].
Qed.

Lemma bx2_propose s es : bx2 s (propose s es).
Proof.
  unfold propose. destruct (n_role s); try (simpl; apply bd_refl).
  apply bx2_of_bx. apply bx_leader_propose.
Qed.

Lemma bx2_add_node s m rnd : bx2 s (add_node s m rnd).
Proof. unfold add_node. destruct (n_role s); try (simpl; apply bd_refl). apply bx2_leader_add_node. Qed.

Lemma bx2_remove_node s m : bx2 s (remove_node s m).
Proof. unfold remove_node. destruct (n_role s); try (simpl; apply bd_refl). apply bx2_leader_remove_node. Qed.

(* ---------------------------------------------------------------- the remaining handlers *)
Lemma bx_become_leader s : bx s (become_leader s).
Proof. unfold become_leader. eapply bx_pre; [| apply bx_enter_leader]. kvol. Qed.

Lemma bx_check_if_elected s : bx s (check_if_elected s).
Proof.
  unfold check_if_elected. destruct (n_conf s); simpl; auto.
  destruct (quorum m <=? N.of_nat (length (c_votes s))); [apply bx_become_leader | kleaf].
Qed.

Lemma fold_send_bd (ms : list nid) b : forall s,
  bd s (fold_left (fun a m => if m =? n_id a then a else send a m b) ms s).
Proof.
  induction ms as [| m r IH]; intros s; simpl; [apply bd_refl|].
  destruct (m =? n_id s); [apply IH|]. eapply bd_trans; [| apply IH]. kvol.
Qed.

Lemma bx_enter_candidate s : bx s (enter_candidate s).
Proof.
  unfold enter_candidate.
  match goal with |- bx s (if ?c then _ else _) => destruct c end; [kleaf|].
  eapply bx_pre with (s' := set_candidate s (c_timeout s) []); [kvol|].
  apply bx_bind; [apply bx_do_mut|]. intros s1.
  set (s2 := if in_latest_conf s1 then set_candidate s1 (c_timeout s1) (set_add (n_id s1) (c_votes s1)) else s1).
  assert (H2 : bd s1 s2) by (unfold s2; destruct (in_latest_conf s1); [kvol | apply bd_refl]).
  eapply bx_pre; [exact H2|].
  apply bx_bind_pure. intros [lt ok] _.
  destruct (negb ok); simpl; auto. destruct (n_conf s2); simpl; auto.
  match goal with |- bx s2 (check_if_elected (set_candidate ?x _ _)) =>
    eapply bx_pre with (s' := x); [apply fold_send_bd|];
    eapply bx_pre; [| apply bx_check_if_elected]; kvol end.
Qed.

Lemma bx_become_candidate s : bx s (become_candidate s).
Proof. unfold become_candidate. eapply bx_pre; [| apply bx_enter_candidate]. kvol. Qed.

Lemma bx_handle_candidate s m : bx s (handle_candidate s m).
Proof.
  unfold handle_candidate. destruct (m_body m); try exact I; try kleaf.
  destruct granted; [| kleaf]. eapply bx_pre; [| apply bx_check_if_elected]. kvol.
Qed.

Lemma bx_follower_note_leader s from : bx s (follower_note_leader s from).
Proof.
  unfold follower_note_leader. apply bx_bind.
  - destruct (p_vote (n_p s) =? 0); [apply bx_do_mut | kleaf].
  - intros s1. destruct (n_leader s1 =? 0); [kleaf|]. destruct (negb (n_leader s1 =? from)); simpl; auto using bd_refl.
Qed.

Lemma bx_handle_follower s m : bx s (handle_follower s m).
Proof.
  unfold handle_follower. destruct (m_body m); try kleaf.
  - apply bx_bind; [apply bx_follower_note_leader|]. intros; apply bx_handle_app_ents.
  - apply bx_bind_pure. intros g _. apply bx_bind.
    + destruct g; [apply bx_do_mut | kleaf].
    + intros; kleaf.
  - apply bx_bind; [apply bx_follower_note_leader|]. intros; apply bx_handle_snapshot.
Qed.

Lemma bx_handle_by_role s m : bx s (handle_by_role s m).
Proof.
  unfold handle_by_role. destruct (n_role s); [apply bx_handle_follower | apply bx_handle_candidate | apply bx_handle_leader].
Qed.

Lemma bx_handle_msg s m : bx s (handle_msg s m).
Proof.
  unfold handle_msg.
  match goal with |- bx s (if ?c then _ else _) => destruct c end; [kleaf|].
  match goal with |- bx s (if ?c then _ else _) => destruct c end; [kleaf|].
  apply bx_bind.
  - match goal with |- bx s (if ?c then _ else _) => destruct c end; [apply bx_do_mut | kleaf].
  - intros s1.
    match goal with |- bx s1 (if ?c then _ else _) => destruct c end; [kleaf|].
    destruct (m_term m <? p_term (n_p s1)); [kleaf|].
    apply bx_bind; [| intros; apply bx_handle_by_role].
    destruct (p_term (n_p s1) <? m_term m); [| kleaf].
    destruct (m_body m); simpl; auto; (apply bx_bind; [apply bx_do_mut | intros; kleaf]).
Qed.

Lemma bx_tick s : bx s (tick s).
Proof.
  unfold tick.
  set (s0 := set_elapsed s ((n_elapsed s + 1) mod 4294967296)).
  eapply bx_pre with (s' := s0); [kvol|].
  destruct (n_role s0).
  - match goal with |- bx s0 (if ?c then _ else _) => destruct c end; [apply bx_become_candidate | kleaf].
  - match goal with |- bx s0 (if ?c then _ else _) => destruct c end; [apply bx_become_candidate | kleaf].
  - apply bx_tick_leader.
Qed.

Lemma bx2_propose_initial s ms ep : bx2 s (propose_initial_membership s ms ep).
Proof.
  unfold propose_initial_membership.
  destruct (n_role s); try (simpl; apply bd_refl).
  destruct (is_clean (n_p s)); [| simpl; apply bd_refl].
  apply bx2_bind; [apply bx_do_mut|]. intros s1.
  apply bx2_bind; [apply bx_log_append|]. intros s2. simpl. kvol.
Qed.


(* ---------------------------------------------------------------- every event, with a crash point *)
Lemma new_core_bound id cfg p s' : new_core id cfg p = Ret s' -> cbound s'.
Proof.
  unfold new_core.
  destruct (reconcile (blank_node id cfg p)) as [r | |]; simpl; try discriminate.
  set (s0 := set_conf (blank_node id cfg (n_p r)) (init_latest_conf (n_p r))).
  destruct (p_snap (n_p r)) as [m |].
  - pose proof (bx_commit_up_to s0 (sn_index m) ltac:(simpl; lia)) as A.
    destruct (commit_up_to s0 (sn_index m)) as [s1 | |]; simpl in *; try discriminate.
    intro H. inversion H. subst. destruct A as [_ A]. unfold cbound in *. simpl. apply A. simpl. intros x [].
  - simpl. intro H. inversion H. subst. unfold cbound. simpl. intros x [].
Qed.

Theorem applied_index_bound s ev k crashed st s' :
  run_event_crash (settle s) ev k = Ret (crashed, st, s') ->
  forall x, In x (n_commits s') -> e_index x <= n_commit s'.
Proof.
  unfold run_event_crash. set (s0 := with_budget (settle s) k).
  assert (Hc0 : cbound s0) by (unfold cbound; simpl; intros x []).
  destruct (run_event s0 ev) as [[st0 y] | c | p] eqn:E; try discriminate.
  - intro H. inversion H. subst.
    assert (A : cbound y).
    { destruct ev; simpl in E.
      - pose proof (bx2_propose_initial s0 members epoch) as K. rewrite E in K. apply K. exact Hc0.
      - unfold wrap0 in E. pose proof (bx_handle_msg s0 m) as K. destruct (handle_msg s0 m); simpl in E; try discriminate.
        inversion E. subst. apply K. exact Hc0.
      - unfold wrap0 in E. pose proof (bx_tick s0) as K. destruct (tick s0); simpl in E; try discriminate.
        inversion E. subst. apply K. exact Hc0.
      - pose proof (bx2_propose s0 es) as K. rewrite E in K. apply K. exact Hc0.
      - pose proof (bx2_add_node s0 member rnd) as K. rewrite E in K. apply K. exact Hc0.
      - pose proof (bx2_remove_node s0 member) as K. rewrite E in K. apply K. exact Hc0.
      - unfold wrap0 in E. pose proof (bx_snapshot_done s0 m) as K. destruct (snapshot_done s0 m); simpl in E; try discriminate.
        inversion E. subst. apply K. exact Hc0.
      - unfold wrap0 in E. simpl in E.
        destruct (new_core (n_id s) (n_cfg s) (n_p s)) as [z | |] eqn:En; simpl in E; try discriminate.
        inversion E. subst. eapply new_core_bound; eauto. }
    exact A.
  - intro H. simpl in H.
    destruct (new_core (n_id s) (n_cfg s) p) as [z | |] eqn:En; simpl in H; try discriminate.
    inversion H. subst. eapply new_core_bound; eauto.
Qed.
