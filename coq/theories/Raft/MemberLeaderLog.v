(* Raft/MemberLeaderLog.v — round 8: what a node that is leader at the start of an event, and in the same term at its end
   (whatever its final role, crash variants included), did to its log and to its peer table:
   leader_log_shape : the log is unchanged, or entries without configuration were appended (Propose), or exactly one
     stamped configuration entry was appended by an AddNode / RemoveNode that was accepted when settled;
   leader_peers_sub : every id in the final peer table is a member of the final configuration. *)
From Coq Require Import List NArith ZArith Bool Lia ZifyN ZifyNat ZifyBool.
From BLB Require Import Raft.Core Raft.NodeProofs Raft.NodeKeep Raft.NodeKeepV Raft.NodeElect Raft.LogMatchLists Raft.LogMatchNode
  Raft.MembershipQuorum Raft.MemberNode Raft.MemberConfStep Raft.MemberPeers Raft.MemberConfTrack.
Import ListNotations.
Open Scope N_scope.

Lemma mem_append_prefix es : forall l, exists k, fst (mem_append l es) = l ++ firstn k es.
Proof.
  induction es as [| e r IH]; intros l; simpl; [exists 0%nat; rewrite app_nil_r; reflexivity|].
  destruct (log_last l) as [li |].
  - destruct (e_index e =? li + 1).
    + destruct (IH (l ++ [e])) as [k Hk]. exists (S k). rewrite Hk. rewrite <- app_assoc. reflexivity.
    + exists 0%nat. simpl. rewrite app_nil_r. reflexivity.
  - destruct (IH (l ++ [e])) as [k Hk]. exists (S k). rewrite Hk. rewrite <- app_assoc. reflexivity.
Qed.

(* leader_propose: some prefix of the stamped batch is appended, nothing else happens to the log *)
Definition appd (s : node) (st : list entry) (L : list entry) : Prop := exists k, L = p_log (n_p s) ++ firstn k st.

Lemma shape_leader_propose s es :
  match leader_propose s es with
  | Ret s' => appd s (stamp es (last_index (n_p s) + 1) (p_term (n_p s))) (p_log (n_p s'))
  | Crashed p => appd s (stamp es (last_index (n_p s) + 1) (p_term (n_p s))) (p_log p)
  | Fatal _ => True
  end.
Proof.
  unfold leader_propose. set (st := stamp es (last_index (n_p s) + 1) (p_term (n_p s))).
  destruct (mem_append_prefix st (p_log (n_p s))) as [k Hk].
  unfold log_append, do_mut. destruct (negb (n_budget s =? 0) && (n_budget s =? n_cnt s + 1)); cbn [bind].
  - exists k. exact Hk.
  - destruct (snd (mem_append (p_log (n_p s)) st)); cbn [bind]; [| exact Logic.I].
    match goal with |- match bind (for_peers _ _ ?x) ?f with _ => _ end => set (s1 := x) end.
    match goal with |- match ?r with _ => _ end => assert (K : srx s1 r) end.
    { apply srx_bind.
      - apply srx_for_peers. intros s3 p. match goal with |- srx s3 (if ?c then _ else _) => destruct c end; [apply srx_send_app_ents | kleafS].
      - intros s2. destruct (l_peers s2); [apply srx_leader_maybe_commit | apply sr_refl]. }
    match goal with |- match ?r with _ => _ end => destruct r as [s' | c | p] end; simpl in K.
    + destruct K as [K1 _]. exists k. rewrite K1. exact Hk.
    + exact Logic.I.
    + destruct K as [K1 _]. exists k. rewrite K1. exact Hk.
Qed.

(* ---------------------------------------------------------------- a leader that stays in its term keeps its log over a delivery *)
Definition shx (s : node) (r : R node) : Prop :=
  match r with
  | Ret s' => p_term (n_p s') = p_term (n_p s) -> p_log (n_p s') = p_log (n_p s)
  | Crashed p => p_term p = p_term (n_p s) -> p_log p = p_log (n_p s)
  | Fatal _ => True
  end.

Lemma srx_shx s r : srx s r -> shx s r.
Proof. destruct r; simpl; auto; intros [A _] _; exact A. Qed.

Lemma shx_handle_msg s m : n_role s = Leader -> shx s (handle_msg s m).
Proof.
  intro Hr. unfold handle_msg.
  destruct ((negb (m_to m =? 0) && negb (m_to m =? n_id s)) || (negb (m_tog m =? 0) && negb (m_tog m =? p_guid (n_p s)))); [simpl; auto|].
  destruct (negb (guid_get (m_from m) (p_guids (n_p s)) =? 0) && negb (guid_get (m_from m) (p_guids (n_p s)) =? m_fromg m)); [simpl; auto|].
  assert (Rest : forall s1, p_log (n_p s1) = p_log (n_p s) -> p_term (n_p s1) = p_term (n_p s) -> n_role s1 = Leader ->
            shx s (let my := get_epoch s1 in
                   if negb (m_epoch m =? 0) && negb (my =? 0) && negb (m_epoch m =? my) then Ret s1
                   else if m_term m <? p_term (n_p s1) then Ret s1
                   else s2 <- (if p_term (n_p s1) <? m_term m then
                                 match m_body m with
                                 | AppEnts _ _ _ _ | InstallSnap _ _ _ =>
                                     s' <- do_mut (MSaveState (m_from m) (m_term m)) s1 ;; Ret (become_follower s' (m_from m))
                                 | VoteReq _ _ => s' <- do_mut (MSaveState 0 (m_term m)) s1 ;; Ret (become_follower s' 0)
                                 | _ => Fatal F_RESP_HIGHER_TERM
                                 end
                               else Ret s1) ;; handle_by_role s2 m)).
  { intros s1 L1 T1 R1. cbv zeta.
    match goal with |- shx s (if ?c then _ else _) => destruct c end; [simpl; auto|].
    destruct (m_term m <? p_term (n_p s1)); [simpl; auto|].
    destruct (p_term (n_p s1) <? m_term m) eqn:Ehi.
    - apply N.ltb_lt in Ehi.
      assert (Hi : forall v, shx s (s2 <- (s' <- do_mut (MSaveState v (m_term m)) s1 ;; Ret (become_follower s' v)) ;; handle_by_role s2 m)).
      { intros v. unfold do_mut. destruct (negb (n_budget s1 =? 0) && (n_budget s1 =? n_cnt s1 + 1)); cbn [bind].
        - intro X. cbn in X. lia.
        - match goal with |- shx s (handle_by_role ?x m) => pose proof (rext_handle_by_role x m) as Rx; destruct (handle_by_role x m) as [s' | c | p] end; simpl in *; auto.
          + destruct Rx as [[Px _] _]. cbn in Px. intro X. lia.
          + destruct Rx as [Px _]. cbn in Px. intro X. lia. }
      destruct (m_body m); try exact Logic.I; apply Hi.
    - cbn [bind]. unfold handle_by_role. rewrite R1.
      pose proof (srx_handle_leader s1 m) as K. destruct (handle_leader s1 m) as [s' | c | p]; simpl in *; auto.
      + destruct K as [K _]. intros _. congruence.
      + destruct K as [K _]. intros _. congruence. }
  destruct (guid_get (m_from m) (p_guids (n_p s)) =? 0).
  - unfold do_mut. destruct (negb (n_budget s =? 0) && (n_budget s =? n_cnt s + 1)); cbn [bind].
    + simpl. auto.
    + apply Rest; reflexivity || exact Hr.
  - cbn [bind]. apply Rest; auto.
Qed.

(* ---------------------------------------------------------------- the shape of the log after a same-term event of a leader *)
Definition confshape (s : node) (ce : entry) : Prop :=
  isconfb ce = true /\ e_term ce = p_term (n_p s) /\ settled s /\
  exists c nc, n_conf s = Some c /\ decode_conf ce = Some nc /\
    ((exists x, mb_members nc = mb_members c ++ [x] /\ ~ In x (mb_members c)) \/
     (exists x, mb_members nc = filter (fun m => negb (m =? x)) (mb_members c) /\ In x (mb_members c))).

Definition Sh (s : node) (L' : list entry) : Prop :=
  (exists es, L' = p_log (n_p s) ++ es /\ Forall (fun e => isconfb e = false) es) \/
  (exists ce, L' = p_log (n_p s) ++ [ce] /\ confshape s ce).

Lemma Sh_same s L' : L' = p_log (n_p s) -> Sh s L'.
Proof. intro H. left. exists []. rewrite app_nil_r. split; [exact H | constructor]. Qed.

Definition shr (s : node) (r : R (N * node)) : Prop :=
  match r with
  | Ret (_, x) => p_term (n_p x) = p_term (n_p s) -> Sh s (p_log (n_p x))
  | Crashed p => p_term p = p_term (n_p s) -> Sh s (p_log p)
  | Fatal _ => True
  end.

Lemma shr_of_shx s r st : shx s r -> shr s (s1 <- r ;; Ret (st, s1)).
Proof. destruct r; simpl; auto; intros H X; apply Sh_same; auto. Qed.

Lemma firstn_forall {A} (P : A -> Prop) k l : Forall P l -> Forall P (firstn k l).
Proof. revert k. induction l as [| x r IH]; intros k H; destruct k; simpl; auto. inversion H; subst. constructor; auto. Qed.

Lemma shr_propose s es : n_role s = Leader -> Forall (fun e => isconfb e = false) es -> shr s (propose s es).
Proof.
  intros Hr Hn. unfold propose. rewrite Hr. pose proof (shape_leader_propose s es) as K.
  destruct (leader_propose s es) as [s1 | c | p]; simpl in *; auto.
  - destruct K as [k Hk]. intros _. left. eexists. split; [exact Hk|]. apply firstn_forall. apply stamp_nonconf. exact Hn.
  - destruct K as [k Hk]. intros _. left. eexists. split; [exact Hk|]. apply firstn_forall. apply stamp_nonconf. exact Hn.
Qed.

(* the one stamped configuration entry *)
Lemma appd_conf s s2 nc L' :
  n_p s2 = n_p s -> appd s2 (stamp [conf_entry nc] (last_index (n_p s2) + 1) (p_term (n_p s2))) L' ->
  L' = p_log (n_p s) \/
  L' = p_log (n_p s) ++ [{| e_term := p_term (n_p s); e_index := last_index (n_p s) + 1; e_type := EntryConf; e_pl := encode_conf nc |}].
Proof.
  intros Hp [k Hk]. rewrite Hp in Hk. simpl in Hk. destruct k; simpl in Hk.
  - left. rewrite app_nil_r in Hk. exact Hk.
  - right. destruct k; exact Hk.
Qed.

Lemma shr_add_node s member rnd : n_role s = Leader -> shr s (add_node s member rnd).
Proof.
  intros Hr. unfold add_node. rewrite Hr. unfold leader_add_node.
  destruct (verify_nop_committed s) as [[] | |] eqn:Ev; simpl; auto.
  2: { pose proof (pure_verify_nop_committed s) as P. rewrite Ev in P. contradiction. }
  destruct (n_conf s) as [c |] eqn:Ec; [| simpl; auto].
  destruct (memb member (mb_members c)) eqn:Em; [simpl; intros _; apply Sh_same; reflexivity|].
  destruct (latest_conf_committed s) eqn:El; simpl; [| intros _; apply Sh_same; reflexivity].
  cbv zeta.
  match goal with |- shr s (bind (leader_propose ?x2 [conf_entry ?n]) _) =>
    pose proof (shape_leader_propose x2 [conf_entry n]) as K; pose (nc := n);
    assert (Fin : forall L', appd x2 (stamp [conf_entry nc] (last_index (n_p x2) + 1) (p_term (n_p x2))) L' -> Sh s L');
    [| destruct (leader_propose x2 [conf_entry n]) as [s3 | cc | p]; simpl in *; auto; intros _; apply Fin; exact K] end.
  clear K. intros L' K. destruct (appd_conf s _ nc _ eq_refl K) as [E | E]; [apply Sh_same; exact E | right].
  eexists; split; [exact E|]; split; [reflexivity|]; split; [reflexivity|]; split; [apply verify_nop_settled; auto|].
  exists c; eexists; split; [exact Ec|]; split; [apply decode_stamped_conf|]; left; exists member; simpl; split; [reflexivity | apply memb_false; exact Em].
Qed.

Lemma shr_remove_node s member : n_role s = Leader -> shr s (remove_node s member).
Proof.
  intros Hr. unfold remove_node. rewrite Hr. unfold leader_remove_node.
  destruct (verify_nop_committed s) as [[] | |] eqn:Ev; simpl; auto.
  2: { pose proof (pure_verify_nop_committed s) as P. rewrite Ev in P. contradiction. }
  destruct (n_conf s) as [c |] eqn:Ec; [| simpl; auto].
  destruct (memb member (mb_members c)) eqn:Em; simpl; [| intros _; apply Sh_same; reflexivity].
  destruct (latest_conf_committed s) eqn:El; simpl; [| intros _; apply Sh_same; reflexivity].
  cbv zeta.
  match goal with |- shr s (bind (leader_propose ?x2 [conf_entry ?n]) _) =>
    pose proof (shape_leader_propose x2 [conf_entry n]) as K; pose (nc := n);
    assert (Fin : forall L', appd x2 (stamp [conf_entry nc] (last_index (n_p x2) + 1) (p_term (n_p x2))) L' -> Sh s L');
    [| destruct (leader_propose x2 [conf_entry n]) as [s3 | cc | p]; cbn [bind]; simpl in K; auto] end.
  - clear K. intros L' K. destruct (appd_conf s _ nc _ eq_refl K) as [E | E]; [apply Sh_same; exact E | right].
    eexists; split; [exact E|]; split; [reflexivity|]; split; [reflexivity|]; split; [apply verify_nop_settled; auto|].
    exists c; eexists; split; [exact Ec|]; split; [apply decode_stamped_conf|]; right; exists member; simpl; split; [reflexivity | apply memb_In; exact Em].
  - pose proof (srx_leader_maybe_commit s3) as K2.
    destruct (leader_maybe_commit s3) as [s4 | cc | p]; simpl in *; auto.
    + intros _. apply Fin. destruct K2 as [X _]. rewrite X. exact K.
    + intros _. apply Fin. destruct K2 as [X _]. rewrite X. exact K.
  - simpl. intros _. apply Fin. exact K.
Qed.

Theorem leader_log_shape s ev k crashed st s' :
  run_event_crash (settle s) ev k = Ret (crashed, st, s') ->
  ctw s -> n_role s = Leader -> p_term (n_p s') = p_term (n_p s) -> evC ev -> Sh s (p_log (n_p s')).
Proof.
  intros Hrun W Hr Ht He. revert Hrun. unfold run_event_crash.
  set (s0 := with_budget (settle s) k).
  assert (W0 : ctw s0) by (eapply ctw_vol; [| | exact W]; reflexivity).
  assert (K : shr s0 (run_event s0 ev)).
  { destruct ev; simpl in *; try contradiction.
    - unfold propose_initial_membership. simpl. rewrite Hr. simpl. intros _. apply Sh_same. reflexivity.
    - unfold wrap0. apply shr_of_shx. apply shx_handle_msg. exact Hr.
    - unfold wrap0. apply shr_of_shx. apply srx_shx. apply srx_tick.
    - apply shr_propose; auto.
    - apply shr_add_node. exact Hr.
    - apply shr_remove_node. exact Hr.
    - unfold wrap0. destruct W0 as [Hs _]. rewrite (new_core_nosnap _ _ _ Hs). simpl. intros _. apply Sh_same. reflexivity. }
  pose proof (ctx2_run_event s0 ev W0 He) as C.
  destruct (run_event s0 ev) as [[st0 x] | c | p]; simpl in *; try discriminate.
  - intro H. inversion H. subst. simpl in Ht. apply K. exact Ht.
  - destruct C as [Cs _]. rewrite (new_core_nosnap _ _ _ Cs). simpl. intro H. inversion H. subst. simpl in Ht. apply K. exact Ht.
Qed.

(* ---------------------------------------------------------------- (d) whatever the final role *)
Lemma add_node_ids_ok s member rnd s' :
  leader_add_node s member rnd = Ret (E_NONE, s') -> member <> n_id s -> n_id s' = n_id s -> ids_ok s -> ids_ok s'.
Proof.
  intros H Hne Hid Hp. pose proof H as H0. apply add_node_conf in H0.
  destruct H0 as [[X _] | [_ [_ [[c [c' [A1 [A2 [A3 A4]]]]] _]]]]; [congruence|].
  pose proof (add_node_ids s member rnd s' H) as K.
  intro id. rewrite (K id), (Hp id), Hid. unfold memb_of. rewrite A1, A2. split.
  - intros [X | [[c0 [Y1 Y2]] X]].
    + subst id. split; [| exact Hne]. exists c'. split; [reflexivity|]. rewrite A3. apply in_or_app. right. simpl. auto.
    + split; [| exact X]. exists c'. split; [reflexivity|]. rewrite A3. apply in_or_app. left. congruence.
  - intros [[c0 [Y1 Y2]] X]. assert (c0 = c') by congruence. subst c0. rewrite A3 in Y2.
    apply in_app_or in Y2. destruct Y2 as [Y2 | [Y2 | []]]; [right | left; auto].
    split; [| exact X]. exists c. auto.
Qed.

Lemma remove_node_ids_ok s member s' :
  leader_remove_node s member = Ret (E_NONE, s') -> n_id s' = n_id s -> ids_ok s -> ids_ok s'.
Proof.
  intros H Hid Hp. pose proof H as H0. apply remove_node_conf in H0.
  destruct H0 as [[X _] | [_ [_ [[c [c' [A1 [A2 [A3 A4]]]]] _]]]]; [congruence|].
  pose proof (remove_node_ids s member s' H) as K.
  intro id. rewrite (K id), (Hp id), Hid. unfold memb_of. rewrite A1, A2. split.
  - intros [[[c0 [Y1 Y2]] X] Z]. split; [| exact X]. exists c'. split; [reflexivity|]. rewrite A3.
    assert (c0 = c) by congruence. subst c0.
    apply filter_In. split; [exact Y2|]. apply negb_true_iff, N.eqb_neq. exact Z.
  - intros [[c0 [Y1 Y2]] X]. assert (c0 = c') by congruence. subst c0. rewrite A3 in Y2.
    apply filter_In in Y2. destruct Y2 as [Y2 Y3]. apply negb_true_iff, N.eqb_neq in Y3.
    split; [| exact Y3]. split; [| exact X]. exists c. auto.
Qed.

Lemma new_core_no_peers id cfg p x : new_core id cfg p = Ret x -> forall i, ~ In i (peer_ids x).
Proof.
  unfold new_core. destruct (reconcile (blank_node id cfg p)) as [r | |]; simpl; try discriminate.
  destruct (p_snap (n_p r)) as [m |].
  - match goal with |- bind (commit_up_to ?z ?i) _ = _ -> _ => pose proof (ptx_commit_up_to z i) as K; destruct (commit_up_to z i) as [s1 | |]; simpl; try discriminate end.
    intro H. inversion H. subst. intros i0 Hin. unfold peer_ids in Hin. simpl in Hin. apply (K i0) in Hin. exact Hin.
  - simpl. intro H. inversion H. subst. intros i0 Hin. exact Hin.
Qed.

Definition peers_sub (s : node) : Prop := forall id, In id (peer_ids s) -> memb_of s id.

Lemma ids_ok_sub s : ids_ok s -> peers_sub s.
Proof. intros H id Hin. apply (H id) in Hin. tauto. Qed.

Lemma run_event_peers_sub s ev st x :
  n_msgs s = [] -> run_event s ev = Ret (st, x) -> n_role s = Leader -> p_term (n_p x) = p_term (n_p s) ->
  noself s ev -> ids_ok s -> peers_sub x.
Proof.
  intros Hm H Hr Ht Hn Hp.
  pose proof (run_event_sum s ev st x Hm H) as [Hid _].
  assert (Same : pf s x -> n_conf x = n_conf s -> peers_sub x).
  { intros P C. apply ids_ok_sub. apply (ids_ok_same s x); auto. }
  revert H. destruct ev; simpl.
  - unfold propose_initial_membership. rewrite Hr. intro H. inversion H. subst. apply ids_ok_sub. exact Hp.
  - unfold wrap0. destruct (handle_msg s m) as [y | |] eqn:E; simpl; try discriminate.
    intros H. inversion H. subst y.
    destruct (handle_msg_shape s m x Hm E) as [L | [[F [X | X]] | [[s1 [L [R _]]] | [s1 [L [R Hl]]]]]].
    + destruct L as [L1 [_ [L3 _]]]. apply Same; [intro id; unfold peer_ids; rewrite L1; tauto | exact L3].
    + lia.
    + congruence.
    + destruct L as [_ [L _]]. congruence.
    + destruct L as [L1 [_ [L3 _]]].
      assert (P1 : pf s s1) by (intro id; unfold peer_ids; rewrite L1; tauto).
      revert Hl. unfold handle_leader. destruct (m_body m).
      * discriminate.
      * intro X. pose proof (ptx_handle_app_ents_resp s1 (m_from m) success index hint) as K. rewrite X in K.
        pose proof (cfx_handle_app_ents_resp s1 (m_from m) success index hint) as C. rewrite X in C. simpl in K, C. unfold cf in C.
        apply Same; [eapply pf_trans; eauto | congruence].
      * intro X. inversion X. subst. apply Same; [eapply pf_trans; [exact P1 | intro id; unfold peer_ids; simpl; tauto] | simpl; exact L3].
      * intro X. inversion X. subst. apply Same; auto.
      * discriminate.
  - unfold wrap0. destruct (tick s) as [y | |] eqn:E; simpl; try discriminate.
    intros H. inversion H. subst y. revert E. unfold tick. simpl. rewrite Hr. intro E.
    match type of E with tick_leader ?z = _ => pose proof (ptx_tick_leader z) as K; pose proof (cfx_tick_leader z) as C end.
    rewrite E in K, C. simpl in K, C. unfold cf in C. simpl in C.
    apply Same; [intro id; rewrite (K id); unfold peer_ids; simpl; tauto | exact C].
  - unfold propose. rewrite Hr. pose proof (ptx_leader_propose s es) as K. pose proof (cfx_leader_propose s es) as C.
    destruct (leader_propose s es) as [y | |]; simpl; try discriminate. intros H. inversion H. subst. apply Same; auto.
  - unfold add_node. rewrite Hr. intros H. pose proof H as H0. apply add_node_conf in H0.
    destruct H0 as [[_ E] | [E1 _]]; [subst; apply ids_ok_sub; exact Hp|]. subst st.
    apply ids_ok_sub. eapply add_node_ids_ok; [exact H | apply (Hn member rnd); reflexivity | exact Hid | exact Hp].
  - unfold remove_node. rewrite Hr. intros H. pose proof H as H0. apply remove_node_conf in H0.
    destruct H0 as [[_ E] | [E1 _]]; [subst; apply ids_ok_sub; exact Hp|]. subst st.
    apply ids_ok_sub. eapply remove_node_ids_ok; [exact H | exact Hid | exact Hp].
  - unfold wrap0. destruct (snapshot_done s m) as [y | |] eqn:E; simpl; try discriminate.
    intros H. inversion H. subst y. apply Same.
    + revert E. unfold snapshot_done.
      match goal with |- (if ?c then _ else _) = _ -> _ => destruct c end; [intro E; inversion E; apply pf_refl|].
      pose proof (ptx_do_mut s (MSnapCommit m)) as K1.
      destruct (do_mut (MSnapCommit m) s) as [s1 | |]; simpl; try discriminate.
      intro E. pose proof (ptx_trim_log s1 (sn_index m)) as K2. rewrite E in K2. simpl in K1, K2. eapply pf_trans; eauto.
    + apply snapshot_done_conf in E. exact E.
  - unfold wrap0. pose proof (new_core_pext (n_id s) (n_cfg s) (n_p s)) as P.
    destruct (new_core (n_id s) (n_cfg s) (n_p s)) as [y | |] eqn:E; simpl; try discriminate.
    intros H. inversion H. subst y. intros i0 Hin. exfalso. exact (new_core_no_peers _ _ _ _ E i0 Hin).
Qed.

Theorem leader_peers_sub s ev k crashed st s' :
  run_event_crash (settle s) ev k = Ret (crashed, st, s') -> n_role s = Leader -> p_term (n_p s') = p_term (n_p s) ->
  noself s ev -> ids_ok s -> peers_sub s'.
Proof.
  unfold run_event_crash.
  destruct (run_event (with_budget (settle s) k) ev) as [[st0 x] | c | p] eqn:E; try discriminate.
  - intro H. inversion H. subst. intros Hr Ht Hn Hp. simpl in Ht.
    pose proof (run_event_peers_sub (with_budget (settle s) k) ev st x eq_refl E Hr Ht Hn Hp) as K.
    intros id Hin. destruct (K id Hin) as [c [A B]]. exists c. auto.
  - destruct (new_core (n_id (settle s)) (n_cfg (settle s)) p) as [s2 | c | q] eqn:En; simpl; try discriminate.
    intro H. inversion H. subst. intros _ _ _ _ id Hin. exfalso. exact (new_core_no_peers _ _ _ _ En id Hin).
Qed.
