(* Raft/RoleFollowerPass.v — round 15: the handlers a follower runs leave the role Follower (generated from the skeleton of
   Raft/SnapIndexPos.v with the predicate "the role is Follower"). *)
From Coq Require Import List NArith ZArith Bool Lia.
From BLB Require Import Raft.Core Raft.NodeProofs Raft.LogMatchLists Raft.SnapContig.
Import ListNotations.
Open Scope N_scope.

Definition jq (s : node) : Prop := n_role s = Follower.
Definition mk (s s' : node) : Prop := jq s -> jq s'.
Lemma mk_refl s : mk s s. Proof. intro H. exact H. Qed.
Lemma mk_trans a b c : mk a b -> mk b c -> mk a c. Proof. intros A B H. apply B. apply A. exact H. Qed.
Lemma mk_vol s s' : n_role s' = n_role s -> mk s s'. Proof. intros A H. unfold jq in *. congruence. Qed.
Definition mx (s : node) (r : R node) : Prop := match r with Ret s' => mk s s' | _ => True end.
Lemma mx_bind s (a : R node) (f : node -> R node) :
  mx s a -> (forall s1, mx s1 (f s1)) -> mx s (bind a f).
Proof.
  intros Ha Hf. destruct a as [s1 | c | p]; simpl in *; auto.
  specialize (Hf s1). destruct (f s1); simpl in *; auto. eapply mk_trans; eauto.
Qed.

Lemma mx_bind_pure {A} s (a : R A) (f : A -> R node) :
  (forall x, a = Ret x -> mx s (f x)) -> mx s (bind a f).
Proof. intros Hf. destruct a; simpl in *; auto. Qed.

Lemma mx_pre s s' r : mk s s' -> mx s' r -> mx s r.
Proof. intros H K. destruct r; simpl in *; auto. eapply mk_trans; eauto. Qed.


Ltac mvol := apply mk_vol; reflexivity.
Ltac mleaf := simpl; solve [mvol].
Ltac msend := mleaf.

Lemma mx_do_mut s m : True -> mx s (do_mut m s).
Proof. intros _. unfold do_mut. destruct (negb (n_budget s =? 0) && (n_budget s =? n_cnt s + 1)); simpl; auto. mvol. Qed.

Lemma mx_log_append s es : mx s (log_append s es).
Proof.
  unfold log_append. apply mx_bind; [apply mx_do_mut; exact I|].
  intros s1. destruct (snd (mem_append (p_log (n_p s)) es)); simpl; auto using mk_refl.
Qed.

Lemma mx_commit_up_to s i : mx s (commit_up_to s i).
Proof.
  unfold commit_up_to.
  destruct (p_snap (n_p s)) as [m |].
  - destruct (n_commit s <? sn_index m) eqn:E.
    + destruct (negb (sn_index m =? i)) eqn:E3; simpl; auto. mvol.
    + apply mx_bind_pure. intros ents _.
      match goal with |- mx s (if ?c then _ else _) => destruct c end; [| mleaf].
      match goal with |- mx s (match ?x with _ => _ end) => destruct x eqn:E2 end; simpl; auto.
      eapply mx_pre; [| apply mx_do_mut; exact I]. mvol.
  - apply mx_bind_pure. intros ents _.
    match goal with |- mx s (if ?c then _ else _) => destruct c end; [| mleaf].
    match goal with |- mx s (match ?x with _ => _ end) => destruct x eqn:E2 end; simpl; auto.
    eapply mx_pre; [| apply mx_do_mut; exact I]. mvol.
Qed.

Lemma mx_trim_log s i : mx s (trim_log s i).
Proof.
  unfold trim_log. destruct (log_first (p_log (n_p s))); [| mleaf]. destruct (log_last (p_log (n_p s))); [| mleaf].
  destruct (i =? n - 1); [mleaf|]. destruct ((i <? n) || (n0 <? i)); simpl; auto.
  destruct (i - n <? cf_keep (n_cfg s)); [mleaf|]. apply mx_do_mut; exact I.
Qed.

Lemma mx_follower_maybe_commit s lc mi : mx s (follower_maybe_commit s lc mi).
Proof.
  unfold follower_maybe_commit. destruct (n_commit s <? N.min mi lc) eqn:E; [| mleaf].
  apply mx_commit_up_to.
Qed.

Lemma fold_conf_sk (app : list entry) : forall s,
  mk s (fold_left (fun a e => if e_type e =? EntryConf then set_conf a (decode_conf e) else a) app s).
Proof.
  induction app as [| e r IH]; intros s; simpl; [apply mk_refl|].
  destruct (e_type e =? EntryConf); [| apply IH].
  eapply mk_trans; [| apply IH]. mvol.
Qed.

Lemma mx_handle_app_ents s from pi pt cm oes : mx s (handle_app_ents s from pi pt cm oes).
Proof.
  unfold handle_app_ents.
  eapply mx_pre with (s' := set_follower_contact s); [mvol|].
  set (s0 := set_follower_contact s).
  apply mx_bind_pure. intros ok _.
  destruct (negb ok); [mleaf|].
  destruct oes as [ents |].
  2: { eapply mx_pre; [| apply mx_follower_maybe_commit]. msend. }
  apply mx_bind_pure. intros [ci any] _.
  apply mx_bind.
  - destruct any; [| mleaf]. apply mx_bind; [apply mx_do_mut; exact I|]. intros s'.
    destruct (n_conf s'); [| mleaf]. destruct (ci <=? mb_index m); mleaf.
  - intros s1.
    destruct (last_ent_index ents <=? last_index (n_p s1)).
    + eapply mx_pre; [| apply mx_follower_maybe_commit]. msend.
    + destruct ents as [| e0 r]; simpl; auto.
      match goal with |- mx s1 (if ?c then _ else _) => destruct c end; simpl; auto.
      match goal with |- mx s1 (match ?x with _ => _ end) => destruct x as [| a0 ar] eqn:Eapp end; simpl; auto.
      match goal with |- mx s1 (if ?c then _ else _) => destruct c end; simpl; auto.
      match goal with |- mx s1 (bind (log_append ?x _) _) =>
        eapply mx_pre with (s' := x); [apply (fold_conf_sk (a0 :: ar) s1) |] end.
      apply mx_bind; [apply mx_log_append|]. intros s3.
      eapply mx_pre; [| apply mx_follower_maybe_commit]. msend.
Qed.

Lemma mx_handle_snapshot s from li lt c : mx s (handle_snapshot s from li lt c).
Proof.
  unfold handle_snapshot.
  eapply mx_pre with (s' := set_follower_contact s); [mvol|].
  set (s0 := set_follower_contact s).
  match goal with |- mx s0 (match ?x with _ => _ end) => destruct x end; [mleaf|].
  apply mx_bind; [apply mx_do_mut; exact I|]. intros s1.
  apply mx_bind_pure. intros il _.
  apply mx_bind.
  - destruct il; [apply mx_trim_log|]. apply mx_bind; [apply mx_do_mut; exact I|]. intros s'. mleaf.
  - intros s2. apply mx_bind.
    + destruct (n_commit s2 <? li); [apply mx_commit_up_to | mleaf].
    + intros s3. mleaf.
Qed.

Lemma mx_follower_note_leader s from : mx s (follower_note_leader s from).
Proof.
  unfold follower_note_leader. apply mx_bind.
  - destruct (p_vote (n_p s) =? 0); [apply mx_do_mut; exact I | mleaf].
  - intros s1. destruct (n_leader s1 =? 0); [mleaf|]. destruct (negb (n_leader s1 =? from)); simpl; auto using mk_refl.
Qed.

Lemma mx_handle_follower s m : mx s (handle_follower s m).
Proof.
  unfold handle_follower. destruct (m_body m); try mleaf.
  - apply mx_bind; [apply mx_follower_note_leader|]. intros; apply mx_handle_app_ents.
  - apply mx_bind_pure. intros g _. apply mx_bind.
    + destruct g; [apply mx_do_mut; exact I | mleaf].
    + intros; mleaf.
  - apply mx_bind; [apply mx_follower_note_leader|]. intros; apply mx_handle_snapshot.
Qed.

