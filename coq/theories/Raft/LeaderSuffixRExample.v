(* Raft/LeaderSuffixRExample.v — round 13, non-vacuity of leader_commits_own_suffix_with_reconfiguration: node 1 of the combined run
   at C17 (leader of term 2, physical log trimmed to nothing behind the snapshot of index 3) accepts RemoveNode 2, which
   appends the configuration entry 4, and receives the acknowledgement of node 3: entry 4 is committed and handed over. *)
From Coq Require Import List NArith ZArith Bool Lia.
From BLB Require Import Lib.LTS Raft.Core Raft.Wire Raft.Election Raft.ElectionExample Raft.LogMatchLists
  Raft.LogMatchExample Raft.LeaderSuffix Raft.LeaderSuffixExample Raft.MemberVotes Raft.MemberVotesExample
  Raft.SnapContig Raft.CombinedExample Raft.LeaderSuffixS Raft.LeaderSuffixSExample Raft.LeaderSuffixR Raft.MemberLeaderLog.
Import ListNotations.
Open Scope N_scope.

Definition rld1 : node := Eval vm_compute in step_node sld0 (ERemoveNode 2).
Definition rld2 : node := Eval vm_compute in step_node rld1 (EDeliver q19).

(* what a reconfiguration event appends: nothing but possibly one settled single-server configuration entry *)
Lemma reconf_appended_shape s ev code s' :
  n_role s = Leader -> reconf_event ev -> run_event (settle s) ev = Ret (code, s') -> p_term (n_p s') = p_term (n_p s) ->
  Sh s (p_log (n_p s')).
Proof.
  intros Hr Hev Hrun Ht. destruct ev; simpl in Hev; try contradiction; simpl in Hrun.
  - pose proof (shr_add_node (settle s) member rnd Hr) as K. rewrite Hrun in K. exact (K Ht).
  - pose proof (shr_remove_node (settle s) member Hr) as K. rewrite Hrun in K. exact (K Ht).
Qed.

Example leader_suffix_reconf_nonvacuous :
  exists s0 evs st,
    loop_start_snap s0 /\ p_log (n_p s0) = [] /\ n_commit s0 = 3 /\
    loop_runR {| lp_node := s0; lp_prop := []; lp_comm := [] |} evs st /\
    evs = [ERemoveNode 2; EDeliver q19] /\
    map (fun e => (e_index e, e_term e, e_type e)) (lp_prop st) = [(4, 2, EntryConf)] /\
    lp_comm st = lp_prop st /\ n_commit (lp_node st) = 4.
Proof.
  exists sld0, [ERemoveNode 2; EDeliver q19]. eexists.
  split; [exact sld0_start|]. split; [reflexivity|]. split; [reflexivity|]. split; [| split; [reflexivity|]].
  - eapply loopR_cons.
    { apply (LRrec _ (ERemoveNode 2) 0 rld1); [exact I | vm_compute; reflexivity | reflexivity | reflexivity]. }
    eapply loopR_cons.
    { apply LRev. apply (loop_step_exec _ (EDeliver q19) 0 rld2); [exact I | vm_compute; reflexivity | reflexivity | reflexivity]. }
    apply loopR_nil.
  - vm_compute. auto.
Qed.
