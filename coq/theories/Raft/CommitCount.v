(* Raft/CommitCount.v — the counting behind findMajorityIndex: if the (q-1)-th element (0-based) of the descending sort of a
   list of indices is ci, then at least q elements of the list are >= ci. *)
From Coq Require Import List NArith ZArith Bool Lia ZifyN ZifyNat ZifyBool.
From BLB Require Import Raft.Core.
Import ListNotations.
Open Scope N_scope.

Definition cnt_ge (c : N) (l : list N) : nat := length (filter (fun x => c <=? x) l).

Lemma cnt_ge_insert c x l : cnt_ge c (insert_desc x l) = cnt_ge c (x :: l).
Proof.
  induction l as [| y r IH]; simpl; auto.
  destruct (y <? x); [reflexivity|]. unfold cnt_ge in *. simpl in *.
  destruct (c <=? y); simpl; rewrite IH; destruct (c <=? x); reflexivity.
Qed.

Lemma cnt_ge_sort c l : cnt_ge c (sort_desc l) = cnt_ge c l.
Proof.
  induction l as [| x r IH]; simpl; auto. rewrite cnt_ge_insert. unfold cnt_ge in *. simpl. destruct (c <=? x); simpl; rewrite IH; reflexivity.
Qed.

Fixpoint desc (l : list N) : Prop :=
  match l with [] => True | x :: r => (forall y, In y r -> y <= x) /\ desc r end.

Lemma in_insert_desc v x l : In v (insert_desc x l) <-> v = x \/ In v l.
Proof.
  induction l as [| y r IH]; simpl; [intuition|].
  destruct (y <? x); simpl; [intuition|]. rewrite IH. intuition.
Qed.

Lemma desc_insert x l : desc l -> desc (insert_desc x l).
Proof.
  induction l as [| y r IH]; simpl; intro H; [split; auto; intros ? []|].
  destruct H as [H1 H2]. destruct (y <? x) eqn:E.
  - apply N.ltb_lt in E. simpl. split; [| split; auto]. intros z [Hz | Hz]; [lia | specialize (H1 z Hz); lia].
  - apply N.ltb_ge in E. simpl. split; auto. intros z Hz. apply in_insert_desc in Hz. destruct Hz as [Hz | Hz]; [lia | auto].
Qed.

Lemma desc_sort l : desc (sort_desc l).
Proof. induction l; simpl; auto. apply desc_insert. exact IHl. Qed.

Lemma desc_nth_cnt l k c : desc l -> nth_error l k = Some c -> (k < cnt_ge c l)%nat.
Proof.
  revert k. induction l as [| x r IH]; intros k D Hk; [destruct k; discriminate|].
  destruct D as [D1 D2]. unfold cnt_ge in *. simpl. destruct k; simpl in Hk.
  - inversion Hk. subst. rewrite N.leb_refl. simpl. lia.
  - assert (c <= x) by (apply D1; eapply nth_error_In; eauto).
    assert (E : (c <=? x) = true) by (apply N.leb_le; exact H). rewrite E. simpl. specialize (IH k D2 Hk). lia.
Qed.

Lemma majority_count l k c : nth_error (sort_desc l) k = Some c -> (k < cnt_ge c l)%nat.
Proof. intro H. rewrite <- cnt_ge_sort. apply desc_nth_cnt; auto. apply desc_sort. Qed.

(* ---------------------------------------------------------------- the peers table: strictly ascending ids *)
Fixpoint pasc (l : list peer) : Prop :=
  match l with [] => True | p :: r => (forall q, In q r -> pr_id p < pr_id q) /\ pasc r end.

Lemma in_peer_set x q l : pasc l -> In x (peer_set q l) -> x = q \/ (In x l /\ pr_id x <> pr_id q).
Proof.
  induction l as [| p r IH]; simpl; intro Hp.
  - intros [H | []]. left. auto.
  - destruct Hp as [H1 H2]. destruct (pr_id q =? pr_id p) eqn:E.
    + apply N.eqb_eq in E. intros [H | H]; [left; auto|]. right. split; auto. specialize (H1 x H). lia.
    + apply N.eqb_neq in E. destruct (pr_id q <? pr_id p) eqn:E2.
      * apply N.ltb_lt in E2. intros [H | [H | H]]; [left; auto | right | right].
        -- subst x. split; [left; reflexivity | lia].
        -- split; [right; exact H|]. specialize (H1 x H). lia.
      * apply N.ltb_ge in E2. intros [H | H].
        -- right. subst x. split; [left; reflexivity | lia].
        -- destruct (IH H2 H) as [X | [X Y]]; [left; auto | right; split; [right; exact X | exact Y]].
Qed.

Lemma peer_set_in q l : In q (peer_set q l).
Proof.
  induction l as [| p r IH]; simpl; [left; auto|].
  destruct (pr_id q =? pr_id p); [left; auto|]. destruct (pr_id q <? pr_id p); [left; auto | right; exact IH].
Qed.

Lemma peer_set_keep x q l : In x l -> pr_id x <> pr_id q -> In x (peer_set q l).
Proof.
  induction l as [| p r IH]; simpl; [intros []|]. intros Hin Hne.
  destruct (pr_id q =? pr_id p) eqn:E.
  - apply N.eqb_eq in E. destruct Hin as [H | H]; [subst; congruence | right; auto].
  - destruct (pr_id q <? pr_id p); [right; exact Hin|]. destruct Hin as [H | H]; [left; auto | right; apply IH; auto].
Qed.

Lemma pasc_peer_set q l : pasc l -> pasc (peer_set q l).
Proof.
  induction l as [| p r IH]; simpl; intro Hp; [split; auto; intros ? []|].
  destruct Hp as [H1 H2]. destruct (pr_id q =? pr_id p) eqn:E.
  - apply N.eqb_eq in E. simpl. split; auto. intros y Hy. specialize (H1 y Hy). lia.
  - apply N.eqb_neq in E. destruct (pr_id q <? pr_id p) eqn:E2.
    + apply N.ltb_lt in E2. simpl. split; [| split; auto]. intros y [Hy | Hy]; [subst; auto | specialize (H1 y Hy); lia].
    + apply N.ltb_ge in E2. simpl. split; [| apply IH; auto].
      intros y Hy. destruct (in_peer_set y q r H2 Hy) as [X | [X _]]; [subst; lia | apply H1; auto].
Qed.

Lemma peer_get_in l p : pasc l -> In p l -> peer_get (pr_id p) l = Some p.
Proof.
  induction l as [| x r IH]; simpl; [intros _ []|]. intros [H1 H2] [H | H].
  - subst. rewrite N.eqb_refl. reflexivity.
  - destruct (pr_id x =? pr_id p) eqn:E; [apply N.eqb_eq in E; specialize (H1 p H); lia | auto].
Qed.

Lemma peer_get_some id l p : peer_get id l = Some p -> In p l /\ pr_id p = id.
Proof.
  induction l as [| x r IH]; simpl; [discriminate|].
  destruct (pr_id x =? id) eqn:E; [intro H; inversion H; subst; apply N.eqb_eq in E; auto|].
  intro H. destruct (IH H). auto.
Qed.

(* ---------------------------------------------------------------- the quorum behind findMajorityIndex *)
Lemma cnt_ge_app c a b : cnt_ge c (a ++ b) = (cnt_ge c a + cnt_ge c b)%nat.
Proof. unfold cnt_ge. rewrite filter_app, app_length. reflexivity. Qed.

Lemma cnt_ge_map c (l : list peer) : cnt_ge c (map pr_match l) = length (filter (fun p => c <=? pr_match p) l).
Proof.
  unfold cnt_ge. induction l as [| p r IH]; simpl; auto. destruct (c <=? pr_match p); simpl; rewrite IH; reflexivity.
Qed.

Lemma pasc_filter_nodup f l : pasc l -> NoDup (map pr_id (filter f l)).
Proof.
  induction l as [| p r IH]; simpl; intro H; [constructor|]. destruct H as [H1 H2].
  destruct (f p); simpl; [| auto]. constructor; [| auto].
  intro Hin. apply in_map_iff in Hin. destruct Hin as [q [E Hq]]. apply filter_In in Hq. destruct Hq as [Hq _].
  specialize (H1 q Hq). lia.
Qed.

Lemma NoDup_app_intro {A} (a b : list A) :
  NoDup a -> NoDup b -> (forall x, In x a -> In x b -> False) -> NoDup (a ++ b).
Proof.
  induction a as [| x r IH]; simpl; intros Ha Hb Hd; auto. inversion Ha; subst. constructor.
  - intro Hin. apply in_app_or in Hin. destruct Hin as [Hin | Hin]; [contradiction | apply (Hd x); auto].
  - apply IH; auto. intros y Hy. apply Hd. auto.
Qed.

Lemma majority_evidence s mi :
  find_majority_index s = Ret mi -> pasc (l_peers s) -> (forall p, In p (l_peers s) -> pr_id p <> n_id s) ->
  mi <= last_index (n_p s) ->
  exists c Q, n_conf s = Some c /\ NoDup Q /\ quorum c <= N.of_nat (length Q) /\
              (forall v, In v Q -> v = n_id s \/ exists p, peer_get v (l_peers s) = Some p /\ mi <= pr_match p) /\
              (l_peers s = [] -> in_latest_conf s = true).
Proof.
  unfold find_majority_index. destruct (n_conf s) as [c |] eqn:Ec; [| discriminate].
  set (own := if in_latest_conf s then [last_index (n_p s)] else []).
  destruct (nth_error (sort_desc (own ++ map pr_match (l_peers s))) (N.to_nat (quorum c - 1))) as [ci |] eqn:En; [| discriminate].
  intros H Hp Hs Hle. inversion H. subst ci. clear H.
  apply majority_count in En. rewrite cnt_ge_app, cnt_ge_map in En.
  set (Qp := map pr_id (filter (fun p => mi <=? pr_match p) (l_peers s))) in *.
  exists c, ((if in_latest_conf s then [n_id s] else []) ++ Qp). split; [reflexivity|]. split; [| split; [| split]].
  - apply NoDup_app_intro.
    + destruct (in_latest_conf s); constructor; [intros [] | constructor].
    + apply pasc_filter_nodup. exact Hp.
    + intros v H1 H2. destruct (in_latest_conf s); [| contradiction]. destruct H1 as [H1 | []]. subst v.
      unfold Qp in H2. apply in_map_iff in H2. destruct H2 as [q [E Hq]]. apply filter_In in Hq. destruct Hq as [Hq _].
      apply (Hs q Hq). exact E.
  - rewrite app_length. unfold Qp. rewrite map_length.
    assert (Hown : (cnt_ge mi own <= length (if in_latest_conf s then [n_id s] else []))%nat).
    { unfold own, cnt_ge. destruct (in_latest_conf s); simpl; [| lia]. destruct (mi <=? last_index (n_p s)); simpl; lia. }
    unfold quorum in *. lia.
  - intros v Hv. apply in_app_or in Hv. destruct Hv as [Hv | Hv].
    + destruct (in_latest_conf s); [| contradiction]. destruct Hv as [Hv | []]. left. auto.
    + right. unfold Qp in Hv. apply in_map_iff in Hv. destruct Hv as [q [E Hq]]. apply filter_In in Hq. destruct Hq as [Hq Hm].
      exists q. split; [rewrite <- E; apply peer_get_in; auto | apply N.leb_le; exact Hm].
  - intro Hnil. rewrite Hnil in En. simpl in En. unfold own in En. destruct (in_latest_conf s); [reflexivity|]. simpl in En. lia.
Qed.
