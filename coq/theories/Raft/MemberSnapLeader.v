(* Raft/MemberSnapLeader.v — round 10: the shape of a continuing leader's log over one event, on a node WITH a snapshot
   (Raft/MemberLeaderLog.v leader_log_shape needed a snapshot-free node for the restart and crash cases only). *)
From Coq Require Import List NArith ZArith Bool Lia ZifyN ZifyNat ZifyBool.
From BLB Require Import Lib.LTS Raft.Core Raft.Wire Raft.NodeProofs Raft.NodeKeep Raft.NodeElect Raft.LogMatchLists
  Raft.MemberNode Raft.MemberConfStep Raft.MemberPeers Raft.MemberConfTrack Raft.MemberLeaderLog Raft.SnapConfTrack Raft.SnapEventsQ.
Import ListNotations.
Open Scope N_scope.

(* events a continuing leader may run here: no SnapshotDone (it only trims), proposals without configuration entries *)
Definition evL (ev : event) : Prop :=
  match ev with
  | EPropose es => Forall (fun e => isconfb e = false) es
  | ESnapDone _ => False
  | _ => True
  end.

Lemma new_core_log_cases id cfg p z :
  new_core id cfg p = Ret z -> p_log (n_p z) = p_log p \/ p_log (n_p z) = mem_truncate 0 (p_log p).
Proof.
  unfold new_core.
  assert (R : forall r, reconcile (blank_node id cfg p) = Ret r ->
                p_log (n_p r) = p_log p \/ p_log (n_p r) = mem_truncate 0 (p_log p)).
  { intros r. unfold reconcile. simpl.
    destruct (p_snap p) as [m |]; [| intro H; inversion H; left; reflexivity].
    destruct (log_first (p_log p)) as [fi |]; [| intro H; inversion H; left; reflexivity].
    destruct (log_last (p_log p)) as [li |]; [| intro H; inversion H; left; reflexivity].
    assert (T : forall r0, do_mut (MTruncate 0) (blank_node id cfg p) = Ret r0 -> p_log (n_p r0) = mem_truncate 0 (p_log p)).
    { intros r0. unfold do_mut. simpl. intro H. inversion H. reflexivity. }
    destruct ((li <? sn_index m) || (sn_index m + 1 <? fi)); [intro H; right; exact (T _ H)|].
    destruct (fi <=? sn_index m); [| intro H; inversion H; left; reflexivity].
    destruct (log_term p (sn_index m)) as [t | |]; simpl; try discriminate.
    destruct (negb (t =? sn_term m)); [intro H; right; exact (T _ H) | intro H; inversion H; left; reflexivity]. }
  destruct (reconcile (blank_node id cfg p)) as [r | |] eqn:Er; simpl; try discriminate.
  specialize (R r eq_refl).
  destruct (p_snap (n_p r)) as [mm |].
  - destruct (commit_up_to (set_conf (blank_node id cfg (n_p r)) (init_latest_conf (n_p r))) (sn_index mm)) as [s1 | |] eqn:Ec; simpl; try discriminate.
    intro H. inversion H. subst. simpl. rewrite (commit_up_to_log _ _ _ Ec). exact R.
  - simpl. intro H. inversion H. subst. exact R.
Qed.

Lemma shr_run_event s0 ev : n_role s0 = Leader -> evL ev -> ev <> ERestart -> shr s0 (run_event s0 ev).
Proof.
  intros Hr He Hne. destruct ev; simpl in *; try contradiction.
  - unfold propose_initial_membership. simpl. rewrite Hr. simpl. intros _. apply Sh_same. reflexivity.
  - unfold wrap0. apply shr_of_shx. apply shx_handle_msg. exact Hr.
  - unfold wrap0. apply shr_of_shx. apply srx_shx. apply srx_tick.
  - apply shr_propose; auto.
  - apply shr_add_node. exact Hr.
  - apply shr_remove_node. exact Hr.
Qed.

(* over the event with a crash point: the final log is the shaped log, or - only when newCore had to discard a log that
   disagrees with the snapshot - empty *)
Theorem leader_log_shape_snap s ev k crashed st s' :
  run_event_crash (settle s) ev k = Ret (crashed, st, s') ->
  n_role s = Leader -> p_term (n_p s') = p_term (n_p s) -> evL ev ->
  exists L1, Sh s L1 /\ (p_log (n_p s') = L1 \/ p_log (n_p s') = mem_truncate 0 L1).
Proof.
  intros Hrun Hr Ht He. revert Hrun. unfold run_event_crash.
  set (s0 := with_budget (settle s) k).
  assert (Hdec : ev = ERestart \/ ev <> ERestart) by (destruct ev; try (right; discriminate); left; reflexivity).
  destruct Hdec as [E | Hne].
  - subst ev. simpl. unfold wrap0.
    pose proof (new_core_pext (n_id s) (n_cfg s) (n_p s)) as X.
    destruct (new_core (n_id s) (n_cfg s) (n_p s)) as [z | |] eqn:En; simpl; try discriminate; [| contradiction].
    intro H. inversion H. subst. exists (p_log (n_p s)). split; [apply Sh_same; reflexivity|].
    exact (new_core_log_cases _ _ _ _ En).
  - pose proof (shr_run_event s0 ev Hr He Hne) as K.
    destruct (run_event s0 ev) as [[st0 x] | c | p] eqn:E; simpl in *; try discriminate.
    + intro H. inversion H. subst. simpl in Ht. exists (p_log (n_p x)). split; [apply K; exact Ht | left; reflexivity].
    + destruct (new_core (n_id s) (n_cfg s) p) as [z | |] eqn:En; simpl; try discriminate.
      intro H. inversion H. subst.
      assert (Tp : p_term p = p_term (n_p s)).
      { pose proof (run_event_pext s0 ev) as X1. rewrite E in X1. destruct X1 as [X1 _].
        pose proof (new_core_pext (n_id s) (n_cfg s) p) as X2. rewrite En in X2. destruct X2 as [[X2 _] _].
        simpl in X1. lia. }
      exists (p_log p). split; [apply K; exact Tp | exact (new_core_log_cases _ _ _ _ En)].
Qed.
