(* Raft/LogMatch.v — the Log Matching property of the system of Raft/Election.v (nodes x monotone message soup x ghost
   history) for fixed membership and schedules without snapshot / log trim:

     if two nodes' logs hold an entry with the same index and term, the logs are identical up to that index.

   Restricted alphabet (spelled out in [lstep]): the events of [sstep2] (no AddNode / RemoveNode, bootstraps propose as many
   members as there are nodes, proposals carry no other configuration) minus SnapshotDone, and every Bootstrap event
   carries one and the same initial membership (bm, be).  Everything else is free: delivery of any message ever sent to
   any node any number of times or never, ticks, proposals, restarts, and a crash right after any durable mutation of any
   event followed by newCore.

   Ghost state (existentially quantified in the invariant): the set of "leader log records" (t, i, l) — the log l of node
   i at the end of a step in which it was leader of term t — plus the record (1, 0, [bootstrap entry]).
   Invariants: records of one term are prefix-comparable (uses election safety: one leader per term, who only appends);
   every prefix of every log / record that ends in an entry of term t equals the same-length prefix of a record of term
   t; every AppEnts in the soup is a slice of a record of its term preceded by a matching (prevIndex, prevTerm). *)
From Coq Require Import List NArith ZArith Bool Lia ZifyN ZifyNat ZifyBool.
From BLB Require Import Lib.LTS Raft.Core Raft.Wire Raft.NodeProofs Raft.NodeKeep Raft.NodeElect Raft.NodeConf
  Raft.Election Raft.ElectionFixed Raft.LogMatchLists Raft.LogMatchNode.
Import ListNotations.
Open Scope N_scope.

Definition lrec := (N * nid * list entry)%type.

(* the record a step contributes: the touched node's final log if it ends as leader, or was leader of the same term when the step began *)
Definition rec_of (s s' : node) : list lrec :=
  match n_role s' with
  | Leader => [(p_term (n_p s'), n_id s', p_log (n_p s'))]
  | _ => match n_role s with
         | Leader => if p_term (n_p s') =? p_term (n_p s) then [(p_term (n_p s'), n_id s', p_log (n_p s'))] else []
         | _ => []
         end
  end.

Definition lm (G : list lrec) (L : list entry) : Prop :=
  forall k e, nth_error L k = Some e -> exists i l, In (e_term e, i, l) G /\ firstn (S k) L = firstn (S k) l.

Definition cmp_ok (G : list lrec) : Prop :=
  forall t i l j l', In (t, i, l) G -> In (t, j, l') G -> comparable l l'.

Lemma lm_mono G G' L : incl G G' -> lm G L -> lm G' L.
Proof. intros H A k e Hk. destruct (A k e Hk) as [i [l [X Y]]]. exists i, l. split; auto. Qed.

Lemma lm_firstn G m L : lm G L -> lm G (firstn m L).
Proof.
  intros A k e Hk. rewrite nth_error_firstn' in Hk. destruct (k <? m)%nat eqn:E; [| discriminate]. apply Nat.ltb_lt in E.
  destruct (A k e Hk) as [i [l [X Y]]]. exists i, l. split; auto.
  rewrite firstn_firstn. rewrite Nat.min_l by lia. exact Y.
Qed.

Lemma nth_len {A} (l : list A) k x : nth_error l k = Some x -> (S k <= length l)%nat.
Proof. intro H. assert (X : nth_error l k <> None) by congruence. apply nth_error_Some in X. lia. Qed.

Lemma same_term_prefix G L l k e1 e2 :
  cmp_ok G -> lm G L -> lm G l -> nth_error L k = Some e1 -> nth_error l k = Some e2 -> e_term e1 = e_term e2 ->
  firstn (S k) L = firstn (S k) l.
Proof.
  intros C A B H1 H2 Et.
  destruct (A k e1 H1) as [i1 [l1 [X1 Y1]]]. destruct (B k e2 H2) as [i2 [l2 [X2 Y2]]].
  rewrite Et in X1. pose proof (C _ _ _ _ _ X1 X2) as Cm.
  rewrite Y1, Y2. apply comparable_firstn; auto.
  - eapply firstn_length_ge; [exact Y1|]. eapply nth_len; eauto.
  - eapply firstn_length_ge; [exact Y2|]. eapply nth_len; eauto.
Qed.

Lemma merge_eq {A} (L0 l ents : list A) (pin c : nat) :
  firstn c L0 = firstn c l -> ents = firstn (length ents) (skipn pin l) -> (pin <= c)%nat -> (c <= pin + length ents)%nat ->
  firstn c L0 ++ skipn (c - pin) ents = firstn (pin + length ents) l.
Proof.
  intros H1 H2 Ha Hb. set (n := length ents) in *. rewrite H1. rewrite H2.
  rewrite skipn_firstn_comm. rewrite skipn_skipn'. replace (pin + (c - pin))%nat with c by lia.
  rewrite (firstn_split c (pin + n)) by lia. f_equal. f_equal. lia.
Qed.

Lemma slice_nth L pi pt ents j e :
  slice L pi pt (Some ents) -> nth_error ents j = Some e -> nth_error L (N.to_nat pi + j) = Some e.
Proof.
  intros [_ [_ C]] H. rewrite C in H. rewrite nth_error_firstn' in H.
  destruct (j <? length ents)%nat; [| discriminate]. rewrite nth_error_skipn' in H. exact H.
Qed.

Lemma slice_wf L pi pt ents : wf_from 1 L -> slice L pi pt (Some ents) -> wf_from (pi + 1) ents.
Proof.
  intros W [_ [_ C]]. rewrite C. apply wf_from_firstn.
  replace (pi + 1) with (1 + N.of_nat (N.to_nat pi)) by lia. apply wf_from_skipn. exact W.
Qed.


(* ---------------------------------------------------------------- helpers for the step *)
Lemma strong_lr s0 inp boot p r :
  LR s0 inp boot p r -> n_role s0 = Leader -> p_term p = p_term (n_p s0) ->
  p_log p = p_log (n_p s0) \/ exists new, p_log p = p_log (n_p s0) ++ new /\ Forall (fun e => e_term e = p_term (n_p s0)) new.
Proof.
  unfold LR. cbv zeta. intros [H | [[_ [N _]] | [[_ [N _]] | [[_ [_ H]] | [_ [N _]]]]]] R T; try (exfalso; apply N; auto; fail).
  - left. exact H.
  - right. exact H.
Qed.

Lemma lm_app_leader G G' L0 new t i :
  incl G G' -> lm G L0 -> In (t, i, L0 ++ new) G' -> Forall (fun e => e_term e = t) new -> lm G' (L0 ++ new).
Proof.
  intros Hi A Hin Hn k e Hk. destruct (Nat.lt_ge_cases k (length L0)) as [Hlt | Hge].
  - rewrite nth_error_app1 in Hk by lia. destruct (A k e Hk) as [j [l [X Y]]]. exists j, l. split; auto.
    rewrite firstn_app. replace (S k - length L0)%nat with 0%nat by lia. simpl. rewrite app_nil_r. exact Y.
  - rewrite nth_error_app2 in Hk by lia. apply nth_error_In in Hk. rewrite Forall_forall in Hn. rewrite (Hn e Hk).
    exists i, (L0 ++ new). split; auto.
Qed.

Lemma term_at_nth L pi pt : term_at L pi pt -> (0 < N.to_nat pi)%nat -> exists e, nth_error L (N.to_nat pi - 1) = Some e /\ e_term e = pt.
Proof.
  intros [H | [e [H1 H2]]] Hp; [lia|]. exists e. split; auto. rewrite <- H1. f_equal. lia.
Qed.

Lemma merged_eq G L0 L' l a :
  cmp_ok G -> lm G L0 -> lm G l -> slice l (ai_pi a) (ai_pt a) (Some (ai_ents a)) -> merged L0 L' a ->
  L' = firstn (N.to_nat (ai_pi a) + length (ai_ents a)) l.
Proof.
  intros C A B Sl [c [E [Hb [Hc [Ta [Ag _]]]]]].
  set (pin := N.to_nat (ai_pi a)) in *.
  assert (Hpre : firstn c L0 = firstn c l).
  { destruct Ag as [Ec | [e1 [e2 [X1 [X2 [X3 X4]]]]]].
    - subst c. destruct (Nat.eq_dec pin 0) as [Z | Z]; [rewrite Z; reflexivity|].
      destruct (term_at_nth _ _ _ Ta ltac:(unfold pin in Z; lia)) as [e1 [X1 Y1]].
      destruct Sl as [_ [Tl _]]. destruct (term_at_nth _ _ _ Tl ltac:(unfold pin in Z; lia)) as [e2 [X2 Y2]].
      fold pin in X1, X2.
      replace (firstn pin L0) with (firstn (S (pin - 1)) L0) by (f_equal; lia).
      replace (firstn pin l) with (firstn (S (pin - 1)) l) by (f_equal; lia).
      eapply same_term_prefix; eauto. congruence.
    - pose proof (slice_nth _ _ _ _ _ _ Sl X2) as X5. fold pin in X5. replace (pin + (c - 1 - pin))%nat with (c - 1)%nat in X5 by lia.
      replace (firstn c L0) with (firstn (S (c - 1)) L0) by (f_equal; lia).
      replace (firstn c l) with (firstn (S (c - 1)) l) by (f_equal; lia).
      eapply same_term_prefix; eauto. }
  destruct Sl as [_ [_ Cs]]. fold pin in Cs.
  rewrite E. apply (merge_eq L0 l (ai_ents a) pin c Hpre Cs); lia.
Qed.

Lemma lm_merged G L0 L' l a :
  cmp_ok G -> lm G L0 -> lm G l -> slice l (ai_pi a) (ai_pt a) (Some (ai_ents a)) -> merged L0 L' a -> lm G L'.
Proof.
  intros C A B Sl M. rewrite (merged_eq G L0 L' l a C A B Sl M). apply lm_firstn. exact B.
Qed.

(* entry terms: bounded by a term, non-decreasing along the log *)
Definition tbound (t : N) (l : list entry) : Prop := Forall (fun e => e_term e <= t) l.
Definition tmono (l : list entry) : Prop :=
  forall k1 k2 e1 e2, (k1 <= k2)%nat -> nth_error l k1 = Some e1 -> nth_error l k2 = Some e2 -> e_term e1 <= e_term e2.

Lemma tbound_le t t' l : t <= t' -> tbound t l -> tbound t' l.
Proof. intros H A. eapply Forall_impl; [| exact A]. intros e He. simpl in He. lia. Qed.

Lemma tbound_firstn t m l : tbound t l -> tbound t (firstn m l).
Proof.
  intros A. unfold tbound in *. apply Forall_forall. intros e He. rewrite Forall_forall in A. apply A.
  rewrite <- (firstn_skipn m l). apply in_or_app. left. exact He.
Qed.

Lemma tmono_firstn m l : tmono l -> tmono (firstn m l).
Proof.
  intros A k1 k2 e1 e2 Hk H1 H2. rewrite nth_error_firstn' in H1, H2.
  destruct (k1 <? m)%nat; [| discriminate]. destruct (k2 <? m)%nat; [| discriminate]. apply (A k1 k2 e1 e2 Hk H1 H2).
Qed.

Lemma tmono_app_new t l new : tbound t l -> tmono l -> Forall (fun e => e_term e = t) new -> tmono (l ++ new).
Proof.
  intros B M Hn k1 k2 e1 e2 Hk H1 H2. unfold tbound in B. rewrite Forall_forall in B, Hn.
  destruct (Nat.lt_ge_cases k2 (length l)) as [L2 | L2].
  - rewrite nth_error_app1 in H1, H2 by lia. apply (M k1 k2 e1 e2 Hk H1 H2).
  - rewrite nth_error_app2 in H2 by lia. apply nth_error_In in H2. rewrite (Hn e2 H2).
    destruct (Nat.lt_ge_cases k1 (length l)) as [L1 | L1].
    + rewrite nth_error_app1 in H1 by lia. apply nth_error_In in H1. apply (B e1 H1).
    + rewrite nth_error_app2 in H1 by lia. apply nth_error_In in H1. rewrite (Hn e1 H1). lia.
Qed.

Lemma comparable_sym {A} (a b : list A) : comparable a b -> comparable b a.
Proof. intros [H | H]; [right | left]; exact H. Qed.

Lemma in_rec_of s s' r :
  In r (rec_of s s') ->
  r = (p_term (n_p s'), n_id s', p_log (n_p s')) /\
  (n_role s' = Leader \/ (n_role s = Leader /\ p_term (n_p s') = p_term (n_p s))).
Proof.
  unfold rec_of. destruct (n_role s') eqn:R'.
  - destruct (n_role s) eqn:R; try (intros []).
    destruct (p_term (n_p s') =? p_term (n_p s)) eqn:E; [| intros []]. apply N.eqb_eq in E.
    intros [H | []]. split; auto.
  - destruct (n_role s) eqn:R; try (intros []).
    destruct (p_term (n_p s') =? p_term (n_p s)) eqn:E; [| intros []]. apply N.eqb_eq in E.
    intros [H | []]. split; auto.
  - intros [H | []]. split; auto.
Qed.

Lemma rec_of_in s s' :
  n_role s' = Leader \/ (n_role s = Leader /\ p_term (n_p s') = p_term (n_p s)) ->
  In (p_term (n_p s'), n_id s', p_log (n_p s')) (rec_of s s').
Proof.
  unfold rec_of. intros [H | [H1 H2]].
  - rewrite H. left. reflexivity.
  - destruct (n_role s'); try (left; reflexivity); rewrite H1; apply N.eqb_eq in H2; rewrite H2; left; reflexivity.
Qed.

(* ---------------------------------------------------------------- the restricted step *)
Definition evres (bm : list nid) (be : N) (ev : event) : Prop :=
  match ev with
  | EBootstrap ms ep => ms = bm /\ ep = be
  | ESnapDone _ => False
  | _ => True
  end.

Definition lstep (n : nat) (bm : list nid) (be : N) (σ : sys) (e : sys_event) (σ' : sys) : Prop :=
  sstep2 n σ e σ' /\ evres bm be (snd (fst e)).

Definition linit (σ : sys) : Prop :=
  sinit2 σ /\ forall s, In s (sy_nodes σ) -> p_log (n_p s) = [] /\ p_snap (n_p s) = None /\ n_conf s = None.

(* a delivery that makes the node emit anything leaves it in the term of the delivered message *)
Lemma handle_msg_term s m s' :
  n_msgs s = [] -> handle_msg s m = Ret s' -> n_msgs s' = [] \/ p_term (n_p s') = m_term m.
Proof.
  intro Hm. unfold handle_msg.
  match goal with |- (if ?c then _ else _) = _ -> _ => destruct c end; [intro H; inversion H; subst; left; auto|].
  match goal with |- (if ?c then _ else _) = _ -> _ => destruct c end; [intro H; inversion H; subst; left; auto|].
  assert (H1 : forall s1, (if guid_get (m_from m) (p_guids (n_p s)) =? 0 then do_mut (MSetGuid (m_from m) (m_fromg m)) s else Ret s) = Ret s1 ->
               n_msgs s1 = []).
  { intros s1. destruct (guid_get (m_from m) (p_guids (n_p s)) =? 0).
    - unfold do_mut. destruct (negb (n_budget s =? 0) && (n_budget s =? n_cnt s + 1)); [discriminate|].
      intro E. inversion E. simpl. exact Hm.
    - intro E. inversion E. subst. exact Hm. }
  destruct (if guid_get (m_from m) (p_guids (n_p s)) =? 0 then do_mut (MSetGuid (m_from m) (m_fromg m)) s else Ret s) as [s1 | |];
    simpl; try discriminate.
  specialize (H1 s1 eq_refl).
  match goal with |- (if ?c then _ else _) = _ -> _ => destruct c end; [intro H; inversion H; subst; left; auto|].
  destruct (m_term m <? p_term (n_p s1)) eqn:Elt; [intro H; inversion H; subst; left; auto|].
  assert (Hrole : forall s2, n_msgs s2 = [] -> p_term (n_p s2) = m_term m -> handle_by_role s2 m = Ret s' ->
                    p_term (n_p s') = m_term m).
  { intros s2 M2 T2. unfold handle_by_role. destruct (n_role s2).
    - intro H. apply handle_follower_sum in H; auto. destruct H as [_ [T _]]. congruence.
    - intro H. apply handle_candidate_sum in H. destruct H as [T _]. congruence.
    - intro H. pose proof (kx_handle_leader s2 m) as K. rewrite H in K. simpl in K. destruct K as [T _]. congruence. }
  destruct (p_term (n_p s1) <? m_term m) eqn:Egt.
  - assert (H2 : forall s2,
               (match m_body m with
                | AppEnts _ _ _ _ | InstallSnap _ _ _ =>
                    s'0 <- do_mut (MSaveState (m_from m) (m_term m)) s1 ;; Ret (become_follower s'0 (m_from m))
                | VoteReq _ _ => s'0 <- do_mut (MSaveState 0 (m_term m)) s1 ;; Ret (become_follower s'0 0)
                | _ => Fatal F_RESP_HIGHER_TERM
                end) = Ret s2 -> n_msgs s2 = [] /\ p_term (n_p s2) = m_term m).
    { intros s2. destruct (m_body m); try discriminate;
        unfold do_mut; destruct (negb (n_budget s1 =? 0) && (n_budget s1 =? n_cnt s1 + 1)); simpl; try discriminate;
        intro X; inversion X; simpl; split; auto. }
    match goal with |- bind ?a _ = _ -> _ => destruct a as [s2 | |] end; simpl; try discriminate.
    destruct (H2 s2 eq_refl) as [M2 T2]. intro H. right. eapply Hrole; eauto.
  - apply N.ltb_ge in Elt, Egt. simpl. intro H. right. eapply Hrole; eauto. lia.
Qed.

Lemma deliver_term s m k crashed st s' :
  run_event_crash (settle s) (EDeliver m) k = Ret (crashed, st, s') -> n_msgs s' = [] \/ p_term (n_p s') = m_term m.
Proof.
  unfold run_event_crash. simpl. unfold wrap0.
  destruct (handle_msg (with_budget (settle s) k) m) as [x | c | p] eqn:E; simpl; try discriminate.
  - intro H. inversion H. subst. apply handle_msg_term in E; [| reflexivity]. simpl. exact E.
  - pose proof (new_core_pext (n_id s) (n_cfg s) p) as Q.
    destruct (new_core (n_id s) (n_cfg s) p); simpl in *; try discriminate.
    intro H. inversion H. subst. left. tauto.
Qed.


(* ---------------------------------------------------------------- what the system-level proofs use of one step of one node *)
Record nstep (s : node) (ev : event) (k : N) (s' : node) : Prop := {
  ns_id : n_id s' = n_id s;
  ns_pext : pext (n_p s) (n_p s');
  ns_msgs : msgs_ok s';
  ns_esum : esum s s' (ev_msg ev);
  ns_term : forall m, ev = EDeliver m -> n_msgs s' = [] \/ p_term (n_p s') = m_term m;
  ns_inv : inv (with_budget (settle s) k) (inp_of ev) (boot_of ev) (rt_of ev) (vq_of ev) (lq_of s) (dc_of ev) (rsp_of ev) s'
}.

Lemma nstep_of_run s ev k crashed st s' :
  base s -> evok4 ev -> run_event_crash (settle s) ev k = Ret (crashed, st, s') -> nstep s ev k s'.
Proof.
  intros Hb He Hrun. destruct (step_facts _ _ _ _ _ _ Hrun) as [Hid [Hp [Hm Hs]]].
  constructor; auto.
  - intros m Em. subst ev. eapply deliver_term; eauto.
  - eapply run_event_crash_lm; eauto.
Qed.

Section Inv.
  Variables (bm : list nid) (be : N).
  Let bootE := boot_entry bm be.

  Definition msg_ok3 (G : list lrec) (m : msg) : Prop :=
    match m_body m with
    | AppEnts pi pt _ oe => exists i l, In (m_term m, i, l) G /\ slice l pi pt oe /\ 1 <= m_term m
    | InstallSnap _ _ _ => False
    | _ => True
    end.

  Record ginv (σ : sys) (G : list lrec) : Prop := {
    g_el : Election.inv (map n_id (sy_nodes σ)) σ;
    g_i2 : inv2 (length (sy_nodes σ)) σ;
    g_base : forall i s, get_node i (sy_nodes σ) = Some s -> base s;
    g_hist_leader : forall i s, get_node i (sy_nodes σ) = Some s -> n_role s = Leader -> In (p_term (n_p s), n_id s) (sy_hist σ);
    g_rec_leader : forall i s, get_node i (sy_nodes σ) = Some s -> n_role s = Leader -> In (p_term (n_p s), n_id s, p_log (n_p s)) G;
    g_rec_hist : forall t i l, In (t, i, l) G -> (i = 0 /\ t = 1 /\ l = [bootE]) \/ (i <> 0 /\ In (t, i) (sy_hist σ) /\ 2 <= t);
    g_rec_node : forall t i l, In (t, i, l) G -> i <> 0 ->
                   exists s, get_node i (sy_nodes σ) = Some s /\ t <= p_term (n_p s) /\
                             (t = p_term (n_p s) -> n_role s <> Candidate /\ (n_role s = Leader -> pfx l (p_log (n_p s))));
    g_cmp : cmp_ok G;
    g_rec_wf : forall t i l, In (t, i, l) G -> wf_from 1 l;
    g_lm_rec : forall t i l, In (t, i, l) G -> lm G l;
    g_lm_node : forall i s, get_node i (sy_nodes σ) = Some s -> lm G (p_log (n_p s));
    g_msgs : forall m, In m (sy_soup σ) -> msg_ok3 G m;
    g_boot : In (1, 0, [bootE]) G;
    g_tb_rec : forall t i l, In (t, i, l) G -> tbound t l /\ tmono l;
    g_tb_node : forall i s, get_node i (sy_nodes σ) = Some s -> tbound (p_term (n_p s)) (p_log (n_p s)) /\ tmono (p_log (n_p s))
  }.

  Lemma ginv_init σ : linit σ -> ginv σ [(1, 0, [bootE])].
  Proof.
    intros [Hi Hl]. pose proof Hi as [Hn [Ha [Hs [Hc Hh]]]].
    assert (Hnode : forall i s, get_node i (sy_nodes σ) = Some s -> In s (sy_nodes σ)).
    { intros i s G. apply get_node_in in G. tauto. }
    constructor.
    - apply inv_init; auto. unfold sinit. repeat split; auto; try (apply Ha; auto).
      rewrite map_length. apply sok_conf_okq. apply Ha; auto.
    - split.
      + intros i s G. apply Ha; eauto.
      + rewrite Hs. intros m [].
    - intros i s G. destruct (Hl s (Hnode _ _ G)) as [A [B C]]. destruct (Ha s (Hnode _ _ G)) as [_ [R _]].
      unfold base. rewrite A, B, R. repeat split; auto; try (simpl; auto; fail); congruence.
    - intros i s G R. destruct (Ha s (Hnode _ _ G)) as [_ [R' _]]. congruence.
    - intros i s G R. destruct (Ha s (Hnode _ _ G)) as [_ [R' _]]. congruence.
    - intros t i l [H | []]. inversion H. left. auto.
    - intros t i l [H | []]. inversion H. congruence.
    - intros t i l j l' [H | []] [H' | []]. inversion H. inversion H'. subst. left. apply pfx_refl.
    - intros t i l [H | []]. inversion H. subst. simpl. auto.
    - intros t i l [H | []]. inversion H. subst. intros k e Hk. destruct k; [| destruct k; discriminate].
      simpl in Hk. inversion Hk. subst e. exists 0, [bootE]. split; [left; reflexivity | reflexivity].
    - intros i s G. destruct (Hl s (Hnode _ _ G)) as [A _]. rewrite A. intros k e Hk. destruct k; discriminate.
    - rewrite Hs. intros m [].
    - left. reflexivity.
    - intros t i l [H | []]. inversion H. subst. split.
      + constructor; [simpl; lia | constructor].
      + intros k1 k2 e1 e2 Hk H1 H2. destruct k2; [| destruct k2; discriminate]. destruct k1; [| lia]. simpl in H1, H2. inversion H1. inversion H2. subst. apply N.le_refl.
    - intros i s G. destruct (Hl s (Hnode _ _ G)) as [A _]. rewrite A. split; [constructor|].
      intros k1 k2 e1 e2 Hk H1 H2. destruct k1; discriminate.
  Qed.

  Lemma msg_ok3_mono G G' m : incl G G' -> msg_ok3 G m -> msg_ok3 G' m.
  Proof.
    intros Hi. unfold msg_ok3. destruct (m_body m); auto. intros [i [l [A B]]]. exists i, l. split; auto.
  Qed.

  Definition step_sys (σ : sys) (s' : node) : sys :=
    {| sy_nodes := put_node s' (sy_nodes σ); sy_soup := sy_soup σ ++ out_msgs s';
       sy_cast := sy_cast σ ++ cast_of s'; sy_hist := sy_hist σ ++ hist_of s' |}.

  Lemma put_node_length x c : length (put_node x c) = length c.
  Proof. rewrite <- (map_length n_id), put_node_ids, map_length. reflexivity. Qed.

  Lemma ginv_step_abs n σ G i s ev k s' :
    length (sy_nodes σ) = n -> ginv σ G ->
    get_node i (sy_nodes σ) = Some s -> (forall m, ev = EDeliver m -> In m (sy_soup σ) /\ m_to m <> 0) ->
    evres bm be ev -> nstep s ev k s' ->
    Election.inv (map n_id (sy_nodes σ)) (step_sys σ s') -> inv2 n (step_sys σ s') ->
    ginv (step_sys σ s') (G ++ rec_of s s').
  Proof.
    intros Hlen GI Gs Hdel Hres NS El0 I2'.
    assert (Hlen' : length (put_node s' (sy_nodes σ)) = n) by (rewrite put_node_length; exact Hlen).
    assert (Hids : map n_id (sy_nodes (step_sys σ s')) = map n_id (sy_nodes σ)) by (simpl; apply put_node_ids).
    assert (El' : Election.inv (map n_id (sy_nodes (step_sys σ s'))) (step_sys σ s')) by (rewrite Hids; exact El0).
    clear El0. unfold step_sys in *. simpl in Hids, El', I2'.
    destruct NS as [Hid Hp Hm He Hdt NI].
    destruct (get_node_in _ _ _ Gs) as [Gin Gid].
    assert (Hi : n_id s' = i) by congruence.
    assert (Gs' : get_node i (put_node s' (sy_nodes σ)) = Some s').
    { rewrite <- Hi. eapply get_put_same. rewrite Hi. exact Gs. }
    assert (Go : forall j, j <> i -> get_node j (put_node s' (sy_nodes σ)) = get_node j (sy_nodes σ)).
    { intros j Hj. apply get_put_other. congruence. }
    assert (Gcase : forall j x, get_node j (put_node s' (sy_nodes σ)) = Some x ->
                      (j = i /\ x = s') \/ (j <> i /\ get_node j (sy_nodes σ) = Some x)).
    { intros j x Hx. destruct (N.eq_dec j i) as [E | E].
      - subst j. rewrite Gs' in Hx. inversion Hx. auto.
      - rewrite Go in Hx; auto. }
    assert (Hnz : n_id s <> 0) by (eapply (i_nz _ σ (g_el σ G GI)); eauto).
    set (s0' := with_budget (settle s) k) in NI.
    pose proof (v_snap _ _ _ _ _ _ _ _ _ NI) as N_snap. pose proof (v_wf _ _ _ _ _ _ _ _ _ NI) as N_wf.
    pose proof (v_n1 _ _ _ _ _ _ _ _ _ NI) as N_n1. pose proof (v_n2 _ _ _ _ _ _ _ _ _ NI) as N_n2.
    pose proof (v_tm _ _ _ _ _ _ _ _ _ NI) as N_tm. change (p_term (n_p s0')) with (p_term (n_p s)) in N_tm.
    pose proof (v_rt _ _ _ _ _ _ _ _ _ NI) as N_rt. change (p_term (n_p s0')) with (p_term (n_p s)) in N_rt.
    change (n_role s0') with (n_role s) in N_rt.
    pose proof (v_lr _ _ _ _ _ _ _ _ _ NI) as N_lr. pose proof (v_msgs _ _ _ _ _ _ _ _ _ NI) as N_msgs. pose proof (v_lead _ _ _ _ _ _ _ _ _ NI) as N_lead.
    pose proof (g_base σ G GI i s Gs) as [B_snap [B_wf [B_n1 [B_n2 B_pk]]]].
    set (T' := p_term (n_p s')) in *. set (L' := p_log (n_p s')) in *. set (L0 := p_log (n_p s)) in *.
    set (cond := n_role s' = Leader \/ (n_role s = Leader /\ T' = p_term (n_p s))).
    set (G' := G ++ rec_of s s').
    assert (HG : incl G G') by (intros r Hr; apply in_or_app; left; exact Hr).
    assert (Hrec_in : cond -> In (T', n_id s', L') G').
    { intro Hc. apply in_or_app. right. apply rec_of_in. exact Hc. }
    assert (Hrec_new : forall r, In r (rec_of s s') -> r = (T', n_id s', L') /\ cond).
    { intros r Hr. apply in_rec_of in Hr. exact Hr. }
    assert (Hcond2 : cond -> 2 <= T' /\ In (T', n_id s') (sy_hist σ ++ hist_of s')).
    { intros [Hc | [Hc1 Hc2]].
      - split; [apply N_n2; congruence|]. apply in_or_app. right. unfold hist_of. rewrite Hc. left. reflexivity.
      - split; [rewrite Hc2; apply B_n2; congruence|]. apply in_or_app. left. rewrite Hc2, Hid.
        apply (g_hist_leader σ G GI i s Gs Hc1). }
    assert (Hlead_same : T' = p_term (n_p s) -> n_role s <> Candidate -> n_role s' = Leader -> n_role s = Leader).
    { intros Et Hnc Hl. destruct (N_rt Et) as [X | [X | [X _]]]; congruence. }
    assert (Hext : n_role s = Leader -> T' = p_term (n_p s) -> pfx L0 L').
    { intros Hr Et. destruct (strong_lr _ _ _ _ _ N_lr Hr Et) as [X | [new [X _]]].
      - unfold L', L0. change (p_log (n_p s0')) with (p_log (n_p s)) in X. rewrite X. apply pfx_refl.
      - unfold L', L0. change (p_log (n_p s0')) with (p_log (n_p s)) in X. rewrite X. exists new. reflexivity. }
    assert (Hnewold : forall j l, In (T', j, l) G -> cond -> comparable l L').
    { intros j l Hin Hc. destruct (Hcond2 Hc) as [H2 Hh].
      destruct (g_rec_hist σ G GI _ _ _ Hin) as [[Z1 [Z2 Z3]] | [Jnz [Jh J2]]]; [lia|].
      assert (Ej : j = n_id s').
      { eapply (Election.inv_election _ _ El'); [| exact Hh]. simpl. apply in_or_app. left. exact Jh. }
      destruct (g_rec_node σ G GI _ _ _ Hin Jnz) as [x [Gx [Le Eq]]].
      rewrite Ej, Hi, Gs in Gx. inversion Gx. subst x.
      assert (Et : T' = p_term (n_p s)) by lia. destruct (Eq Et) as [Hnc Hpf].
      assert (Hr : n_role s = Leader).
      { destruct Hc as [Hc | [Hc _]]; [apply Hlead_same; auto | exact Hc]. }
      left. eapply pfx_trans; [apply Hpf; exact Hr | apply Hext; auto]. }
    (* the new log satisfies LM w.r.t. the extended record set *)
    assert (LMs' : lm G' L').
    { pose proof (g_lm_node σ G GI i s Gs) as LM0. fold L0 in LM0.
      unfold LR in N_lr. cbv zeta in N_lr. change (p_log (n_p s0')) with L0 in N_lr.
      change (p_term (n_p s0')) with (p_term (n_p s)) in N_lr. change (n_role s0') with (n_role s) in N_lr.
      fold L' in N_lr. fold T' in N_lr.
      destruct N_lr as [X | [[_ [_ [a2 [c [_ [_ [X _]]]]]]] | [[_ [_ [b [Xb [X0 X]]]]] | [[Xr [Xt [new [X Xn]]]] | [_ [_ [a [Xa [Xt Xm]]]]]]]]].
      - rewrite X. eapply lm_mono; eauto.
      - rewrite X. apply lm_firstn. eapply lm_mono; eauto.
      - assert (Eb : b = bootE).
        { destruct ev; simpl in Xb; try discriminate. inversion Xb. simpl in Hres. destruct Hres as [-> ->]. reflexivity. }
        rewrite X, Eb. intros k0 e0 Hk. destruct k0; [| destruct k0; discriminate]. simpl in Hk. inversion Hk. subst e0.
        exists 0, [bootE]. split; [apply HG; apply (g_boot σ G GI) | reflexivity].
      - rewrite X. eapply lm_app_leader with (t := T') (i := n_id s'); eauto.
        + rewrite <- X. apply Hrec_in. right. split; auto.
        + rewrite Xt. exact Xn.
      - assert (Hm' : exists m pi pt cm ents, ev = EDeliver m /\ m_body m = AppEnts pi pt cm (Some ents) /\
                         a = {| ai_term := m_term m; ai_pi := pi; ai_pt := pt; ai_ents := ents |}).
        { destruct ev; simpl in Xa; try discriminate. destruct (m_body m) eqn:Eb; try discriminate.
          destruct ents; try discriminate. inversion Xa. eexists _, _, _, _, _. repeat split; eauto. }
        destruct Hm' as [m [pi [pt [cm [ents [Eev [Eb Ea]]]]]]].
        destruct (Hdel m Eev) as [Min _]. pose proof (g_msgs σ G GI m Min) as Mk. unfold msg_ok3 in Mk. rewrite Eb in Mk.
        destruct Mk as [j [l [Rin [Sl _]]]].
        eapply lm_mono; [exact HG|].
        eapply lm_merged with (L0 := L0) (l := l) (a := a); eauto.
        + apply (g_cmp σ G GI).
        + eapply (g_lm_rec σ G GI); eauto.
        + rewrite Ea. simpl. exact Sl. }
    assert (TBs' : tbound T' L' /\ tmono L').
    { destruct (g_tb_node σ G GI i s Gs) as [TB0 TM0]. fold L0 in TB0, TM0.
      assert (TB0' : tbound T' L0) by (eapply tbound_le; [exact N_tm | exact TB0]).
      unfold LR in N_lr. cbv zeta in N_lr. change (p_log (n_p s0')) with L0 in N_lr.
      change (p_term (n_p s0')) with (p_term (n_p s)) in N_lr. change (n_role s0') with (n_role s) in N_lr.
      fold L' in N_lr. fold T' in N_lr.
      destruct N_lr as [X | [[_ [_ [a2 [c [_ [_ [X _]]]]]]] | [[_ [_ [b [Xb [X0 X]]]]] | [[Xr [Xt [new [X Xn]]]] | [_ [_ [a [Xa [Xt Xm]]]]]]]]].
      - rewrite X. auto.
      - rewrite X. split; [apply tbound_firstn | apply tmono_firstn]; auto.
      - assert (Eb : b = bootE).
        { destruct ev; simpl in Xb; try discriminate. inversion Xb. simpl in Hres. destruct Hres as [-> ->]. reflexivity. }
        rewrite X, Eb. split.
        + constructor; [| constructor]. simpl.
          destruct N_n1 as [[Z _] | Z]; [fold L' in Z; rewrite X in Z; discriminate | fold T' in Z; lia].
        + intros k1 k2 e1 e2 Hk H1 H2. destruct k2; [| destruct k2; discriminate]. destruct k1; [| lia]. simpl in H1, H2. inversion H1. inversion H2. subst. apply N.le_refl.
      - rewrite X. split.
        + apply Forall_app. split; auto. eapply Forall_impl; [| exact Xn]. intros e0 He0. simpl in He0. lia.
        + eapply tmono_app_new with (t := p_term (n_p s)); eauto.
      - assert (Hm' : exists m pi pt cm ents, ev = EDeliver m /\ m_body m = AppEnts pi pt cm (Some ents) /\
                         a = {| ai_term := m_term m; ai_pi := pi; ai_pt := pt; ai_ents := ents |}).
        { destruct ev; simpl in Xa; try discriminate. destruct (m_body m) eqn:Eb; try discriminate.
          destruct ents; try discriminate. inversion Xa. eexists _, _, _, _, _. repeat split; eauto. }
        destruct Hm' as [m [pi [pt [cm [ents [Eev [Eb Ea]]]]]]].
        destruct (Hdel m Eev) as [Min _]. pose proof (g_msgs σ G GI m Min) as Mk. unfold msg_ok3 in Mk. rewrite Eb in Mk.
        destruct Mk as [j [l [Rin [Sl _]]]].
        assert (Sl' : slice l (ai_pi a) (ai_pt a) (Some (ai_ents a))) by (rewrite Ea; simpl; exact Sl).
        rewrite (merged_eq G L0 L' l a (g_cmp σ G GI) (g_lm_node σ G GI i s Gs) (g_lm_rec σ G GI _ _ _ Rin) Sl' Xm).
        destruct (g_tb_rec σ G GI _ _ _ Rin) as [TBl TMl].
        split; [apply tbound_firstn | apply tmono_firstn]; auto.
        rewrite Xt, Ea. simpl. exact TBl. }
    constructor; simpl.
    - exact El'.
    - rewrite Hlen'. exact I2'.
    - intros j x Hx. destruct (Gcase j x Hx) as [[_ E] | [_ E]]; [subst x | eapply (g_base σ G GI); eauto].
      unfold base. split; auto. split; auto. split; auto. split; auto.
      intro Hl. destruct (v_ext _ _ _ _ _ _ _ _ _ NI) as [_ [_ [_ Pk]]]. destruct (Pk Hl) as [P1 [P2 _]]. auto.
    - intros j x Hx Hl. destruct (Gcase j x Hx) as [[_ E] | [_ E]].
      + subst x. apply in_or_app. right. unfold hist_of. rewrite Hl. left. reflexivity.
      + apply in_or_app. left. eapply (g_hist_leader σ G GI); eauto.
    - intros j x Hx Hl. destruct (Gcase j x Hx) as [[_ E] | [_ E]].
      + subst x. apply Hrec_in. left. exact Hl.
      + apply HG. eapply (g_rec_leader σ G GI); eauto.
    - intros t j l Hin. apply in_app_or in Hin. destruct Hin as [Hin | Hin].
      + destruct (g_rec_hist σ G GI _ _ _ Hin) as [Z | [Z1 [Z2 Z3]]]; [left; exact Z | right].
        split; auto. split; auto. apply in_or_app. left. exact Z2.
      + destruct (Hrec_new _ Hin) as [Er Hc]. inversion Er. subst t j l. right. destruct (Hcond2 Hc) as [A B].
        split; [congruence|]. split; auto.
    - intros t j l Hin Jnz. apply in_app_or in Hin. destruct Hin as [Hin | Hin].
      + destruct (g_rec_node σ G GI _ _ _ Hin Jnz) as [x [Gx [Le Eq]]].
        destruct (N.eq_dec j i) as [E | E].
        * subst j. rewrite Gs in Gx. inversion Gx. subst x. exists s'. split; auto. split; [fold T'; lia|].
          fold T'. intro Et. assert (Et' : t = p_term (n_p s)) by lia. destruct (Eq Et') as [Hnc Hpf].
          assert (Ett : T' = p_term (n_p s)) by lia.
          split.
          -- intro Hc. destruct (N_rt Ett) as [X | [X | [X _]]]; congruence.
          -- intro Hl. pose proof (Hlead_same Ett Hnc Hl) as Hr. fold L'. eapply pfx_trans; [apply Hpf; exact Hr | apply Hext; auto].
        * exists x. split; [rewrite Go; auto | auto].
      + destruct (Hrec_new _ Hin) as [Er Hc]. inversion Er. subst t j l. exists s'. rewrite Hi. split; auto.
        split; [fold T'; lia|]. intros _. split; [| intros _; apply pfx_refl].
        destruct Hc as [Hc | [Hc1 Hc2]]; [congruence|].
        destruct (N_rt Hc2) as [X | [X | [X _]]]; congruence.
    - intros t j l j' l' H1 H2. apply in_app_or in H1. apply in_app_or in H2.
      destruct H1 as [H1 | H1]; destruct H2 as [H2 | H2].
      + eapply (g_cmp σ G GI); eauto.
      + destruct (Hrec_new _ H2) as [Er Hc]. inversion Er. subst t j' l'. eapply Hnewold; eauto.
      + destruct (Hrec_new _ H1) as [Er Hc]. inversion Er. subst t j l. apply comparable_sym. eapply Hnewold; eauto.
      + destruct (Hrec_new _ H1) as [Er Hc]. destruct (Hrec_new _ H2) as [Er' _]. inversion Er. inversion Er'. subst. left. apply pfx_refl.
    - intros t j l Hin. apply in_app_or in Hin. destruct Hin as [Hin | Hin].
      + eapply (g_rec_wf σ G GI); eauto.
      + destruct (Hrec_new _ Hin) as [Er _]. inversion Er. exact N_wf.
    - intros t j l Hin. apply in_app_or in Hin. destruct Hin as [Hin | Hin].
      + eapply lm_mono; [exact HG|]. eapply (g_lm_rec σ G GI); eauto.
      + destruct (Hrec_new _ Hin) as [Er _]. inversion Er. exact LMs'.
    - intros j x Hx. destruct (Gcase j x Hx) as [[_ E] | [_ E]].
      + subst x. exact LMs'.
      + eapply lm_mono; [exact HG|]. eapply (g_lm_node σ G GI); eauto.
    - intros m Hin. apply in_app_or in Hin. destruct Hin as [Hin | Hin].
      + eapply msg_ok3_mono; [exact HG|]. apply (g_msgs σ G GI); auto.
      + apply in_out_msgs in Hin. destruct Hin as [m0 [H0 [Et [Ef [Eto Eb]]]]].
        unfold msgs_ok in Hm. rewrite Forall_forall in Hm. destruct (Hm m0 H0) as [X [Y Z]].
        rewrite Forall_forall in N_msgs. pose proof (N_msgs m0 H0) as Mg. unfold mgood in Mg.
        unfold msg_ok3. rewrite Eb. destruct (m_body m0) eqn:Ebody; auto.
        assert (Hc : cond).
        { destruct N_lead as [Na | Ld].
          - unfold no_appents in Na. rewrite Forall_forall in Na. exfalso. apply (Na m0 H0). unfold is_appents. rewrite Ebody. exact Logic.I.
          - unfold leaderish in Ld. change (n_role s0') with (n_role s) in Ld. change (p_term (n_p s0')) with (p_term (n_p s)) in Ld. exact Ld. }
        destruct (Hcond2 Hc) as [H2 _].
        exists (n_id s'), L'. split; [rewrite Et, X; apply Hrec_in; exact Hc|]. split; [exact Mg|]. rewrite Et, X. fold T'. lia.
    - apply HG. apply (g_boot σ G GI).
    - intros t j l Hin. apply in_app_or in Hin. destruct Hin as [Hin | Hin].
      + eapply (g_tb_rec σ G GI); eauto.
      + destruct (Hrec_new _ Hin) as [Er _]. inversion Er. exact TBs'.
    - intros j x Hx. destruct (Gcase j x Hx) as [[_ E] | [_ E]].
      + subst x. exact TBs'.
      + eapply (g_tb_node σ G GI); eauto.
  Qed.

  Lemma ginv_evok4 σ G ev :
    ginv σ G -> (forall m, ev = EDeliver m -> In m (sy_soup σ) /\ m_to m <> 0) -> evok2 (length (sy_nodes σ)) ev -> evres bm be ev -> evok4 ev.
  Proof.
    intros GI Hdel Hev Hres. destruct ev; simpl in *; auto; try contradiction.
    destruct (Hdel m eq_refl) as [Min _]. pose proof (g_msgs σ G GI m Min) as Mk. unfold msg_ok3 in Mk.
    destruct (m_body m); auto. destruct ents as [es |]; auto. destruct Mk as [j [l1 [X [Y Z]]]]. split; auto.
    eapply slice_wf; eauto. eapply (g_rec_wf σ G GI); eauto.
  Qed.

  Lemma ginv_step_rec n σ G i s ev k crashed st s' :
    length (sy_nodes σ) = n -> ginv σ G ->
    get_node i (sy_nodes σ) = Some s -> (forall m, ev = EDeliver m -> In m (sy_soup σ) /\ m_to m <> 0) ->
    evok2 n ev -> evres bm be ev -> run_event_crash (settle s) ev k = Ret (crashed, st, s') ->
    ginv (step_sys σ s') (G ++ rec_of s s').
  Proof.
    intros Hlen GI Gs Hdel Hev Hres Hrun.
    assert (Hst : sstep2 n σ (i, ev, k) (step_sys σ s')) by (eapply SStep2; eauto).
    pose proof (g_i2 σ G GI) as I2. rewrite Hlen in I2.
    destruct (sstep2_sstep n _ _ _ Hlen I2 Hst) as [Hss [I2' Hlen']].
    assert (Hids : map n_id (sy_nodes (step_sys σ s')) = map n_id (sy_nodes σ)) by (simpl; apply put_node_ids).
    assert (El' : Election.inv (map n_id (sy_nodes σ)) (step_sys σ s')).
    { rewrite <- Hids. rewrite Hids. eapply Election.inv_step; [apply (g_el σ G GI) | exact Hss]. }
    assert (Hev4 : evok4 ev) by (eapply ginv_evok4; eauto; rewrite Hlen; exact Hev).
    eapply ginv_step_abs; eauto.
    eapply nstep_of_run; eauto. apply (g_base σ G GI i s Gs).
  Qed.

  Lemma abs_of_run n σ G i s ev k crashed st s' :
    length (sy_nodes σ) = n -> ginv σ G ->
    get_node i (sy_nodes σ) = Some s -> (forall m, ev = EDeliver m -> In m (sy_soup σ) /\ m_to m <> 0) ->
    evok2 n ev -> evres bm be ev -> run_event_crash (settle s) ev k = Ret (crashed, st, s') ->
    nstep s ev k s' /\ Election.inv (map n_id (sy_nodes σ)) (step_sys σ s') /\ inv2 n (step_sys σ s').
  Proof.
    intros Hlen GI Gs Hdel Hev Hres Hrun.
    assert (Hst : sstep2 n σ (i, ev, k) (step_sys σ s')) by (eapply SStep2; eauto).
    pose proof (g_i2 σ G GI) as I2. rewrite Hlen in I2.
    destruct (sstep2_sstep n _ _ _ Hlen I2 Hst) as [Hss [I2' Hlen']].
    assert (Hev4 : evok4 ev) by (eapply ginv_evok4; eauto; rewrite Hlen; exact Hev).
    split; [eapply nstep_of_run; eauto; apply (g_base σ G GI i s Gs)|]. split; [| exact I2'].
    eapply Election.inv_step; [apply (g_el σ G GI) | exact Hss].
  Qed.

  Lemma ginv_step n σ G e σ' :
    length (sy_nodes σ) = n -> ginv σ G -> lstep n bm be σ e σ' -> exists G', ginv σ' G' /\ incl G G'.
  Proof.
    intros Hlen GI [Hst Hres]. destruct Hst as [σ i s ev k crashed st s' Gs Hdel Hev Hrun]. simpl in Hres.
    exists (G ++ rec_of s s'). split; [| intros r Hr; apply in_or_app; left; exact Hr].
    apply (ginv_step_rec n σ G i s ev k crashed st s' Hlen GI Gs Hdel Hev Hres Hrun).
  Qed.
End Inv.

(* ---------------------------------------------------------------- the theorem *)
Lemma lrun_inv bm be σ0 sched σ G0 :
  ginv bm be σ0 G0 -> run sys sys_event (lstep (length (sy_nodes σ0)) bm be) σ0 sched σ ->
  exists G, ginv bm be σ G /\ incl G0 G.
Proof.
  intros GI Hrun. remember (length (sy_nodes σ0)) as n eqn:Hn. symmetry in Hn.
  revert G0 GI Hn. induction Hrun as [σ1 | σ1 e σ2 es σ3 Hst Hr IH]; intros G0 GI Hn.
  - exists G0. split; auto. apply incl_refl.
  - destruct (ginv_step bm be n σ1 G0 e σ2 Hn GI Hst) as [G1 [GI1 Hinc]].
    assert (Hn2 : length (sy_nodes σ2) = n).
    { destruct Hst as [Hst _]. pose proof (g_i2 _ _ _ _ GI) as I2. rewrite Hn in I2.
      destruct (sstep2_sstep n _ _ _ Hn I2 Hst) as [_ [_ X]]. exact X. }
    destruct (IH G1 GI1 Hn2) as [G [GIf Hinc2]]. exists G. split; auto. eapply incl_tran; eauto.
Qed.

Theorem log_matching_sys :
  forall (bm : list nid) (be : N) (σ0 σ : sys) (sched : list sys_event),
    linit σ0 ->
    run sys sys_event (lstep (length (sy_nodes σ0)) bm be) σ0 sched σ ->
    forall a b k k' e e',
      In a (sy_nodes σ) -> In b (sy_nodes σ) ->
      nth_error (p_log (n_p a)) k = Some e -> nth_error (p_log (n_p b)) k' = Some e' ->
      e_index e = e_index e' -> e_term e = e_term e' ->
      k = k' /\ firstn (S k) (p_log (n_p a)) = firstn (S k) (p_log (n_p b)).
Proof.
  intros bm be σ0 σ sched Hinit Hrun a b k k' e e' Ha Hb Hk Hk' Ei Et.
  destruct (lrun_inv bm be σ0 sched σ _ (ginv_init bm be σ0 Hinit) Hrun) as [G [GI _]].
  pose proof (g_el _ _ _ _ GI) as El.
  assert (Hnd : NoDup (map n_id (sy_nodes σ))) by (apply (i_nodup _ _ El)).
  pose proof (in_get_node _ _ Hnd Ha) as Ga. pose proof (in_get_node _ _ Hnd Hb) as Gb.
  destruct (g_base _ _ _ _ GI _ _ Ga) as [_ [Wa _]]. destruct (g_base _ _ _ _ GI _ _ Gb) as [_ [Wb _]].
  pose proof (wf_from_nth _ _ _ _ Wa Hk) as Ia. pose proof (wf_from_nth _ _ _ _ Wb Hk') as Ib.
  assert (Ek : k = k') by lia. subst k'. split; auto.
  eapply same_term_prefix; eauto.
  - apply (g_cmp _ _ _ _ GI).
  - apply (g_lm_node _ _ _ _ GI _ _ Ga).
  - apply (g_lm_node _ _ _ _ GI _ _ Gb).
Qed.
