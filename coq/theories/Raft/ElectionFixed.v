(* Raft/ElectionFixed.v — election safety with the fixed-membership condition on the SCHEDULE instead of on the states:
   no AddNode/RemoveNode events, every bootstrap proposes a membership of as many members as there are nodes, proposed
   entries and snapshot metadata carry no other configuration.  Everything else is as in Raft/Election.v: any interleaving
   of deliveries of any message ever sent to any node (loss, duplication, reordering), ticks, proposals, snapshots,
   restarts, each event with or without a crash after any durable mutation. *)
From Coq Require Import List NArith ZArith Bool Lia.
From BLB Require Import Lib.LTS Raft.Core Raft.Wire Raft.NodeProofs Raft.NodeConf Raft.Election.
Import ListNotations.
Open Scope N_scope.

Definition evok2 (n : nat) (ev : event) : Prop :=
  match ev with
  | EBootstrap ms _ => length ms = n
  | EPropose es => Forall (eok n) es
  | EAddNode _ _ => False
  | ERemoveNode _ => False
  | ESnapDone m => ocok n (sn_conf m)
  | _ => True
  end.

Inductive sstep2 (n : nat) : sys -> sys_event -> sys -> Prop :=
| SStep2 : forall σ i s ev k crashed st s',
    get_node i (sy_nodes σ) = Some s ->
    (forall m, ev = EDeliver m -> In m (sy_soup σ) /\ m_to m <> 0) ->
    evok2 n ev ->
    run_event_crash (settle s) ev k = Ret (crashed, st, s') ->
    sstep2 n σ (i, ev, k)
      {| sy_nodes := put_node s' (sy_nodes σ); sy_soup := sy_soup σ ++ out_msgs s';
         sy_cast := sy_cast σ ++ cast_of s'; sy_hist := sy_hist σ ++ hist_of s' |}.

Definition inv2 (n : nat) (σ : sys) : Prop :=
  (forall i s, get_node i (sy_nodes σ) = Some s -> sok n s) /\ (forall m, In m (sy_soup σ) -> mok n m).

Lemma out_msgs_mok n s m : Forall (mok n) (n_msgs s) -> In m (out_msgs s) -> mok n m.
Proof.
  intros H Hin. unfold out_msgs in Hin. rewrite in_sort_by_to in Hin. rewrite in_map_iff in Hin.
  destruct Hin as [m0 [E H0]]. rewrite Forall_forall in H. specialize (H m0 H0). subst m. unfold mok in *. simpl. exact H.
Qed.

Lemma sok_conf_okq n s : sok n s -> conf_okq (N.of_nat n / 2 + 1) s.
Proof.
  intros [_ [Hc _]] c E. rewrite E in Hc. simpl in Hc. unfold cok in Hc. unfold quorum. rewrite Hc. reflexivity.
Qed.

Lemma sstep2_sstep n σ e σ' :
  length (sy_nodes σ) = n -> inv2 n σ -> sstep2 n σ e σ' ->
  sstep (quorum_of (map n_id (sy_nodes σ))) σ e σ' /\ inv2 n σ' /\ length (sy_nodes σ') = n.
Proof.
  intros Hlen I Hst. revert Hlen I. destruct Hst as [σ i s ev k crashed st s' G Hdel Hev Hrun]. intros Hlen [Inn Is].
  assert (Hs : sok n s) by (eapply Inn; eauto).
  assert (He : evok n ev).
  { destruct ev; simpl in *; auto. destruct (Hdel m eq_refl) as [Hin _]. apply Is; auto. }
  assert (Hs' : sok n s') by (eapply run_event_crash_conf; eauto).
  split; [| split].
  - eapply SStep; eauto. unfold quorum_of. rewrite map_length, Hlen. apply sok_conf_okq. exact Hs'.
  - split; simpl.
    + intros j x Hx. destruct (N.eq_dec j (n_id s')) as [E | E].
      * subst j. destruct (get_node_in _ _ _ G) as [_ Gid].
        pose proof (run_event_crash_pext (settle s) ev k) as P. rewrite Hrun in P. destruct P as [_ [Pid _]]. simpl in Pid.
        assert (Gs : get_node (n_id s') (sy_nodes σ) = Some s) by (rewrite Pid, Gid; exact G).
        rewrite (get_put_same s' (sy_nodes σ) s Gs) in Hx. inversion Hx. subst. exact Hs'.
      * rewrite get_put_other in Hx; auto. eapply Inn; eauto.
    + intros m Hin. apply in_app_or in Hin. destruct Hin as [Hin | Hin]; [apply Is; auto|].
      destruct Hs' as [_ [_ Hm]]. eapply out_msgs_mok; eauto.
  - simpl. rewrite <- (map_length n_id), put_node_ids, map_length. exact Hlen.
Qed.

Lemma run2_run n σ0 sched σ :
  length (sy_nodes σ0) = n -> inv2 n σ0 -> run sys sys_event (sstep2 n) σ0 sched σ ->
  run sys sys_event (sstep (quorum_of (map n_id (sy_nodes σ0)))) σ0 sched σ.
Proof.
  intros Hlen I Hrun. induction Hrun as [| σ1 e σ2 es σ3 Hst Hr IH]; [constructor|].
  destruct (sstep2_sstep n _ _ _ Hlen I Hst) as [S [I2 L2]].
  econstructor; [exact S|].
  assert (Hid : map n_id (sy_nodes σ2) = map n_id (sy_nodes σ1)).
  { destruct Hst. simpl. apply put_node_ids. }
  rewrite <- Hid. apply IH; auto.
Qed.

Definition sinit2 (σ : sys) : Prop :=
  NoDup (map n_id (sy_nodes σ)) /\
  (forall s, In s (sy_nodes σ) -> n_id s <> 0 /\ n_role s = Follower /\ sok (length (sy_nodes σ)) s) /\
  sy_soup σ = [] /\ sy_cast σ = [] /\ sy_hist σ = [].

Theorem election_safety_fixed_membership :
  forall (σ0 σ : sys) (sched : list sys_event),
    sinit2 σ0 ->
    run sys sys_event (sstep2 (length (sy_nodes σ0))) σ0 sched σ ->
    forall t a b, In (t, a) (sy_hist σ) -> In (t, b) (sy_hist σ) -> a = b.
Proof.
  intros σ0 σ sched [Hn [Ha [Hs [Hc Hh]]]] Hrun.
  assert (I2 : inv2 (length (sy_nodes σ0)) σ0).
  { split.
    - intros i s G. apply get_node_in in G. destruct G as [G _]. apply Ha; auto.
    - rewrite Hs. intros m []. }
  eapply election_safety_sys; [| eapply run2_run; eauto].
  unfold sinit. repeat split; auto.
  - apply Ha; auto.
  - apply Ha; auto.
  - unfold quorum_of. rewrite map_length. apply sok_conf_okq. apply Ha; auto.
Qed.
