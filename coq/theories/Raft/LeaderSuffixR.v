(* Raft/LeaderSuffixR.v — round 13: the leader-loop contract of Raft/LeaderSuffixS.v for leaderships that CONTAIN AddNode /
   RemoveNode (the configuration entry the core appends is an own-term entry of the leader's log: it counts as proposed) and
   SnapshotDone events (the log is trimmed; neither what was proposed nor what was committed changes).  The SnapshotDone part
   and the base-independent loop invariant are those of C03/LeaderLoopSnap.v (builder-C03), lifted here; new: reconf_lc1S. *)
From Coq Require Import List NArith ZArith Bool Lia ZifyN ZifyNat ZifyBool.
From BLB Require Import Raft.Core Raft.NodeProofs Raft.LogMatchLists Raft.SnapContig Raft.LeaderSuffix Raft.LeaderSuffixS.
Import ListNotations.
Open Scope N_scope.

(* ---------------------------------------------------------------- list facts *)
Lemma trim_wf l : forall b u, wf_from (b + 1) l -> b <= u -> mem_trim u l = skipn (N.to_nat (u - b)) l.
Proof.
  induction l as [|e r IH]; intros b u W Hu; unfold mem_trim; simpl.
  - rewrite skipn_nil. reflexivity.
  - destruct W as [Hi W]. destruct (e_index e <=? u) eqn:E.
    + apply N.leb_le in E. fold (mem_trim u r). rewrite (IH (b + 1) u W) by lia.
      replace (N.to_nat (u - b)) with (S (N.to_nat (u - (b + 1)))) by lia. reflexivity.
    + apply N.leb_gt in E. replace (N.to_nat (u - b)) with 0%nat by lia. reflexivity.
Qed.

Lemma wf_skipn l : forall c n, wf_from c l -> wf_from (c + N.of_nat n) (skipn n l).
Proof.
  induction l as [|e r IH]; intros c n W.
  - rewrite skipn_nil. exact I.
  - destruct n as [|n]; simpl.
    + replace (c + 0) with c by lia. exact W.
    + destruct W as [_ W]. replace (c + N.pos (Pos.of_succ_nat n)) with (c + 1 + N.of_nat n) by lia. apply IH, W.
Qed.

(* ---------------------------------------------------------------- snapshot_done on a node *)
Lemma do_mut_ret m s s' : do_mut m s = Ret s' -> s' = upd_p s (apply_mut (n_p s) m) (n_cnt s + 1) (n_muts s ++ [m]).
Proof. unfold do_mut. destruct (negb (n_budget s =? 0) && (n_budget s =? n_cnt s + 1)); [discriminate|]. intro H. inversion H. reflexivity. Qed.

Lemma snapdone_pre b s m s' :
  preS b s -> 1 <= sn_index m -> sn_index m <= n_commit s ->
  snapshot_done s m = Ret s' ->
  exists b', b <= b' /\ b' <= n_commit s /\ preS b' s' /\
             p_log (n_p s') = skipn (N.to_nat (b' - b)) (p_log (n_p s)) /\
             n_commit s' = n_commit s /\ n_commits s' = n_commits s /\ n_role s' = n_role s /\
             p_term (n_p s') = p_term (n_p s).
Proof.
  intros P H1 Hc Hrun. pose proof P as [W [Hli [Hs [Hb Hle]]]].
  assert (Same : exists b', b <= b' /\ b' <= n_commit s /\ preS b' s /\
                   p_log (n_p s) = skipn (N.to_nat (b' - b)) (p_log (n_p s)) /\
                   n_commit s = n_commit s /\ n_commits s = n_commits s /\ n_role s = n_role s /\ p_term (n_p s) = p_term (n_p s)).
  { exists b. replace (N.to_nat (b - b)) with 0%nat by lia. repeat split; auto; lia. }
  unfold snapshot_done in Hrun.
  destruct (match p_snap (n_p s) with Some cur => sn_index m <=? sn_index cur | None => false end) eqn:Enew.
  { inversion Hrun. subst s'. exact Same. }
  assert (Hold : sidxS (n_p s) < sn_index m).
  { unfold sidxS. destruct (p_snap (n_p s)) as [cur|]; [apply N.leb_gt in Enew; lia | lia]. }
  cbv beta iota delta [bind] in Hrun.
  destruct (do_mut (MSnapCommit m) s) as [s1| |] eqn:E1; try discriminate.
  apply do_mut_ret in E1.
  assert (L1 : p_log (n_p s1) = p_log (n_p s)) by (subst s1; reflexivity).
  assert (S1 : p_snap (n_p s1) = Some m) by (subst s1; reflexivity).
  assert (V1 : n_commit s1 = n_commit s /\ n_commits s1 = n_commits s /\ n_role s1 = n_role s /\ p_term (n_p s1) = p_term (n_p s) /\
               n_cfg s1 = n_cfg s) by (subst s1; simpl; auto).
  destruct V1 as [V1 [V2 [V3 [V4 V5]]]].
  (* the physical log is not empty: otherwise last index = old snapshot index < sn_index m <= commit <= last index *)
  assert (Hne : p_log (n_p s) <> []).
  { intro Z. unfold lenS in *. rewrite Z in *. simpl in *. unfold last_index in Hli. rewrite Z in Hli. simpl in Hli.
    unfold sidxS in *. destruct (p_snap (n_p s)); lia. }
  assert (P1 : preS b s1).
  { unfold preS. split; [rewrite L1; exact W|]. split.
    - apply last_index_wfb; rewrite L1; assumption.
    - unfold lenS, sidxS in *. rewrite L1, S1, V1. repeat split; auto. }
  assert (Keep : exists b', b <= b' /\ b' <= n_commit s /\ preS b' s1 /\
                   p_log (n_p s1) = skipn (N.to_nat (b' - b)) (p_log (n_p s)) /\
                   n_commit s1 = n_commit s /\ n_commits s1 = n_commits s /\ n_role s1 = n_role s /\ p_term (n_p s1) = p_term (n_p s)).
  { exists b. replace (N.to_nat (b - b)) with 0%nat by lia. simpl skipn.
    split; [lia|]. split; [exact Hb|]. split; [exact P1|]. split; [exact L1|]. repeat split; assumption. }
  unfold trim_log in Hrun. rewrite L1 in Hrun.
  rewrite (log_first_wf _ _ W Hne) in Hrun.
  assert (Ell : log_last (p_log (n_p s)) = Some (b + lenS (n_p s))).
  { rewrite (log_last_wf _ _ W Hne). unfold lenS. f_equal. destruct (p_log (n_p s)); [congruence|]. simpl length. lia. }
  rewrite Ell in Hrun.
  destruct (sn_index m =? b + 1 - 1); [inversion Hrun; subst s'; exact Keep|].
  destruct ((sn_index m <? b + 1) || (b + lenS (n_p s) <? sn_index m)) eqn:Eo; [discriminate|].
  apply orb_false_iff in Eo. destruct Eo as [Eo1 Eo2]. apply N.ltb_ge in Eo1. apply N.ltb_ge in Eo2.
  destruct (sn_index m - (b + 1) <? cf_keep (n_cfg s1)) eqn:Ek; [inversion Hrun; subst s'; exact Keep|].
  apply N.ltb_ge in Ek.
  set (u := sn_index m - cf_keep (n_cfg s1)) in *.
  assert (Hu1 : b <= u) by (unfold u; lia). assert (Hu2 : u <= sn_index m) by (unfold u; lia).
  apply do_mut_ret in Hrun. subst s'.
  exists u. split; [exact Hu1|]. split; [lia|].
  assert (ET : p_log (n_p (upd_p s1 (apply_mut (n_p s1) (MTrim u)) (n_cnt s1 + 1) (n_muts s1 ++ [MTrim u]))) =
               skipn (N.to_nat (u - b)) (p_log (n_p s))).
  { simpl. rewrite L1. apply trim_wf; assumption. }
  split; [| split; [exact ET | simpl; repeat split; auto]].
  unfold preS. rewrite ET. simpl n_commit. simpl sidxS. rewrite V1.
  assert (Hlen : (N.to_nat (u - b) <= length (p_log (n_p s)))%nat) by (unfold lenS in *; lia).
  assert (Wn : wf_from (u + 1) (skipn (N.to_nat (u - b)) (p_log (n_p s)))).
  { replace (u + 1) with (b + 1 + N.of_nat (N.to_nat (u - b))) by lia. apply wf_skipn, W. }
  assert (Ln : N.of_nat (length (skipn (N.to_nat (u - b)) (p_log (n_p s)))) = b + lenS (n_p s) - u).
  { rewrite skipn_length. unfold lenS in *. lia. }
  split; [exact Wn|]. unfold lenS. simpl p_log. rewrite L1.
  change (mem_trim u (p_log (n_p s))) with (mem_trim u (p_log (n_p s))). rewrite (trim_wf _ b u W Hu1).
  split.
  - unfold last_index. simpl p_log. rewrite L1, (trim_wf _ b u W Hu1). simpl p_snap. rewrite S1.
    destruct (skipn (N.to_nat (u - b)) (p_log (n_p s))) as [|x r] eqn:Esk.
    + simpl in Ln. simpl. unfold lenS in *. lia.
    + rewrite (log_last_wf _ _ Wn) by discriminate. rewrite Ln. unfold lenS in *. simpl length in Ln. lia.
  - unfold sidxS. simpl p_snap. rewrite S1. rewrite Ln. unfold lenS in *. repeat split; lia.
Qed.

(* ---------------------------------------------------------------- AddNode / RemoveNode at a leader *)
Definition reconf_event (ev : event) : Prop := match ev with EAddNode _ _ | ERemoveNode _ => True | _ => False end.
(* what the event appended to the physical log *)
Definition appended (s s' : node) : list entry := skipn (length (p_log (n_p s))) (p_log (n_p s')).

Lemma appended_app s s' new : p_log (n_p s') = p_log (n_p s) ++ new -> appended s s' = new.
Proof. intro H. unfold appended. rewrite H, skipn_app, skipn_all, Nat.sub_diag. reflexivity. Qed.

Lemma lc1S_lc0S b s s1 s2 new : preS b s -> lc1S b s s1 new -> lc0S b s1 s2 -> lc1S b s s2 new.
Proof.
  intros P [P1 [L1 [C1 K1]]] H. destruct (H P1) as [P2 [L2 [C2 K2]]].
  pose proof P as [_ [_ [_ [Pb _]]]].
  split; [exact P2|]. split; [congruence|]. split; [lia|].
  rewrite K2, K1, L2, <- app_assoc, seg_app; auto; lia.
Qed.

Lemma lc1S_vol b s s0 s' new :
  n_p s0 = n_p s -> n_commit s0 = n_commit s -> n_commits s0 = n_commits s -> lc1S b s0 s' new -> lc1S b s s' new.
Proof. intros A B C [P1 [L1 [C1 K1]]]. unfold lc1S. rewrite <- A, <- B, <- C. auto. Qed.

Lemma reconf_lc1S b s ev code s' :
  preS b s -> n_role s = Leader -> reconf_event ev ->
  run_event s ev = Ret (code, s') ->
  exists new, lc1S b s s' new.
Proof.
  intros P Hr Hev Hrun. destruct ev; simpl in Hev; try contradiction; simpl in Hrun.
  - unfold add_node in Hrun. rewrite Hr in Hrun. unfold leader_add_node in Hrun.
    pose proof (pure_verify_nop_committed s) as Pv.
    destruct (verify_nop_committed s) as [[] | |]; simpl in *; try discriminate; try contradiction.
    destruct (n_conf s) as [c |] eqn:Ec; [| discriminate].
    destruct (memb member (mb_members c)); [inversion Hrun; subst; exists []; apply lc0S_lc1S; auto; apply lc0S_refl|].
    destruct (negb (latest_conf_committed s)); [inversion Hrun; subst; exists []; apply lc0S_lc1S; auto; apply lc0S_refl|].
    cbv zeta in Hrun.
    match type of Hrun with bind (leader_propose ?x2 ?es) _ = _ => set (s2 := x2) in *; set (es0 := es) in * end.
    destruct (leader_propose s2 es0) as [s3 | |] eqn:E; simpl in Hrun; try discriminate. inversion Hrun. subst s3.
    assert (P2 : preS b s2) by exact P.
    eexists. eapply (lc1S_vol b s s2); try reflexivity. exact (leader_propose_lcS b s2 es0 s' P2 E).
  - unfold remove_node in Hrun. rewrite Hr in Hrun. unfold leader_remove_node in Hrun.
    pose proof (pure_verify_nop_committed s) as Pv.
    destruct (verify_nop_committed s) as [[] | |]; simpl in *; try discriminate; try contradiction.
    destruct (n_conf s) as [c |] eqn:Ec; [| discriminate].
    destruct (negb (memb member (mb_members c))); [inversion Hrun; subst; exists []; apply lc0S_lc1S; auto; apply lc0S_refl|].
    destruct (negb (latest_conf_committed s)); [inversion Hrun; subst; exists []; apply lc0S_lc1S; auto; apply lc0S_refl|].
    cbv zeta in Hrun.
    match type of Hrun with bind (leader_propose ?x2 ?es) _ = _ => set (s2 := x2) in *; set (es0 := es) in * end.
    destruct (leader_propose s2 es0) as [s3 | |] eqn:E; simpl in Hrun; try discriminate.
    pose proof (lx0S_leader_maybe_commit b s3) as K.
    destruct (leader_maybe_commit s3) as [s4 | |]; simpl in Hrun; try discriminate. inversion Hrun. subst s4.
    assert (P2 : preS b s2) by exact P.
    eexists. eapply (lc1S_vol b s s2); try reflexivity.
    eapply lc1S_lc0S; [exact P2 | exact (leader_propose_lcS b s2 es0 s3 P2 E) | exact K].
Qed.

Lemma event_lc1R b s ev code s' :
  preS b s -> n_role s = Leader -> reconf_event ev ->
  run_event (settle s) ev = Ret (code, s') ->
  preS b s' /\ p_log (n_p s') = p_log (n_p s) ++ appended s s' /\ n_commit s <= n_commit s' /\
  n_commits s' = seg (n_commit s - b) (n_commit s' - b) (p_log (n_p s')).
Proof.
  intros P Hr Hev Hrun. assert (P0 : preS b (settle s)) by exact P.
  destruct (reconf_lc1S b (settle s) ev code s' P0 Hr Hev Hrun) as [new [A [B [C D]]]]. simpl in *.
  rewrite (appended_app s s' new B). auto.
Qed.

(* ---------------------------------------------------------------- the leader loop with SnapshotDone events *)
Definition snap_applied (s : node) (m : snapmeta) : Prop := 1 <= sn_index m /\ sn_index m <= n_commit s.

Inductive loop_stepR : loop_st -> event -> loop_st -> Prop :=
| LRev : forall st ev st', loop_step st ev st' -> loop_stepR st ev st'
| LRsnap : forall st m code s',
    snap_applied (lp_node st) m ->                                   (* the FSM snapshot reports an applied position *)
    run_event (settle (lp_node st)) (ESnapDone m) = Ret (code, s') ->
    loop_stepR st (ESnapDone m) {| lp_node := s'; lp_prop := lp_prop st; lp_comm := lp_comm st ++ n_commits s' |}
| LRrec : forall st ev code s',
    reconf_event ev ->                                              (* AddNode / RemoveNode as the core accepts or refuses them *)
    run_event (settle (lp_node st)) ev = Ret (code, s') ->
    n_role s' = Leader -> p_term (n_p s') = p_term (n_p (lp_node st)) ->
    loop_stepR st ev {| lp_node := s'; lp_prop := lp_prop st ++ appended (lp_node st) s'; lp_comm := lp_comm st ++ n_commits s' |}.

Inductive loop_runR : loop_st -> list event -> loop_st -> Prop :=
| loopR_nil : forall st, loop_runR st [] st
| loopR_cons : forall st ev st1 evs st2, loop_stepR st ev st1 -> loop_runR st1 evs st2 -> loop_runR st (ev :: evs) st2.

Lemma loop_runR_snoc st evs st1 ev st2 : loop_runR st evs st1 -> loop_stepR st1 ev st2 -> loop_runR st (evs ++ [ev]) st2.
Proof.
  intros H1 H2. induction H1; simpl.
  - econstructor; [exact H2 | constructor].
  - econstructor; eauto.
Qed.

Lemma loop_run_runR st evs st' : loop_run st evs st' -> loop_runR st evs st'.
Proof. induction 1; [constructor | econstructor; [apply LRev; eassumption | assumption]]. Qed.

Lemma skipn_skipn {A} (x y : nat) (l : list A) : skipn x (skipn y l) = skipn (x + y) l.
Proof. revert l. induction y as [|y IH]; intros l; [rewrite Nat.add_0_r; reflexivity|]. destruct l; [rewrite !skipn_nil; reflexivity|]. rewrite Nat.add_succ_r. simpl. apply IH. Qed.

Lemma firstn_split {A} (l : list A) a k : firstn (a + k) l = firstn a l ++ firstn k (skipn a l).
Proof. revert a. induction l as [|x l IH]; intros a; destruct a; simpl; try rewrite firstn_nil; auto. rewrite IH. reflexivity. Qed.

Definition JR (c0 T0 : N) (st : loop_st) : Prop :=
  let s := lp_node st in
  exists b, preS b s /\ n_role s = Leader /\ p_term (n_p s) = T0 /\ c0 <= n_commit s /\
            lp_comm st = firstn (N.to_nat (n_commit s - c0)) (lp_prop st) /\
            N.of_nat (length (lp_prop st)) + c0 = b + lenS (n_p s) /\
            skipn (N.to_nat (b - c0)) (lp_prop st) = skipn (N.to_nat (c0 - b)) (p_log (n_p s)).

Lemma JR_start s0 : loop_start_snap s0 -> JR (n_commit s0) (p_term (n_p s0)) {| lp_node := s0; lp_prop := []; lp_comm := [] |}.
Proof.
  intros H0. destruct (loop_start_pre s0 H0) as [P0 Hc]. destruct H0 as [Hr _].
  exists (base_of (n_p s0)). simpl. split; [exact P0|]. split; [exact Hr|]. split; [reflexivity|]. split; [lia|].
  split; [rewrite firstn_nil; reflexivity|]. split; [lia|].
  rewrite skipn_nil. symmetry. apply skipn_all2. unfold lenS in Hc. lia.
Qed.

Lemma JR_step c0 T0 st ev st' : JR c0 T0 st -> loop_stepR st ev st' -> JR c0 T0 st'.
Proof.
  intros [b [P [Hr [Ht [Hc [Ecomm [Elen Eov]]]]]]] Hstep.
  pose proof P as [_ [_ [_ [Pb Pc]]]].
  destruct Hstep as [st ev st' Hst | st m code s' Hm Hrun | st ev code s' Hev Hrun Hr' Ht'].
  - destruct Hst as [st ev code s' Hev Hrun Hr' Ht'].
    destruct (event_lc1S b _ _ _ _ P Hr Hev Hrun Ht') as [P' [L' [C' K']]]. simpl in *.
    exists b. simpl. split; [exact P'|]. split; [exact Hr'|]. split; [rewrite Ht'; exact Ht|]. split; [lia|].
    set (x := lp_prop st) in *. set (lg := p_log (n_p (lp_node st))) in *. set (new := proposed_by (lp_node st) ev) in *.
    assert (Lx : (N.to_nat (b - c0) <= length x)%nat) by (unfold lenS in *; lia).
    assert (Ll : (N.to_nat (c0 - b) <= length lg)%nat) by (unfold lenS in *; fold lg in Pc; lia).
    assert (Eov' : skipn (N.to_nat (b - c0)) (x ++ new) = skipn (N.to_nat (c0 - b)) (lg ++ new)).
    { rewrite !skipn_app. rewrite Eov.
      replace (N.to_nat (b - c0) - length x)%nat with 0%nat by lia.
      replace (N.to_nat (c0 - b) - length lg)%nat with 0%nat by lia. reflexivity. }
    split; [| split; [| rewrite L'; exact Eov']].
    + rewrite K', L', Ecomm. unfold seg.
      assert (Esk : skipn (N.to_nat (n_commit (lp_node st) - b)) (lg ++ new) =
                    skipn (N.to_nat (n_commit (lp_node st) - c0)) (x ++ new)).
      { replace (N.to_nat (n_commit (lp_node st) - b)) with (N.to_nat (n_commit (lp_node st) - b - (c0 - b)) + N.to_nat (c0 - b))%nat by lia.
        rewrite <- skipn_skipn, <- Eov', skipn_skipn. f_equal. lia. }
      rewrite Esk.
      replace (N.to_nat (n_commit s' - c0)) with (N.to_nat (n_commit (lp_node st) - c0) + N.to_nat (n_commit s' - b - (n_commit (lp_node st) - b)))%nat by lia.
      rewrite firstn_split. f_equal.
      rewrite firstn_app. replace (N.to_nat (n_commit (lp_node st) - c0) - length x)%nat with 0%nat by (unfold lenS in *; lia).
      simpl. rewrite app_nil_r. reflexivity.
    + rewrite app_length. unfold lenS in *. rewrite L', app_length. unfold lg, x in *. lia.
  - simpl in Hrun. unfold wrap0 in Hrun. cbv beta iota delta [bind] in Hrun.
    destruct (snapshot_done (settle (lp_node st)) m) as [x1| |] eqn:E; try discriminate.
    inversion Hrun. subst x1. clear Hrun.
    assert (P0 : preS b (settle (lp_node st))) by exact P.
    destruct Hm as [Hm1 Hm2].
    destruct (snapdone_pre b _ m s' P0 Hm1 Hm2 E) as [b' [Hb1 [Hb2 [P' [L' [C' [K' [R' T']]]]]]]].
    simpl in C', K', R', T', Hb2, L'.
    exists b'. simpl. split; [exact P'|]. split; [rewrite R'; exact Hr|]. split; [rewrite T'; exact Ht|]. split; [lia|].
    rewrite K', app_nil_r, C'. split; [exact Ecomm|].
    set (x := lp_prop st) in *. set (lg := p_log (n_p (lp_node st))) in *.
    assert (Ll : (N.to_nat (b' - b) <= length lg)%nat) by (unfold lenS in *; fold lg in Pc; lia).
    split.
    + unfold lenS in *. rewrite L', skipn_length. fold lg in Elen. lia.
    + rewrite L', skipn_skipn.
      destruct (N.le_gt_cases b' c0) as [Hle | Hgt].
      * replace (N.to_nat (b' - c0)) with 0%nat by lia. replace (N.to_nat (b - c0)) with 0%nat in Eov by lia.
        simpl in *. rewrite Eov. f_equal. lia.
      * replace (N.to_nat (c0 - b')) with 0%nat by lia. simpl.
        destruct (N.le_gt_cases c0 b) as [H1 | H1].
        -- replace (N.to_nat (c0 - b)) with 0%nat in Eov by lia. simpl in Eov. rewrite <- Eov, skipn_skipn. f_equal. lia.
        -- replace (N.to_nat (b - c0)) with 0%nat in Eov by lia. simpl in Eov. rewrite Eov, skipn_skipn. f_equal. lia.
  - destruct (event_lc1R b _ _ _ _ P Hr Hev Hrun) as [P' [L' [C' K']]]. simpl in *.
    exists b. simpl. split; [exact P'|]. split; [exact Hr'|]. split; [rewrite Ht'; exact Ht|]. split; [lia|].
    set (x := lp_prop st) in *. set (lg := p_log (n_p (lp_node st))) in *. set (new := appended (lp_node st) s') in *.
    assert (Lx : (N.to_nat (b - c0) <= length x)%nat) by (unfold lenS in *; lia).
    assert (Ll : (N.to_nat (c0 - b) <= length lg)%nat) by (unfold lenS in *; fold lg in Pc; lia).
    assert (Eov' : skipn (N.to_nat (b - c0)) (x ++ new) = skipn (N.to_nat (c0 - b)) (lg ++ new)).
    { rewrite !skipn_app. rewrite Eov.
      replace (N.to_nat (b - c0) - length x)%nat with 0%nat by lia.
      replace (N.to_nat (c0 - b) - length lg)%nat with 0%nat by lia. reflexivity. }
    split; [| split; [| rewrite L'; exact Eov']].
    + rewrite K', L', Ecomm. unfold seg.
      assert (Esk : skipn (N.to_nat (n_commit (lp_node st) - b)) (lg ++ new) =
                    skipn (N.to_nat (n_commit (lp_node st) - c0)) (x ++ new)).
      { replace (N.to_nat (n_commit (lp_node st) - b)) with (N.to_nat (n_commit (lp_node st) - b - (c0 - b)) + N.to_nat (c0 - b))%nat by lia.
        rewrite <- skipn_skipn, <- Eov', skipn_skipn. f_equal. lia. }
      rewrite Esk.
      replace (N.to_nat (n_commit s' - c0)) with (N.to_nat (n_commit (lp_node st) - c0) + N.to_nat (n_commit s' - b - (n_commit (lp_node st) - b)))%nat by lia.
      rewrite firstn_split. f_equal.
      rewrite firstn_app. replace (N.to_nat (n_commit (lp_node st) - c0) - length x)%nat with 0%nat by (unfold lenS in *; lia).
      simpl. rewrite app_nil_r. reflexivity.
    + rewrite app_length. unfold lenS in *. rewrite L', app_length. unfold lg, x in *. lia.
Qed.

Lemma JR_run c0 T0 st evs st' : JR c0 T0 st -> loop_runR st evs st' -> JR c0 T0 st'.
Proof. intros H Hr. induction Hr; auto. apply IHHr. eapply JR_step; eauto. Qed.


(* what an event of the loop hands to the log: the stamped batch of a Propose, the entry the core appends for an accepted AddNode
   or RemoveNode (nothing when it refuses) *)
Definition proposed_byR (s : node) (ev : event) (s' : node) : list entry :=
  match ev with
  | EAddNode _ _ | ERemoveNode _ => appended s s'
  | _ => proposed_by s ev
  end.

(* THE CONTRACT for leaderships with SnapshotDone, AddNode and RemoveNode events *)
Theorem leader_commits_own_suffix_with_reconfiguration s0 evs st1 ev st2 :
  loop_start_snap s0 -> loop_runR {| lp_node := s0; lp_prop := []; lp_comm := [] |} evs st1 -> loop_stepR st1 ev st2 ->
  lp_comm st2 = lp_comm st1 ++ n_commits (lp_node st2) /\
  lp_prop st2 = lp_prop st1 ++ proposed_byR (lp_node st1) ev (lp_node st2) /\
  prefix (lp_comm st1 ++ n_commits (lp_node st2)) (lp_prop st2).
Proof.
  intros H0 H1 H2.
  pose proof (JR_step _ _ _ _ _ (JR_run _ _ _ _ _ (JR_start s0 H0) H1) H2) as [b [_ [_ [_ [_ [Ec _]]]]]].
  assert (A : lp_comm st2 = lp_comm st1 ++ n_commits (lp_node st2) /\ lp_prop st2 = lp_prop st1 ++ proposed_byR (lp_node st1) ev (lp_node st2)).
  { destruct H2 as [st ev st' Hst | st m code s' Hm Hrun | st ev code s' Hev Hrun Hr' Ht'].
    - destruct Hst as [st ev code s' Hev Hrun Hr' Ht']. destruct ev; simpl in Hev; try contradiction; simpl; auto.
    - simpl. rewrite app_nil_r. auto.
    - destruct ev; simpl in Hev; try contradiction; simpl; auto. }
  destruct A as [A1 A2]. split; [exact A1|]. split; [exact A2|]. rewrite <- A1, Ec.
  eexists. symmetry. apply firstn_skipn.
Qed.

(* the leadership still leads, in the same term, after any such run *)
Lemma loop_runR_leader s0 evs st :
  loop_start_snap s0 -> loop_runR {| lp_node := s0; lp_prop := []; lp_comm := [] |} evs st ->
  n_role (lp_node st) = Leader /\ p_term (n_p (lp_node st)) = p_term (n_p s0).
Proof. intros H0 H1. destruct (JR_run _ _ _ _ _ (JR_start s0 H0) H1) as [b [_ [A [B _]]]]. auto. Qed.
