(* Raft/Election.v — election safety of the system built from Raft/Core.v nodes and a message soup.

   System: a fixed set of nodes (distinct non-empty ids); a soup of every message ever sent (monotone: delivering
   does not consume, so loss, duplication, reordering and delay are all schedules); ghost history: every durable
   (node, term, vote) pair seen at the end of a step, every (term, leader) seen at the end of a step.
   One step = any event of Core.run_event on any node — Bootstrap with any arguments, delivery of ANY message of the
   soup to ANY node, Tick, Propose of anything, AddNode/RemoveNode, SnapshotDone with any metadata, Restart — with or
   without a crash right after its k-th durable mutation followed by newCore (run_event_crash).
   Fixed membership is the side condition [conf_okq]: every configuration a node holds after a step has as many
   members as there are nodes in the system (the quorum size is the majority of the node set).
   The only assumption on delivered messages is that they are addressed to a non-empty id. *)
From Coq Require Import List NArith ZArith Bool Lia ZifyN ZifyNat ZifyBool.
From BLB Require Import Lib.LTS Raft.Core Raft.Wire Raft.NodeProofs Raft.NodeKeep Raft.NodeElect.
Import ListNotations.
Open Scope N_scope.

Record sys := { sy_nodes : list node; sy_soup : list msg; sy_cast : list (nid * N * nid); sy_hist : list (N * nid) }.

Definition cast_of (s : node) : list (nid * N * nid) :=
  if p_vote (n_p s) =? 0 then [] else [(n_id s, p_term (n_p s), p_vote (n_p s))].
Definition hist_of (s : node) : list (N * nid) :=
  match n_role s with Leader => [(p_term (n_p s), n_id s)] | _ => [] end.

Definition conf_okq (q : N) (s : node) : Prop := forall c, n_conf s = Some c -> quorum c = q.

Definition sys_event := (nid * event * N)%type.

Inductive sstep (q : N) : sys -> sys_event -> sys -> Prop :=
| SStep : forall σ i s ev k crashed st s',
    get_node i (sy_nodes σ) = Some s ->
    (forall m, ev = EDeliver m -> In m (sy_soup σ) /\ m_to m <> 0) ->
    run_event_crash (settle s) ev k = Ret (crashed, st, s') ->
    conf_okq q s' ->
    sstep q σ (i, ev, k)
      {| sy_nodes := put_node s' (sy_nodes σ); sy_soup := sy_soup σ ++ out_msgs s';
         sy_cast := sy_cast σ ++ cast_of s'; sy_hist := sy_hist σ ++ hist_of s' |}.

Definition sinit (q : N) (σ : sys) : Prop :=
  NoDup (map n_id (sy_nodes σ)) /\
  (forall s, In s (sy_nodes σ) -> n_id s <> 0 /\ n_role s = Follower /\ conf_okq q s) /\
  sy_soup σ = [] /\ sy_cast σ = [] /\ sy_hist σ = [].

(* ---------------------------------------------------------------- node list lemmas *)
Lemma get_node_in i c s : get_node i c = Some s -> In s c /\ n_id s = i.
Proof.
  induction c as [| x r IH]; simpl; [discriminate|].
  destruct (n_id x =? i) eqn:E.
  - intro H. inversion H. subst. apply N.eqb_eq in E. auto.
  - intro H. destruct (IH H). auto.
Qed.

Lemma in_get_node c s : NoDup (map n_id c) -> In s c -> get_node (n_id s) c = Some s.
Proof.
  induction c as [| x r IH]; simpl; intros Hn Hin; [contradiction|].
  inversion Hn; subst. destruct Hin as [Hin | Hin].
  - subst. rewrite N.eqb_refl. reflexivity.
  - destruct (n_id x =? n_id s) eqn:E.
    + apply N.eqb_eq in E. exfalso. apply H1. rewrite E. apply in_map. exact Hin.
    + apply IH; auto.
Qed.

Lemma put_node_ids x c : map n_id (put_node x c) = map n_id c.
Proof.
  induction c as [| y r IH]; simpl; auto.
  destruct (n_id y =? n_id x) eqn:E; simpl.
  - apply N.eqb_eq in E. rewrite E. reflexivity.
  - rewrite IH. reflexivity.
Qed.

Lemma get_put_same x c s : get_node (n_id x) c = Some s -> get_node (n_id x) (put_node x c) = Some x.
Proof.
  induction c as [| y r IH]; simpl; [discriminate|].
  destruct (n_id y =? n_id x) eqn:E; simpl.
  - intros _. rewrite N.eqb_refl. reflexivity.
  - intro H. rewrite E. auto.
Qed.

Lemma get_put_other x c j : j <> n_id x -> get_node j (put_node x c) = get_node j c.
Proof.
  intro Hj. induction c as [| y r IH]; simpl; auto.
  destruct (n_id y =? n_id x) eqn:E; simpl.
  - apply N.eqb_eq in E. destruct (n_id x =? j) eqn:E2; [apply N.eqb_eq in E2; congruence|].
    rewrite E. rewrite E2. reflexivity.
  - destruct (n_id y =? j); auto.
Qed.

(* ---------------------------------------------------------------- sorting keeps membership *)
Lemma in_insert_by_to x m l : In x (insert_by_to m l) <-> x = m \/ In x l.
Proof.
  induction l as [| y r IH]; simpl; [intuition|].
  destruct (m_to m <? m_to y); simpl; [intuition|]. rewrite IH. intuition.
Qed.

Lemma in_sort_by_to x l : In x (sort_by_to l) <-> In x l.
Proof.
  induction l as [| y r IH]; simpl; [tauto|].
  rewrite in_insert_by_to. rewrite IH. intuition.
Qed.

Lemma in_out_msgs s m :
  In m (out_msgs s) -> exists m0, In m0 (n_msgs s) /\ m_term m = m_term m0 /\ m_from m = m_from m0 /\
                                  m_to m = m_to m0 /\ m_body m = m_body m0.
Proof.
  unfold out_msgs. rewrite in_sort_by_to. rewrite in_map_iff. intros [m0 [E H]]. exists m0. subst. simpl. auto.
Qed.

(* ---------------------------------------------------------------- what one step does to the touched node *)
Lemma step_facts s ev k crashed st s' :
  run_event_crash (settle s) ev k = Ret (crashed, st, s') ->
  n_id s' = n_id s /\ pext (n_p s) (n_p s') /\ msgs_ok s' /\ esum s s' (ev_msg ev).
Proof.
  intro H. pose proof (run_event_crash_pext (settle s) ev k) as P. rewrite H in P.
  destruct P as [P [I _]]. simpl in P, I. split; [exact I|]. split; [exact P|].
  revert H. unfold run_event_crash.
  destruct (run_event (with_budget (settle s) k) ev) as [[st0 x] | c | p] eqn:E; try discriminate.
  - intro H. inversion H. subst.
    apply run_event_sum in E; [| reflexivity]. destruct E as [_ [M S]]. split.
    + unfold msgs_ok in *. simpl. exact M.
    + intro Hr. simpl in Hr. specialize (S Hr). simpl in S. destruct S as [S1 [S2 S3]].
      split; [| split].
      * intros v Hv. simpl in Hv. destruct (S1 v Hv) as [X | [X | X]]; [left | right; left | right; right]; exact X.
      * exact S2.
      * intro Hl. simpl in Hl. destruct (S3 Hl) as [X | X]; [left; exact X | right; exact X].
  - pose proof (new_core_pext (n_id (settle s)) (n_cfg (settle s)) p) as Q.
    destruct (new_core (n_id (settle s)) (n_cfg (settle s)) p) as [s2 | c | q]; simpl; try discriminate.
    intro H. inversion H. subst. destruct Q as [_ [_ [_ [Rl M]]]]. split.
    + apply msgs_ok_nil. exact M.
    + apply esum_follower. exact Rl.
Qed.

(* ---------------------------------------------------------------- pigeonhole on the node set *)
Lemma pigeon (A B U : list N) :
  NoDup A -> NoDup B -> incl A U -> incl B U -> (length U < length A + length B)%nat ->
  exists x, In x A /\ In x B.
Proof.
  intros HA HB IA IB Hlen.
  destruct (existsb (fun x => memb x B) A) eqn:E.
  - apply existsb_exists in E. destruct E as [x [Hx Hm]]. exists x. split; auto.
    unfold memb in Hm. apply existsb_exists in Hm. destruct Hm as [y [Hy Heq]]. apply N.eqb_eq in Heq. subst. exact Hy.
  - exfalso.
    assert (Hdis : forall x, In x A -> ~ In x B).
    { intros x Hx Hb. assert (existsb (fun x => memb x B) A = true).
      { apply existsb_exists. exists x. split; auto. unfold memb. apply existsb_exists. exists x. split; auto. apply N.eqb_refl. }
      congruence. }
    assert (Hnd : NoDup (A ++ B)).
    { clear - HA HB Hdis. induction A as [| a r IH]; simpl; auto.
      inversion HA; subst. constructor.
      - intro Hin. apply in_app_or in Hin. destruct Hin as [Hin | Hin]; [contradiction|]. apply (Hdis a); simpl; auto.
      - apply IH; auto. intros x Hx. apply Hdis. simpl. auto. }
    assert (Hinc : incl (A ++ B) U) by (apply incl_app; auto).
    pose proof (NoDup_incl_length Hnd Hinc) as L. rewrite app_length in L. lia.
Qed.

Lemma majority_arith (n a b : nat) :
  N.of_nat n / 2 + 1 <= N.of_nat a -> N.of_nat n / 2 + 1 <= N.of_nat b -> (n < a + b)%nat.
Proof.
  intros A B.
  pose proof (N.div_mod' (N.of_nat n) 2) as D.
  pose proof (N.mod_lt (N.of_nat n) 2 ltac:(discriminate)) as M.
  remember (N.of_nat n / 2) as x. remember (N.of_nat n mod 2) as r. clear Heqx Heqr. lia.
Qed.

(* ---------------------------------------------------------------- the invariant *)
Section Invariant.
  Variable ids : list nid.
  Let q : N := N.of_nat (length ids) / 2 + 1.

  Record inv (σ : sys) : Prop := {
    i_ids : map n_id (sy_nodes σ) = ids;
    i_nodup : NoDup ids;
    i_nz : forall i s, get_node i (sy_nodes σ) = Some s -> n_id s <> 0;
    i_conf : forall i s, get_node i (sy_nodes σ) = Some s -> conf_okq q s;
    i_fun : forall n t c1 c2, In (n, t, c1) (sy_cast σ) -> In (n, t, c2) (sy_cast σ) -> c1 = c2;
    i_cast : forall n t c, In (n, t, c) (sy_cast σ) ->
               c <> 0 /\ exists s, get_node n (sy_nodes σ) = Some s /\ t <= p_term (n_p s) /\
                                   (t = p_term (n_p s) -> p_vote (n_p s) = c);
    i_grant : forall m, In m (sy_soup σ) -> m_body m = VoteResp true -> m_to m <> 0 ->
                In (m_from m, m_term m, m_to m) (sy_cast σ);
    i_votes : forall i s, get_node i (sy_nodes σ) = Some s -> n_role s <> Follower ->
                asc (c_votes s) /\ forall v, In v (c_votes s) -> In (v, p_term (n_p s), n_id s) (sy_cast σ);
    i_leader : forall i s, get_node i (sy_nodes σ) = Some s -> n_role s = Leader ->
                 q <= N.of_nat (length (c_votes s));
    i_hist : forall t c, In (t, c) (sy_hist σ) ->
               exists Q, NoDup Q /\ q <= N.of_nat (length Q) /\ forall v, In v Q -> In (v, t, c) (sy_cast σ)
  }.

  Lemma inv_init σ : sinit q σ -> map n_id (sy_nodes σ) = ids -> inv σ.
  Proof.
    intros [Hn [Ha [Hs [Hc Hh]]]] Hid. constructor; auto.
    - rewrite <- Hid. exact Hn.
    - intros i s G. apply get_node_in in G. destruct G as [G _]. apply Ha; auto.
    - intros i s G. apply get_node_in in G. destruct G as [G _]. apply Ha; auto.
    - rewrite Hc. intros n t c1 c2 [].
    - rewrite Hc. intros n t c [].
    - rewrite Hs. intros m [].
    - intros i s G Hr. apply get_node_in in G. destruct G as [G _]. destruct (Ha s G) as [_ [R _]]. congruence.
    - intros i s G Hr. apply get_node_in in G. destruct G as [G _]. destruct (Ha s G) as [_ [R _]]. congruence.
    - rewrite Hh. intros t c [].
  Qed.

  Lemma in_cast_of s n t c : In (n, t, c) (cast_of s) -> n = n_id s /\ t = p_term (n_p s) /\ c = p_vote (n_p s) /\ c <> 0.
  Proof.
    unfold cast_of. destruct (p_vote (n_p s) =? 0) eqn:E; simpl; [contradiction|].
    intros [H | []]. inversion H. subst. apply N.eqb_neq in E. auto.
  Qed.

  Lemma cast_of_in s : p_vote (n_p s) <> 0 -> In (n_id s, p_term (n_p s), p_vote (n_p s)) (cast_of s).
  Proof. intro H. unfold cast_of. apply N.eqb_neq in H. rewrite H. simpl. auto. Qed.

  Lemma inv_step σ e σ' : inv σ -> sstep q σ e σ' -> inv σ'.
  Proof.
    intros I Hst. inversion Hst as [σ0 i s ev k crashed st s' G Hdel Hrun Hconf]. subst. clear Hst.
    destruct (step_facts _ _ _ _ _ _ Hrun) as [Hid [Hp [Hm He]]].
    destruct (get_node_in _ _ _ G) as [Gin Gid].
    assert (Hi : n_id s' = i) by congruence.
    assert (Gs' : get_node i (put_node s' (sy_nodes σ)) = Some s').
    { rewrite <- Hi. eapply get_put_same. rewrite Hi. exact G. }
    assert (Go : forall j, j <> i -> get_node j (put_node s' (sy_nodes σ)) = get_node j (sy_nodes σ)).
    { intros j Hj. apply get_put_other. congruence. }
    assert (Gcase : forall j x, get_node j (put_node s' (sy_nodes σ)) = Some x ->
                      (j = i /\ x = s') \/ (j <> i /\ get_node j (sy_nodes σ) = Some x)).
    { intros j x Hx. destruct (N.eq_dec j i) as [E | E].
      - subst j. rewrite Gs' in Hx. inversion Hx. auto.
      - rewrite Go in Hx; auto. }
    destruct Hp as [Pt [Pv _]].
    assert (Hnz : n_id s <> 0) by (eapply (i_nz σ I); eauto).
    (* a cast entry of node i that is at the new term carries the new vote *)
    assert (Hold : forall t c, In (i, t, c) (sy_cast σ) -> t <= p_term (n_p s') /\ (t = p_term (n_p s') -> p_vote (n_p s') = c)).
    { intros t c Hc. destruct (i_cast σ I _ _ _ Hc) as [Cnz [x [Gx [Le Eq]]]].
      rewrite G in Gx. inversion Gx. subst x. split; [lia|].
      intro Et. assert (t = p_term (n_p s)) by lia. specialize (Eq H). subst t.
      assert (p_term (n_p s') = p_term (n_p s)) by lia. destruct (Pv H0); congruence. }
    constructor; simpl.
    - rewrite put_node_ids. apply (i_ids σ I).
    - apply (i_nodup σ I).
    - intros j x Hx. destruct (Gcase j x Hx) as [[_ E] | [_ E]]; [subst; congruence | eapply (i_nz σ I); eauto].
    - intros j x Hx. destruct (Gcase j x Hx) as [[_ E] | [_ E]]; [subst; auto | eapply (i_conf σ I); eauto].
    - (* functional *)
      intros n t c1 c2 H1 H2. apply in_app_or in H1. apply in_app_or in H2.
      destruct H1 as [H1 | H1]; destruct H2 as [H2 | H2].
      + eapply (i_fun σ I); eauto.
      + apply in_cast_of in H2. destruct H2 as [A [B [C D]]]. subst. rewrite Hi in H1.
        destruct (Hold _ _ H1) as [_ X]. symmetry. apply X. reflexivity.
      + apply in_cast_of in H1. destruct H1 as [A [B [C D]]]. subst. rewrite Hi in H2.
        destruct (Hold _ _ H2) as [_ X]. apply X. reflexivity.
      + apply in_cast_of in H1. apply in_cast_of in H2. destruct H1 as [_ [_ [C _]]]. destruct H2 as [_ [_ [C' _]]]. congruence.
    - (* cast entries are backed by the voter's durable state *)
      intros n t c Hc. apply in_app_or in Hc. destruct Hc as [Hc | Hc].
      + destruct (i_cast σ I _ _ _ Hc) as [Cnz [x [Gx [Le Eq]]]]. split; auto.
        destruct (N.eq_dec n i) as [E | E].
        * subst n. exists s'. split; auto.
        * exists x. rewrite Go; auto.
      + apply in_cast_of in Hc. destruct Hc as [A [B [C D]]]. subst. split; auto.
        exists s'. rewrite Hi. split; auto; split; [lia | auto].
    - (* granted responses are backed by a cast vote *)
      intros m Hin Hg Hto. apply in_app_or in Hin. destruct Hin as [Hin | Hin].
      + apply in_or_app. left. apply (i_grant σ I); auto.
      + apply in_out_msgs in Hin. destruct Hin as [m0 [H0 [Et [Ef [Eto Eb]]]]].
        unfold msgs_ok in Hm. rewrite Forall_forall in Hm. destruct (Hm m0 H0) as [X [Y Z]].
        apply in_or_app. right. rewrite Et, Ef, Eto, X, Y. rewrite <- (Z ltac:(congruence)).
        apply cast_of_in. rewrite (Z ltac:(congruence)). congruence.
    - (* the votes a candidate or leader counts *)
      intros j x Hx Hr. destruct (Gcase j x Hx) as [[_ E] | [Hj E]].
      + subst x. destruct (He Hr) as [S1 [S2 _]]. split.
        * apply S2. intro Hrs. apply (i_votes σ I i s G Hrs).
        * intros v Hv. destruct (S1 v Hv) as [[R1 [R2 R3]] | [[R1 R2] | [m [R1 [R2 [R3 [R4 R5]]]]]]].
          -- apply in_or_app. left. rewrite R2, Hid. apply (i_votes σ I i s G R1). exact R3.
          -- apply in_or_app. right. subst v. assert (X := cast_of_in s' ltac:(congruence)). rewrite R2, Hid in X. rewrite Hid. exact X.
          -- destruct ev; simpl in R1; try discriminate. inversion R1. subst m0.
             destruct (Hdel m eq_refl) as [Min Mto].
             apply in_or_app. left. subst v. rewrite <- R4, Hid.
             destruct R5 as [R5 | R5]; [| contradiction].
             rewrite <- R5. apply (i_grant σ I); auto.
      + destruct (i_votes σ I j x E Hr) as [A B]. split; auto. intros v Hv. apply in_or_app. left. auto.
    - (* a leader holds a quorum *)
      intros j x Hx Hl. destruct (Gcase j x Hx) as [[_ E] | [Hj E]].
      + subst x. assert (Hr : n_role s' <> Follower) by congruence.
        destruct (He Hr) as [_ [_ S3]]. destruct (S3 Hl) as [[R1 [R2 R3]] | [c [R1 R2]]].
        * rewrite R2. apply (i_leader σ I i s G R1).
        * simpl in R1. rewrite <- (i_conf σ I i s G c R1). exact R2.
      + apply (i_leader σ I j x E Hl).
    - (* every leader ever seen was elected by a quorum of cast votes *)
      intros t c Hin. apply in_app_or in Hin. destruct Hin as [Hin | Hin].
      + destruct (i_hist σ I t c Hin) as [Q [A [B C]]]. exists Q. repeat split; auto.
        intros v Hv. apply in_or_app. left. auto.
      + unfold hist_of in Hin. destruct (n_role s') eqn:Er; simpl in Hin; try contradiction.
        destruct Hin as [Hin | []]. inversion Hin. subst t c.
        assert (Hr : n_role s' <> Follower) by congruence.
        destruct (He Hr) as [S1 [S2 S3]].
        assert (Hasc : asc (c_votes s')) by (apply S2; intro Hrs; apply (i_votes σ I i s G Hrs)).
        exists (c_votes s'). split; [apply asc_nodup; exact Hasc|]. split.
        * destruct (S3 Er) as [[R1 [R2 R3]] | [c [R1 R2]]].
          -- rewrite R2. apply (i_leader σ I i s G R1).
          -- simpl in R1. rewrite <- (i_conf σ I i s G c R1). exact R2.
        * intros v Hv. destruct (S1 v Hv) as [[R1 [R2 R3]] | [[R1 R2] | [m [R1 [R2 [R3 [R4 R5]]]]]]].
          -- apply in_or_app. left. rewrite R2, Hid. apply (i_votes σ I i s G R1). exact R3.
          -- apply in_or_app. right. subst v. assert (X := cast_of_in s' ltac:(congruence)). rewrite R2, Hid in X. rewrite Hid. exact X.
          -- destruct ev; simpl in R1; try discriminate. inversion R1. subst m0.
             destruct (Hdel m eq_refl) as [Min Mto].
             apply in_or_app. left. subst v. rewrite <- R4, Hid.
             destruct R5 as [R5 | R5]; [| contradiction].
             rewrite <- R5. apply (i_grant σ I); auto.
  Qed.

  Lemma inv_election σ : inv σ -> forall t a b, In (t, a) (sy_hist σ) -> In (t, b) (sy_hist σ) -> a = b.
  Proof.
    intros I t a b Ha Hb.
    destruct (i_hist σ I t a Ha) as [Qa [Na [La Ca]]].
    destruct (i_hist σ I t b Hb) as [Qb [Nb [Lb Cb]]].
    assert (Hin : forall Q c, (forall v, In v Q -> In (v, t, c) (sy_cast σ)) -> incl Q ids).
    { intros Q c HQ v Hv. destruct (i_cast σ I _ _ _ (HQ v Hv)) as [_ [x [Gx _]]].
      apply get_node_in in Gx. destruct Gx as [Gx Gi]. rewrite <- (i_ids σ I). rewrite <- Gi. apply in_map. exact Gx. }
    destruct (pigeon Qa Qb ids Na Nb (Hin Qa a Ca) (Hin Qb b Cb)) as [v [Va Vb]].
    { unfold q in La, Lb. apply majority_arith; assumption. }
    eapply (i_fun σ I); eauto.
  Qed.
End Invariant.

(* ---------------------------------------------------------------- the theorem *)
Definition quorum_of (ids : list nid) : N := N.of_nat (length ids) / 2 + 1.

Lemma run_inv ids σ0 sched σ :
  inv ids σ0 -> run sys sys_event (sstep (quorum_of ids)) σ0 sched σ -> inv ids σ.
Proof.
  intros I Hrun. induction Hrun; auto. apply IHHrun. eapply inv_step; eauto.
Qed.

Theorem election_safety_sys :
  forall (σ0 σ : sys) (sched : list sys_event),
    sinit (quorum_of (map n_id (sy_nodes σ0))) σ0 ->
    run sys sys_event (sstep (quorum_of (map n_id (sy_nodes σ0)))) σ0 sched σ ->
    forall t a b, In (t, a) (sy_hist σ) -> In (t, b) (sy_hist σ) -> a = b.
Proof.
  intros σ0 σ sched Hinit Hrun.
  assert (I0 : inv (map n_id (sy_nodes σ0)) σ0) by (apply inv_init; auto).
  apply (inv_election _ σ (run_inv _ _ _ _ I0 Hrun)).
Qed.
