(* Raft/MemberStepV.v — round 10: the step of the invariant MS (Raft/MemberStep.v, generated from its Section Step) with the
   node-level facts of the step taken as hypotheses instead of being derived from run_event_crash on a snapshot-free node:
   the abstract node step nstep, the refined node summary, EM of the post-state, the vote part of the node summary, the
   configuration-tracks-log fact of the post-state, the peer-table facts and the shape of a continuing leader's log.
   Instantiated on the virtual nodes of a system with snapshots in Raft/MemberSnapSystem.v. *)
From Coq Require Import List NArith ZArith Bool Lia ZifyN ZifyNat ZifyBool.
From BLB Require Import Raft.LogMatchNodeQ Raft.LogMatchNodeMQ.
From BLB Require Import Lib.LTS Raft.Core Raft.Wire Raft.NodeProofs Raft.NodeKeep Raft.NodeElect Raft.NodeConf
  Raft.Election Raft.ElectionFixed Raft.LogMatchLists Raft.CommitCount Raft.LogMatchNode Raft.LogMatch Raft.Completeness Raft.CompletenessAck
  Raft.CompletenessVote Raft.MembershipQuorum Raft.NodeKeepV Raft.MemberNode Raft.MemberVotes Raft.MemberConfStep
  Raft.MemberPeers Raft.MemberConfTrack Raft.MemberLeaderOut Raft.MemberLeaderLog
  Raft.LogMatchNodeM Raft.LogMatchM Raft.CompletenessAckM Raft.MemberAbstract Raft.CompletenessVoteM Raft.MemberSafety Raft.MemberStep.
Import ListNotations.
Open Scope N_scope.

(* settled, read off the log: the latest configuration is committed and the entry at the commit index is of the current term *)
Definition settledT (s : node) : Prop :=
  latest_conf_committed s = true /\ term_at (p_log (n_p s)) (n_commit s) (p_term (n_p s)) /\ n_commit s <= llen (n_p s).

Definition confshapeT (s : node) (ce : entry) : Prop :=
  isconfb ce = true /\ e_term ce = p_term (n_p s) /\ settledT s /\
  exists c nc, n_conf s = Some c /\ decode_conf ce = Some nc /\
    ((exists x, mb_members nc = mb_members c ++ [x] /\ ~ In x (mb_members c)) \/
     (exists x, mb_members nc = filter (fun m => negb (m =? x)) (mb_members c) /\ In x (mb_members c))).

Definition ShT (s : node) (L' : list entry) : Prop :=
  (exists es, L' = p_log (n_p s) ++ es /\ Forall (fun e => isconfb e = false) es) \/
  (exists ce, L' = p_log (n_p s) ++ [ce] /\ confshapeT s ce).

Section StepV.
  Variables (bm : list nid) (be : N).
  Let bootE := boot_entry bm be.
  Variables (σ : sys) (EC : list ecent) (G : list lrec) (A : list ack) (CL : list cand) (GR GL : list grant).
  Variables (i : nid) (s : node) (ev : event) (k : N) (s' : node).
  Let σ' := step_sys σ s'.
  Let T' := p_term (n_p s').
  Let L0 := p_log (n_p s).
  Let EC' := EC ++ ec_of s s'.
  Hypothesis M : MS bm be (σ, EC) G A CL GR GL.
  Hypothesis Gs : get_node i (sy_nodes σ) = Some s.
  Hypothesis Hdel : forall m, ev = EDeliver m -> In m (sy_soup σ) /\ m_to m <> 0.
  Hypothesis Hres : evres bm be ev.
  (* the node-level facts of the step, abstractly (for a node without snapshot they all follow from run_event_crash) *)
  Hypothesis sp_NS : nstep s ev k s'.
  Hypothesis sp_NIQ :
    LogMatchNodeQ.inv (with_budget (settle s) k) (LogMatchNodeQ.inp_of ev) (LogMatchNodeQ.boot_of ev) (LogMatchNodeQ.rt_of ev)
      (LogMatchNodeQ.vq_of ev) (LogMatchNodeQ.lq_of s) (LogMatchNodeQ.dc_of ev) (LogMatchNodeQ.rsp_of ev) s'.
  Hypothesis sp_EM' : EM (σ', EC').
  Hypothesis HCP : cpart s s' (ev_msg ev).
  Hypothesis Hctw' : ctw s'.
  Hypothesis Hpk' : peers_ok s'.
  Hypothesis Hlps : n_role s = Leader -> p_term (n_p s') = p_term (n_p s) -> peers_sub s'.
  Hypothesis HSh : n_role s = Leader -> p_term (n_p s') = p_term (n_p s) -> ShT s (p_log (n_p s')).

  Let W : voteinvM bm be σ G A CL GR GL := ms_w _ _ _ _ _ _ _ _ M.
  Let KI := w_k _ _ _ _ _ _ _ _ W.
  Let GI := k_g _ _ _ _ _ KI.
  Let E0 : EM (σ, EC) := ms_em _ _ _ _ _ _ _ _ M.

  Lemma sp_base : LogMatchNode.base s.
  Proof. exact (LogMatchM.g_base _ _ _ _ GI i s Gs). Qed.

  Lemma sp_ids_ok : n_role s = Leader -> ids_ok s.
  Proof. exact (ms_pk _ _ _ _ _ _ _ _ M i s Gs). Qed.





  Lemma sp_ids : n_id s' = n_id s /\ n_id s = i.
  Proof. pose proof (ns_id _ _ _ _ sp_NS) as Hid. destruct (get_node_in _ _ _ Gs) as [_ Gid]. auto. Qed.

  Lemma sp_Gs' : get_node i (sy_nodes σ') = Some s'.
  Proof. exact (stM_Gs' σ i s ev k s' Gs sp_NS). Qed.

  Lemma sp_term_le : p_term (n_p s) <= T'.
  Proof. exact (v_tm _ _ _ _ _ _ _ _ _ (stM_NI s ev k s' sp_NS)). Qed.

  (* every vote the touched node counts at the end of the step comes from a member of the configuration it held *)
  Lemma sp_votes_members : cand_like s s' -> forall v, In v (c_votes s') -> memb_of s v.
  Proof.
    intros Hc. pose proof HCP as CP.
    destruct (CP Hc) as [_ [[R1 [R2 R3]] | [R1 R2]]].
    - intros v Hv. destruct (R3 v Hv) as [X | [m [X1 [X2 [X3 [X4 X5]]]]]].
      + exact (e_cvm _ E0 i s Gs R1 v X).
      + apply ev_msg_deliver in X1. destruct (Hdel m X1) as [Min Mto].
        destruct (e_resp _ E0 m Min X2) as [q [Q1 [Q2 [Q3 [Q4 Q5]]]]].
        destruct sp_ids as [_ Gid].
        assert (Et : m_to m = i) by (destruct X5 as [X5 | X5]; [congruence | contradiction]).
        assert (Gq : get_node (m_from q) (sy_nodes σ) = Some s) by (rewrite Q3, Et; exact Gs).
        pose proof (e_req _ E0 q s Q1 Q2 Gq R1 ltac:(congruence)) as Y. rewrite Q4, <- X3 in Y. exact Y.
    - intros v Hv. exact (proj2 (R2 v Hv)).
  Qed.
  (* ---------------------------------------------------------------- one leader per term after the step *)
  Lemma sp_new_leader b : n_role s' = Leader -> In (T', b) (sy_hist σ) -> b = n_id s'.
  Proof.
    intros Hl Hb. destruct sp_ids as [Hid Gid]. pose proof sp_NS as NS. pose proof (stM_NI s ev k s' NS) as NI.
    destruct (classic_cond s s') as [[Hr Ht] | Hnew].
    { fold T' in Ht. apply (LogMatchM.g_es _ _ _ _ GI T'); [exact Hb|]. rewrite Ht, Hid.
      exact (LogMatchM.g_hist_leader _ _ _ _ GI i s Gs Hr). }
    assert (Hnf : n_role s' <> Follower) by congruence.
    pose proof (ns_esum _ _ _ _ NS) as He. destruct (He Hnf) as [S1 [S2 S3]].
    destruct (S3 Hl) as [[R1 [_ R3]] | [c [Ec Hq]]]; [exfalso; apply Hnew; auto|].
    assert (Hc : cand_like s s') by (right; split; [exact Hl | exact Hnew]).
    pose proof (sp_votes_members Hc) as VMf.
    destruct (ms_ct _ _ _ _ _ _ _ _ M i s Gs) as [_ [_ Hct]]. unfold ct in Hct. rewrite Ec in Hct. symmetry in Hct.
    destruct (lconf_latest _ _ Hct) as [j [e [Lje [Ecm _]]]]. fold L0 in Lje.
    assert (H2 : 2 <= T') by (apply (v_n2 _ _ _ _ _ _ _ _ _ NI); exact Hnf).
    destruct (ms_hr _ _ _ _ _ _ _ _ M _ _ Hb) as [lb Rb].
    assert (Hbz : b <> 0).
    { destruct (LogMatchM.g_rec_hist _ _ _ _ GI _ _ _ Rb) as [[_ [Z _]] | [Z _]]; [lia | exact Z]. }
    destruct (w_quorum _ _ _ _ _ _ _ _ W _ _ _ Rb Hbz) as [lcb [Wb _]].
    pose proof sp_EM' as E1. pose proof sp_Gs' as Gs'.
    destruct (e_votes _ E1 i s' Gs' Hnf) as [Hasc Hcast]. cbn [fst] in Hcast.
    pose proof sp_term_le as Hle.
    (* the candidacy of the elected node: recorded before the step, or started in it *)
    assert (Hrole : T' = p_term (n_p s) -> n_role s = Candidate).
    { intro Et. destruct (v_rt _ _ _ _ _ _ _ _ _ NI Et) as [X | [X | [X _]]].
      - exfalso. apply Hnew. split; [simpl in X; congruence | exact Et].
      - congruence.
      - exact X. }
    assert (Hcl : T' = p_term (n_p s) -> In (i, T', L0) CL).
    { intro Et. destruct (w_c3 _ _ _ _ _ _ _ _ W i s Gs ltac:(rewrite (Hrole Et); discriminate)) as [lc [X [_ Z]]].
      rewrite (Z (Hrole Et)) in X. rewrite Gid, <- Et in X. exact X. }
    assert (Hlm : lm G L0) by (apply (LogMatchM.g_lm_node _ _ _ _ GI i s Gs)).
    assert (Hlt : forall e0, In e0 L0 -> e_term e0 < T').
    { intros e0 Hin. destruct (N.eq_dec T' (p_term (n_p s))) as [Et | Et].
      - destruct (w_c0 _ _ _ _ _ _ _ _ W _ _ _ (Hcl Et)) as [_ X]. apply X. exact Hin.
      - destruct (LogMatchM.g_tb_node _ _ _ _ GI i s Gs) as [TB _]. unfold tbound in TB. rewrite Forall_forall in TB.
        specialize (TB e0 Hin). cbv beta in TB. lia. }
    assert (Hcf : forall l1, In (i, T', l1) CL -> l1 = L0).
    { intros l1 H1. destruct (N.eq_dec T' (p_term (n_p s))) as [Et | Et].
      - exact (w_cfun _ _ _ _ _ _ _ _ W _ _ _ _ H1 (Hcl Et)).
      - exfalso. destruct (w_cterm _ _ _ _ _ _ _ _ W _ _ _ H1) as [x [Gx Le]]. rewrite Gs in Gx. inversion Gx. subst x. lia. }
    assert (Hbt : L0 <> [] -> nth_error L0 0 = Some (boot_entry bm be)).
    { intro Hne. destruct L0 as [| x r] eqn:EL; [congruence|]. simpl. f_equal.
      apply (first_is_boot bm be _ _ _ _ _ _ M (x :: r) x Hlm). reflexivity. }
    assert (Hv1 : v1_fact G A i T' L0).
    { destruct (N.eq_dec T' (p_term (n_p s))) as [Et | Et].
      - pose proof (w_self _ _ _ _ _ _ _ _ W i s Gs ltac:(rewrite (Hrole Et); discriminate)) as Sg. rewrite Gid, <- Et in Sg.
        destruct (w_v1 _ _ _ _ _ _ _ _ W _ _ _ Sg) as [lc [X Y]]. rewrite (Hcf lc X) in Y. exact Y.
      - intros T P HA HT kk Htp. destruct (k_esc _ _ _ _ _ KI _ _ _ HA) as [x [Gx [Le Hk]]]. rewrite Gs in Gx. inversion Gx. subst x.
        destruct (Hk kk Htp) as [K | [U' [j0 [l [E1' [E2 [E3 E4]]]]]]]; [left; exact K | right].
        exists U', j0, l. split; [exact E1'|]. split; [exact E2|]. split; [lia | exact E4]. }
    assert (Hci : incl (sy_cast σ) (sy_cast σ')) by (intros x Hx; simpl; apply in_or_app; left; exact Hx).
    pose proof (minv_aug G A CL GR GL (sy_cast σ) (sy_cast σ') (boot_entry bm be) i T' L0
                  (MS_minv bm be _ _ _ _ _ _ M) Hlm Hlt Hcf Hbt Hv1 Hci (e_fun _ E1)) as Mi.
    (* both are winners over the augmented lists *)
    assert (Wi : winl (CL ++ [(i, T', L0)]) (GR ++ [(i, T', i)]) (sy_cast σ') GL T' i L0).
    { split; [apply in_or_app; right; left; reflexivity|].
      exists j, e, (c_votes s'). split; [exact Lje|]. split; [apply asc_nodup; apply S2; intro Hrs; apply (e_votes _ E0 i s Gs Hrs)|].
      split; [intros v Hv; rewrite Ecm; destruct (VMf v Hv) as [c1 [Y1 Y2]]; congruence|].
      split; [rewrite Ecm; exact Hq|].
      intros v Hv. split; [| pose proof (Hcast v Hv) as X; rewrite Hid, Gid in X; exact X].
      destruct (S1 v Hv) as [[R1 [R2 R3]] | [[R1 R2] | [m [R1 [R2 [R3 [R4 R5]]]]]]].
      - fold T' in R2. destruct (w_votes _ _ _ _ _ _ _ _ W i s Gs R1 v R3) as [X | X]; rewrite Gid, <- R2 in X.
        + left. apply in_or_app. left. exact X.
        + right. exact X.
      - left. apply in_or_app. right. left. congruence.
      - apply ev_msg_deliver in R1. destruct (Hdel m R1) as [Min Mto]. destruct R5 as [R5 | R5]; [| contradiction].
        fold T' in R4. destruct (w_resp _ _ _ _ _ _ _ _ W m Min R2 Mto) as [X | X]; rewrite <- R3, R4, R5, Gid in X.
        + left. apply in_or_app. left. exact X.
        + right. exact X. }
    assert (Wb' : winl (CL ++ [(i, T', L0)]) (GR ++ [(i, T', i)]) (sy_cast σ') GL T' b lcb).
    { destruct Wb as [W1 [j1 [e1 [Q [W2 [W3 [W4 [W5 W6]]]]]]]]. split; [apply in_or_app; left; exact W1|].
      exists j1, e1, Q. split; [exact W2|]. split; [exact W3|]. split; [exact W4|]. split; [exact W5|].
      intros v Hv. destruct (W6 v Hv) as [Y1 Y2]. split; [left; apply in_or_app; left; exact Y1 | apply Hci; exact Y2]. }
    rewrite Hid, Gid. symmetry. exact (election_safety_of_minv _ _ _ _ _ _ _ Mi T' i L0 b lcb Wi Wb').
  Qed.
  Lemma sp_ESp : forall t a b, In (t, a) (sy_hist σ') -> In (t, b) (sy_hist σ') -> a = b.
  Proof.
    intros t a b Ha Hb. simpl in Ha, Hb. apply in_app_or in Ha. apply in_app_or in Hb.
    assert (Hnew : forall t0 x, In (t0, x) (hist_of s') -> n_role s' = Leader /\ t0 = T' /\ x = n_id s').
    { intros t0 x H. unfold hist_of in H. destruct (n_role s') eqn:Er; simpl in H; try contradiction.
      destruct H as [H | []]. inversion H. auto. }
    destruct Ha as [Ha | Ha]; destruct Hb as [Hb | Hb].
    - exact (LogMatchM.g_es _ _ _ _ GI t a b Ha Hb).
    - destruct (Hnew _ _ Hb) as [Hl [Et Eb]]. subst t b. exact (sp_new_leader a Hl Ha).
    - destruct (Hnew _ _ Ha) as [Hl [Et Ea]]. subst t a. symmetry. exact (sp_new_leader b Hl Hb).
    - destruct (Hnew _ _ Ha) as [_ [_ Ea]]. destruct (Hnew _ _ Hb) as [_ [_ Eb]]. congruence.
  Qed.
  (* ---------------------------------------------------------------- the vote / ack / log-matching invariants after the step *)
  Let G' := G ++ rec_of s s'.
  Let A' := A ++ acks_of s' ++ rec_acks (rec_of s s').
  Let CL' := CL ++ cl_of s s'.
  Let GR' := GR ++ gr_of G s s'.
  Let GL' := GL ++ gl_of G s s'.

  Lemma sp_win : n_role s' = Leader -> ~ (n_role s = Leader /\ p_term (n_p s') = p_term (n_p s)) ->
    exists j e, latest (p_log (n_p s)) j e /\ incl (c_votes s') (cmem e) /\ maj (cmem e) <= N.of_nat (length (c_votes s')).
  Proof.
    intros Hl Hnew. assert (Hnf : n_role s' <> Follower) by congruence.
    pose proof (ns_esum _ _ _ _ sp_NS) as He. destruct (He Hnf) as [_ [_ S3]].
    destruct (S3 Hl) as [[R1 [_ R3]] | [c [Ec Hq]]]; [exfalso; apply Hnew; auto|].
    assert (Hc : cand_like s s') by (right; split; [exact Hl | exact Hnew]).
    pose proof (sp_votes_members Hc) as VMf.
    destruct (ms_ct _ _ _ _ _ _ _ _ M i s Gs) as [_ [_ Hct]]. unfold ct in Hct. rewrite Ec in Hct. symmetry in Hct.
    destruct (lconf_latest _ _ Hct) as [j [e [Lje [Ecm _]]]].
    exists j, e. split; [exact Lje|]. split; [| rewrite Ecm; exact Hq].
    intros v Hv. rewrite Ecm. destruct (VMf v Hv) as [c1 [Y1 Y2]]. congruence.
  Qed.

  Lemma sp_W' : voteinvM bm be σ' G' A' CL' GR' GL'.
  Proof.
    apply (voteinvM_step_abs bm be σ G A CL GR GL i s ev k s' W Gs Hdel Hres sp_NS sp_ESp).
    - intro Hnf. destruct (e_votes _ sp_EM' i s' sp_Gs' Hnf) as [X Y]. split; [exact X | exact Y].
    - exact sp_win.
    - intros x Hx. simpl. apply in_or_app. left. exact Hx.
  Qed.
  (* ---------------------------------------------------------------- the commit fields *)
  Let L' := p_log (n_p s').
  Let c0 := N.to_nat (n_commit s).
  Let c' := N.to_nat (n_commit s').
  Lemma KI' : ackinvM bm be σ' G' A'. Proof. exact (w_k _ _ _ _ _ _ _ _ sp_W'). Qed.
  Lemma GI' : ginvM bm be σ' G'. Proof. exact (k_g _ _ _ _ _ KI'). Qed.
  Lemma NI : LogMatchNode.inv (with_budget (settle s) k) (inp_of ev) (boot_of ev) (rt_of ev) (vq_of ev) (lq_of s) (dc_of ev) (rsp_of ev) s'.
  Proof. exact (stM_NI s ev k s' sp_NS). Qed.

  Lemma sp_inclG : incl G G'. Proof. intros r Hr. apply in_or_app. left. exact Hr. Qed.
  Lemma sp_inclA : incl A A'. Proof. intros r Hr. apply in_or_app. left. exact Hr. Qed.

  Lemma sp_cpre_mono t t' L c : t <= t' -> cprefixM G A t L c -> cprefixM G' A' t' L c.
  Proof. intro Ht. apply cprefixM_mono; auto using sp_inclG, sp_inclA. Qed.

  Lemma sp_delivered a :
    inp_of ev = Some a ->
    exists m pi pt cm ents j l, ev = EDeliver m /\ m_body m = AppEnts pi pt cm (Some ents) /\
      a = {| ai_term := m_term m; ai_pi := pi; ai_pt := pt; ai_ents := ents |} /\
      In (m_term m, j, l) G /\ slice l pi pt (Some ents).
  Proof.
    intro Hinp. pose proof Hdel as HD. destruct ev; simpl in Hinp; try discriminate. destruct (m_body m) eqn:Eb; try discriminate.
    destruct ents as [es |]; try discriminate. inversion Hinp as [Ha]. clear Hinp.
    destruct (HD m eq_refl) as [Min _]. pose proof (LogMatchM.g_msgs _ _ _ _ GI m Min) as Mk. unfold msg_ok3 in Mk. rewrite Eb in Mk.
    destruct Mk as [j [l [Rin [Sl _]]]]. exists m, prev_idx, prev_term, commit, es, j, l.
    split; [reflexivity|]. split; [exact Eb|]. split; [reflexivity|]. split; [exact Rin | exact Sl].
  Qed.

  (* A COMMITTED ENTRY IS NEVER TRUNCATED *)
  Lemma sp_conflict_ge a cpos : inp_of ev = Some a -> T' = ai_term a -> conflict_at L0 a cpos -> (c0 <= cpos)%nat.
  Proof.
    intros Hinp Hta [Hpc [e1 [e2 [X1 [X2 X3]]]]].
    destruct (Nat.le_gt_cases c0 cpos) as [Hle | Hgt]; [exact Hle | exfalso].
    destruct (sp_delivered a Hinp) as [m [pi [pt [cm [ents [j [l [Eev [Eb [Ea [Rin Sl]]]]]]]]]]].
    assert (Hl2 : nth_error l cpos = Some e2).
    { rewrite Ea in X2. simpl in X2. pose proof (slice_nth _ _ _ _ _ _ Sl X2) as Y.
      rewrite Ea in Hpc. simpl in Hpc. rewrite <- Y. f_equal. lia. }
    assert (Etm : m_term m = T') by (rewrite Hta, Ea; reflexivity).
    destruct (ms_cn _ _ _ _ _ _ _ _ M i s Gs) as [Hcl Hcp]. fold c0 in Hcl, Hcp. fold L0 in Hcl, Hcp.
    destruct Hcp as [Z | [T [P [Cm [HT [x Hx]]]]]]; [lia|].
    assert (HP1 : nth_error P cpos = Some e1).
    { rewrite Hx. rewrite nth_error_app1 by (rewrite firstn_length; lia). rewrite nth_error_firstn'.
      assert (Y : (cpos <? c0)%nat = true) by (apply Nat.ltb_lt; lia). rewrite Y. exact X1. }
    pose proof sp_term_le as Hle. destruct (N.eq_dec T T') as [Eq | Ne].
    - pose proof Cm as [lT [C [[[iT [D1 D2]] _] D3]]]. rewrite Etm, <- Eq in Rin.
      pose proof (LogMatchM.g_cmp _ _ _ _ GI _ _ _ _ _ D1 Rin) as Cmp.
      assert (HlT : nth_error lT cpos = Some e1).
      { destruct D3 as [y Hy]. rewrite Hy. rewrite nth_error_app1; [exact HP1|]. apply nth_len in HP1. lia. }
      assert (S cpos <= length lT)%nat by (eapply nth_len; eauto).
      assert (S cpos <= length l)%nat by (eapply nth_len; eauto).
      pose proof (comparable_firstn _ _ _ Cmp H H0) as Pf. apply firstn_nth_eq in Pf. congruence.
    - assert (HTU : T < m_term m) by lia.
      pose proof (committedM_kept bm be _ _ _ _ _ _ M T P _ _ _ Cm Rin HTU) as K.
      pose proof (keeps_nth _ _ _ _ K HP1) as Y. congruence.
  Qed.
  Lemma sp_no_trunc : firstn c0 L' = firstn c0 L0.
  Proof.
    destruct (ms_cn _ _ _ _ _ _ _ _ M i s Gs) as [Hcl _]. fold c0 in Hcl. fold L0 in Hcl.
    pose proof (v_lr _ _ _ _ _ _ _ _ _ NI) as N_lr. unfold LR in N_lr. cbv zeta in N_lr.
    change (p_log (n_p (with_budget (settle s) k))) with L0 in N_lr. fold L' in N_lr. fold T' in N_lr.
    destruct N_lr as [X | [[_ [_ [a [c [Xa [Xt [X Xc]]]]]]] | [[_ [_ [b [Xb [X0 X]]]]] | [[Xr [Xt [new [X Xn]]]] | [_ [_ [a [Xa [Xt Xm]]]]]]]]].
    - rewrite X. reflexivity.
    - pose proof (sp_conflict_ge a c Xa Xt Xc) as Hge. rewrite X. rewrite firstn_firstn, Nat.min_l by lia. reflexivity.
    - rewrite X0 in *. simpl in Hcl. assert (c0 = 0)%nat by lia. rewrite H. reflexivity.
    - rewrite X. rewrite firstn_app. replace (c0 - length L0)%nat with 0%nat by lia. simpl. apply app_nil_r.
    - destruct Xm as [c [E [Hb [Hc [Ta [Ag Cf]]]]]]. rewrite E. rewrite firstn_app, firstn_firstn.
      destruct Cf as [Cl | Cf].
      + subst c. rewrite Nat.min_l by lia. rewrite firstn_length, Nat.min_l by lia.
        replace (c0 - length L0)%nat with 0%nat by lia. simpl. apply app_nil_r.
      + pose proof (sp_conflict_ge a c Xa Xt Cf) as Hge. rewrite Nat.min_l by lia.
        rewrite firstn_length. replace (c0 - Nat.min c (length L0))%nat with 0%nat by lia. simpl. apply app_nil_r.
  Qed.

  Lemma sp_cond_rec : (n_role s' = Leader \/ (n_role s = Leader /\ T' = p_term (n_p s))) -> In (T', n_id s', L') G'.
  Proof. intro H. apply in_or_app. right. apply rec_of_in. exact H. Qed.

  (* a peers-table justification (either version of the node summary) is backed by an acknowledgement *)
  Lemma sp_pjust_gen v m :
    (m = 0 \/
     ((n_role s = Leader /\ p_term (n_p s') = p_term (n_p s)) /\ exists p0, peer_get v (l_peers s) = Some p0 /\ pr_match p0 = m) \/
     rsp_of ev v m (p_term (n_p s'))) -> pjust_ackM A' v T' m.
  Proof.
    pose proof Hdel as HD.
    intros [Z | [[[Hr Ht] [p0 [X1 X2]]] | R]]; [left; exact Z | |].
    - destruct (peer_get_some _ _ _ X1) as [Y1 Y2].
      assert (Hin : In p0 (l_peers s)).
      { clear - X1. induction (l_peers s) as [| q r IH]; simpl in X1; [discriminate|].
        destruct (pr_id q =? v); [inversion X1; left; reflexivity | right; auto]. }
      destruct (ms_cp _ _ _ _ _ _ _ _ M i s Gs Hr p0 Hin) as [Z | [P [Z1 Z2]]]; [left; congruence | right].
      exists P. rewrite Y1 in Z1. fold T' in Ht. rewrite Ht. split; [apply sp_inclA; exact Z1 | congruence].
    - fold T' in R. unfold rsp_of in R. destruct ev; try contradiction. destruct (m_body m0) eqn:Eb; try contradiction.
      destruct success; [| contradiction]. destruct R as [R1 [R2 R3]].
      destruct (HD m0 eq_refl) as [Min _]. destruct (k_msg _ _ _ _ _ KI m0 _ _ Min Eb) as [P [Z1 Z2]].
      right. exists P. rewrite R1, R3, R2. split; [apply sp_inclA; exact Z1 | exact Z2].
  Qed.
  (* the commit index of the touched node after the step *)
  Lemma sp_node' : (c' <= length L')%nat /\ cprefixM G' A' T' L' c'.
  Proof.
    destruct (ms_cn _ _ _ _ _ _ _ _ M i s Gs) as [Hcl Hcp]. fold c0 in Hcl, Hcp. fold L0 in Hcl, Hcp.
    pose proof sp_no_trunc as Hnt. pose proof sp_term_le as Hle. pose proof Hdel as HD. pose proof sp_NS as NS.
    destruct sp_ids as [Hid Gid].
    destruct (LogMatchNodeQ.v_ext _ _ _ _ _ _ _ _ _ sp_NIQ) as [E1 [_ [E3 E4]]].
    destruct E3 as [X | [X | [X | X]]].
    - (* not increased *)
      change (n_commit (with_budget (settle s) k)) with (n_commit s) in X.
      assert (Ec : (c' <= c0)%nat) by (unfold c', c0; lia). split.
      + assert (Y : length (firstn c0 L') = length (firstn c0 L0)) by (rewrite Hnt; reflexivity).
        rewrite !firstn_length in Y. lia.
      + destruct (Nat.eq_dec c' 0) as [Z | Hnz]; [left; exact Z|].
        destruct Hcp as [Z | [T [P [Cm [HT Hp]]]]]; [lia | right]. exists T, P.
        split; [eapply committedM_mono; eauto using sp_inclG, sp_inclA|]. split; [lia|].
        eapply pfx_trans; [| exact Hp]. rewrite <- Hnt.
        replace (firstn c' L') with (firstn c' (firstn c0 L')) by (rewrite firstn_firstn; f_equal; lia). apply firstn_pfx.
    - (* a follower commits up to min(acknowledged index, leaderCommit) *)
      destruct X as [cm [idx [h [m0 [D1 [D2 [D3 [D4 D5]]]]]]]].
      destruct (stM_resp bm be σ G A i s ev k s' KI Gs Hdel Hres NS sp_ESp m0 idx h D3 D4) as [Hil Hir].
      fold L' in Hil, Hir. split; [unfold c'; lia|].
      destruct (Nat.eq_dec c' 0) as [Z | Hnz]; [left; exact Z | right].
      destruct Hir as [Z | [j [l [Rl Fl]]]]; [unfold c' in Hnz; lia|]. fold T' in Rl.
      assert (Hmsg : exists md pi pt oe, ev = EDeliver md /\ m_body md = AppEnts pi pt cm oe).
      { clear - D1. unfold LogMatchNodeQ.dc_of in D1. destruct ev; try contradiction. destruct (m_body m) eqn:Eb; try contradiction.
        subst cm. exists m, prev_idx, prev_term, ents. split; [reflexivity | exact Eb]. }
      destruct Hmsg as [md [pi [pt [oe [Eev Ebd]]]]].
      destruct (HD md Eev) as [Min _].
      destruct (ms_cm _ _ _ _ _ _ _ _ M md _ _ _ _ Min Ebd) as [j2 [l2 [R2 [Hl2 Cp2]]]].
      assert (Htm : m_term md = T').
      { destruct (ns_term _ _ _ _ NS md Eev) as [D | D]; [rewrite D in D3; contradiction | unfold T'; congruence]. }
      rewrite Htm in R2, Cp2.
      destruct Cp2 as [Z | [T [P [Cm [HT Hp]]]]]; [unfold c' in Hnz; lia|].
      exists T, P. split; [eapply committedM_mono; eauto using sp_inclG, sp_inclA|]. split; [exact HT|].
      pose proof (LogMatchM.g_cmp _ _ _ _ GI _ _ _ _ _ Rl R2) as Cmp.
      assert (Hll : (N.to_nat idx <= length l)%nat).
      { eapply firstn_length_ge; [exact Fl | exact Hil]. }
      assert (F1 : firstn c' L' = firstn c' l) by (eapply firstn_eq_le; [| exact Fl]; unfold c'; lia).
      assert (F2 : firstn c' l = firstn c' l2) by (apply comparable_firstn; auto; unfold c'; lia).
      rewrite F1, F2. destruct Hp as [x Hx]. exists (skipn c' (firstn (N.to_nat cm) l2) ++ x).
      rewrite app_assoc. rewrite Hx. f_equal.
      rewrite <- (firstn_skipn c' (firstn (N.to_nat cm) l2)) at 1. f_equal.
      rewrite firstn_firstn. rewrite Nat.min_l by (unfold c'; lia). reflexivity.
    - (* a leader commits by counting: the evidence lies inside its configuration *)
      destruct X as [B1 [B2 [B3 [c [Q [B4 [B5 [B6 B7]]]]]]]]. unfold llen in B2. fold L' in B2, B3. fold T' in B3.
      split; [unfold c'; lia|].
      destruct (Nat.eq_dec c' 0) as [Z | Hnz]; [left; exact Z | right].
      assert (Hcond : n_role s' = Leader \/ (n_role s = Leader /\ T' = p_term (n_p s))).
      { destruct B1 as [B1 | [B1 B1']]; [left; exact B1 | right; split; [exact B1 | exact B1']]. }
      pose proof (sp_cond_rec Hcond) as Rec.
      assert (Hnz' : n_id s' <> 0) by (rewrite Hid; eapply (LogMatchM.g_nz _ _ _ _ GI); eauto).
      destruct B3 as [Z | [e [Be Bt]]]; [unfold c' in Hnz; lia|].
      pose proof Hctw' as [_ [_ Hct']].
      unfold ct in Hct'. rewrite B4 in Hct'. symmetry in Hct'.
      destruct (lconf_latest _ _ Hct') as [j [e0 [Lje [Ecm _]]]]. fold L' in Lje.
      assert (Hsub : forall v p, peer_get v (l_peers s') = Some p -> In v (mb_members c)).
      { intros v p Hp. destruct (peer_get_some _ _ _ Hp) as [_ Hin]. fold (peer_ids s') in Hin.
        assert (Hm : memb_of s' v).
        { destruct B1 as [B1 | [B1 B1']].
          - pose proof (Hpk' B1 v) as Y. apply Y in Hin. tauto.
          - exact (Hlps B1 B1' v Hin). }
        destruct Hm as [c1 [Y1 Y2]]. congruence. }
      exists T', (firstn c' L'). split; [| split; [apply N.le_refl | apply pfx_refl]].
      assert (Hlen' : length (firstn c' L') = c') by (rewrite firstn_length; unfold c'; lia).
      exists L', (mb_members c). rewrite Hlen'. split; [| apply firstn_pfx].
      split; [exists (n_id s'); split; [exact Rec | exact Hnz']|]. split; [unfold c'; lia|]. split.
      { exists e. split; [| exact Bt]. rewrite <- Be. f_equal. unfold c'. lia. }
      split; [exists j, e0; split; [exact Lje | symmetry; exact Ecm]|].
      exists Q. split; [exact B5|]. split.
      { intros v Hv. destruct (B7 v Hv) as [[Ev Hic] | [p [P1 _]]].
        - subst v. unfold in_latest_conf in Hic. rewrite B4 in Hic. apply memb_In. exact Hic.
        - eapply Hsub; eauto. }
      split; [exact B6|].
      intros v Hv. destruct (B7 v Hv) as [[Ev _] | [p [P1 [P2 P3]]]].
      + subst v. exists L'. split; [apply (k_lead _ _ _ _ _ KI' _ _ _ Rec Hnz') | unfold c'; lia].
      + assert (PJ : pjust_ackM A' v T' (pr_match p)) by (apply sp_pjust_gen; exact P3).
        destruct PJ as [Z | [P [Z1 Z2]]]; [unfold c' in Hnz; lia|]. exists P. split; [exact Z1 | unfold c'; lia].
    - (* the commit index was raised to a position where the log agrees with the delivered entries *)
      destruct X as [cm [a [D1 [Ia [Ta [D2 Rk]]]]]]. fold L' in Rk. fold T' in Ta.
      destruct (Nat.eq_dec c' 0) as [Z | Hnz]; [split; [lia | left; exact Z] |].
      assert (Hnzc : n_commit s' <> 0) by (unfold c' in Hnz; lia).
      assert (Hmsg : exists md pi pt oe, ev = EDeliver md /\ m_body md = AppEnts pi pt cm oe /\ m_term md = T').
      { clear - D1 Ia Ta. unfold LogMatchNodeQ.dc_of in D1. unfold LogMatchNodeQ.inp_of in Ia.
        destruct ev; try contradiction. destruct (m_body m) eqn:Eb; try contradiction.
        subst cm. exists m, prev_idx, prev_term, ents. split; [reflexivity|]. split; [exact Eb|].
        destruct ents; [| discriminate]. inversion Ia as [Ea]. rewrite <- Ea in Ta. simpl in Ta. congruence. }
      destruct Hmsg as [md [pi [pt [oe [Eev [Ebd Htm]]]]]].
      destruct (stM_resp_ok bm be σ G A i s ev k s' KI Gs Hdel Hres NS sp_ESp (n_commit s') Hnzc Rk
                  ltac:(intros m0 Eq0; rewrite Eev in Eq0; inversion Eq0 as [Em0]; rewrite <- Em0; exact Htm)) as [Hil [j [l [Rl Fl]]]].
      fold L' in Hil, Fl. fold c' in Hil, Fl. split; [exact Hil|]. right.
      destruct (HD md Eev) as [Min _].
      destruct (ms_cm _ _ _ _ _ _ _ _ M md _ _ _ _ Min Ebd) as [j2 [l2 [R2 [Hl2 Cp2]]]]. rewrite Htm in R2, Cp2.
      destruct Cp2 as [Z | [T [P [Cm [HT Hp]]]]]; [unfold c' in Hnz; lia|].
      exists T, P. split; [eapply committedM_mono; eauto using sp_inclG, sp_inclA|]. split; [exact HT|].
      fold T' in Rl. pose proof (LogMatchM.g_cmp _ _ _ _ GI _ _ _ _ _ Rl R2) as Cmp.
      assert (Hll : (c' <= length l)%nat).
      { assert (Y : length (firstn c' L') = length (firstn c' l)) by (rewrite Fl; reflexivity). rewrite !firstn_length in Y. lia. }
      assert (F2 : firstn c' l = firstn c' l2) by (apply comparable_firstn; auto; unfold c'; lia).
      rewrite Fl, F2. destruct Hp as [x Hx]. exists (skipn c' (firstn (N.to_nat cm) l2) ++ x).
      rewrite app_assoc. rewrite Hx. f_equal.
      rewrite <- (firstn_skipn c' (firstn (N.to_nat cm) l2)) at 1. f_equal.
      rewrite firstn_firstn. rewrite Nat.min_l by (unfold c'; lia). reflexivity.
  Qed.
  Lemma sp_Go j : j <> i -> get_node j (sy_nodes σ') = get_node j (sy_nodes σ).
  Proof. apply (stM_Go σ i s ev k s' Gs sp_NS). Qed.

  Lemma sp_Gcase j x : get_node j (sy_nodes σ') = Some x -> (j = i /\ x = s') \/ (j <> i /\ get_node j (sy_nodes σ) = Some x).
  Proof.
    intro Hx. destruct (N.eq_dec j i) as [E | E].
    - subst j. rewrite sp_Gs' in Hx. inversion Hx. auto.
    - rewrite sp_Go in Hx; auto.
  Qed.

  Lemma sp_cn' : forall j x, get_node j (sy_nodes σ') = Some x ->
    (N.to_nat (n_commit x) <= length (p_log (n_p x)))%nat /\ cprefixM G' A' (p_term (n_p x)) (p_log (n_p x)) (N.to_nat (n_commit x)).
  Proof.
    intros j x Hx. destruct (sp_Gcase j x Hx) as [[_ E] | [Hj E]].
    - subst x. exact sp_node'.
    - destruct (ms_cn _ _ _ _ _ _ _ _ M j x E) as [X Y]. split; [exact X|]. eapply sp_cpre_mono; [apply N.le_refl | exact Y].
  Qed.

  Lemma sp_cm' : forall m pi pt cm oe, In m (sy_soup σ') -> m_body m = AppEnts pi pt cm oe ->
    exists j l, In (m_term m, j, l) G' /\ (N.to_nat cm <= length l)%nat /\ cprefixM G' A' (m_term m) l (N.to_nat cm).
  Proof.
    pose proof (ns_msgs _ _ _ _ sp_NS) as Hm. pose proof sp_node' as [Hn1 Hn2].
    intros m pi pt cm oe Hin Hb. simpl in Hin. apply in_app_or in Hin. destruct Hin as [Hin | Hin].
    - destruct (ms_cm _ _ _ _ _ _ _ _ M m pi pt cm oe Hin Hb) as [j [l [X [Y Z]]]]. exists j, l. split; [apply sp_inclG; exact X|].
      split; [exact Y|]. eapply sp_cpre_mono; [apply N.le_refl | exact Z].
    - apply in_out_msgs in Hin. destruct Hin as [m0 [H0 [Et [Ef [Eto Eb]]]]].
      unfold msgs_ok in Hm. rewrite Forall_forall in Hm. destruct (Hm m0 H0) as [X [Y Z]].
      destruct (v_ext _ _ _ _ _ _ _ _ _ NI) as [E1 _]. rewrite Forall_forall in E1. pose proof (E1 m0 H0) as Cm.
      unfold cm_msg in Cm. rewrite <- Eb, Hb in Cm.
      assert (Hcond : n_role s' = Leader \/ (n_role s = Leader /\ T' = p_term (n_p s))).
      { destruct (v_lead _ _ _ _ _ _ _ _ _ NI) as [Na | Ld].
        - unfold no_appents in Na. rewrite Forall_forall in Na. exfalso. apply (Na m0 H0). unfold is_appents. rewrite <- Eb, Hb. exact Logic.I.
        - exact Ld. }
      exists (n_id s'), L'. rewrite Et, X. split; [apply sp_cond_rec; exact Hcond|]. fold c' in Hn1, Hn2. fold T' in Hn2. fold L' in Hn1, Hn2.
      assert (Hle : (N.to_nat cm <= c')%nat) by (unfold c'; lia).
      split; [lia|]. destruct (Nat.eq_dec (N.to_nat cm) 0) as [Z0 | Hnz]; [left; exact Z0 | right].
      destruct Hn2 as [Z0 | [T [P [C1 [C2 C3]]]]]; [lia|]. exists T, P. split; [exact C1|]. split; [exact C2|].
      eapply pfx_trans; [| exact C3]. exists (skipn (N.to_nat cm) (firstn c' L')).
      rewrite <- (firstn_skipn (N.to_nat cm) (firstn c' L')) at 1. f_equal. rewrite firstn_firstn, Nat.min_l by lia. reflexivity.
  Qed.

  Lemma sp_cp' : forall j x, get_node j (sy_nodes σ') = Some x -> n_role x = Leader ->
    forall p, In p (l_peers x) -> pjust_ackM A' (pr_id p) (p_term (n_p x)) (pr_match p).
  Proof.
    intros j x Hx Hr p Hp0. destruct (sp_Gcase j x Hx) as [[_ E] | [Hj E]].
    - subst x. destruct (v_ext _ _ _ _ _ _ _ _ _ NI) as [_ [_ [_ E4]]]. destruct (E4 Hr) as [_ [_ P3]].
      apply sp_pjust_gen. exact (P3 p Hp0).
    - destruct (ms_cp _ _ _ _ _ _ _ _ M j x E Hr p Hp0) as [Z | [P [Z1 Z2]]]; [left; exact Z | right]. exists P. split; [apply sp_inclA; exact Z1 | exact Z2].
  Qed.

  Lemma sp_hr' : forall t c, In (t, c) (sy_hist σ') -> exists l, In (t, c, l) G'.
  Proof.
    intros t c Hin. simpl in Hin. apply in_app_or in Hin. destruct Hin as [Hin | Hin].
    - destruct (ms_hr _ _ _ _ _ _ _ _ M t c Hin) as [l R]. exists l. apply sp_inclG. exact R.
    - unfold hist_of in Hin. destruct (n_role s') eqn:Er; simpl in Hin; try contradiction.
      destruct Hin as [Hin | []]. inversion Hin. exists L'. apply sp_cond_rec. left. exact Er.
  Qed.
  (* ---------------------------------------------------------------- the configuration invariants for the record the step adds *)
  (* a settled leader committed the index it holds, itself, under its latest configuration *)
  Lemma sp_lci c : n_role s = Leader -> settledT s -> n_conf s = Some c ->
    exists j1 e1 L, latest L0 j1 e1 /\ decode_conf e1 = Some c /\ pfx L L0 /\ cmr G A (p_term (n_p s)) L c0 (cmem e1) /\
                    latest L j1 e1 /\ (j1 < c0)%nat /\ (c0 <= length L0)%nat.
  Proof.
    intros Hr [Hlc [Ta Hll]] Hc. destruct sp_base as [Bs [Bw _]]. destruct sp_ids as [_ Gid].
    destruct (ms_ct _ _ _ _ _ _ _ _ M i s Gs) as [_ [_ Hct]]. unfold ct in Hct. rewrite Hc in Hct. symmetry in Hct.
    destruct (lconf_latest _ _ Hct) as [j1 [e1 [Lje [_ Ed]]]]. fold L0 in Lje.
    unfold latest_conf_committed in Hlc. rewrite Hc in Hlc. apply N.leb_le in Hlc.
    assert (Ec1 : isconfb e1 = true) by (destruct Lje as [[_ X] _]; exact X).
    destruct (decode_conf_some e1 Ec1) as [c1 [D1 [D2 _]]]. assert (c1 = c) by congruence. subst c1.
    pose proof (wf_from_nth _ _ _ _ Bw (proj1 (proj1 Lje))) as Ei.
    assert (Hj1 : (j1 < c0)%nat) by (unfold c0; lia).
    unfold llen in Hll.
    destruct Ta as [Z | [ec [Hec Hect]]]; [unfold c0 in Hj1; lia|].
    replace (N.to_nat (n_commit s - 1)) with (c0 - 1)%nat in Hec by (unfold c0; lia). fold L0 in Hec.
    destruct (ms_cn _ _ _ _ _ _ _ _ M i s Gs) as [Hcl Hcp]. fold c0 in Hcl, Hcp. fold L0 in Hcl, Hcp.
    destruct Hcp as [Z | [T0 [P [[L [C [Hcm PfP]]] [HT0 [x Hx]]]]]]; [lia|].
    assert (HlP : (c0 <= length P)%nat).
    { assert (Y : length (firstn c0 L0 ++ x) = length P) by (rewrite Hx; reflexivity). rewrite app_length, firstn_length in Y. lia. }
    assert (HPe : nth_error P (c0 - 1) = Some ec).
    { rewrite Hx. rewrite nth_error_app1 by (rewrite firstn_length; lia). rewrite nth_error_firstn'.
      assert (Y : (c0 - 1 <? c0)%nat = true) by (apply Nat.ltb_lt; lia). rewrite Y. exact Hec. }
    assert (HLe : nth_error L (c0 - 1) = Some ec).
    { destruct PfP as [y Hy]. rewrite Hy. rewrite nth_error_app1; [exact HPe | lia]. }
    pose proof Hcm as [[iT [RT HiT]] [HmL _]].
    assert (ET0 : T0 = p_term (n_p s)).
    { destruct (LogMatchM.g_tb_rec _ _ _ _ GI _ _ _ RT) as [TB _]. unfold tbound in TB. rewrite Forall_forall in TB.
      specialize (TB ec (nth_error_In _ _ HLe)). cbv beta in TB. lia. }
    subst T0.
    pose proof (LogMatchM.g_rec_leader _ _ _ _ GI i s Gs Hr) as Rs.
    assert (Hnz : n_id s <> 0) by (eapply (LogMatchM.g_nz _ _ _ _ GI); eauto).
    assert (EiT : iT = n_id s) by (exact (MS_one_leader_per_term bm be _ _ _ _ _ _ M _ _ _ _ _ RT Rs HiT Hnz)).
    destruct (LogMatchM.g_rec_node _ _ _ _ GI _ _ _ RT HiT) as [x0 [Gx [_ Eq]]]. rewrite EiT, Gid, Gs in Gx. inversion Gx. subst x0.
    destruct (Eq eq_refl) as [_ Hpf]. specialize (Hpf Hr). fold L0 in Hpf.
    assert (HlL : (c0 <= length L)%nat) by (destruct PfP as [y Hy]; rewrite Hy, app_length; lia).
    assert (LL : latest L j1 e1) by (apply (latest_pfx L L0 j1 e1 Hpf Lje); lia).
    exists j1, e1, L. split; [exact Lje|]. split; [exact Ed|]. split; [exact Hpf|]. split.
    - pose proof Hcm as [_ [_ [_ [[jj [ee [Ll ECm]]] _]]]]. destruct (latest_fun _ _ _ _ _ Ll LL) as [_ Ee]. subst ee. rewrite <- ECm.
      apply (cmr_le G A _ L (length P) c0 C Hcm); [lia|]. exists ec. split; [exact HLe | exact Hect].
    - split; [exact LL|]. split; [exact Hj1 | exact Hcl].
  Qed.
  Lemma sp_good_conf ce : n_role s = Leader -> confshapeT s ce -> good G A L0 -> goodAt G A (L0 ++ [ce]) (length L0) ce.
  Proof.
    intros Hr [Hce [Hct [Hset [c [nc [Hc [Hd Hshape]]]]]]] Hg.
    destruct (sp_lci c Hr Hset Hc) as [j1 [e1 [L [Lje [Ed [Hpf [Hcm [LL [Hj1 Hcl]]]]]]]]].
    assert (Ecm1 : cmem e1 = mb_members c) by (unfold cmem; rewrite Ed; reflexivity).
    assert (Ecm2 : cmem ce = mb_members nc) by (unfold cmem; rewrite Hd; reflexivity).
    assert (HlL : (c0 <= length L)%nat) by (destruct Hcm as [_ [X _]]; lia).
    assert (AgL : forall m, (m <= length L)%nat -> agree L (L0 ++ [ce]) m).
    { intros m Hm. destruct Hpf as [x Hx]. unfold agree. rewrite Hx. rewrite <- app_assoc. rewrite firstn_app.
      replace (m - length L)%nat with 0%nat by lia. simpl. rewrite app_nil_r. reflexivity. }
    assert (Hf : firstn (length L0) (L0 ++ [ce]) = L0) by (rewrite firstn_app, firstn_all, Nat.sub_diag; simpl; apply app_nil_r).
    destruct (LogMatchM.g_tb_node _ _ _ _ GI i s Gs) as [TB _]. fold L0 in TB.
    assert (Hgn : NoDup (mb_members c)).
    { destruct (Hg j1 e1 (proj1 Lje)) as [_ [_ [_ X]]]. rewrite Ecm1 in X. exact X. }
    split; [| split; [| split]].
    - intros j1' e1' [H1 H1c] Hlt. rewrite nth_error_app1 in H1 by lia.
      assert (C1 : cat L0 j1' e1') by (split; assumption).
      pose proof (proj2 Lje _ _ C1) as Hle1.
      destruct (Nat.eq_dec j1' j1) as [E | E].
      + subst j1'. assert (e1' = e1) by (eapply cat_fun; [exact C1 | exact (proj1 Lje)]). subst e1'.
        exists (p_term (n_p s)), L, c0. split; [exact Hcm|]. split; [exact LL|]. split; [exact Hj1|]. split; [apply AgL; lia | lia].
      + destruct (Hg j1 e1 (proj1 Lje)) as [B _].
        destruct (B j1' e1' C1 ltac:(lia)) as [T'' [L'' [mi'' [X1 [X2 [X3 [X4 X5]]]]]]].
        exists T'', L'', mi''. split; [exact X1|]. split; [exact X2|]. split; [exact X3|]. split.
        * eapply agree_trans; [exact X4|]. unfold agree. rewrite firstn_app.
          pose proof (cat_len _ _ _ (proj1 Lje)). replace (S j1' - length L0)%nat with 0%nat by lia. simpl. rewrite app_nil_r. reflexivity.
        * unfold tbound in TB. rewrite Forall_forall in TB. pose proof (TB e1 (nth_error_In _ _ (proj1 (proj1 Lje)))) as Y. cbv beta in Y. lia.
    - intros _. exists j1, e1, L, c0. rewrite Hf. split; [exact Lje|]. split; [rewrite Hct; exact Hcm|]. split; [exact LL|].
      split; [exact Hcl | apply AgL; exact HlL].
    - intros j1' e1' H. rewrite Hf in H. destruct (latest_fun _ _ _ _ _ H Lje) as [_ Ee]. subst e1'. rewrite Ecm1, Ecm2.
      destruct Hshape as [[x [Hm Hx]] | [x [Hm Hx]]]; rewrite Hm.
      + left. split; [intros v Hv; apply in_or_app; left; exact Hv | rewrite app_length; simpl; lia].
      + right. split; [intros v Hv; apply filter_In in Hv; tauto | apply filter_one_length; auto].
    - rewrite Ecm2. destruct Hshape as [[x [Hm Hx]] | [x [Hm Hx]]]; rewrite Hm.
      + apply NoDup_app_intro; [exact Hgn | constructor; [intros [] | constructor] |]. intros v H1 [H2 | []]. subst v. contradiction.
      + apply NoDup_filter. exact Hgn.
  Qed.
  Lemma sp_good' : (n_role s' = Leader \/ (n_role s = Leader /\ T' = p_term (n_p s))) -> good G' A' L'.
  Proof.
    intro Hcond. intros j2 e2 H2. apply (goodAt_mono G G' A A'); [exact sp_inclG | exact sp_inclA |]. revert j2 e2 H2. fold (good G A L').
    destruct (classic_cond s s') as [[Hr Ht] | Hnew].
    - (* a continuing leader *)
      pose proof (LogMatchM.g_rec_leader _ _ _ _ GI i s Gs Hr) as Rs.
      pose proof (MS_good _ _ _ _ _ _ _ _ M _ _ _ Rs) as Hg0. fold L0 in Hg0.
      destruct (HSh Hr Ht) as [[es [E Hn]] | [ce [E Hc]]]; fold L' in E; rewrite E.
      + apply good_app_nonconf; assumption.
      + apply good_app_conf; [exact Hg0|]. apply sp_good_conf; assumption.
    - (* a newly elected leader holds the log it campaigned with *)
      assert (Hl : n_role s' = Leader) by (destruct Hcond as [X | X]; [exact X | contradiction]).
      assert (EL : L' = L0).
      { pose proof (v_lr _ _ _ _ _ _ _ _ _ NI) as N_lr. unfold LR in N_lr. cbv zeta in N_lr.
        change (p_log (n_p (with_budget (settle s) k))) with L0 in N_lr. fold L' in N_lr.
        change (n_role (with_budget (settle s) k)) with (n_role s) in N_lr.
        change (p_term (n_p (with_budget (settle s) k))) with (p_term (n_p s)) in N_lr.
        destruct N_lr as [X | [[X _] | [[X _] | [[X1 [X2 _]] | [X _]]]]]; try congruence.
        exfalso. apply Hnew. split; assumption. }
      rewrite EL. apply (lm_good _ _ _ _ _ _ _ _ L0 M). apply (LogMatchM.g_lm_node _ _ _ _ GI i s Gs).
  Qed.

  Lemma sp_good_records : forall T0 j l, In (T0, j, l) G' -> good G' A' l.
  Proof.
    intros T0 j l Hin. apply in_app_or in Hin. destruct Hin as [Hin | Hin].
    - intros j2 e2 H2. apply (goodAt_mono G G' A A'); [exact sp_inclG | exact sp_inclA |]. exact (MS_good _ _ _ _ _ _ _ _ M _ _ _ Hin j2 e2 H2).
    - apply in_rec_of in Hin. destruct Hin as [Er Cond]. inversion Er. apply sp_good'. exact Cond.
  Qed.
  (* ---------------------------------------------------------------- the invariant after the step *)
  Theorem MS_step_abs : MS bm be (σ', EC') G' A' CL' GR' GL'.
  Proof.
    destruct sp_ids as [Hid Gid].
    constructor; cbn [fst snd].
    - exact sp_EM'.
    - exact sp_W'.
    - intros j x Hx. destruct (sp_Gcase j x Hx) as [[_ E] | [_ E]].
      + subst x. exact Hctw'.
      + exact (ms_ct _ _ _ _ _ _ _ _ M j x E).
    - intros j x Hx. cbn [fst] in Hx. destruct (sp_Gcase j x Hx) as [[_ E] | [_ E]];
        [subst x; exact Hpk' | exact (ms_pk _ _ _ _ _ _ _ _ M j x E)].
    - exact sp_cp'.
    - exact sp_hr'.
    - exact sp_cn'.
    - exact sp_cm'.
    - intros T0 j l j1 e1 j2 e2 R H1 H2 Hlt. destruct (sp_good_records T0 j l R j2 e2 H2) as [B _]. exact (B j1 e1 H1 Hlt).
    - intros T0 j l j2 e2 R H2 Hj. destruct (sp_good_records T0 j l R j2 e2 H2) as [_ [F _]]. exact (F Hj).
    - intros T0 j l j2 e2 j1 e1 R H2 H1. destruct (sp_good_records T0 j l R j2 e2 H2) as [_ [_ [C _]]]. exact (C j1 e1 H1).
    - intros T0 j l j2 e2 R H2. destruct (sp_good_records T0 j l R j2 e2 H2) as [_ [_ [_ N0]]]. exact N0.
  Qed.
End StepV.
