(* Raft/NodeKeep.v — the handlers that never touch the durable term or vote ("keep" functions: everything a leader does,
   log replication and snapshot installation at a follower, commit, trim): they leave term, vote, node id and the
   candidate's vote set unchanged, keep the role or fall back to follower, and every message they emit is stamped with
   the (unchanged) durable term and the node's id and is not a granted vote. *)
From Coq Require Import List NArith ZArith Bool Lia.
From BLB Require Import Raft.Core Raft.NodeProofs.
Import ListNotations.
Open Scope N_scope.

Definition okmsg (s : node) (m : msg) : Prop :=
  m_term m = p_term (n_p s) /\ m_from m = n_id s /\ m_body m <> VoteResp true.

Definition keep (s s' : node) : Prop :=
  p_term (n_p s') = p_term (n_p s) /\ p_vote (n_p s') = p_vote (n_p s) /\ n_id s' = n_id s /\
  c_votes s' = c_votes s /\ (n_role s' = n_role s \/ n_role s' = Follower) /\
  exists new, n_msgs s' = n_msgs s ++ new /\ Forall (okmsg s) new.

Lemma okmsg_same s s' m :
  p_term (n_p s') = p_term (n_p s) -> n_id s' = n_id s -> okmsg s' m -> okmsg s m.
Proof. unfold okmsg. intros A B [C [D E]]. rewrite <- A, <- B. auto. Qed.

Lemma keep_refl s : keep s s.
Proof. unfold keep. repeat split; auto. exists []. rewrite app_nil_r. auto. Qed.

Lemma keep_trans a b c : keep a b -> keep b c -> keep a c.
Proof.
  unfold keep. intros [A1 [A2 [A3 [A4 [A5 [n1 [A6 A7]]]]]]] [B1 [B2 [B3 [B4 [B5 [n2 [B6 B7]]]]]]].
  repeat split; try congruence.
  - destruct B5 as [B5 | B5]; [rewrite B5; exact A5 | right; exact B5].
  - exists (n1 ++ n2). split; [rewrite B6, A6, app_assoc; reflexivity|].
    apply Forall_app. split; auto. eapply Forall_impl; [| exact B7]. intros m Hm. eapply okmsg_same; eauto.
Qed.

Lemma keep_vol s s' :
  n_p s' = n_p s -> n_id s' = n_id s -> c_votes s' = c_votes s ->
  (n_role s' = n_role s \/ n_role s' = Follower) -> n_msgs s' = n_msgs s -> keep s s'.
Proof.
  intros A B C D E. unfold keep. rewrite A. repeat split; auto. exists []. rewrite app_nil_r. auto.
Qed.

Lemma keep_send s to b : b <> VoteResp true -> keep s (send s to b).
Proof.
  intro H. unfold keep, send. simpl. repeat split; auto. eexists. split; [reflexivity|].
  constructor; [| constructor]. unfold okmsg. simpl. auto.
Qed.

Lemma keep_send_vol s s' to b :
  n_msgs s' = n_msgs (send s to b) -> b <> VoteResp true ->
  n_p s' = n_p s -> n_id s' = n_id s -> c_votes s' = c_votes s ->
  (n_role s' = n_role s \/ n_role s' = Follower) -> keep s s'.
Proof.
  intros M H A B C D. eapply keep_trans; [apply (keep_send s to b H)|].
  apply keep_vol; auto.
Qed.

Definition kx (s : node) (r : R node) : Prop := match r with Ret s' => keep s s' | _ => True end.
Definition kx2 (s : node) (r : R (N * node)) : Prop := match r with Ret (_, s') => keep s s' | _ => True end.

Lemma kx_bind s (a : R node) (f : node -> R node) :
  kx s a -> (forall s1, kx s1 (f s1)) -> kx s (bind a f).
Proof.
  intros Ha Hf. destruct a as [s1 | c | p]; simpl in *; auto.
  specialize (Hf s1). destruct (f s1); simpl in *; auto. eapply keep_trans; eauto.
Qed.

Lemma kx_bind_pure {A} s (a : R A) (f : A -> R node) :
  (forall x, a = Ret x -> kx s (f x)) -> kx s (bind a f).
Proof. intros Hf. destruct a; simpl in *; auto. Qed.

Lemma kx_pre s s' r : keep s s' -> kx s' r -> kx s r.
Proof. intros H K. destruct r; simpl in *; auto. eapply keep_trans; eauto. Qed.

Lemma kx2_bind s (a : R node) (f : node -> R (N * node)) :
  kx s a -> (forall s1, kx2 s1 (f s1)) -> kx2 s (bind a f).
Proof.
  intros Ha Hf. destruct a as [s1 | c | p]; simpl in *; auto.
  specialize (Hf s1). destruct (f s1) as [[st s2] | |]; simpl in *; auto. eapply keep_trans; eauto.
Qed.

Lemma kx2_bind_pure {A} s (a : R A) (f : A -> R (N * node)) :
  (forall x, a = Ret x -> kx2 s (f x)) -> kx2 s (bind a f).
Proof. intros Hf. destruct a; simpl in *; auto. Qed.

Lemma kx2_pre s s' r : keep s s' -> kx2 s' r -> kx2 s r.
Proof. intros H K. destruct r as [[st x] | |]; simpl in *; auto. eapply keep_trans; eauto. Qed.

Lemma kx2_of_kx s r st : kx s r -> kx2 s (s1 <- r ;; Ret (st, s1)).
Proof. destruct r; simpl; auto. Qed.

Ltac kvol := apply keep_vol; simpl; auto.
Ltac ksend := eapply keep_send_vol; [simpl; reflexivity | first [discriminate | eassumption] | simpl; auto ..].
Ltac kleaf := simpl; first [ solve [kvol] | solve [ksend] ].

Lemma kx_do_mut s m :
  match m with MSaveState _ _ | MSetVote _ => False | _ => True end -> kx s (do_mut m s).
Proof.
  intro H. unfold do_mut. destruct (negb (n_budget s =? 0) && (n_budget s =? n_cnt s + 1)); simpl; auto.
  unfold keep. simpl. destruct m; try contradiction; simpl; repeat split; auto; exists []; rewrite app_nil_r; auto.
Qed.

(* ---------------------------------------------------------------- handlers *)
Lemma kx_log_append s es : kx s (log_append s es).
Proof.
  unfold log_append. apply kx_bind; [apply kx_do_mut; exact I|].
  intros s1. destruct (snd (mem_append (p_log (n_p s)) es)); simpl; auto using keep_refl.
Qed.

Lemma kx_commit_up_to s i : kx s (commit_up_to s i).
Proof.
  unfold commit_up_to.
  match goal with |- kx s (match ?x with _ => _ end) => destruct x end.
  - destruct (negb (sn_index s0 =? i)); simpl; auto. kvol.
  - apply kx_bind_pure. intros ents _.
    match goal with |- kx s (if ?c then _ else _) => destruct c end; [| kleaf].
    match goal with |- kx s (match ?x with _ => _ end) => destruct x eqn:E end; simpl; auto.
    eapply kx_pre; [| apply kx_do_mut; exact I]. kvol.
Qed.

Lemma kx_trim_log s i : kx s (trim_log s i).
Proof.
  unfold trim_log. destruct (log_first (p_log (n_p s))); [| kleaf]. destruct (log_last (p_log (n_p s))); [| kleaf].
  destruct (i =? n - 1); [kleaf|]. destruct ((i <? n) || (n0 <? i)); simpl; auto.
  destruct (i - n <? cf_keep (n_cfg s)); [kleaf|]. apply kx_do_mut; exact I.
Qed.

Lemma get_app_ents_body s p b : get_app_ents s p = Ret (Some b) -> b <> VoteResp true.
Proof.
  unfold get_app_ents. destruct (negb (pr_next p =? pr_match p + 1)).
  - destruct (st_term (n_p s) (pr_next p - 1)) as [[pt ok] | |]; simpl; try discriminate.
    destruct (negb ok); intro E; inversion E; discriminate.
  - destruct (pr_match p =? last_index (n_p s)).
    + destruct (st_term (n_p s) (pr_match p)) as [[pt ok] | |]; simpl; try discriminate.
      destruct (negb ok); intro E; inversion E; discriminate.
    + destruct (get_log_entries (n_p s) (pr_match p + 1)
                  (N.min (last_index (n_p s) + 1) (pr_match p + 1 + cf_max_ents (n_cfg s)))) as [[[pt es] ok] | |];
        simpl; try discriminate.
      destruct (negb ok); intro E; inversion E; discriminate.
Qed.

Lemma kx_send_app_ents s p : kx s (send_app_ents s p).
Proof.
  unfold send_app_ents. apply kx_bind_pure. intros ob Hob.
  destruct ob as [b |].
  - apply get_app_ents_body in Hob. simpl. ksend.
  - destruct (p_snap (n_p s)); simpl; auto. destruct (sn_conf s0); simpl; auto. ksend.
Qed.

Lemma kx_for_peers ids f s :
  (forall s1 p, kx s1 (f s1 p)) -> kx s (for_peers ids f s).
Proof.
  intro Hf. revert s. induction ids as [| id r IH]; intros s; simpl.
  - apply keep_refl.
  - destruct (peer_get id (l_peers s)); auto. apply kx_bind; auto.
Qed.

Lemma kx_leader_commit_up_to s i : kx s (leader_commit_up_to s i).
Proof.
  unfold leader_commit_up_to. apply kx_bind; [apply kx_commit_up_to|]. intros s1.
  match goal with |- kx s1 (if ?c then _ else _) => destruct c end; kleaf.
Qed.

Lemma kx_leader_maybe_commit s : kx s (leader_maybe_commit s).
Proof.
  unfold leader_maybe_commit. apply kx_bind_pure. intros mi _.
  destruct (n_commit s <? mi); [| kleaf].
  apply kx_bind_pure. intros [t ok] _.
  destruct (negb ok); simpl; auto. destruct (negb (t =? p_term (n_p s))); [kleaf|].
  apply kx_bind; [apply kx_leader_commit_up_to|]. intros s1.
  apply kx_for_peers. intros s2 p. destruct (pr_match p =? last_index (n_p s2)); [apply kx_send_app_ents | kleaf].
Qed.

Lemma kx_fold_enter (others : list nid) li : forall (acc : R node) s,
  kx s acc ->
  kx s (fold_left (fun (acc : R node) (m : nid) =>
                     a <- acc ;;
                     let p := mk_peer m (li + 1) 0 false 0 0 in
                     let a1 := set_leader a (l_check a) (peer_set p (l_peers a)) in
                     send_app_ents a1 p) others acc).
Proof.
  induction others as [| m r IH]; intros acc s H; simpl; auto.
  apply IH. apply kx_bind; auto. intros s1.
  eapply kx_pre; [| apply kx_send_app_ents]. kvol.
Qed.

Lemma kx_enter_leader s : kx s (enter_leader s).
Proof.
  unfold enter_leader. destruct (n_conf s); simpl; auto.
  apply kx_bind.
  - apply kx_fold_enter. kleaf.
  - intros s1. destruct (l_peers s1); [apply kx_leader_maybe_commit | kleaf].
Qed.

Lemma kx_tick_leader s : kx s (tick_leader s).
Proof.
  unfold tick_leader. apply kx_bind.
  - apply kx_for_peers. intros s2 p. destruct (should_send s2 p); [apply kx_send_app_ents | kleaf].
  - intros s1.
    match goal with |- kx s1 (if ?c then _ else _) => destruct c end; [| kleaf].
    apply kx_bind_pure. intros ok _. destruct ok; kleaf.
Qed.

Lemma kx_handle_app_ents_resp s from su ix hi : kx s (handle_app_ents_resp s from su ix hi).
Proof.
  unfold handle_app_ents_resp. destruct (peer_get from (l_peers s)); [| kleaf].
  destruct (ix <? pr_match p); [kleaf|]. destruct (negb su).
  - eapply kx_pre; [| apply kx_send_app_ents]. kvol.
  - match goal with |- kx s (if ?c then _ else _) => destruct c end; simpl; auto.
    apply kx_bind.
    + match goal with |- kx s (if ?c then _ else _) => destruct c end.
      * eapply kx_pre; [| apply kx_send_app_ents]. kvol.
      * kleaf.
    + intros s2. apply kx_leader_maybe_commit.
Qed.

Lemma kx_leader_propose s es : kx s (leader_propose s es).
Proof.
  unfold leader_propose. apply kx_bind; [apply kx_log_append|]. intros s1.
  apply kx_bind.
  - apply kx_for_peers. intros s3 p.
    match goal with |- kx s3 (if ?c then _ else _) => destruct c end; [apply kx_send_app_ents | kleaf].
  - intros s2. destruct (l_peers s2); [apply kx_leader_maybe_commit | kleaf].
Qed.

Lemma kx2_leader_add_node s m rnd : kx2 s (leader_add_node s m rnd).
Proof.
  unfold leader_add_node. apply kx2_bind_pure. intros _ _.
  destruct (n_conf s); simpl; auto.
  destruct (memb m (mb_members m0)); [simpl; apply keep_refl|].
  destruct (negb (latest_conf_committed s)); [simpl; apply keep_refl|].
  eapply kx2_pre; [| apply kx2_of_kx; apply kx_leader_propose]. kvol.
Qed.

Lemma kx2_leader_remove_node s m : kx2 s (leader_remove_node s m).
Proof.
  unfold leader_remove_node. apply kx2_bind_pure. intros _ _.
  destruct (n_conf s); simpl; auto.
  destruct (negb (memb m (mb_members m0))); [simpl; apply keep_refl|].
  destruct (negb (latest_conf_committed s)); [simpl; apply keep_refl|].
  eapply kx2_pre; [| apply kx2_bind; [apply kx_leader_propose |]].
  - kvol.
  - intros s3. apply kx2_of_kx. apply kx_leader_maybe_commit.
Qed.

Lemma kx_handle_leader s m : kx s (handle_leader s m).
Proof.
  unfold handle_leader. destruct (m_body m).
  - exact I.
  - apply kx_handle_app_ents_resp.
  - kleaf.
  - kleaf.
  - exact I.
Qed.

Lemma kx_follower_maybe_commit s lc mi : kx s (follower_maybe_commit s lc mi).
Proof. unfold follower_maybe_commit. destruct (n_commit s <? N.min mi lc); [apply kx_commit_up_to | kleaf]. Qed.

Lemma fold_conf_keep (app : list entry) : forall s,
  keep s (fold_left (fun a e => if e_type e =? EntryConf then set_conf a (decode_conf e) else a) app s).
Proof.
  induction app as [| e r IH]; intros s; simpl; [apply keep_refl|].
  destruct (e_type e =? EntryConf); [| apply IH].
  eapply keep_trans; [| apply IH]. kvol.
Qed.

Lemma kx_handle_app_ents s from pi pt cm oes : kx s (handle_app_ents s from pi pt cm oes).
Proof.
  unfold handle_app_ents.
  eapply kx_pre with (s' := set_follower_contact s); [kvol|].
  set (s0 := set_follower_contact s).
  apply kx_bind_pure. intros ok _.
  destruct (negb ok); [kleaf|].
  destruct oes as [ents |].
  2: { eapply kx_pre; [| apply kx_follower_maybe_commit]. ksend. }
  apply kx_bind_pure. intros [ci any] _.
  apply kx_bind.
  - destruct any; [| kleaf]. apply kx_bind; [apply kx_do_mut; exact I|]. intros s'.
    destruct (n_conf s'); [| kleaf]. destruct (ci <=? mb_index m); kleaf.
  - intros s1.
    destruct (last_ent_index ents <=? last_index (n_p s1)).
    + eapply kx_pre; [| apply kx_follower_maybe_commit]. ksend.
    + destruct ents as [| e0 r]; simpl; auto.
      match goal with |- kx s1 (if ?c then _ else _) => destruct c end; simpl; auto.
      match goal with |- kx s1 (match ?x with _ => _ end) => destruct x as [| a0 ar] eqn:Eapp end; simpl; auto.
      match goal with |- kx s1 (if ?c then _ else _) => destruct c end; simpl; auto.
      match goal with |- kx s1 (bind (log_append ?x _) _) =>
        eapply kx_pre with (s' := x); [apply (fold_conf_keep (a0 :: ar) s1) |] end.
      apply kx_bind; [apply kx_log_append|]. intros s3.
      eapply kx_pre; [| apply kx_follower_maybe_commit]. ksend.
Qed.

Lemma kx_handle_snapshot s from li lt c : kx s (handle_snapshot s from li lt c).
Proof.
  unfold handle_snapshot.
  eapply kx_pre with (s' := set_follower_contact s); [kvol|].
  set (s0 := set_follower_contact s).
  match goal with |- kx s0 (match ?x with _ => _ end) => destruct x end; [kleaf|].
  apply kx_bind; [apply kx_do_mut; exact I|]. intros s1.
  apply kx_bind_pure. intros il _.
  apply kx_bind.
  - destruct il; [apply kx_trim_log|]. apply kx_bind; [apply kx_do_mut; exact I|]. intros; kleaf.
  - intros s2. apply kx_bind.
    + destruct (n_commit s2 <? li); [apply kx_commit_up_to | kleaf].
    + intros s3. kleaf.
Qed.

Lemma kx_snapshot_done s m : kx s (snapshot_done s m).
Proof.
  unfold snapshot_done.
  match goal with |- kx s (if ?c then _ else _) => destruct c end; [kleaf|].
  apply kx_bind; [apply kx_do_mut; exact I | intros; apply kx_trim_log].
Qed.

Lemma kx2_propose s es : kx2 s (propose s es).
Proof.
  unfold propose. destruct (n_role s); try (simpl; apply keep_refl).
  apply kx2_of_kx. apply kx_leader_propose.
Qed.

Lemma kx2_add_node s m rnd : kx2 s (add_node s m rnd).
Proof. unfold add_node. destruct (n_role s); try (simpl; apply keep_refl). apply kx2_leader_add_node. Qed.

Lemma kx2_remove_node s m : kx2 s (remove_node s m).
Proof. unfold remove_node. destruct (n_role s); try (simpl; apply keep_refl). apply kx2_leader_remove_node. Qed.
