(* Raft/MemberAbstract.v — round 7: the argument for election safety + leader completeness under single-server membership
   changes, as ONE induction on the term, over abstract per-state facts (ghost leader-log records G, acknowledgements A,
   candidacy logs CL, grants GR, and what the system invariants say about them).  No system, no steps here: the section
   hypotheses are exactly the invariants the system-level files have to supply.

   Part 1: lists — configuration entries of a log (0-based index j), the latest one, the first one at or after a
   position, longest common prefix. *)
From Coq Require Import List NArith ZArith Bool Lia ZifyN ZifyNat ZifyBool Arith.
From BLB Require Import Raft.Core Raft.LogMatchLists Raft.LogMatch Raft.CompletenessAck Raft.MembershipQuorum Raft.Election.
Import ListNotations.
Open Scope N_scope.

Definition isc (e : entry) : bool := e_type e =? EntryConf.
Definition cmem (e : entry) : list nid := match decode_conf e with Some c => mb_members c | None => [] end.

Definition cat (l : list entry) (j : nat) (e : entry) : Prop := nth_error l j = Some e /\ isc e = true.
Definition latest (l : list entry) (j : nat) (e : entry) : Prop := cat l j e /\ forall j' e', cat l j' e' -> (j' <= j)%nat.
Definition agree (l1 l2 : list entry) (m : nat) : Prop := firstn m l1 = firstn m l2.

Lemma agree_nth l1 l2 m j : agree l1 l2 m -> (j < m)%nat -> nth_error l1 j = nth_error l2 j.
Proof.
  intros H Hj. unfold agree in H.
  assert (X : nth_error (firstn m l1) j = nth_error (firstn m l2) j) by (rewrite H; reflexivity).
  rewrite !nth_error_firstn' in X. assert (Y : (j <? m)%nat = true) by (apply Nat.ltb_lt; lia). rewrite Y in X. exact X.
Qed.

Lemma agree_sym l1 l2 m : agree l1 l2 m -> agree l2 l1 m.
Proof. unfold agree. auto. Qed.

Lemma agree_le l1 l2 m m' : agree l1 l2 m -> (m' <= m)%nat -> agree l1 l2 m'.
Proof.
  unfold agree. intros H Hm. replace m' with (Nat.min m' m) by lia. rewrite <- !firstn_firstn. rewrite H. reflexivity.
Qed.

Lemma agree_trans l1 l2 l3 m : agree l1 l2 m -> agree l2 l3 m -> agree l1 l3 m.
Proof. unfold agree. congruence. Qed.

Lemma cat_agree l1 l2 m j e : agree l1 l2 m -> (j < m)%nat -> cat l1 j e -> cat l2 j e.
Proof. intros H Hj [A B]. split; [| exact B]. rewrite <- (agree_nth l1 l2 m j H Hj). exact A. Qed.

Lemma cat_fun l j e e' : cat l j e -> cat l j e' -> e = e'.
Proof. intros [A _] [B _]. congruence. Qed.

Lemma cat_len l j e : cat l j e -> (j < length l)%nat.
Proof. intros [A _]. apply nth_len in A. lia. Qed.

Lemma latest_fun l j e j' e' : latest l j e -> latest l j' e' -> j = j' /\ e = e'.
Proof.
  intros [A1 A2] [B1 B2]. pose proof (A2 _ _ B1). pose proof (B2 _ _ A1). assert (j = j') by lia. subst j'.
  split; [reflexivity | eapply cat_fun; eauto].
Qed.

Lemma cat_dec l j : (exists e, cat l j e) \/ (forall e, ~ cat l j e).
Proof.
  destruct (nth_error l j) as [e |] eqn:E.
  - destruct (isc e) eqn:Ec; [left; exists e; split; auto | right].
    intros e' [A B]. rewrite E in A. inversion A. subst. congruence.
  - right. intros e' [A _]. congruence.
Qed.

(* the first configuration entry at or after index p *)
Definition firstc (l : list entry) (p j : nat) (e : entry) : Prop :=
  cat l j e /\ (p <= j)%nat /\ forall j' e', cat l j' e' -> (p <= j')%nat -> (j <= j')%nat.

Lemma firstc_bounded l p n :
  (exists j e, firstc l p j e /\ (j < p + n)%nat) \/ (forall j e, cat l j e -> (p <= j)%nat -> (p + n <= j)%nat).
Proof.
  induction n as [| n IH].
  - right. intros j e _ H. lia.
  - destruct IH as [[j [e [H1 H2]]] | IH].
    + left. exists j, e. split; [exact H1 | lia].
    + destruct (cat_dec l (p + n)) as [[e He] | Hn].
      * left. exists (p + n)%nat, e. split; [| lia]. split; [exact He|]. split; [lia|].
        intros j' e' H' Hp. apply (IH j' e' H' Hp).
      * right. intros j e H Hp. pose proof (IH j e H Hp) as X.
        destruct (Nat.eq_dec j (p + n)) as [E | E]; [subst j; exfalso; exact (Hn e H) | lia].
Qed.

Lemma firstc_dec l p : (exists j e, firstc l p j e) \/ (forall j e, cat l j e -> (j < p)%nat).
Proof.
  destruct (firstc_bounded l p (length l)) as [[j [e [H _]]] | H].
  - left. eauto.
  - right. intros j e Hc. destruct (Nat.lt_ge_cases j p) as [X | X]; [exact X|].
    pose proof (H j e Hc X). apply cat_len in Hc. lia.
Qed.

Lemma latest_dec l : (exists j e, latest l j e) \/ (forall j e, ~ cat l j e).
Proof.
  induction l as [| x l IH] using rev_ind.
  - right. intros j e [A _]. destruct j; discriminate.
  - destruct (isc x) eqn:Ex.
    + left. exists (length l), x. split.
      * split; [| exact Ex]. rewrite nth_error_app2 by lia. rewrite Nat.sub_diag. reflexivity.
      * intros j' e' H. apply cat_len in H. rewrite app_length in H. simpl in H. lia.
    + destruct IH as [[j [e [H1 H2]]] | IH].
      * left. exists j, e. split.
        -- destruct H1 as [A B]. split; [| exact B]. rewrite nth_error_app1; [exact A|]. apply nth_len in A. lia.
        -- intros j' e' [A B]. destruct (Nat.lt_ge_cases j' (length l)) as [X | X].
           ++ apply (H2 j' e'). split; [| exact B]. rewrite nth_error_app1 in A by lia. exact A.
           ++ rewrite nth_error_app2 in A by lia. destruct (j' - length l)%nat; simpl in A; [| destruct n; discriminate].
              inversion A. subst. congruence.
      * right. intros j e [A B]. destruct (Nat.lt_ge_cases j (length l)) as [X | X].
        -- rewrite nth_error_app1 in A by lia. exact (IH j e (conj A B)).
        -- rewrite nth_error_app2 in A by lia. destruct (j - length l)%nat; simpl in A; [| destruct n; discriminate].
           inversion A. subst. congruence.
Qed.

(* ---------------------------------------------------------------- longest common prefix *)
Fixpoint lcp (a b : list entry) : nat :=
  match a, b with
  | x :: a', y :: b' => if entry_eq_dec x y then S (lcp a' b') else 0%nat
  | _, _ => 0%nat
  end.

Lemma lcp_agree a : forall b, agree a b (lcp a b).
Proof.
  unfold agree. induction a as [| x a' IH]; intros b; simpl; [destruct b; reflexivity|].
  destruct b as [| y b']; [reflexivity|]. destruct (entry_eq_dec x y) as [E | E]; [| reflexivity].
  simpl. rewrite E. f_equal. apply IH.
Qed.

Lemma lcp_le a : forall b, (lcp a b <= length a)%nat /\ (lcp a b <= length b)%nat.
Proof.
  induction a as [| x a' IH]; intros b; simpl; [lia|]. destruct b as [| y b']; simpl; [lia|].
  destruct (entry_eq_dec x y); [destruct (IH b'); simpl; lia | lia].
Qed.

Lemma lcp_max a : forall b m, agree a b m -> (m <= length a)%nat -> (m <= length b)%nat -> (m <= lcp a b)%nat.
Proof.
  unfold agree. induction a as [| x a' IH]; intros b m H Ha Hb; simpl in *; [lia|].
  destruct b as [| y b']; simpl in *; [lia|]. destruct m as [| m]; [lia|]. simpl in H. inversion H. subst y.
  destruct (entry_eq_dec x x) as [_ | N]; [| contradiction]. apply le_n_S. apply IH; auto; lia.
Qed.

Lemma lcp_stop a : forall b e1 e2, nth_error a (lcp a b) = Some e1 -> nth_error b (lcp a b) = Some e2 -> e1 <> e2.
Proof.
  induction a as [| x a' IH]; intros b e1 e2; simpl; [intro H; discriminate|].
  destruct b as [| y b']; [intros _ H; discriminate|]. destruct (entry_eq_dec x y) as [E | E].
  - simpl. apply IH.
  - simpl. intros H1 H2. inversion H1. inversion H2. subst. exact E.
Qed.

(* ---------------------------------------------------------------- Part 2: the per-state facts and the voter argument *)
From BLB Require Import Raft.CompletenessVote Raft.MemberVotes.

Definition maj (C : list nid) : N := N.of_nat (length C) / 2 + 1.
Definition nearl (C1 C2 : list nid) : Prop := C1 = C2 \/ adj C1 C2 \/ adj C2 C1.

Lemma nearl_meet C1 C2 Q1 Q2 :
  nearl C1 C2 -> NoDup Q1 -> NoDup Q2 -> incl Q1 C1 -> incl Q2 C2 ->
  maj C1 <= N.of_nat (length Q1) -> maj C2 <= N.of_nat (length Q2) -> exists v, In v Q1 /\ In v Q2.
Proof.
  unfold maj. intros [E | [[A1 A2] | [A1 A2]]] N1 N2 I1 I2 L1 L2.
  - subst C2. apply (pigeon Q1 Q2 C1 N1 N2 I1 I2). apply majority_arith; assumption.
  - apply (adjacent_quorums_intersect C1 C2 Q1 Q2); auto.
  - destruct (adjacent_quorums_intersect C2 C1 Q2 Q1) as [v [V1 V2]]; auto. exists v. auto.
Qed.

Lemma keeps_agree_m l L m : keeps l (firstn m L) -> (m <= length L)%nat -> agree l L m.
Proof.
  unfold keeps, agree. intros H Hm. rewrite firstn_length, Nat.min_l in H by lia. rewrite H.
  reflexivity.
Qed.

Lemma agree_keeps l L m : agree l L m -> keeps l (firstn m L).
Proof.
  unfold keeps, agree. intro H. rewrite firstn_length.
  destruct (Nat.le_ge_cases m (length L)) as [X | X].
  - rewrite Nat.min_l by lia. exact H.
  - rewrite Nat.min_r by lia. rewrite (firstn_all2 (n := m) L) in H by lia. rewrite (firstn_all2 (n := m) L) by lia.
    replace (firstn (length L) l) with (firstn (length L) (firstn m l)) by (rewrite firstn_firstn; f_equal; lia).
    rewrite H. apply firstn_all.
Qed.


Lemma cat_firstn m X j e : cat (firstn m X) j e <-> (cat X j e /\ (j < m)%nat).
Proof.
  unfold cat. rewrite nth_error_firstn'. destruct (j <? m)%nat eqn:E.
  - apply Nat.ltb_lt in E. tauto.
  - apply Nat.ltb_ge in E. split; [intros [X0 _]; discriminate | intros [_ X0]; lia].
Qed.

Lemma latest_firstn_in m Y j e : latest Y j e -> (j < m)%nat -> latest (firstn m Y) j e.
Proof.
  intros [H1 H2] Hj. split; [apply cat_firstn; auto|]. intros j' e' H'. apply cat_firstn in H'. apply (H2 j' e'). tauto.
Qed.

Lemma latest_firstn_firstc X p j1 e1 j e :
  firstc X p j1 e1 -> (latest (firstn j1 X) j e <-> latest (firstn p X) j e).
Proof.
  intros [F1 [F2 F3]]. split; intros [H1 H2].
  - apply cat_firstn in H1. destruct H1 as [H1 Hj].
    assert (Hp : (j < p)%nat).
    { destruct (Nat.lt_ge_cases j p) as [X0 | X0]; [exact X0|]. pose proof (F3 j e H1 X0). lia. }
    split; [apply cat_firstn; auto|]. intros j' e' H'. apply cat_firstn in H'. destruct H' as [H' Hj'].
    apply (H2 j' e'). apply cat_firstn. split; [exact H' | lia].
  - apply cat_firstn in H1. destruct H1 as [H1 Hj].
    split; [apply cat_firstn; split; [exact H1 | lia]|]. intros j' e' H'. apply cat_firstn in H'. destruct H' as [H' Hj'].
    destruct (Nat.lt_ge_cases j' p) as [X0 | X0].
    + apply (H2 j' e'). apply cat_firstn. auto.
    + pose proof (F3 j' e' H' X0). lia.
Qed.

Lemma latest_firstn_none X p j e :
  (forall j' e', cat X j' e' -> (j' < p)%nat) -> (latest X j e <-> latest (firstn p X) j e).
Proof.
  intros Hn. split; intros [H1 H2].
  - split; [apply cat_firstn; split; [exact H1 | eapply Hn; eauto]|].
    intros j' e' H'. apply cat_firstn in H'. apply (H2 j' e'). tauto.
  - apply cat_firstn in H1. destruct H1 as [H1 Hj]. split; [exact H1|].
    intros j' e' H'. apply (H2 j' e'). apply cat_firstn. split; [exact H' | eapply Hn; eauto].
Qed.

Lemma agree_latest X Y p j e : agree X Y p -> latest (firstn p X) j e -> latest (firstn p Y) j e.
Proof. unfold agree. intros H. rewrite H. auto. Qed.

Section Abstract.
  Variables (G : list lrec) (A : list ack) (CL : list cand) (GR : list grant) (CAST : list (nid * N * nid)).

  Hypothesis Hcmp : cmp_ok G.
  Hypothesis Hglm : forall T i l, In (T, i, l) G -> lm G l.
  Hypothesis Hgmono : forall T i l, In (T, i, l) G -> tmono l.
  Hypothesis Hg0 : forall U l, In (U, 0, l) G -> U <= 1.
  Hypothesis Hg1 : forall T i l, In (T, i, l) G -> 1 <= T.
  Hypothesis Hclm : forall c U lc, In (c, U, lc) CL -> lm G lc /\ (forall e, In e lc -> e_term e < U).
  Hypothesis Hcfun : forall c U l1 l2, In (c, U, l1) CL -> In (c, U, l2) CL -> l1 = l2.
  Hypothesis Hkrec : forall v T P, In (v, T, P) A -> P = [] \/ exists i lt, In (T, i, lt) G /\ pfx P lt.
  Hypothesis Hv1 : forall v U c, In (v, U, c) GR -> exists lc, In (c, U, lc) CL /\ v1_fact G A v U lc.
  Hypothesis Hcastfun : forall v U c1 c2, In (v, U, c1) CAST -> In (v, U, c2) CAST -> c1 = c2.

  (* an index was committed in term T by a leader whose log was L, under the configuration C = the latest one in L *)
  Definition cmr (T : N) (L : list entry) (mi : nat) (C : list nid) : Prop :=
    (exists iT, In (T, iT, L) G /\ iT <> 0) /\ (1 <= mi <= length L)%nat /\
    (exists e, nth_error L (mi - 1) = Some e /\ e_term e = T) /\
    (exists j e, latest L j e /\ C = cmem e) /\
    exists Q, NoDup Q /\ incl Q C /\ maj C <= N.of_nat (length Q) /\
              forall v, In v Q -> exists P, In (v, T, P) A /\ (mi <= length P)%nat.

  (* candidate c of term U, candidacy log lc, holds a quorum of grants under the latest configuration of lc *)
  Definition win (U : N) (c : nid) (lc : list entry) : Prop :=
    In (c, U, lc) CL /\
    exists j e Q, latest lc j e /\ NoDup Q /\ incl Q (cmem e) /\ maj (cmem e) <= N.of_nat (length Q) /\
                  forall v, In v Q -> In (v, U, c) GR /\ In (v, U, c) CAST.

  Hypothesis Hrecwin : forall U c l, In (U, c, l) G -> c <> 0 -> exists lc, win U c lc /\ pfx lc l.

  Lemma lm_agree X Y k e1 e2 :
    lm G X -> lm G Y -> nth_error X k = Some e1 -> nth_error Y k = Some e2 -> e_term e1 = e_term e2 -> agree X Y (S k).
  Proof. intros. unfold agree. eapply same_term_prefix; eauto. Qed.

  Lemma lm_tmono X : lm G X -> tmono X.
  Proof.
    intros HX k1 k2 e1 e2 Hk H1 H2. destruct (HX k2 e2 H2) as [i [l [Hr Hf]]].
    assert (A1 : nth_error l k1 = Some e1).
    { rewrite <- (agree_nth X l (S k2) k1 Hf ltac:(lia)). exact H1. }
    assert (A2 : nth_error l k2 = Some e2).
    { rewrite <- (agree_nth X l (S k2) k2 Hf ltac:(lia)). exact H2. }
    exact (Hgmono _ _ _ Hr k1 k2 e1 e2 Hk A1 A2).
  Qed.

  (* the voter argument: a node that acknowledged mi entries of L in term T and granted its term-U vote to c *)
  Lemma voter U c lc T L mi C v :
    In (c, U, lc) CL -> cmr T L mi C -> T < U ->
    (exists P, In (v, T, P) A /\ (mi <= length P)%nat) -> In (v, U, c) GR ->
    (forall U' j l', In (U', j, l') G -> T < U' -> U' < U -> keeps l' (firstn mi L)) ->
    keeps lc (firstn mi L).
  Proof.
    intros Hc [[iT [RT HiT]] [Hmi [[e [He Het]] _]]] HTU [P [HP HPl]] Hg IH.
    destruct (Hkrec _ _ _ HP) as [Pn | [iP [lP [RP PP]]]]; [subst P; simpl in HPl; lia|].
    pose proof (Hcmp _ _ _ _ _ RP RT) as Cm.
    assert (HlP : (mi <= length lP)%nat) by (destruct PP as [x Hx]; rewrite Hx, app_length; lia).
    assert (EP : firstn mi P = firstn mi L).
    { rewrite (pfx_firstn mi P lP PP HPl). apply comparable_firstn; auto. lia. }
    assert (Htp : tpos T P mi).
    { split; [lia|]. exists e. split; auto.
      assert (X : nth_error (firstn mi P) (mi - 1) = Some e).
      { rewrite EP. rewrite nth_error_firstn'. assert (Y : (mi - 1 <? mi)%nat = true) by (apply Nat.ltb_lt; lia). rewrite Y. exact He. }
      rewrite nth_error_firstn' in X. destruct (mi - 1 <? mi)%nat; [exact X | discriminate]. }
    destruct (Hv1 _ _ _ Hg) as [lc' [Xc' V1f]].
    rewrite (Hcfun _ _ _ _ Xc' Hc) in V1f.
    rewrite <- EP. destruct (V1f T P HP HTU mi Htp) as [K | [U' [j [l' [E1 [E2 [E3 E4]]]]]]].
    - exact K.
    - exfalso. apply E4. rewrite EP. apply (IH U' j l' E1 E2 E3).
  Qed.

  (* ---------------------------------------------------------------- the configuration invariants *)
  Variable boot : entry.
  Hypothesis Hgbound : forall T i l, In (T, i, l) G -> tbound T l.
  Hypothesis HbootG : forall T i l, In (T, i, l) G -> nth_error l 0 = Some boot.
  Hypothesis HbootC : forall c U lc, In (c, U, lc) CL -> lc <> [] -> nth_error lc 0 = Some boot.
  (* (b): every configuration entry that is not the last one of a leader log was committed under its own configuration *)
  Hypothesis HinvB : forall T i l j1 e1 j2 e2, In (T, i, l) G -> cat l j1 e1 -> cat l j2 e2 -> (j1 < j2)%nat ->
    exists T' L' mi', cmr T' L' mi' (cmem e1) /\ latest L' j1 e1 /\ (j1 < mi')%nat /\ agree L' l (S j1) /\ T' <= e_term e2.
  (* verifyNopCommitted: a configuration entry of term T2 sits above an entry of term T2 committed under the previous configuration *)
  Hypothesis HinvF : forall T i l j2 e2, In (T, i, l) G -> cat l j2 e2 -> (1 <= j2)%nat ->
    exists j1 e1 L2 i2, latest (firstn j2 l) j1 e1 /\ cmr (e_term e2) L2 i2 (cmem e1) /\ latest L2 j1 e1 /\
                        (i2 <= j2)%nat /\ agree L2 l i2.
  (* (a'): consecutive configurations differ by one member *)
  Hypothesis Hchain : forall T i l j2 e2 j1 e1, In (T, i, l) G -> cat l j2 e2 -> latest (firstn j2 l) j1 e1 ->
    adj (cmem e1) (cmem e2) \/ adj (cmem e2) (cmem e1).

  Lemma lm_rec X j e : lm G X -> nth_error X j = Some e -> exists i l, In (e_term e, i, l) G /\ agree X l (S j).
  Proof. intros HX H. destruct (HX j e H) as [i [l [A1 A2]]]. exists i, l. auto. Qed.

  Lemma invB_lm X j1 e1 j2 e2 : lm G X -> cat X j1 e1 -> cat X j2 e2 -> (j1 < j2)%nat ->
    exists T' L' mi', cmr T' L' mi' (cmem e1) /\ latest L' j1 e1 /\ (j1 < mi')%nat /\ agree L' X (S j1) /\ T' <= e_term e2.
  Proof.
    intros HX H1 H2 Hj. destruct (lm_rec X j2 e2 HX (proj1 H2)) as [i [l [R Ag]]].
    assert (C1 : cat l j1 e1) by (eapply cat_agree; [exact Ag | lia | exact H1]).
    assert (C2 : cat l j2 e2) by (eapply cat_agree; [exact Ag | lia | exact H2]).
    destruct (HinvB _ _ _ _ _ _ _ R C1 C2 Hj) as [T' [L' [mi' [X1 [X2 [X3 [X4 X5]]]]]]].
    exists T', L', mi'. split; [exact X1|]. split; [exact X2|]. split; [exact X3|]. split; [| exact X5].
    eapply agree_trans; [exact X4|]. apply agree_sym. eapply agree_le; [exact Ag | lia].
  Qed.

  Lemma invF_lm X j2 e2 : lm G X -> cat X j2 e2 -> (1 <= j2)%nat ->
    exists j1 e1 L2 i2, latest (firstn j2 X) j1 e1 /\ cmr (e_term e2) L2 i2 (cmem e1) /\ latest L2 j1 e1 /\
                        (i2 <= j2)%nat /\ agree L2 X i2 /\ (adj (cmem e1) (cmem e2) \/ adj (cmem e2) (cmem e1)).
  Proof.
    intros HX H2 Hj. destruct (lm_rec X j2 e2 HX (proj1 H2)) as [i [l [R Ag]]].
    assert (C2 : cat l j2 e2) by (eapply cat_agree; [exact Ag | lia | exact H2]).
    destruct (HinvF _ _ _ _ _ R C2 Hj) as [j1 [e1 [L2 [i2 [X1 [X2 [X3 [X4 X5]]]]]]]].
    exists j1, e1, L2, i2.
    assert (Ej : firstn j2 X = firstn j2 l) by (eapply agree_le; [exact Ag | lia]).
    split; [rewrite Ej; exact X1|]. split; [exact X2|]. split; [exact X3|]. split; [exact X4|]. split.
    - eapply agree_trans; [exact X5|]. apply agree_sym. eapply agree_le; [exact Ag | lia].
    - exact (Hchain _ _ _ _ _ _ _ R C2 X1).
  Qed.

  (* ---------------------------------------------------------------- leader completeness, one later term at a time *)
  Section Later.
    Variable U : N.
    Hypothesis IH : forall U', U' < U -> forall T L mi C, cmr T L mi C -> T < U' -> forall c lc, win U' c lc -> keeps lc (firstn mi L).

    Lemma IHrec T' L' mi' C' : cmr T' L' mi' C' ->
      forall U' j l', In (U', j, l') G -> T' < U' -> U' < U -> keeps l' (firstn mi' L').
    Proof.
      intros Hcm U' j l' R H1 H2.
      assert (Hj : j <> 0).
      { intro Z. subst j. pose proof (Hg0 _ _ R). destruct Hcm as [[iT [RT _]] _]. pose proof (Hg1 _ _ _ RT). lia. }
      destruct (Hrecwin _ _ _ R Hj) as [lc [W P]].
      eapply keeps_pfx; [exact P|]. exact (IH U' H2 _ _ _ _ Hcm H1 _ _ W).
    Qed.

    Lemma via_quorum T L mi C c lc j e :
      cmr T L mi C -> T < U -> win U c lc -> latest lc j e -> nearl C (cmem e) -> keeps lc (firstn mi L).
    Proof.
      intros Hcm HT [Hc [j' [e' [Q2 [La [N2 [I2 [M2 G2]]]]]]]] Hl Hn.
      destruct (latest_fun _ _ _ _ _ La Hl) as [_ Ee]. subst e'.
      pose proof Hcm as [_ [_ [_ [_ [Q [N1 [I1 [M1 A1]]]]]]]].
      destruct (nearl_meet C (cmem e) Q Q2 Hn N1 N2 I1 I2 M1 M2) as [v [V1 V2]].
      exact (voter U c lc T L mi C v Hc Hcm HT (A1 v V1) (proj1 (G2 v V2)) (IHrec _ _ _ _ Hcm)).
    Qed.

    Section One.
      Variables (T : N) (L : list entry) (mi : nat) (C : list nid).
      Hypothesis Hcm : cmr T L mi C.
      Hypothesis HTU : T < U.
      Variables (c : nid) (lc : list entry) (jv : nat) (ev : entry).
      Hypothesis Hc : In (c, U, lc) CL.
      Hypothesis Lev : latest lc jv ev.
      (* what the quorum argument gives for this candidate, and what is known about the records of earlier terms *)
      Hypothesis VQ : forall T0 L0 mi0 C0, cmr T0 L0 mi0 C0 -> T0 < U -> nearl C0 (cmem ev) -> keeps lc (firstn mi0 L0).
      Hypothesis REC : forall T' L' mi' C', cmr T' L' mi' C' ->
                         forall U' j l', In (U', j, l') G -> T' < U' -> U' < U -> keeps l' (firstn mi' L').
      Hypothesis Hp : (lcp lc L < mi)%nat.

      (* a committed prefix that agrees with lc beyond the common prefix of lc and L: impossible *)
      Lemma beyond T' L' mi' C' m' :
        cmr T' L' mi' C' -> T' < U -> (m' <= mi')%nat -> agree L' lc m' -> (lcp lc L < m')%nat -> (m' <= length lc)%nat -> False.
      Proof.
        intros Hcm' HT' Hm Ag Hlt Hlen.
        pose proof Hcm as [[iT [RT HiT]] [HmiL _]]. pose proof Hcm' as [[iT' [RT' HiT']] [HmiL' _]].
        destruct (N.lt_trichotomy T' T) as [X | [X | X]].
        - pose proof (REC _ _ _ _ Hcm' _ _ _ RT X HTU) as K.
          pose proof (keeps_len _ _ K) as Kl. rewrite firstn_length, Nat.min_l in Kl by lia.
          apply keeps_agree_m in K; [| lia].
          assert (A2 : agree lc L m').
          { eapply agree_trans; [apply agree_sym; exact Ag|]. apply agree_sym. eapply agree_le; [exact K | lia]. }
          pose proof (lcp_max lc L m' A2 Hlen ltac:(lia)). lia.
        - subst T'. pose proof (Hcmp _ _ _ _ _ RT' RT) as Cm.
          destruct (Nat.le_gt_cases m' (length L)) as [Y | Y].
          + assert (A1 : agree L' L m') by (apply comparable_firstn; auto; lia).
            assert (A2 : agree lc L m') by (eapply agree_trans; [apply agree_sym; exact Ag | exact A1]).
            pose proof (lcp_max lc L m' A2 Hlen Y). lia.
          + assert (A1 : agree L' L (length L)) by (apply comparable_firstn; auto; lia).
            assert (A2 : agree lc L (length L)).
            { eapply agree_trans; [apply agree_sym; eapply agree_le; [exact Ag | lia] | exact A1]. }
            pose proof (lcp_max lc L (length L) A2 ltac:(lia) ltac:(lia)). lia.
        - pose proof (REC _ _ _ _ Hcm _ _ _ RT' X HT') as K.
          apply keeps_agree_m in K; [| lia].
          set (m := Nat.min mi m').
          assert (A2 : agree lc L m).
          { eapply agree_trans; [apply agree_sym; eapply agree_le; [exact Ag | unfold m; lia] | eapply agree_le; [exact K | unfold m; lia]]. }
          pose proof (lcp_max lc L m A2 ltac:(unfold m; lia) ltac:(unfold m; lia)). unfold m in *. lia.
      Qed.

      Lemma agree1 (X Y : list entry) b : nth_error X 0 = Some b -> nth_error Y 0 = Some b -> agree X Y 1.
      Proof. unfold agree. destruct X, Y; simpl; try discriminate. intros H1 H2. congruence. Qed.

      Lemma adj_nearl C1 C2 : adj C1 C2 \/ adj C2 C1 -> nearl C1 C2.
      Proof. intro H. right. exact H. Qed.

      Lemma adj_nearl' C1 C2 : adj C1 C2 \/ adj C2 C1 -> nearl C2 C1.
      Proof. intro H. right. tauto. Qed.

      Lemma one_false : False.
      Proof.
        pose proof Hcm as [[iT [RT HiT]] [HmiL [_ [[ja [ea [Lea EC]]] _]]]].
        destruct (Hclm _ _ _ Hc) as [Hlm Hlt].
        pose proof (Hglm _ _ _ RT) as HLlm. pose proof (Hgmono _ _ _ RT) as HLmono. pose proof (lm_tmono _ Hlm) as Hlmono.
        pose proof (lcp_agree lc L) as Agp. destruct (lcp_le lc L) as [Pl1 Pl2].
        set (p := lcp lc L) in *.
        assert (kq : keeps lc (firstn mi L) -> False).
        { intro K. pose proof (keeps_len _ _ K) as Kl. rewrite firstn_length, Nat.min_l in Kl by lia.
          apply keeps_agree_m in K; [| lia]. pose proof (lcp_max lc L mi K Kl ltac:(lia)). fold p in H. lia. }
        pose proof (cat_len _ _ _ (proj1 Lev)) as Hjv.
        assert (Hp1 : (1 <= p)%nat).
        { assert (Hne : lc <> []) by (intro Z; subst lc; simpl in Hjv; lia).
          apply (lcp_max lc L 1); [| lia | lia]. eapply agree1; [apply (HbootC _ _ _ Hc Hne) | apply (HbootG _ _ _ RT)]. }
        assert (HboundL : forall j e, nth_error L j = Some e -> e_term e <= T).
        { intros j e H. pose proof (Hgbound _ _ _ RT) as B. unfold tbound in B. rewrite Forall_forall in B. apply B.
          eapply nth_error_In; eauto. }
        assert (Hboundl : forall j e, nth_error lc j = Some e -> e_term e < U).
        { intros j e H. apply Hlt. eapply nth_error_In; eauto. }
        destruct (Nat.lt_ge_cases jv p) as [HA | HB].
        - (* the candidate's configuration lies in the common prefix *)
          assert (CLv : cat L jv ev) by (eapply cat_agree; [exact Agp | exact HA | exact (proj1 Lev)]).
          pose proof (proj2 Lea _ _ CLv) as Hja.
          destruct (Nat.eq_dec ja jv) as [E | E].
          + subst ja. assert (ea = ev) by (eapply cat_fun; [exact (proj1 Lea) | exact CLv]). subst ea.
            apply kq. apply (VQ _ _ _ _ Hcm HTU). left. exact EC.
          + assert (Hjap : (p <= ja)%nat).
            { destruct (Nat.lt_ge_cases ja p) as [X | X]; [| exact X]. exfalso.
              assert (Y : cat lc ja ea) by (eapply cat_agree; [apply agree_sym; exact Agp | exact X | exact (proj1 Lea)]).
              pose proof (proj2 Lev _ _ Y). lia. }
            destruct (firstc_dec L p) as [[j1 [e1 F]] | Hn]; [| pose proof (Hn _ _ (proj1 Lea)); lia].
            pose proof F as [F1 [F2 F3]]. pose proof (F3 _ _ (proj1 Lea) Hjap) as Hj1.
            assert (Pv : latest (firstn j1 L) jv ev).
            { apply (latest_firstn_firstc L p j1 e1 jv ev F). eapply agree_latest; [exact Agp|]. apply latest_firstn_in; auto. }
            pose proof (Hchain _ _ _ _ _ _ _ RT F1 Pv) as Ch.
            destruct (Nat.eq_dec j1 ja) as [E1 | E1].
            * subst j1. assert (e1 = ea) by (eapply cat_fun; [exact F1 | exact (proj1 Lea)]). subst e1.
              apply kq. apply (VQ _ _ _ _ Hcm HTU). subst C. apply adj_nearl'. exact Ch.
            * destruct (HinvB _ _ _ _ _ _ _ RT F1 (proj1 Lea) ltac:(lia)) as [T' [L' [mi' [X1 [X2 [X3 [X4 X5]]]]]]].
              pose proof (HboundL _ _ (proj1 (proj1 Lea))) as Hb.
              assert (K : keeps lc (firstn mi' L')).
              { apply (VQ _ _ _ _ X1 ltac:(lia)). apply adj_nearl'. exact Ch. }
              pose proof X1 as [_ [Hm' _]].
              pose proof (keeps_len _ _ K) as Kl. rewrite firstn_length, Nat.min_l in Kl by lia.
              apply keeps_agree_m in K; [| lia].
              assert (A2 : agree lc L (S j1)).
              { eapply agree_trans; [eapply agree_le; [exact K | lia] | exact X4]. }
              pose proof (cat_len _ _ _ F1).
              pose proof (lcp_max lc L (S j1) A2 ltac:(lia) ltac:(lia)). fold p in H0. lia.
        - (* the candidate's configuration lies beyond the common prefix *)
          destruct (firstc_dec lc p) as [[j1' [e1' F']] | Hn]; [| pose proof (Hn _ _ (proj1 Lev)); lia].
          pose proof F' as [F1' [F2' F3']]. pose proof (F3' _ _ (proj1 Lev) HB) as Hj1'.
          destruct (Nat.eq_dec j1' jv) as [E | E].
          + subst j1'. assert (e1' = ev) by (eapply cat_fun; [exact F1' | exact (proj1 Lev)]). subst e1'.
            destruct (invF_lm lc jv ev Hlm (proj1 Lev) ltac:(lia)) as [jj [ej [La [ia [X1 [X2 [X3 [X4 [X5 X6]]]]]]]]].
            pose proof (Hboundl _ _ (proj1 (proj1 Lev))) as HTa.
            assert (Pj : latest (firstn p L) jj ej).
            { eapply agree_latest; [exact Agp|]. apply (latest_firstn_firstc lc p jv ev jj ej F'). exact X1. }
            destruct (firstc_dec L p) as [[j1 [e1 F]] | Hn].
            * pose proof F as [F1 [F2 F3]].
              destruct (HinvF _ _ _ _ _ RT F1 ltac:(lia)) as [jj' [ej' [L2 [i2 [Y1 [Y2 [Y3 [Y4 Y5]]]]]]]].
              assert (Pj' : latest (firstn p L) jj' ej') by (apply (latest_firstn_firstc L p j1 e1 jj' ej' F); exact Y1).
              destruct (latest_fun _ _ _ _ _ Pj' Pj) as [Ej Ee]. subst jj' ej'.
              pose proof (HboundL _ _ (proj1 F1)) as HT2.
              pose proof (cat_len _ _ _ F1) as Hj1L.
              destruct (Nat.lt_ge_cases p i2) as [Hi2 | Hi2].
              -- assert (K : keeps lc (firstn i2 L2)).
                 { apply (VQ _ _ _ _ Y2 ltac:(lia)). apply adj_nearl. exact X6. }
                 pose proof Y2 as [_ [Hm2 _]].
                 pose proof (keeps_len _ _ K) as Kl. rewrite firstn_length, Nat.min_l in Kl by lia.
                 apply keeps_agree_m in K; [| lia].
                 assert (A2 : agree lc L i2) by (eapply agree_trans; [exact K | exact Y5]).
                 pose proof (lcp_max lc L i2 A2 ltac:(lia) ltac:(lia)). fold p in H. lia.
              -- pose proof Y2 as [_ [Hm2 [[e2 [He2 He2t]] _]]].
                 assert (L2a : nth_error L (i2 - 1) = Some e2).
                 { rewrite <- (agree_nth L2 L i2 (i2 - 1) Y5 ltac:(lia)). exact He2. }
                 destruct (nth_error L p) as [eL |] eqn:EL; [| apply nth_error_None in EL; lia].
                 destruct (nth_error lc p) as [el |] eqn:El; [| apply nth_error_None in El; lia].
                 assert (lca : nth_error lc (i2 - 1) = Some e2).
                 { rewrite (agree_nth lc L p (i2 - 1) Agp ltac:(lia)). exact L2a. }
                 pose proof (HLmono (i2 - 1)%nat p e2 eL ltac:(lia) L2a EL) as M1.
                 pose proof (HLmono p j1 eL e1 F2 EL (proj1 F1)) as M2.
                 pose proof (Hlmono (i2 - 1)%nat p e2 el ltac:(lia) lca El) as M3.
                 pose proof (Hlmono p jv el ev HB El (proj1 (proj1 Lev))) as M4.
                 destruct (N.eq_dec (e_term el) (e_term eL)) as [Et | Et].
                 { pose proof (lm_agree lc L p el eL Hlm HLlm El EL Et) as A2.
                   pose proof (lcp_max lc L (S p) A2 ltac:(lia) ltac:(lia)). fold p in H. lia. }
                 pose proof X2 as [_ [Hma [[ea' [Hea' Hea't]] _]]].
                 assert (Hia : (p < ia)%nat).
                 { destruct (Nat.lt_ge_cases p ia) as [X | X]; [exact X|]. exfalso.
                   assert (Z1 : nth_error lc (ia - 1) = Some ea').
                   { rewrite <- (agree_nth La lc ia (ia - 1) X5 ltac:(lia)). exact Hea'. }
                   assert (Z2 : nth_error L (ia - 1) = Some ea').
                   { rewrite <- (agree_nth lc L p (ia - 1) Agp ltac:(lia)). exact Z1. }
                   pose proof (HLmono (ia - 1)%nat j1 ea' e1 ltac:(lia) Z2 (proj1 F1)). lia. }
                 exact (beyond _ _ _ _ ia X2 HTa ltac:(lia) X5 Hia ltac:(lia)).
            * apply kq. apply (VQ _ _ _ _ Hcm HTU).
              assert (Pa : latest (firstn p L) ja ea) by (apply (latest_firstn_none L p ja ea Hn); exact Lea).
              destruct (latest_fun _ _ _ _ _ Pa Pj) as [_ Ee]. subst ea C. apply adj_nearl. exact X6.
          + destruct (invB_lm lc j1' e1' jv ev Hlm F1' (proj1 Lev) ltac:(lia)) as [T' [L' [mi' [X1 [X2 [X3 [X4 X5]]]]]]].
            pose proof (Hboundl _ _ (proj1 (proj1 Lev))) as HTa.
            exact (beyond _ _ _ _ (S j1') X1 ltac:(lia) ltac:(lia) X4 ltac:(fold p; lia) ltac:(lia)).
      Qed.
    End One.
    Lemma later_step T L mi C : cmr T L mi C -> T < U -> forall c lc, win U c lc -> keeps lc (firstn mi L).
    Proof.
      intros Hcm HT c lc Hw. destruct (Nat.le_gt_cases mi (lcp lc L)) as [H | H].
      - apply agree_keeps. eapply agree_le; [apply lcp_agree | exact H].
      - exfalso. pose proof Hw as [Hc [jv [ev [Q2 [Lev _]]]]].
        apply (one_false T L mi C Hcm HT c lc jv ev Hc Lev); [| exact IHrec | exact H].
        intros T0 L0 mi0 C0 H0 HT0 Hn. exact (via_quorum T0 L0 mi0 C0 c lc jv ev H0 HT0 Hw Lev Hn).
    Qed.
  End Later.

  (* leader completeness for every candidate that holds a quorum of grants under the configuration of its log *)
  Theorem lcv : forall U T L mi C, cmr T L mi C -> T < U -> forall c lc, win U c lc -> keeps lc (firstn mi L).
  Proof.
    intro U. induction U as [U IH] using (well_founded_induction N.lt_wf_0). intros T L mi C Hcm HT c lc Hw.
    eapply later_step; eauto.
  Qed.

  Corollary lc_records U c l T L mi C : cmr T L mi C -> In (U, c, l) G -> T < U -> keeps l (firstn mi L).
  Proof.
    intros Hcm R HT.
    assert (Hj : c <> 0).
    { intro Z. subst c. pose proof (Hg0 _ _ R). destruct Hcm as [[iT [RT _]] _]. pose proof (Hg1 _ _ _ RT). lia. }
    destruct (Hrecwin _ _ _ R Hj) as [lc [W P]]. eapply keeps_pfx; [exact P|]. eapply lcv; eauto.
  Qed.
  (* ---------------------------------------------------------------- grants given after a leader of the term was recorded *)
  Variable GL : list grant.
  Definition v1_late (v : nid) (U : N) (lc : list entry) : Prop :=
    forall T P, In (v, T, P) A -> T < U -> forall kk, tpos T P kk -> keeps lc (firstn kk P) \/ escapes G T U (firstn kk P).
  Hypothesis Hvl : forall v U c, In (v, U, c) GL -> exists lc, In (c, U, lc) CL /\ v1_late v U lc.

  Definition winl (U : N) (c : nid) (lc : list entry) : Prop :=
    In (c, U, lc) CL /\
    exists j e Q, latest lc j e /\ NoDup Q /\ incl Q (cmem e) /\ maj (cmem e) <= N.of_nat (length Q) /\
                  forall v, In v Q -> (In (v, U, c) GR \/ In (v, U, c) GL) /\ In (v, U, c) CAST.

  Lemma win_winl U c lc : win U c lc -> winl U c lc.
  Proof.
    intros [Hc [j [e [Q [H1 [H2 [H3 [H4 H5]]]]]]]]. split; [exact Hc|]. exists j, e, Q.
    split; [exact H1|]. split; [exact H2|]. split; [exact H3|]. split; [exact H4|]. intros v Hv. destruct (H5 v Hv) as [X Y]. split; [left; exact X | exact Y].
  Qed.

  Lemma voter_l U c lc T L mi C v :
    In (c, U, lc) CL -> cmr T L mi C -> T < U ->
    (exists P, In (v, T, P) A /\ (mi <= length P)%nat) -> In (v, U, c) GL -> keeps lc (firstn mi L).
  Proof.
    intros Hc Hcm HTU [P [HP HPl]] Hg. pose proof Hcm as [[iT [RT HiT]] [Hmi [[e [He Het]] _]]].
    destruct (Hkrec _ _ _ HP) as [Pn | [iP [lP [RP PP]]]]; [subst P; simpl in HPl; lia|].
    pose proof (Hcmp _ _ _ _ _ RP RT) as Cm.
    assert (HlP : (mi <= length lP)%nat) by (destruct PP as [x Hx]; rewrite Hx, app_length; lia).
    assert (EP : firstn mi P = firstn mi L).
    { rewrite (pfx_firstn mi P lP PP HPl). apply comparable_firstn; auto. lia. }
    assert (Htp : tpos T P mi).
    { split; [lia|]. exists e. split; auto.
      assert (X : nth_error (firstn mi P) (mi - 1) = Some e).
      { rewrite EP. rewrite nth_error_firstn'. assert (Y : (mi - 1 <? mi)%nat = true) by (apply Nat.ltb_lt; lia). rewrite Y. exact He. }
      rewrite nth_error_firstn' in X. destruct (mi - 1 <? mi)%nat; [exact X | discriminate]. }
    destruct (Hvl _ _ _ Hg) as [lc' [Xc' V1f]].
    rewrite (Hcfun _ _ _ _ Xc' Hc) in V1f.
    rewrite <- EP. destruct (V1f T P HP HTU mi Htp) as [K | [U' [j [l' [E1 [E2 [E3 E4]]]]]]].
    - exact K.
    - exfalso. apply E4. rewrite EP. exact (lc_records U' j l' T L mi C Hcm E1 E2).
  Qed.

  Lemma via_quorum_l U T L mi C c lc j e :
    cmr T L mi C -> T < U -> winl U c lc -> latest lc j e -> nearl C (cmem e) -> keeps lc (firstn mi L).
  Proof.
    intros Hcm HT [Hc [j' [e' [Q2 [La [N2 [I2 [M2 G2]]]]]]]] Hl Hn.
    destruct (latest_fun _ _ _ _ _ La Hl) as [_ Ee]. subst e'.
    pose proof Hcm as [_ [_ [_ [_ [Q [N1 [I1 [M1 A1]]]]]]]].
    destruct (nearl_meet C (cmem e) Q Q2 Hn N1 N2 I1 I2 M1 M2) as [v [V1 V2]].
    destruct (G2 v V2) as [[Gs | Gl] _].
    - apply (voter U c lc T L mi C v Hc Hcm HT (A1 v V1) Gs).
      intros U' j0 l' R H1 _. exact (lc_records U' j0 l' T L mi C Hcm R H1).
    - exact (voter_l U c lc T L mi C v Hc Hcm HT (A1 v V1) Gl).
  Qed.

  (* leader completeness for every candidate with a quorum of grants, early or late *)
  Theorem lcv_l U T L mi C : cmr T L mi C -> T < U -> forall c lc, winl U c lc -> keeps lc (firstn mi L).
  Proof.
    intros Hcm HT c lc Hw. destruct (Nat.le_gt_cases mi (lcp lc L)) as [H | H].
    - apply agree_keeps. eapply agree_le; [apply lcp_agree | exact H].
    - exfalso. pose proof Hw as [Hc [jv [ev [Q2 [Lev _]]]]].
      apply (one_false U (fun U' _ => lcv U') T L mi C Hcm HT c lc jv ev Hc Lev); [| | exact H].
      + intros T0 L0 mi0 C0 H0 HT0 Hn. exact (via_quorum_l U T0 L0 mi0 C0 c lc jv ev H0 HT0 Hw Lev Hn).
      + intros T' L' mi' C' H' U' j l' R H1 _. exact (lc_records U' j l' T' L' mi' C' H' R H1).
  Qed.

  (* ---------------------------------------------------------------- election safety: two winners of one term *)
  Definition maxp (X Y : list entry) (p : nat) : Prop :=
    agree X Y p /\ (p <= length X)%nat /\ (p <= length Y)%nat /\
    forall m, agree X Y m -> (m <= length X)%nat -> (m <= length Y)%nat -> (m <= p)%nat.

  Lemma maxp_lcp X Y : maxp X Y (lcp X Y).
  Proof.
    destruct (lcp_le X Y). split; [apply lcp_agree|]. split; [lia|]. split; [lia|]. intros m H1 H2 H3. apply lcp_max; auto.
  Qed.

  Lemma maxp_sym X Y p : maxp X Y p -> maxp Y X p.
  Proof.
    intros [A1 [A2 [A3 A4]]]. split; [apply agree_sym; exact A1|]. split; [exact A3|]. split; [exact A2|].
    intros m H1 H2 H3. apply A4; auto. apply agree_sym. exact H1.
  Qed.

  Section Two.
    Variable U : N.

    Lemma win_facts x X : winl U x X ->
      lm G X /\ tmono X /\ (forall j e, nth_error X j = Some e -> e_term e < U) /\ In (x, U, X) CL.
    Proof.
      intros [Hc _]. destruct (Hclm _ _ _ Hc) as [H1 H2]. split; [exact H1|]. split; [apply lm_tmono; exact H1|].
      split; [| exact Hc]. intros j e H. apply H2. eapply nth_error_In; eauto.
    Qed.

    (* Y has two configuration entries at or after the common prefix: the first one is committed, so X holds it *)
    Lemma second_conf_false x X y Y p j1 e1 j2 e2 :
      winl U x X -> winl U y Y -> maxp X Y p -> cat Y j1 e1 -> cat Y j2 e2 -> (p <= j1)%nat -> (j1 < j2)%nat -> False.
    Proof.
      intros Wx Wy [M1 [M2 [M3 M4]]] C1 C2 Hp Hj.
      destruct (win_facts _ _ Wy) as [Ylm [_ [Yb _]]].
      destruct (invB_lm Y j1 e1 j2 e2 Ylm C1 C2 Hj) as [T' [L' [mi' [X1 [X2 [X3 [X4 X5]]]]]]].
      pose proof (Yb _ _ (proj1 C2)) as HT.
      pose proof (lcv_l U T' L' mi' _ X1 ltac:(lia) x X Wx) as K.
      pose proof X1 as [_ [Hm' _]].
      pose proof (keeps_len _ _ K) as Kl. rewrite firstn_length, Nat.min_l in Kl by lia.
      apply keeps_agree_m in K; [| lia].
      assert (A2 : agree X Y (S j1)) by (eapply agree_trans; [eapply agree_le; [exact K | lia] | exact X4]).
      pose proof (cat_len _ _ _ C1). pose proof (M4 (S j1) A2 ltac:(lia) ltac:(lia)). lia.
    Qed.

    Lemma one_side x X jx ex y Y jy ey p :
      winl U x X -> winl U y Y -> latest X jx ex -> latest Y jy ey -> maxp X Y p -> (1 <= p)%nat ->
      (jx < p)%nat -> (p <= jy)%nat -> adj (cmem ex) (cmem ey) \/ adj (cmem ey) (cmem ex).
    Proof.
      intros Wx Wy Lx Ly M Hp1 Hjx Hjy. pose proof M as [M1 _].
      destruct (win_facts _ _ Wy) as [Ylm _].
      destruct (firstc_dec Y p) as [[j1 [e1 F]] | Hn]; [| pose proof (Hn _ _ (proj1 Ly)); lia].
      pose proof F as [F1 [F2 F3]]. pose proof (F3 _ _ (proj1 Ly) Hjy) as Hj1.
      destruct (Nat.eq_dec j1 jy) as [E | E].
      - subst j1. assert (e1 = ey) by (eapply cat_fun; [exact F1 | exact (proj1 Ly)]). subst e1.
        destruct (invF_lm Y jy ey Ylm (proj1 Ly) ltac:(lia)) as [jj [ej [La [ia [X1 [_ [_ [_ [_ X6]]]]]]]]].
        assert (P1 : latest (firstn p Y) jj ej) by (apply (latest_firstn_firstc Y p jy ey jj ej F); exact X1).
        assert (P2 : latest (firstn p Y) jx ex) by (eapply agree_latest; [exact M1 | apply latest_firstn_in; auto]).
        destruct (latest_fun _ _ _ _ _ P1 P2) as [_ Ee]. subst ej. exact X6.
      - exfalso. exact (second_conf_false x X y Y p j1 e1 jy ey Wx Wy M F1 (proj1 Ly) F2 ltac:(lia)).
    Qed.

    Lemma both_beyond x X jx ex y Y jy ey p :
      winl U x X -> winl U y Y -> latest X jx ex -> latest Y jy ey -> maxp X Y p -> (1 <= p)%nat ->
      (p <= jx)%nat -> (p <= jy)%nat -> (jx <= jy)%nat -> False.
    Proof.
      intros Wx Wy Lx Ly M Hp1 Hjx Hjy Hxy. pose proof M as [M1 [M2 [M3 M4]]].
      destruct (win_facts _ _ Wx) as [Xlm [Xmono [Xb _]]]. destruct (win_facts _ _ Wy) as [Ylm [Ymono [Yb _]]].
      destruct (invF_lm X jx ex Xlm (proj1 Lx) ltac:(lia)) as [jj [ej [La [ia [_ [A2 [_ [A4 [A5 _]]]]]]]]].
      destruct (invF_lm Y jy ey Ylm (proj1 Ly) ltac:(lia)) as [jj' [ej' [Lb [ib [_ [B2 [_ [B4 [B5 _]]]]]]]]].
      pose proof (Xb _ _ (proj1 (proj1 Lx))) as HTa. pose proof (Yb _ _ (proj1 (proj1 Ly))) as HTb.
      pose proof (cat_len _ _ _ (proj1 Lx)) as HlX. pose proof (cat_len _ _ _ (proj1 Ly)) as HlY.
      (* the committed own-term entries lie in the common prefix *)
      assert (Hia : (ia <= p)%nat).
      { pose proof (lcv_l U _ La ia _ A2 HTa y Y Wy) as K. pose proof A2 as [_ [Hm _]].
        pose proof (keeps_len _ _ K) as Kl. rewrite firstn_length, Nat.min_l in Kl by lia.
        apply keeps_agree_m in K; [| lia].
        apply M4; [| lia | lia]. eapply agree_trans; [apply agree_sym; exact A5 | apply agree_sym; exact K]. }
      assert (Hib : (ib <= p)%nat).
      { pose proof (lcv_l U _ Lb ib _ B2 HTb x X Wx) as K. pose proof B2 as [_ [Hm _]].
        pose proof (keeps_len _ _ K) as Kl. rewrite firstn_length, Nat.min_l in Kl by lia.
        apply keeps_agree_m in K; [| lia].
        apply M4; [| lia | lia]. eapply agree_trans; [exact K | exact B5]. }
      pose proof A2 as [_ [Hma [[ea' [Hea' Hea't]] _]]]. pose proof B2 as [_ [Hmb [[eb' [Heb' Heb't]] _]]].
      assert (Xa : nth_error X (ia - 1) = Some ea') by (rewrite <- (agree_nth La X ia (ia - 1) A5 ltac:(lia)); exact Hea').
      assert (Yb' : nth_error Y (ib - 1) = Some eb') by (rewrite <- (agree_nth Lb Y ib (ib - 1) B5 ltac:(lia)); exact Heb').
      assert (Xb' : nth_error X (ib - 1) = Some eb') by (rewrite (agree_nth X Y p (ib - 1) M1 ltac:(lia)); exact Yb').
      assert (Ya : nth_error Y (ia - 1) = Some ea') by (rewrite <- (agree_nth X Y p (ia - 1) M1 ltac:(lia)); exact Xa).
      pose proof (Xmono (ib - 1)%nat jx eb' ex ltac:(lia) Xb' (proj1 (proj1 Lx))) as M5.
      pose proof (Ymono (ia - 1)%nat jy ea' ey ltac:(lia) Ya (proj1 (proj1 Ly))) as M6.
      destruct (nth_error Y jx) as [e' |] eqn:Ey; [| apply nth_error_None in Ey; lia].
      pose proof (Ymono (ib - 1)%nat jx eb' e' ltac:(lia) Yb' Ey) as M7.
      pose proof (Ymono jx jy e' ey Hxy Ey (proj1 (proj1 Ly))) as M8.
      assert (Et : e_term ex = e_term e') by lia.
      pose proof (lm_agree X Y jx ex e' Xlm Ylm (proj1 (proj1 Lx)) Ey Et) as Ag.
      pose proof (M4 (S jx) Ag ltac:(lia) ltac:(lia)). lia.
    Qed.

    Theorem win_unique a la b lb : winl U a la -> winl U b lb -> a = b.
    Proof.
      intros Wa Wb.
      pose proof Wa as [Hca [ja [ea [Qa [Lea [Na [Ia [Ma Ga]]]]]]]].
      pose proof Wb as [Hcb [jb [eb [Qb [Leb [Nb [Ib [Mb Gb]]]]]]]].
      pose proof (maxp_lcp la lb) as M. set (p := lcp la lb) in *.
      pose proof (cat_len _ _ _ (proj1 Lea)) as Hla. pose proof (cat_len _ _ _ (proj1 Leb)) as Hlb.
      assert (Hp1 : (1 <= p)%nat).
      { destruct M as [_ [_ [_ M4]]]. apply M4; [| lia | lia].
        assert (N1 : la <> []) by (intro Z; subst la; simpl in Hla; lia).
        assert (N2 : lb <> []) by (intro Z; subst lb; simpl in Hlb; lia).
        eapply agree1; [apply (HbootC _ _ _ Hca N1) | apply (HbootC _ _ _ Hcb N2)]. }
      assert (Hn : nearl (cmem ea) (cmem eb)).
      { destruct (Nat.lt_ge_cases ja p) as [A1 | A1]; destruct (Nat.lt_ge_cases jb p) as [B1 | B1].
        - left. pose proof M as [M1 _].
          assert (C1 : cat lb ja ea) by (eapply cat_agree; [exact M1 | exact A1 | exact (proj1 Lea)]).
          assert (C2 : cat la jb eb) by (eapply cat_agree; [apply agree_sym; exact M1 | exact B1 | exact (proj1 Leb)]).
          pose proof (proj2 Leb _ _ C1). pose proof (proj2 Lea _ _ C2). assert (ja = jb) by lia. subst jb.
          rewrite (cat_fun _ _ _ _ C1 (proj1 Leb)). reflexivity.
        - right. exact (one_side a la ja ea b lb jb eb p Wa Wb Lea Leb M Hp1 A1 B1).
        - right. pose proof (one_side b lb jb eb a la ja ea p Wb Wa Leb Lea (maxp_sym _ _ _ M) Hp1 B1 A1). tauto.
        - exfalso. destruct (Nat.le_ge_cases ja jb) as [X | X].
          + exact (both_beyond a la ja ea b lb jb eb p Wa Wb Lea Leb M Hp1 A1 B1 X).
          + exact (both_beyond b lb jb eb a la ja ea p Wb Wa Leb Lea (maxp_sym _ _ _ M) Hp1 B1 A1 X). }
      destruct (nearl_meet _ _ Qa Qb Hn Na Nb Ia Ib Ma Mb) as [v [V1 V2]].
      exact (Hcastfun v U a b (proj2 (Ga v V1)) (proj2 (Gb v V2))).
    Qed.
  End Two.
End Abstract.

(* ---------------------------------------------------------------- the hypotheses as one record *)
Record minv (G : list lrec) (A : list ack) (CL : list cand) (GR GL : list grant) (CAST : list (nid * N * nid)) (boot : entry) : Prop := {
  m_cmp : cmp_ok G;
  m_glm : forall T i l, In (T, i, l) G -> lm G l;
  m_gmono : forall T i l, In (T, i, l) G -> tmono l;
  m_g0 : forall U l, In (U, 0, l) G -> U <= 1;
  m_g1 : forall T i l, In (T, i, l) G -> 1 <= T;
  m_clm : forall c U lc, In (c, U, lc) CL -> lm G lc /\ (forall e, In e lc -> e_term e < U);
  m_cfun : forall c U l1 l2, In (c, U, l1) CL -> In (c, U, l2) CL -> l1 = l2;
  m_krec : forall v T P, In (v, T, P) A -> P = [] \/ exists i lt, In (T, i, lt) G /\ pfx P lt;
  m_v1 : forall v U c, In (v, U, c) GR -> exists lc, In (c, U, lc) CL /\ v1_fact G A v U lc;
  m_recwin : forall U c l, In (U, c, l) G -> c <> 0 -> exists lc, win CL GR CAST U c lc /\ pfx lc l;
  m_gbound : forall T i l, In (T, i, l) G -> tbound T l;
  m_bootG : forall T i l, In (T, i, l) G -> nth_error l 0 = Some boot;
  m_bootC : forall c U lc, In (c, U, lc) CL -> lc <> [] -> nth_error lc 0 = Some boot;
  m_invB : forall T i l j1 e1 j2 e2, In (T, i, l) G -> cat l j1 e1 -> cat l j2 e2 -> (j1 < j2)%nat ->
    exists T' L' mi', cmr G A T' L' mi' (cmem e1) /\ latest L' j1 e1 /\ (j1 < mi')%nat /\ agree L' l (S j1) /\ T' <= e_term e2;
  m_invF : forall T i l j2 e2, In (T, i, l) G -> cat l j2 e2 -> (1 <= j2)%nat ->
    exists j1 e1 L2 i2, latest (firstn j2 l) j1 e1 /\ cmr G A (e_term e2) L2 i2 (cmem e1) /\ latest L2 j1 e1 /\
                        (i2 <= j2)%nat /\ agree L2 l i2;
  m_chain : forall T i l j2 e2 j1 e1, In (T, i, l) G -> cat l j2 e2 -> latest (firstn j2 l) j1 e1 ->
    adj (cmem e1) (cmem e2) \/ adj (cmem e2) (cmem e1);
  m_vl : forall v U c, In (v, U, c) GL -> exists lc, In (c, U, lc) CL /\ v1_late G A v U lc;
  m_castfun : forall v U c1 c2, In (v, U, c1) CAST -> In (v, U, c2) CAST -> c1 = c2
}.

Theorem leader_completeness_of_minv G A CL GR GL CAST boot :
  minv G A CL GR GL CAST boot ->
  forall U T L mi C, cmr G A T L mi C -> T < U -> forall c lc, winl CL GR CAST GL U c lc -> keeps lc (firstn mi L).
Proof.
  intros M U T L mi C Hcm HT c lc Hw. destruct M.
  eapply (lcv_l G A CL GR CAST); eassumption.
Qed.

Theorem leader_completeness_records_of_minv G A CL GR GL CAST boot :
  minv G A CL GR GL CAST boot ->
  forall U c l T L mi C, cmr G A T L mi C -> In (U, c, l) G -> T < U -> keeps l (firstn mi L).
Proof.
  intros M U c l T L mi C Hcm R HT. destruct M.
  eapply (lc_records G A CL GR CAST); eassumption.
Qed.

Theorem election_safety_of_minv G A CL GR GL CAST boot :
  minv G A CL GR GL CAST boot ->
  forall U a la b lb, winl CL GR CAST GL U a la -> winl CL GR CAST GL U b lb -> a = b.
Proof.
  intros M U a la b lb Wa Wb. destruct M.
  eapply (win_unique G A CL GR CAST); eassumption.
Qed.
