(* Raft/CompletenessAck.v — leader completeness, piece (a): an acknowledged prefix survives at the acknowledger unless a
   leader of a later term already lacks it.

   Ghost (existential, on top of the leader-log records G of Raft/LogMatch.v): the set A of acknowledgements (v, T, P):
   node v, while in term T, held the prefix P of the log of the leader of T — recorded when v emits a successful
   AppEntsResp (P = its first idx entries at that moment) and for every leader-log record (the leader acknowledges its
   own log).  Invariant ESC: for every (v, T, P) in A and every position k of P whose entry has term T, either v's log
   still starts with the first k entries of P, or some leader-log record of a term in (T, current term of v] does not. *)
From Coq Require Import List NArith ZArith Bool Lia ZifyN ZifyNat ZifyBool.
From BLB Require Import Lib.LTS Raft.Core Raft.Wire Raft.NodeProofs Raft.NodeKeep Raft.NodeElect Raft.NodeConf
  Raft.Election Raft.ElectionFixed Raft.LogMatchLists Raft.LogMatchNode Raft.LogMatch Raft.Completeness.
Import ListNotations.
Open Scope N_scope.

Definition ack := (nid * N * list entry)%type.

Definition keeps (l P : list entry) : Prop := firstn (length P) l = P.

Lemma entry_eq_dec (a b : entry) : {a = b} + {a <> b}.
Proof. decide equality; try apply N.eq_dec. apply (list_eq_dec Z.eq_dec). Qed.

Lemma keeps_dec l P : {keeps l P} + {~ keeps l P}.
Proof. unfold keeps. apply (list_eq_dec entry_eq_dec). Qed.

Lemma keeps_nth l P j e : keeps l P -> nth_error P j = Some e -> nth_error l j = Some e.
Proof.
  unfold keeps. intros H Hj. rewrite <- H in Hj. rewrite nth_error_firstn' in Hj.
  destruct (j <? length P)%nat; [exact Hj | discriminate].
Qed.

Lemma keeps_len l P : keeps l P -> (length P <= length l)%nat.
Proof. unfold keeps. intro H. assert (X : length (firstn (length P) l) = length P) by (rewrite H; reflexivity). rewrite firstn_length in X. lia. Qed.

Lemma keeps_agree l l' P : firstn (length P) l' = firstn (length P) l -> keeps l P -> keeps l' P.
Proof. unfold keeps. intros A B. rewrite A. exact B. Qed.

Lemma keeps_pfx l l' P : pfx l l' -> keeps l P -> keeps l' P.
Proof.
  intros Hp K. eapply keeps_agree; [| exact K]. symmetry. apply pfx_firstn; auto. apply keeps_len. exact K.
Qed.

Lemma keeps_self_firstn k l : keeps l (firstn k l).
Proof. unfold keeps. symmetry. apply firstn_length_self. Qed.

Lemma keeps_firstn_firstn k idx l : (k <= idx)%nat -> keeps l (firstn k (firstn idx l)).
Proof. intro H. rewrite firstn_firstn, Nat.min_l by lia. apply keeps_self_firstn. Qed.

(* position k (1-based count) of P holds an entry of term T *)
Definition tpos (T : N) (P : list entry) (k : nat) : Prop :=
  (1 <= k <= length P)%nat /\ exists e, nth_error P (k - 1) = Some e /\ e_term e = T.

Lemma tpos_len T P k : tpos T P k -> length (firstn k P) = k.
Proof. intros [H _]. rewrite firstn_length. lia. Qed.

Definition acks_of (s' : node) : list ack :=
  flat_map (fun m => match m_body m with
                     | AppEntsResp true idx _ => [(n_id s', p_term (n_p s'), firstn (N.to_nat idx) (p_log (n_p s')))]
                     | _ => []
                     end) (n_msgs s').

Definition rec_acks (rs : list lrec) : list ack := map (fun r => (snd (fst r), fst (fst r), snd r)) rs.

Lemma in_acks_of s' a :
  In a (acks_of s') -> exists m idx h, In m (n_msgs s') /\ m_body m = AppEntsResp true idx h /\
                                       a = (n_id s', p_term (n_p s'), firstn (N.to_nat idx) (p_log (n_p s'))).
Proof.
  unfold acks_of. rewrite in_flat_map. intros [m [Hm Ha]]. destruct (m_body m) eqn:E; try contradiction.
  destruct success; [| contradiction]. destruct Ha as [Ha | []]. exists m, index, hint. auto.
Qed.

Lemma acks_of_in s' m idx h :
  In m (n_msgs s') -> m_body m = AppEntsResp true idx h ->
  In (n_id s', p_term (n_p s'), firstn (N.to_nat idx) (p_log (n_p s'))) (acks_of s').
Proof. intros Hm Hb. unfold acks_of. rewrite in_flat_map. exists m. split; auto. rewrite Hb. left. reflexivity. Qed.

Definition escapes (G : list lrec) (T hi : N) (Pk : list entry) : Prop :=
  exists U' i' l', In (U', i', l') G /\ T < U' /\ U' <= hi /\ ~ keeps l' Pk.

Section AckInv.
  Variables (bm : list nid) (be : N).

  Record ackinv (σ : sys) (G : list lrec) (A : list ack) : Prop := {
    k_g : ginv bm be σ G;
    k_rec : forall v T P, In (v, T, P) A -> P = [] \/ exists i lt, In (T, i, lt) G /\ pfx P lt;
    k_msg : forall m idx h, In m (sy_soup σ) -> m_body m = AppEntsResp true idx h ->
              exists P, In (m_from m, m_term m, P) A /\ length P = N.to_nat idx;
    k_lead : forall T i l, In (T, i, l) G -> i <> 0 -> In (i, T, l) A;
    k_esc : forall v T P, In (v, T, P) A ->
              exists s, get_node v (sy_nodes σ) = Some s /\ T <= p_term (n_p s) /\
                        forall k, tpos T P k -> keeps (p_log (n_p s)) (firstn k P) \/ escapes G T (p_term (n_p s)) (firstn k P)
  }.

  Lemma ackinv_init σ : linit σ -> ackinv σ [(1, 0, [boot_entry bm be])] [].
  Proof.
    intro Hi. constructor.
    - apply ginv_init. exact Hi.
    - intros v T P [].
    - destruct Hi as [[_ [_ [Hs _]]] _]. rewrite Hs. intros m idx h [].
    - intros T i l [H | []]. inversion H. congruence.
    - intros v T P [].
  Qed.

  Section Step.
    Variables (n : nat) (σ : sys) (G : list lrec) (A : list ack).
    Variables (i : nid) (s : node) (ev : event) (k : N) (s' : node).
    Hypothesis Hlen : length (sy_nodes σ) = n.
    Hypothesis KI : ackinv σ G A.
    Hypothesis Gs : get_node i (sy_nodes σ) = Some s.
    Hypothesis Hdel : forall m, ev = EDeliver m -> In m (sy_soup σ) /\ m_to m <> 0.
    Hypothesis Hres : evres bm be ev.
    Hypothesis NS : nstep s ev k s'.
    Hypothesis El0 : Election.inv (map n_id (sy_nodes σ)) (step_sys σ s').
    Hypothesis I20 : inv2 n (step_sys σ s').

    Let σ' := step_sys σ s'.
    Let G' := G ++ rec_of s s'.
    Let A' := A ++ acks_of s' ++ rec_acks (rec_of s s').
    Let L0 := p_log (n_p s).
    Let L' := p_log (n_p s').
    Let T' := p_term (n_p s').

    Lemma st_GI : ginv bm be σ G. Proof. apply (k_g _ _ _ KI). Qed.

    Lemma st_GI' : ginv bm be σ' G'.
    Proof. apply (ginv_step_abs bm be n σ G i s ev k s' Hlen st_GI Gs Hdel Hres NS El0 I20). Qed.

    Lemma st_incl : incl G G'.
    Proof. intros r Hr. apply in_or_app. left. exact Hr. Qed.

    Lemma st_id : n_id s' = i.
    Proof.
      pose proof (ns_id _ _ _ _ NS) as Hid. destruct (get_node_in _ _ _ Gs) as [_ Gid]. congruence.
    Qed.

    Lemma st_Gs' : get_node i (sy_nodes σ') = Some s'.
    Proof. simpl. rewrite <- st_id. eapply get_put_same. rewrite st_id. exact Gs. Qed.

    Lemma st_Go j : j <> i -> get_node j (sy_nodes σ') = get_node j (sy_nodes σ).
    Proof. intro Hj. simpl. apply get_put_other. rewrite st_id. exact Hj. Qed.

    Lemma st_NI : LogMatchNode.inv (with_budget (settle s) k) (inp_of ev) (boot_of ev) (rt_of ev) (vq_of ev) (lq_of s) (dc_of ev) (rsp_of ev) s'.
    Proof. exact (ns_inv _ _ _ _ NS). Qed.

    Lemma st_term_le : p_term (n_p s) <= T'.
    Proof. pose proof (v_tm _ _ _ _ _ _ _ _ _ st_NI) as X. exact X. Qed.

    (* a successful AppEntsResp in the outbox: the acknowledged prefix is a prefix of a leader record of the current term *)
    Lemma st_resp m0 idx h :
      In m0 (n_msgs s') -> m_body m0 = AppEntsResp true idx h ->
      (N.to_nat idx <= length L')%nat /\
      (idx = 0 \/ exists j l, In (T', j, l) G /\ firstn (N.to_nat idx) L' = firstn (N.to_nat idx) l).
    Proof.
      intros H0 Hb. pose proof st_GI as GI. pose proof st_GI' as GI'.
      destruct (N.eq_dec idx 0) as [Z0 | Hnz]; [subst idx; simpl; split; [lia | left; reflexivity]|].
      pose proof (v_msgs _ _ _ _ _ _ _ _ _ st_NI) as N_msgs. rewrite Forall_forall in N_msgs.
      pose proof (N_msgs m0 H0) as Mg. unfold mgood in Mg. rewrite Hb in Mg.
      destruct Mg as [Z0 | [e1 [X1 R1]]]; [contradiction|]. fold L' in X1.
      assert (Hd : exists md pi pt cm oe, ev = EDeliver md /\ m_body md = AppEnts pi pt cm oe).
      { unfold rt_of in R1. destruct ev; try contradiction. destruct (m_body m) eqn:Ebd; try contradiction.
        eexists _, _, _, _, _. split; [reflexivity | exact Ebd]. }
      destruct Hd as [md [pi [pt [cm [oe [Eev Ebd]]]]]].
      destruct (Hdel md Eev) as [Min _]. pose proof (g_msgs _ _ _ _ GI md Min) as Mk. unfold msg_ok3 in Mk. rewrite Ebd in Mk.
      destruct Mk as [j [l [Rin [Sl Tm1]]]].
      assert (Htm : m_term md = T').
      { destruct (ns_term _ _ _ _ NS md Eev) as [D | D]; [rewrite D in H0; contradiction | unfold T'; congruence]. }
      assert (Hl : exists e2, nth_error l (N.to_nat (idx - 1)) = Some e2 /\ e_term e2 = e_term e1).
      { unfold rt_of in R1. rewrite Eev, Ebd in R1. destruct R1 as [[R1 R2] | [ents [jj [ee [R1 [R2 [R3 R4]]]]]]].
        - destruct Sl as [_ [Ta _]]. destruct Ta as [Z0 | [e2 [A1 A2]]].
          + exfalso. subst. contradiction.
          + exists e2. subst idx. split; auto. congruence.
        - subst oe. pose proof (slice_nth _ _ _ _ _ _ Sl R2) as A1. exists ee. split; [| congruence].
          rewrite <- A1. f_equal. lia. }
      destruct Hl as [e2 [A1 A2]].
      assert (HG'l : In (m_term md, j, l) G') by (apply st_incl; exact Rin).
      pose proof (same_term_prefix G' L' l (N.to_nat (idx - 1)) e1 e2 (g_cmp _ _ _ _ GI')
                    (g_lm_node _ _ _ _ GI' i s' st_Gs') (g_lm_rec _ _ _ _ GI' _ _ _ HG'l) X1 A1 (eq_sym A2)) as Pf.
      replace (S (N.to_nat (idx - 1))) with (N.to_nat idx) in Pf by lia.
      split; [apply nth_len in X1; lia|]. right. exists j, l. rewrite <- Htm. auto.
    Qed.

    (* the same from the bare evidence: the log agrees in term with the delivered entries at position idx *)
    Lemma st_resp_ok idx :
      idx <> 0 -> resp_ok (rt_of ev) L' idx -> (forall md, ev = EDeliver md -> m_term md = T') ->
      (N.to_nat idx <= length L')%nat /\ exists j l, In (T', j, l) G /\ firstn (N.to_nat idx) L' = firstn (N.to_nat idx) l.
    Proof.
      intros Hnz Mg Hterm. pose proof st_GI as GI. pose proof st_GI' as GI'.
      destruct Mg as [Z0 | [e1 [X1 R1]]]; [contradiction|].
      assert (Hd : exists md pi pt cm oe, ev = EDeliver md /\ m_body md = AppEnts pi pt cm oe).
      { unfold rt_of in R1. destruct ev; try contradiction. destruct (m_body m) eqn:Ebd; try contradiction.
        eexists _, _, _, _, _. split; [reflexivity | exact Ebd]. }
      destruct Hd as [md [pi [pt [cm [oe [Eev Ebd]]]]]].
      destruct (Hdel md Eev) as [Min _]. pose proof (g_msgs _ _ _ _ GI md Min) as Mk. unfold msg_ok3 in Mk. rewrite Ebd in Mk.
      destruct Mk as [j [l [Rin [Sl Tm1]]]].
      pose proof (Hterm md Eev) as Htm.
      assert (Hl : exists e2, nth_error l (N.to_nat (idx - 1)) = Some e2 /\ e_term e2 = e_term e1).
      { unfold rt_of in R1. rewrite Eev, Ebd in R1. destruct R1 as [[R1 R2] | [ents [jj [ee [R1 [R2 [R3 R4]]]]]]].
        - destruct Sl as [_ [Ta _]]. destruct Ta as [Z0 | [e2 [A1 A2]]].
          + exfalso. subst. contradiction.
          + exists e2. subst idx. split; auto. congruence.
        - subst oe. pose proof (slice_nth _ _ _ _ _ _ Sl R2) as A1. exists ee. split; [| congruence].
          rewrite <- A1. f_equal. lia. }
      destruct Hl as [e2 [A1 A2]].
      assert (HG'l : In (m_term md, j, l) G') by (apply st_incl; exact Rin).
      pose proof (same_term_prefix G' L' l (N.to_nat (idx - 1)) e1 e2 (g_cmp _ _ _ _ GI')
                    (g_lm_node _ _ _ _ GI' i s' st_Gs') (g_lm_rec _ _ _ _ GI' _ _ _ HG'l) X1 A1 (eq_sym A2)) as Pf.
      replace (S (N.to_nat (idx - 1))) with (N.to_nat idx) in Pf by lia.
      split; [apply nth_len in X1; lia|]. exists j, l. rewrite <- Htm. auto.
    Qed.

    Lemma keeps_nth_inv l P j e : keeps l P -> (j < length P)%nat -> nth_error l j = Some e -> nth_error P j = Some e.
    Proof.
      unfold keeps. intros H Hj Hl. rewrite <- H. rewrite nth_error_firstn'. apply Nat.ltb_lt in Hj. rewrite Hj. exact Hl.
    Qed.

    (* the follower cut its log at a term conflict at position c: an acknowledged prefix reaching beyond c is contradicted
       by the leader record the delivered AppEnts is a slice of *)
    Lemma st_conflict a c T P kk :
      inp_of ev = Some a -> T' = ai_term a -> conflict_at L0 a c -> firstn c L' = firstn c L0 ->
      In (i, T, P) A -> tpos T P kk -> T <= p_term (n_p s) -> keeps L0 (firstn kk P) ->
      keeps L' (firstn kk P) \/ escapes G T T' (firstn kk P).
    Proof.
      intros Hinp Hta [Hpc [e1 [e2 [X1 [X2 X3]]]]] Hfc Hin Htp HT K.
      pose proof st_GI as GI. pose proof (tpos_len _ _ _ Htp) as Hlk.
      destruct (Nat.le_gt_cases kk c) as [Hle | Hgt].
      { left. eapply keeps_agree; [| exact K]. rewrite Hlk. eapply firstn_eq_le; eauto. }
      right.
      assert (Hm' : exists m pi pt cm ents, ev = EDeliver m /\ m_body m = AppEnts pi pt cm (Some ents) /\
                         a = {| ai_term := m_term m; ai_pi := pi; ai_pt := pt; ai_ents := ents |}).
      { destruct ev; simpl in Hinp; try discriminate. destruct (m_body m) eqn:Eb; try discriminate.
        destruct ents; try discriminate. inversion Hinp. eexists _, _, _, _, _. repeat split; eauto. }
      destruct Hm' as [m [pi [pt [cm [ents [Eev [Eb Ea]]]]]]].
      destruct (Hdel m Eev) as [Min _]. pose proof (g_msgs _ _ _ _ GI m Min) as Mk. unfold msg_ok3 in Mk. rewrite Eb in Mk.
      destruct Mk as [j [l [Rin [Sl _]]]].
      assert (Hl2 : nth_error l c = Some e2).
      { rewrite Ea in X2. simpl in X2. pose proof (slice_nth _ _ _ _ _ _ Sl X2) as Y.
        rewrite Ea in Hpc. simpl in Hpc. rewrite <- Y. f_equal. lia. }
      assert (Hp1 : nth_error (firstn kk P) c = Some e1).
      { eapply keeps_nth_inv; eauto. lia. }
      assert (Hnk : ~ keeps l (firstn kk P)).
      { intro K2. pose proof (keeps_nth _ _ _ _ K2 Hp1) as Y. rewrite Hl2 in Y. inversion Y. subst. congruence. }
      assert (Etm : m_term m = T') by (rewrite Hta, Ea; reflexivity).
      destruct (N.eq_dec T T') as [Eq | Ne].
      - exfalso. destruct (k_rec _ _ _ KI _ _ _ Hin) as [Pn | [iT [lT [RT [xx Hx]]]]].
        + subst P. destruct Htp as [[H1 H2] _]. simpl in H2. lia.
        + rewrite Etm, <- Eq in Rin. pose proof (g_cmp _ _ _ _ GI _ _ _ _ _ RT Rin) as Cm.
          assert (HP1 : nth_error P c = Some e1).
          { rewrite nth_error_firstn' in Hp1. destruct (c <? kk)%nat; [exact Hp1 | discriminate]. }
          assert (HlT : nth_error lT c = Some e1).
          { rewrite Hx. rewrite nth_error_app1; [exact HP1|]. apply nth_len in HP1. lia. }
          assert (S c <= length lT)%nat by (eapply nth_len; eauto).
          assert (S c <= length l)%nat by (eapply nth_len; eauto).
          pose proof (comparable_firstn _ _ _ Cm H H0) as Pf. apply firstn_nth_eq in Pf. congruence.
      - exists T', j, l. split; [rewrite <- Etm; exact Rin|]. split; [pose proof st_term_le; lia|].
        split; [lia | exact Hnk].
    Qed.

    Lemma st_esc_old T P kk :
      In (i, T, P) A -> tpos T P kk -> T <= p_term (n_p s) -> keeps L0 (firstn kk P) ->
      keeps L' (firstn kk P) \/ escapes G T T' (firstn kk P).
    Proof.
      intros Hin Htp HT K. pose proof (tpos_len _ _ _ Htp) as Hlk.
      pose proof (v_lr _ _ _ _ _ _ _ _ _ st_NI) as N_lr. unfold LR in N_lr. cbv zeta in N_lr.
      change (p_log (n_p (with_budget (settle s) k))) with L0 in N_lr. fold L' in N_lr.
      destruct N_lr as [X | [[_ [_ [a [c [Xa [Xt [X Xc]]]]]]] | [[_ [_ [b [Xb [X0 X]]]]] | [[Xr [Xt [new [X Xn]]]] | [_ [_ [a [Xa [Xt Xm]]]]]]]]].
      - left. rewrite X. exact K.
      - eapply st_conflict; eauto. rewrite X. rewrite firstn_firstn, Nat.min_id. reflexivity.
      - exfalso. rewrite X0 in K. apply keeps_len in K. rewrite Hlk in K. simpl in K. destruct Htp as [[H1 _] _]. lia.
      - left. eapply keeps_pfx; [| exact K]. rewrite X. exists new. reflexivity.
      - destruct Xm as [c [E [Hb [Hc [Ta [Ag Cf]]]]]]. destruct Cf as [Cl | Cf].
        + left. eapply keeps_pfx; [| exact K]. rewrite E, Cl, firstn_all. eexists. reflexivity.
        + eapply st_conflict; eauto. rewrite E. rewrite firstn_app, firstn_firstn, Nat.min_id.
          rewrite firstn_length. replace (c - Nat.min c (length L0))%nat with 0%nat by lia. simpl. apply app_nil_r.
    Qed.


    Lemma in_rec_acks rs a : In a (rec_acks rs) -> exists t j l, In (t, j, l) rs /\ a = (j, t, l).
    Proof.
      unfold rec_acks. rewrite in_map_iff. intros [[[t j] l] [E H]]. exists t, j, l. simpl in E. auto.
    Qed.

    Lemma escapes_mono G1 G2 T h1 h2 Pk : incl G1 G2 -> h1 <= h2 -> escapes G1 T h1 Pk -> escapes G2 T h2 Pk.
    Proof. intros Hi Hh [U [j [l [A1 [A2 [A3 A4]]]]]]. exists U, j, l. repeat split; auto. lia. Qed.

    (* what the touched node still holds of its earlier acknowledgements; the escape witnesses are OLD records *)
    Lemma st_esc_node T P kk :
      In (i, T, P) A -> tpos T P kk ->
      T <= p_term (n_p s) /\ (keeps L' (firstn kk P) \/ escapes G T T' (firstn kk P)).
    Proof.
      intros Hin Htp. destruct (k_esc _ _ _ KI _ _ _ Hin) as [x [Gx [Le Hk]]]. rewrite Gs in Gx. inversion Gx. subst x.
      split; [exact Le|]. destruct (Hk kk Htp) as [K | Es].
      - apply (st_esc_old T P kk Hin Htp Le K).
      - right. eapply escapes_mono; [apply incl_refl | apply st_term_le | exact Es].
    Qed.

    Lemma ackinv_step_abs : ackinv σ' G' A'.
    Proof.
      pose proof st_GI as GI. pose proof st_GI' as GI'. pose proof st_Gs' as Gs'. pose proof st_id as Hi.
      pose proof (ns_id _ _ _ _ NS) as Hid. pose proof (ns_pext _ _ _ _ NS) as Hp. pose proof (ns_msgs _ _ _ _ NS) as Hm. pose proof (ns_esum _ _ _ _ NS) as He.
      constructor.
      - exact GI'.
      - (* acknowledged prefixes are prefixes of a leader record of their term *)
        intros v T P Hin. unfold A' in Hin. apply in_app_or in Hin. destruct Hin as [Hin | Hin].
        + destruct (k_rec _ _ _ KI _ _ _ Hin) as [E | [j [l [A1 A2]]]]; [left; exact E | right].
          exists j, l. split; [apply st_incl; exact A1 | exact A2].
        + apply in_app_or in Hin. destruct Hin as [Hin | Hin].
          * apply in_acks_of in Hin. destruct Hin as [m0 [idx [h [H0 [Hb Ea]]]]]. inversion Ea. subst v T P.
            destruct (st_resp m0 idx h H0 Hb) as [Hl [Z | [j [l [A1 A2]]]]].
            -- left. subst idx. reflexivity.
            -- right. exists j, l. split; [apply st_incl; exact A1|]. fold L'. rewrite A2. apply firstn_pfx.
          * apply in_rec_acks in Hin. destruct Hin as [t [j [l [Hr Ea]]]]. inversion Ea. subst v T P.
            right. exists j, l. split; [apply in_or_app; right; exact Hr | apply pfx_refl].
      - (* every successful AppEntsResp in the soup is recorded *)
        intros m idx h Hin Hb. simpl in Hin. apply in_app_or in Hin. destruct Hin as [Hin | Hin].
        + destruct (k_msg _ _ _ KI m idx h Hin Hb) as [P [A1 A2]]. exists P. split; auto. apply in_or_app. left. exact A1.
        + apply in_out_msgs in Hin. destruct Hin as [m0 [H0 [Et [Ef [Eto Eb]]]]].
          unfold msgs_ok in Hm. rewrite Forall_forall in Hm. destruct (Hm m0 H0) as [X [Y Z]].
          rewrite Eb in Hb. destruct (st_resp m0 idx h H0 Hb) as [Hl _].
          exists (firstn (N.to_nat idx) L'). split.
          * apply in_or_app. right. apply in_or_app. left. rewrite Et, Ef, X, Y. apply (acks_of_in s' m0 idx h H0 Hb).
          * rewrite firstn_length. lia.
      - (* a leader acknowledges its own log *)
        intros T j l Hin Hj. apply in_app_or in Hin. destruct Hin as [Hin | Hin].
        + apply in_or_app. left. apply (k_lead _ _ _ KI _ _ _ Hin Hj).
        + apply in_or_app. right. apply in_or_app. right. unfold rec_acks. apply in_map_iff.
          exists (T, j, l). split; [reflexivity | exact Hin].
      - (* ESC *)
        intros v T P Hin. unfold A' in Hin. apply in_app_or in Hin. destruct Hin as [Hin | Hin].
        + destruct (k_esc _ _ _ KI _ _ _ Hin) as [x [Gx [Le Hk]]].
          destruct (N.eq_dec v i) as [E | E].
          * subst v. rewrite Gs in Gx. inversion Gx. subst x. exists s'. split; [exact Gs'|].
            split; [pose proof st_term_le; unfold T' in *; lia|].
            intros kk Htp. destruct (st_esc_node T P kk Hin Htp) as [_ [K | Es]]; [left; exact K | right].
            eapply escapes_mono; [apply st_incl | apply N.le_refl | exact Es].
          * exists x. split; [rewrite st_Go; auto|]. split; auto.
            intros kk Htp. destruct (Hk kk Htp) as [K | Es]; [left; exact K | right].
            eapply escapes_mono; [apply st_incl | apply N.le_refl | exact Es].
        + assert (Hnew : v = n_id s' /\ T = T' /\ exists idx, P = firstn idx L').
          { apply in_app_or in Hin. destruct Hin as [Hin | Hin].
            - apply in_acks_of in Hin. destruct Hin as [m0 [idx [h [H0 [Hb Ea]]]]]. inversion Ea. split; auto. split; auto.
              exists (N.to_nat idx). reflexivity.
            - apply in_rec_acks in Hin. destruct Hin as [t [j [l [Hr Ea]]]]. inversion Ea. subst v T P.
              apply in_rec_of in Hr. destruct Hr as [Er _]. inversion Er. split; auto. split; auto.
              exists (length L'). symmetry. apply firstn_all. }
          destruct Hnew as [Ev [ET [idx EP]]]. subst v T P. exists s'. rewrite Hi. split; [exact Gs'|]. split; [apply N.le_refl|].
          intros kk [[H1 H2] _]. left. apply keeps_firstn_firstn. rewrite firstn_length in H2. lia.
    Qed.
  End Step.

  Lemma ackinv_step_rec n σ G A i s ev k crashed st s' :
    length (sy_nodes σ) = n -> ackinv σ G A -> get_node i (sy_nodes σ) = Some s ->
    (forall m, ev = EDeliver m -> In m (sy_soup σ) /\ m_to m <> 0) -> evok2 n ev -> evres bm be ev ->
    run_event_crash (settle s) ev k = Ret (crashed, st, s') ->
    ackinv (step_sys σ s') (G ++ rec_of s s') (A ++ acks_of s' ++ rec_acks (rec_of s s')).
  Proof.
    intros Hlen KI Gs Hdel Hev Hres Hrun.
    destruct (abs_of_run bm be n σ G i s ev k crashed st s' Hlen (k_g _ _ _ KI) Gs Hdel Hev Hres Hrun) as [NS [El0 I20]].
    apply (ackinv_step_abs n σ G A i s ev k s' Hlen KI Gs Hdel Hres NS El0 I20).
  Qed.

  Lemma ackinv_step n σ G A e σ' :
    length (sy_nodes σ) = n -> ackinv σ G A -> lstep n bm be σ e σ' ->
    exists G' A', ackinv σ' G' A' /\ incl G G' /\ incl A A'.
  Proof.
    intros Hlen KI [Hst Hres]. destruct Hst as [σ i s ev k crashed st s' Gs Hdel Hev Hrun]. simpl in Hres.
    exists (G ++ rec_of s s'), (A ++ acks_of s' ++ rec_acks (rec_of s s')).
    split; [| split; intros r Hr; apply in_or_app; left; exact Hr].
    apply (ackinv_step_rec n σ G A i s ev k crashed st s' Hlen KI Gs Hdel Hev Hres Hrun).
  Qed.

  Lemma ackrun_inv n σ1 sched σ2 G1 A1 :
    length (sy_nodes σ1) = n -> ackinv σ1 G1 A1 -> run sys sys_event (lstep n bm be) σ1 sched σ2 ->
    exists G2 A2, ackinv σ2 G2 A2 /\ incl G1 G2 /\ incl A1 A2.
  Proof.
    intros Hn KI Hrun. revert G1 A1 KI Hn. induction Hrun as [σ | σ e σ' es σ'' Hst Hr IH]; intros G1 A1 KI Hn.
    - exists G1, A1. split; auto. split; apply incl_refl.
    - destruct (ackinv_step n σ G1 A1 e σ' Hn KI Hst) as [G' [A' [KI' [Hi1 Hi2]]]].
      assert (Hn' : length (sy_nodes σ') = n).
      { eapply lrun_length; [| exact Hn]. eapply run_cons; [exact Hst | apply run_nil]. }
      destruct (IH G' A' KI' Hn') as [G2 [A2 [KI2 [Hj1 Hj2]]]]. exists G2, A2. split; auto.
      split; eapply incl_tran; eauto.
  Qed.
End AckInv.
