(* Raft/SnapIndexPos.v — round 5: every InstallSnapshot a node emits names a snapshot index >= 1 (it ships its own snapshot, and
   a snapshot is only ever taken at, or installed from a message with, an index >= 1). Node level, all events.
   Same skeleton as Raft/SnapContigMsgs.v. *)
From Coq Require Import List NArith ZArith Bool Lia.
From BLB Require Import Raft.Core Raft.NodeProofs Raft.LogMatchLists Raft.SnapContig.
Import ListNotations.
Open Scope N_scope.

Definition isq1 (m : msg) : Prop := match m_body m with InstallSnap li _ _ => 1 <= li | _ => True end.
Definition snap1 (p : pstate) : Prop := forall m, p_snap p = Some m -> 1 <= sn_index m.
Definition jq (s : node) : Prop := snap1 (n_p s) /\ Forall isq1 (n_msgs s).

Definition mk (s s' : node) : Prop := jq s -> jq s'.

Lemma mk_refl s : mk s s.
Proof. intro H. exact H. Qed.

Lemma mk_trans a b c : mk a b -> mk b c -> mk a c.
Proof. intros A B H. apply B. apply A. exact H. Qed.

Lemma mk_vol s s' : n_msgs s' = n_msgs s -> p_snap (n_p s') = p_snap (n_p s) -> mk s s'.
Proof. intros A B [H1 H2]. split; [unfold snap1; rewrite B; exact H1 | rewrite A; exact H2]. Qed.

Definition mx (s : node) (r : R node) : Prop := match r with Ret s' => mk s s' | _ => True end.
Definition mx2 (s : node) (r : R (N * node)) : Prop := match r with Ret (_, s') => mk s s' | _ => True end.

Lemma mx_bind s (a : R node) (f : node -> R node) :
  mx s a -> (forall s1, mx s1 (f s1)) -> mx s (bind a f).
Proof.
  intros Ha Hf. destruct a as [s1 | c | p]; simpl in *; auto.
  specialize (Hf s1). destruct (f s1); simpl in *; auto. eapply mk_trans; eauto.
Qed.

Lemma mx_bind_pure {A} s (a : R A) (f : A -> R node) :
  (forall x, a = Ret x -> mx s (f x)) -> mx s (bind a f).
Proof. intros Hf. destruct a; simpl in *; auto. Qed.

Lemma mx_pre s s' r : mk s s' -> mx s' r -> mx s r.
Proof. intros H K. destruct r; simpl in *; auto. eapply mk_trans; eauto. Qed.

Lemma mx2_bind s (a : R node) (f : node -> R (N * node)) :
  mx s a -> (forall s1, mx2 s1 (f s1)) -> mx2 s (bind a f).
Proof.
  intros Ha Hf. destruct a as [s1 | c | p]; simpl in *; auto.
  specialize (Hf s1). destruct (f s1) as [[st s2] | |]; simpl in *; auto. eapply mk_trans; eauto.
Qed.

Lemma mx2_bind_pure {A} s (a : R A) (f : A -> R (N * node)) :
  (forall x, a = Ret x -> mx2 s (f x)) -> mx2 s (bind a f).
Proof. intros Hf. destruct a; simpl in *; auto. Qed.

Lemma mx2_pre s s' r : mk s s' -> mx2 s' r -> mx2 s r.
Proof. intros H K. destruct r as [[st x] | |]; simpl in *; auto. eapply mk_trans; eauto. Qed.

Lemma mx2_of_mx s r st : mx s r -> mx2 s (s1 <- r ;; Ret (st, s1)).
Proof. destruct r; simpl; auto. Qed.

Ltac mfa H := first [exact H | apply Forall_app; split; [mfa H | constructor; [exact I | constructor]]].
Ltac mvol := first [apply mk_vol; reflexivity | let H1 := fresh "H" in let H2 := fresh "H" in intros [H1 H2]; split; [exact H1 | simpl; mfa H2]].
Ltac mleaf := simpl; solve [mvol].
Ltac msend := mleaf.

Lemma mx_do_mut s m : match m with MSnapCommit sm => 1 <= sn_index sm | _ => True end -> mx s (do_mut m s).
Proof.
  intro Hm. unfold do_mut. destruct (negb (n_budget s =? 0) && (n_budget s =? n_cnt s + 1)); simpl; auto.
  intros [H1 H2]. split; [| exact H2]. unfold snap1 in *. simpl.
  destruct m; simpl; auto. intros m0 E. inversion E. subst. exact Hm.
Qed.

(* ---------------------------------------------------------------- handlers *)
Lemma mx_log_append s es : mx s (log_append s es).
Proof.
  unfold log_append. apply mx_bind; [apply mx_do_mut; exact I|].
  intros s1. destruct (snd (mem_append (p_log (n_p s)) es)); simpl; auto using mk_refl.
Qed.

Lemma mx_commit_up_to s i : mx s (commit_up_to s i).
Proof.
  unfold commit_up_to.
  destruct (p_snap (n_p s)) as [m |].
  - destruct (n_commit s <? sn_index m) eqn:E.
    + destruct (negb (sn_index m =? i)) eqn:E3; simpl; auto. mvol.
    + apply mx_bind_pure. intros ents _.
      match goal with |- mx s (if ?c then _ else _) => destruct c end; [| mleaf].
      match goal with |- mx s (match ?x with _ => _ end) => destruct x eqn:E2 end; simpl; auto.
      eapply mx_pre; [| apply mx_do_mut; exact I]. mvol.
  - apply mx_bind_pure. intros ents _.
    match goal with |- mx s (if ?c then _ else _) => destruct c end; [| mleaf].
    match goal with |- mx s (match ?x with _ => _ end) => destruct x eqn:E2 end; simpl; auto.
    eapply mx_pre; [| apply mx_do_mut; exact I]. mvol.
Qed.

Lemma mx_trim_log s i : mx s (trim_log s i).
Proof.
  unfold trim_log. destruct (log_first (p_log (n_p s))); [| mleaf]. destruct (log_last (p_log (n_p s))); [| mleaf].
  destruct (i =? n - 1); [mleaf|]. destruct ((i <? n) || (n0 <? i)); simpl; auto.
  destruct (i - n <? cf_keep (n_cfg s)); [mleaf|]. apply mx_do_mut; exact I.
Qed.

Lemma mx_send_app_ents s p : mx s (send_app_ents s p).
Proof.
  unfold send_app_ents. apply mx_bind_pure. intros ob Hob.
  destruct ob as [b |].
  - assert (Hb : forall m0, m_body m0 = b -> isq1 m0).
    { intros m0 E. unfold isq1. rewrite E. clear E. unfold get_app_ents in Hob.
      destruct (negb (pr_next p =? pr_match p + 1)).
      - destruct (st_term (n_p s) (pr_next p - 1)) as [[t o] | |]; simpl in Hob; try discriminate. destruct (negb o); inversion Hob. exact I.
      - destruct (pr_match p =? last_index (n_p s)).
        + destruct (st_term (n_p s) (pr_match p)) as [[t o] | |]; simpl in Hob; try discriminate. destruct (negb o); inversion Hob. exact I.
        + match type of Hob with bind ?x _ = _ => destruct x as [[[pt es] ok] | |]; simpl in Hob; try discriminate end.
          destruct (negb ok); inversion Hob. exact I. }
    simpl. intros [H1 H2]. split; [exact H1|]. simpl. apply Forall_app. split; [exact H2|]. constructor; [| constructor]. apply Hb. reflexivity.
  - destruct (p_snap (n_p s)) as [sm |] eqn:Es; simpl; auto. destruct (sn_conf sm); simpl; auto.
    intros [H1 H2]. split; [exact H1|]. simpl. apply Forall_app. split; [exact H2|]. constructor; [| constructor].
    unfold isq1. simpl. apply H1. exact Es.
Qed.

Lemma mx_for_peers ids f s :
  (forall s1 p, mx s1 (f s1 p)) -> mx s (for_peers ids f s).
Proof.
  intro Hf. revert s. induction ids as [| id r IH]; intros s; simpl.
  - apply mk_refl.
  - destruct (peer_get id (l_peers s)); auto. apply mx_bind; auto.
Qed.

Lemma mx_leader_commit_up_to s i : mx s (leader_commit_up_to s i).
Proof.
  unfold leader_commit_up_to. apply mx_bind; [apply mx_commit_up_to|]. intros s1.
  match goal with |- mx s1 (if ?c then _ else _) => destruct c end; mleaf.
Qed.

Lemma mx_leader_maybe_commit s : mx s (leader_maybe_commit s).
Proof.
  unfold leader_maybe_commit. apply mx_bind_pure. intros mi _.
  destruct (n_commit s <? mi) eqn:Ec; [| mleaf]. apply N.ltb_lt in Ec.
  apply mx_bind_pure. intros [t ok] _.
  destruct (negb ok); simpl; auto. destruct (negb (t =? p_term (n_p s))); [mleaf|].
  apply mx_bind; [apply mx_leader_commit_up_to|]. intros s1.
  apply mx_for_peers. intros s2 p. destruct (pr_match p =? last_index (n_p s2)); [apply mx_send_app_ents | mleaf].
Qed.

Lemma mx_fold_enter (others : list nid) li : forall (acc : R node) s,
  mx s acc ->
  mx s (fold_left (fun (acc : R node) (m : nid) =>
                     a <- acc ;;
                     let p := mk_peer m (li + 1) 0 false 0 0 in
                     let a1 := set_leader a (l_check a) (peer_set p (l_peers a)) in
                     send_app_ents a1 p) others acc).
Proof.
  induction others as [| m r IH]; intros acc s H; simpl; auto.
  apply IH. apply mx_bind; auto. intros s1.
  eapply mx_pre; [| apply mx_send_app_ents]. mvol.
Qed.

Lemma mx_enter_leader s : mx s (enter_leader s).
Proof.
  unfold enter_leader. destruct (n_conf s); simpl; auto.
  apply mx_bind.
  - apply mx_fold_enter. mleaf.
  - intros s1. destruct (l_peers s1); [apply mx_leader_maybe_commit | mleaf].
Qed.

Lemma mx_tick_leader s : mx s (tick_leader s).
Proof.
  unfold tick_leader. apply mx_bind.
  - apply mx_for_peers. intros s2 p. destruct (should_send s2 p); [apply mx_send_app_ents | mleaf].
  - intros s1.
    match goal with |- mx s1 (if ?c then _ else _) => destruct c end; [| mleaf].
    apply mx_bind_pure. intros ok _. destruct ok; mleaf.
Qed.

Lemma mx_handle_app_ents_resp s from su ix hi : mx s (handle_app_ents_resp s from su ix hi).
Proof.
  unfold handle_app_ents_resp. destruct (peer_get from (l_peers s)); [| mleaf].
  destruct (ix <? pr_match p); [mleaf|]. destruct (negb su).
  - eapply mx_pre; [| apply mx_send_app_ents]. mvol.
  - match goal with |- mx s (if ?c then _ else _) => destruct c end; simpl; auto.
    apply mx_bind.
    + match goal with |- mx s (if ?c then _ else _) => destruct c end.
      * eapply mx_pre; [| apply mx_send_app_ents]. mvol.
      * mleaf.
    + intros s2. apply mx_leader_maybe_commit.
Qed.

Lemma mx_leader_propose s es : mx s (leader_propose s es).
Proof.
  unfold leader_propose. apply mx_bind; [apply mx_log_append|]. intros s1.
  apply mx_bind.
  - apply mx_for_peers. intros s3 p.
    match goal with |- mx s3 (if ?c then _ else _) => destruct c end; [apply mx_send_app_ents | mleaf].
  - intros s2. destruct (l_peers s2); [apply mx_leader_maybe_commit | mleaf].
Qed.

Lemma mx2_leader_add_node s m rnd : mx2 s (leader_add_node s m rnd).
Proof.
  unfold leader_add_node. apply mx2_bind_pure. intros _ _.
  destruct (n_conf s); simpl; auto.
  destruct (memb m (mb_members m0)); [simpl; apply mk_refl|].
  destruct (negb (latest_conf_committed s)); [simpl; apply mk_refl|].
  eapply mx2_pre; [| apply mx2_of_mx; apply mx_leader_propose]. mvol.
Qed.

Lemma mx2_leader_remove_node s m : mx2 s (leader_remove_node s m).
Proof.
  unfold leader_remove_node. apply mx2_bind_pure. intros _ _.
  destruct (n_conf s); simpl; auto.
  destruct (negb (memb m (mb_members m0))); [simpl; apply mk_refl|].
  destruct (negb (latest_conf_committed s)); [simpl; apply mk_refl|].
  eapply mx2_pre; [| apply mx2_bind; [apply mx_leader_propose |]].
  - mvol.
  - intros s3. apply mx2_of_mx. apply mx_leader_maybe_commit.
Qed.

Lemma mx_handle_leader s m : mx s (handle_leader s m).
Proof.
  unfold handle_leader. destruct (m_body m).
  - exact I.
  - apply mx_handle_app_ents_resp.
  - mleaf.
  - mleaf.
  - exact I.
Qed.

Lemma mx_follower_maybe_commit s lc mi : mx s (follower_maybe_commit s lc mi).
Proof.
  unfold follower_maybe_commit. destruct (n_commit s <? N.min mi lc) eqn:E; [| mleaf].
  apply mx_commit_up_to.
Qed.

Lemma fold_conf_sk (app : list entry) : forall s,
  mk s (fold_left (fun a e => if e_type e =? EntryConf then set_conf a (decode_conf e) else a) app s).
Proof.
  induction app as [| e r IH]; intros s; simpl; [apply mk_refl|].
  destruct (e_type e =? EntryConf); [| apply IH].
  eapply mk_trans; [| apply IH]. mvol.
Qed.

Lemma mx_handle_app_ents s from pi pt cm oes : mx s (handle_app_ents s from pi pt cm oes).
Proof.
  unfold handle_app_ents.
  eapply mx_pre with (s' := set_follower_contact s); [mvol|].
  set (s0 := set_follower_contact s).
  apply mx_bind_pure. intros ok _.
  destruct (negb ok); [mleaf|].
  destruct oes as [ents |].
  2: { eapply mx_pre; [| apply mx_follower_maybe_commit]. msend. }
  apply mx_bind_pure. intros [ci any] _.
  apply mx_bind.
  - destruct any; [| mleaf]. apply mx_bind; [apply mx_do_mut; exact I|]. intros s'.
    destruct (n_conf s'); [| mleaf]. destruct (ci <=? mb_index m); mleaf.
  - intros s1.
    destruct (last_ent_index ents <=? last_index (n_p s1)).
    + eapply mx_pre; [| apply mx_follower_maybe_commit]. msend.
    + destruct ents as [| e0 r]; simpl; auto.
      match goal with |- mx s1 (if ?c then _ else _) => destruct c end; simpl; auto.
      match goal with |- mx s1 (match ?x with _ => _ end) => destruct x as [| a0 ar] eqn:Eapp end; simpl; auto.
      match goal with |- mx s1 (if ?c then _ else _) => destruct c end; simpl; auto.
      match goal with |- mx s1 (bind (log_append ?x _) _) =>
        eapply mx_pre with (s' := x); [apply (fold_conf_sk (a0 :: ar) s1) |] end.
      apply mx_bind; [apply mx_log_append|]. intros s3.
      eapply mx_pre; [| apply mx_follower_maybe_commit]. msend.
Qed.

Lemma mx_handle_snapshot s from li lt c : 1 <= li -> mx s (handle_snapshot s from li lt c).
Proof.
  intro Hli. unfold handle_snapshot.
  eapply mx_pre with (s' := set_follower_contact s); [mvol|].
  set (s0 := set_follower_contact s).
  match goal with |- mx s0 (match ?x with _ => _ end) => destruct x end; [mleaf|].
  apply mx_bind; [apply mx_do_mut; exact Hli|]. intros s1.
  apply mx_bind_pure. intros il _.
  apply mx_bind.
  - destruct il; [apply mx_trim_log|]. apply mx_bind; [apply mx_do_mut; exact I|]. intros s'. mleaf.
  - intros s2. apply mx_bind.
    + destruct (n_commit s2 <? li); [apply mx_commit_up_to | mleaf].
    + intros s3. mleaf.
Qed.

Lemma mx_snapshot_done s m : 1 <= sn_index m -> mx s (snapshot_done s m).
Proof.
  intro Hm. unfold snapshot_done.
  match goal with |- mx s (if ?c then _ else _) => destruct c end; [mleaf|].
  apply mx_bind; [apply mx_do_mut; exact Hm | intros; apply mx_trim_log].
Qed.

Lemma mx2_propose s es : mx2 s (propose s es).
Proof.
  unfold propose. destruct (n_role s); try (simpl; apply mk_refl).
  apply mx2_of_mx. apply mx_leader_propose.
Qed.

Lemma mx2_add_node s m rnd : mx2 s (add_node s m rnd).
Proof. unfold add_node. destruct (n_role s); try (simpl; apply mk_refl). apply mx2_leader_add_node. Qed.

Lemma mx2_remove_node s m : mx2 s (remove_node s m).
Proof. unfold remove_node. destruct (n_role s); try (simpl; apply mk_refl). apply mx2_leader_remove_node. Qed.

(* ---------------------------------------------------------------- the remaining handlers *)
Lemma mx_become_leader s : mx s (become_leader s).
Proof. unfold become_leader. eapply mx_pre; [| apply mx_enter_leader]. mvol. Qed.

Lemma mx_check_if_elected s : mx s (check_if_elected s).
Proof.
  unfold check_if_elected. destruct (n_conf s); simpl; auto.
  destruct (quorum m <=? N.of_nat (length (c_votes s))); [apply mx_become_leader | mleaf].
Qed.

Lemma fold_send_sk (ms : list nid) li lt : forall s,
  mk s (fold_left (fun a m => if m =? n_id a then a else send a m (VoteReq li lt)) ms s).
Proof.
  induction ms as [| m r IH]; intros s; simpl; [apply mk_refl|].
  destruct (m =? n_id s); [apply IH|]. eapply mk_trans; [| apply IH]. mvol.
Qed.

Lemma mx_enter_candidate s : mx s (enter_candidate s).
Proof.
  unfold enter_candidate.
  match goal with |- mx s (if ?c then _ else _) => destruct c end; [mleaf|].
  eapply mx_pre with (s' := set_candidate s (c_timeout s) []); [mvol|].
  apply mx_bind; [apply mx_do_mut; exact I|]. intros s1.
  set (s2 := if in_latest_conf s1 then set_candidate s1 (c_timeout s1) (set_add (n_id s1) (c_votes s1)) else s1).
  assert (H2 : mk s1 s2) by (unfold s2; destruct (in_latest_conf s1); [mvol | apply mk_refl]).
  eapply mx_pre; [exact H2|].
  apply mx_bind_pure. intros [lt ok] _.
  destruct (negb ok); simpl; auto. destruct (n_conf s2); simpl; auto.
  match goal with |- mx s2 (check_if_elected (set_candidate ?x _ _)) =>
    eapply mx_pre with (s' := x); [apply fold_send_sk|];
    eapply mx_pre; [| apply mx_check_if_elected]; mvol end.
Qed.

Lemma mx_become_candidate s : mx s (become_candidate s).
Proof. unfold become_candidate. eapply mx_pre; [| apply mx_enter_candidate]. mvol. Qed.

Lemma mx_handle_candidate s m : mx s (handle_candidate s m).
Proof.
  unfold handle_candidate. destruct (m_body m); try exact I; try mleaf.
  destruct granted; [| mleaf]. eapply mx_pre; [| apply mx_check_if_elected]. mvol.
Qed.

Lemma mx_follower_note_leader s from : mx s (follower_note_leader s from).
Proof.
  unfold follower_note_leader. apply mx_bind.
  - destruct (p_vote (n_p s) =? 0); [apply mx_do_mut; exact I | mleaf].
  - intros s1. destruct (n_leader s1 =? 0); [mleaf|]. destruct (negb (n_leader s1 =? from)); simpl; auto using mk_refl.
Qed.

Lemma mx_handle_follower s m : isq1 m -> mx s (handle_follower s m).
Proof.
  unfold isq1, handle_follower. intro Hq. destruct (m_body m); try mleaf.
  - apply mx_bind; [apply mx_follower_note_leader|]. intros; apply mx_handle_app_ents.
  - apply mx_bind_pure. intros g _. apply mx_bind.
    + destruct g; [apply mx_do_mut; exact I | mleaf].
    + intros; mleaf.
  - apply mx_bind; [apply mx_follower_note_leader|]. intros; apply mx_handle_snapshot; exact Hq.
Qed.

Lemma mx_handle_by_role s m : isq1 m -> mx s (handle_by_role s m).
Proof.
  intro Hq. unfold handle_by_role. destruct (n_role s); [apply mx_handle_follower; exact Hq | apply mx_handle_candidate | apply mx_handle_leader].
Qed.

Lemma mx_handle_msg s m : isq1 m -> mx s (handle_msg s m).
Proof.
  intro Hq. unfold handle_msg.
  match goal with |- mx s (if ?c then _ else _) => destruct c end; [mleaf|].
  match goal with |- mx s (if ?c then _ else _) => destruct c end; [mleaf|].
  apply mx_bind.
  - match goal with |- mx s (if ?c then _ else _) => destruct c end; [apply mx_do_mut; exact I | mleaf].
  - intros s1.
    match goal with |- mx s1 (if ?c then _ else _) => destruct c end; [mleaf|].
    destruct (m_term m <? p_term (n_p s1)); [mleaf|].
    apply mx_bind; [| intros; apply mx_handle_by_role; exact Hq].
    destruct (p_term (n_p s1) <? m_term m); [| mleaf].
    destruct (m_body m); simpl; auto; (apply mx_bind; [apply mx_do_mut; exact I | intros; mleaf]).
Qed.

Lemma mx_tick s : mx s (tick s).
Proof.
  unfold tick.
  set (s0 := set_elapsed s ((n_elapsed s + 1) mod 4294967296)).
  eapply mx_pre with (s' := s0); [mvol|].
  destruct (n_role s0).
  - match goal with |- mx s0 (if ?c then _ else _) => destruct c end; [apply mx_become_candidate | mleaf].
  - match goal with |- mx s0 (if ?c then _ else _) => destruct c end; [apply mx_become_candidate | mleaf].
  - apply mx_tick_leader.
Qed.

Lemma mx2_propose_initial s ms ep : mx2 s (propose_initial_membership s ms ep).
Proof.
  unfold propose_initial_membership.
  destruct (n_role s); try (simpl; apply mk_refl).
  destruct (is_clean (n_p s)); [| simpl; apply mk_refl].
  apply mx2_bind; [apply mx_do_mut; exact I|]. intros s1.
  apply mx2_bind; [apply mx_log_append|]. intros s2. simpl. mvol.
Qed.



(* ---------------------------------------------------------------- every event, with a crash point *)
Theorem emitted_install_snapshot_index_positive s ev k crashed st s' :
  snap1 (n_p s) ->
  (forall m, ev = EDeliver m -> isq1 m) -> (forall m, ev = ESnapDone m -> 1 <= sn_index m) ->
  run_event_crash (settle s) ev k = Ret (crashed, st, s') -> Forall isq1 (n_msgs s').
Proof.
  intros Hs1 Hd Hsd. unfold run_event_crash. set (s0 := with_budget (settle s) k).
  assert (Hs0 : jq s0) by (split; [exact Hs1 | simpl; constructor]).
  destruct (run_event s0 ev) as [[st0 y] | c | p] eqn:E; try discriminate.
  - intro H. inversion H. subst. simpl.
    destruct ev; simpl in E.
    + pose proof (mx2_propose_initial s0 members epoch) as K. rewrite E in K. exact (proj2 (K Hs0)).
    + unfold wrap0 in E. pose proof (mx_handle_msg s0 m (Hd m eq_refl)) as K. destruct (handle_msg s0 m); simpl in E; try discriminate.
      inversion E. subst. exact (proj2 (K Hs0)).
    + unfold wrap0 in E. pose proof (mx_tick s0) as K. destruct (tick s0); simpl in E; try discriminate.
      inversion E. subst. exact (proj2 (K Hs0)).
    + pose proof (mx2_propose s0 es) as K. rewrite E in K. exact (proj2 (K Hs0)).
    + pose proof (mx2_add_node s0 member rnd) as K. rewrite E in K. exact (proj2 (K Hs0)).
    + pose proof (mx2_remove_node s0 member) as K. rewrite E in K. exact (proj2 (K Hs0)).
    + unfold wrap0 in E. pose proof (mx_snapshot_done s0 m (Hsd m eq_refl)) as K. destruct (snapshot_done s0 m); simpl in E; try discriminate.
      inversion E. subst. exact (proj2 (K Hs0)).
    + unfold wrap0 in E. simpl in E. pose proof (new_core_pext (n_id s) (n_cfg s) (n_p s)) as Np.
      destruct (new_core (n_id s) (n_cfg s) (n_p s)) as [z | |] eqn:En; simpl in E; try discriminate.
      inversion E. subst. destruct Np as [_ [_ [_ [_ Nm]]]]. rewrite Nm. constructor.
  - intro H. simpl in H. pose proof (new_core_pext (n_id s) (n_cfg s) p) as Np.
    destruct (new_core (n_id s) (n_cfg s) p) as [z | |] eqn:En; simpl in H; try discriminate.
    inversion H. subst. simpl. destruct Np as [_ [_ [_ [_ Nm]]]]. rewrite Nm. constructor.
Qed.
