(* Raft/NodeMono.v — two more facts about every handler that does not restart the node:
     the commit index never decreases;
     the persistent state is exactly the replay of the recorded durable mutations ([n_muts]) — the handler "re-expressed
     as the ordered list of durable mutations it performs" equals the monolithic handler when run to the end. *)
From Coq Require Import List NArith ZArith Bool Lia.
From BLB Require Import Raft.Core Raft.NodeProofs.
Import ListNotations.
Open Scope N_scope.

Definition replay (base : pstate) (ms : list mut) : pstate := fold_left apply_mut ms base.

Definition mono (s s' : node) : Prop :=
  n_commit s <= n_commit s' /\
  (forall base, n_p s = replay base (n_muts s) -> n_p s' = replay base (n_muts s')).

Lemma mono_refl s : mono s s.
Proof. unfold mono. split; auto. lia. Qed.

Lemma mono_trans a b c : mono a b -> mono b c -> mono a c.
Proof. unfold mono. intros [A1 A2] [B1 B2]. split; [lia | auto]. Qed.

Lemma mono_vol s s' : n_commit s <= n_commit s' -> n_p s' = n_p s -> n_muts s' = n_muts s -> mono s s'.
Proof. intros A B C. unfold mono. rewrite B, C. auto. Qed.

Definition mx (s : node) (r : R node) : Prop := match r with Ret s' => mono s s' | _ => True end.
Definition mx2 (s : node) (r : R (N * node)) : Prop := match r with Ret (_, s') => mono s s' | _ => True end.

Lemma mx_bind s (a : R node) (f : node -> R node) :
  mx s a -> (forall s1, mx s1 (f s1)) -> mx s (bind a f).
Proof.
  intros Ha Hf. destruct a as [s1 | c | p]; simpl in *; auto.
  specialize (Hf s1). destruct (f s1); simpl in *; auto. eapply mono_trans; eauto.
Qed.

Lemma mx_bind_pure {A} s (a : R A) (f : A -> R node) :
  (forall x, a = Ret x -> mx s (f x)) -> mx s (bind a f).
Proof. intros Hf. destruct a; simpl in *; auto. Qed.

Lemma mx_pre s s' r : mono s s' -> mx s' r -> mx s r.
Proof. intros H K. destruct r; simpl in *; auto. eapply mono_trans; eauto. Qed.

Lemma mx2_bind s (a : R node) (f : node -> R (N * node)) :
  mx s a -> (forall s1, mx2 s1 (f s1)) -> mx2 s (bind a f).
Proof.
  intros Ha Hf. destruct a as [s1 | c | p]; simpl in *; auto.
  specialize (Hf s1). destruct (f s1) as [[st s2] | |]; simpl in *; auto. eapply mono_trans; eauto.
Qed.

Lemma mx2_bind_pure {A} s (a : R A) (f : A -> R (N * node)) :
  (forall x, a = Ret x -> mx2 s (f x)) -> mx2 s (bind a f).
Proof. intros Hf. destruct a; simpl in *; auto. Qed.

Lemma mx2_pre s s' r : mono s s' -> mx2 s' r -> mx2 s r.
Proof. intros H K. destruct r as [[st x] | |]; simpl in *; auto. eapply mono_trans; eauto. Qed.

Lemma mx2_of_mx s r st : mx s r -> mx2 s (s1 <- r ;; Ret (st, s1)).
Proof. destruct r; simpl; auto. Qed.

Ltac kvol := apply mono_vol; simpl; auto; try lia.
Ltac kleaf := simpl; solve [kvol].
Ltac ksend := kleaf.

Lemma mx_do_mut s m : mx s (do_mut m s).
Proof.
  unfold do_mut. destruct (negb (n_budget s =? 0) && (n_budget s =? n_cnt s + 1)); simpl; auto.
  unfold mono. simpl. split; [lia|]. intros base H. unfold replay. rewrite fold_left_app. simpl.
  unfold replay in H. rewrite <- H. reflexivity.
Qed.

(* ---------------------------------------------------------------- handlers *)
Lemma mx_log_append s es : mx s (log_append s es).
Proof.
  unfold log_append. apply mx_bind; [apply mx_do_mut|].
  intros s1. destruct (snd (mem_append (p_log (n_p s)) es)); simpl; auto using mono_refl.
Qed.

Lemma mx_commit_up_to s i : n_commit s <= i -> mx s (commit_up_to s i).
Proof.
  intro Hi. unfold commit_up_to.
  destruct (p_snap (n_p s)) as [m |].
  - destruct (n_commit s <? sn_index m) eqn:E.
    + apply N.ltb_lt in E. destruct (negb (sn_index m =? i)); simpl; auto. kvol.
    + apply mx_bind_pure. intros ents _.
      match goal with |- mx s (if ?c then _ else _) => destruct c end; [| kleaf].
      match goal with |- mx s (match ?x with _ => _ end) => destruct x eqn:E2 end; simpl; auto.
      eapply mx_pre; [| apply mx_do_mut]. kvol.
  - apply mx_bind_pure. intros ents _.
    match goal with |- mx s (if ?c then _ else _) => destruct c end; [| kleaf].
    match goal with |- mx s (match ?x with _ => _ end) => destruct x eqn:E2 end; simpl; auto.
    eapply mx_pre; [| apply mx_do_mut]. kvol.
Qed.

Lemma mx_trim_log s i : mx s (trim_log s i).
Proof.
  unfold trim_log. destruct (log_first (p_log (n_p s))); [| kleaf]. destruct (log_last (p_log (n_p s))); [| kleaf].
  destruct (i =? n - 1); [kleaf|]. destruct ((i <? n) || (n0 <? i)); simpl; auto.
  destruct (i - n <? cf_keep (n_cfg s)); [kleaf|]. apply mx_do_mut.
Qed.

Lemma mx_send_app_ents s p : mx s (send_app_ents s p).
Proof.
  unfold send_app_ents. apply mx_bind_pure. intros ob Hob.
  destruct ob as [b |].
  - kleaf.
  - destruct (p_snap (n_p s)); simpl; auto. destruct (sn_conf s0); simpl; auto. kvol.
Qed.

Lemma mx_for_peers ids f s :
  (forall s1 p, mx s1 (f s1 p)) -> mx s (for_peers ids f s).
Proof.
  intro Hf. revert s. induction ids as [| id r IH]; intros s; simpl.
  - apply mono_refl.
  - destruct (peer_get id (l_peers s)); auto. apply mx_bind; auto.
Qed.

Lemma mx_leader_commit_up_to s i : n_commit s <= i -> mx s (leader_commit_up_to s i).
Proof.
  intro Hi. unfold leader_commit_up_to. apply mx_bind; [apply mx_commit_up_to; exact Hi|]. intros s1.
  match goal with |- mx s1 (if ?c then _ else _) => destruct c end; kleaf.
Qed.

Lemma mx_leader_maybe_commit s : mx s (leader_maybe_commit s).
Proof.
  unfold leader_maybe_commit. apply mx_bind_pure. intros mi _.
  destruct (n_commit s <? mi) eqn:Ec; [| kleaf]. apply N.ltb_lt in Ec.
  apply mx_bind_pure. intros [t ok] _.
  destruct (negb ok); simpl; auto. destruct (negb (t =? p_term (n_p s))); [kleaf|].
  apply mx_bind; [apply mx_leader_commit_up_to; lia|]. intros s1.
  apply mx_for_peers. intros s2 p. destruct (pr_match p =? last_index (n_p s2)); [apply mx_send_app_ents | kleaf].
Qed.

Lemma mx_fold_enter (others : list nid) li : forall (acc : R node) s,
  mx s acc ->
  mx s (fold_left (fun (acc : R node) (m : nid) =>
                     a <- acc ;;
                     let p := mk_peer m (li + 1) 0 false 0 0 in
                     let a1 := set_leader a (l_check a) (peer_set p (l_peers a)) in
                     send_app_ents a1 p) others acc).
Proof.
  induction others as [| m r IH]; intros acc s H; simpl; auto.
  apply IH. apply mx_bind; auto. intros s1.
  eapply mx_pre; [| apply mx_send_app_ents]. kvol.
Qed.

Lemma mx_enter_leader s : mx s (enter_leader s).
Proof.
  unfold enter_leader. destruct (n_conf s); simpl; auto.
  apply mx_bind.
  - apply mx_fold_enter. kleaf.
  - intros s1. destruct (l_peers s1); [apply mx_leader_maybe_commit | kleaf].
Qed.

Lemma mx_tick_leader s : mx s (tick_leader s).
Proof.
  unfold tick_leader. apply mx_bind.
  - apply mx_for_peers. intros s2 p. destruct (should_send s2 p); [apply mx_send_app_ents | kleaf].
  - intros s1.
    match goal with |- mx s1 (if ?c then _ else _) => destruct c end; [| kleaf].
    apply mx_bind_pure. intros ok _. destruct ok; kleaf.
Qed.

Lemma mx_handle_app_ents_resp s from su ix hi : mx s (handle_app_ents_resp s from su ix hi).
Proof.
  unfold handle_app_ents_resp. destruct (peer_get from (l_peers s)); [| kleaf].
  destruct (ix <? pr_match p); [kleaf|]. destruct (negb su).
  - eapply mx_pre; [| apply mx_send_app_ents]. kvol.
  - match goal with |- mx s (if ?c then _ else _) => destruct c end; simpl; auto.
    apply mx_bind.
    + match goal with |- mx s (if ?c then _ else _) => destruct c end.
      * eapply mx_pre; [| apply mx_send_app_ents]. kvol.
      * kleaf.
    + intros s2. apply mx_leader_maybe_commit.
Qed.

Lemma mx_leader_propose s es : mx s (leader_propose s es).
Proof.
  unfold leader_propose. apply mx_bind; [apply mx_log_append|]. intros s1.
  apply mx_bind.
  - apply mx_for_peers. intros s3 p.
    match goal with |- mx s3 (if ?c then _ else _) => destruct c end; [apply mx_send_app_ents | kleaf].
  - intros s2. destruct (l_peers s2); [apply mx_leader_maybe_commit | kleaf].
Qed.

Lemma mx2_leader_add_node s m rnd : mx2 s (leader_add_node s m rnd).
Proof.
  unfold leader_add_node. apply mx2_bind_pure. intros _ _.
  destruct (n_conf s); simpl; auto.
  destruct (memb m (mb_members m0)); [simpl; apply mono_refl|].
  destruct (negb (latest_conf_committed s)); [simpl; apply mono_refl|].
  eapply mx2_pre; [| apply mx2_of_mx; apply mx_leader_propose]. kvol.
Qed.

Lemma mx2_leader_remove_node s m : mx2 s (leader_remove_node s m).
Proof.
  unfold leader_remove_node. apply mx2_bind_pure. intros _ _.
  destruct (n_conf s); simpl; auto.
  destruct (negb (memb m (mb_members m0))); [simpl; apply mono_refl|].
  destruct (negb (latest_conf_committed s)); [simpl; apply mono_refl|].
  eapply mx2_pre; [| apply mx2_bind; [apply mx_leader_propose |]].
  - kvol.
  - intros s3. apply mx2_of_mx. apply mx_leader_maybe_commit.
Qed.

Lemma mx_handle_leader s m : mx s (handle_leader s m).
Proof.
  unfold handle_leader. destruct (m_body m).
  - exact I.
  - apply mx_handle_app_ents_resp.
  - kleaf.
  - kleaf.
  - exact I.
Qed.

Lemma mx_follower_maybe_commit s lc mi : mx s (follower_maybe_commit s lc mi).
Proof.
  unfold follower_maybe_commit. destruct (n_commit s <? N.min mi lc) eqn:E; [| kleaf].
  apply N.ltb_lt in E. apply mx_commit_up_to. lia.
Qed.

Lemma fold_conf_mono (app : list entry) : forall s,
  mono s (fold_left (fun a e => if e_type e =? EntryConf then set_conf a (decode_conf e) else a) app s).
Proof.
  induction app as [| e r IH]; intros s; simpl; [apply mono_refl|].
  destruct (e_type e =? EntryConf); [| apply IH].
  eapply mono_trans; [| apply IH]. kvol.
Qed.

Lemma mx_handle_app_ents s from pi pt cm oes : mx s (handle_app_ents s from pi pt cm oes).
Proof.
  unfold handle_app_ents.
  eapply mx_pre with (s' := set_follower_contact s); [kvol|].
  set (s0 := set_follower_contact s).
  apply mx_bind_pure. intros ok _.
  destruct (negb ok); [kleaf|].
  destruct oes as [ents |].
  2: { eapply mx_pre; [| apply mx_follower_maybe_commit]. ksend. }
  apply mx_bind_pure. intros [ci any] _.
  apply mx_bind.
  - destruct any; [| kleaf]. apply mx_bind; [apply mx_do_mut|]. intros s'.
    destruct (n_conf s'); [| kleaf]. destruct (ci <=? mb_index m); kleaf.
  - intros s1.
    destruct (last_ent_index ents <=? last_index (n_p s1)).
    + eapply mx_pre; [| apply mx_follower_maybe_commit]. ksend.
    + destruct ents as [| e0 r]; simpl; auto.
      match goal with |- mx s1 (if ?c then _ else _) => destruct c end; simpl; auto.
      match goal with |- mx s1 (match ?x with _ => _ end) => destruct x as [| a0 ar] eqn:Eapp end; simpl; auto.
      match goal with |- mx s1 (if ?c then _ else _) => destruct c end; simpl; auto.
      match goal with |- mx s1 (bind (log_append ?x _) _) =>
        eapply mx_pre with (s' := x); [apply (fold_conf_mono (a0 :: ar) s1) |] end.
      apply mx_bind; [apply mx_log_append|]. intros s3.
      eapply mx_pre; [| apply mx_follower_maybe_commit]. ksend.
Qed.

Lemma mx_handle_snapshot s from li lt c : mx s (handle_snapshot s from li lt c).
Proof.
  unfold handle_snapshot.
  eapply mx_pre with (s' := set_follower_contact s); [kvol|].
  set (s0 := set_follower_contact s).
  match goal with |- mx s0 (match ?x with _ => _ end) => destruct x end; [kleaf|].
  apply mx_bind; [apply mx_do_mut|]. intros s1.
  apply mx_bind_pure. intros il _.
  apply mx_bind.
  - destruct il; [apply mx_trim_log|]. apply mx_bind; [apply mx_do_mut|]. intros; kleaf.
  - intros s2. apply mx_bind.
    + destruct (n_commit s2 <? li) eqn:E; [apply N.ltb_lt in E; apply mx_commit_up_to; lia | kleaf].
    + intros s3. kleaf.
Qed.

Lemma mx_snapshot_done s m : mx s (snapshot_done s m).
Proof.
  unfold snapshot_done.
  match goal with |- mx s (if ?c then _ else _) => destruct c end; [kleaf|].
  apply mx_bind; [apply mx_do_mut | intros; apply mx_trim_log].
Qed.

Lemma mx2_propose s es : mx2 s (propose s es).
Proof.
  unfold propose. destruct (n_role s); try (simpl; apply mono_refl).
  apply mx2_of_mx. apply mx_leader_propose.
Qed.

Lemma mx2_add_node s m rnd : mx2 s (add_node s m rnd).
Proof. unfold add_node. destruct (n_role s); try (simpl; apply mono_refl). apply mx2_leader_add_node. Qed.

Lemma mx2_remove_node s m : mx2 s (remove_node s m).
Proof. unfold remove_node. destruct (n_role s); try (simpl; apply mono_refl). apply mx2_leader_remove_node. Qed.

(* ---------------------------------------------------------------- the remaining handlers *)
Lemma mx_become_leader s : mx s (become_leader s).
Proof. unfold become_leader. eapply mx_pre; [| apply mx_enter_leader]. kvol. Qed.

Lemma mx_check_if_elected s : mx s (check_if_elected s).
Proof.
  unfold check_if_elected. destruct (n_conf s); simpl; auto.
  destruct (quorum m <=? N.of_nat (length (c_votes s))); [apply mx_become_leader | kleaf].
Qed.

Lemma fold_send_mono (ms : list nid) b : forall s,
  mono s (fold_left (fun a m => if m =? n_id a then a else send a m b) ms s).
Proof.
  induction ms as [| m r IH]; intros s; simpl; [apply mono_refl|].
  destruct (m =? n_id s); [apply IH|]. eapply mono_trans; [| apply IH]. kvol.
Qed.

Lemma mx_enter_candidate s : mx s (enter_candidate s).
Proof.
  unfold enter_candidate.
  match goal with |- mx s (if ?c then _ else _) => destruct c end; [kleaf|].
  eapply mx_pre with (s' := set_candidate s (c_timeout s) []); [kvol|].
  apply mx_bind; [apply mx_do_mut|]. intros s1.
  set (s2 := if in_latest_conf s1 then set_candidate s1 (c_timeout s1) (set_add (n_id s1) (c_votes s1)) else s1).
  assert (H2 : mono s1 s2) by (unfold s2; destruct (in_latest_conf s1); [kvol | apply mono_refl]).
  eapply mx_pre; [exact H2|].
  apply mx_bind_pure. intros [lt ok] _.
  destruct (negb ok); simpl; auto. destruct (n_conf s2); simpl; auto.
  match goal with |- mx s2 (check_if_elected (set_candidate ?x _ _)) =>
    eapply mx_pre with (s' := x); [apply fold_send_mono|];
    eapply mx_pre; [| apply mx_check_if_elected]; kvol end.
Qed.

Lemma mx_become_candidate s : mx s (become_candidate s).
Proof. unfold become_candidate. eapply mx_pre; [| apply mx_enter_candidate]. kvol. Qed.

Lemma mx_handle_candidate s m : mx s (handle_candidate s m).
Proof.
  unfold handle_candidate. destruct (m_body m); try exact I; try kleaf.
  destruct granted; [| kleaf]. eapply mx_pre; [| apply mx_check_if_elected]. kvol.
Qed.

Lemma mx_follower_note_leader s from : mx s (follower_note_leader s from).
Proof.
  unfold follower_note_leader. apply mx_bind.
  - destruct (p_vote (n_p s) =? 0); [apply mx_do_mut | kleaf].
  - intros s1. destruct (n_leader s1 =? 0); [kleaf|]. destruct (negb (n_leader s1 =? from)); simpl; auto using mono_refl.
Qed.

Lemma mx_handle_follower s m : mx s (handle_follower s m).
Proof.
  unfold handle_follower. destruct (m_body m); try kleaf.
  - apply mx_bind; [apply mx_follower_note_leader|]. intros; apply mx_handle_app_ents.
  - apply mx_bind_pure. intros g _. apply mx_bind.
    + destruct g; [apply mx_do_mut | kleaf].
    + intros; kleaf.
  - apply mx_bind; [apply mx_follower_note_leader|]. intros; apply mx_handle_snapshot.
Qed.

Lemma mx_handle_by_role s m : mx s (handle_by_role s m).
Proof.
  unfold handle_by_role. destruct (n_role s); [apply mx_handle_follower | apply mx_handle_candidate | apply mx_handle_leader].
Qed.

Lemma mx_handle_msg s m : mx s (handle_msg s m).
Proof.
  unfold handle_msg.
  match goal with |- mx s (if ?c then _ else _) => destruct c end; [kleaf|].
  match goal with |- mx s (if ?c then _ else _) => destruct c end; [kleaf|].
  apply mx_bind.
  - match goal with |- mx s (if ?c then _ else _) => destruct c end; [apply mx_do_mut | kleaf].
  - intros s1.
    match goal with |- mx s1 (if ?c then _ else _) => destruct c end; [kleaf|].
    destruct (m_term m <? p_term (n_p s1)); [kleaf|].
    apply mx_bind; [| intros; apply mx_handle_by_role].
    destruct (p_term (n_p s1) <? m_term m); [| kleaf].
    destruct (m_body m); simpl; auto; (apply mx_bind; [apply mx_do_mut | intros; kleaf]).
Qed.

Lemma mx_tick s : mx s (tick s).
Proof.
  unfold tick.
  set (s0 := set_elapsed s ((n_elapsed s + 1) mod 4294967296)).
  eapply mx_pre with (s' := s0); [kvol|].
  destruct (n_role s0).
  - match goal with |- mx s0 (if ?c then _ else _) => destruct c end; [apply mx_become_candidate | kleaf].
  - match goal with |- mx s0 (if ?c then _ else _) => destruct c end; [apply mx_become_candidate | kleaf].
  - apply mx_tick_leader.
Qed.

Lemma mx2_propose_initial s ms ep : mx2 s (propose_initial_membership s ms ep).
Proof.
  unfold propose_initial_membership.
  destruct (n_role s); try (simpl; apply mono_refl).
  destruct (is_clean (n_p s)); [| simpl; apply mono_refl].
  apply mx2_bind; [apply mx_do_mut|]. intros s1.
  apply mx2_bind; [apply mx_log_append|]. intros s2. simpl. kvol.
Qed.

(* every event except Restart *)
Theorem run_event_mono s ev st s' :
  ev <> ERestart -> run_event s ev = Ret (st, s') ->
  n_commit s <= n_commit s' /\
  (n_muts s = [] -> n_p s' = replay (n_p s) (n_muts s')).
Proof.
  intros Hne H.
  assert (M : mono s s').
  { destruct ev; simpl in H.
    - pose proof (mx2_propose_initial s members epoch) as K. rewrite H in K. exact K.
    - unfold wrap0 in H. pose proof (mx_handle_msg s m) as K. destruct (handle_msg s m); simpl in H; try discriminate.
      inversion H. subst. exact K.
    - unfold wrap0 in H. pose proof (mx_tick s) as K. destruct (tick s); simpl in H; try discriminate.
      inversion H. subst. exact K.
    - pose proof (mx2_propose s es) as K. rewrite H in K. exact K.
    - pose proof (mx2_add_node s member rnd) as K. rewrite H in K. exact K.
    - pose proof (mx2_remove_node s member) as K. rewrite H in K. exact K.
    - unfold wrap0 in H. pose proof (mx_snapshot_done s m) as K. destruct (snapshot_done s m); simpl in H; try discriminate.
      inversion H. subst. exact K.
    - congruence. }
  destruct M as [A B]. split; auto. intro Hm. apply B. rewrite Hm. reflexivity.
Qed.
