(* Raft/MemberSnapNode.v — round 10: node-level facts of one event on a node WITH a snapshot, stated on its virtual node
   (Raft/LogMatchNodeSQ.v), in the form the abstract step of Raft/MemberStepV.v takes them. *)
From Coq Require Import List NArith ZArith Bool Lia ZifyN ZifyNat ZifyBool.
From BLB Require Import Lib.LTS Raft.Core Raft.Wire Raft.NodeProofs Raft.NodeKeep Raft.NodeElect Raft.NodeConf Raft.Election
  Raft.LogMatchLists Raft.CommitCount Raft.LogMatchNodeQ Raft.LogMatch Raft.SnapContig Raft.LogMatchNodeMQ Raft.LogMatchNodeSQ
  Raft.LogMatchNodeSMQ Raft.SnapVirtualQ Raft.SnapEventsQ Raft.InvWeaken Raft.MemberConfTrack Raft.SnapConfTrack.
Import ListNotations.
Open Scope N_scope.

(* ---------------------------------------------------------------- the abstract node step of a virtual node, from a real run *)
Definition NIQ (v : node) (ev : event) (k : N) (v' : node) : Prop :=
  LogMatchNodeQ.inv (with_budget (settle v) k) (LogMatchNodeQ.inp_of ev) (LogMatchNodeQ.boot_of ev) (LogMatchNodeQ.rt_of ev)
    (LogMatchNodeQ.vq_of ev) (LogMatchNodeQ.lq_of v) (LogMatchNodeQ.dc_of ev) (LogMatchNodeQ.rsp_of ev) v'.

Lemma NIQ_nstep_inv v ev k v' : NIQ v ev k v' ->
  LogMatchNode.inv (with_budget (settle v) k) (LogMatchNode.inp_of ev) (LogMatchNode.boot_of ev) (LogMatchNode.rt_of ev)
    (LogMatchNode.vq_of ev) (LogMatchNode.lq_of v) (LogMatchNode.dc_of ev) (LogMatchNode.rsp_of ev) v'.
Proof. intro H. exact (invQ_inv_ev _ _ _ _ H). Qed.

Lemma vstep_generic C s ev k crashed st s' :
  LogMatchNodeQ.base (vn C s) -> shape C (n_p s) (n_commit s) -> LogMatchNodeMQ.evokM s ev -> premE C s ev ->
  run_event_crash (settle s) ev k = Ret (crashed, st, s') ->
  nstep (vn C s) ev k (vn C s') /\ NIQ (vn C s) ev k (vn C s') /\ shape C (n_p s') (n_commit s').
Proof.
  intros Hb Hsh He Hp Hrun. destruct (run_event_crash_lm_SM C s ev k crashed st s' Hb Hsh He Hp Hrun) as [NI Sh'].
  split; [| split; [exact NI | exact Sh']]. destruct (step_facts _ _ _ _ _ _ Hrun) as [Hid [Hpx [Hm Hs]]].
  constructor.
  - exact Hid.
  - exact Hpx.
  - apply msgs_ok_vn. exact Hm.
  - exact Hs.
  - intros m Em. subst ev. destruct (deliver_term _ _ _ _ _ _ Hrun) as [D | D]; [left; simpl; rewrite D; reflexivity | right; exact D].
  - apply NIQ_nstep_inv. exact NI.
Qed.

(* ---------------------------------------------------------------- the configuration of the logical log *)
(* the snapshot metadata carries the configuration of the prefix it covers *)
Definition shapeC (C : list entry) (p : pstate) : Prop :=
  match p_snap p with
  | None => True
  | Some m => sn_conf m = lconf (firstn (N.to_nat (sn_index m)) (C ++ p_log p))
  end.

Lemma lconf_fold l app : lconf (l ++ app) = fold_left cstep app (lconf l).
Proof. rewrite lconf_app. reflexivity. Qed.

Lemma iconf_lconf_gen C p :
  wf_from 1 (C ++ p_log p) ->
  match p_snap p with
  | None => C = []
  | Some m => N.of_nat (length C) <= sn_index m /\ sn_index m <= N.of_nat (length (C ++ p_log p))
  end ->
  shapeC C p -> iconf p = lconf (C ++ p_log p).
Proof.
  intros Wf Sx Hc. unfold iconf. rewrite (dlat_fold (slat p) _ None). change (dlat (slat p) None) with (slat p).
  apply wf_from_app in Wf. destruct Wf as [WC Wl].
  unfold shapeC in Hc. unfold slat, dropf, sidx. destruct (p_snap p) as [m |] eqn:Es.
  - destruct Sx as [S1 S2].
    rewrite (drop_while_lt (1 + N.of_nat (length C)) (sn_index m + 1) (p_log p) Wl) by lia.
    rewrite <- (firstn_skipn (N.to_nat (sn_index m)) (C ++ p_log p)). rewrite lconf_fold, <- Hc. f_equal.
    rewrite skipn_app. rewrite (skipn_all2 C) by lia. cbn [app]. f_equal. lia.
  - subst C. assert (W1 : wf_from 1 (p_log p)) by exact Wl.
    rewrite (drop_while_lt 1 (0 + 1) (p_log p) W1) by lia. change (N.to_nat (0 + 1 - 1)) with 0%nat. cbn [skipn app].
    rewrite <- (app_nil_l (p_log p)) at 2. rewrite lconf_fold. reflexivity.
Qed.

Lemma iconf_lconf C p cm : shape C p cm -> shapeC C p -> iconf p = lconf (C ++ p_log p).
Proof.
  intros [Wf Sx] Hc. apply iconf_lconf_gen; [exact Wf | | exact Hc]. destruct (p_snap p); [tauto | exact Sx].
Qed.

(* invariant (a) of round 9 on the real node is invariant (a) of round 7 on the virtual node *)
Lemma ctw_vn C s cm :
  shape C (n_p s) cm -> shapeC C (n_p s) -> n_conf s = init_latest_conf (n_p s) -> ctw (vn C s).
Proof.
  intros Sh Hc Hn. pose proof Sh as [Wf _].
  assert (Hi : ipos (C ++ p_log (n_p s))).
  { pose proof (wf_from_ge _ _ Wf) as X. eapply Forall_impl; [| exact X]. intros e He. exact He. }
  split; [reflexivity|]. split; [exact Hi|]. unfold ct. simpl.
  rewrite Hn. rewrite init_iconf.
  - apply (iconf_lconf C (n_p s) cm Sh Hc).
  - apply Forall_app in Hi. tauto.
Qed.

(* a SnapshotDone whose metadata names the configuration of the logical prefix it covers satisfies the side condition
   snap_conf_ok of round 9 (so that condition says no more than "the state machine reports the membership as of the applied
   index it snapshots") *)
Lemma snap_conf_ok_of_prefix C s m cm :
  shape C (n_p s) cm -> shapeC C (n_p s) -> n_conf s = init_latest_conf (n_p s) ->
  N.of_nat (length C) <= sn_index m -> sn_index m <= N.of_nat (length (C ++ p_log (n_p s))) ->
  sn_conf m = lconf (firstn (N.to_nat (sn_index m)) (C ++ p_log (n_p s))) ->
  snap_conf_ok s m.
Proof.
  intros Sh Hc Hn H1 H2 Hm. unfold snap_conf_ok.
  pose proof (ctw_vn C s cm Sh Hc Hn) as [_ [_ Hct]]. unfold ct in Hct. simpl in Hct. rewrite Hct.
  pose proof Sh as [Wf _].
  apply (iconf_lconf_gen C (snapped (n_p s) m)); [exact Wf | simpl; split; assumption | unfold shapeC; simpl; exact Hm].
Qed.

(* ---------------------------------------------------------------- SnapshotDone and InstallSnap deliveries as abstract steps *)
Lemma vstep_snapdone C s m k crashed st s' :
  LogMatchNodeQ.base (vn C s) -> shape C (n_p s) (n_commit s) ->
  (match p_snap (n_p s) with Some cur => sn_index m <=? sn_index cur | None => false end = false -> legitS C s m) ->
  run_event_crash (settle s) (ESnapDone m) k = Ret (crashed, st, s') ->
  exists C', C' ++ p_log (n_p s') = C ++ p_log (n_p s) /\ shape C' (n_p s') (n_commit s') /\
             nstep (vn C s) ETick k (vn C' s') /\ NIQ (vn C s) ETick k (vn C' s').
Proof.
  intros Hb Sh Lg Hrun. destruct (snapdone_invQ C s m k crashed st s' Hb Sh Lg Hrun) as [C' [HL [Sh' NI]]].
  exists C'. split; [exact HL|]. split; [exact Sh'|]. split; [| exact NI].
  destruct (step_facts _ _ _ _ _ _ Hrun) as [Hid [Hpx [Hm Hs]]].
  constructor; auto.
  - apply msgs_ok_vn. exact Hm.
  - intros m0 E. discriminate.
  - apply NIQ_nstep_inv. exact NI.
Qed.

Lemma esum_other s s' m om' : esum s s' (Some m) -> m_body m <> VoteResp true -> esum s s' om'.
Proof.
  intros H Hb Hr. destruct (H Hr) as [A [B D]]. split; [| split; [exact B | exact D]].
  intros v Hv. destruct (A v Hv) as [X | [X | [m0 [E [Y _]]]]]; [left; exact X | right; left; exact X|].
  inversion E. subst m0. contradiction.
Qed.

Lemma vstep_install C s m li lt cf Cs k crashed st s' :
  LogMatchNodeQ.base (vn C s) -> shape C (n_p s) (n_commit s) -> m_body m = InstallSnap li lt cf ->
  (p_term (n_p s) <= m_term m -> premV C (with_budget (settle (vn C s)) k) (n_p s) (m_term m) Cs li lt) ->
  run_event_crash (settle s) (EDeliver m) k = Ret (crashed, st, s') ->
  exists C', nstep (vn C s) (EDeliver (vmsg m Cs li)) k (vn C' s') /\ NIQ (vn C s) (EDeliver (vmsg m Cs li)) k (vn C' s') /\
             shape C' (n_p s') (n_commit s') /\ incl C' (C ++ p_log (n_p s) ++ Cs).
Proof.
  intros Hb Sh Hbody Hp Hrun.
  destruct (install_snapshot_lm_S C s m li lt cf Cs k crashed st s' Hb Sh Hbody Hp Hrun) as [C' [NI [Sh' Hi']]].
  exists C'. split; [| split; [exact NI | split; [exact Sh' | exact Hi']]].
  destruct (step_facts _ _ _ _ _ _ Hrun) as [Hid [Hpx [Hm Hs]]].
  constructor.
  - exact Hid.
  - exact Hpx.
  - apply msgs_ok_vn. exact Hm.
  - simpl in Hs. simpl. eapply esum_other; [exact Hs|]. rewrite Hbody. discriminate.
  - intros m0 Em. inversion Em. subst m0. destruct (deliver_term _ _ _ _ _ _ Hrun) as [D | D]; [left; simpl; rewrite D; reflexivity | right; exact D].
  - apply NIQ_nstep_inv. exact NI.
Qed.
