(* Raft/CombinedRunC.v — round 12: the 20-step combined run of Raft/CombinedExample.v replayed as a run of the combined alphabet
   cstep [1; 2] 5 of Raft/MemberSnapSystem.v (side conditions evresC checked at each step), and the three combined theorems
   instantiated on it. *)
From Coq Require Import List NArith ZArith Bool Lia.
From BLB Require Import Lib.LTS Raft.Core Raft.Wire Raft.Election Raft.ElectionExample Raft.LogMatchExample
  Raft.MembershipQuorum Raft.MembershipElection Raft.MembershipExample Raft.MemberNode Raft.MemberVotes
  Raft.MemberVotesExample Raft.MemberConfTrack Raft.MemberRun Raft.MemberRunExample Raft.SnapConfTrack Raft.CombinedExample Raft.MemberSnapSystem.
Import ListNotations.
Open Scope N_scope.

Lemma cstep_exec bm be a i ev k s crashed st s' :
  get_node i (sy_nodes (fst a)) = Some s ->
  (forall m, ev = EDeliver m -> In m (sy_soup (fst a)) /\ m_to m <> 0) ->
  run_event_crash (settle s) ev k = Ret (crashed, st, s') ->
  evresC bm be s ev ->
  cstep bm be a (i, ev, k) (aapply a i ev k).
Proof.
  destruct a as [σ EC]. simpl. intros G D Rn He. unfold aapply, apply_step. simpl. rewrite G, Rn.
  eapply CStep; eauto.
Qed.

Ltac c_side :=
  first [ exact I
        | solve [split; reflexivity]
        | solve [vm_compute; repeat constructor]
        | solve [vm_compute; discriminate]
        | solve [vm_compute; exact I] ].

Ltac c_plain :=
  eapply cstep_exec;
  [ vm_compute; reflexivity
  | let m := fresh in let Hm := fresh in intros m Hm; discriminate
  | vm_compute; reflexivity
  | c_side ].

Ltac c_deliver :=
  eapply cstep_exec;
  [ vm_compute; reflexivity
  | let m := fresh in let Hm := fresh in intros m Hm; inversion Hm; subst; split; [vm_compute; tauto | vm_compute; discriminate]
  | vm_compute; reflexivity
  | c_side ].

Lemma crun_A10 : run asys sys_event (cstep [1; 2] 5) A0 sched10 A10.
Proof.
  unfold sched10.
  apply run_cons with (s1 := A1); [c_plain|].
  apply run_cons with (s1 := A2); [c_plain|].
  apply run_cons with (s1 := A3); [c_plain|].
  apply run_cons with (s1 := A4); [c_deliver|].
  apply run_cons with (s1 := A5); [c_deliver|].
  apply run_cons with (s1 := A6); [c_plain|].
  apply run_cons with (s1 := A7); [c_deliver|].
  apply run_cons with (s1 := A8); [c_deliver|].
  apply run_cons with (s1 := A9); [c_deliver|].
  apply run_cons with (s1 := A10); [c_deliver|].
  apply run_nil.
Qed.

Definition sched13 : list sys_event := [(1, EAddNode 3 77, 0); (2, EDeliver w11, 0); (1, EDeliver w12, 0)].
Definition schedT : list sys_event :=
  [(1, ESnapDone sm3, 0); (1, ETick, 0); (3, EDeliver q15, 0); (1, EDeliver q16, 0);
   (1, ERemoveNode 2, 0); (3, EDeliver q18, 0); (1, EDeliver q19, 0)].

Lemma crun_A13 : run asys sys_event (cstep [1; 2] 5) A10 sched13 A13.
Proof.
  unfold sched13.
  apply run_cons with (s1 := A11); [c_plain|].
  apply run_cons with (s1 := A12); [c_deliver|].
  apply run_cons with (s1 := A13); [c_deliver|].
  apply run_nil.
Qed.

(* the SnapshotDone step: an applied position (3 <= commit index 3) with its term, newer than the snapshot held (none), and the
   membership is the configuration of the store cut at index 3 *)
Lemma cstep_snapdone : cstep [1; 2] 5 A13 (1, ESnapDone sm3, 0) C14.
Proof.
  eapply cstep_exec;
  [ vm_compute; reflexivity
  | let m := fresh in let Hm := fresh in intros m Hm; discriminate
  | vm_compute; reflexivity
  | ].
  unfold evresC, snap_okC. split; [vm_compute; discriminate|]. split; [vm_compute; discriminate|].
  intros _. split.
  - eexists. split; [vm_compute; right; right; left; reflexivity|]. split; reflexivity.
  - vm_compute. reflexivity.
Qed.

Lemma crun_C20 : run asys sys_event (cstep [1; 2] 5) A13 schedT C20.
Proof.
  unfold schedT.
  apply run_cons with (s1 := C14); [exact cstep_snapdone|].
  apply run_cons with (s1 := C15); [c_plain|].
  apply run_cons with (s1 := C16); [c_deliver|].
  apply run_cons with (s1 := C17); [c_deliver|].
  apply run_cons with (s1 := C18); [c_plain|].
  apply run_cons with (s1 := C19); [c_deliver|].
  apply run_cons with (s1 := C20); [c_deliver|].
  apply run_nil.
Qed.

Lemma sched_eq : schedC = sched10 ++ sched13 ++ schedT.
Proof. reflexivity. Qed.

Lemma crun_all : run asys sys_event (cstep [1; 2] 5) A0 schedC C20.
Proof.
  rewrite sched_eq. apply (run_app _ _ _ A0 sched10 A10); [exact crun_A10|].
  apply (run_app _ _ _ A10 sched13 A13); [exact crun_A13 | exact crun_C20].
Qed.
Lemma crun_to_A13 : run asys sys_event (cstep [1; 2] 5) A0 (sched10 ++ sched13) A13.
Proof. apply (run_app _ _ _ A0 sched10 A10); [exact crun_A10 | exact crun_A13]. Qed.

Lemma ES_c : forall t x y, In (t, x) (sy_hist (fst C20)) -> In (t, y) (sy_hist (fst C20)) -> x = y.
Proof. exact (election_safety_combined_sys [1; 2] 5 Hn12 A0 C20 schedC minitS_A0 crun_all). Qed.

Lemma LM_c : exists Cf, fitsC C20 Cf /\
  forall x y k k' e e',
    In x (sy_nodes (fst C20)) -> In y (sy_nodes (fst C20)) ->
    nth_error (llogC Cf x) k = Some e -> nth_error (llogC Cf y) k' = Some e' ->
    e_index e = e_index e' -> e_term e = e_term e' ->
    k = k' /\ firstn (Datatypes.S k) (llogC Cf x) = firstn (Datatypes.S k) (llogC Cf y).
Proof. exact (log_matching_combined_sys [1; 2] 5 Hn12 A0 C20 schedC minitS_A0 crun_all). Qed.

Lemma LC_c : exists Cf1 Cf2, fitsC A13 Cf1 /\ fitsC C20 Cf2 /\
  forall x b,
    In x (sy_nodes (fst A13)) -> In b (sy_nodes (fst C20)) -> n_role b = Leader -> p_term (n_p x) < p_term (n_p b) ->
    (N.to_nat (n_commit x) <= length (llogC Cf1 x))%nat /\
    firstn (N.to_nat (n_commit x)) (llogC Cf2 b) = firstn (N.to_nat (n_commit x)) (llogC Cf1 x).
Proof. exact (leader_completeness_combined_sys [1; 2] 5 Hn12 A0 A13 C20 (sched10 ++ sched13) schedT minitS_A0 crun_to_A13 crun_C20). Qed.

Lemma events_c :
  In (1, EAddNode 3 77, 0) schedC /\ In (1, ESnapDone sm3, 0) schedC /\ In (3, EDeliver q15, 0) schedC /\ In (1, ERemoveNode 2, 0) schedC.
Proof. repeat split; unfold schedC; apply in_or_app; right; simpl; tauto. Qed.

Example combined_run_nonvacuous_ex :
  minitS A0 /\ NoDup [1; 2] /\ run asys sys_event (cstep [1; 2] 5) A0 schedC C20 /\
  (In (1, EAddNode 3 77, 0) schedC /\ In (1, ESnapDone sm3, 0) schedC /\ In (3, EDeliver q15, 0) schedC /\ In (1, ERemoveNode 2, 0) schedC) /\
  (body_kind q15, m_from q15, m_to q15) = (5, 1, 3) /\
  cview C16 =
    [(1, Leader, 2, [1; 2; 3], 3, [], Some (3, 2, [1; 2; 3]));
     (2, Follower, 2, [1; 2; 3], 2, [(1, 1); (2, 2); (3, 2)], None);
     (3, Follower, 2, [1; 2; 3], 3, [], Some (3, 2, [1; 2; 3]))] /\
  cview C20 =
    [(1, Leader, 2, [1; 3], 4, [(4, 2)], Some (3, 2, [1; 2; 3]));
     (2, Follower, 2, [1; 2; 3], 2, [(1, 1); (2, 2); (3, 2)], None);
     (3, Follower, 2, [1; 3], 3, [(4, 2)], Some (3, 2, [1; 2; 3]))] /\
  (forall t x y, In (t, x) (sy_hist (fst C20)) -> In (t, y) (sy_hist (fst C20)) -> x = y) /\
  (exists Cf, fitsC C20 Cf /\
     forall x y k k' e e',
       In x (sy_nodes (fst C20)) -> In y (sy_nodes (fst C20)) ->
       nth_error (llogC Cf x) k = Some e -> nth_error (llogC Cf y) k' = Some e' ->
       e_index e = e_index e' -> e_term e = e_term e' ->
       k = k' /\ firstn (Datatypes.S k) (llogC Cf x) = firstn (Datatypes.S k) (llogC Cf y)) /\
  (exists Cf1 Cf2, fitsC A13 Cf1 /\ fitsC C20 Cf2 /\
     forall x b,
       In x (sy_nodes (fst A13)) -> In b (sy_nodes (fst C20)) -> n_role b = Leader -> p_term (n_p x) < p_term (n_p b) ->
       (N.to_nat (n_commit x) <= length (llogC Cf1 x))%nat /\
       firstn (N.to_nat (n_commit x)) (llogC Cf2 b) = firstn (N.to_nat (n_commit x)) (llogC Cf1 x)).
Proof.
  exact (conj minitS_A0 (conj Hn12 (conj crun_all (conj events_c (conj Q15 (conj V16 (conj V20 (conj ES_c (conj LM_c LC_c))))))))).
Qed.
