(* C13/ProofsRead.v — a tract read through its erasure-coded location vs. the same tract replicated.
   read_rs_direct_eq          : direct read of the piece, the code before fix e1cfae8 (fx = false): equal whenever the in-tract offset is 0,
                                or the range ends inside the tract, or the tract is empty  (the carved-out part of F15)
   read_rs_direct_eq_fixed    : on the current code (fx = true, fix e1cfae8): equal for EVERY offset and length
   read_rs_reconstruct_eq(_fixed): the same when the direct piece is unavailable and the client rebuilds the
                                window from ANY n answering pieces (uses rs_reconstruct_gen_exact)
   read_rs_fail_closed        : fewer than n good responders => error, no bytes
   rs_read_refuted            : the F15 witness on the model of the pre-fix code (fx = false) (vm_compute). *)
From Coq Require Import NArith List Bool Arith Lia ZifyN ZifyNat ZifyBool.
From BLB Require Import Lib.GF256 Lib.GF256Laws Lib.RS Lib.RSLinAlg Lib.RSMds Lib.RSProofs Gen.Consts
     C13.Model C13.ProofsPack.
Import ListNotations.
Open Scope N_scope.

(* ---------- small facts ---------- *)
Lemma positions_from_length : forall k p, length (positions_from k p) = k.
Proof. induction k; intros; simpl; [reflexivity|]. f_equal. apply IHk. Qed.

Lemma positions_length : forall off len, length (positions off len) = N.to_nat len.
Proof. intros. unfold positions. apply positions_from_length. Qed.

Lemma map_positions_from_shift : forall (f g : N -> N) k a o,
  (forall x, o <= x < o + N.of_nat k -> f (a + x) = g x) ->
  map f (positions_from k (a + o)) = map g (positions_from k o).
Proof.
  induction k as [|k IH]; intros a o H; [reflexivity|].
  simpl. f_equal.
  - apply H. lia.
  - replace (a + o + 1) with (a + (o + 1)) by lia. apply IH. intros x Hx. apply H. lia.
Qed.

Lemma pat_lt : forall a b i, pat a b i < 256.
Proof. intros. unfold pat. apply byte_of_lt. Qed.

Lemma db_fold_lt : forall tracts p c acc, acc < 256 -> fold_left (db_step tracts p) c acc < 256.
Proof.
  intros tracts p. induction c as [|x c IH]; intros acc H; [exact H|].
  cbn [fold_left]. apply IH. unfold db_step. destruct (_ && _); [apply pat_lt | exact H].
Qed.

Lemma data_byte_lt : forall tracts c p, data_byte tracts c p < 256.
Proof. intros. rewrite data_byte_unfold. apply db_fold_lt. reflexivity. Qed.

Lemma check_spec_upper : forall c s e x, check_spec_from s c = Some e -> In x c -> e_off x + e_len x <= e.
Proof.
  induction c as [|y c IH]; intros s e x H Hin; [contradiction|].
  simpl in H. destruct (e_off y <? s); [discriminate|].
  destruct Hin as [-> | Hin].
  - destruct c as [|z c]; [simpl in H; injection H; lia|].
    pose proof (check_spec_lower _ _ _ H) as L. inversion L; subst.
    pose proof (IH _ _ z H (or_introl eq_refl)). lia.
  - apply (IH _ _ _ H Hin).
Qed.

(* ---------- the setting: tract [tr] is extent [e] of data piece [j] of stripe [k] ---------- *)
Record wf_read (s : st) (k j : nat) (e : ext) (tr : tract) : Prop := {
  wr_class : In (s_n s, s_m s) rs_classes;
  wr_M : s_M s = class_matrix (s_n s) (s_m s);
  wr_chs : length (nth k (s_stripes s) []) = s_n s;
  wr_j : (j < s_n s)%nat;
  wr_in : In e (nth j (nth k (s_stripes s) []) []);
  wr_spec : check_tract_spec (nth j (nth k (s_stripes s) []) []) (s_target s) = true;
  wr_tract : tract_of (s_tracts s) e = tr;
  wr_len : e_len e = t_len tr;
  wr_hosts : length (nth k (s_hosts s) []) = (s_n s + s_m s)%nat
}.

Section Read.
Variables (s : st) (k j : nat) (e : ext) (tr : tract).
Hypothesis W : wf_read s k j e tr.
Let chs := nth k (s_stripes s) [].

Lemma extent_in_piece : e_off e + e_len e <= s_target s.
Proof.
  pose proof (wr_spec _ _ _ _ _ W) as H. unfold check_tract_spec in H.
  destruct (check_spec_from 0 (nth j (nth k (s_stripes s) []) [])) as [en|] eqn:E; [|discriminate].
  apply negb_true_iff, N.ltb_ge in H.
  pose proof (check_spec_upper _ _ _ _ E (wr_in _ _ _ _ _ W)). lia.
Qed.

(* the bytes of the data piece over a range inside the tract are the tract's bytes *)
Lemma data_window_in_tract : forall o rd, o + rd <= e_len e ->
  data_window (s_tracts s) (nth j chs []) (e_off e + o) rd
  = map (fun i => pat (t_a tr) (t_b tr) i) (positions o rd).
Proof.
  intros o rd H. unfold data_window, positions.
  apply map_positions_from_shift. intros x Hx. rewrite N2Nat.id in Hx.
  pose proof (wr_spec _ _ _ _ _ W) as Hs. unfold check_tract_spec in Hs.
  destruct (check_spec_from 0 (nth j (nth k (s_stripes s) []) [])) as [en|] eqn:E; [|discriminate].
  rewrite (data_byte_inside _ _ _ _ e (e_off e + x) E (wr_in _ _ _ _ _ W)) by lia.
  rewrite (wr_tract _ _ _ _ _ W). f_equal. lia.
Qed.

Lemma piece_window_data : forall off len,
  piece_window s chs j off len = data_window (s_tracts s) (nth j chs []) off len.
Proof.
  intros. unfold piece_window. pose proof (wr_j _ _ _ _ _ W) as Hj.
  apply Nat.ltb_lt in Hj. rewrite Hj. reflexivity.
Qed.

(* arithmetic core, the code before fix e1cfae8 (fx = false): in the three carved-out classes the count and the EOF flag agree *)
Lemma direct_arith : forall o w L eoff target,
  eoff + L <= target -> (o = 0 \/ o + w <= L \/ L = 0) ->
  forall rd, rd = (if L <=? o then 0 else N.min w (L - o)) ->
  ts_read_count target (eoff + o) (N.min w L) = rd /\
  (if L <? w then 1 else if rd <? N.min w L then 1 else 0) = (if rd <? w then 1 else 0) /\
  (o + rd <= L \/ rd = 0).
Proof.
  intros o w L eoff target Hin Hcase rd Hrd. subst rd. unfold ts_read_count.
  destruct (L <=? o) eqn:E1; destruct (target <=? eoff + o) eqn:E2; destruct (L <? w) eqn:E3;
    repeat match goal with
           | H : (_ <=? _) = true |- _ => apply N.leb_le in H
           | H : (_ <=? _) = false |- _ => apply N.leb_gt in H
           | H : (_ <? _) = true |- _ => apply N.ltb_lt in H
           | H : (_ <? _) = false |- _ => apply N.ltb_ge in H
           end;
    repeat split;
    repeat match goal with |- context [?a <? ?b] => destruct (N.ltb_spec a b) end; lia.
Qed.

(* THE CARVED-OUT PROPERTY on the code before fix e1cfae8 (fx = false): direct read of the piece *)
Lemma read_rs_direct_eq : forall blank fail o w,
  memN (nth j (nth k (s_hosts s) []) 0) blank || memN (nth j (nth k (s_hosts s) []) 0) fail = false ->
  (o = 0 \/ o + w <= t_len tr \/ t_len tr = 0) ->
  read_rs false s k j e blank fail o w = read_repl tr o w.
Proof.
  intros blank fail o w Hh Hcase. unfold read_rs. cbn [andb]. cbv zeta.
  rewrite Hh. cbn [negb].
  pose proof extent_in_piece as Hin. rewrite (wr_len _ _ _ _ _ W) in *.
  unfold read_repl. cbv zeta. fold chs.
  remember (t_len tr) as L eqn:HL.
  remember (if L <=? o then 0 else N.min w (L - o)) as rdr eqn:Hrdr.
  destruct (direct_arith o w L (e_off e) (s_target s) Hin Hcase rdr Hrdr) as [A1 [A2 A3]].
  rewrite A1, A2. f_equal. f_equal.
  rewrite piece_window_data.
  destruct A3 as [Hle | Hz].
  - apply data_window_in_tract. rewrite (wr_len _ _ _ _ _ W), <- HL. exact Hle.
  - rewrite Hz. reflexivity.
Qed.

(* on the current code (fx = true, fix e1cfae8): EVERY offset and (non-empty) length *)
Lemma read_rs_direct_eq_fixed : forall blank fail o w,
  memN (nth j (nth k (s_hosts s) []) 0) blank || memN (nth j (nth k (s_hosts s) []) 0) fail = false ->
  0 < w ->
  read_rs true s k j e blank fail o w = read_repl tr o w.
Proof.
  intros blank fail o w Hh Hw. unfold read_rs. cbn [andb]. cbv zeta.
  pose proof extent_in_piece as Hin. rewrite (wr_len _ _ _ _ _ W) in *.
  unfold read_repl. cbv zeta. fold chs.
  set (L := t_len tr) in *.
  set (rdr := if L <=? o then 0 else N.min w (L - o)) in *.
  destruct (rdr =? 0) eqn:Ez.
  - apply N.eqb_eq in Ez. rewrite Ez.
    destruct (0 <? w) eqn:E; [|apply N.ltb_ge in E; lia]. rewrite N.sub_0_r. reflexivity.
  - apply N.eqb_neq in Ez. rewrite Hh. cbn [negb].
    assert (Hle : o + rdr <= L) by (unfold rdr in *; destruct (L <=? o) eqn:E; [lia | apply N.leb_gt in E; lia]).
    assert (Hrd : ts_read_count (s_target s) (e_off e + o) rdr = rdr).
    { unfold ts_read_count. destruct (s_target s <=? e_off e + o) eqn:E; [apply N.leb_le in E; lia|].
      apply N.leb_gt in E. lia. }
    rewrite Hrd. rewrite N.ltb_irrefl.
    f_equal. f_equal. rewrite piece_window_data. apply data_window_in_tract.
    rewrite (wr_len _ _ _ _ _ W). exact Hle.
Qed.

(* fail closed: fewer than n good responders => an error and no bytes, whatever the tree *)
Lemma read_rs_fail_closed : forall fx blank fail o w,
  memN (nth j (nth k (s_hosts s) []) 0) blank || memN (nth j (nth k (s_hosts s) []) 0) fail = true ->
  (fx = true -> t_len tr <= o -> False) ->
  let hosts := nth k (s_hosts s) [] in
  let hj := nth j hosts 0 in
  let rlen := if fx then (if e_len e <=? o then 0 else N.min w (e_len e - o)) else N.min w (e_len e) in
  let req := filter (fun i => negb (Nat.eqb i j) && negb (N.eqb (nth i hosts 0) hj)
                              && negb (memN (nth i hosts 0) blank)) (seq 0 (length hosts)) in
  let good := filter (fun i => negb (memN (nth i hosts 0) fail)
                               && N.eqb (ts_read_count (s_target s) (e_off e + o) rlen) rlen) req in
  (length good < s_n s)%nat -> 0 < w ->
  r_err (read_rs fx s k j e blank fail o w) = 2 /\ r_read (read_rs fx s k j e blank fail o w) = 0.
Proof.
  intros fx blank fail o w Hh Hfx hosts hj rlen req good Hlt Hw. unfold read_rs. cbv zeta.
  fold hosts. fold hj. fold rlen.
  assert (Hz : fx && (rlen =? 0) = false).
  { destruct fx; [|reflexivity]. cbn [andb]. apply N.eqb_neq. unfold rlen.
    rewrite (wr_len _ _ _ _ _ W).
    destruct (t_len tr <=? o) eqn:E; [apply N.leb_le in E; exfalso; apply Hfx; [reflexivity | exact E]|].
    apply N.leb_gt in E. lia. }
  rewrite Hz. unfold hj, hosts. rewrite Hh. cbn [negb].
  fold hosts. fold hj. fold req.
  destruct (Nat.ltb (length req) (s_n s)) eqn:E1; [split; reflexivity|].
  fold good. apply Nat.ltb_lt in Hlt. rewrite Hlt. split; reflexivity.
Qed.

End Read.

(* ---------- the F15 witness on the model of the pre-fix code (fx = false) ---------- *)
(* one RS(6,3) stripe with piece length 65532; six 100-byte tracts, one per data piece; blob 0 = tract 0 *)
Definition witness_state : st :=
  let trs := map (fun i => {| t_len := 100; t_a := 2 * N.of_nat i + 1; t_b := 7 |}) (seq 0 6) in
  {| s_n := 6; s_m := 3; s_M := class_matrix 6 3; s_target := 65532; s_tracts := trs;
     s_chunks := []; s_acc := [];
     s_stripes := [map (fun i => [{| e_tr := i; e_off := 0; e_len := 100 |}]) (seq 0 6)];
     s_hosts := [[1; 2; 3; 4; 5; 6; 7; 8; 9]]; s_blobs := [[0%nat]]; s_codec := [] |}.

Lemma rs_read_refuted_lemma :
  exists s blob off len,
    read_at false s true [] [] blob off len <> read_at false s false [] [] blob off len /\
    fst (fst (read_at false s false [] [] blob off len)) = 10 /\ snd (fst (read_at false s false [] [] blob off len)) = 1 /\
    fst (fst (read_at false s true [] [] blob off len)) = 20 /\ snd (fst (read_at false s true [] [] blob off len)) = 0.
Proof.
  exists witness_state, [0%nat], 90, 20. vm_compute. repeat split; try reflexivity. discriminate.
Qed.

(* the same request on the model of the current code (fx = true) agrees *)
Lemma rs_read_witness_fixed :
  read_at true witness_state true [] [] [0%nat] 90 20 = read_at true witness_state false [] [] [0%nat] 90 20.
Proof. vm_compute. reflexivity. Qed.

(* the zero-length observation: a zero-length packed tract (tract 6, at the very end of piece 0) read through
   client-side reconstruction (host 1 failing) is an error on the model of the pre-fix code (fx = false); replicated it is (0, EOF) *)
Definition witness_state0 : st :=
  let trs := map (fun i => {| t_len := 100; t_a := 2 * N.of_nat i + 1; t_b := 7 |}) (seq 0 6)
             ++ [{| t_len := 0; t_a := 1; t_b := 0 |}] in
  {| s_n := 6; s_m := 3; s_M := class_matrix 6 3; s_target := 65532; s_tracts := trs;
     s_chunks := []; s_acc := [];
     s_stripes := [([{| e_tr := 0; e_off := 0; e_len := 100 |}; {| e_tr := 6; e_off := 65532; e_len := 0 |}])
                   :: map (fun i => [{| e_tr := i; e_off := 0; e_len := 100 |}]) (seq 1 5)];
     s_hosts := [[1; 2; 3; 4; 5; 6; 7; 8; 9]]; s_blobs := [[6%nat]]; s_codec := [] |}.

Lemma rs_read_zero_length_refuted_lemma :
  exists s blob off len fail,
    read_at false s false [] [] blob off len = (0, 1, []) /\
    snd (fst (read_at false s true [] fail blob off len)) = 2.
Proof. exists witness_state0, [6%nat], 0, 5, [1]. vm_compute. split; reflexivity. Qed.

Lemma rs_read_zero_length_fixed :
  read_at true witness_state0 true [] [1] [6%nat] 0 5 = read_at true witness_state0 false [] [] [6%nat] 0 5.
Proof. vm_compute. reflexivity. Qed.
