(* C13/ProofsRecon.v — client-side reconstruction (reconstruct.go) returns the tract's bytes:
   when the direct piece is unavailable and at least n of the other pieces answer, the window rebuilt from the
   FIRST n good answers (any n of the n+m-1 other pieces, by rs_reconstruct_gen_exact) is the window of the
   original piece, so the read equals the replicated read. *)
From Coq Require Import NArith List Bool Arith Lia ZifyN ZifyNat ZifyBool.
From BLB Require Import Lib.GF256 Lib.GF256Laws Lib.RS Lib.RSLinAlg Lib.RSMds Lib.RSProofs Gen.Consts
     C13.Model C13.ProofsPack C13.ProofsRead.
Import ListNotations.

Lemma NoDup_firstn : forall A (l : list A) k, NoDup l -> NoDup (firstn k l).
Proof.
  induction l as [|x l IH]; intros k H; [destruct k; constructor|].
  destruct k as [|k]; [constructor|]. inversion H; subst. simpl. constructor.
  - intro Hin. apply firstn_in in Hin. contradiction.
  - apply IH. assumption.
Qed.

Lemma memn_In : forall i l, memn i l = true <-> In i l.
Proof.
  intros i l. unfold memn. rewrite existsb_exists. split.
  - intros [x [Hx E]]. apply Nat.eqb_eq in E. subst. exact Hx.
  - intro H. exists i. split; [exact H | apply Nat.eqb_refl].
Qed.

Lemma memS_In : forall S i, memS S i = true <-> In i S.
Proof.
  intros S i. unfold memS. rewrite existsb_exists. split.
  - intros [x [Hx E]]. apply Nat.eqb_eq in E. subst. exact Hx.
  - intro H. exists i. split; [exact H | apply Nat.eqb_refl].
Qed.

Lemma nth_map_lincomb : forall (D l : list (list N)) i,
  nth i (map (fun row => lincomb row D) l) [] = lincomb (nth i l []) D.
Proof.
  intros D. induction l as [|r l IH]; intros i; [destruct i; reflexivity|].
  destruct i; [reflexivity | apply IH].
Qed.

Section Recon.
Variables (s : st) (k j : nat) (e : ext) (tr : tract).
Hypothesis W : wf_read s k j e tr.
Let chs := nth k (s_stripes s) [].
Let n := s_n s.
Let m := s_m s.

Definition dwin (off len : N) : list (list N) := map (fun c => data_window (s_tracts s) c off len) chs.

Lemma dwin_wf : forall off len, (0 < len)%N -> wf_data n (N.to_nat len) (dwin off len).
Proof.
  intros off len Hl. unfold wf_data, dwin. split; [|split].
  - rewrite map_length. apply (wr_chs _ _ _ _ _ W).
  - lia.
  - unfold wf_rows. apply Forall_forall. intros r Hr. apply in_map_iff in Hr. destruct Hr as [c [<- _]].
    unfold data_window. split.
    + rewrite map_length. apply positions_length.
    + unfold bytes_vec. apply Forall_forall. intros b Hb. apply in_map_iff in Hb.
      destruct Hb as [p [<- _]]. apply data_byte_lt.
Qed.

Lemma piece_window_nth : forall i off len, (i < n + m)%nat ->
  piece_window s chs i off len = nth i (encode_shards n m (dwin off len)) [].
Proof.
  intros i off len Hi. unfold piece_window, encode_shards. fold n.
  assert (Hdl : length (dwin off len) = n) by (unfold dwin; rewrite map_length; apply (wr_chs _ _ _ _ _ W)).
  destruct (Nat.ltb i n) eqn:E.
  - apply Nat.ltb_lt in E. rewrite app_nth1 by (rewrite Hdl; exact E).
    unfold dwin. rewrite (nth_indep _ [] (data_window (s_tracts s) [] off len))
      by (rewrite map_length; unfold chs; rewrite (wr_chs _ _ _ _ _ W); exact E).
    rewrite (map_nth (fun c => data_window (s_tracts s) c off len)). reflexivity.
  - apply Nat.ltb_ge in E. rewrite app_nth2 by (rewrite Hdl; exact E). rewrite Hdl.
    rewrite (wr_M _ _ _ _ _ W). fold n m. unfold parity_rows.
    rewrite nth_map_lincomb.
    rewrite nth_skipn. replace (n + (i - n))%nat with i by lia. reflexivity.
Qed.

Open Scope N_scope.

(* the reconstruction branch, for whichever tree: if at least n other pieces answer and the fetched range
   [o, o+rlen) is a non-empty part of the tract, the result is that part of the tract, zero-padded *)
Lemma read_rs_reconstruct_gen : forall (fx : bool) blank fail o w,
  memN (nth j (nth k (s_hosts s) []) 0) blank || memN (nth j (nth k (s_hosts s) []) 0) fail = true ->
  let hosts := nth k (s_hosts s) [] in
  let hj := nth j hosts 0 in
  let rlen := if fx then (if e_len e <=? o then 0 else N.min w (e_len e - o)) else N.min w (e_len e) in
  let req := filter (fun i => negb (Nat.eqb i j) && negb (N.eqb (nth i hosts 0) hj)
                              && negb (memN (nth i hosts 0) blank)) (seq 0 (length hosts)) in
  let good := filter (fun i => negb (memN (nth i hosts 0) fail)
                               && N.eqb (ts_read_count (s_target s) (e_off e + o) rlen) rlen) req in
  (n <= length good)%nat -> 0 < rlen -> o + rlen <= e_len e ->
  read_rs fx s k j e blank fail o w =
  {| r_wanted := w; r_read := rlen; r_err := if rlen <? w then 1 else 0;
     r_buf := map (fun i => pat (t_a tr) (t_b tr) i) (positions o rlen) ++ zeros (w - rlen) |}.
Proof.
  intros fx blank fail o w Hh hosts hj rlen req good Hgood Hpos Hin.
  unfold read_rs. cbv zeta. fold hosts. fold hj. fold rlen.
  assert (Hz : fx && (rlen =? 0) = false).
  { destruct fx; [|reflexivity]. cbn [andb]. apply N.eqb_neq. lia. }
  rewrite Hz. unfold hj, hosts. rewrite Hh. cbn [negb]. fold hosts. fold hj. fold req. fold good.
  pose proof (filter_len_le _ (fun i => negb (memN (nth i hosts 0) fail)
                               && N.eqb (ts_read_count (s_target s) (e_off e + o) rlen) rlen) req) as Hle.
  fold good in Hle. fold n.
  destruct (Nat.ltb (length req) n) eqn:E1; [apply Nat.ltb_lt in E1; lia|].
  destruct (Nat.ltb (length good) n) eqn:E2; [apply Nat.ltb_lt in E2; lia|].
  set (used := firstn n good).
  assert (Hhl : length hosts = (n + m)%nat) by apply (wr_hosts _ _ _ _ _ W).
  assert (Hused_len : length used = n) by (unfold used; rewrite firstn_length; lia).
  assert (Hused_lt : forall i, In i used -> (i < n + m)%nat).
  { intros i Hi. unfold used in Hi. apply firstn_in in Hi. unfold good in Hi. apply filter_In in Hi.
    destruct Hi as [Hi _]. unfold req in Hi. apply filter_In in Hi. destruct Hi as [Hi _].
    apply in_seq in Hi. lia. }
  assert (Hused_nd : NoDup used).
  { unfold used. apply NoDup_firstn. unfold good. apply NoDup_filter. unfold req. apply NoDup_filter. apply seq_NoDup. }
  set (offset := e_off e + o).
  set (d := dwin offset rlen).
  set (S' := filter (fun i => negb (memn i used)) (seq 0 (n + m))).
  pose proof (dwin_wf offset rlen Hpos) as Hwf. fold d in Hwf.
  pose proof (wr_class _ _ _ _ _ W) as Hc. fold n m in Hc.
  (* the shards handed to the library are the encoded windows with everything but [used] erased *)
  assert (Hdata : map (fun i => if memn i used then piece_window s chs i offset rlen else []) (seq 0 (length hosts))
                  = erase S' (encode_shards n m d)).
  { apply (nth_ext _ _ [] []).
    - rewrite map_length, seq_length, erase_length, (encode_length n m Hc), Hhl; [reflexivity|].
      destruct Hwf as [? _]. assumption.
    - intros i Hi. rewrite map_length, seq_length, Hhl in Hi.
      rewrite (nth_indep _ [] ((fun i => if memn i used then piece_window s chs i offset rlen else []) 0%nat))
        by (rewrite map_length, seq_length, Hhl; exact Hi).
      rewrite (map_nth (fun i => if memn i used then piece_window s chs i offset rlen else [])).
      rewrite seq_nth by (rewrite Hhl; exact Hi). cbn [Nat.add].
      rewrite erase_nth by (rewrite (encode_length n m Hc); [exact Hi | destruct Hwf; assumption]).
      assert (HS : memS S' i = negb (memn i used)).
      { destruct (memn i used) eqn:Em; cbn [negb].
        - destruct (memS S' i) eqn:Es; [|reflexivity]. apply memS_In in Es. unfold S' in Es.
          apply filter_In in Es. destruct Es as [_ Es]. rewrite Em in Es. discriminate.
        - apply memS_In. unfold S'. apply filter_In. split; [apply in_seq; lia | rewrite Em; reflexivity]. }
      rewrite HS. destruct (memn i used); cbn [negb]; [|reflexivity].
      apply piece_window_nth. exact Hi. }
  fold chs. rewrite Hdata.
  (* at most m positions are erased *)
  assert (Hcount : (erased_count n m S' <= m)%nat).
  { unfold erased_count.
    pose proof (filter_partition_length _ (memS S') (seq 0 (n + m))) as F. rewrite seq_length in F.
    assert (Hincl : incl used (filter (fun x => negb (memS S' x)) (seq 0 (n + m)))).
    { intros i Hi. apply filter_In. split; [apply in_seq; specialize (Hused_lt i Hi); lia|].
      apply negb_true_iff. destruct (memS S' i) eqn:Es; [|reflexivity].
      apply memS_In in Es. unfold S' in Es. apply filter_In in Es. destruct Es as [_ Es].
      apply memn_In in Hi. rewrite Hi in Es. discriminate. }
    pose proof (NoDup_incl_length Hused_nd Hincl) as Hl. lia. }
  unfold rs_reconstruct_data, total. fold n m. rewrite (wr_M _ _ _ _ _ W). fold n m.
  rewrite (rs_reconstruct_gen_exact n m Hc (N.to_nat rlen) d S' true Hwf Hcount).
  (* piece j of the result is the data window of piece j *)
  assert (Hj : (j < n)%nat) by apply (wr_j _ _ _ _ _ W).
  assert (Hdl : length d = n) by (destruct Hwf; assumption).
  rewrite app_nth1 by (rewrite Hdl; exact Hj).
  assert (Hnj : nth j d [] = data_window (s_tracts s) (nth j chs []) offset rlen).
  { unfold d, dwin. rewrite (nth_indep _ [] (data_window (s_tracts s) [] offset rlen))
      by (rewrite map_length; unfold chs; rewrite (wr_chs _ _ _ _ _ W); exact Hj).
    rewrite (map_nth (fun c => data_window (s_tracts s) c offset rlen)). reflexivity. }
  rewrite Hnj.
  assert (Hlen : length (data_window (s_tracts s) (nth j chs []) offset rlen) = N.to_nat rlen).
  { unfold data_window. rewrite map_length. apply positions_length. }
  rewrite Hlen, Nat.eqb_refl. cbn [negb].
  f_equal. f_equal. unfold offset. apply (data_window_in_tract s k j e tr W). exact Hin.
Qed.

(* the code before fix e1cfae8 (fx = false): carved-out classes, non-empty tract and request *)
Lemma read_rs_reconstruct_eq : forall blank fail o w,
  memN (nth j (nth k (s_hosts s) []) 0) blank || memN (nth j (nth k (s_hosts s) []) 0) fail = true ->
  let hosts := nth k (s_hosts s) [] in
  let hj := nth j hosts 0 in
  let rlen := N.min w (e_len e) in
  let req := filter (fun i => negb (Nat.eqb i j) && negb (N.eqb (nth i hosts 0) hj)
                              && negb (memN (nth i hosts 0) blank)) (seq 0 (length hosts)) in
  let good := filter (fun i => negb (memN (nth i hosts 0) fail)
                               && N.eqb (ts_read_count (s_target s) (e_off e + o) rlen) rlen) req in
  (n <= length good)%nat -> 0 < w -> 0 < t_len tr -> (o = 0 \/ o + w <= t_len tr) ->
  read_rs false s k j e blank fail o w = read_repl tr o w.
Proof.
  intros blank fail o w Hh hosts hj rlen req good Hgood Hw HL Hcase.
  pose proof (wr_len _ _ _ _ _ W) as HeL.
  rewrite (read_rs_reconstruct_gen false blank fail o w Hh Hgood); cbv zeta.
  - unfold read_repl. rewrite HeL.
    assert (Hrd : (if t_len tr <=? o then 0 else N.min w (t_len tr - o)) = N.min w (t_len tr)).
    { destruct (t_len tr <=? o) eqn:E; [apply N.leb_le in E | apply N.leb_gt in E]; lia. }
    rewrite Hrd. reflexivity.
  - rewrite HeL. lia.
  - rewrite HeL. lia.
Qed.

(* on the current code (fx = true, fix e1cfae8): every offset and length for which something has to be fetched *)
Lemma read_rs_reconstruct_eq_fixed : forall blank fail o w,
  memN (nth j (nth k (s_hosts s) []) 0) blank || memN (nth j (nth k (s_hosts s) []) 0) fail = true ->
  let hosts := nth k (s_hosts s) [] in
  let hj := nth j hosts 0 in
  let rlen := if e_len e <=? o then 0 else N.min w (e_len e - o) in
  let req := filter (fun i => negb (Nat.eqb i j) && negb (N.eqb (nth i hosts 0) hj)
                              && negb (memN (nth i hosts 0) blank)) (seq 0 (length hosts)) in
  let good := filter (fun i => negb (memN (nth i hosts 0) fail)
                               && N.eqb (ts_read_count (s_target s) (e_off e + o) rlen) rlen) req in
  (n <= length good)%nat -> 0 < w -> o < t_len tr ->
  read_rs true s k j e blank fail o w = read_repl tr o w.
Proof.
  intros blank fail o w Hh hosts hj rlen req good Hgood Hw Ho.
  pose proof (wr_len _ _ _ _ _ W) as HeL.
  assert (E : (e_len e <=? o) = false) by (apply N.leb_gt; lia).
  rewrite (read_rs_reconstruct_gen true blank fail o w Hh Hgood); cbv zeta.
  - unfold read_repl. rewrite HeL in *. rewrite E. reflexivity.
  - rewrite E. lia.
  - rewrite E. lia.
Qed.

End Recon.
