(* C13/Props.v — property-level theorems only (statements + `exact`), each followed by Print Assumptions.
   Tags [FULL]/[PARTIAL]/[REFUTED] are read by bin/check. *)
From Coq Require Import List NArith ZArith Arith Bool.
From BLB Require Import Lib.GF256 Lib.GF256Laws Lib.RS Lib.RSLinAlg Lib.RSMds Lib.RSProofs C13.Model
     C13.ProofsPack C13.ProofsRead C13.ProofsRecon C13.ProofsIndexMap C13.ProofsBlob C13.ProofsState C13.ProofsDegraded C13.ProofsIds.
Import ListNotations.
Open Scope nat_scope.

(* [FULL] GF(2^8) as used by the codec is a field: multiplication is commutative, associative, distributes over
   addition (xor), has unit 1 and every non-zero byte has an inverse, and the log/exp tables are multiplication of
   polynomials over GF(2) modulo 0x11D. Proved by exhaustive computation over all 256 bytes (256^3 triples for
   associativity and distributivity) and lifted to all N because every operation masks its operands with 255 *)
Theorem gf256_field :
  (forall a b, gmul a b = gmul b a) /\
  (forall a b c, gmul (gmul a b) c = gmul a (gmul b c)) /\
  (forall a b c, gmul a (gadd b c) = gadd (gmul a b) (gmul a c)) /\
  (forall a, gmul 1 a = byte_of a) /\
  (forall a, byte_of a <> 0%N -> gmul a (ginv a) = 1%N) /\
  (forall a b, (a < 256)%N -> (b < 256)%N -> gmul a b = gmul_slow a b).
Proof.
  repeat split; [exact gmul_comm | exact gmul_assoc | exact gmul_distr_l | exact gmul_1_l | exact gmul_inv
                | exact gmul_is_carryless].
Qed.
Print Assumptions gf256_field.

(* [FULL] MDS: for each configured class 6+3, 8+3, 10+3, 12+5 EVERY choice of n of the n+m rows of the klauspost
   coding matrix (vandermonde times inverse of its top square) is invertible, by the model of the library's own
   Gauss-Jordan elimination. 84+165+286+6188 eliminations, exhaustive *)
Theorem rs_mds :
  forall n m, In (n, m) rs_classes ->
  forall V, sublist V (seq 0 (n + m)) -> length V = n ->
  exists B, invert (rows_of (class_matrix n m) V) = Some B /\
            mmul B (rows_of (class_matrix n m) V) = identity n.
Proof. exact rs_mds_lemma. Qed.
Print Assumptions rs_mds.

(* [FULL] exactness: for every configured class, data shards of ANY equal non-zero length (bytes), and any set S of
   erased positions hitting at most m of the n+m shards, Reconstruct (data_only = false) gives back exactly the
   encoded shards and ReconstructData (data_only = true, what the client uses) gives back exactly the data shards *)
Theorem rs_reconstruct_exact :
  forall n m, In (n, m) rs_classes ->
  forall len d S data_only,
    wf_data n len d -> erased_count n m S <= m ->
    rs_reconstruct_gen n (n + m) (class_matrix n m) (erase S (encode_shards n m d)) data_only
    = inr (d ++ (if data_only then skipn n (erase S (encode_shards n m d))
                 else skipn n (encode_shards n m d))).
Proof. exact rs_reconstruct_gen_exact. Qed.
Print Assumptions rs_reconstruct_exact.

(* [FULL] fail closed at the codec: with fewer than n shards present Reconstruct and ReconstructData return an
   error and no shards, for every matrix and every shard contents *)
Theorem rs_too_few :
  forall n total M shards data_only,
    length shards = total ->
    length (present_indices shards) < n -> length (present_indices shards) <> total ->
    exists e, rs_reconstruct_gen n total M shards data_only = inl e.
Proof. exact rs_too_few_lemma. Qed.
Print Assumptions rs_too_few.

(* [FULL] byte columns are independent: a window of any linear combination of shards is the same linear combination
   of the windows. This is what makes encoding or reconstructing any range of the pieces equal to the same range of
   the result on whole pieces, and it justifies the windowed comparison used by the correspondence check *)
Theorem rs_windows_independent :
  forall off len cs rows,
    lincomb cs (map (window off len) rows) = window off len (lincomb cs rows).
Proof. exact lincomb_window_lemma. Qed.
Print Assumptions rs_windows_independent.

(* [FULL] encode_by_increments: the RSEncode loop, which reads the data pieces and writes the parity pieces in steps
   of any increment size greater than zero with a final short step, produces exactly the parity of the whole pieces,
   for any coding rows, any piece length and any data *)
Theorem encode_by_increments :
  forall fuel inc left rows d,
    0 < inc -> left <= fuel -> Forall (fun s => length s = left) d -> d <> [] ->
    Forall (fun r => r <> []) rows ->
    encode_loop fuel inc left rows d = map (fun row => lincomb row d) rows.
Proof. exact encode_by_increments_lemma. Qed.
Print Assumptions encode_by_increments.

(* [FULL] pack_layout_wf: for every list of tract lengths whose padded length fits the target, every chunk made by
   the first-fit-decreasing packTracts has extents that start at multiples of the pad, are sorted and pairwise disjoint,
   end within a running length that is a multiple of the pad and at most the target, and is accepted by the
   tractserver's checkTractSpec *)
Theorem pack_layout_wf :
  forall lens target,
    Forall (fun l => (padded l <= target)%N) lens ->
    Forall (fun c => wf_pchunk target c /\ check_tract_spec (pc_exts c) target = true) (ffd lens target).
Proof.
  intros lens target H. apply Forall_forall. intros c Hc. split.
  - pose proof (ffd_wf lens target H) as W. rewrite Forall_forall in W. apply W. exact Hc.
  - pose proof (pack_layout_accepted lens target H) as W. rewrite Forall_forall in W. apply (W c Hc).
Qed.
Print Assumptions pack_layout_wf.

(* [FULL] PackTracts contents: in any layout accepted by checkTractSpec, the packed piece holds at every position
   inside an extent the byte of that tract at the position minus the extent's offset, and zero at every position
   outside all extents *)
Theorem pack_piece_contents :
  forall tracts c e,
    check_spec_from 0%N c = Some e ->
    (forall x p, In x c -> (e_off x <= p < e_off x + e_len x)%N ->
                 data_byte tracts c p = pat (t_a (tract_of tracts x)) (t_b (tract_of tracts x)) (p - e_off x)%N) /\
    (forall p, Forall (fun x => ~ (e_off x <= p < e_off x + e_len x)%N) c -> data_byte tracts c p = 0%N).
Proof.
  intros tracts c e H. split.
  - intros x p Hin Hp. apply (data_byte_inside tracts c 0%N e x p H Hin Hp).
  - intros p Hp. apply data_byte_outside. exact Hp.
Qed.
Print Assumptions pack_piece_contents.

(* [FULL] indexmap_correct: for every configured class, every stripe contents, every host list and every set of bad
   hosts covering between 1 and m pieces, the sources, destinations and index map built by reconstructChunk (first n
   good pieces as sources, bad pieces then padding -1 as destinations) make rsEncodeOne (reconstruct, verify, write
   loop) write exactly original piece i to the destination chosen for i for every bad piece i and nothing to the
   padded destinations, whatever the bad pieces currently hold *)
Theorem indexmap_correct :
  forall n m, In (n, m) rs_classes ->
  forall len d hosts bad newids pieces,
    wf_data n len d -> length hosts = n + m ->
    let E := encode_shards n m d in
    let dst := filter (fun i => memN (nth i hosts 0%N) bad) (seq 0 (n + m)) in
    let ok := filter (fun i => negb (memN (nth i hosts 0%N) bad)) (seq 0 (n + m)) in
    dst <> [] -> length dst <= m -> length newids = length dst -> Forall (fun id => id <> 0%N) newids ->
    (forall i, In i (firstn n ok) -> nth i pieces [] = nth i E []) ->
    exists p, reconstruct_plan n m hosts bad newids = Some p /\
              p_src p = firstn n ok /\
              p_map p = map Z.of_nat (firstn n ok) ++ map Z.of_nat dst ++ repeat (-1)%Z (m - length dst) /\
              p_dests p = newids ++ repeat 0%N (m - length dst) /\
              rs_encode_one n m (class_matrix n m) pieces (p_map p) (map (fun id => negb (N.eqb id 0)) (p_dests p))
              = Some (map (fun i => Some (nth i E [])) dst ++ repeat None (m - length dst)).
Proof. exact indexmap_correct_lemma. Qed.
Print Assumptions indexmap_correct.

(* [FULL] the committed host list after reconstruction: replacing the hosts at the distinct bad positions by the newly
   allocated ids puts id q at bad position q and leaves every other position unchanged *)
Theorem reconstruct_hosts_updated :
  forall (dst : list nat) (ids hosts : list N),
    NoDup dst -> length ids = length dst -> (forall i, In i dst -> i < length hosts) ->
    let h' := fold_left (fun h p => set_nth (fst p) (snd p) h) (combine dst ids) hosts in
    length h' = length hosts /\
    (forall q, q < length dst -> nth (nth q dst 0) h' 0%N = nth q ids 0%N) /\
    (forall i, ~ In i dst -> nth i h' 0%N = nth i hosts 0%N).
Proof. exact plan_hosts. Qed.
Print Assumptions reconstruct_hosts_updated.

(* [REFUTED] rs_read_equals_replicated at full strength is FALSE on the model of the code BEFORE fix commit e1cfae8
   (variant fx = false, request clipped to min(len, RS.Length)), finding F15, now fixed in the repository:
   one RS 6+3 stripe, a 100-byte last tract, ReadAt off 90 len 20 gives 10 bytes and EOF replicated but 20 bytes
   and no error through the erasure-coded location *)
Theorem rs_read_equals_replicated_refuted :
  exists s blob off len,
    read_at false s true [] [] blob off len <> read_at false s false [] [] blob off len /\
    fst (fst (read_at false s false [] [] blob off len)) = 10%N /\ snd (fst (read_at false s false [] [] blob off len)) = 1%N /\
    fst (fst (read_at false s true [] [] blob off len)) = 20%N /\ snd (fst (read_at false s true [] [] blob off len)) = 0%N.
Proof. exact rs_read_refuted_lemma. Qed.
Print Assumptions rs_read_equals_replicated_refuted.

(* [REFUTED] on the model of the code BEFORE fix commit e1cfae8 (variant fx = false) a zero-length packed tract read
   through client-side reconstruction returns an error, while the replicated read returns 0 bytes and EOF, finding
   F15b, now fixed in the repository by the same commit *)
Theorem rs_read_zero_length_reconstruct_refuted :
  exists s blob off len fail,
    read_at false s false [] [] blob off len = (0%N, 1%N, []) /\
    snd (fst (read_at false s true [] fail blob off len)) = 2%N.
Proof. exact rs_read_zero_length_refuted_lemma. Qed.
Print Assumptions rs_read_zero_length_reconstruct_refuted.

(* [FULL] rs_read_equals_replicated_at_tract_start, about the code BEFORE fix commit e1cfae8 (variant fx = false) with
   exactly the F15 case carved out; kept as the record of what held before the repair: for every
   tract placed by an accepted layout in a data piece of a stripe of a configured class, whenever the direct piece is
   available, the read through the erasure-coded location returns exactly what the replicated tract returns, count,
   EOF flag, bytes and zero padding, for every length when the in-tract offset is 0, and also for every offset when
   the range ends inside the tract or the tract is empty *)
Theorem rs_read_equals_replicated_at_tract_start :
  forall s k j e tr, wf_read s k j e tr ->
  forall blank fail o w,
    memN (nth j (nth k (s_hosts s) []) 0%N) blank || memN (nth j (nth k (s_hosts s) []) 0%N) fail = false ->
    (o = 0 \/ o + w <= t_len tr \/ t_len tr = 0)%N ->
    read_rs false s k j e blank fail o w = read_repl tr o w.
Proof. exact read_rs_direct_eq. Qed.
Print Assumptions rs_read_equals_replicated_at_tract_start.

(* [FULL] the same carved-out equality when the direct piece is unavailable, the code BEFORE fix commit e1cfae8
   (variant fx = false): if at least n of the
   other pieces answer (any n of them, in any arrival order, the model takes the first n good ones) the client
   rebuilds the window and returns exactly what the replicated tract returns, for non-empty tracts and requests with
   in-tract offset 0 or a range ending inside the tract *)
Theorem rs_read_reconstruct_equals_replicated :
  forall s k j e tr, wf_read s k j e tr ->
  forall blank fail o w,
    memN (nth j (nth k (s_hosts s) []) 0%N) blank || memN (nth j (nth k (s_hosts s) []) 0%N) fail = true ->
    let hosts := nth k (s_hosts s) [] in
    let hj := nth j hosts 0%N in
    let rlen := N.min w (e_len e) in
    let req := filter (fun i => negb (Nat.eqb i j) && negb (N.eqb (nth i hosts 0%N) hj)
                                && negb (memN (nth i hosts 0%N) blank)) (seq 0 (length hosts)) in
    let good := filter (fun i => negb (memN (nth i hosts 0%N) fail)
                                 && N.eqb (ts_read_count (s_target s) (e_off e + o) rlen) rlen) req in
    s_n s <= length good -> (0 < w)%N -> (0 < t_len tr)%N -> (o = 0 \/ o + w <= t_len tr)%N ->
    read_rs false s k j e blank fail o w = read_repl tr o w.
Proof. exact read_rs_reconstruct_eq. Qed.
Print Assumptions rs_read_reconstruct_equals_replicated.

(* [FULL] rs_read_equals_replicated on the CURRENT code (variant fx = true, the repository since fix commit e1cfae8,
   which is what run_case models and the correspondence check validates), direct path: for
   EVERY in-tract offset and every non-empty request the read through the erasure-coded location returns exactly
   what the replicated tract returns *)
Theorem rs_read_equals_replicated_fixed :
  forall s k j e tr, wf_read s k j e tr ->
  forall blank fail o w,
    memN (nth j (nth k (s_hosts s) []) 0%N) blank || memN (nth j (nth k (s_hosts s) []) 0%N) fail = false ->
    (0 < w)%N ->
    read_rs true s k j e blank fail o w = read_repl tr o w.
Proof. exact read_rs_direct_eq_fixed. Qed.
Print Assumptions rs_read_equals_replicated_fixed.

(* [FULL] the CURRENT code (fx = true), reconstruction path: for every offset inside the tract and every non-empty request, if at
   least n other pieces answer, the rebuilt read equals the replicated read. Offsets at or beyond the end of the
   tract, including zero-length tracts, never reach this path on the current code and are covered by the previous
   theorem's local answer *)
Theorem rs_read_reconstruct_equals_replicated_fixed :
  forall s k j e tr, wf_read s k j e tr ->
  forall blank fail o w,
    memN (nth j (nth k (s_hosts s) []) 0%N) blank || memN (nth j (nth k (s_hosts s) []) 0%N) fail = true ->
    let hosts := nth k (s_hosts s) [] in
    let hj := nth j hosts 0%N in
    let rlen := if (e_len e <=? o)%N then 0%N else N.min w (e_len e - o) in
    let req := filter (fun i => negb (Nat.eqb i j) && negb (N.eqb (nth i hosts 0%N) hj)
                                && negb (memN (nth i hosts 0%N) blank)) (seq 0 (length hosts)) in
    let good := filter (fun i => negb (memN (nth i hosts 0%N) fail)
                                 && N.eqb (ts_read_count (s_target s) (e_off e + o) rlen) rlen) req in
    s_n s <= length good -> (0 < w)%N -> (o < t_len tr)%N ->
    read_rs true s k j e blank fail o w = read_repl tr o w.
Proof. exact read_rs_reconstruct_eq_fixed. Qed.
Print Assumptions rs_read_reconstruct_equals_replicated_fixed.

(* [FULL] client_reconstruct_fail_closed: on either variant (current code fx = true, pre-fix code fx = false), whether
   the pieces are missing because their tractserver fails or because the curator has no address for them (blank), when the direct piece is unavailable and fewer than n of the
   other pieces give a full answer, the read of that tract is an error and carries no bytes *)
Theorem client_reconstruct_fail_closed :
  forall s k j e tr, wf_read s k j e tr ->
  forall (fx : bool) blank fail o w,
    memN (nth j (nth k (s_hosts s) []) 0%N) blank || memN (nth j (nth k (s_hosts s) []) 0%N) fail = true ->
    (fx = true -> (t_len tr <= o)%N -> False) ->
    let hosts := nth k (s_hosts s) [] in
    let hj := nth j hosts 0%N in
    let rlen := if fx then (if (e_len e <=? o)%N then 0%N else N.min w (e_len e - o)) else N.min w (e_len e) in
    let req := filter (fun i => negb (Nat.eqb i j) && negb (N.eqb (nth i hosts 0%N) hj)
                                && negb (memN (nth i hosts 0%N) blank)) (seq 0 (length hosts)) in
    let good := filter (fun i => negb (memN (nth i hosts 0%N) fail)
                                 && N.eqb (ts_read_count (s_target s) (e_off e + o) rlen) rlen) req in
    length good < s_n s -> (0 < w)%N ->
    r_err (read_rs fx s k j e blank fail o w) = 2%N /\ r_read (read_rs fx s k j e blank fail o w) = 0%N.
Proof. exact read_rs_fail_closed. Qed.
Print Assumptions client_reconstruct_fail_closed.

(* [FULL] rs_read_equals_replicated at the level of Blob.ReadAt, on the CURRENT code (fx = true, since fix e1cfae8): for every blob whose
   packed tracts are well placed with their direct piece reachable, every offset and every length, including ranges
   that span several tracts, holes and the end of the blob, reading through the erasure-coded locations returns
   exactly the count, error class and bytes that reading the replicated tracts returns *)
Theorem rs_readat_equals_replicated_fixed :
  forall s blob off len,
    blob_ok s blob ->
    read_at true s true [] [] blob off len = read_at true s false [] [] blob off len.
Proof. exact read_at_fixed_eq_lemma. Qed.
Print Assumptions rs_readat_equals_replicated_fixed.

(* [FULL] arrival-order independence: for every configured class and every stripe contents, client-style reconstruction
   (ReconstructData) from ANY n of the n+m pieces, given as a duplicate-free list in any order, succeeds and yields the
   same data shards, namely the original ones. Corollary of rs_mds through rs_reconstruct_exact *)
Theorem rs_any_subset_same_data :
  forall n m, In (n, m) rs_classes ->
  forall len d used1 used2,
    wf_data n len d ->
    NoDup used1 -> length used1 = n -> (forall i, In i used1 -> i < n + m) ->
    NoDup used2 -> length used2 = n -> (forall i, In i used2 -> i < n + m) ->
    let E := encode_shards n m d in
    exists r1 r2,
      rs_reconstruct_data n (n + m) (class_matrix n m) (keep E (n + m) used1) = inr r1 /\
      rs_reconstruct_data n (n + m) (class_matrix n m) (keep E (n + m) used2) = inr r2 /\
      firstn n r1 = d /\ firstn n r2 = d.
Proof. exact rs_any_subset_same_data_lemma. Qed.
Print Assumptions rs_any_subset_same_data.

(* [FULL] wf_read is an invariant of the model states built by the wire ops 10 (packTracts), 11 (packChunks stripes,
   kept only if checkTractSpec accepts every layout, which is where the code refuses a tract that does not fit the
   piece), 15 (committed hosts) and 40 (hosts replaced by reconstructChunk, which keeps the number of hosts): the
   predicate built holds of the state op 10 builds, is preserved by ops 10, 11, 15 and 40, and in a built state every
   tract located by find_in_stripes satisfies wf_read, in particular its extent has the length of the tract and lies
   in a layout accepted by checkTractSpec, with no side condition on tract lengths *)
Theorem wf_read_invariant :
  (forall n m tg sl trs, is_class n m = true -> built (st_pack n m tg sl trs)) /\
  (forall s op, built s ->
     (exists r, op = 10%Z :: r) \/ (exists r, op = 11%Z :: r) \/ (exists r, op = 15%Z :: r) \/ (exists r, op = 40%Z :: r) ->
     built (fst (step s op))) /\
  (forall n m hosts bad newids p, reconstruct_plan n m hosts bad newids = Some p -> length (p_hosts p) = length hosts) /\
  (forall s t k j e,
     built s ->
     find_in_stripes t (s_stripes s) 0 = Some (k, j, e) ->
     length (nth k (s_hosts s) []) = s_n s + s_m s ->
     wf_read s k j e (nth t (s_tracts s) dummy_tract)).
Proof.
  split; [exact built_pack | split; [exact built_preserved_by_ops | split; [exact plan_hosts_len | exact built_wf_read]]].
Qed.
Print Assumptions wf_read_invariant.

(* [FULL] rs_readat_equals_replicated_degraded, current code: for every blob, offset and length, including ranges over
   several tracts, holes and the end of the blob, while in every stripe holding a tract of the blob at most m of the
   n+m piece holders are unavailable, whether their reads fail with an error or reported corruption or the curator
   has no address for them, and whichever pieces those are including the direct one, Blob.ReadAt through the
   erasure-coded locations returns exactly the count, error class and bytes of reading the replicated blob *)
Theorem rs_readat_equals_replicated_degraded :
  forall s blob off len blank fail,
    blob_degraded_ok s blank fail blob ->
    read_at true s true blank fail blob off len = read_at true s false [] [] blob off len.
Proof. exact read_at_degraded_eq_lemma. Qed.
Print Assumptions rs_readat_equals_replicated_degraded.

(* [FULL] the same without the wf_read hypothesis and without any side condition on tract lengths, over the model states
   built by ops 10, 11, 15 and 40: every stripe has its n+m hosts recorded and at most m of them unavailable *)
Theorem rs_readat_equals_replicated_degraded_built :
  forall s blob off len blank fail,
    built s ->
    (forall k, k < length (s_stripes s) ->
       length (nth k (s_hosts s) []) = s_n s + s_m s /\ down_count s k blank fail <= s_m s) ->
    read_at true s true blank fail blob off len = read_at true s false [] [] blob off len.
Proof. exact read_at_degraded_built_lemma. Qed.
Print Assumptions rs_readat_equals_replicated_degraded_built.

(* [FULL] fail closed through the multi-tract fold of readAt: if the result of some tract of the request carries the
   error class, as client_reconstruct_fail_closed shows it does when more than m pieces of its stripe are
   unavailable, and the tracts before it ended normally or at end of file, then the whole ReadAt reports the error
   class and its byte count does not exceed what was requested from the tracts before the failing one *)
Theorem readat_fail_closed :
  forall pre r post pad acc,
    Forall (fun x => (r_err x = 0 \/ r_err x = 1)%N /\ (r_read x <= r_wanted x)%N) pre ->
    r_err r = 2%N ->
    snd (fold_results (pre ++ r :: post) pad acc) = 2%N /\
    (fst (fold_results (pre ++ r :: post) pad acc) <= acc + sum_wanted pre)%N.
Proof. exact fold_results_fail_closed_lemma. Qed.
Print Assumptions readat_fail_closed.

(* [FULL] rs_readat_fail_closed_blob, current code: for any blob, offset and length, if some tract of the consulted range
   needs bytes (its in-tract offset lies inside it) from a stripe with MORE than m unavailable holders, its direct
   piece among them, then Blob.ReadAt returns the error class, its byte count does not exceed what was requested
   from the tracts before that one nor the replicated read's count, and the bytes it returns are exactly the
   corresponding prefix of what the replicated blob returns, never different bytes *)
Theorem rs_readat_fail_closed_blob :
  forall s blob off len blank fail i t o w k j e,
    blob_ok s blob ->
    nth_error (consulted blob off len) i = Some (t, (o, w)) ->
    find_in_stripes t (s_stripes s) O = Some (k, j, e) ->
    down blank fail (nth j (nth k (s_hosts s) []) 0%N) = true ->
    s_m s < down_count s k blank fail ->
    (o < t_len (nth t (s_tracts s) dummy_tract))%N ->
    let R := read_at true s true blank fail blob off len in
    let P := read_at true s false [] [] blob off len in
    snd (fst R) = 2%N /\ (fst (fst R) <= req_before blob off len i)%N /\
    (fst (fst R) <= fst (fst P))%N /\ snd R = firstn (N.to_nat (fst (fst R))) (snd P).
Proof. exact read_at_fail_closed_blob_lemma. Qed.
Print Assumptions rs_readat_fail_closed_blob.

(* [FULL] rs_readat_exact_or_fail_closed, the dichotomy, current code: for EVERY blob whose packed tracts are well
   placed, every offset and length, and EVERY set of unavailable holders, failing or without address, with no bound
   on their number, Blob.ReadAt through the erasure-coded locations either returns exactly the count, error class
   and bytes of the replicated blob, or returns the error class with a byte count not above the replicated one and
   bytes that are a prefix of the replicated blob's bytes. By rs_readat_equals_replicated_degraded the first case holds
   whenever every stripe has at most m unavailable holders, by rs_readat_fail_closed_blob the second whenever a needed
   stripe has more *)
Theorem rs_readat_exact_or_fail_closed :
  forall s blob off len blank fail,
    blob_ok s blob ->
    let R := read_at true s true blank fail blob off len in
    let P := read_at true s false [] [] blob off len in
    R = P \/
    (snd (fst R) = 2%N /\ (fst (fst R) <= fst (fst P))%N /\ snd R = firstn (N.to_nat (fst (fst R))) (snd P)).
Proof. exact read_at_exact_or_fail_closed_lemma. Qed.
Print Assumptions rs_readat_exact_or_fail_closed.

(* [FULL] piece_ids_disjoint_across_stripes: in the chunk-id allocation of a packing round (packChunks: one allocated
   base, stripe i works on base plus i times n+m, piece j of a stripe has the stripe base plus j) the piece ids of two
   different stripes have no id in common, for every base, all n and m including 0, and any stripe indices; hence the ids
   of a round with any number of stripes are pairwise distinct and lie inside the allocated block *)
Theorem piece_ids_disjoint_across_stripes :
  (forall base n m i j x, i <> j -> In x (piece_ids base n m i) -> ~ In x (piece_ids base n m j)) /\
  (forall base n m k, NoDup (round_ids base n m k)) /\
  (forall base n m k x, In x (round_ids base n m k) -> (base <= x < base + N.of_nat (k * (n + m)))%N).
Proof. split; [exact piece_ids_disjoint_lemma | split; [exact round_ids_NoDup_lemma | exact round_ids_in_block_lemma]]. Qed.
Print Assumptions piece_ids_disjoint_across_stripes.

(* [FULL] rs_readat_exact_or_fail_closed_built: the dichotomy with no blob_ok hypothesis, over the model states built by
   ops 10, 11, 15 and 40 whose stripes have their n+m hosts recorded: for every blob, offset, length and every set of
   unavailable holders, ReadAt through the erasure-coded locations equals the replicated read, or is the error class
   with a byte count not above the replicated one and bytes that are a prefix of the replicated blob's bytes *)
Theorem rs_readat_exact_or_fail_closed_built :
  forall s blob off len blank fail,
    built s ->
    (forall k, k < length (s_stripes s) -> length (nth k (s_hosts s) []) = s_n s + s_m s) ->
    let R := read_at true s true blank fail blob off len in
    let P := read_at true s false [] [] blob off len in
    R = P \/
    (snd (fst R) = 2%N /\ (fst (fst R) <= fst (fst P))%N /\ snd R = firstn (N.to_nat (fst (fst R))) (snd P)).
Proof. exact read_at_exact_or_fail_closed_built_lemma. Qed.
Print Assumptions rs_readat_exact_or_fail_closed_built.

(* [FULL] rs_readat_fail_closed_blob_built: the blob-level fail-closed statement with no blob_ok hypothesis, over the same
   built states: a consulted tract needing bytes from a stripe with more than m unavailable holders, its direct piece
   among them, makes ReadAt return the error class with only a prefix of the replicated bytes, not longer than what was
   requested from the preceding tracts *)
Theorem rs_readat_fail_closed_blob_built :
  forall s blob off len blank fail i t o w k j e,
    built s ->
    (forall k, k < length (s_stripes s) -> length (nth k (s_hosts s) []) = s_n s + s_m s) ->
    nth_error (consulted blob off len) i = Some (t, (o, w)) ->
    find_in_stripes t (s_stripes s) O = Some (k, j, e) ->
    down blank fail (nth j (nth k (s_hosts s) []) 0%N) = true ->
    s_m s < down_count s k blank fail ->
    (o < t_len (nth t (s_tracts s) dummy_tract))%N ->
    let R := read_at true s true blank fail blob off len in
    let P := read_at true s false [] [] blob off len in
    snd (fst R) = 2%N /\ (fst (fst R) <= req_before blob off len i)%N /\
    (fst (fst R) <= fst (fst P))%N /\ snd R = firstn (N.to_nat (fst (fst R))) (snd P).
Proof. exact read_at_fail_closed_blob_built_lemma. Qed.
Print Assumptions rs_readat_fail_closed_blob_built.
