(* C13/ProofsPack.v — increments and packing layouts.
   lincomb_window        : byte columns are independent (a window of a linear combination is the linear
                           combination of the windows) -- this is also what justifies the model's windowed ops
   encode_by_increments  : the RSEncode loop (EncodeIncrementSize steps, final short step) = encoding whole pieces
   pack_layout_wf        : packTracts' first-fit-decreasing layouts are padded, sorted, disjoint, in range, and
                           accepted by checkTractSpec; PackTracts' piece is the tracts at their offsets, zero elsewhere *)
From Coq Require Import NArith List Bool Arith Lia ZifyN ZifyNat ZifyBool.
From BLB Require Import Lib.GF256 Lib.GF256Laws Lib.RS Lib.RSLinAlg Gen.Consts C13.Model.
Import ListNotations.

(* ---------- windows ---------- *)
Lemma firstn_vadd : forall k x y, firstn k (vadd x y) = vadd (firstn k x) (firstn k y).
Proof.
  induction k as [|k IH]; intros x y; [destruct x; reflexivity|].
  destruct x as [|a x]; destruct y as [|b y]; try reflexivity.
  simpl. f_equal. apply IH.
Qed.

Lemma skipn_vadd : forall k x y, skipn k (vadd x y) = vadd (skipn k x) (skipn k y).
Proof.
  induction k as [|k IH]; intros x y; [reflexivity|].
  destruct x as [|a x]; destruct y as [|b y]; simpl; try reflexivity.
  - rewrite vadd_nil_r. reflexivity.
  - apply IH.
Qed.

Lemma firstn_vscale : forall k c x, firstn k (vscale c x) = vscale c (firstn k x).
Proof. intros. unfold vscale. apply firstn_map. Qed.

Lemma skipn_vscale : forall k c x, skipn k (vscale c x) = vscale c (skipn k x).
Proof. intros. unfold vscale. apply skipn_map. Qed.

Lemma lincomb_firstn : forall k cs rows, lincomb cs (map (firstn k) rows) = firstn k (lincomb cs rows).
Proof.
  induction cs as [|c cs IH]; intros rows; [destruct k; reflexivity|].
  destruct rows as [|r rows]; [destruct k; reflexivity|].
  simpl. rewrite firstn_vadd, firstn_vscale, IH. reflexivity.
Qed.

Lemma lincomb_skipn : forall k cs rows, lincomb cs (map (skipn k) rows) = skipn k (lincomb cs rows).
Proof.
  induction cs as [|c cs IH]; intros rows; [destruct k; reflexivity|].
  destruct rows as [|r rows]; [destruct k; reflexivity|].
  simpl. rewrite skipn_vadd, skipn_vscale, IH. reflexivity.
Qed.

Definition window (off len : nat) (v : list N) : list N := firstn len (skipn off v).

Lemma lincomb_window_lemma : forall off len cs rows,
  lincomb cs (map (window off len) rows) = window off len (lincomb cs rows).
Proof.
  intros. unfold window. rewrite <- lincomb_skipn, <- lincomb_firstn, map_map. reflexivity.
Qed.

(* ---------- store.go RSEncode: the loop over increments ----------
   off := 0; for length > 0 { l := min(length, increment); rsEncodeOne(off, l); length -= l; off += l }
   Each rsEncodeOne reads window [off, off+l) of every data piece and writes the parity window at off; the parity
   pieces are the concatenation of what is written.  [left] is the remaining length. *)
Fixpoint encode_loop (fuel inc left : nat) (rows : list (list N)) (d : list (list N)) : list (list N) :=
  match fuel with
  | O => map (fun _ => []) rows
  | S f =>
      match left with
      | O => map (fun _ => []) rows
      | _ => let l := Nat.min left inc in
             let now := map (fun row => lincomb row (map (firstn l) d)) rows in
             let later := encode_loop f inc (left - l) rows (map (skipn l) d) in
             map (fun p => fst p ++ snd p) (combine now later)
      end
  end.

Lemma map_combine_app : forall A B (f g : A -> list B) (l : list A),
  map (fun p => fst p ++ snd p) (combine (map f l) (map g l)) = map (fun x => f x ++ g x) l.
Proof. induction l; simpl; [reflexivity|]. f_equal. assumption. Qed.

Lemma encode_by_increments_lemma : forall fuel inc left rows d,
  (0 < inc)%nat -> (left <= fuel)%nat -> Forall (fun s => length s = left) d -> d <> [] ->
  Forall (fun r => r <> []) rows ->
  encode_loop fuel inc left rows d = map (fun row => lincomb row d) rows.
Proof.
  induction fuel as [|fuel IH]; intros inc left rows d Hinc Hfuel Hlen Hd Hrows.
  - assert (left = 0)%nat by lia. subst. simpl.
    apply map_ext_in. intros row Hrow.
    (* all shards are empty *)
    assert (Hz : all_len 0 d) by exact Hlen.
    rewrite Forall_forall in Hrows. specialize (Hrows row Hrow).
    pose proof (lincomb_length 0 row d Hz Hrows Hd) as L. destruct (lincomb row d); [reflexivity | discriminate].
  - destruct left as [|left'].
    + simpl. apply map_ext_in. intros row Hrow.
      assert (Hz : all_len 0 d) by exact Hlen.
      rewrite Forall_forall in Hrows. specialize (Hrows row Hrow).
      pose proof (lincomb_length 0 row d Hz Hrows Hd) as L. destruct (lincomb row d); [reflexivity | discriminate].
    + cbn [encode_loop]. set (l := Nat.min (S left') inc).
      rewrite (IH inc (S left' - l)%nat rows (map (skipn l) d)); try assumption.
      * rewrite map_combine_app. apply map_ext. intro row.
        rewrite lincomb_firstn, lincomb_skipn. apply firstn_skipn.
      * unfold l. lia.
      * apply Forall_forall. intros s Hs. apply in_map_iff in Hs. destruct Hs as [s0 [<- Hs0]].
        rewrite Forall_forall in Hlen. rewrite skipn_length, (Hlen s0 Hs0). reflexivity.
      * destruct d; [contradiction | discriminate].
Qed.

(* ---------- packTracts ---------- *)
Open Scope N_scope.

Lemma pad_pos : 0 < pad_to.
Proof. reflexivity. Qed.

Lemma padded_ge : forall l, l <= padded l.
Proof.
  intro l. unfold padded. pose proof pad_pos as P.
  pose proof (N.div_mod (l + pad_to - 1) pad_to ltac:(lia)) as D.
  pose proof (N.mod_lt (l + pad_to - 1) pad_to ltac:(lia)) as M.
  nia.
Qed.

Lemma padded_multiple : forall l, (padded l) mod pad_to = 0.
Proof. intro l. unfold padded. apply N.mod_mul. pose proof pad_pos. lia. Qed.

(* a chunk under construction: extents start at multiples of the pad, are sorted and disjoint, end before
   the chunk's running length, which is a multiple of the pad within the target *)
Definition wf_pchunk (target : N) (c : pchunk) : Prop :=
  exists e, check_spec_from 0 (pc_exts c) = Some e /\ e <= pc_len c /\ pc_len c <= target /\
            (pc_len c) mod pad_to = 0 /\ Forall (fun x => (e_off x) mod pad_to = 0) (pc_exts c).

Lemma check_spec_from_app : forall l s x,
  check_spec_from s (l ++ [x]) =
  match check_spec_from s l with
  | Some e => if e_off x <? e then None else Some (e_off x + e_len x)
  | None => None
  end.
Proof.
  induction l as [|y l IH]; intros s x; simpl; [reflexivity|].
  destruct (e_off y <? s); [reflexivity | apply IH].
Qed.

Lemma place_wf : forall target chs t len,
  padded len <= target -> Forall (wf_pchunk target) chs ->
  Forall (wf_pchunk target) (place chs t len (padded len) target).
Proof.
  intros target chs t len Hp. induction chs as [|c chs IH]; intro H.
  - simpl. constructor; [|constructor]. exists len. simpl. repeat split.
    + apply padded_ge.
    + exact Hp.
    + apply padded_multiple.
    + constructor; [reflexivity | constructor].
  - inversion H as [|? ? Hc Hr]; subst. simpl.
    destruct (pc_len c + padded len <=? target) eqn:E.
    + constructor; [|exact Hr]. apply N.leb_le in E.
      destruct Hc as [e [H1 [H2 [H3 [H4 H5]]]]].
      exists (pc_len c + len). simpl. repeat split.
      * rewrite check_spec_from_app, H1. simpl.
        destruct (pc_len c <? e) eqn:E2; [apply N.ltb_lt in E2; lia | reflexivity].
      * pose proof (padded_ge len). lia.
      * exact E.
      * pose proof pad_pos. rewrite N.add_mod by lia. rewrite H4, padded_multiple. reflexivity.
      * apply Forall_app. split; [exact H5|]. constructor; [exact H4 | constructor].
    + constructor; [exact Hc | apply IH; exact Hr].
Qed.

Lemma ffd_wf : forall lens target,
  Forall (fun l => padded l <= target) lens -> Forall (wf_pchunk target) (ffd lens target).
Proof.
  intros lens target H. unfold ffd.
  assert (G : forall (ps : list (nat * N)) chs,
             Forall (fun p => padded (snd p) <= target) ps -> Forall (wf_pchunk target) chs ->
             Forall (wf_pchunk target)
                    (fold_left (fun chs p => place chs (fst p) (snd p) (padded (snd p)) target) ps chs)).
  { induction ps as [|p ps IH]; intros chs Hps Hchs; [exact Hchs|].
    inversion Hps; subst. simpl. apply IH; [assumption|]. apply place_wf; assumption. }
  apply G; [|constructor].
  apply Forall_forall. intros [i l] Hp. rewrite Forall_forall in H. apply H.
  apply in_combine_r in Hp. exact Hp.
Qed.

(* every layout packTracts produces is accepted by the tractserver's checkTractSpec *)
Lemma pack_layout_accepted : forall lens target,
  Forall (fun l => padded l <= target) lens ->
  Forall (fun c => check_tract_spec (pc_exts c) target = true) (ffd lens target).
Proof.
  intros lens target H. pose proof (ffd_wf lens target H) as W.
  eapply Forall_impl; [|exact W]. intros c [e [H1 [H2 [H3 _]]]].
  unfold check_tract_spec. rewrite H1. apply negb_true_iff. apply N.ltb_ge. lia.
Qed.

(* ---------- PackTracts: contents of the packed piece ---------- *)
(* in a layout accepted by checkTractSpec the extents are disjoint and ordered *)
Lemma check_spec_lower : forall c s e, check_spec_from s c = Some e ->
  Forall (fun x => s <= e_off x) c.
Proof.
  induction c as [|x c IH]; intros s e H; [constructor|].
  simpl in H. destruct (e_off x <? s) eqn:E; [discriminate|]. apply N.ltb_ge in E.
  constructor; [exact E|].
  specialize (IH _ _ H). eapply Forall_impl; [|exact IH]. intros y Hy. simpl in Hy. lia.
Qed.

Definition tract_of (tracts : list tract) (x : ext) : tract := nth (e_tr x) tracts dummy_tract.

Definition db_step (tracts : list tract) (p : N) (acc : N) (e : ext) : N :=
  if (e_off e <=? p) && (p <? e_off e + e_len e)
  then pat (t_a (tract_of tracts e)) (t_b (tract_of tracts e)) (p - e_off e)
  else acc.

Lemma data_byte_unfold : forall tracts c p, data_byte tracts c p = fold_left (db_step tracts p) c 0.
Proof. reflexivity. Qed.

Lemma db_fold_outside : forall tracts c p acc,
  Forall (fun x => ~ (e_off x <= p < e_off x + e_len x)) c ->
  fold_left (db_step tracts p) c acc = acc.
Proof.
  intros tracts. induction c as [|x c IH]; intros p acc H; [reflexivity|].
  inversion H; subst. cbn [fold_left]. unfold db_step at 2.
  destruct ((e_off x <=? p) && (p <? e_off x + e_len x)) eqn:E.
  - apply andb_true_iff in E. destruct E as [E1 E2]. apply N.leb_le in E1. apply N.ltb_lt in E2. lia.
  - apply IH. assumption.
Qed.

(* zero padding: outside every extent the piece holds 0 *)
Lemma data_byte_outside : forall tracts c p,
  Forall (fun x => ~ (e_off x <= p < e_off x + e_len x)) c -> data_byte tracts c p = 0.
Proof. intros. rewrite data_byte_unfold. apply db_fold_outside. assumption. Qed.

Lemma db_fold_inside : forall tracts c acc s e x p,
  check_spec_from s c = Some e -> In x c -> e_off x <= p < e_off x + e_len x ->
  fold_left (db_step tracts p) c acc
  = pat (t_a (tract_of tracts x)) (t_b (tract_of tracts x)) (p - e_off x).
Proof.
  intros tracts. induction c as [|y c IH]; intros acc s e x p Hc Hin Hp; [contradiction|].
  simpl in Hc. destruct (e_off y <? s) eqn:E; [discriminate|].
  cbn [fold_left]. destruct Hin as [-> | Hin].
  - assert (T : db_step tracts p acc x = pat (t_a (tract_of tracts x)) (t_b (tract_of tracts x)) (p - e_off x)).
    { unfold db_step.
      assert (T : (e_off x <=? p) && (p <? e_off x + e_len x) = true).
      { apply andb_true_iff. split; [apply N.leb_le | apply N.ltb_lt]; lia. }
      rewrite T. reflexivity. }
    rewrite T.
    (* the remaining extents start at or after this one's end *)
    pose proof (check_spec_lower _ _ _ Hc) as L.
    apply db_fold_outside.
    eapply Forall_impl; [|exact L]. intros z Hz. simpl in Hz. lia.
  - apply (IH _ _ _ _ _ Hc Hin Hp).
Qed.

(* inside an extent of an accepted layout the piece holds that tract's byte *)
Lemma data_byte_inside : forall tracts c s e x p,
  check_spec_from s c = Some e -> In x c -> e_off x <= p < e_off x + e_len x ->
  data_byte tracts c p = pat (t_a (tract_of tracts x)) (t_b (tract_of tracts x)) (p - e_off x).
Proof. intros. rewrite data_byte_unfold. eapply db_fold_inside; eassumption. Qed.
