(* C13/ProofsState.v — wf_read is an invariant of the model states built by ops 10 / 11 / 15:
   [built] holds of st_pack (op 10), is preserved by st_stripes (op 11) and st_set_hosts (op 15), and in a built
   state every tract that find_in_stripes locates satisfies wf_read (in particular: extent length = tract length,
   the extent lies in an accepted layout of a data piece of a stripe of n chunks of a configured class). *)
From Coq Require Import NArith ZArith List Bool Arith Lia ZifyN ZifyNat ZifyBool.
From BLB Require Import Lib.GF256 Lib.RS Lib.RSMds Lib.RSProofs Gen.Consts C13.Model C13.ProofsPack C13.ProofsRead.
Import ListNotations.
Open Scope nat_scope.

Record built (s : st) : Prop := {
  b_class : In (s_n s, s_m s) rs_classes;
  b_M : s_M s = class_matrix (s_n s) (s_m s);
  b_chunks : s_chunks s = ffd (map t_len (s_tracts s)) (s_target s);
  b_stripes : Forall (fun stripe => length stripe = s_n s /\
                                    Forall (fun c => check_tract_spec c (s_target s) = true /\
                                                     (c = [] \/ exists pc, In pc (s_chunks s) /\ c = pc_exts pc)) stripe)
                     (s_stripes s)
}.

Lemma is_class_In : forall n m, is_class n m = true -> In (n, m) rs_classes.
Proof.
  intros n m H. unfold is_class in H. apply existsb_exists in H. destruct H as [[a b] [Hin E]].
  apply andb_true_iff in E. destruct E as [E1 E2]. apply Nat.eqb_eq in E1. apply Nat.eqb_eq in E2.
  simpl in *. subst. exact Hin.
Qed.

(* op 10 *)
Lemma built_pack : forall n m tg sl trs, is_class n m = true -> built (st_pack n m tg sl trs).
Proof.
  intros. constructor; simpl; [apply is_class_In; assumption | reflexivity | reflexivity | constructor].
Qed.

Lemma chunks_of_full : forall A fuel n (l : list A) k, 0 < n -> k * n <= length l ->
  Forall (fun c => length c = n /\ incl c l) (firstn k (chunks_of fuel n l)).
Proof.
  induction fuel as [|f IH]; intros n l k Hn Hk; [destruct k; constructor|].
  destruct l as [|x l]; [destruct k; constructor|].
  cbn [chunks_of]. destruct k as [|k]; [constructor|].
  cbn [firstn]. constructor.
  - split; [rewrite firstn_length; change (S k * n) with (n + k * n) in Hk; lia|]. intros y Hy. apply firstn_in in Hy. exact Hy.
  - assert (Hk' : k * n <= length (skipn n (x :: l))) by (rewrite skipn_length; change (S k * n) with (n + k * n) in Hk; lia).
    specialize (IH n (skipn n (x :: l)) k Hn Hk').
    eapply Forall_impl; [|exact IH]. intros c [Hl Hi]. split; [exact Hl|].
    intros y Hy. specialize (Hi y Hy). rewrite <- (firstn_skipn n (x :: l)). apply in_or_app. right. exact Hi.
Qed.

(* op 11 *)
Lemma built_stripes : forall s ls, built s -> built (st_stripes s ls).
Proof.
  intros s ls B. destruct B as [B1 B2 B3 B4]. constructor; simpl; try assumption.
  pose proof (n_pos _ _ B1) as Hn.
  set (exts := map (fun l => match find_chunk s l with Some c => pc_exts c | None => [] end) ls).
  assert (Hk : (length ls / s_n s) * s_n s <= length exts).
  { unfold exts. rewrite map_length. rewrite Nat.mul_comm. apply Nat.mul_div_le. lia. }
  pose proof (chunks_of_full _ (length ls / s_n s) (s_n s) exts (length ls / s_n s) Hn Hk) as F.
  rewrite Forall_forall in F. apply Forall_forall. intros stripe Hs. apply filter_In in Hs.
  destruct Hs as [Hs Hchk]. destruct (F stripe Hs) as [Hl Hi]. split; [exact Hl|].
  rewrite forallb_forall in Hchk.
  apply Forall_forall. intros c Hc. split; [apply Hchk; exact Hc|].
  specialize (Hi c Hc). unfold exts in Hi. apply in_map_iff in Hi.
  destruct Hi as [l [E _]]. unfold find_chunk in E.
  destruct (find (fun c0 => Nat.eqb (pc_leader c0) l) (s_chunks s)) as [pc|] eqn:Ef.
  - right. exists pc. split; [apply find_some in Ef; destruct Ef; assumption | symmetry; exact E].
  - left. symmetry. exact E.
Qed.

Lemma set_nth_len : forall A k (v : A) l, length (set_nth k v l) = length l.
Proof. induction k; destruct l; simpl; auto. Qed.

Lemma nth_set_nth_eq : forall A k (v d : A) l, k < length l -> nth k (set_nth k v l) d = v.
Proof. induction k; destruct l; simpl; intros; try lia; [reflexivity | apply IHk; lia]. Qed.

(* op 15 *)
Lemma built_set_hosts : forall s k hosts, built s ->
  built (st_set_hosts s k hosts) /\
  (k < length (s_hosts s) -> nth k (s_hosts (st_set_hosts s k hosts)) [] = hosts).
Proof.
  intros s k hosts B. split.
  - destruct B. constructor; simpl; assumption.
  - intro H. simpl. apply nth_set_nth_eq. exact H.
Qed.

(* ---------- every extent of every chunk made by packTracts has the length of its tract ---------- *)
Definition ext_ok (lens : list N) (x : ext) : Prop := nth_error lens (e_tr x) = Some (e_len x).

Lemma place_ext_ok : forall lens target chs t len p,
  nth_error lens t = Some len ->
  Forall (fun c => Forall (ext_ok lens) (pc_exts c)) chs ->
  Forall (fun c => Forall (ext_ok lens) (pc_exts c)) (place chs t len p target).
Proof.
  intros lens target chs t len p Ht. induction chs as [|c chs IH]; intro H.
  - simpl. constructor; [|constructor]. simpl. constructor; [exact Ht | constructor].
  - inversion H; subst. simpl. destruct (N.leb (pc_len c + p) target).
    + constructor; [|assumption]. simpl. apply Forall_app. split; [assumption|].
      constructor; [exact Ht | constructor].
    + constructor; [assumption | apply IH; assumption].
Qed.

Lemma combine_seq_nth_error : forall (l pre : list N),
  Forall (fun p => nth_error (pre ++ l) (fst p) = Some (snd p)) (combine (seq (length pre) (length l)) l).
Proof.
  induction l as [|x l IH]; intro pre; [constructor|].
  simpl. constructor.
  - simpl. rewrite nth_error_app2 by lia. rewrite Nat.sub_diag. reflexivity.
  - specialize (IH (pre ++ [x])). rewrite app_length in IH. simpl in IH.
    replace (length pre + 1) with (S (length pre)) in IH by lia.
    rewrite <- app_assoc in IH. exact IH.
Qed.

Lemma ffd_ext_ok : forall lens target,
  Forall (fun c => Forall (ext_ok lens) (pc_exts c)) (ffd lens target).
Proof.
  intros lens target. unfold ffd.
  pose proof (combine_seq_nth_error lens []) as C. simpl in C.
  revert C. generalize (combine (seq 0 (length lens)) lens) as ps.
  assert (G : forall (ps : list (nat * N)) chs,
             Forall (fun p => nth_error lens (fst p) = Some (snd p)) ps ->
             Forall (fun c => Forall (ext_ok lens) (pc_exts c)) chs ->
             Forall (fun c => Forall (ext_ok lens) (pc_exts c))
                    (fold_left (fun chs p => place chs (fst p) (snd p) (padded (snd p)) target) ps chs)).
  { induction ps as [|p ps IH]; intros chs Hps Hchs; [exact Hchs|].
    inversion Hps; subst. simpl. apply IH; [assumption|]. apply place_ext_ok; assumption. }
  intros ps C. apply G; [exact C | constructor].
Qed.

(* ---------- what find_in_stripes returns ---------- *)
Lemma find_ext_spec : forall t c e, find_ext t c = Some e -> In e c /\ e_tr e = t.
Proof.
  induction c as [|x c IH]; intros e H; [discriminate|].
  simpl in H. destruct (Nat.eqb (e_tr x) t) eqn:E.
  - injection H as <-. split; [left; reflexivity | apply Nat.eqb_eq; exact E].
  - destruct (IH e H). split; [right; assumption | assumption].
Qed.

Lemma find_in_chunks_spec : forall t chs j0 j e, find_in_chunks t chs j0 = Some (j, e) ->
  exists i, j = j0 + i /\ i < length chs /\ find_ext t (nth i chs []) = Some e.
Proof.
  induction chs as [|c chs IH]; intros j0 j e H; [discriminate|].
  simpl in H. destruct (find_ext t c) as [e'|] eqn:E.
  - injection H as <- <-. exists 0. simpl. repeat split; [lia | lia | exact E].
  - destruct (IH _ _ _ H) as [i [A [B C]]]. exists (S i). simpl. repeat split; [lia | lia | exact C].
Qed.

Lemma find_in_stripes_spec : forall t ss k0 k j e, find_in_stripes t ss k0 = Some (k, j, e) ->
  exists i, k = k0 + i /\ i < length ss /\ find_in_chunks t (nth i ss []) 0 = Some (j, e).
Proof.
  induction ss as [|chs ss IH]; intros k0 k j e H; [discriminate|].
  simpl in H. destruct (find_in_chunks t chs 0) as [[j' e']|] eqn:E.
  - injection H as <- <- <-. exists 0. simpl. repeat split; [lia | lia | exact E].
  - destruct (IH _ _ _ _ H) as [i [A [B C]]]. exists (S i). simpl. repeat split; [lia | lia | exact C].
Qed.

(* ---------- the invariant gives wf_read ---------- *)
Theorem built_wf_read : forall s t k j e,
  built s ->
  find_in_stripes t (s_stripes s) 0 = Some (k, j, e) ->
  length (nth k (s_hosts s) []) = s_n s + s_m s ->
  wf_read s k j e (nth t (s_tracts s) dummy_tract).
Proof.
  intros s t k j e B Hf Hh. destruct B as [B1 B2 B3 B4].
  destruct (find_in_stripes_spec _ _ _ _ _ _ Hf) as [k' [Ek [Hk Hc]]]. simpl in Ek. subst k'.
  destruct (find_in_chunks_spec _ _ _ _ _ Hc) as [j' [Ej [Hj He]]]. simpl in Ej. subst j'.
  destruct (find_ext_spec _ _ _ He) as [Hin Htr].
  rewrite Forall_forall in B4.
  destruct (B4 (nth k (s_stripes s) []) (nth_In _ _ Hk)) as [Hlen Hchs].
  rewrite Forall_forall in Hchs.
  destruct (Hchs (nth j (nth k (s_stripes s) []) []) (nth_In _ _ Hj)) as [Hspec [Hnil | [pc [Hpc Epc]]]].
  { rewrite Hnil in Hin. contradiction. }
  rewrite B3 in Hpc.
  constructor.
  - exact B1.
  - exact B2.
  - exact Hlen.
  - rewrite <- Hlen. exact Hj.
  - exact Hin.
  - exact Hspec.
  - unfold tract_of. rewrite Htr. reflexivity.
  - pose proof (ffd_ext_ok (map t_len (s_tracts s)) (s_target s)) as X. rewrite Forall_forall in X.
    specialize (X pc Hpc). rewrite Forall_forall in X. rewrite Epc in Hin. specialize (X e Hin).
    unfold ext_ok in X. rewrite Htr in X. rewrite nth_error_map in X.
    destruct (nth_error (s_tracts s) t) as [tr|] eqn:En; [|discriminate].
    simpl in X. injection X as X. rewrite (nth_error_nth _ _ _ En). symmetry. exact X.
  - exact Hh.
Qed.

(* ---------- the tie to the wire ops: ops 10 / 11 / 15 either leave the state alone or build it with the named
   constructors, so [built] is an invariant of every state reached from a built one by these ops ---------- *)
Lemma step_op10 : forall s n m tg sl nt rest,
  fst (step s (10%Z :: n :: m :: tg :: sl :: nt :: rest)) = s \/
  (is_class (Z.to_nat n) (Z.to_nat m) = true /\
   fst (step s (10%Z :: n :: m :: tg :: sl :: nt :: rest)) = st_pack (Z.to_nat n) (Z.to_nat m) (zN tg) (zN sl) (triples rest)).
Proof.
  intros. cbn [step]. cbv zeta.
  destruct (is_class (Z.to_nat n) (Z.to_nat m)) eqn:E; cbn [negb]; [|left; reflexivity].
  destruct (negb (Nat.eqb (length (triples rest)) (Z.to_nat nt))); [left; reflexivity|].
  destruct (negb (sorted_desc (map t_len (triples rest)))); [left; reflexivity|].
  destruct (negb _); [left; reflexivity|].
  right. split; reflexivity.
Qed.

Lemma step_op11 : forall s cnt leaders,
  fst (step s (11%Z :: cnt :: leaders)) = s \/
  fst (step s (11%Z :: cnt :: leaders)) = st_stripes s (map Z.to_nat leaders).
Proof.
  intros. cbn [step]. cbv zeta. destruct (negb _); [left | right]; reflexivity.
Qed.

Lemma step_op15 : forall s k hosts,
  fst (step s (15%Z :: k :: hosts)) = s \/
  (length hosts = total s /\ Z.to_nat k < length (s_stripes s) /\
   fst (step s (15%Z :: k :: hosts)) = st_set_hosts s (Z.to_nat k) (map zN hosts)).
Proof.
  intros. cbn [step].
  destruct (Nat.eqb (length hosts) (total s)) eqn:E1; cbn [negb orb]; [|left; reflexivity].
  destruct (Nat.ltb (Z.to_nat k) (length (s_stripes s))) eqn:E2; cbn [negb]; [|left; reflexivity].
  right. apply Nat.eqb_eq in E1. apply Nat.ltb_lt in E2. repeat split; assumption.
Qed.

Lemma step_op40 : forall s r,
  fst (step s (40%Z :: r)) = s \/ exists k h, fst (step s (40%Z :: r)) = st_set_hosts s k h.
Proof.
  intros s r. destruct r as [|k rest]; [left; reflexivity|]. cbn [step].
  destruct (take_list rest) as [[badp rest']|]; [|left; reflexivity].
  destruct (take_list rest') as [[newids [|x y]]|]; try (left; reflexivity).
  cbv zeta. destruct (reconstruct_plan _ _ _ _ _) as [p|]; [|left; reflexivity].
  right. eexists. eexists. reflexivity.
Qed.

Theorem built_preserved_by_ops : forall s op,
  built s ->
  (exists r, op = 10%Z :: r) \/ (exists r, op = 11%Z :: r) \/ (exists r, op = 15%Z :: r) \/ (exists r, op = 40%Z :: r) ->
  built (fst (step s op)).
Proof.
  intros s op B [[r ->] | [[r ->] | [[r ->] | [r ->]]]]; [| | |
    destruct (step_op40 s r) as [-> | [k [h ->]]]; [exact B | apply built_set_hosts; exact B]].
  - destruct r as [|n [|m [|tg [|sl [|nt rest]]]]]; try exact B.
    destruct (step_op10 s n m tg sl nt rest) as [-> | [Hc ->]]; [exact B | apply built_pack; exact Hc].
  - destruct r as [|cnt leaders]; [exact B|].
    destruct (step_op11 s cnt leaders) as [-> | ->]; [exact B | apply built_stripes; exact B].
  - destruct r as [|k hosts]; [exact B|].
    destruct (step_op15 s k hosts) as [-> | [_ [_ ->]]]; [exact B | apply built_set_hosts; exact B].
Qed.

(* op 40 keeps the number of recorded hosts of the stripe *)
Lemma fold_set_nth_len : forall (ps : list (nat * N)) (h : list N),
  length (fold_left (fun h p => set_nth (fst p) (snd p) h) ps h) = length h.
Proof. induction ps as [|p ps IH]; intro h; simpl; [reflexivity|]. rewrite IH. apply set_nth_len. Qed.

Lemma plan_hosts_len : forall n m hosts bad newids p,
  reconstruct_plan n m hosts bad newids = Some p -> length (p_hosts p) = length hosts.
Proof.
  intros n m hosts bad newids p H. unfold reconstruct_plan in H.
  destruct (Nat.ltb _ n); [discriminate|].
  destruct (filter _ _) as [|d0 dst]; [discriminate|].
  destruct (negb _); [discriminate|]. injection H as <-. simpl. apply fold_set_nth_len.
Qed.
