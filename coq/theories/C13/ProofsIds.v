(* C13/ProofsIds.v — packChunks gives every stripe of a round its own n+m piece ids. *)
From Coq Require Import NArith List Arith Lia ZifyN ZifyNat FinFun.
From BLB Require Import C13.Model.
Import ListNotations.
Open Scope nat_scope.

Lemma piece_ids_range : forall base n m i x,
  In x (piece_ids base n m i) ->
  (base + N.of_nat (i * (n + m)) <= x < base + N.of_nat (i * (n + m)) + N.of_nat (n + m))%N.
Proof.
  intros base n m i x H. unfold piece_ids, stripe_base in H. apply in_map_iff in H.
  destruct H as [j [<- Hj]]. apply in_seq in Hj. lia.
Qed.

(* for all n, m >= 0, any base and any two different stripe indices: no id in common *)
Theorem piece_ids_disjoint_lemma : forall base n m i j x,
  i <> j -> In x (piece_ids base n m i) -> ~ In x (piece_ids base n m j).
Proof.
  intros base n m i j x Hij Hi Hj.
  apply piece_ids_range in Hi. apply piece_ids_range in Hj.
  assert (i < j \/ j < i) as [H | H] by lia.
  - assert (S i * (n + m) <= j * (n + m)) by (apply Nat.mul_le_mono_r; lia). simpl in H0. lia.
  - assert (S j * (n + m) <= i * (n + m)) by (apply Nat.mul_le_mono_r; lia). simpl in H0. lia.
Qed.

(* the ids of a whole round are pairwise distinct, and they are exactly the allocated block [base, base + k(n+m)) *)
Lemma piece_ids_NoDup : forall base n m i, NoDup (piece_ids base n m i).
Proof.
  intros. unfold piece_ids. apply Injective_map_NoDup; [|apply seq_NoDup].
  intros a b H. lia.
Qed.

Lemma NoDup_app_disj : forall A (a b : list A),
  NoDup a -> NoDup b -> (forall x, In x a -> ~ In x b) -> NoDup (a ++ b).
Proof.
  induction a as [|x a IH]; intros b Ha Hb H; [exact Hb|].
  inversion Ha; subst. simpl. constructor.
  - intro Hin. apply in_app_or in Hin. destruct Hin as [Hin | Hin]; [contradiction|].
    apply (H x (or_introl eq_refl) Hin).
  - apply IH; [assumption | assumption | intros y Hy; apply H; right; exact Hy].
Qed.

Theorem round_ids_NoDup_lemma : forall base n m k, NoDup (round_ids base n m k).
Proof.
  intros base n m k. unfold round_ids.
  assert (G : forall l, NoDup l -> NoDup (flat_map (piece_ids base n m) l)).
  { induction l as [|i l IH]; intro H; [constructor|]. inversion H; subst. simpl.
    apply NoDup_app_disj.
    - apply piece_ids_NoDup.
    - apply IH. assumption.
    - intros x Hx Hy. apply in_flat_map in Hy. destruct Hy as [j [Hj Hxj]].
      apply (piece_ids_disjoint_lemma base n m i j x); [intro; subst; contradiction | assumption | assumption]. }
  apply G, seq_NoDup.
Qed.

Theorem round_ids_in_block_lemma : forall base n m k x,
  In x (round_ids base n m k) -> (base <= x < base + N.of_nat (k * (n + m)))%N.
Proof.
  intros base n m k x H. unfold round_ids in H. apply in_flat_map in H. destruct H as [i [Hi Hx]].
  apply in_seq in Hi. apply piece_ids_range in Hx.
  assert (S i * (n + m) <= k * (n + m)) by (apply Nat.mul_le_mono_r; lia). simpl in H. lia.
Qed.
