(* C13/ProofsDegraded.v
   (1) read_at_degraded_eq : Blob.ReadAt over an RS-coded blob while, per stripe, up to m piece holders are unavailable
       (their reads fail -- error or reported corruption -- or the curator has no address for them) returns exactly
       what reading the replicated blob returns; assembled from the per-tract theorems through readAt's fold.
       fold_results_fail_closed : a tract result with the error class makes the whole ReadAt an error that carries
       only bytes of the tracts before it.
   (3) rs_any_subset_same_data : reconstruction from ANY n of the n+m pieces, listed in any order, gives the same data. *)
From Coq Require Import NArith List Bool Arith Lia ZifyN ZifyNat ZifyBool.
From BLB Require Import Lib.GF256 Lib.RS Lib.RSLinAlg Lib.RSMds Lib.RSProofs Gen.Consts
     C13.Model C13.ProofsPack C13.ProofsRead C13.ProofsRecon C13.ProofsIndexMap C13.ProofsBlob C13.ProofsState.
Import ListNotations.
Open Scope nat_scope.

(* ---------- (3) any n pieces, any order ---------- *)
Definition keep (E : list (list N)) (total : nat) (used : list nat) : list (list N) :=
  map (fun i => if memn i used then nth i E [] else []) (seq 0 total).

Theorem rs_any_subset_same_data_lemma : forall n m, In (n, m) rs_classes ->
  forall len d used1 used2,
    wf_data n len d ->
    NoDup used1 -> length used1 = n -> (forall i, In i used1 -> i < n + m) ->
    NoDup used2 -> length used2 = n -> (forall i, In i used2 -> i < n + m) ->
    let E := encode_shards n m d in
    exists r1 r2,
      rs_reconstruct_data n (n + m) (class_matrix n m) (keep E (n + m) used1) = inr r1 /\
      rs_reconstruct_data n (n + m) (class_matrix n m) (keep E (n + m) used2) = inr r2 /\
      firstn n r1 = d /\ firstn n r2 = d.
Proof.
  intros n m Hc len d used1 used2 Hwf N1 L1 B1 N2 L2 B2 E.
  pose proof Hwf as [Hdl _].
  assert (HEl : length E = n + m) by (apply encode_length; assumption).
  assert (G : forall used, NoDup used -> length used = n -> (forall i, In i used -> i < n + m) ->
              exists r, rs_reconstruct_data n (n + m) (class_matrix n m) (keep E (n + m) used) = inr r /\ firstn n r = d).
  { intros used Nd Ln Bd.
    destruct (keep_only_used n m E used (fun i => nth i E []) HEl Nd Ln) as [Hk Hcount].
    { intros i Hi. split; [apply Bd; exact Hi | reflexivity]. }
    unfold keep. rewrite Hk. unfold rs_reconstruct_data, E.
    rewrite (rs_reconstruct_gen_exact n m Hc len d _ true Hwf Hcount).
    eexists. split; [reflexivity|].
    rewrite firstn_app, Hdl, Nat.sub_diag, firstn_all2 by lia. cbn [firstn]. apply app_nil_r. }
  destruct (G used1 N1 L1 B1) as [r1 [A1 A2]]. destruct (G used2 N2 L2 B2) as [r2 [C1 C2]].
  exists r1, r2. repeat split; assumption.
Qed.

(* ---------- counting the available pieces ---------- *)
Lemma filter_nth_seq : forall (P : N -> bool) (l pre : list N),
  length (filter (fun i => P (nth i (pre ++ l) 0%N)) (seq (length pre) (length l))) = length (filter P l).
Proof.
  induction l as [|x l IH]; intro pre; [reflexivity|].
  cbn [length seq filter]. rewrite app_nth2 by lia. rewrite Nat.sub_diag. cbn [nth].
  specialize (IH (pre ++ [x])). rewrite app_length in IH. simpl length in IH.
  replace (length pre + 1) with (S (length pre)) in IH by lia. rewrite <- app_assoc in IH. simpl app in IH.
  destruct (P x); simpl; rewrite IH; reflexivity.
Qed.

Lemma filter_filter_mono : forall A (up r g : A -> bool) l,
  (forall x, In x l -> up x = true -> r x = true /\ g x = true) ->
  length (filter up l) <= length (filter g (filter r l)).
Proof.
  induction l as [|x l IH]; intro H; [simpl; lia|].
  assert (IH' := IH (fun y Hy => H y (or_intror Hy))).
  cbn [filter]. destruct (up x) eqn:Eu.
  - destruct (H x (or_introl eq_refl) Eu) as [Hr Hg]. rewrite Hr. cbn [filter]. rewrite Hg. simpl. lia.
  - destruct (r x); [cbn [filter]; destruct (g x); simpl; lia | lia].
Qed.

Definition down (blank fail : list N) (h : N) : bool := memN h blank || memN h fail.

(* number of piece holders of stripe k that are unavailable *)
Definition down_count (s : st) (k : nat) (blank fail : list N) : nat :=
  length (filter (down blank fail) (nth k (s_hosts s) [])).

Open Scope N_scope.

Section Degraded.
Variables (s : st) (k j : nat) (e : ext) (tr : tract).
Hypothesis W : wf_read s k j e tr.

Lemma read_rs_fixed_beyond : forall blank fail o w,
  t_len tr <= o -> 0 < w -> read_rs true s k j e blank fail o w = read_repl tr o w.
Proof.
  intros blank fail o w Ho Hw. unfold read_rs, read_repl. cbv zeta.
  rewrite (wr_len _ _ _ _ _ W).
  assert (E : (t_len tr <=? o) = true) by (apply N.leb_le; exact Ho).
  rewrite E. cbn [andb N.eqb].
  destruct (0 <? w) eqn:E2; [|apply N.ltb_ge in E2; lia].
  rewrite N.sub_0_r. reflexivity.
Qed.

Lemma enough_good : forall blank fail o w,
  down blank fail (nth j (nth k (s_hosts s) []) 0) = true ->
  (down_count s k blank fail <= s_m s)%nat -> o < t_len tr ->
  let hosts := nth k (s_hosts s) [] in
  let hj := nth j hosts 0 in
  let rlen := if e_len e <=? o then 0 else N.min w (e_len e - o) in
  let req := filter (fun i => negb (Nat.eqb i j) && negb (N.eqb (nth i hosts 0) hj)
                              && negb (memN (nth i hosts 0) blank)) (seq 0 (length hosts)) in
  let good := filter (fun i => negb (memN (nth i hosts 0) fail)
                               && N.eqb (ts_read_count (s_target s) (e_off e + o) rlen) rlen) req in
  (s_n s <= length good)%nat.
Proof.
  intros blank fail o w Hd Hc Ho hosts hj rlen req good.
  pose proof (wr_len _ _ _ _ _ W) as HeL. pose proof (extent_in_piece s k j e tr W) as Hin.
  pose proof (wr_hosts _ _ _ _ _ W) as Hhl. fold hosts in Hhl.
  assert (Er : ts_read_count (s_target s) (e_off e + o) rlen = rlen).
  { unfold rlen, ts_read_count. rewrite HeL in *.
    destruct (t_len tr <=? o) eqn:E; [apply N.leb_le in E; lia|].
    destruct (s_target s <=? e_off e + o) eqn:E2; [apply N.leb_le in E2; lia | apply N.leb_gt in E2; lia]. }
  set (up := fun i => negb (down blank fail (nth i hosts 0))).
  assert (Hmono : (length (filter up (seq 0 (length hosts))) <= length good)%nat).
  { unfold good, req. apply filter_filter_mono. intros i _ Hu. unfold up, down in Hu.
    apply negb_true_iff, orb_false_iff in Hu. destruct Hu as [Hb Hf].
    assert (Hne : N.eqb (nth i hosts 0) hj = false).
    { destruct (N.eqb (nth i hosts 0) hj) eqn:E; [|reflexivity]. apply N.eqb_eq in E.
      unfold down in Hd. fold hosts in Hd. fold hj in Hd. rewrite <- E, Hb, Hf in Hd. discriminate. }
    assert (Hij : Nat.eqb i j = false).
    { destruct (Nat.eqb i j) eqn:E; [|reflexivity]. apply Nat.eqb_eq in E. subst i.
      unfold hj in Hne. rewrite N.eqb_refl in Hne. discriminate. }
    rewrite Hij, Hne, Hb, Hf, Er, N.eqb_refl. split; reflexivity. }
  pose proof (filter_partition_length _ (fun i => down blank fail (nth i hosts 0)) (seq 0 (length hosts))) as F.
  rewrite seq_length in F.
  pose proof (filter_nth_seq (down blank fail) hosts []) as Q. simpl in Q.
  unfold down_count in Hc. fold hosts in Hc. fold up in F. lia.
Qed.

(* one tract, degraded: whatever the direct piece's state, with at most m holders of the stripe unavailable *)
Lemma read_rs_degraded_eq : forall blank fail o w,
  (down_count s k blank fail <= s_m s)%nat -> 0 < w ->
  read_rs true s k j e blank fail o w = read_repl tr o w.
Proof.
  intros blank fail o w Hc Hw.
  destruct (down blank fail (nth j (nth k (s_hosts s) []) 0)) eqn:Hd.
  - destruct (N.le_gt_cases (t_len tr) o) as [Ho | Ho].
    + apply read_rs_fixed_beyond; assumption.
    + apply (read_rs_reconstruct_eq_fixed s k j e tr W blank fail o w Hd); [|exact Hw | exact Ho].
      apply enough_good; assumption.
  - apply (read_rs_direct_eq_fixed s k j e tr W blank fail o w Hd Hw).
Qed.

End Degraded.

(* ---------- readAt's fold: equal per-tract results give equal reads ---------- *)
Lemma read_at_ext : forall s blob off len rs1 b1 f1 rs2 b2 f2,
  (forall t o w, In t blob -> 0 < w ->
     read_tract true s rs1 b1 f1 t o w = read_tract true s rs2 b2 f2 t o w) ->
  read_at true s rs1 b1 f1 blob off len = read_at true s rs2 b2 f2 blob off len.
Proof.
  intros s blob off len rs1 b1 f1 rs2 b2 f2 Heq. unfold read_at.
  destruct (len =? 0) eqn:El; [reflexivity|]. apply N.eqb_neq in El.
  cbv zeta.
  destruct (N.of_nat (length blob) <=? off / TL) eqn:Est; [reflexivity|].
  set (start := off / TL). set (endt := (off + len + TL - 1) / TL).
  set (nt := N.of_nat (length blob)).
  set (last := N.min (endt + 1) nt). set (got := last - start).
  set (pad_all := got =? endt + 1 - start).
  set (cnt := if pad_all then got - 1 else got).
  set (ts := firstn (N.to_nat cnt) (skipn (N.to_nat start) blob)).
  set (rgs := ranges (length ts) off len 0).
  assert (Hres : map (fun p => read_tract true s rs1 b1 f1 (fst p) (fst (snd p)) (snd (snd p))) (combine ts rgs)
               = map (fun p => read_tract true s rs2 b2 f2 (fst p) (fst (snd p)) (snd (snd p))) (combine ts rgs)).
  { assert (Hpos : Forall (fun p => 0 < snd p) rgs).
    { unfold rgs. apply ranges_pos; [lia|].
      rewrite N.add_0_r. fold start. fold endt.
      assert (Hlen : (length ts <= N.to_nat cnt)%nat) by (unfold ts; rewrite firstn_length; lia).
      assert (Hcnt : cnt <= endt - start).
      { unfold cnt, pad_all. destruct (got =? endt + 1 - start) eqn:Eg.
        - apply N.eqb_eq in Eg. lia.
        - apply N.eqb_neq in Eg. unfold got, last in *. lia. }
      lia. }
    apply map_ext_in. intros [t [o w]] Hin. cbn [fst snd].
    assert (Hw : 0 < w).
    { apply in_combine_r in Hin. rewrite Forall_forall in Hpos. apply (Hpos (o, w) Hin). }
    assert (Ht : In t blob).
    { apply in_combine_l in Hin. unfold ts in Hin. apply firstn_in in Hin.
      rewrite <- (firstn_skipn (N.to_nat start) blob). apply in_or_app. right. exact Hin. }
    apply Heq; assumption. }
  rewrite Hres. reflexivity.
Qed.

(* every packed tract of the blob: well placed, and at most m holders of its stripe unavailable *)
Definition blob_degraded_ok (s : st) (blank fail : list N) (blob : list nat) : Prop :=
  forall t, In t blob ->
    match find_in_stripes t (s_stripes s) O with
    | None => True
    | Some (k, j, e) => wf_read s k j e (nth t (s_tracts s) dummy_tract) /\
                        (down_count s k blank fail <= s_m s)%nat
    end.

Theorem read_at_degraded_eq_lemma : forall s blob off len blank fail,
  blob_degraded_ok s blank fail blob ->
  read_at true s true blank fail blob off len = read_at true s false [] [] blob off len.
Proof.
  intros s blob off len blank fail Hok. apply read_at_ext. intros t o w Ht Hw.
  unfold read_tract. specialize (Hok t Ht).
  destruct (find_in_stripes t (s_stripes s) 0) as [[[k j] e]|]; [|reflexivity].
  destruct Hok as [W Hc]. apply (read_rs_degraded_eq s k j e _ W blank fail o w Hc Hw).
Qed.

(* ---------- fail closed through the fold ---------- *)
Fixpoint sum_wanted (rs : list tres) : N :=
  match rs with [] => 0 | r :: t => r_wanted r + sum_wanted t end.

Lemma fold_results_fail_closed_lemma : forall pre r post pad acc,
  Forall (fun x => (r_err x = 0 \/ r_err x = 1) /\ r_read x <= r_wanted x) pre ->
  r_err r = 2 ->
  snd (fold_results (pre ++ r :: post) pad acc) = 2 /\
  fst (fold_results (pre ++ r :: post) pad acc) <= acc + sum_wanted pre.
Proof.
  induction pre as [|x pre IH]; intros r post pad acc Hpre Hr.
  - simpl. rewrite Hr. simpl. split; [reflexivity | lia].
  - inversion Hpre as [|? ? [Hx Hxr] Hp]; subst.
    cbn [app fold_results sum_wanted].
    destruct (pre ++ r :: post) eqn:Ep; [destruct pre; discriminate|]. rewrite <- Ep.
    destruct Hx as [Hx | Hx]; rewrite Hx.
    + destruct (IH r post pad (acc + r_read x) Hp Hr) as [A B]. split; [exact A | lia].
    + destruct (IH r post pad (acc + r_wanted x) Hp Hr) as [A B]. split; [exact A | lia].
Qed.

(* ---------- without the wf_read hypothesis: over the model states built by ops 10 / 11 / 15 ---------- *)
Theorem read_at_degraded_built_lemma : forall s blob off len blank fail,
  built s ->
  Forall (fun tr => padded (t_len tr) <= s_target s) (s_tracts s) ->
  (forall k, (k < length (s_stripes s))%nat ->
     length (nth k (s_hosts s) []) = (s_n s + s_m s)%nat /\ (down_count s k blank fail <= s_m s)%nat) ->
  read_at true s true blank fail blob off len = read_at true s false [] [] blob off len.
Proof.
  intros s blob off len blank fail B Hpad Hk. apply read_at_degraded_eq_lemma.
  intros t _. destruct (find_in_stripes t (s_stripes s) 0) as [[[k j] e]|] eqn:Ef; [|exact I].
  destruct (find_in_stripes_spec _ _ _ _ _ _ Ef) as [k' [Ek [Hlt _]]]. simpl in Ek. subst k'.
  destruct (Hk k Hlt) as [Hh Hc]. split; [|exact Hc].
  apply built_wf_read; assumption.
Qed.
