(* C13/ProofsDegraded.v
   (1) read_at_degraded_eq : Blob.ReadAt over an RS-coded blob while, per stripe, up to m piece holders are unavailable
       (their reads fail -- error or reported corruption -- or the curator has no address for them) returns exactly
       what reading the replicated blob returns; assembled from the per-tract theorems through readAt's fold.
       fold_results_fail_closed : a tract result with the error class makes the whole ReadAt an error that carries
       only bytes of the tracts before it.
   (3) rs_any_subset_same_data : reconstruction from ANY n of the n+m pieces, listed in any order, gives the same data. *)
From Coq Require Import NArith List Bool Arith Lia ZifyN ZifyNat ZifyBool.
From BLB Require Import Lib.GF256 Lib.RS Lib.RSLinAlg Lib.RSMds Lib.RSProofs Gen.Consts
     C13.Model C13.ProofsPack C13.ProofsRead C13.ProofsRecon C13.ProofsIndexMap C13.ProofsBlob C13.ProofsState.
Import ListNotations.
Open Scope nat_scope.

(* ---------- (3) any n pieces, any order ---------- *)
Definition keep (E : list (list N)) (total : nat) (used : list nat) : list (list N) :=
  map (fun i => if memn i used then nth i E [] else []) (seq 0 total).

Theorem rs_any_subset_same_data_lemma : forall n m, In (n, m) rs_classes ->
  forall len d used1 used2,
    wf_data n len d ->
    NoDup used1 -> length used1 = n -> (forall i, In i used1 -> i < n + m) ->
    NoDup used2 -> length used2 = n -> (forall i, In i used2 -> i < n + m) ->
    let E := encode_shards n m d in
    exists r1 r2,
      rs_reconstruct_data n (n + m) (class_matrix n m) (keep E (n + m) used1) = inr r1 /\
      rs_reconstruct_data n (n + m) (class_matrix n m) (keep E (n + m) used2) = inr r2 /\
      firstn n r1 = d /\ firstn n r2 = d.
Proof.
  intros n m Hc len d used1 used2 Hwf N1 L1 B1 N2 L2 B2 E.
  pose proof Hwf as [Hdl _].
  assert (HEl : length E = n + m) by (apply encode_length; assumption).
  assert (G : forall used, NoDup used -> length used = n -> (forall i, In i used -> i < n + m) ->
              exists r, rs_reconstruct_data n (n + m) (class_matrix n m) (keep E (n + m) used) = inr r /\ firstn n r = d).
  { intros used Nd Ln Bd.
    destruct (keep_only_used n m E used (fun i => nth i E []) HEl Nd Ln) as [Hk Hcount].
    { intros i Hi. split; [apply Bd; exact Hi | reflexivity]. }
    unfold keep. rewrite Hk. unfold rs_reconstruct_data, E.
    rewrite (rs_reconstruct_gen_exact n m Hc len d _ true Hwf Hcount).
    eexists. split; [reflexivity|].
    rewrite firstn_app, Hdl, Nat.sub_diag, firstn_all2 by lia. cbn [firstn]. apply app_nil_r. }
  destruct (G used1 N1 L1 B1) as [r1 [A1 A2]]. destruct (G used2 N2 L2 B2) as [r2 [C1 C2]].
  exists r1, r2. repeat split; assumption.
Qed.

(* ---------- counting the available pieces ---------- *)
Lemma filter_nth_seq : forall (P : N -> bool) (l pre : list N),
  length (filter (fun i => P (nth i (pre ++ l) 0%N)) (seq (length pre) (length l))) = length (filter P l).
Proof.
  induction l as [|x l IH]; intro pre; [reflexivity|].
  cbn [length seq filter]. rewrite app_nth2 by lia. rewrite Nat.sub_diag. cbn [nth].
  specialize (IH (pre ++ [x])). rewrite app_length in IH. simpl length in IH.
  replace (length pre + 1) with (S (length pre)) in IH by lia. rewrite <- app_assoc in IH. simpl app in IH.
  destruct (P x); simpl; rewrite IH; reflexivity.
Qed.

Lemma filter_filter_mono : forall A (up r g : A -> bool) l,
  (forall x, In x l -> up x = true -> r x = true /\ g x = true) ->
  length (filter up l) <= length (filter g (filter r l)).
Proof.
  induction l as [|x l IH]; intro H; [simpl; lia|].
  assert (IH' := IH (fun y Hy => H y (or_intror Hy))).
  cbn [filter]. destruct (up x) eqn:Eu.
  - destruct (H x (or_introl eq_refl) Eu) as [Hr Hg]. rewrite Hr. cbn [filter]. rewrite Hg. simpl. lia.
  - destruct (r x); [cbn [filter]; destruct (g x); simpl; lia | lia].
Qed.

Definition down (blank fail : list N) (h : N) : bool := memN h blank || memN h fail.

(* number of piece holders of stripe k that are unavailable *)
Definition down_count (s : st) (k : nat) (blank fail : list N) : nat :=
  length (filter (down blank fail) (nth k (s_hosts s) [])).

Open Scope N_scope.

Section Degraded.
Variables (s : st) (k j : nat) (e : ext) (tr : tract).
Hypothesis W : wf_read s k j e tr.

Lemma read_rs_fixed_beyond : forall blank fail o w,
  t_len tr <= o -> 0 < w -> read_rs true s k j e blank fail o w = read_repl tr o w.
Proof.
  intros blank fail o w Ho Hw. unfold read_rs, read_repl. cbv zeta.
  rewrite (wr_len _ _ _ _ _ W).
  assert (E : (t_len tr <=? o) = true) by (apply N.leb_le; exact Ho).
  rewrite E. cbn [andb N.eqb].
  destruct (0 <? w) eqn:E2; [|apply N.ltb_ge in E2; lia].
  rewrite N.sub_0_r. reflexivity.
Qed.

Lemma enough_good : forall blank fail o w,
  down blank fail (nth j (nth k (s_hosts s) []) 0) = true ->
  (down_count s k blank fail <= s_m s)%nat -> o < t_len tr ->
  let hosts := nth k (s_hosts s) [] in
  let hj := nth j hosts 0 in
  let rlen := if e_len e <=? o then 0 else N.min w (e_len e - o) in
  let req := filter (fun i => negb (Nat.eqb i j) && negb (N.eqb (nth i hosts 0) hj)
                              && negb (memN (nth i hosts 0) blank)) (seq 0 (length hosts)) in
  let good := filter (fun i => negb (memN (nth i hosts 0) fail)
                               && N.eqb (ts_read_count (s_target s) (e_off e + o) rlen) rlen) req in
  (s_n s <= length good)%nat.
Proof.
  intros blank fail o w Hd Hc Ho hosts hj rlen req good.
  pose proof (wr_len _ _ _ _ _ W) as HeL. pose proof (extent_in_piece s k j e tr W) as Hin.
  pose proof (wr_hosts _ _ _ _ _ W) as Hhl. fold hosts in Hhl.
  assert (Er : ts_read_count (s_target s) (e_off e + o) rlen = rlen).
  { unfold rlen, ts_read_count. rewrite HeL in *.
    destruct (t_len tr <=? o) eqn:E; [apply N.leb_le in E; lia|].
    destruct (s_target s <=? e_off e + o) eqn:E2; [apply N.leb_le in E2; lia | apply N.leb_gt in E2; lia]. }
  set (up := fun i => negb (down blank fail (nth i hosts 0))).
  assert (Hmono : (length (filter up (seq 0 (length hosts))) <= length good)%nat).
  { unfold good, req. apply filter_filter_mono. intros i _ Hu. unfold up, down in Hu.
    apply negb_true_iff, orb_false_iff in Hu. destruct Hu as [Hb Hf].
    assert (Hne : N.eqb (nth i hosts 0) hj = false).
    { destruct (N.eqb (nth i hosts 0) hj) eqn:E; [|reflexivity]. apply N.eqb_eq in E.
      unfold down in Hd. fold hosts in Hd. fold hj in Hd. rewrite <- E, Hb, Hf in Hd. discriminate. }
    assert (Hij : Nat.eqb i j = false).
    { destruct (Nat.eqb i j) eqn:E; [|reflexivity]. apply Nat.eqb_eq in E. subst i.
      unfold hj in Hne. rewrite N.eqb_refl in Hne. discriminate. }
    rewrite Hij, Hne, Hb, Hf, Er, N.eqb_refl. split; reflexivity. }
  pose proof (filter_partition_length _ (fun i => down blank fail (nth i hosts 0)) (seq 0 (length hosts))) as F.
  rewrite seq_length in F.
  pose proof (filter_nth_seq (down blank fail) hosts []) as Q. simpl in Q.
  unfold down_count in Hc. fold hosts in Hc. fold up in F. lia.
Qed.

(* one tract, degraded: whatever the direct piece's state, with at most m holders of the stripe unavailable *)
Lemma read_rs_degraded_eq : forall blank fail o w,
  (down_count s k blank fail <= s_m s)%nat -> 0 < w ->
  read_rs true s k j e blank fail o w = read_repl tr o w.
Proof.
  intros blank fail o w Hc Hw.
  destruct (down blank fail (nth j (nth k (s_hosts s) []) 0)) eqn:Hd.
  - destruct (N.le_gt_cases (t_len tr) o) as [Ho | Ho].
    + apply read_rs_fixed_beyond; assumption.
    + apply (read_rs_reconstruct_eq_fixed s k j e tr W blank fail o w Hd); [|exact Hw | exact Ho].
      apply enough_good; assumption.
  - apply (read_rs_direct_eq_fixed s k j e tr W blank fail o w Hd Hw).
Qed.

End Degraded.

(* ---------- readAt's fold: equal per-tract results give equal reads ---------- *)
Lemma read_at_ext : forall s blob off len rs1 b1 f1 rs2 b2 f2,
  (forall t o w, In t blob -> 0 < w ->
     read_tract true s rs1 b1 f1 t o w = read_tract true s rs2 b2 f2 t o w) ->
  read_at true s rs1 b1 f1 blob off len = read_at true s rs2 b2 f2 blob off len.
Proof.
  intros s blob off len rs1 b1 f1 rs2 b2 f2 Heq. unfold read_at.
  destruct (len =? 0) eqn:El; [reflexivity|]. apply N.eqb_neq in El.
  cbv zeta.
  destruct (N.of_nat (length blob) <=? off / TL) eqn:Est; [reflexivity|].
  set (start := off / TL). set (endt := (off + len + TL - 1) / TL).
  set (nt := N.of_nat (length blob)).
  set (last := N.min (endt + 1) nt). set (got := last - start).
  set (pad_all := got =? endt + 1 - start).
  set (cnt := if pad_all then got - 1 else got).
  set (ts := firstn (N.to_nat cnt) (skipn (N.to_nat start) blob)).
  set (rgs := ranges (length ts) off len 0).
  assert (Hres : map (fun p => read_tract true s rs1 b1 f1 (fst p) (fst (snd p)) (snd (snd p))) (combine ts rgs)
               = map (fun p => read_tract true s rs2 b2 f2 (fst p) (fst (snd p)) (snd (snd p))) (combine ts rgs)).
  { assert (Hpos : Forall (fun p => 0 < snd p) rgs).
    { unfold rgs. apply ranges_pos; [lia|].
      rewrite N.add_0_r. fold start. fold endt.
      assert (Hlen : (length ts <= N.to_nat cnt)%nat) by (unfold ts; rewrite firstn_length; lia).
      assert (Hcnt : cnt <= endt - start).
      { unfold cnt, pad_all. destruct (got =? endt + 1 - start) eqn:Eg.
        - apply N.eqb_eq in Eg. lia.
        - apply N.eqb_neq in Eg. unfold got, last in *. lia. }
      lia. }
    apply map_ext_in. intros [t [o w]] Hin. cbn [fst snd].
    assert (Hw : 0 < w).
    { apply in_combine_r in Hin. rewrite Forall_forall in Hpos. apply (Hpos (o, w) Hin). }
    assert (Ht : In t blob).
    { apply in_combine_l in Hin. unfold ts in Hin. apply firstn_in in Hin.
      rewrite <- (firstn_skipn (N.to_nat start) blob). apply in_or_app. right. exact Hin. }
    apply Heq; assumption. }
  rewrite Hres. reflexivity.
Qed.

(* every packed tract of the blob: well placed, and at most m holders of its stripe unavailable *)
Definition blob_degraded_ok (s : st) (blank fail : list N) (blob : list nat) : Prop :=
  forall t, In t blob ->
    match find_in_stripes t (s_stripes s) O with
    | None => True
    | Some (k, j, e) => wf_read s k j e (nth t (s_tracts s) dummy_tract) /\
                        (down_count s k blank fail <= s_m s)%nat
    end.

Theorem read_at_degraded_eq_lemma : forall s blob off len blank fail,
  blob_degraded_ok s blank fail blob ->
  read_at true s true blank fail blob off len = read_at true s false [] [] blob off len.
Proof.
  intros s blob off len blank fail Hok. apply read_at_ext. intros t o w Ht Hw.
  unfold read_tract. specialize (Hok t Ht).
  destruct (find_in_stripes t (s_stripes s) 0) as [[[k j] e]|]; [|reflexivity].
  destruct Hok as [W Hc]. apply (read_rs_degraded_eq s k j e _ W blank fail o w Hc Hw).
Qed.

(* ---------- fail closed through the fold ---------- *)
Fixpoint sum_wanted (rs : list tres) : N :=
  match rs with [] => 0 | r :: t => r_wanted r + sum_wanted t end.

Lemma fold_results_fail_closed_lemma : forall pre r post pad acc,
  Forall (fun x => (r_err x = 0 \/ r_err x = 1) /\ r_read x <= r_wanted x) pre ->
  r_err r = 2 ->
  snd (fold_results (pre ++ r :: post) pad acc) = 2 /\
  fst (fold_results (pre ++ r :: post) pad acc) <= acc + sum_wanted pre.
Proof.
  induction pre as [|x pre IH]; intros r post pad acc Hpre Hr.
  - simpl. rewrite Hr. simpl. split; [reflexivity | lia].
  - inversion Hpre as [|? ? [Hx Hxr] Hp]; subst.
    cbn [app fold_results sum_wanted].
    destruct (pre ++ r :: post) eqn:Ep; [destruct pre; discriminate|]. rewrite <- Ep.
    destruct Hx as [Hx | Hx]; rewrite Hx.
    + destruct (IH r post pad (acc + r_read x) Hp Hr) as [A B]. split; [exact A | lia].
    + destruct (IH r post pad (acc + r_wanted x) Hp Hr) as [A B]. split; [exact A | lia].
Qed.

(* ---------- without the wf_read hypothesis: over the model states built by ops 10 / 11 / 15 ---------- *)
Theorem read_at_degraded_built_lemma : forall s blob off len blank fail,
  built s ->
  (forall k, (k < length (s_stripes s))%nat ->
     length (nth k (s_hosts s) []) = (s_n s + s_m s)%nat /\ (down_count s k blank fail <= s_m s)%nat) ->
  read_at true s true blank fail blob off len = read_at true s false [] [] blob off len.
Proof.
  intros s blob off len blank fail B Hk. apply read_at_degraded_eq_lemma.
  intros t _. destruct (find_in_stripes t (s_stripes s) 0) as [[[k j] e]|] eqn:Ef; [|exact I].
  destruct (find_in_stripes_spec _ _ _ _ _ _ Ef) as [k' [Ek [Hlt _]]]. simpl in Ek. subst k'.
  destruct (Hk k Hlt) as [Hh Hc]. split; [|exact Hc].
  apply built_wf_read; assumption.
Qed.

(* ====================================================================================================
   exact OR fail closed, at the level of Blob.ReadAt
   ==================================================================================================== *)
Definition failed_res (w : N) : tres := {| r_wanted := w; r_read := 0; r_err := 2; r_buf := zeros w |}.

Lemma filter_filter_le : forall A (up r g : A -> bool) l,
  (forall x, In x l -> r x = true -> g x = true -> up x = true) ->
  (length (filter g (filter r l)) <= length (filter up l))%nat.
Proof.
  induction l as [|x l IH]; intro H; [simpl; lia|].
  assert (IH' := IH (fun y Hy => H y (or_intror Hy))).
  cbn [filter]. destruct (r x) eqn:Er.
  - cbn [filter]. destruct (g x) eqn:Eg.
    + rewrite (H x (or_introl eq_refl) Er Eg). simpl. lia.
    + destruct (up x); simpl; lia.
  - destruct (up x); simpl; lia.
Qed.

Section Dichotomy.
Variables (s : st) (k j : nat) (e : ext) (tr : tract).
Hypothesis W : wf_read s k j e tr.

(* the reconstruction branch with too few good answers is exactly the failed result *)
Lemma read_rs_few_failed : forall blank fail o w,
  down blank fail (nth j (nth k (s_hosts s) []) 0) = true -> o < t_len tr -> 0 < w ->
  let hosts := nth k (s_hosts s) [] in
  let hj := nth j hosts 0 in
  let rlen := if e_len e <=? o then 0 else N.min w (e_len e - o) in
  let req := filter (fun i => negb (Nat.eqb i j) && negb (N.eqb (nth i hosts 0) hj)
                              && negb (memN (nth i hosts 0) blank)) (seq 0 (length hosts)) in
  let good := filter (fun i => negb (memN (nth i hosts 0) fail)
                               && N.eqb (ts_read_count (s_target s) (e_off e + o) rlen) rlen) req in
  (length good < s_n s)%nat ->
  read_rs true s k j e blank fail o w = failed_res w.
Proof.
  intros blank fail o w Hd Ho Hw hosts hj rlen req good Hlt. unfold read_rs. cbv zeta.
  fold hosts. fold hj. fold rlen.
  assert (Hz : true && (rlen =? 0) = false).
  { cbn [andb]. apply N.eqb_neq. unfold rlen. rewrite (wr_len _ _ _ _ _ W).
    destruct (t_len tr <=? o) eqn:E; [apply N.leb_le in E; lia | apply N.leb_gt in E; lia]. }
  rewrite Hz. unfold down in Hd. fold hosts in Hd. fold hj in Hd. rewrite Hd. cbn [negb].
  fold req. destruct (Nat.ltb (length req) (s_n s)) eqn:E1; [reflexivity|].
  fold good. apply Nat.ltb_lt in Hlt. rewrite Hlt. reflexivity.
Qed.

(* one tract: exact, or the failed result *)
Lemma read_rs_dichotomy : forall blank fail o w, 0 < w ->
  read_rs true s k j e blank fail o w = read_repl tr o w \/
  read_rs true s k j e blank fail o w = failed_res w.
Proof.
  intros blank fail o w Hw.
  destruct (down blank fail (nth j (nth k (s_hosts s) []) 0)) eqn:Hd.
  - destruct (N.le_gt_cases (t_len tr) o) as [Ho | Ho].
    + left. apply read_rs_fixed_beyond; assumption.
    + set (hosts := nth k (s_hosts s) []). set (hj := nth j hosts 0).
      set (rlen := if e_len e <=? o then 0 else N.min w (e_len e - o)).
      set (req := filter (fun i => negb (Nat.eqb i j) && negb (N.eqb (nth i hosts 0) hj)
                              && negb (memN (nth i hosts 0) blank)) (seq 0 (length hosts))).
      set (good := filter (fun i => negb (memN (nth i hosts 0) fail)
                               && N.eqb (ts_read_count (s_target s) (e_off e + o) rlen) rlen) req).
      destruct (le_lt_dec (s_n s) (length good)) as [Hge | Hlt].
      * left. apply (read_rs_reconstruct_eq_fixed s k j e tr W blank fail o w Hd Hge Hw Ho).
      * right. apply (read_rs_few_failed blank fail o w Hd Ho Hw Hlt).
  - left. apply (read_rs_direct_eq_fixed s k j e tr W blank fail o w Hd Hw).
Qed.

(* more than m holders of the stripe unavailable, the direct one among them, and something to fetch: failed *)
Lemma read_rs_too_many_down : forall blank fail o w,
  down blank fail (nth j (nth k (s_hosts s) []) 0) = true ->
  (s_m s < down_count s k blank fail)%nat -> o < t_len tr -> 0 < w ->
  read_rs true s k j e blank fail o w = failed_res w.
Proof.
  intros blank fail o w Hd Hc Ho Hw. apply read_rs_few_failed; try assumption. cbv zeta.
  set (hosts := nth k (s_hosts s) []).
  pose proof (wr_hosts _ _ _ _ _ W) as Hhl. fold hosts in Hhl.
  set (up := fun i => negb (down blank fail (nth i hosts 0))).
  match goal with |- (length (filter ?g (filter ?r _)) < _)%nat =>
    assert (Hle : (length (filter g (filter r (seq 0 (length hosts)))) <= length (filter up (seq 0 (length hosts))))%nat)
  end.
  { apply filter_filter_le. intros i _ Hr Hg. unfold up, down.
    apply andb_true_iff in Hr. destruct Hr as [_ Hb]. apply andb_true_iff in Hg. destruct Hg as [Hf _].
    apply negb_true_iff in Hb. apply negb_true_iff in Hf. rewrite Hb, Hf. reflexivity. }
  pose proof (filter_partition_length _ (fun i => down blank fail (nth i hosts 0)) (seq 0 (length hosts))) as F.
  rewrite seq_length in F.
  pose proof (filter_nth_seq (down blank fail) hosts []) as Q. simpl in Q.
  unfold down_count in Hc. fold hosts in Hc. fold up in F. lia.
Qed.

End Dichotomy.

(* ---------- the fold ---------- *)
Definition repl_like (x : tres) : Prop :=
  (r_err x = 0 \/ r_err x = 1) /\ r_read x <= r_wanted x /\ length (r_buf x) = N.to_nat (r_wanted x).

Lemma read_repl_like : forall tr o w, repl_like (read_repl tr o w).
Proof.
  intros tr o w. unfold repl_like, read_repl. cbv zeta. cbn [r_err r_read r_wanted r_buf].
  set (rd := if t_len tr <=? o then 0 else N.min w (t_len tr - o)).
  assert (Hrd : rd <= w) by (unfold rd; destruct (t_len tr <=? o); lia).
  split; [destruct (rd <? w); [right | left]; reflexivity|]. split; [exact Hrd|].
  rewrite app_length, map_length, positions_length. unfold zeros. rewrite repeat_length. lia.
Qed.

(* what the fold has accumulated after a prefix of normal / EOF results that are not the last ones *)
Fixpoint csum (pre : list tres) : N :=
  match pre with [] => 0 | x :: t => (if r_err x =? 0 then r_read x else r_wanted x) + csum t end.

Lemma fold_results_prefix : forall pre rest pad acc,
  rest <> [] -> Forall (fun x => r_err x = 0 \/ r_err x = 1) pre ->
  fold_results (pre ++ rest) pad acc = fold_results rest pad (acc + csum pre).
Proof.
  induction pre as [|x pre IH]; intros rest pad acc Hr Hp; [simpl; rewrite N.add_0_r; reflexivity|].
  inversion Hp as [|? ? Hx Hp']; subst. cbn [app fold_results csum].
  destruct (pre ++ rest) eqn:Ep; [destruct pre; [contradiction | discriminate]|]. rewrite <- Ep.
  destruct Hx as [Hx | Hx]; rewrite Hx; cbn [N.eqb]; rewrite (IH rest pad _ Hr Hp'); f_equal; lia.
Qed.

Lemma fold_results_ge : forall rs pad acc, acc <= fst (fold_results rs pad acc).
Proof.
  induction rs as [|x rs IH]; intros pad acc; [simpl; lia|].
  cbn [fold_results]. destruct (r_err x) as [|p]; [|destruct p].
  - destruct rs; [simpl; lia|]. specialize (IH pad (acc + r_read x)). lia.
  - simpl. lia.
  - simpl. lia.
  - destruct rs; [destruct pad; simpl; lia|]. specialize (IH pad (acc + r_wanted x)). lia.
Qed.

Lemma csum_le_len : forall pre, Forall repl_like pre -> (N.to_nat (csum pre) <= length (flat_map r_buf pre))%nat.
Proof.
  induction pre as [|x pre IH]; intro H; [simpl; lia|].
  inversion H as [|? ? [_ [Hr Hl]] Hp]; subst. cbn [csum flat_map]. rewrite app_length, Hl.
  specialize (IH Hp). destruct (r_err x =? 0); lia.
Qed.

(* two result lists that agree entry by entry except that entries of the first may be the failed result *)
Lemma results_split : forall (Rs Ps : list tres),
  Forall2 (fun r p => r = p \/ r = failed_res (r_wanted p)) Rs Ps ->
  Rs = Ps \/ exists pre p post post', Rs = pre ++ failed_res (r_wanted p) :: post /\ Ps = pre ++ p :: post'.
Proof.
  induction 1 as [|r p Rs Ps Hrp HF IH]; [left; reflexivity|].
  destruct Hrp as [-> | ->].
  - destruct IH as [-> | [pre [q [post [post' [-> ->]]]]]]; [left; reflexivity|].
    right. exists (p :: pre), q, post, post'. split; reflexivity.
  - right. exists [], p, Rs, Ps. split; reflexivity.
Qed.

Lemma firstn_app_le : forall A (a b : list A) k, (k <= length a)%nat -> firstn k (a ++ b) = firstn k a.
Proof.
  intros A a b k H. rewrite firstn_app. replace (k - length a)%nat with 0%nat by lia.
  cbn [firstn]. apply app_nil_r.
Qed.

Lemma firstn_firstn_le : forall A (l : list A) a b, (a <= b)%nat -> firstn a (firstn b l) = firstn a l.
Proof. intros. rewrite firstn_firstn. f_equal. lia. Qed.

(* the core: outcome of the two folds when the first differing entry is a failed result *)
Lemma fold_fail_closed_core : forall pre p post post' pad,
  Forall repl_like pre ->
  let Rs := pre ++ failed_res (r_wanted p) :: post in
  let Ps := pre ++ p :: post' in
  let R := fold_results Rs pad 0 in
  let P := fold_results Ps pad 0 in
  snd R = 2 /\ fst R = csum pre /\ fst R <= fst P /\
  firstn (N.to_nat (fst R)) (flat_map r_buf Rs) = firstn (N.to_nat (fst R)) (firstn (N.to_nat (fst P)) (flat_map r_buf Ps)).
Proof.
  intros pre p post post' pad Hpre Rs Ps R P.
  assert (Hpre' : Forall (fun x => r_err x = 0 \/ r_err x = 1) pre).
  { eapply Forall_impl; [|exact Hpre]. intros x [H _]. exact H. }
  assert (HR : R = (csum pre, 2)).
  { unfold R, Rs. rewrite fold_results_prefix by (try discriminate; assumption). reflexivity. }
  assert (HP : csum pre <= fst P).
  { unfold P, Ps. rewrite fold_results_prefix by (try discriminate; assumption).
    pose proof (fold_results_ge (p :: post') pad (0 + csum pre)). lia. }
  rewrite HR. cbn [fst snd]. repeat split; try assumption.
  pose proof (csum_le_len pre Hpre) as Hlen.
  unfold Rs, Ps. rewrite !flat_map_app.
  rewrite firstn_firstn_le by lia. rewrite !firstn_app_le by exact Hlen. reflexivity.
Qed.

(* ---------- the shape of read_at: the consulted (tract, in-tract offset, length) ranges and the fold ---------- *)
Definition consulted (blob : list nat) (off len : N) : list (nat * (N * N)) :=
  if len =? 0 then [] else
  let start := off / TL in
  let endt := (off + len + TL - 1) / TL in
  let nt := N.of_nat (length blob) in
  if nt <=? start then [] else
  let last := N.min (endt + 1) nt in
  let got := last - start in
  let pad_all := got =? endt + 1 - start in
  let cnt := if pad_all then got - 1 else got in
  let ts := firstn (N.to_nat cnt) (skipn (N.to_nat start) blob) in
  combine ts (ranges (length ts) off len 0).

Definition pad_all_of (blob : list nat) (off len : N) : bool :=
  let start := off / TL in
  let endt := (off + len + TL - 1) / TL in
  (N.min (endt + 1) (N.of_nat (length blob)) - start) =? endt + 1 - start.

Definition results_of (s : st) (rs : bool) (blank fail : list N) (blob : list nat) (off len : N) : list tres :=
  map (fun p => read_tract true s rs blank fail (fst p) (fst (snd p)) (snd (snd p))) (consulted blob off len).

Lemma read_at_shape : forall s rs blank fail blob off len,
  (len =? 0) = false -> (N.of_nat (length blob) <=? off / TL) = false ->
  read_at true s rs blank fail blob off len =
  (fst (fold_results (results_of s rs blank fail blob off len) (pad_all_of blob off len) 0),
   snd (fold_results (results_of s rs blank fail blob off len) (pad_all_of blob off len) 0),
   firstn (N.to_nat (fst (fold_results (results_of s rs blank fail blob off len) (pad_all_of blob off len) 0)))
          (flat_map r_buf (results_of s rs blank fail blob off len))).
Proof.
  intros s rs blank fail blob off len E1 E2. unfold read_at. rewrite E1. cbv zeta. rewrite E2.
  unfold results_of, consulted, pad_all_of. rewrite E1. cbv zeta. rewrite E2.
  destruct (fold_results _ _ 0) as [rd err]. reflexivity.
Qed.

Lemma consulted_ok : forall blob off len, len <> 0 ->
  Forall (fun p => In (fst p) blob /\ 0 < snd (snd p)) (consulted blob off len).
Proof.
  intros blob off len El. unfold consulted.
  destruct (len =? 0); [constructor|]. cbv zeta.
  destruct (N.of_nat (length blob) <=? off / TL); [constructor|].
  set (start := off / TL). set (endt := (off + len + TL - 1) / TL).
  set (nt := N.of_nat (length blob)).
  set (last := N.min (endt + 1) nt). set (got := last - start).
  set (pad_all := got =? endt + 1 - start).
  set (cnt := if pad_all then got - 1 else got).
  set (ts := firstn (N.to_nat cnt) (skipn (N.to_nat start) blob)).
  set (rgs := ranges (length ts) off len 0).
  assert (Hpos : Forall (fun p => 0 < snd p) rgs).
  { unfold rgs. apply ranges_pos; [lia|].
    rewrite N.add_0_r. fold start. fold endt.
    assert (Hlen : (length ts <= N.to_nat cnt)%nat) by (unfold ts; rewrite firstn_length; lia).
    assert (Hcnt : cnt <= endt - start).
    { unfold cnt, pad_all. destruct (got =? endt + 1 - start) eqn:Eg.
      - apply N.eqb_eq in Eg. lia.
      - apply N.eqb_neq in Eg. unfold got, last in *. lia. }
    lia. }
  apply Forall_forall. intros [t [o w]] Hin. cbn [fst snd]. split.
  - apply in_combine_l in Hin. unfold ts in Hin. apply firstn_in in Hin.
    rewrite <- (firstn_skipn (N.to_nat start) blob). apply in_or_app. right. exact Hin.
  - apply in_combine_r in Hin. rewrite Forall_forall in Hpos. apply (Hpos (o, w) Hin).
Qed.

(* entry by entry: the RS-side result is the replicated one or the failed one *)
Lemma results_related : forall s blob off len blank fail,
  blob_ok s blob -> len <> 0 ->
  Forall2 (fun r p => r = p \/ r = failed_res (r_wanted p))
          (results_of s true blank fail blob off len) (results_of s false [] [] blob off len) /\
  Forall repl_like (results_of s false [] [] blob off len).
Proof.
  intros s blob off len blank fail Hok El. unfold results_of.
  pose proof (consulted_ok blob off len El) as C.
  induction (consulted blob off len) as [|[t [o w]] l IH]; [split; constructor|].
  inversion C as [|? ? [Ht Hw] C']; subst. cbn [fst snd] in *. destruct (IH C') as [F2 FR].
  cbn [map fst snd]. split.
  - constructor; [|exact F2]. unfold read_tract. specialize (Hok t Ht).
    destruct (find_in_stripes t (s_stripes s) 0) as [[[k j] e]|]; [|left; reflexivity].
    destruct (read_rs_dichotomy s k j e _ Hok blank fail o w Hw) as [-> | ->]; [left; reflexivity|].
    right. reflexivity.
  - constructor; [|exact FR]. unfold read_tract. apply read_repl_like.
Qed.

Lemma Forall_app_l : forall A (P : A -> Prop) a b, Forall P (a ++ b) -> Forall P a.
Proof. intros A P a b H. apply Forall_app in H. destruct H. assumption. Qed.

(* THE DICHOTOMY: exact, or the error class with a prefix of the replicated blob's bytes *)
Theorem read_at_exact_or_fail_closed_lemma : forall s blob off len blank fail,
  blob_ok s blob ->
  let R := read_at true s true blank fail blob off len in
  let P := read_at true s false [] [] blob off len in
  R = P \/
  (snd (fst R) = 2 /\ fst (fst R) <= fst (fst P) /\ snd R = firstn (N.to_nat (fst (fst R))) (snd P)).
Proof.
  intros s blob off len blank fail Hok R P.
  destruct (len =? 0) eqn:E1; [left; unfold R, P, read_at; rewrite E1; reflexivity|].
  destruct (N.of_nat (length blob) <=? off / TL) eqn:E2;
    [left; unfold R, P, read_at; rewrite E1; cbv zeta; rewrite E2; reflexivity|].
  assert (El : len <> 0) by (apply N.eqb_neq; exact E1).
  destruct (results_related s blob off len blank fail Hok El) as [F2 FR].
  unfold R, P. rewrite !read_at_shape by assumption.
  set (Rs := results_of s true blank fail blob off len) in *.
  set (Ps := results_of s false [] [] blob off len) in *.
  destruct (results_split Rs Ps F2) as [Heq | [pre [p [post [post' [HR HP]]]]]].
  - left. rewrite Heq. reflexivity.
  - right. rewrite HR, HP. rewrite HP in FR. apply Forall_app_l in FR.
    destruct (fold_fail_closed_core pre p post post' (pad_all_of blob off len) FR) as [A [B [C D]]].
    cbn [fst snd]. repeat split; assumption.
Qed.

(* bytes requested from the first i consulted tracts *)
Definition req_before (blob : list nat) (off len : N) (i : nat) : N :=
  fold_right (fun p a => snd (snd p) + a) 0 (firstn i (consulted blob off len)).

Lemma csum_le_wanted : forall pre, Forall repl_like pre -> csum pre <= sum_wanted pre.
Proof.
  induction pre as [|x pre IH]; intro H; [simpl; lia|].
  inversion H as [|? ? [_ [Hr _]] Hp]; subst. cbn [csum sum_wanted]. specialize (IH Hp).
  destruct (r_err x =? 0); lia.
Qed.

Lemma sum_wanted_firstn_mono : forall l a b, (a <= b)%nat -> sum_wanted (firstn a l) <= sum_wanted (firstn b l).
Proof.
  induction l as [|x l IH]; intros a b H; [destruct a; destruct b; simpl; lia|].
  destruct a as [|a]; [simpl; lia|]. destruct b as [|b]; [lia|].
  cbn [firstn sum_wanted]. specialize (IH a b ltac:(lia)). lia.
Qed.

Lemma sum_wanted_results : forall s blob off len i,
  sum_wanted (firstn i (results_of s false [] [] blob off len)) = req_before blob off len i.
Proof.
  intros s blob off len i. unfold results_of, req_before. rewrite firstn_map.
  induction (firstn i (consulted blob off len)) as [|[t [o w]] l IH]; [reflexivity|].
  cbn [map sum_wanted fold_right fst snd]. rewrite IH. reflexivity.
Qed.

(* FAIL CLOSED at blob level: some consulted tract needs bytes from a stripe with more than m unavailable holders,
   its direct piece among them *)
Theorem read_at_fail_closed_blob_lemma : forall s blob off len blank fail i t o w k j e,
  blob_ok s blob ->
  nth_error (consulted blob off len) i = Some (t, (o, w)) ->
  find_in_stripes t (s_stripes s) O = Some (k, j, e) ->
  down blank fail (nth j (nth k (s_hosts s) []) 0) = true ->
  (s_m s < down_count s k blank fail)%nat ->
  o < t_len (nth t (s_tracts s) dummy_tract) ->
  let R := read_at true s true blank fail blob off len in
  let P := read_at true s false [] [] blob off len in
  snd (fst R) = 2 /\ fst (fst R) <= req_before blob off len i /\
  fst (fst R) <= fst (fst P) /\ snd R = firstn (N.to_nat (fst (fst R))) (snd P).
Proof.
  intros s blob off len blank fail i t o w k j e Hok Hnth Hf Hd Hc Ho R P.
  destruct (len =? 0) eqn:E1; [unfold consulted in Hnth; rewrite E1 in Hnth; destruct i; discriminate|].
  destruct (N.of_nat (length blob) <=? off / TL) eqn:E2;
    [unfold consulted in Hnth; rewrite E1 in Hnth; cbv zeta in Hnth; rewrite E2 in Hnth; destruct i; discriminate|].
  assert (El : len <> 0) by (apply N.eqb_neq; exact E1).
  destruct (results_related s blob off len blank fail Hok El) as [F2 FR].
  pose proof (consulted_ok blob off len El) as Cok.
  assert (Hin : In (t, (o, w)) (consulted blob off len)) by (eapply nth_error_In; exact Hnth).
  rewrite Forall_forall in Cok. destruct (Cok _ Hin) as [Ht Hw]. cbn [fst snd] in Ht, Hw.
  (* entry i of the RS-side results is the failed result, entry i of the replicated side is not *)
  set (Rs := results_of s true blank fail blob off len) in *.
  set (Ps := results_of s false [] [] blob off len) in *.
  assert (HRi : nth_error Rs i = Some (failed_res w)).
  { unfold Rs, results_of. rewrite nth_error_map, Hnth. cbn [option_map fst snd]. f_equal.
    unfold read_tract. rewrite Hf. specialize (Hok t Ht). rewrite Hf in Hok.
    apply (read_rs_too_many_down s k j e _ Hok blank fail o w Hd Hc Ho Hw). }
  unfold R, P. rewrite !read_at_shape by assumption. fold Rs. fold Ps.
  destruct (results_split Rs Ps F2) as [Heq | [pre [p [post [post' [HR HP]]]]]].
  - exfalso. rewrite Heq in HRi. apply nth_error_In in HRi. rewrite Forall_forall in FR.
    destruct (FR _ HRi) as [[H | H] _]; discriminate.
  - assert (Hpre : Forall repl_like pre) by (rewrite HP in FR; apply Forall_app_l in FR; exact FR).
    (* the split point is not after i *)
    assert (Hli : (length pre <= i)%nat).
    { destruct (le_lt_dec (length pre) i) as [H | H]; [exact H|]. exfalso.
      rewrite HR in HRi. rewrite nth_error_app1 in HRi by exact H. apply nth_error_In in HRi.
      rewrite Forall_forall in Hpre. destruct (Hpre _ HRi) as [[X | X] _]; discriminate. }
    pose proof (csum_le_wanted pre Hpre) as L1.
    assert (Epre : pre = firstn (length pre) Ps).
    { rewrite HP. rewrite firstn_app, Nat.sub_diag, firstn_all. cbn [firstn]. symmetry. apply app_nil_r. }
    pose proof (sum_wanted_firstn_mono Ps (length pre) i Hli) as L2. rewrite <- Epre in L2.
    unfold Ps in L2 at 1. rewrite sum_wanted_results in L2.
    destruct (fold_fail_closed_core pre p post post' (pad_all_of blob off len) Hpre) as [A [B [C D]]].
    cbv zeta in A, B, C, D. rewrite HR, HP.
    cbn [fst snd]. repeat split; try assumption.
    rewrite B. lia.
Qed.

(* ---------- blob_ok discharged over built states ---------- *)
Lemma built_blob_ok : forall s blob,
  built s ->
  (forall k, (k < length (s_stripes s))%nat -> length (nth k (s_hosts s) []) = (s_n s + s_m s)%nat) ->
  blob_ok s blob.
Proof.
  intros s blob B Hk t _. destruct (find_in_stripes t (s_stripes s) 0) as [[[k j] e]|] eqn:Ef; [|exact I].
  destruct (find_in_stripes_spec _ _ _ _ _ _ Ef) as [k' [Ek [Hlt _]]]. simpl in Ek. subst k'.
  apply built_wf_read; [exact B | exact Ef | apply Hk; exact Hlt].
Qed.

Theorem read_at_exact_or_fail_closed_built_lemma : forall s blob off len blank fail,
  built s ->
  (forall k, (k < length (s_stripes s))%nat -> length (nth k (s_hosts s) []) = (s_n s + s_m s)%nat) ->
  let R := read_at true s true blank fail blob off len in
  let P := read_at true s false [] [] blob off len in
  R = P \/
  (snd (fst R) = 2 /\ fst (fst R) <= fst (fst P) /\ snd R = firstn (N.to_nat (fst (fst R))) (snd P)).
Proof.
  intros s blob off len blank fail B Hk.
  apply read_at_exact_or_fail_closed_lemma. apply built_blob_ok; assumption.
Qed.

Theorem read_at_fail_closed_blob_built_lemma : forall s blob off len blank fail i t o w k j e,
  built s ->
  (forall k, (k < length (s_stripes s))%nat -> length (nth k (s_hosts s) []) = (s_n s + s_m s)%nat) ->
  nth_error (consulted blob off len) i = Some (t, (o, w)) ->
  find_in_stripes t (s_stripes s) O = Some (k, j, e) ->
  down blank fail (nth j (nth k (s_hosts s) []) 0) = true ->
  (s_m s < down_count s k blank fail)%nat ->
  o < t_len (nth t (s_tracts s) dummy_tract) ->
  let R := read_at true s true blank fail blob off len in
  let P := read_at true s false [] [] blob off len in
  snd (fst R) = 2 /\ fst (fst R) <= req_before blob off len i /\
  fst (fst R) <= fst (fst P) /\ snd R = firstn (N.to_nat (fst (fst R))) (snd P).
Proof.
  intros s blob off len blank fail i t o w k j e B Hk.
  apply read_at_fail_closed_blob_lemma. apply built_blob_ok; assumption.
Qed.
