(* C13/ProofsIndexMap.v — reconstruction on a tractserver:
   the (srcs, dests, indexMap) that curator/reconstruct.go builds makes store.go's rsEncodeOne (reconstructAndVerify
   + the write loop) produce exactly original piece i for the destination chosen for i, for every bad piece i, and
   nothing for the padded destinations; the committed host list changes exactly at the bad positions. *)
From Coq Require Import NArith ZArith List Bool Arith Lia ZifyN ZifyNat ZifyBool.
From BLB Require Import Lib.GF256 Lib.GF256Laws Lib.RS Lib.RSLinAlg Lib.RSMds Lib.RSProofs Gen.Consts
     C13.Model C13.ProofsPack C13.ProofsRead C13.ProofsRecon.
Import ListNotations.
Open Scope nat_scope.

Lemma combine_app : forall A B (a1 a2 : list A) (b1 b2 : list B),
  length a1 = length b1 -> combine (a1 ++ a2) (b1 ++ b2) = combine a1 b1 ++ combine a2 b2.
Proof.
  induction a1 as [|x a1 IH]; intros a2 b1 b2 H; destruct b1 as [|y b1]; simpl in *; try discriminate; [reflexivity|].
  f_equal. apply IH. lia.
Qed.

Lemma combine_repeat : forall A B (a : A) (b : B) k, combine (repeat a k) (repeat b k) = repeat (a, b) k.
Proof. induction k; simpl; [reflexivity|]. f_equal. assumption. Qed.

Lemma map_repeat : forall A B (f : A -> B) a k, map f (repeat a k) = repeat (f a) k.
Proof. induction k; simpl; [reflexivity|]. f_equal. assumption. Qed.

Section IndexMap.
Variables n m : nat.
Hypothesis Hc : In (n, m) rs_classes.
Let M := class_matrix n m.

Lemma encode_split : forall d, length d = n -> encode_shards n m d = d ++ skipn n (encode_shards n m d).
Proof.
  intros d Hl. unfold encode_shards at 1. f_equal. unfold encode_shards.
  rewrite skipn_app, Hl, Nat.sub_diag. rewrite skipn_all2 by lia. reflexivity.
Qed.

Lemma verify_encoded : forall len d, wf_data n len d ->
  rs_verify n (n + m) M (encode_shards n m d) = inr true.
Proof.
  intros len d Hwf. pose proof Hwf as [Hl [Hp Hw]]. unfold rs_verify.
  rewrite (encode_length n m Hc d Hl), Nat.eqb_refl. cbn [negb].
  assert (Hcs : check_shards (encode_shards n m d) false = None).
  { unfold check_shards.
    assert (Hss : shard_size (encode_shards n m d) = len).
    { apply shard_size_uniform.
      - intros x Hx. apply (In_nth _ _ []) in Hx. destruct Hx as [i [Hi <-]].
        rewrite (encode_length n m Hc d Hl) in Hi. right. apply (encode_nth_len n m Hc len d i Hwf Hi).
      - pose proof (n_pos n m Hc) as Hn. exists (nth 0 (encode_shards n m d) []). split.
        + apply nth_In. rewrite (encode_length n m Hc d Hl). lia.
        + pose proof (encode_nth_len n m Hc len d 0 Hwf ltac:(lia)) as L.
          destruct (nth 0 (encode_shards n m d) []); simpl in *; [lia | discriminate]. }
    rewrite Hss. destruct (Nat.eqb len 0) eqn:E0; [apply Nat.eqb_eq in E0; lia|].
    assert (Hall : forallb (fun x => Nat.eqb (length x) len || (is_missing x && false)) (encode_shards n m d) = true).
    { apply forallb_forall. intros x Hx. apply (In_nth _ _ []) in Hx. destruct Hx as [i [Hi <-]].
      rewrite (encode_length n m Hc d Hl) in Hi.
      rewrite (encode_nth_len n m Hc len d i Hwf Hi), Nat.eqb_refl. reflexivity. }
    rewrite Hall. reflexivity. }
  rewrite Hcs. f_equal.
  unfold encode_shards. rewrite firstn_app, Hl, Nat.sub_diag, firstn_all2 by lia. cbn [firstn]. rewrite app_nil_r.
  rewrite skipn_app, Hl, Nat.sub_diag, skipn_all2 by lia. cbn [skipn app].
  apply mat_eqb_refl.
Qed.

(* handing the library only the pieces in [used] (n distinct positions) = erasing all the others *)
Lemma keep_only_used : forall (E : list (list N)) used (X : nat -> list N),
  length E = n + m -> NoDup used -> length used = n ->
  (forall i, In i used -> i < n + m /\ X i = nth i E []) ->
  let S' := filter (fun i => negb (memn i used)) (seq 0 (n + m)) in
  map (fun i => if memn i used then X i else []) (seq 0 (n + m)) = erase S' E /\ erased_count n m S' <= m.
Proof.
  intros E used X HEl Hnd Hul Hu S'.
  assert (HS : forall i, i < n + m -> memS S' i = negb (memn i used)).
  { intros i Hi. destruct (memn i used) eqn:Em; cbn [negb].
    - destruct (memS S' i) eqn:Es; [|reflexivity]. apply memS_In in Es. unfold S' in Es.
      apply filter_In in Es. destruct Es as [_ Es]. rewrite Em in Es. discriminate.
    - apply memS_In. unfold S'. apply filter_In. split; [apply in_seq; lia | rewrite Em; reflexivity]. }
  split.
  - apply (nth_ext _ _ [] []).
    + rewrite map_length, seq_length, erase_length. lia.
    + intros i Hi. rewrite map_length, seq_length in Hi.
      rewrite (nth_indep _ [] ((fun i => if memn i used then X i else []) 0))
        by (rewrite map_length, seq_length; exact Hi).
      rewrite (map_nth (fun i => if memn i used then X i else [])).
      rewrite seq_nth by exact Hi. cbn [Nat.add].
      rewrite erase_nth by (rewrite HEl; exact Hi).
      rewrite (HS i Hi). destruct (memn i used) eqn:Em; cbn [negb]; [|reflexivity].
      apply memn_In in Em. apply (Hu i Em).
  - unfold erased_count.
    pose proof (filter_partition_length _ (memS S') (seq 0 (n + m))) as F. rewrite seq_length in F.
    assert (Hincl : incl used (filter (fun x => negb (memS S' x)) (seq 0 (n + m)))).
    { intros i Hi. destruct (Hu i Hi) as [Hlt _]. apply filter_In. split; [apply in_seq; lia|].
      rewrite (HS i Hlt). apply memn_In in Hi. rewrite Hi. reflexivity. }
    pose proof (NoDup_incl_length Hnd Hincl) as Hl. lia.
Qed.

Theorem indexmap_correct_lemma : forall len d hosts bad newids pieces,
  wf_data n len d -> length hosts = n + m ->
  let E := encode_shards n m d in
  let dst := filter (fun i => memN (nth i hosts 0%N) bad) (seq 0 (n + m)) in
  let ok := filter (fun i => negb (memN (nth i hosts 0%N) bad)) (seq 0 (n + m)) in
  dst <> [] -> length dst <= m -> length newids = length dst -> Forall (fun id => id <> 0%N) newids ->
  (forall i, In i (firstn n ok) -> nth i pieces [] = nth i E []) ->
  exists p, reconstruct_plan n m hosts bad newids = Some p /\
            p_src p = firstn n ok /\
            p_map p = map Z.of_nat (firstn n ok) ++ map Z.of_nat dst ++ repeat (-1)%Z (m - length dst) /\
            p_dests p = newids ++ repeat 0%N (m - length dst) /\
            rs_encode_one n m M pieces (p_map p) (map (fun id => negb (N.eqb id 0)) (p_dests p))
            = Some (map (fun i => Some (nth i E [])) dst ++ repeat None (m - length dst)).
Proof.
  intros len d hosts bad newids pieces Hwf Hhl E dst ok Hne Hdm Hnl Hnz Hpieces.
  pose proof Hwf as [Hdl [Hlen Hwr]].
  assert (Hpart : length dst + length ok = n + m).
  { pose proof (filter_partition_length _ (fun i => memN (nth i hosts 0%N) bad) (seq 0 (n + m))) as F.
    rewrite seq_length in F. exact F. }
  assert (Hokn : n <= length ok) by lia.
  unfold reconstruct_plan. rewrite Hhl. fold dst. fold ok.
  destruct (Nat.ltb (length ok) n) eqn:E1; [apply Nat.ltb_lt in E1; lia|].
  destruct dst as [|d0 dst'] eqn:Edst; [contradiction|]. rewrite <- Edst in *.
  assert (E2 : Nat.eqb (length newids) (length dst) = true) by (apply Nat.eqb_eq; exact Hnl).
  rewrite E2. cbn [negb].
  eexists. split; [reflexivity|]. cbn [p_src p_map p_dests].
  split; [reflexivity|]. split; [rewrite app_assoc; reflexivity|]. split; [reflexivity|].
  (* rsEncodeOne *)
  set (src := firstn n ok).
  assert (Hsl : length src = n) by (unfold src; rewrite firstn_length; lia).
  set (pad := m - length dst).
  unfold rs_encode_one.
  assert (Himl : length (map Z.of_nat src ++ map Z.of_nat dst ++ repeat (-1)%Z pad) = n + m).
  { rewrite !app_length, !map_length, repeat_length. unfold pad. lia. }
  rewrite Himl, Nat.eqb_refl. cbn [negb].
  assert (Hfirst : firstn n (map Z.of_nat src ++ map Z.of_nat dst ++ repeat (-1)%Z pad) = map Z.of_nat src).
  { rewrite firstn_app, map_length, Hsl, Nat.sub_diag. cbn [firstn]. rewrite app_nil_r.
    apply firstn_all2. rewrite map_length. lia. }
  rewrite Hfirst, map_map.
  assert (Hid : map (fun x => Z.to_nat (Z.of_nat x)) src = src).
  { rewrite <- (map_id src) at 2. apply map_ext. intro. apply Nat2Z.id. }
  rewrite Hid.
  assert (Hsrc_nd : NoDup src) by (unfold src; apply NoDup_firstn; unfold ok; apply NoDup_filter, seq_NoDup).
  assert (Hsrc_lt : forall i, In i src -> i < n + m /\ nth i pieces [] = nth i E []).
  { intros i Hi. split; [|apply Hpieces; exact Hi].
    unfold src in Hi. apply firstn_in in Hi. unfold ok in Hi. apply filter_In in Hi.
    destruct Hi as [Hi _]. apply in_seq in Hi. lia. }
  destruct (keep_only_used E src (fun i => nth i pieces []) (encode_length n m Hc d Hdl) Hsrc_nd Hsl Hsrc_lt)
    as [Hdata Hcount].
  rewrite Hdata.
  unfold reconstruct_and_verify, rs_reconstruct.
  unfold E, M. rewrite (rs_reconstruct_gen_exact n m Hc len d _ false Hwf Hcount).
  rewrite <- (encode_split d Hdl). fold M. rewrite (verify_encoded len d Hwf).
  f_equal.
  (* the write loop *)
  assert (Hskip : skipn n (map Z.of_nat src ++ map Z.of_nat dst ++ repeat (-1)%Z pad)
                  = map Z.of_nat dst ++ repeat (-1)%Z pad).
  { rewrite skipn_app, map_length, Hsl, Nat.sub_diag. cbn [skipn].
    rewrite skipn_all2 by (rewrite map_length; lia). reflexivity. }
  rewrite Hskip. rewrite map_app, map_repeat. cbn [N.eqb negb].
  rewrite combine_app by (rewrite !map_length; lia).
  rewrite combine_repeat, map_app, map_repeat. cbn [fst snd Z.leb Z.compare andb]. fold pad.
  f_equal.
  clear - Hnl Hnz. revert newids Hnl Hnz.
  induction dst as [|i dst IH]; intros [|id newids] Hnl Hnz; simpl in *; try discriminate; [reflexivity|].
  inversion Hnz; subst.
  assert (Ez : (id =? 0)%N = false) by (apply N.eqb_neq; assumption).
  rewrite Ez. cbn [negb].
  assert (Ep : (0 <=? Z.of_nat i)%Z = true) by (apply Z.leb_le; lia).
  rewrite Ep. cbn [andb]. rewrite Nat2Z.id. f_equal. apply IH; [lia | assumption].
Qed.

End IndexMap.

(* ---------- the committed host list ---------- *)
Lemma set_nth_length : forall A k (v : A) l, length (set_nth k v l) = length l.
Proof. induction k; destruct l; simpl; auto. Qed.

Lemma nth_set_nth_same : forall A k (v d : A) l, k < length l -> nth k (set_nth k v l) d = v.
Proof. induction k; destruct l; simpl; intros; try lia; [reflexivity | apply IHk; lia]. Qed.

Lemma nth_set_nth_other : forall A k i (v d : A) l, i <> k -> nth i (set_nth k v l) d = nth i l d.
Proof.
  induction k; destruct l; destruct i; simpl; intros; try reflexivity; try lia.
  apply IHk. lia.
Qed.

(* replacing the hosts at distinct positions [dst] by [ids]: position dst[q] gets ids[q], all others are unchanged *)
Lemma plan_hosts : forall (dst : list nat) (ids hosts : list N),
  NoDup dst -> length ids = length dst -> (forall i, In i dst -> i < length hosts) ->
  let h' := fold_left (fun h p => set_nth (fst p) (snd p) h) (combine dst ids) hosts in
  length h' = length hosts /\
  (forall q, q < length dst -> nth (nth q dst 0) h' 0%N = nth q ids 0%N) /\
  (forall i, ~ In i dst -> nth i h' 0%N = nth i hosts 0%N).
Proof.
  induction dst as [|x dst IH]; intros ids hosts Hnd Hl Hlt; cbv zeta.
  - simpl. split; [reflexivity|]. split; [intros; lia | reflexivity].
  - destruct ids as [|id ids]; [discriminate|]. simpl in Hl. inversion Hnd; subst.
    cbn [combine fold_left fst snd].
    destruct (IH ids (set_nth x id hosts) H2 ltac:(lia)) as [A [B C]].
    { intros i Hi. rewrite set_nth_length. apply Hlt. right. exact Hi. }
    cbv zeta in A, B, C. rewrite set_nth_length in A.
    split; [exact A|]. split.
    + intros [|q] Hq.
      * cbn [nth]. rewrite (C x H1). apply nth_set_nth_same. apply Hlt. left. reflexivity.
      * cbn [nth]. apply B. simpl in Hq. lia.
    + intros i Hi. rewrite C by (intro; apply Hi; right; assumption).
      apply nth_set_nth_other. intro; apply Hi; left; congruence.
Qed.
