(* C13/ProofsBlob.v — the property at the level of Blob.ReadAt, on the tree on the current code (fx = true, fix e1cfae8):
   for every blob, offset and length, reading through the erasure-coded locations returns exactly what reading the
   replicated tracts returns (count, error class, bytes), provided every packed tract of the blob is well placed
   and its direct piece is available.  Uses: every range readAt hands to a tract is non-empty. *)
From Coq Require Import NArith List Bool Arith Lia ZifyN ZifyNat ZifyBool.
From BLB Require Import Lib.GF256 Lib.RS Lib.RSProofs Gen.Consts C13.Model C13.ProofsPack C13.ProofsRead.
Import ListNotations.
Open Scope N_scope.

Lemma TL_val : TL = 8388608.
Proof. reflexivity. Qed.

(* every range produced for the first (endt - (off+pos)/TL) tracts is non-empty *)
(* the arithmetic of one step, with the tract length as a plain number *)
Lemma range_step : forall T off len pos q o E r f,
  T = 8388608 -> pos < len ->
  off + pos = T * q + o -> o < T -> off + len + T - 1 = T * E + r -> r < T ->
  N.of_nat (S f) <= E - q ->
  0 < N.min (T - o) (len - pos) /\
  (f <> O -> N.min (T - o) (len - pos) = T - o /\ off + (pos + (T - o)) = (q + 1) * T /\
             pos + (T - o) < len /\ N.of_nat f <= E - (q + 1)).
Proof. intros. subst T. split; [lia|]. intro. repeat split; lia. Qed.

(* every range produced for the first (endt - (off+pos)/TL) tracts is non-empty *)
Lemma ranges_pos : forall fuel off len pos,
  pos < len ->
  N.of_nat fuel <= (off + len + TL - 1) / TL - (off + pos) / TL ->
  Forall (fun p => 0 < snd p) (ranges fuel off len pos).
Proof.
  induction fuel as [|f IH]; intros off len pos Hpos Hfuel; [constructor|].
  assert (HT : TL <> 0) by (rewrite TL_val; discriminate).
  pose proof (N.div_mod (off + pos) TL HT) as D1.
  pose proof (N.mod_lt (off + pos) TL HT) as M1.
  pose proof (N.div_mod (off + len + TL - 1) TL HT) as D2.
  pose proof (N.mod_lt (off + len + TL - 1) TL HT) as M2.
  destruct (range_step TL off len pos _ _ _ _ f TL_val Hpos D1 M1 D2 M2 Hfuel) as [S1 S2].
  cbn [ranges]. cbv zeta. constructor; [exact S1|].
  destruct f as [|f']; [constructor|].
  destruct (S2 ltac:(discriminate)) as [Hl [Hmul [Hlt Hf]]].
  rewrite Hl. apply IH; [exact Hlt|].
  rewrite Hmul, N.div_mul by exact HT. exact Hf.
Qed.

(* a blob all of whose packed tracts are well placed with their direct piece reachable *)
Definition blob_ok (s : st) (blob : list nat) : Prop :=
  forall t, In t blob ->
    match find_in_stripes t (s_stripes s) O with
    | None => True
    | Some (k, j, e) => wf_read s k j e (nth t (s_tracts s) dummy_tract)
    end.

Theorem read_at_fixed_eq_lemma : forall s blob off len,
  blob_ok s blob ->
  read_at true s true [] [] blob off len = read_at true s false [] [] blob off len.
Proof.
  intros s blob off len Hok. unfold read_at.
  destruct (len =? 0) eqn:El; [reflexivity|]. apply N.eqb_neq in El.
  cbv zeta.
  destruct (N.of_nat (length blob) <=? off / TL) eqn:Est; [reflexivity|].
  set (start := off / TL). set (endt := (off + len + TL - 1) / TL).
  set (nt := N.of_nat (length blob)).
  set (last := N.min (endt + 1) nt). set (got := last - start).
  set (pad_all := got =? endt + 1 - start).
  set (cnt := if pad_all then got - 1 else got).
  set (ts := firstn (N.to_nat cnt) (skipn (N.to_nat start) blob)).
  set (rgs := ranges (length ts) off len 0).
  assert (Hres : map (fun p => read_tract true s true [] [] (fst p) (fst (snd p)) (snd (snd p))) (combine ts rgs)
               = map (fun p => read_tract true s false [] [] (fst p) (fst (snd p)) (snd (snd p))) (combine ts rgs)).
  { assert (Hpos : Forall (fun p => 0 < snd p) rgs).
    { unfold rgs. apply ranges_pos; [lia|].
      rewrite N.add_0_r. fold start. fold endt.
      assert (Hlen : (length ts <= N.to_nat cnt)%nat) by (unfold ts; rewrite firstn_length; lia).
      assert (Hcnt : cnt <= endt - start).
      { unfold cnt, pad_all. destruct (got =? endt + 1 - start) eqn:Eg.
        - apply N.eqb_eq in Eg. lia.
        - apply N.eqb_neq in Eg. unfold got, last in *. lia. }
      lia. }
    apply map_ext_in. intros [t [o w]] Hin. cbn [fst snd].
    assert (Hw : 0 < w).
    { apply in_combine_r in Hin. rewrite Forall_forall in Hpos. apply (Hpos (o, w) Hin). }
    assert (Ht : In t blob).
    { apply in_combine_l in Hin. unfold ts in Hin. apply firstn_in in Hin.
      rewrite <- (firstn_skipn (N.to_nat start) blob). apply in_or_app. right. exact Hin. }
    unfold read_tract. specialize (Hok t Ht).
    destruct (find_in_stripes t (s_stripes s) 0) as [[[k j] e]|]; [|reflexivity].
    apply (read_rs_direct_eq_fixed s k j e _ Hok [] [] o w); [reflexivity | exact Hw]. }
  rewrite Hres. reflexivity.
Qed.
