(* C13/Model.v — executable model for "Reed-Solomon encoding and reconstruction are exact and fail closed".
   Transcribes
     internal/curator/pack_tracts.go        packTracts (first-fit-decreasing on lengths padded to padToLength,
                                             acceptance by slop), packChunks (stripes of n consecutive chunks)
     internal/tractserver/store.go          PackTracts (layout -> piece bytes, zero padding), checkTractSpec,
                                             RSEncode / rsEncodeOne (increments, index map), reconstructAndVerify
     internal/curator/reconstruct.go        reconstructChunk bookkeeping (srcIdx, dstIdx, padding, new hosts)
     internal/curator/durable/state/state.go PutRSChunk / lookupTractInChunk (pointer of a tract)
     client/blb/client.go                   readAt (range split, padAll, result fold), readOneTractReplicated,
                                             readOneTractRS;  client/blb/reconstruct.go reconstructOneTract
   on top of Lib/RS.v (the klauspost codec).  Randomness and scheduling that the code leaves open are oracle
   inputs of the ops (post-sort order of sort.Sort ties, allocateTS results, which hosts fail).
   Definitions only. *)
From Coq Require Import List NArith ZArith Bool Arith.
From BLB Require Import Lib.GF256 Lib.RS Gen.Consts.
Import ListNotations.
Open Scope N_scope.

(* ---------- harness-defined data pattern (NOT code under test): byte i of a tract with parameters a b ---------- *)
Definition pat (a b i : N) : N :=
  let x := i + b in N.land (x * a + N.shiftr x 8 * 37 + N.shiftr x 16 * 101) 255.

Record tract := { t_len : N; t_a : N; t_b : N }.
Record ext := { e_tr : nat; e_off : N; e_len : N }.      (* one PackTractSpec / EncodedTract / RSC_Tract *)
Definition chunk := list ext.                            (* the tracts of one data piece, in order *)
Record pchunk := { pc_leader : nat; pc_exts : chunk; pc_len : N }.   (* packedChunk *)

(* ---------- pack_tracts.go: packTracts ---------- *)
Definition pad_to : N := c13_padToLength.
Definition padded (l : N) : N := ((l + pad_to - 1) / pad_to) * pad_to.

(* the inner loop over chunks: first chunk with room, else a new chunk *)
Fixpoint place (chs : list pchunk) (t : nat) (len p target : N) : list pchunk :=
  match chs with
  | [] => [{| pc_leader := t; pc_exts := [{| e_tr := t; e_off := 0; e_len := len |}]; pc_len := p |}]
  | c :: r =>
      if pc_len c + p <=? target
      then {| pc_leader := pc_leader c;
              pc_exts := pc_exts c ++ [{| e_tr := t; e_off := pc_len c; e_len := len |}];
              pc_len := pc_len c + p |} :: r
      else c :: place r t len p target
  end.

(* [lens] are the tract lengths in the order left by sort.Sort(ptsByLen) *)
Definition ffd (lens : list N) (target : N) : list pchunk :=
  fold_left (fun chs p => place chs (fst p) (snd p) (padded (snd p)) target)
            (combine (seq 0 (length lens)) lens) [].

Fixpoint sorted_desc (l : list N) : bool :=
  match l with
  | a :: ((b :: _) as r) => (b <=? a) && sorted_desc r
  | _ => true
  end.

(* chunks kept by "only take ones that are at least 90% full": (target - length) > slop is rejected *)
Definition accepted (chs : list pchunk) (target slop : N) : list pchunk :=
  filter (fun c => negb (slop <? target - pc_len c)) chs.

(* ---------- store.go: checkTractSpec / PackTracts ---------- *)
Fixpoint check_spec_from (endp : N) (c : chunk) : option N :=
  match c with
  | [] => Some endp
  | e :: r => if e_off e <? endp then None else check_spec_from (e_off e + e_len e) r
  end.
Definition check_tract_spec (c : chunk) (length : N) : bool :=
  match check_spec_from 0 c with
  | Some endp => negb (length <? endp)
  | None => false
  end.

(* byte p of the packed piece: the source that covers p, else zero padding (later writes win) *)
Definition data_byte (tracts : list tract) (c : chunk) (p : N) : N :=
  fold_left (fun acc e =>
               if (e_off e <=? p) && (p <? e_off e + e_len e)
               then (let t := nth (e_tr e) tracts {| t_len := 0; t_a := 0; t_b := 0 |} in pat (t_a t) (t_b t) (p - e_off e))
               else acc) c 0.

Fixpoint positions_from (k : nat) (p : N) : list N :=
  match k with O => [] | S k' => p :: positions_from k' (p + 1) end.
Definition positions (off len : N) : list N := positions_from (N.to_nat len) off.

Definition data_window (tracts : list tract) (c : chunk) (off len : N) : vec :=
  map (data_byte tracts c) (positions off len).

(* the size of a packed piece: PackTracts pads up to [length] only when there is at least one source *)
Definition piece_size (c : chunk) (target : N) : N := match c with [] => 0 | _ => target end.

(* ---------- the model state of one case ---------- *)
Record st := {
  s_n : nat; s_m : nat; s_M : matrix; s_target : N;
  s_tracts : list tract;
  s_chunks : list pchunk;          (* all chunks made by packTracts, creation order *)
  s_acc : list nat;                (* leaders of the accepted chunks *)
  s_stripes : list (list chunk);   (* committed stripes: n chunks each *)
  s_hosts : list (list N);         (* hosts of each stripe, n+m entries *)
  s_blobs : list (list nat);       (* blob -> tract indices *)
  s_codec : list vec               (* codec cases: the current n+m shards *)
}.

Definition st0 : st :=
  {| s_n := 0; s_m := 0; s_M := []; s_target := 0; s_tracts := []; s_chunks := []; s_acc := [];
     s_stripes := []; s_hosts := []; s_blobs := []; s_codec := [] |}.

Definition total (s : st) : nat := (s_n s + s_m s)%nat.

(* window [off, off+len) of every piece of a stripe: data pieces from the layout, parity by the coding matrix *)
Definition stripe_windows (s : st) (chs : list chunk) (off len : N) : list vec :=
  let dw := map (fun c => data_window (s_tracts s) c off len) chs in
  dw ++ map (fun row => lincomb row dw) (parity_rows (s_n s) (s_M s)).

Definition piece_window (s : st) (chs : list chunk) (j : nat) (off len : N) : vec :=
  if Nat.ltb j (s_n s) then data_window (s_tracts s) (nth j chs []) off len
  else lincomb (nth j (s_M s) []) (map (fun c => data_window (s_tracts s) c off len) chs).

(* ---------- curator/reconstruct.go: reconstructChunk bookkeeping ---------- *)
Definition zN' (z : Z) : N := Z.to_N z.
Definition memN (x : N) (l : list N) : bool := existsb (N.eqb x) l.
Definition memn (x : nat) (l : list nat) : bool := existsb (Nat.eqb x) l.

Fixpoint set_nth {A} (k : nat) (v : A) (l : list A) : list A :=
  match l, k with
  | [], _ => []
  | _ :: t, O => v :: t
  | h :: t, S k' => h :: set_nth k' v t
  end.

Record plan := { p_src : list nat; p_map : list Z; p_dests : list N; p_hosts : list N }.

(* hosts: the n+m TSIDs of the chunk; bad: TSIDs reported bad; newids: what allocateTS returned (one per bad piece).
   None = the function returns an error before sending RSEncode. *)
Definition reconstruct_plan (n m : nat) (hosts bad newids : list N) : option plan :=
  let idx := seq 0 (length hosts) in
  let dst := filter (fun i => memN (nth i hosts 0) bad) idx in
  let ok := filter (fun i => negb (memN (nth i hosts 0) bad)) idx in
  if Nat.ltb (length ok) n then None
  else match dst with
       | [] => None
       | _ =>
           if negb (Nat.eqb (length newids) (length dst)) then None else
           let src := firstn n ok in
           let padn := (m - length dst)%nat in
           let dstz := map Z.of_nat dst ++ repeat (-1)%Z padn in
           let newhosts := fold_left (fun h p => set_nth (fst p) (snd p) h) (combine dst newids) hosts in
           Some {| p_src := src; p_map := map Z.of_nat src ++ dstz;
                   p_dests := newids ++ repeat 0 padn; p_hosts := newhosts |}
       end.

(* ---------- store.go: rsEncodeOne with an index map (reconstruction), on one window ----------
   pieces: the current window of every piece (what CtlRead returns from srcs[k] for piece imap[k]);
   result: None = error; Some l = for every dest slot k < m: Some bytes if something is written to dests[k]. *)
Definition rs_encode_one (n m : nat) (M : matrix) (pieces : list vec) (imap : list Z) (dest_nonzero : list bool)
  : option (list (option vec)) :=
  if negb (Nat.eqb (length imap) (n + m)) then None else
  let srcs := map Z.to_nat (firstn n imap) in
  let data := map (fun i => if memn i srcs then nth i pieces [] else []) (seq 0 (n + m)) in
  match reconstruct_and_verify n (n + m) M data with
  | None => None
  | Some out =>
      Some (map (fun p => let d := fst p in
                          if (0 <=? d)%Z && snd p then Some (nth (Z.to_nat d) out []) else None)
                (combine (skipn n imap) dest_nonzero))
  end.

(* store.go RSEncode under ONE injected transport fault: the failing call is made iff that increment exists and,
   for a write, iff that destination slot is written at all (index >= 0 and id <> 0) *)
Definition fault_hits (target inc : N) (kind slot fi : Z) (written : list bool) : bool :=
  match kind with
  | 1%Z => zN' fi * inc <? target
  | 2%Z => (zN' fi * inc <? target) && nth (Z.to_nat slot) written false
  | _ => false
  end.

(* ---------- client: one tract ---------- *)
(* error classes on the wire: 0 = NoError, 1 = ErrEOF, 2 = any other error *)
Record tres := { r_wanted : N; r_read : N; r_err : N; r_buf : vec }.

Definition zeros (k : N) : vec := repeat 0 (N.to_nat k).

Definition dummy_tract := {| t_len := 0; t_a := 0; t_b := 0 |}.

(* readOneTractReplicated against Store.Read: the tract holds t_len bytes *)
Definition read_repl (t : tract) (o w : N) : tres :=
  let L := t_len t in
  let rd := if L <=? o then 0 else N.min w (L - o) in
  {| r_wanted := w; r_read := rd; r_err := if rd <? w then 1 else 0;
     r_buf := map (fun i => pat (t_a t) (t_b t) i) (positions o rd) ++ zeros (w - rd) |}.

(* where a tract lives after the move: stripe, piece, offset, length (lookupTractInChunk) *)
Fixpoint find_ext (t : nat) (c : chunk) : option ext :=
  match c with
  | [] => None
  | e :: r => if Nat.eqb (e_tr e) t then Some e else find_ext t r
  end.
Fixpoint find_in_chunks (t : nat) (chs : list chunk) (j : nat) : option (nat * ext) :=
  match chs with
  | [] => None
  | c :: r => match find_ext t c with Some e => Some (j, e) | None => find_in_chunks t r (S j) end
  end.
Fixpoint find_in_stripes (t : nat) (ss : list (list chunk)) (k : nat) : option (nat * nat * ext) :=
  match ss with
  | [] => None
  | chs :: r => match find_in_chunks t chs O with
                | Some (j, e) => Some (k, j, e)
                | None => find_in_stripes t r (S k)
                end
  end.

(* Store.Read of [len] bytes at [off] of a piece of [size] bytes: bytes returned *)
Definition ts_read_count (size off len : N) : N := if size <=? off then 0 else N.min len (size - off).

(* readOneTractRS + reconstructOneTract.  blank: hosts the curator reports as "" ; fail: hosts whose reads fail.
   [fx] selects the variant: true = the current code (since fix commit e1cfae8: request clipped to
   RS.Length - thisOffset; nothing to fetch => answered locally with EOF); false = the code BEFORE that fix
   (request clipped to min(len, RS.Length), finding F15), kept so that the refuted statements remain stated.
   run_case uses [f15_fixed] below. *)
Definition read_rs (fx : bool) (s : st) (k j : nat) (e : ext) (blank fail : list N) (o w : N) : tres :=
  let chs := nth k (s_stripes s) [] in
  let hosts := nth k (s_hosts s) [] in
  let n := s_n s in
  let size := s_target s in
  let rlen := if fx then (if e_len e <=? o then 0 else N.min w (e_len e - o)) else N.min w (e_len e) in
  if fx && (rlen =? 0) then {| r_wanted := w; r_read := 0; r_err := 1; r_buf := zeros w |} else
  let offset := e_off e + o in
  let hj := nth j hosts 0 in
  if negb (memN hj blank || memN hj fail) then
    (* direct read of the piece *)
    let rd := ts_read_count size offset rlen in
    let tserr := if rd <? rlen then 1 else 0 in
    let short := if fx then rlen <? w else e_len e <? w in
    {| r_wanted := w; r_read := rd; r_err := if short then 1 else tserr;
       r_buf := piece_window s chs j offset rd ++ zeros (w - rd) |}
  else
    let failed := {| r_wanted := w; r_read := 0; r_err := 2; r_buf := zeros w |} in
    let req := filter (fun i => negb (Nat.eqb i j) && negb (N.eqb (nth i hosts 0) hj)
                                && negb (memN (nth i hosts 0) blank)) (seq 0 (length hosts)) in
    if Nat.ltb (List.length req) n then failed else
    let good := filter (fun i => negb (memN (nth i hosts 0) fail)
                                 && N.eqb (ts_read_count size offset rlen) rlen) req in
    if Nat.ltb (List.length good) n then failed else
    let used := firstn n good in
    let data := map (fun i => if memn i used then piece_window s chs i offset rlen else [])
                    (seq 0 (List.length hosts)) in
    match rs_reconstruct_data n (total s) (s_M s) data with
    | inl _ => failed
    | inr out =>
        let o' := nth j out [] in
        if negb (Nat.eqb (List.length o') (N.to_nat rlen)) then failed else
        {| r_wanted := w; r_read := rlen; r_err := if rlen <? w then 1 else 0;
           r_buf := o' ++ zeros (w - rlen) |}
    end.

Definition read_tract (fx : bool) (s : st) (rs : bool) (blank fail : list N) (t : nat) (o w : N) : tres :=
  let tr := nth t (s_tracts s) dummy_tract in
  if rs then
    match find_in_stripes t (s_stripes s) O with
    | Some (k, j, e) => read_rs fx s k j e blank fail o w
    | None => read_repl tr o w
    end
  else read_repl tr o w.

(* ---------- client.go: readAt ---------- *)
Definition TL : N := c13_TractLength.

(* getNextRange for every tract of the request: (thisOffset, thisLen) *)
Fixpoint ranges (fuel : nat) (off len pos : N) : list (N * N) :=
  match fuel with
  | O => []
  | S f => let o := (off + pos) mod TL in
           let l := N.min (TL - o) (len - pos) in
           (o, l) :: ranges f off len (pos + l)
  end.

(* the fold over results: (read, err, stop) *)
Fixpoint fold_results (rs : list tres) (pad_all : bool) (read : N) : N * N :=
  match rs with
  | [] => (read, 0)
  | r :: rest =>
      match r_err r with
      | 0 => match rest with
             | [] => (read + r_read r, 0)
             | _ => fold_results rest pad_all (read + r_read r)
             end
      | 1 => match rest with
             | [] => if pad_all then (read + r_wanted r, 0) else (read + r_read r, 1)
             | _ => fold_results rest pad_all (read + r_wanted r)
             end
      | _ => (read, r_err r)
      end
  end.

(* result of Blob.ReadAt(len bytes at off): (n, error class, b[:n]) *)
Definition read_at (fx : bool) (s : st) (rs : bool) (blank fail : list N) (blob : list nat) (off len : N) : N * N * vec :=
  if len =? 0 then (0, 0, []) else
  let start := off / TL in
  let endt := (off + len + TL - 1) / TL in
  let nt := N.of_nat (length blob) in
  if nt <=? start then (0, 1, []) else
  let last := N.min (endt + 1) nt in
  let got := last - start in
  let pad_all := got =? endt + 1 - start in
  let cnt := if pad_all then got - 1 else got in
  let ts := firstn (N.to_nat cnt) (skipn (N.to_nat start) blob) in
  let rgs := ranges (length ts) off len 0 in
  let results := map (fun p => read_tract fx s rs blank fail (fst p) (fst (snd p)) (snd (snd p))) (combine ts rgs) in
  let '(rd, err) := fold_results results pad_all 0 in
  (rd, err, firstn (N.to_nat rd) (flat_map r_buf results)).

(* which variant run_case models: the repaired code (F15 fixed in /repo by e1cfae8) *)
Definition f15_fixed : bool := true.

(* ---------- wire helpers ---------- *)
Definition zN (z : Z) : N := Z.to_N z.
Definition Nz (n : N) : Z := Z.of_N n.
Definition nz (n : nat) : Z := Z.of_nat n.

Definition take_list (l : list Z) : option (list Z * list Z) :=
  match l with
  | [] => None
  | n :: r => let k := Z.to_nat n in
              if (0 <=? n)%Z && Nat.leb k (length r) then Some (firstn k r, skipn k r) else None
  end.

Fixpoint take_lists (n : nat) (l : list Z) : option (list (list Z) * list Z) :=
  match n with
  | O => Some ([], l)
  | S n' => match take_list l with
            | Some (x, r) => match take_lists n' r with
                             | Some (xs, r') => Some (x :: xs, r')
                             | None => None end
            | None => None end
  end.

Fixpoint chunks_of {A} (fuel k : nat) (l : list A) : list (list A) :=
  match fuel with
  | O => []
  | S f => match l with
           | [] => []
           | _ => firstn k l :: chunks_of f k (skipn k l)
           end
  end.

Fixpoint triples (l : list Z) : list tract :=
  match l with
  | a :: b :: c :: r => {| t_len := zN a; t_a := zN b; t_b := zN c |} :: triples r
  | _ => []
  end.

Definition is_class (n m : nat) : bool := existsb (fun p => Nat.eqb (fst p) n && Nat.eqb (snd p) m) rs_classes.

Definition err_code (e : rs_err) : Z :=
  match e with ErrTooFewShards => 1 | ErrShardNoData => 2 | ErrShardSize => 3 | ErrSingular => 4 end%Z.

Definition mask_list (mask : N) (k : nat) : list nat := filter (fun i => N.testbit mask (N.of_nat i)) (seq 0 k).

Definition flat (l : list vec) : list Z := map Nz (concat l).

Definition find_chunk (s : st) (leader : nat) : option pchunk :=
  find (fun c => Nat.eqb (pc_leader c) leader) (s_chunks s).

(* for tract t: leader of its chunk if that chunk is accepted (else -1), and its offset *)
Definition tract_place (chs : list pchunk) (acc : list nat) (t : nat) : list Z :=
  match flat_map (fun c => match find_ext t (pc_exts c) with
                           | Some e => [(pc_leader c, e_off e)] | None => [] end) chs with
  | (l, o) :: _ => [if memn l acc then nz l else (-1)%Z; Nz o]
  | [] => [(-1)%Z; (-1)%Z]
  end.

Definition enc_chunk (c : chunk) : list Z :=
  nz (length c) :: flat_map (fun e => [nz (e_tr e); Nz (e_off e); Nz (e_len e)]) c.

(* ---------- pack_tracts.go packChunks: the piece ids of a round ----------
   one AllocateRSChunkIDs(count*(n+m)) gives [base]; stripe i works on base + i*(n+m) (baseChunkID.Add(n+m) per
   stripe) and its piece j has id stripe base + j *)
Definition stripe_base (base : N) (n m i : nat) : N := base + N.of_nat (i * (n + m)).
Definition piece_ids (base : N) (n m i : nat) : list N :=
  map (fun j => stripe_base base n m i + N.of_nat j) (seq 0 (n + m)).
Definition round_ids (base : N) (n m stripes : nat) : list N :=
  flat_map (piece_ids base n m) (seq 0 stripes).

(* ---------- the states built by ops 10 / 11 / 15 (named so that invariants can be stated about them) ---------- *)
(* op 10: packTracts on the tracts in their post-sort order *)
Definition st_pack (n' m' : nat) (tg sl : N) (trs : list tract) : st :=
  let chs := ffd (map t_len trs) tg in
  {| s_n := n'; s_m := m'; s_M := class_matrix n' m'; s_target := tg; s_tracts := trs; s_chunks := chs;
     s_acc := map pc_leader (accepted chs tg sl); s_stripes := []; s_hosts := []; s_blobs := []; s_codec := [] |}.

(* op 11: packChunks groups the accepted chunks, in the order [ls] of their leaders, into stripes of n; a stripe
   exists (is packed, encoded and committed) only if the tractservers' PackTracts accept all its layouts, i.e.
   store.go checkTractSpec holds of every chunk (doEncode abandons the stripe otherwise).  packTracts itself does
   NOT check that a tract fits the piece: a tract longer than the target gets a chunk of its own, which is
   "accepted" by the slop rule, and is only refused here. *)
Definition st_stripes (s : st) (ls : list nat) : st :=
  let exts := map (fun l => match find_chunk s l with Some c => pc_exts c | None => [] end) ls in
  let k := (length ls / s_n s)%nat in
  let stripes := filter (forallb (fun c => check_tract_spec c (s_target s))) (firstn k (chunks_of k (s_n s) exts)) in
  {| s_n := s_n s; s_m := s_m s; s_M := s_M s; s_target := s_target s; s_tracts := s_tracts s;
     s_chunks := s_chunks s; s_acc := s_acc s; s_stripes := stripes;
     s_hosts := repeat [] (length stripes); s_blobs := s_blobs s; s_codec := [] |}.

(* op 15: the hosts of stripe k as committed *)
Definition st_set_hosts (s : st) (k : nat) (hosts : list N) : st :=
  {| s_n := s_n s; s_m := s_m s; s_M := s_M s; s_target := s_target s; s_tracts := s_tracts s;
     s_chunks := s_chunks s; s_acc := s_acc s; s_stripes := s_stripes s;
     s_hosts := set_nth k hosts (s_hosts s); s_blobs := s_blobs s; s_codec := [] |}.

(* ---------- one op ---------- *)
Definition bad : list Z := [(-1)%Z].

Definition step (s : st) (op : list Z) : st * list Z :=
  match op with
  (* ---- codec cases ---- *)
  | 1%Z :: n :: m :: len :: bytes =>
      let n' := Z.to_nat n in let m' := Z.to_nat m in let l := Z.to_nat len in
      if negb (is_class n' m') || negb (Nat.eqb (length bytes) (n' * l)) then (s, bad) else
      let M := class_matrix n' m' in
      let bs := map zN bytes in
      let data := map (fun i => firstn l (skipn (i * l) bs)) (seq 0 n') in
      match rs_encode n' (n' + m') M (data ++ repeat (repeat 0 l) m') with
      | inr sh => ({| s_n := n'; s_m := m'; s_M := M; s_target := 0; s_tracts := []; s_chunks := []; s_acc := [];
                      s_stripes := []; s_hosts := []; s_blobs := []; s_codec := sh |},
                   0%Z :: flat (skipn n' sh))
      | inl e => (s, [err_code e])
      end
  | [2%Z; mask] =>
      let S := mask_list (zN mask) (total s) in
      match rs_reconstruct (s_n s) (total s) (s_M s) (erase S (s_codec s)) with
      | inr out =>
          let v := match rs_verify (s_n s) (total s) (s_M s) out with inr true => 1%Z | inr false => 0%Z | inl e => (10 + err_code e)%Z end in
          (s, 0%Z :: flat (map (fun i => nth i out []) S) ++ [v])
      | inl e => (s, [err_code e])
      end
  | [3%Z; mask] =>
      let S := mask_list (zN mask) (total s) in
      match rs_reconstruct_data (s_n s) (total s) (s_M s) (erase S (s_codec s)) with
      | inr out => (s, 0%Z :: flat (map (fun i => nth i out []) S))
      | inl e => (s, [err_code e])
      end
  | [4%Z; idx; pos; x; mask] =>
      (* corrupt one byte of the encoded shards, erase, reconstructAndVerify; then Verify on the corrupted full set *)
      let i := Z.to_nat idx in
      let sh := s_codec s in
      let row := nth i sh [] in
      let row' := set_nth (Z.to_nat pos) (N.lxor (nth (Z.to_nat pos) row 0) (zN x)) row in
      let sh' := set_nth i row' sh in
      let S := mask_list (zN mask) (total s) in
      let rv := match reconstruct_and_verify (s_n s) (total s) (s_M s) (erase S sh') with Some _ => 0%Z | None => 1%Z end in
      let v := match rs_verify (s_n s) (total s) (s_M s) sh' with inr true => 1%Z | inr false => 0%Z | inl e => (10 + err_code e)%Z end in
      (s, [rv; v])
  | [5%Z] => (s, flat_map (fun p => [nz (fst p); nz (snd p)]) rs_classes)
  (* ---- stripe cases ---- *)
  | 10%Z :: n :: m :: target :: slop :: nt :: rest =>
      let n' := Z.to_nat n in let m' := Z.to_nat m in
      let trs := triples rest in
      if negb (is_class n' m') then (s, [(-3)%Z]) else
      if negb (Nat.eqb (length trs) (Z.to_nat nt)) then (s, bad) else
      let lens := map t_len trs in
      if negb (sorted_desc lens) then (s, [(-2)%Z]) else
      let tg := zN target in let sl := zN slop in
      (* slop = int(float32(target) * 0.10): taken from the run, sanity-bounded here *)
      if negb ((tg <=? 10 * sl + 40) && (10 * sl <=? tg + 40)) then (s, [(-4)%Z]) else
      let chs := ffd lens tg in
      let acc := accepted chs tg sl in
      (st_pack n' m' tg sl trs,
       nz (length trs) :: flat_map (tract_place chs (map pc_leader acc)) (seq 0 (length trs))
          ++ nz (length acc) :: map (fun c => nz (pc_leader c)) acc)
  | [16%Z; base; n; m; k] =>
      (s, map Nz (round_ids (zN base) (Z.to_nat n) (Z.to_nat m) (Z.to_nat k)))
  | 11%Z :: cnt :: leaders =>
      let ls := map Z.to_nat leaders in
      let lens := map (fun l => match find_chunk s l with Some c => pc_len c | None => 0 end) ls in
      let ok := Nat.eqb (length ls) (Z.to_nat cnt) && Nat.eqb (length ls) (length (s_acc s))
                && forallb (fun a => memn a ls) (s_acc s) && forallb (fun a => memn a (s_acc s)) ls
                && sorted_desc lens in
      if negb ok then (s, [0%Z]) else
      (st_stripes s ls, [1%Z; nz (length ls / s_n s)%nat])
  | [12%Z; k] =>
      match nth_error (s_stripes s) (Z.to_nat k) with
      | Some chs => (s, nz (total s) :: nz (length chs) :: flat_map enc_chunk chs)
      | None => (s, [0%Z])
      end
  | [13%Z; t] =>
      match find_in_stripes (Z.to_nat t) (s_stripes s) O with
      | Some (k, j, e) => (s, [1%Z; nz k; nz j; Nz (e_off e); Nz (e_len e); nz j; nz (total s)])
      | None => (s, [0%Z])
      end
  | 14%Z :: nb :: rest =>
      match take_lists (Z.to_nat nb) rest with
      | Some (bl, []) =>
          ({| s_n := s_n s; s_m := s_m s; s_M := s_M s; s_target := s_target s; s_tracts := s_tracts s;
              s_chunks := s_chunks s; s_acc := s_acc s; s_stripes := s_stripes s; s_hosts := s_hosts s;
              s_blobs := map (map Z.to_nat) bl; s_codec := [] |}, [1%Z])
      | _ => (s, bad)
      end
  | 15%Z :: k :: hosts =>
      if negb (Nat.eqb (length hosts) (total s)) || negb (Nat.ltb (Z.to_nat k) (length (s_stripes s))) then (s, bad) else
      (st_set_hosts s (Z.to_nat k) (map zN hosts), [1%Z])
  | [20%Z; k; off; len] =>
      match nth_error (s_stripes s) (Z.to_nat k) with
      | Some chs => (s, flat (stripe_windows s chs (zN off) (zN len)))
      | None => (s, bad)
      end
  | 31%Z :: b :: off :: len :: [] =>
      let '(rd, err, bytes) := read_at f15_fixed s false [] [] (nth (Z.to_nat b) (s_blobs s) []) (zN off) (zN len) in
      (s, Nz rd :: Nz err :: map Nz bytes)
  | 32%Z :: b :: off :: len :: rest =>
      match take_list rest with
      | Some (blank, rest') =>
          match take_list rest' with
          | Some (fail, []) =>
              let '(rd, err, bytes) := read_at f15_fixed s true (map zN blank) (map zN fail) (nth (Z.to_nat b) (s_blobs s) []) (zN off) (zN len) in
              (s, Nz rd :: Nz err :: map Nz bytes)
          | _ => (s, bad)
          end
      | None => (s, bad)
      end
  | 33%Z :: b :: off :: len :: rest =>
      (* THE PROPERTY: the read through the erasure-coded location equals the replicated read *)
      match take_list rest with
      | Some (blank, rest') =>
          match take_list rest' with
          | Some (fail, []) =>
              let blob := nth (Z.to_nat b) (s_blobs s) [] in
              let '(rd1, err1, bytes1) := read_at f15_fixed s false [] [] blob (zN off) (zN len) in
              let '(rd2, err2, bytes2) := read_at f15_fixed s true (map zN blank) (map zN fail) blob (zN off) (zN len) in
              (* input class of the request: 1 = in-tract offset 0, 2 = offset > 0 and the range ends inside the
                 tract, 3 = offset > 0 and the range crosses the tract's end, 4 = zero-length tract *)
              let o := zN off mod TL in
              let L := t_len (nth (nth (N.to_nat (zN off / TL)) blob O) (s_tracts s) dummy_tract) in
              let cls := if L =? 0 then 4 else if o =? 0 then 1 else if o + zN len <=? L then 2 else 3 in
              let kind := if negb ((rd1 =? rd2) && (err1 =? err2))
                          then (if err2 =? 2 then 4 else 2)
                          else if vec_eqb bytes1 bytes2 then 1 else 3 in
              let code := if kind =? 1 then 1 else 10 * cls + kind in
              (s, [777%Z; Nz code])
          | _ => (s, bad)
          end
      | None => (s, bad)
      end
  | 40%Z :: k :: rest =>
      match take_list rest with
      | Some (badp, rest') =>
          match take_list rest' with
          | Some (newids, []) =>
              let hosts := nth (Z.to_nat k) (s_hosts s) [] in
              let badids := map (fun p => nth (Z.to_nat p) hosts 0) badp in
              match reconstruct_plan (s_n s) (s_m s) hosts badids (map zN newids) with
              | Some p =>
                  (st_set_hosts s (Z.to_nat k) (p_hosts p),
                   0%Z :: nz (length (p_src p)) :: map nz (p_src p) ++ p_map p ++ map Nz (p_dests p) ++ map Nz (p_hosts p))
              | None => (s, [2%Z])
              end
          | _ => (s, bad)
          end
      | None => (s, bad)
      end
  | 41%Z :: k :: off :: len :: rest =>
      (* Store.RSEncode called directly, observed on one window: with an index map (reconstruction from an
         arbitrary choice of n pieces) or without (imap empty: plain encoding), and optionally with one failing
         CtlRead (kind 1, source slot) / CtlWrite (kind 2, destination slot) in increment [fi] of size [inc]:
         rsEncodeOne returns that error and RSEncode returns it -- the error propagates *)
      match take_list rest with
      | Some (imap, rest') =>
          match take_list rest' with
          | Some (nonzero, [inc; kind; slot; fi]) =>
              match nth_error (s_stripes s) (Z.to_nat k) with
              | Some chs =>
                  let nzb := map (fun z => negb (Z.eqb z 0)) nonzero in
                  let dsts := match imap with [] => map (fun i => nz (s_n s + i)) (seq 0 (s_m s)) | _ => skipn (s_n s) imap end in
                  let written := map (fun p : Z * bool => (0 <=? fst p)%Z && snd p) (combine dsts nzb) in
                  if fault_hits (s_target s) (zN inc) kind slot fi written then (s, [2%Z]) else
                  let wins := stripe_windows s chs (zN off) (zN len) in
                  let res := match imap with
                             | [] => Some (map (fun p : Z * bool => if snd p then Some (nth (Z.to_nat (fst p)) wins []) else None)
                                               (combine dsts nzb))
                             | _ => rs_encode_one (s_n s) (s_m s) (s_M s) wins imap nzb
                             end in
                  match res with
                  | Some outs => (s, 0%Z :: flat_map (fun o => match o with
                                                               | Some v => 1%Z :: map Nz v
                                                               | None => [0%Z] end) outs)
                  | None => (s, [2%Z])
                  end
              | None => (s, bad)
              end
          | _ => (s, bad)
          end
      | None => (s, bad)
      end
  | _ => (s, bad)
  end.

Fixpoint run_from (s : st) (ops : list (list Z)) : list (list Z) :=
  match ops with
  | [] => []
  | op :: r => let '(s', o) := step s op in o :: run_from s' r
  end.

(* Generic driver entry point: ops of one case -> expected observation lines. *)
Definition run_case (ops : list (list Z)) : list (list Z) := run_from st0 ops.
