(* C06/ProofsBurst.v — a burst of at most 32 flipped bits in a stored record, outside its 4 length bytes, is
   rejected by the reader (ErrCorruptData), using Lib.CRCProofs.crc_detects_burst_raw. *)
From Coq Require Import List NArith ZArith Bool Lia ZifyN ZifyNat ZifyBool.
From BLB Require Import Lib.CRC Lib.CRCFast Lib.CRCProofs Gen.Consts C06.Model C06.Spec C06.Proofs.
Import ListNotations.
Open Scope N_scope.

Lemma burst_detected r (idb' d' cf' rest : bytes) :
  valid_rec r ->
  length idb' = 8%nat -> length d' = length (rdata r) -> length cf' = 4%nat -> Forall (fun x => x < 256) cf' ->
  burst_error (bits_of ((rec_header (rid r) (blen (rdata r)) ++ rdata r) ++ le32 (rec_csum (rid r) (rdata r))))
              (bits_of ((idb' ++ le32 (blen (rdata r)) ++ d') ++ cf')) ->
  parse_one (idb' ++ le32 (blen (rdata r)) ++ d' ++ cf' ++ rest) = PCorrupt.
Proof.
  intros [Hid Hlen] Hl8 Hld Hl4 HF Hb.
  pose proof max_data_lt as Hm.
  assert (Hl32 : blen (rdata r) < 2 ^ 32) by lia.
  set (len := blen (rdata r)) in *.
  set (b := idb' ++ le32 len ++ d' ++ cf' ++ rest).
  assert (Hf8 : firstn 8 b = idb') by (unfold b; apply firstn_app_exact; auto).
  assert (Hs8 : skipn 8 b = le32 len ++ d' ++ cf' ++ rest) by (unfold b; apply skipn_app_exact; auto).
  assert (Hf12 : firstn 12 b = idb' ++ le32 len).
  { unfold b. rewrite app_assoc. apply firstn_app_exact. rewrite app_length, Hl8. reflexivity. }
  assert (Hs12 : skipn 12 b = d' ++ cf' ++ rest).
  { unfold b. rewrite app_assoc. apply skipn_app_exact. rewrite app_length, Hl8. reflexivity. }
  unfold parse_one. fold b.
  rewrite nonnil_match.
  2:{ unfold b. destruct idb'; [discriminate Hl8|discriminate]. }
  assert (Hb12 : blen b <? 12 = false).
  { apply N.ltb_ge. unfold b, blen. rewrite !app_length, Hl8, le32_length. lia. }
  rewrite Hb12, Hs8, Hf12, Hs12.
  rewrite (firstn_app_exact (le32 len)) by reflexivity.
  rewrite of_le_le32 by assumption.
  assert (Hmx : max_data <? len = false) by (apply N.ltb_ge; exact Hlen). rewrite Hmx.
  assert (Ht : blen (d' ++ cf' ++ rest) <? len + 4 = false).
  { apply N.ltb_ge. unfold blen, len, blen. rewrite !app_length, Hld, Hl4. lia. }
  rewrite Ht.
  assert (Hn : N.to_nat len = length d') by (unfold len, blen; lia).
  rewrite Hn, firstn_app_exact, skipn_app_exact by reflexivity.
  rewrite (firstn_app_exact cf') by auto.
  rewrite crc32c_fast_correct'.
  assert (Hne : crc32c ((idb' ++ le32 len) ++ d') <> of_le cf').
  { apply (crc_detects_burst_raw (rec_header (rid r) len ++ rdata r) ((idb' ++ le32 len) ++ d') cf' Hl4 HF).
    unfold rec_csum in Hb. fold len in Hb. rewrite crc32c_fast_correct' in Hb.
    replace ((idb' ++ le32 len) ++ d') with (idb' ++ le32 len ++ d') by (rewrite app_assoc; reflexivity). exact Hb. }
  apply N.eqb_neq in Hne. rewrite Hne. reflexivity.
Qed.
