(* C06/ProofsMem.v — the reference implementation memLog against the abstract log. *)
From Coq Require Import List NArith ZArith Bool Lia ZifyN ZifyNat ZifyBool.
From BLB Require Import Lib.CRC C06.Model C06.Spec C06.Proofs C06.ProofsRecover C06.ProofsCrash C06.ProofsCache
  C06.ProofsTrim C06.ProofsRefine C06.ProofsCacheFs.
Import ListNotations.
Open Scope N_scope.

(* the documented interface relation: like spec_step, but Trim may discard every record up to the hint
   (memLog trims exactly; fsLog never trims its last file, which is the extra clause of spec_step) *)
Definition spec_step_doc (acked : list record) (op : wal_op) (acked' : list record) : Prop :=
  match op with
  | OTrim k => exists n, acked' = skipn n acked /\ Forall (fun r => rid r <= k) (firstn n acked)
  | _ => spec_step acked op acked'
  end.

Lemma spec_step_implies_doc acked op acked' : spec_step acked op acked' -> spec_step_doc acked op acked'.
Proof. destruct op; cbn; try tauto. intros (n & H1 & H2 & _). exists n. tauto. Qed.

(* the batch discipline under which memLog is used as reference: a batch is either acceptable as a whole, or its
   FIRST id is already the wrong one *)
Definition first_id_wrong (m : memlog) (recs : list record) : Prop :=
  match recs, m with
  | r0 :: _, a :: _ => rid r0 <> rid (last m a) + 1
  | _, _ => False
  end.

Definition mem_step (m : memlog) (op : wal_op) : Z * memlog :=
  match op with
  | OAppend recs => mem_append m (map to_wire recs)
  | OTruncate k => (0%Z, mem_truncate m k)
  | OTrim k => (0%Z, mem_trim m k)
  | OReopen => (0%Z, m)
  end.

Lemma filter_gt_suffix_le : forall m k, gap_free m = true ->
  exists n, filter (fun r => k <? rid r) m = skipn n m /\ Forall (fun r => rid r <= k) (firstn n m).
Proof.
  induction m as [|a m IH]; intros k Hg; [exists 0%nat; split; [reflexivity|constructor]|].
  cbn [filter]. destruct (k <? rid a) eqn:E.
  - exists 0%nat. cbn [skipn firstn]. split; [|constructor]. f_equal. apply filter_all. intros x Hx. apply N.ltb_lt.
    apply N.ltb_lt in E. pose proof (gap_free_lt_hd m a x Hg Hx). lia.
  - destruct (IH k (gap_free_cons _ _ Hg)) as (n & Hn & Hf). exists (S n). cbn [skipn firstn]. split; [exact Hn|].
    constructor; [apply N.ltb_ge in E; exact E|exact Hf].
Qed.

(* memLog refines the abstract log under the batch discipline *)
Theorem memlog_refines m op :
  gap_free m = true -> Forall id_room m -> valid_op op ->
  (forall recs, op = OAppend recs -> spec_accepts m recs = true \/ first_id_wrong m recs) ->
  fst (mem_step m op) = spec_rc m op /\ spec_step_doc m op (snd (mem_step m op)) /\
  gap_free (snd (mem_step m op)) = true.
Proof.
  intros Hg Hroom Hvo Hdisc. destruct op as [recs|k|k|].
  - destruct Hvo as [_ Hrr]. cbn [mem_step spec_rc spec_step_doc spec_step].
    destruct (Hdisc recs eq_refl) as [Hacc|Hw].
    + rewrite (mem_append_accepts recs m Hroom Hrr Hacc), Hacc. cbn [fst snd]. split; [reflexivity|]. split; [reflexivity|].
      destruct recs as [|r0 rest]; [rewrite app_nil_r; exact Hg|].
      unfold spec_accepts in Hacc. apply andb_true_iff in Hacc. destruct Hacc as [Hgr Hh].
      destruct m as [|a m']; [exact Hgr|].
      apply (gap_free_app_intro (a :: m') rest a r0 Hg Hgr). intros _. apply N.eqb_eq in Hh. exact Hh.
    + destruct recs as [|r0 rest]; [contradiction|]. destruct m as [|a m']; [contradiction|].
      cbn [first_id_wrong] in Hw.
      assert (Hrej : spec_accepts (a :: m') (r0 :: rest) = false).
      { unfold spec_accepts. apply andb_false_iff. right. apply N.eqb_neq. intros E. apply Hw. lia. }
      rewrite Hrej. destruct r0 as [id0 data0]. cbn [rid] in *. cbn [map mem_append].
      change (to_wire {| rid := id0; rdata := data0 |}) with (id0, map (fun x : byte => (1, x)) data0). cbv beta iota.
      assert (Hin : In (last (a :: m') a) (a :: m')).
      { destruct (exists_last (l := a :: m') ltac:(discriminate)) as (p & q & E). rewrite E, last_last.
        apply in_or_app. right. left. reflexivity. }
      rewrite Forall_forall in Hroom. pose proof (Hroom _ Hin) as Hl. unfold id_room in Hl.
      rewrite N.mod_small by exact Hl.
      assert (E : (id0 =? rid (last (a :: m') a) + 1) = false) by (apply N.eqb_neq; exact Hw).
      rewrite E. cbn [fst snd]. split; [reflexivity|split; [reflexivity|exact Hg]].
  - cbn [mem_step spec_rc spec_step_doc spec_step fst snd]. repeat split. apply gap_free_truncate. exact Hg.
  - cbn [mem_step spec_rc spec_step_doc fst snd]. split; [reflexivity|]. split; [|apply gap_free_trim; exact Hg].
    unfold mem_trim. destruct (filter_gt_suffix_le m k Hg) as (n & Hn & Hf). exists n. split; assumption.
  - cbn. repeat split. exact Hg.
Qed.

(* outside the discipline memLog and the abstract log (and fsLog) differ: memLog appends the valid prefix of a batch
   before it reports the error *)
Definition mr1 : record := mkRec 1 [1].
Definition mr2 : record := mkRec 2 [2].
Definition mr9 : record := mkRec 9 [9].

Lemma memlog_partial_batch :
  mem_step [mr1] (OAppend [mr2; mr9]) = (1%Z, [mr1; mr2]) /\
  spec_accepts [mr1] [mr2; mr9] = false /\
  ~ spec_step_doc [mr1] (OAppend [mr2; mr9]) (snd (mem_step [mr1] (OAppend [mr2; mr9]))).
Proof.
  split; [vm_compute; reflexivity|]. split; [vm_compute; reflexivity|].
  cbn [spec_step_doc spec_step]. intros H. vm_compute in H. discriminate H.
Qed.
