(* C06/ProofsTrim.v — Trim and Truncate on the repaired model: post-state invariant and crash states. *)
From Coq Require Import List NArith ZArith Bool Lia ZifyN ZifyNat ZifyBool.
From BLB Require Import Lib.CRC Lib.CRCFast Gen.Consts C06.Model C06.Spec C06.Proofs C06.ProofsRecover C06.ProofsCrash C06.ProofsCache.
Import ListNotations.
Open Scope N_scope.

(* ---------- getFileContainingID ---------- *)
(* number of leading groups whose first id is <= k *)
Fixpoint pass (k : N) (gs : list (list record)) : nat :=
  match gs with
  | [] => 0
  | g :: rest => if k <? gfirst g then 0 else S (pass k rest)
  end.

Lemma gfc_loop_pass : forall gs s k i prev,
  gfc_loop (infos_of s gs) k i prev = match pass k gs with O => prev | S q => (i + q)%nat end.
Proof.
  induction gs as [|g rest IH]; intros s k i prev; [reflexivity|].
  cbn [infos_of gfc_loop fi_first pass].
  destruct (k <? gfirst g); [reflexivity|].
  rewrite IH. destruct (pass k rest); [lia|]. lia.
Qed.

Lemma pass_le_length k gs : (pass k gs <= length gs)%nat.
Proof. induction gs as [|g rest IH]; cbn; [lia|]. destruct (k <? gfirst g); cbn; lia. Qed.

Lemma pass_first : forall gs k j, (j < pass k gs)%nat -> gfirst (nth j gs []) <= k.
Proof.
  induction gs as [|g rest IH]; intros k j Hj; [cbn in Hj; lia|].
  cbn [pass] in Hj. destruct (k <? gfirst g) eqn:E; [lia|]. apply N.ltb_ge in E.
  destruct j as [|j]; [exact E|]. cbn [nth]. apply IH. lia.
Qed.

Lemma pass_stop : forall gs k, (pass k gs < length gs)%nat -> k < gfirst (nth (pass k gs) gs []).
Proof.
  induction gs as [|g rest IH]; intros k H; [cbn in H; lia|].
  cbn [pass] in *. destruct (k <? gfirst g) eqn:E.
  - apply N.ltb_lt in E. exact E.
  - cbn [nth]. apply IH. cbn [length] in H. lia.
Qed.

(* the file index chosen by getFileContainingID on a live log *)
Definition gfc_idx (k : N) (gs : list (list record)) : nat := Nat.pred (pass k gs).

Lemma gfc_log_of s0 gs maxsz k : gfc (log_of s0 gs maxsz) k = gfc_idx k gs.
Proof.
  unfold gfc. rewrite refresh_log_of. unfold log_of. cbn [lg_files]. rewrite gfc_loop_pass.
  unfold gfc_idx. destruct (pass k gs); reflexivity.
Qed.

Lemma gfc_idx_lt k gs : gs <> [] -> (gfc_idx k gs < length gs)%nat.
Proof. intros H. unfold gfc_idx. pose proof (pass_le_length k gs). destruct gs; [congruence|]. cbn [length] in *. lia. Qed.

(* ---------- order between groups ---------- *)
Lemma before_group_lt G1 y g2 G2 r :
  gap_free (concat (G1 ++ (y :: g2) :: G2)) = true -> In r (concat G1) -> rid r < rid y.
Proof.
  intros Hg Hin. rewrite concat_app in Hg. cbn [concat] in Hg.
  destruct (in_split _ _ Hin) as (A & B & E). rewrite E in Hg.
  rewrite <- app_assoc in Hg. apply gap_free_app_r in Hg. cbn [app] in Hg.
  apply (gap_free_lt_hd _ r y Hg). apply in_or_app. right. left. reflexivity.
Qed.

Lemma after_group_gt G1 g G2 y r :
  gap_free (concat (G1 ++ g :: G2)) = true -> g = y :: tl g -> In r (concat G2) -> rid y < rid r.
Proof.
  intros Hg Eg Hin. rewrite concat_app in Hg. cbn [concat] in Hg. apply gap_free_app_r in Hg.
  rewrite Eg in Hg. cbn [app] in Hg.
  apply (gap_free_lt_hd _ y r Hg). apply in_or_app. right. exact Hin.
Qed.

Lemma infos_skipn : forall n gs s0, skipn n (infos_of s0 gs) = infos_of (s0 + N.of_nat n) (skipn n gs).
Proof.
  induction n as [|n IH]; intros gs s0.
  - cbn [skipn]. replace (s0 + N.of_nat 0) with s0 by lia. reflexivity.
  - destruct gs as [|g gs]; [reflexivity|]. cbn [infos_of skipn]. rewrite IH. f_equal. lia.
Qed.

Lemma infos_firstn : forall n gs s0, firstn n (infos_of s0 gs) = infos_of s0 (firstn n gs).
Proof.
  induction n as [|n IH]; intros gs s0; [reflexivity|].
  destruct gs as [|g gs]; [reflexivity|]. cbn [infos_of firstn]. rewrite IH. reflexivity.
Qed.

Lemma last_skipn {A} : forall n (l : list A) d, (n < length l)%nat -> last (skipn n l) d = last l d.
Proof.
  induction n as [|n IH]; intros l d H; [reflexivity|].
  destruct l as [|a l]; [cbn in H; lia|]. cbn [skipn]. cbn [length] in H.
  rewrite IH by lia. destruct l; [cbn in H; lia|reflexivity].
Qed.

(* ---------- deleting files from the front ---------- *)
Definition unlink_pair (s : N) : list mut := [MUnlink s; MDirSync].

Lemma delete_files_muts : forall seqs w,
  delete_files seqs w = (apply_muts (fst w) (flat_map unlink_pair seqs), snd w ++ flat_map unlink_pair seqs).
Proof.
  induction seqs as [|s seqs IH]; intros w.
  - cbn. rewrite app_nil_r. destruct w; reflexivity.
  - cbn [delete_files fold_left flat_map]. fold (delete_files seqs (emit MDirSync (emit (MUnlink s) w))).
    rewrite IH. unfold emit. cbn [fst snd unlink_pair app]. rewrite <- !app_assoc. reflexivity.
Qed.

Lemma fs_del_first s0 g g2 rest :
  fs_del (dir_of s0 (g :: g2 :: rest) []) s0 = dir_of (s0 + 1) (g2 :: rest) [].
Proof.
  change (dir_of s0 (g :: g2 :: rest) []) with ((s0, file_of g) :: dir_of (s0 + 1) (g2 :: rest) []).
  cbn [fs_del]. rewrite N.eqb_refl. reflexivity.
Qed.

Lemma seqs_infos_cons s0 g gs : map fi_seq (infos_of s0 (g :: gs)) = s0 :: map fi_seq (infos_of (s0 + 1) gs).
Proof. reflexivity. Qed.

(* every crash state while deleting the groups dels from the front *)
Lemma trim_crash_states : forall dels rest s0 j cut,
  rest <> [] ->
  exists m, (m <= length dels)%nat /\
    crash_fs (dir_of s0 (dels ++ rest) []) (flat_map unlink_pair (map fi_seq (infos_of s0 dels))) j cut
    = dir_of (s0 + N.of_nat m) (skipn m (dels ++ rest)) [].
Proof.
  induction dels as [|g dels IH]; intros rest s0 j cut Hr.
  - cbn [infos_of map flat_map]. rewrite crash_fs_nil. exists 0%nat. split; [lia|].
    cbn [skipn app]. replace (s0 + N.of_nat 0) with s0 by lia. reflexivity.
  - rewrite seqs_infos_cons. cbn [flat_map unlink_pair app].
    assert (Hne : dels ++ rest <> []) by (destruct dels; [exact Hr|discriminate]).
    destruct (dels ++ rest) as [|g2 more] eqn:E; [congruence|].
    destruct j as [|[|j]].
    + exists 0%nat. split; [lia|]. unfold crash_fs. cbn [firstn nth_error app].
      replace (s0 + N.of_nat 0) with s0 by lia. cbn [skipn app]. destruct cut; reflexivity.
    + exists 1%nat. split; [cbn [length]; lia|]. unfold crash_fs. cbn [firstn nth_error app].
      unfold apply_muts. cbn [fold_left apply_mut skipn app]. rewrite fs_del_first.
      replace (s0 + N.of_nat 1) with (s0 + 1) by lia. destruct cut; reflexivity.
    + change (MUnlink s0 :: MDirSync :: flat_map unlink_pair (map fi_seq (infos_of (s0 + 1) dels)))
        with ([MUnlink s0; MDirSync] ++ flat_map unlink_pair (map fi_seq (infos_of (s0 + 1) dels))).
      rewrite crash_fs_app_ge by (cbn [length]; lia).
      unfold apply_muts at 1. cbn [fold_left apply_mut app]. rewrite fs_del_first. rewrite <- E.
      cbn [length Nat.sub]. rewrite ?Nat.sub_0_r.
      destruct (IH rest (s0 + 1) j cut Hr) as (m & Hm & Em).
      exists (S m). split; [cbn [length]; lia|]. rewrite Em. cbn [skipn app].
      replace (s0 + 1 + N.of_nat m) with (s0 + N.of_nat (S m)) by lia. reflexivity.
Qed.

Lemma apply_unlinks_front : forall dels rest s0,
  rest <> [] ->
  apply_muts (dir_of s0 (dels ++ rest) []) (flat_map unlink_pair (map fi_seq (infos_of s0 dels)))
  = dir_of (s0 + N.of_nat (length dels)) rest [].
Proof.
  induction dels as [|g dels IH]; intros rest s0 Hr.
  - cbn. replace (s0 + 0) with s0 by lia. reflexivity.
  - rewrite seqs_infos_cons. cbn [flat_map unlink_pair app].
    assert (Hne : dels ++ rest <> []) by (destruct dels; [exact Hr|discriminate]).
    destruct (dels ++ rest) as [|g2 more] eqn:E; [congruence|].
    rewrite !apply_muts_cons. cbn [apply_mut]. rewrite fs_del_first, <- E, IH by assumption.
    cbn [length]. replace (s0 + 1 + N.of_nat (length dels)) with (s0 + N.of_nat (S (length dels))) by lia. reflexivity.
Qed.

(* ---------- Trim ---------- *)
Lemma split_nth {A} : forall (l : list A) n d, (n < length l)%nat -> l = firstn n l ++ nth n l d :: skipn (S n) l.
Proof.
  induction l as [|a l IH]; intros n d H; [cbn in H; lia|].
  destruct n as [|n]; [reflexivity|]. cbn [firstn nth skipn app]. f_equal. apply IH. cbn [length] in H. lia.
Qed.

Lemma concat_firstn_skipn {A} (gs : list (list A)) n : concat gs = concat (firstn n gs) ++ concat (skipn n gs).
Proof. rewrite <- concat_app, firstn_skipn. reflexivity. Qed.

Lemma In_concat_firstn_mono {A} (gs : list (list A)) m n x :
  (m <= n)%nat -> In x (concat (firstn m gs)) -> In x (concat (firstn n gs)).
Proof.
  intros Hmn Hx.
  replace (firstn m gs) with (firstn m (firstn n gs)) in Hx by (rewrite firstn_firstn; f_equal; lia).
  rewrite (concat_firstn_skipn (firstn n gs) m). apply in_or_app. left. exact Hx.
Qed.

Lemma before_idx_le k gs r :
  nonempty_groups gs -> gap_free (concat gs) = true ->
  In r (concat (firstn (gfc_idx k gs) gs)) -> rid r <= k.
Proof.
  intros Hn Hg Hin. unfold gfc_idx in *.
  destruct (pass k gs) as [|[|q]] eqn:Ep; try (cbn in Hin; contradiction).
  cbn [Nat.pred] in Hin.
  assert (Hlen : (S q < length gs)%nat) by (pose proof (pass_le_length k gs); lia).
  pose proof (pass_first gs k (S q) ltac:(lia)) as Hf.
  rewrite (split_nth gs (S q) [] Hlen) in Hg.
  assert (Hne : nth (S q) gs [] <> []).
  { unfold nonempty_groups in Hn. rewrite Forall_forall in Hn. apply Hn. apply nth_In. exact Hlen. }
  destruct (nth (S q) gs []) as [|y g2] eqn:Ey; [congruence|].
  pose proof (before_group_lt _ _ _ _ r Hg Hin). cbn [gfirst] in Hf. lia.
Qed.

Lemma clean_skipn gs n : clean_shape gs -> (n < length gs)%nat -> clean_shape (skipn n gs).
Proof.
  intros [->|[Hne Hn]] Hl.
  - cbn [length] in Hl. replace n with 0%nat by lia. left. reflexivity.
  - right. split.
    + intros E. apply (f_equal (@length _)) in E. rewrite skipn_length in E. cbn in E. lia.
    + unfold nonempty_groups in *. rewrite <- (firstn_skipn n gs) in Hn. apply Forall_app in Hn. tauto.
Qed.

Lemma groups_valid_skipn gs n : groups_valid gs -> groups_valid (skipn n gs).
Proof. unfold groups_valid. intros H. rewrite <- (firstn_skipn n gs) in H. apply Forall_app in H. tauto. Qed.
Lemma groups_valid_firstn gs n : groups_valid gs -> groups_valid (firstn n gs).
Proof. unfold groups_valid. intros H. rewrite <- (firstn_skipn n gs) in H. apply Forall_app in H. tauto. Qed.

Lemma clean_init_nonempty gs : clean_shape gs -> init_nonempty gs.
Proof.
  intros [->|[Hne Hn]]; [exact I|].
  destruct (exists_last Hne) as (a & b & ->). apply init_nonempty_intro. apply Forall_app in Hn. tauto.
Qed.

Lemma trim_step maxsz l d acked s0 gs k :
  linv maxsz l d acked s0 gs ->
  let n := gfc_idx k gs in
  log_trim l d k = (0%Z, log_of (s0 + N.of_nat n) (skipn n gs) maxsz, dir_of (s0 + N.of_nat n) (skipn n gs) [],
                    flat_map unlink_pair (map fi_seq (infos_of s0 (firstn n gs)))).
Proof.
  intros Hinv n.
  assert (Hne : gs <> []) by (destruct (li_clean _ _ _ _ _ _ Hinv) as [->|[H _]]; [discriminate|assumption]).
  pose proof (gfc_idx_lt k gs Hne) as Hn. fold n in Hn.
  unfold log_trim. rewrite (li_log _ _ _ _ _ _ Hinv). rewrite gfc_log_of. fold n.
  rewrite delete_files_muts. cbn [fst snd app].
  change (lg_files (log_of s0 gs maxsz)) with (infos_of s0 gs).
  change (lg_cur (log_of s0 gs maxsz)) with (cur_of (s0 + N.of_nat (length gs) - 1) (last gs [])).
  change (lg_max (log_of s0 gs maxsz)) with maxsz.
  rewrite infos_firstn, infos_skipn.
  rewrite (li_fs _ _ _ _ _ _ Hinv).
  replace (dir_of s0 gs []) with (dir_of s0 (firstn n gs ++ skipn n gs) []) by (rewrite firstn_skipn; reflexivity).
  rewrite apply_unlinks_front.
  2:{ intros E. apply (f_equal (@length _)) in E. rewrite skipn_length in E. cbn in E. lia. }
  rewrite firstn_length, Nat.min_l by lia.
  unfold log_of. rewrite skipn_length, last_skipn by assumption.
  replace (s0 + N.of_nat n + N.of_nat (length gs - n) - 1) with (s0 + N.of_nat (length gs) - 1) by lia.
  reflexivity.
Qed.

Lemma trim_acked maxsz s0 gs k acked :
  clean_shape gs -> groups_valid gs -> gap_free (concat gs) = true -> concat gs = acked ->
  let n := gfc_idx k gs in
  acked_after (OTrim k) 0%Z acked (Some (log_of (s0 + N.of_nat n) (skipn n gs) maxsz)) = concat (skipn n gs).
Proof.
  intros Hc Hv Hg Ha n.
  assert (Hne : gs <> []) by (destruct Hc as [->|[H _]]; [discriminate|assumption]).
  pose proof (gfc_idx_lt k gs Hne) as Hn. fold n in Hn.
  cbn [acked_after].
  assert (Hg' : gap_free (concat (skipn n gs)) = true).
  { rewrite (concat_firstn_skipn gs n) in Hg. eapply gap_free_app_r. exact Hg. }
  pose proof (clean_log_observables maxsz (s0 + N.of_nat n) (skipn n gs) (clean_skipn gs n Hc Hn) (groups_valid_skipn gs n Hv) Hg') as Ho.
  rewrite (ob_first _ _ _ Ho).
  destruct (concat (skipn n gs)) as [|x B] eqn:E; [reflexivity|].
  cbn [first_of]. rewrite <- Ha, (concat_firstn_skipn gs n), E.
  apply filter_ge_run. rewrite <- E, <- concat_firstn_skipn. exact Hg.
Qed.

Lemma trim_linv maxsz l d acked s0 gs k :
  linv maxsz l d acked s0 gs ->
  let n := gfc_idx k gs in
  linv maxsz (log_of (s0 + N.of_nat n) (skipn n gs) maxsz) (dir_of (s0 + N.of_nat n) (skipn n gs) [])
       (concat (skipn n gs)) (s0 + N.of_nat n) (skipn n gs).
Proof.
  intros Hinv n.
  assert (Hne : gs <> []) by (destruct (li_clean _ _ _ _ _ _ Hinv) as [->|[H _]]; [discriminate|assumption]).
  pose proof (gfc_idx_lt k gs Hne) as Hn. fold n in Hn.
  split.
  - apply refresh_log_of.
  - reflexivity.
  - apply clean_skipn; [apply (li_clean _ _ _ _ _ _ Hinv)|assumption].
  - apply groups_valid_skipn, (li_valid _ _ _ _ _ _ Hinv).
  - pose proof (li_gf _ _ _ _ _ _ Hinv) as Hg. rewrite (concat_firstn_skipn gs n) in Hg. eapply gap_free_app_r. exact Hg.
  - reflexivity.
  - pose proof (li_room _ _ _ _ _ _ Hinv) as Hr. rewrite <- (li_acked _ _ _ _ _ _ Hinv), (concat_firstn_skipn gs n) in Hr.
    apply Forall_app in Hr. tauto.
Qed.

Lemma filter_app' {A} (f : A -> bool) a b : filter f (a ++ b) = filter f a ++ filter f b.
Proof. induction a as [|x a IH]; [reflexivity|]. cbn. destruct (f x); cbn; rewrite IH; reflexivity. Qed.

Lemma trim_crash maxsz l d acked s0 gs k j cut :
  linv maxsz l d acked s0 gs ->
  crash_ok repaired maxsz
    (crash_fs d (flat_map unlink_pair (map fi_seq (infos_of s0 (firstn (gfc_idx k gs) gs)))) j cut)
    (filter (fun r => k <? rid r) acked) acked.
Proof.
  intros Hinv. set (n := gfc_idx k gs).
  assert (Hne : gs <> []) by (destruct (li_clean _ _ _ _ _ _ Hinv) as [->|[H _]]; [discriminate|assumption]).
  pose proof (gfc_idx_lt k gs Hne) as Hn. fold n in Hn.
  pose proof (li_clean _ _ _ _ _ _ Hinv) as Hc. pose proof (li_valid _ _ _ _ _ _ Hinv) as Hv.
  pose proof (li_gf _ _ _ _ _ _ Hinv) as Hg. pose proof (li_acked _ _ _ _ _ _ Hinv) as Ha.
  rewrite (li_fs _ _ _ _ _ _ Hinv).
  assert (Hrest : skipn n gs <> []).
  { intros E. apply (f_equal (@length _)) in E. rewrite skipn_length in E. cbn in E. lia. }
  replace (dir_of s0 gs []) with (dir_of s0 (firstn n gs ++ skipn n gs) []) by (rewrite firstn_skipn; reflexivity).
  destruct (trim_crash_states (firstn n gs) (skipn n gs) s0 j cut Hrest) as (m & Hm & Em).
  rewrite Em. rewrite firstn_skipn. rewrite firstn_length, Nat.min_l in Hm by lia.
  assert (Hml : (m < length gs)%nat) by lia.
  assert (Hg' : gap_free (concat (skipn m gs)) = true).
  { rewrite (concat_firstn_skipn gs m) in Hg. eapply gap_free_app_r. exact Hg. }
  apply crash_ok_of_shape.
  - split; [apply groups_valid_skipn; exact Hv|]. split; [apply clean_init_nonempty, clean_skipn; assumption|].
    split; [exact Hg'|apply torn_tail_nil].
  - (* the records above k are all still there *)
    rewrite <- Ha, (concat_firstn_skipn gs m), filter_app'.
    assert (E0 : filter (fun r => k <? rid r) (concat (firstn m gs)) = []).
    { apply filter_none. intros x Hx. apply N.ltb_ge.
      destruct Hc as [Hc|[_ Hng]].
      - rewrite Hc in Hx. destruct m as [|[|m]]; cbn in Hx; contradiction.
      - apply (before_idx_le k gs x Hng Hg). fold n. eapply In_concat_firstn_mono; eassumption. }
    rewrite E0. cbn [app].
    destruct (filter_gt_suffix (concat (skipn m gs)) k Hg') as (q & ->).
    exists (firstn q (concat (skipn m gs))), []. rewrite app_nil_r, firstn_skipn. reflexivity.
  - exists (concat (firstn m gs)), []. rewrite app_nil_r, <- Ha. apply concat_firstn_skipn.
Qed.

(* ---------- Truncate: inside one file ---------- *)
Definition glast (g : list record) : N := match g with [] => 0 | r :: _ => rid (last g r) end.

Lemma cf_last_cur_of s g : cf_last (cur_of s g) = glast g.
Proof. destruct g; [reflexivity|]. rewrite cur_of_cons. reflexivity. Qed.
Lemma cf_seq_cur_of s g : cf_seq (cur_of s g) = s.
Proof. destruct g; [reflexivity|]. rewrite cur_of_cons. reflexivity. Qed.

Definition keep_le (k : N) (g : list record) : list record := filter (fun r => rid r <=? k) g.

Lemma keep_le_all k g : gap_free g = true -> glast g <= k -> keep_le k g = g.
Proof.
  intros Hg Hl. unfold keep_le. apply filter_all. intros x Hx. apply N.leb_le.
  destruct g as [|a g]; [contradiction|]. cbn [glast] in Hl.
  destruct (exists_last (l := a :: g) ltac:(discriminate)) as (P & z & E).
  rewrite E in *. rewrite last_last in Hl.
  apply in_app_or in Hx. destruct Hx as [Hx|[<-|[]]]; [|exact Hl].
  destruct (in_split _ _ Hx) as (A & B & EA). rewrite EA, <- app_assoc in Hg. apply gap_free_app_r in Hg.
  cbn [app] in Hg. pose proof (gap_free_lt_hd _ x z Hg ltac:(apply in_or_app; right; left; reflexivity)). lia.
Qed.

Lemma keep_le_none k g : gap_free g = true -> k < gfirst g -> g <> [] -> keep_le k g = [].
Proof.
  intros Hg Hk Hne. unfold keep_le. apply filter_none. intros x Hx. apply N.leb_gt.
  destruct g as [|a g]; [congruence|]. cbn [gfirst] in Hk.
  destruct Hx as [<-|Hx]; [exact Hk|]. pose proof (gap_free_lt_hd _ a x Hg Hx). lia.
Qed.

(* a gap-free run holds every id between its first and its last *)
Lemma run_has_id : forall g a k,
  gap_free (a :: g) = true -> rid a <= k -> k < rid (last (a :: g) a) ->
  exists A rk B, a :: g = A ++ rk :: B /\ rid rk = k /\ B <> [].
Proof.
  induction g as [|b g IH]; intros a k Hg Ha Hk; [cbn in Hk; lia|].
  destruct (N.eq_dec (rid a) k) as [E|Hne].
  - exists [], a, (b :: g). split; [reflexivity|]. split; [exact E|discriminate].
  - rewrite gap_free_cons2 in Hg. apply andb_true_iff in Hg. destruct Hg as [H1 H2]. apply N.eqb_eq in H1.
    change (last (a :: b :: g) a) with (last (b :: g) a) in Hk.
    rewrite (last_indep (b :: g) a b) in Hk by discriminate.
    destruct (IH b k H2 ltac:(lia) Hk) as (A & rk & B & E & Hr & HB).
    exists (a :: A), rk, B. split; [cbn [app]; rewrite E; reflexivity|]. split; assumption.
Qed.

Lemma offset_after_found : forall A rk B off,
  (forall x, In x A -> rid x <> rid rk) ->
  offset_after (map with_csum (A ++ rk :: B)) (rid rk) off = Some (off + blen (file_of (A ++ [rk]))).
Proof.
  induction A as [|a A IH]; intros rk B off Hn.
  - cbn [app map offset_after with_csum]. rewrite N.eqb_refl. f_equal.
    cbn [file_of flat_map]. rewrite app_nil_r. unfold blen. rewrite serialize_length. lia.
  - cbn [app map offset_after]. unfold with_csum at 1.
    assert (E : (rid a =? rid rk) = false) by (apply N.eqb_neq; apply Hn; left; reflexivity).
    rewrite E. rewrite IH by (intros x Hx; apply Hn; right; exact Hx).
    f_equal. change ((a :: A) ++ [rk]) with (a :: (A ++ [rk])). rewrite file_of_blen_cons. lia.
Qed.

Lemma fs_truncate_last gs0 s0 g' B :
  fs_upd (dir_of s0 (gs0 ++ [g' ++ B]) []) (s0 + N.of_nat (length gs0)) (firstn (N.to_nat (blen (file_of g'))))
  = dir_of s0 (gs0 ++ [g']) [].
Proof.
  rewrite (dir_of_last_bytes gs0 s0 (g' ++ B) [] g' (file_of B)).
  - apply fs_repair_dir.
  - rewrite file_of_app, app_nil_r. reflexivity.
Qed.

(* the mutations of logFile.Truncate when it cuts: ftruncate, then fsync of the same file (F25) *)
Definition tmuts (s o : N) : list mut := [MTruncate s o; MSync s].

(* logFile.Truncate on the (clean) last file: the file keeps exactly the records with id <= k *)
Lemma file_truncate_spec gs0 s0 g k ms :
  Forall valid_rec g -> gap_free g = true ->
  exists ms', 
    file_truncate repaired (cur_of (s0 + N.of_nat (length gs0)) g) k (dir_of s0 (gs0 ++ [g]) [], ms)
    = (0%Z, cur_of (s0 + N.of_nat (length gs0)) (keep_le k g), (dir_of s0 (gs0 ++ [keep_le k g]) [], ms ++ ms')) /\
    (ms' = [] \/ ms' = tmuts (s0 + N.of_nat (length gs0)) (blen (file_of (keep_le k g)))) /\
    (ms' = [] -> keep_le k g = g) /\
    (ms' <> [] -> blen (file_of (keep_le k g)) < blen (file_of g)).
Proof.
  intros Hv Hg. unfold file_truncate. cbn [fx_tsync repaired]. rewrite cf_last_cur_of.
  destruct (glast g <=? k) eqn:El.
  - apply N.leb_le in El. rewrite (keep_le_all k g Hg El). exists []. rewrite app_nil_r. repeat split; auto. intros H; congruence.
  - apply N.leb_gt in El. cbn [fst]. rewrite cf_seq_cur_of, fs_get_dir_last, app_nil_r, cf_first_cur_of.
    destruct g as [|a g]; [cbn in El; lia|]. cbn [glast gfirst] in *.
    destruct (k + 1 <=? rid a) eqn:Ef.
    + (* everything goes *)
      apply N.leb_le in Ef.
      assert (Hk : k < rid a) by lia.
      rewrite (keep_le_none k (a :: g) Hg Hk ltac:(discriminate)).
      assert (Elt : (k <? rid a) = true) by (apply N.ltb_lt; exact Hk). rewrite Elt.
      exists (tmuts (s0 + N.of_nat (length gs0)) 0).
      split; [|split; [right; reflexivity|split; [discriminate|]]].
      2:{ intros _. rewrite file_of_blen_cons. assert (E0 : blen (file_of []) = 0) by reflexivity. lia. }
      unfold emit, tmuts. cbn [fst snd apply_mut]. rewrite <- (app_assoc ms). cbn [app].
      pose proof (fs_truncate_last gs0 s0 [] (a :: g)) as Ht. unfold blen in Ht. cbn [app file_of flat_map length] in Ht.
      change (N.of_nat 0) with 0 in Ht. rewrite Ht. reflexivity.
    + (* cut after the record with id k *)
      apply N.leb_gt in Ef.
      destruct (run_has_id g a k Hg ltac:(lia) El) as (A & rk & B & E & Hrk & HB).
      assert (Hgf := Hg). rewrite E in Hgf.
      assert (HA : forall x, In x A -> rid x < rid rk).
      { intros x Hx. destruct (in_split _ _ Hx) as (A1 & A2 & EA). rewrite EA, <- app_assoc in Hgf.
        apply gap_free_app_r in Hgf. cbn [app] in Hgf.
        apply (gap_free_lt_hd _ x rk Hgf). apply in_or_app. right. left. reflexivity. }
      assert (Hkeep : keep_le k (a :: g) = A ++ [rk]).
      { rewrite E. unfold keep_le. change (A ++ rk :: B) with (A ++ [rk] ++ B). rewrite app_assoc, filter_app'.
        rewrite filter_all, filter_none.
        - apply app_nil_r.
        - intros x Hx. apply N.leb_gt. apply gap_free_app_r in Hgf. pose proof (gap_free_lt_hd _ rk x Hgf Hx). lia.
        - intros x Hx. apply N.leb_le. apply in_app_or in Hx. destruct Hx as [Hx|[<-|[]]]; [|lia].
          pose proof (HA x Hx). lia. }
      rewrite Hkeep.
      pose proof (parse_file_wf (a :: g) [] Hv torn_tail_nil) as Hp. rewrite app_nil_r in Hp. rewrite Hp.
      rewrite E, <- Hrk. rewrite offset_after_found by (intros x Hx; pose proof (HA x Hx); lia).
      rewrite N.add_0_l.
      assert (Elt : (rid rk <? rid a) = false) by (apply N.ltb_ge; lia). rewrite Elt.
      exists (tmuts (s0 + N.of_nat (length gs0)) (blen (file_of (A ++ [rk])))).
      split; [|split; [right; reflexivity|split; [discriminate|]]].
      2:{ intros _. destruct B as [|b0 B']; [congruence|].
          change (A ++ rk :: b0 :: B') with (A ++ [rk] ++ b0 :: B'). rewrite app_assoc.
          rewrite (file_of_app (A ++ [rk]) (b0 :: B')), blen_app, (file_of_blen_cons b0 B'). lia. }
      unfold emit, tmuts. cbn [fst snd apply_mut]. rewrite <- (app_assoc ms). cbn [app].
      change (A ++ rk :: B) with (A ++ [rk] ++ B). rewrite app_assoc.
      rewrite fs_truncate_last. f_equal. f_equal.
      rewrite cf_empty_cur_of.
      assert (Hne : A ++ [rk] <> []) by (destruct A; discriminate).
      destruct (A ++ [rk]) as [|x y] eqn:Ex; [congruence|].
      rewrite cur_of_cons. rewrite <- Ex.
      assert (Hx : x = a).
      { destruct A as [|a' A']; cbn [app] in E, Ex; inversion E; inversion Ex; subst; reflexivity. }
      subst x. rewrite Ex. cbn [app gempty]. f_equal. rewrite <- Ex, last_last. reflexivity.
Qed.

(* ---------- Truncate: deleting files from the back ---------- *)
Lemma back_seqs_snoc s D x :
  flat_map unlink_pair (rev (map fi_seq (infos_of s (D ++ [x]))))
  = unlink_pair (s + N.of_nat (length D)) ++ flat_map unlink_pair (rev (map fi_seq (infos_of s D))).
Proof. rewrite infos_app, map_app, rev_app_distr. reflexivity. Qed.

Lemma apply_unlinks_back : forall D K s0,
  K <> [] ->
  apply_muts (dir_of s0 (K ++ D) []) (flat_map unlink_pair (rev (map fi_seq (infos_of (s0 + N.of_nat (length K)) D))))
  = dir_of s0 K [].
Proof.
  induction D as [|x D IH] using rev_ind; intros K s0 HK.
  - cbn. rewrite app_nil_r. reflexivity.
  - rewrite back_seqs_snoc. cbn [unlink_pair app]. rewrite !apply_muts_cons. cbn [apply_mut].
    rewrite app_assoc.
    replace (s0 + N.of_nat (length K) + N.of_nat (length D)) with (s0 + N.of_nat (length (K ++ D))) by (rewrite app_length; lia).
    rewrite fs_del_dir_last by (destruct K; [congruence|discriminate]).
    apply IH. exact HK.
Qed.

Lemma trunc_crash_states : forall D K s0 j cut,
  K <> [] ->
  exists q, (q <= length D)%nat /\
    crash_fs (dir_of s0 (K ++ D) []) (flat_map unlink_pair (rev (map fi_seq (infos_of (s0 + N.of_nat (length K)) D)))) j cut
    = dir_of s0 (K ++ firstn q D) [].
Proof.
  induction D as [|x D IH] using rev_ind; intros K s0 j cut HK.
  - cbn [infos_of map rev flat_map]. rewrite crash_fs_nil. exists 0%nat. split; [cbn; lia|reflexivity].
  - rewrite back_seqs_snoc. cbn [unlink_pair app].
    assert (HKD : K ++ D <> []) by (destruct K; [congruence|discriminate]).
    destruct j as [|[|j]].
    + exists (length (D ++ [x])). split; [lia|]. rewrite firstn_all. unfold crash_fs. cbn [firstn nth_error].
      destruct cut; reflexivity.
    + exists (length D). split; [rewrite app_length; lia|]. unfold crash_fs. cbn [firstn nth_error].
      unfold apply_muts. cbn [fold_left apply_mut].
      rewrite app_assoc.
      replace (s0 + N.of_nat (length K) + N.of_nat (length D)) with (s0 + N.of_nat (length (K ++ D))) by (rewrite app_length; lia).
      rewrite fs_del_dir_last by assumption.
      rewrite firstn_app, firstn_all, Nat.sub_diag. cbn [firstn]. rewrite app_nil_r. destruct cut; reflexivity.
    + match goal with |- context [crash_fs ?d (?a :: ?b :: ?r) _ _] => change (a :: b :: r) with ([a; b] ++ r) end.
      rewrite crash_fs_app_ge by (cbn [length]; lia).
      unfold apply_muts at 1. cbn [fold_left apply_mut]. rewrite app_assoc.
      replace (s0 + N.of_nat (length K) + N.of_nat (length D)) with (s0 + N.of_nat (length (K ++ D))) by (rewrite app_length; lia).
      rewrite fs_del_dir_last by assumption.
      cbn [length Nat.sub]. rewrite ?Nat.sub_0_r.
      destruct (IH K s0 j cut HK) as (q & Hq & Eq).
      exists q. split; [rewrite app_length; lia|]. rewrite Eq.
      rewrite firstn_app. replace (q - length D)%nat with 0%nat by lia. cbn [firstn]. rewrite app_nil_r. reflexivity.
Qed.

Lemma firstn_S_nth {A} : forall (l : list A) n d, (n < length l)%nat -> firstn (S n) l = firstn n l ++ [nth n l d].
Proof.
  induction l as [|a l IH]; intros n d H; [cbn in H; lia|].
  destruct n as [|n]; [reflexivity|]. cbn [firstn nth app]. f_equal. apply IH. cbn [length] in H. lia.
Qed.

(* what Truncate does to a live log *)
Lemma truncate_step maxsz l d acked s0 gs k :
  linv maxsz l d acked s0 gs ->
  let n := gfc_idx k gs in
  let G := firstn n gs in
  let gn := nth n gs [] in
  let D := skipn (S n) gs in
  exists l' T,
    log_truncate repaired l d k
    = (0%Z, l', dir_of s0 (G ++ [keep_le k gn]) [],
       flat_map unlink_pair (rev (map fi_seq (infos_of (s0 + N.of_nat (S n)) D))) ++ T) /\
    refresh l' = log_of s0 (G ++ [keep_le k gn]) maxsz /\
    (T = [] \/ T = tmuts (s0 + N.of_nat n) (blen (file_of (keep_le k gn)))) /\
    (T = [] -> keep_le k gn = gn) /\
    (T <> [] -> blen (file_of (keep_le k gn)) < blen (file_of gn)).
Proof.
  intros Hinv n G gn D.
  assert (Hne : gs <> []) by (destruct (li_clean _ _ _ _ _ _ Hinv) as [->|[H _]]; [discriminate|assumption]).
  pose proof (gfc_idx_lt k gs Hne) as Hn. fold n in Hn.
  assert (Egs : gs = (G ++ [gn]) ++ D).
  { unfold G, gn, D. rewrite <- (firstn_S_nth gs n [] Hn). symmetry. apply firstn_skipn. }
  assert (HlenG : length G = n) by (unfold G; rewrite firstn_length; lia).
  pose proof (li_valid _ _ _ _ _ _ Hinv) as Hv.
  assert (Hvgn : Forall valid_rec gn).
  { unfold groups_valid in Hv. rewrite Forall_forall in Hv. apply Hv. unfold gn. apply nth_In. exact Hn. }
  assert (Hggn : gap_free gn = true).
  { pose proof (li_gf _ _ _ _ _ _ Hinv) as Hg. rewrite Egs, !concat_app in Hg. cbn [concat] in Hg. rewrite app_nil_r in Hg.
    apply gap_free_app_l in Hg. apply gap_free_app_r in Hg. exact Hg. }
  unfold log_truncate. rewrite (li_log _ _ _ _ _ _ Hinv). rewrite gfc_log_of. fold n.
  change (lg_files (log_of s0 gs maxsz)) with (infos_of s0 gs).
  change (lg_cur (log_of s0 gs maxsz)) with (cur_of (s0 + N.of_nat (length gs) - 1) (last gs [])).
  change (lg_max (log_of s0 gs maxsz)) with maxsz.
  rewrite infos_skipn, infos_firstn. fold D.
  rewrite (firstn_S_nth gs n [] Hn). fold G gn.
  rewrite delete_files_muts. cbn [fst snd app].
  rewrite (li_fs _ _ _ _ _ _ Hinv).
  assert (Hdir : apply_muts (dir_of s0 gs []) (flat_map unlink_pair (rev (map fi_seq (infos_of (s0 + N.of_nat (S n)) D))))
                 = dir_of s0 (G ++ [gn]) []).
  { rewrite Egs at 1.
    replace (s0 + N.of_nat (S n)) with (s0 + N.of_nat (length (G ++ [gn]))) by (rewrite app_length, HlenG; cbn [length]; lia).
    apply apply_unlinks_back. destruct G; discriminate. }
  rewrite Hdir.
  destruct (file_truncate_spec G s0 gn k (flat_map unlink_pair (rev (map fi_seq (infos_of (s0 + N.of_nat (S n)) D)))) Hvgn Hggn)
    as (T & Hft & HT & HT0 & HT1).
  assert (Hfin : forall cur', cur' = cur_of (s0 + N.of_nat (length G)) (keep_le k gn) ->
             refresh (mkLog (infos_of s0 (G ++ [gn])) cur' maxsz) = log_of s0 (G ++ [keep_le k gn]) maxsz).
  { intros cur' ->. unfold refresh, log_of. cbn [lg_files lg_cur lg_max].
    rewrite cf_first_cur_of, slf_infos, <- infos_app, last_last, app_length. cbn [length].
    replace (s0 + N.of_nat (length G + 1) - 1) with (s0 + N.of_nat (length G)) by lia. reflexivity. }
  destruct (infos_of (s0 + N.of_nat (S n)) D) as [|i0 irest] eqn:Einf.
  - (* no file deleted: the current file is the one to cut *)
    assert (HD : D = []) by (destruct D; [reflexivity|discriminate Einf]).
    assert (Hcur : cur_of (s0 + N.of_nat (length gs) - 1) (last gs []) = cur_of (s0 + N.of_nat (length G)) gn).
    { rewrite Egs, HD, app_nil_r, last_last, app_length. cbn [length]. f_equal. lia. }
    rewrite Hcur. cbn [map rev flat_map] in Hft |- *. rewrite Hft.
    eexists. exists T. split; [reflexivity|]. split; [apply Hfin; reflexivity|].
    split; [rewrite <- HlenG; exact HT|]. split; assumption.
  - rewrite <- Einf in *.
    assert (Hls : last_seq (infos_of s0 (G ++ [gn])) = s0 + N.of_nat (length G)) by apply last_seq_infos.
    rewrite Hls, open_rw_last_clean by assumption. rewrite Hft.
    destruct (infos_of (s0 + N.of_nat (S n)) D) eqn:E2; [discriminate Einf|]. rewrite <- E2.
    eexists. exists T. split; [reflexivity|]. split; [apply Hfin; reflexivity|].
    split; [rewrite <- HlenG; exact HT|]. split; assumption.
Qed.

(* ---------- Truncate: which records stay ---------- *)
Lemma after_idx_gt k gs r :
  clean_shape gs -> gap_free (concat gs) = true ->
  In r (concat (skipn (S (gfc_idx k gs)) gs)) -> k < rid r.
Proof.
  intros Hc Hg Hin. set (n := gfc_idx k gs) in *.
  destruct Hc as [->|[Hne Hng]]; [rewrite skipn_all2 in Hin by (cbn [length]; lia); contradiction|].
  pose proof (gfc_idx_lt k gs Hne) as Hn. fold n in Hn.
  unfold nonempty_groups in Hng. rewrite Forall_forall in Hng.
  destruct (Nat.eq_dec (pass k gs) 0) as [E0|E0].
  - (* k is below the first record of the log *)
    assert (En : n = 0%nat) by (unfold n, gfc_idx; rewrite E0; reflexivity).
    pose proof (pass_stop gs k ltac:(lia)) as Hs. rewrite E0 in Hs.
    rewrite En in Hin. destruct gs as [|g0 rest]; [congruence|]. cbn [nth skipn] in *.
    destruct g0 as [|y g0']; [exfalso; apply (Hng [] (or_introl eq_refl)); reflexivity|].
    cbn [gfirst] in Hs.
    pose proof (after_group_gt [] (y :: g0') rest y r Hg eq_refl Hin). lia.
  - assert (Ep : pass k gs = S n) by (unfold n, gfc_idx; lia).
    destruct (Nat.eq_dec (S n) (length gs)) as [El|El].
    { rewrite skipn_all2 in Hin by lia. contradiction. }
    assert (Hlt : (S n < length gs)%nat) by lia.
    pose proof (pass_stop gs k ltac:(lia)) as Hs. rewrite Ep in Hs.
    rewrite (split_nth gs (S n) [] Hlt) in Hg.
    assert (Hsk : skipn (S n) gs = nth (S n) gs [] :: skipn (S (S n)) gs).
    { rewrite (split_nth gs (S n) [] Hlt) at 1. rewrite skipn_app, skipn_all2 by (rewrite firstn_length; lia).
      rewrite firstn_length, Nat.min_l by lia. rewrite Nat.sub_diag. reflexivity. }
    rewrite Hsk in Hin. cbn [concat] in Hin.
    assert (Hnn : nth (S n) gs [] <> []) by (apply Hng, nth_In; exact Hlt).
    destruct (nth (S n) gs []) as [|y g'] eqn:Ey; [congruence|]. cbn [gfirst] in Hs.
    cbn [app] in Hin. destruct Hin as [<-|Hin]; [exact Hs|].
    rewrite concat_app in Hg. cbn [concat] in Hg. apply gap_free_app_r in Hg. cbn [app] in Hg.
    pose proof (gap_free_lt_hd _ y r Hg Hin). lia.
Qed.

Lemma truncate_facts k gs :
  clean_shape gs -> gap_free (concat gs) = true ->
  let n := gfc_idx k gs in
  filter (fun r => rid r <=? k) (concat gs) = concat (firstn n gs) ++ keep_le k (nth n gs []) /\
  exists restgn, nth n gs [] = keep_le k (nth n gs []) ++ restgn.
Proof.
  intros Hc Hg n.
  assert (Hne : gs <> []) by (destruct Hc as [->|[H _]]; [discriminate|assumption]).
  pose proof (gfc_idx_lt k gs Hne) as Hn. fold n in Hn.
  assert (Hggn : gap_free (nth n gs []) = true).
  { rewrite (split_nth gs n [] Hn) in Hg. rewrite concat_app in Hg. cbn [concat] in Hg.
    apply gap_free_app_r in Hg. apply gap_free_app_l in Hg. exact Hg. }
  split.
  - rewrite (split_nth gs n [] Hn) at 1. rewrite concat_app. cbn [concat]. rewrite !filter_app'.
    rewrite (filter_all _ (concat (firstn n gs))).
    + rewrite (filter_none _ (concat (skipn (S n) gs))); [rewrite app_nil_r; reflexivity|].
      intros x Hx. apply N.leb_gt. apply (after_idx_gt k gs x Hc Hg). exact Hx.
    + intros x Hx. apply N.leb_le. destruct Hc as [Hc|[_ Hng]].
      * rewrite Hc in Hx. destruct n as [|[|n']]; cbn in Hx; contradiction.
      * apply (before_idx_le k gs x Hng Hg). exact Hx.
  - unfold keep_le. destruct (filter_le_prefix (nth n gs []) k Hggn) as (q & ->).
    exists (skipn q (nth n gs [])). symmetry. apply firstn_skipn.
Qed.

Lemma clean_firstn gs m : clean_shape gs -> (0 < m)%nat -> clean_shape (firstn m gs).
Proof.
  intros [->|[Hne Hn]] Hm.
  - destruct m; [lia|]. left. destruct m; reflexivity.
  - right. split.
    + destruct gs; [congruence|]. destruct m; [lia|]. discriminate.
    + unfold nonempty_groups in *. rewrite <- (firstn_skipn m gs) in Hn. apply Forall_app in Hn. tauto.
Qed.

Lemma truncate_linv maxsz l d acked s0 gs k l' :
  linv maxsz l d acked s0 gs ->
  let n := gfc_idx k gs in
  let gs' := firstn n gs ++ [keep_le k (nth n gs [])] in
  refresh l' = log_of s0 gs' maxsz ->
  linv maxsz l' (dir_of s0 gs' []) (filter (fun r => rid r <=? k) acked) s0 gs'.
Proof.
  intros Hinv n gs' Hl'.
  pose proof (li_clean _ _ _ _ _ _ Hinv) as Hc. pose proof (li_gf _ _ _ _ _ _ Hinv) as Hg.
  pose proof (li_valid _ _ _ _ _ _ Hinv) as Hv. pose proof (li_acked _ _ _ _ _ _ Hinv) as Ha.
  assert (Hne : gs <> []) by (destruct Hc as [->|[H _]]; [discriminate|assumption]).
  pose proof (gfc_idx_lt k gs Hne) as Hn. fold n in Hn.
  destruct (truncate_facts k gs Hc Hg) as [Hf (restgn & Hrest)]. fold n in Hf, Hrest.
  assert (Hcat : concat gs' = filter (fun r => rid r <=? k) acked).
  { unfold gs'. rewrite concat_app. cbn [concat]. rewrite app_nil_r, <- Ha. symmetry. exact Hf. }
  split.
  - exact Hl'.
  - reflexivity.
  - unfold gs'. destruct (keep_le k (nth n gs [])) as [|x y] eqn:Ek.
    + (* the kept file is emptied: it must be the first one *)
      left. destruct n as [|n'] eqn:En; [reflexivity|]. exfalso.
      destruct Hc as [Hc|[_ Hng]]; [rewrite Hc in Hn; cbn in Hn; lia|].
      assert (Hp : pass k gs = S (S n')) by (unfold n, gfc_idx in En; lia).
      pose proof (pass_first gs k (S n') ltac:(lia)) as Hfirst.
      unfold nonempty_groups in Hng. rewrite Forall_forall in Hng.
      assert (Hnn : nth (S n') gs [] <> []) by (apply Hng, nth_In; lia).
      destruct (nth (S n') gs []) as [|z g'] eqn:Ez; [congruence|].
      cbn [gfirst] in Hfirst. unfold keep_le in Ek. cbn [filter] in Ek.
      assert (Ezk : (rid z <=? k) = true) by (apply N.leb_le; exact Hfirst). rewrite Ezk in Ek. discriminate Ek.
    + right. split; [destruct (firstn n gs); discriminate|].
      apply Forall_app. split; [|constructor; [discriminate|constructor]].
      destruct Hc as [Hc|[_ Hng]].
      * assert (En0 : n = 0%nat) by (rewrite Hc in Hn; cbn [length] in Hn; lia). rewrite En0. constructor.
      * unfold nonempty_groups in *. rewrite <- (firstn_skipn n gs) in Hng. apply Forall_app in Hng. tauto.
  - unfold gs'. apply Forall_app. split; [apply groups_valid_firstn; exact Hv|].
    constructor; [|constructor]. apply Forall_filter'.
    unfold groups_valid in Hv. rewrite Forall_forall in Hv. apply Hv, nth_In. exact Hn.
  - rewrite Hcat. rewrite <- Ha. apply (gap_free_truncate (concat gs) k). exact Hg.
  - exact Hcat.
  - apply Forall_filter'. apply (li_room _ _ _ _ _ _ Hinv).
Qed.

(* ---------- Truncate: crash states ---------- *)
Lemma crash_fs_app_le d U T j cut :
  (j <= length U)%nat -> (T = [] \/ exists s o r, T = MTruncate s o :: r) ->
  crash_fs d (U ++ T) j cut = crash_fs d U j cut.
Proof.
  intros Hj HT. unfold crash_fs.
  rewrite firstn_app. replace (j - length U)%nat with 0%nat by lia. cbn [firstn]. rewrite app_nil_r.
  destruct (Nat.eq_dec j (length U)) as [->|Hne].
  - assert (E1 : nth_error U (length U) = None) by (apply nth_error_None; lia). rewrite E1.
    rewrite nth_error_app2, Nat.sub_diag by lia.
    destruct HT as [->|(s & o & r & ->)]; destruct cut; reflexivity.
  - rewrite nth_error_app1 by lia. reflexivity.
Qed.

Lemma firstn_app_exact2 {A} (K D : list A) q : firstn (length K + q) (K ++ D) = K ++ firstn q D.
Proof. rewrite firstn_app, firstn_all2 by lia. replace (length K + q - length K)%nat with q by lia. reflexivity. Qed.

Lemma truncate_crash maxsz l d acked s0 gs k j cut :
  linv maxsz l d acked s0 gs ->
  (j <= length (snd (log_truncate repaired l d k)))%nat ->
  crash_ok repaired maxsz (crash_fs d (snd (log_truncate repaired l d k)) j cut)
    (filter (fun r => rid r <=? k) acked) acked.
Proof.
  intros Hinv Hj.
  destruct (truncate_step maxsz l d acked s0 gs k Hinv) as (l' & T & Estep & _ & HT & HT0 & _).
  rewrite Estep in *. cbn [snd] in *. clear Estep.
  set (n := gfc_idx k gs) in *. set (G := firstn n gs) in *. set (gn := nth n gs []) in *.
  set (D := skipn (S n) gs) in *.
  set (U := flat_map unlink_pair (rev (map fi_seq (infos_of (s0 + N.of_nat (S n)) D)))) in *.
  pose proof (li_clean _ _ _ _ _ _ Hinv) as Hc. pose proof (li_gf _ _ _ _ _ _ Hinv) as Hg.
  pose proof (li_valid _ _ _ _ _ _ Hinv) as Hv. pose proof (li_acked _ _ _ _ _ _ Hinv) as Ha.
  assert (Hne : gs <> []) by (destruct Hc as [->|[H _]]; [discriminate|assumption]).
  pose proof (gfc_idx_lt k gs Hne) as Hn. fold n in Hn.
  assert (Egs : gs = (G ++ [gn]) ++ D).
  { unfold G, gn, D. rewrite <- (firstn_S_nth gs n [] Hn). symmetry. apply firstn_skipn. }
  assert (HlenK : length (G ++ [gn]) = S n).
  { rewrite app_length. unfold G. rewrite firstn_length. cbn [length]. lia. }
  destruct (truncate_facts k gs Hc Hg) as [Hf (restgn & Hrest)]. fold n G gn in Hf, Hrest.
  rewrite (li_fs _ _ _ _ _ _ Hinv).
  assert (HTT : T = [] \/ exists s o r, T = MTruncate s o :: r).
  { destruct HT as [-> | ->]; [left; reflexivity|right; unfold tmuts; eauto]. }
  destruct (Nat.le_gt_cases j (length U)) as [Hle|Hgt].
  - (* while (or before) the files after the kept one are deleted, from the back *)
    rewrite crash_fs_app_le by assumption.
    assert (HK : G ++ [gn] <> []) by (destruct G; discriminate).
    pose proof (trunc_crash_states D (G ++ [gn]) s0 j cut HK) as Hst.
    rewrite HlenK in Hst. fold U in Hst. rewrite <- Egs in Hst.
    destruct Hst as (q & Hq & Eq). rewrite Eq.
    assert (Em : (G ++ [gn]) ++ firstn q D = firstn (S n + q) gs).
    { rewrite Egs at 1. rewrite <- HlenK. symmetry. apply firstn_app_exact2. }
    rewrite Em.
    apply crash_ok_of_shape.
    + split; [apply groups_valid_firstn; exact Hv|]. split; [apply clean_init_nonempty, clean_firstn; [exact Hc|lia]|].
      split; [|apply torn_tail_nil].
      rewrite (concat_firstn_skipn gs (S n + q)) in Hg. eapply gap_free_app_l. exact Hg.
    + exists [], (restgn ++ concat (firstn q D)). rewrite <- Em, <- Ha, Hf.
      rewrite !concat_app. cbn [concat app]. rewrite app_nil_r. rewrite Hrest at 1. rewrite <- !app_assoc. reflexivity.
    + exists [], (concat (skipn (S n + q) gs)). cbn [app]. rewrite <- Ha. apply concat_firstn_skipn.
  - (* after the cut inside the kept file: the final state *)
    destruct HT as [->|ET]; [rewrite app_nil_r in Hj; lia|].
    assert (Hj2 : j = S (length U) \/ j = S (S (length U))) by (rewrite ET, app_length in Hj; cbn [length tmuts] in Hj; lia).
    rewrite crash_fs_app_ge by lia.
    assert (HU : apply_muts (dir_of s0 gs []) U = dir_of s0 (G ++ [gn]) []).
    { rewrite Egs at 1. unfold U. rewrite <- HlenK. apply apply_unlinks_back. destruct G; discriminate. }
    rewrite HU.
    assert (Hx : forall (X : fs), (match cut with Some _ => X | None => X end) = X) by (intros; destruct cut; reflexivity).
    assert (Est : crash_fs (dir_of s0 (G ++ [gn]) []) T (j - length U) cut
                  = apply_mut (dir_of s0 (G ++ [gn]) []) (MTruncate (s0 + N.of_nat n) (blen (file_of (keep_le k gn))))).
    { rewrite ET. unfold tmuts, crash_fs.
      destruct Hj2 as [-> | ->].
      - replace (S (length U) - length U)%nat with 1%nat by lia. cbn [firstn nth_error]. rewrite Hx. reflexivity.
      - replace (S (S (length U)) - length U)%nat with 2%nat by lia. cbn [firstn nth_error]. rewrite Hx. reflexivity. }
    rewrite Est. cbn [apply_mut].
    assert (HlenG : length G = n) by (unfold G; rewrite firstn_length; lia).
    rewrite <- HlenG. rewrite Hrest at 1. rewrite fs_truncate_last.
    pose proof (truncate_linv maxsz l d acked s0 gs k (log_of s0 (G ++ [keep_le k gn]) maxsz) Hinv (refresh_log_of _ _ _)) as Hinv'.
    fold n G gn in Hinv'.
    apply crash_ok_of_shape.
    + eapply linv_crash_shape. exact Hinv'.
    + exists [], []. rewrite app_nil_r. cbn [app]. apply (li_acked _ _ _ _ _ _ Hinv').
    + rewrite (li_acked _ _ _ _ _ _ Hinv').
      pose proof (li_room _ _ _ _ _ _ Hinv) as _.
      destruct (filter_le_prefix acked k ltac:(rewrite <- Ha; exact Hg)) as (q & ->).
      exists [], (skipn q acked). cbn [app]. symmetry. apply firstn_skipn.
Qed.

(* ---------- all four operations ---------- *)
Lemma step_good_all maxsz lv op :
  0 < maxsz -> good maxsz lv -> valid_op op -> good maxsz (step_live repaired maxsz lv op).
Proof.
  intros Hm Hg Hv.
  destruct op as [recs|k|k|]; try (apply step_good; try assumption; exact I).
  - (* Truncate *)
    destruct Hg as [->|(l & s0 & gs & Hl & Hinv)]; [left; reflexivity|].
    destruct lv as [ol d acked]. cbn [lv_log lv_fs lv_acked] in *. subst ol.
    right. unfold step_live, op_run. cbn [lv_log lv_fs lv_acked].
    destruct (truncate_step maxsz l d acked s0 gs k Hinv) as (l' & T & Estep & Hl' & _ & _).
    rewrite Estep. cbn [acked_after lv_log lv_fs lv_acked].
    do 3 eexists. split; [reflexivity|]. eapply truncate_linv; eassumption.
  - (* Trim *)
    destruct Hg as [->|(l & s0 & gs & Hl & Hinv)]; [left; reflexivity|].
    destruct lv as [ol d acked]. cbn [lv_log lv_fs lv_acked] in *. subst ol.
    right. unfold step_live, op_run. cbn [lv_log lv_fs lv_acked].
    rewrite (trim_step maxsz l d acked s0 gs k Hinv).
    cbn [lv_log lv_fs lv_acked].
    rewrite (trim_acked maxsz s0 gs k acked (li_clean _ _ _ _ _ _ Hinv) (li_valid _ _ _ _ _ _ Hinv)
               (li_gf _ _ _ _ _ _ Hinv) (li_acked _ _ _ _ _ _ Hinv)).
    do 3 eexists. split; [reflexivity|]. eapply trim_linv. exact Hinv.
Qed.

Lemma crash_good_all maxsz lv op j cut :
  0 < maxsz -> good maxsz lv -> valid_op op ->
  let '(_, _, _, ms) := op_run repaired maxsz lv op in
  (j <= length ms)%nat -> cut_ok ms j cut ->
  crash_ok repaired maxsz (crash_fs (lv_fs lv) ms j cut) (must_of op (lv_acked lv)) (may_of op (lv_acked lv)).
Proof.
  intros Hm Hg Hv.
  destruct op as [recs|k|k|]; try (apply crash_good; try assumption; exact I).
  - (* Truncate *)
    destruct Hg as [->|(l & s0 & gs & Hl & Hinv)].
    + cbn [op_run lv_log lv_fs lv_acked must_of may_of filter]. intros _ _. rewrite crash_fs_nil.
      apply (crash_ok_of_shape maxsz 0 [] [] [] []).
      * split; [constructor|]. split; [exact I|]. split; [reflexivity|apply torn_tail_nil].
      * exists [], []. reflexivity.
      * exists [], []. reflexivity.
    + destruct lv as [ol d acked]. cbn [lv_log lv_fs lv_acked] in *. subst ol.
      cbn [op_run lv_log lv_fs lv_acked must_of may_of].
      pose proof (truncate_crash maxsz l d acked s0 gs k j cut Hinv) as H.
      destruct (log_truncate repaired l d k) as [[[rc l'] d'] ms]. cbn [snd] in H. intros Hj _. apply H. exact Hj.
  - (* Trim *)
    destruct Hg as [->|(l & s0 & gs & Hl & Hinv)].
    + cbn [op_run lv_log lv_fs lv_acked must_of may_of filter]. intros _ _. rewrite crash_fs_nil.
      apply (crash_ok_of_shape maxsz 0 [] [] [] []).
      * split; [constructor|]. split; [exact I|]. split; [reflexivity|apply torn_tail_nil].
      * exists [], []. reflexivity.
      * exists [], []. reflexivity.
    + destruct lv as [ol d acked]. cbn [lv_log lv_fs lv_acked] in *. subst ol.
      cbn [op_run lv_log lv_fs lv_acked must_of may_of].
      rewrite (trim_step maxsz l d acked s0 gs k Hinv). intros _ _.
      eapply trim_crash. exact Hinv.
Qed.

Lemma run_good_all maxsz : forall ops lv,
  0 < maxsz -> good maxsz lv -> Forall valid_op ops ->
  good maxsz (fold_left (step_live repaired maxsz) ops lv).
Proof.
  induction ops as [|op ops IH]; intros lv Hm Hg Hv; [exact Hg|].
  inversion Hv; subst. cbn [fold_left]. apply IH; try assumption. apply step_good_all; assumption.
Qed.

(* crash atomicity of the repaired model, every scenario of Append, Truncate, Trim and Close/Open *)
Theorem crash_atomic_all :
  forall (maxsz : N) (ops : list wal_op) (i j : nat) (cut : option N),
    0 < maxsz -> Forall valid_op ops -> crash_atomic_at repaired maxsz ops i j cut.
Proof.
  intros maxsz ops i j cut Hm Hv. unfold crash_atomic_at.
  destruct (nth_error ops i) as [op|] eqn:En; [|exact I].
  assert (Hg : good maxsz (run_ops repaired maxsz (firstn i ops))).
  { unfold run_ops. apply run_good_all; try assumption.
    - left. reflexivity.
    - apply Forall_firstn'. assumption. }
  assert (Hvo : valid_op op) by (rewrite Forall_forall in Hv; apply Hv; eapply nth_error_In; eassumption).
  exact (crash_good_all maxsz _ op j cut Hm Hg Hvo).
Qed.

(* ---------- without crashes: the live log always shows exactly the acknowledged records ---------- *)
Lemma slf_length : forall l v, length (set_last_first l v) = length l.
Proof.
  induction l as [|a l IH]; intros v; [reflexivity|]. destruct l as [|b l]; [reflexivity|].
  change (set_last_first (a :: b :: l) v) with (a :: set_last_first (b :: l) v). cbn [length]. rewrite IH. reflexivity.
Qed.

Lemma refresh_idem l : refresh (refresh l) = refresh l.
Proof. unfold refresh. cbn [lg_files lg_cur lg_max]. rewrite slf_slf. reflexivity. Qed.

Lemma linv_observables maxsz l d acked s0 gs :
  linv maxsz l d acked s0 gs -> observables_ok l d acked.
Proof.
  intros Hinv.
  pose proof (clean_log_observables maxsz s0 gs (li_clean _ _ _ _ _ _ Hinv) (li_valid _ _ _ _ _ _ Hinv) (li_gf _ _ _ _ _ _ Hinv)) as Ho.
  rewrite (li_acked _ _ _ _ _ _ Hinv), <- (li_fs _ _ _ _ _ _ Hinv), <- (li_log _ _ _ _ _ _ Hinv) in Ho.
  destruct Ho as [Hi Hf Hl Ha]. split.
  - unfold log_iterate, gfc in *. rewrite !refresh_idem in Hi. rewrite !refresh_idem. exact Hi.
  - unfold first_id in *. rewrite refresh_idem in Hf. exact Hf.
  - unfold last_id, single_empty in *. unfold refresh in Hl. cbn [lg_files lg_cur] in Hl. rewrite slf_length in Hl. exact Hl.
  - intros id Hid. specialize (Ha id Hid). rewrite append_accepts_spec in * by assumption.
    unfold refresh in Ha. cbn [lg_cur] in Ha. exact Ha.
Qed.

Theorem live_observables_all :
  forall (maxsz : N) (ops : list wal_op),
    0 < maxsz -> Forall valid_op ops ->
    let lv := run_ops repaired maxsz (OReopen :: ops) in
    exists l, lv_log lv = Some l /\ observables_ok l (lv_fs lv) (lv_acked lv).
Proof.
  intros maxsz ops Hm Hv lv.
  assert (Hg : good maxsz lv).
  { unfold lv, run_ops. apply run_good_all; try assumption; [left; reflexivity|]. constructor; [exact I|assumption]. }
  assert (Hnot : lv <> mkLive None [] []).
  { unfold lv, run_ops. cbn [fold_left]. unfold step_live at 2. cbn [op_run lv_log lv_fs lv_acked].
    rewrite open_log_empty_dir. cbn [acked_after].
    assert (G : forall ops' lv', (exists l, lv_log lv' = Some l) -> Forall valid_op ops' -> good maxsz lv' ->
               exists l, lv_log (fold_left (step_live repaired maxsz) ops' lv') = Some l).
    { induction ops' as [|op ops' IH]; intros lv' Hl Hv' Hg'; [exact Hl|].
      inversion Hv'; subst. cbn [fold_left]. apply IH; try assumption.
      - pose proof (step_good_all maxsz lv' op Hm Hg' H1) as Hg2.
        destruct Hg2 as [E|(l2 & _ & _ & Hl2 & _)]; [|eauto].
        destruct Hl as (l0 & Hl0).
        destruct Hg' as [E'|(l1 & s1 & gs1 & Hl1 & Hinv1)]; [rewrite E' in Hl0; discriminate|].
        exfalso. clear IH.
        destruct lv' as [ol d acked]. cbn [lv_log lv_fs lv_acked] in *. subst ol.
        unfold step_live, op_run in E. cbn [lv_log lv_fs lv_acked] in E.
        destruct op as [recs|k|k|]; cbn [lv_log lv_fs lv_acked] in E.
        + destruct (log_append repaired l0 d (map to_wire recs)) as [[[rc l'] d'] ms]. apply (f_equal lv_log) in E. cbn [lv_log] in E. discriminate E.
        + destruct (log_truncate repaired l0 d k) as [[[rc l'] d'] ms]. apply (f_equal lv_log) in E. cbn [lv_log] in E. discriminate E.
        + destruct (log_trim l0 d k) as [[[rc l'] d'] ms]. apply (f_equal lv_log) in E. cbn [lv_log] in E. discriminate E.
        + rewrite (li_fs _ _ _ _ _ _ Hinv1) in E.
          rewrite open_log_clean in E by (apply (li_clean _ _ _ _ _ _ Hinv1) || apply (li_valid _ _ _ _ _ _ Hinv1)).
          apply (f_equal lv_log) in E. cbn [lv_log] in E. discriminate E.
      - apply step_good_all; assumption. }
    destruct (G ops (mkLive (Some (log_of 0 [[]] maxsz)) (dir_of 0 [[]] []) [])) as (l & Hl).
    - eexists. reflexivity.
    - assumption.
    - right. exists (log_of 0 [[]] maxsz), 0, [[]]. split; [reflexivity|apply linv_initial].
    - intros E. rewrite E in Hl. discriminate Hl. }
  destruct Hg as [E|(l & s0 & gs & Hl & Hinv)]; [congruence|].
  exists l. split; [exact Hl|]. eapply linv_observables. exact Hinv.
Qed.
