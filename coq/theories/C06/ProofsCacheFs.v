(* C06/ProofsCacheFs.v — walCache over the file-system log (repaired model): composing the refinement theorem
   (ProofsRefine) with the cache invariant (ProofsCache) through the abstract log. *)
From Coq Require Import List NArith ZArith Bool Lia ZifyN ZifyNat ZifyBool.
From BLB Require Import Lib.CRC Lib.CRCFast Gen.Consts C06.Model C06.Spec C06.Proofs C06.ProofsRecover C06.ProofsCrash
  C06.ProofsCache C06.ProofsTrim C06.ProofsRefine.
Import ListNotations.
Open Scope N_scope.

Lemma wire_rec_to_wire r : wire_rec (to_wire r) = r.
Proof. destruct r as [id data]. unfold wire_rec, to_wire. cbn [fst snd rid rdata]. rewrite rle_expand_lit. reflexivity. Qed.

(* the reference log accepts what the abstract log accepts *)
Lemma mem_append_accepts : forall recs acked,
  Forall id_room acked -> Forall id_room recs -> spec_accepts acked recs = true ->
  mem_append acked (map to_wire recs) = (0%Z, acked ++ recs).
Proof.
  induction recs as [|r0 rest IH]; intros acked Hra Hrr Hacc.
  - cbn. rewrite app_nil_r. reflexivity.
  - inversion Hrr as [|? ? Hr0 Hrest]; subst.
    unfold spec_accepts in Hacc. apply andb_true_iff in Hacc. destruct Hacc as [Hgf Hhead].
    assert (Hnext : spec_accepts (acked ++ [r0]) rest = true).
    { destruct rest as [|r1 rest']; [reflexivity|]. unfold spec_accepts.
      rewrite gap_free_cons2 in Hgf. apply andb_true_iff in Hgf. destruct Hgf as [H1 H2]. rewrite H2. cbn [andb].
      destruct (acked ++ [r0]) as [|a t] eqn:E; [destruct acked; discriminate E|].
      rewrite <- E, last_last. exact H1. }
    assert (Hroom' : Forall id_room (acked ++ [r0])).
    { apply Forall_app. split; [assumption|]. constructor; [assumption|constructor]. }
    cbn [map mem_append]. unfold to_wire at 1.
    change (mkRec (rid r0) (rle_expand (map (fun x : byte => (1, x)) (rdata r0)))) with (wire_rec (to_wire r0)).
    rewrite wire_rec_to_wire.
    destruct acked as [|a acked'].
    + rewrite (IH [r0] ltac:(constructor; [assumption|constructor]) Hrest Hnext). reflexivity.
    + apply N.eqb_eq in Hhead.
      assert (Hin : In (last (a :: acked') a) (a :: acked')).
      { destruct (exists_last (l := a :: acked') ltac:(discriminate)) as (p & q & E). rewrite E, last_last.
        apply in_or_app. right. left. reflexivity. }
      rewrite Forall_forall in Hra. pose proof (Hra _ Hin) as Hl. unfold id_room in Hl.
      rewrite N.mod_small by exact Hl.
      assert (E : (rid r0 =? rid (last (a :: acked') a) + 1) = true) by (apply N.eqb_eq; lia).
      rewrite E. rewrite (IH ((a :: acked') ++ [r0]) Hroom' Hrest Hnext). rewrite <- app_assoc. reflexivity.
Qed.

Section CacheOverFs.
Variable maxsz : N.
Hypothesis maxsz_pos : 0 < maxsz.

(* one operation on walCache over the fs log, as Model.step does it; None = Append error (raft stops) *)
Definition cfs_step (st : cache * live) (op : wal_op) : option (cache * live) :=
  let '(c, lv) := st in
  let rc := fst (fst (fst (op_run repaired maxsz lv op))) in
  match op with
  | OAppend recs =>
    if (rc =? 0)%Z then Some (cache_fill c (map to_wire recs), step_live repaired maxsz lv op) else None
  | _ => Some (cache_new (cache_cap c), step_live repaired maxsz lv op)
  end.

Fixpoint cfs_run (st : cache * live) (ops : list wal_op) : option (cache * live) :=
  match ops with
  | [] => Some st
  | op :: r => match cfs_step st op with Some st' => cfs_run st' r | None => None end
  end.

Definition cfs_inv (cap : N) (st : cache * live) : Prop :=
  (exists l s0 gs, lv_log (snd st) = Some l /\ linv maxsz l (lv_fs (snd st)) (lv_acked (snd st)) s0 gs) /\
  exists suf, cinv cap (fst st) (lv_acked (snd st)) suf.

Lemma cfs_step_inv cap st op st' :
  cfs_inv cap st -> valid_op op -> cfs_step st op = Some st' -> cfs_inv cap st'.
Proof.
  intros [(l & s0 & gs & Hl & Hinv) (suf & Hc)] Hvo Hstep.
  destruct st as [c lv]. cbn [fst snd] in *.
  assert (Hgood : good maxsz lv) by (right; exists l, s0, gs; split; assumption).
  pose proof (step_good_all maxsz lv op maxsz_pos Hgood Hvo) as Hg'.
  (* the new state still has a log *)
  assert (Hlinv' : exists l' s0' gs', lv_log (step_live repaired maxsz lv op) = Some l' /\
            linv maxsz l' (lv_fs (step_live repaired maxsz lv op)) (lv_acked (step_live repaired maxsz lv op)) s0' gs').
  { destruct Hg' as [E|H]; [|exact H]. exfalso.
    destruct lv as [ol d acked]. cbn [lv_log lv_fs lv_acked] in *. subst ol.
    unfold step_live, op_run in E. cbn [lv_log lv_fs lv_acked] in E.
    destruct op as [recs|k|k|].
    - destruct (log_append repaired l d (map to_wire recs)) as [[[rc l'] d'] ms]. apply (f_equal lv_log) in E. discriminate E.
    - destruct (log_truncate repaired l d k) as [[[rc l'] d'] ms]. apply (f_equal lv_log) in E. discriminate E.
    - destruct (log_trim l d k) as [[[rc l'] d'] ms]. apply (f_equal lv_log) in E. discriminate E.
    - rewrite (li_fs _ _ _ _ _ _ Hinv) in E.
      rewrite open_log_clean in E by (apply (li_clean _ _ _ _ _ _ Hinv) || apply (li_valid _ _ _ _ _ _ Hinv)).
      apply (f_equal lv_log) in E. discriminate E. }
  pose proof (cache_cap_eq _ _ _ _ Hc) as Hcap.
  assert (Hreset : forall lv2, (exists l' s0' gs', lv_log lv2 = Some l' /\ linv maxsz l' (lv_fs lv2) (lv_acked lv2) s0' gs') ->
             cfs_inv cap (cache_new cap, lv2)).
  { intros lv2 H. split; [exact H|]. cbn [fst snd]. exists [].
    destruct H as (l2 & s2 & gs2 & _ & Hinv2).
    apply cinv_reset; [apply (ci_pos _ _ _ _ Hc)|].
    rewrite <- (li_acked _ _ _ _ _ _ Hinv2). apply (li_gf _ _ _ _ _ _ Hinv2). }
  destruct op as [recs|k|k|]; cbn [cfs_step] in Hstep.
  - (* Append *)
    destruct ((fst (fst (fst (op_run repaired maxsz lv (OAppend recs)))) =? 0)%Z) eqn:Erc; [|discriminate Hstep].
    injection Hstep as <-. apply Z.eqb_eq in Erc.
    split; [exact Hlinv'|]. cbn [fst snd].
    destruct Hvo as [Hvr Hroom].
    destruct lv as [ol d acked]. cbn [lv_log lv_fs lv_acked] in *. subst ol.
    pose proof (append_refines maxsz l d acked s0 gs recs Hinv Hvr Hroom) as Hrc.
    unfold op_run in Erc. cbn [lv_log lv_fs] in Erc.
    unfold step_live, op_run. cbn [lv_log lv_fs lv_acked].
    destruct (log_append repaired l d (map to_wire recs)) as [[[rc l'] d'] ms]. cbn [fst] in Erc, Hrc. subst rc.
    cbn [lv_acked acked_after Z.eqb].
    destruct (spec_accepts acked recs) eqn:Eacc; [|discriminate Hrc].
    pose proof (mem_append_accepts recs acked (li_room _ _ _ _ _ _ Hinv) Hroom Eacc) as Hmem.
    assert (Hwr : Forall (fun p => id_room (wire_rec p)) (map to_wire recs)).
    { rewrite Forall_forall. intros p Hp. apply in_map_iff in Hp. destruct Hp as (r & <- & Hr).
      rewrite wire_rec_to_wire. rewrite Forall_forall in Hroom. apply Hroom. exact Hr. }
    destruct (batch_cinv cap (map to_wire recs) c acked suf (acked ++ recs) Hc (li_room _ _ _ _ _ _ Hinv) Hwr Hmem) as [Hs _].
    exact Hs.
  - injection Hstep as <-. rewrite Hcap. apply Hreset. exact Hlinv'.
  - injection Hstep as <-. rewrite Hcap. apply Hreset. exact Hlinv'.
  - injection Hstep as <-. rewrite Hcap. apply Hreset. exact Hlinv'.
Qed.

Lemma cfs_run_inv cap : forall ops st st',
  cfs_inv cap st -> Forall valid_op ops -> cfs_run st ops = Some st' -> cfs_inv cap st'.
Proof.
  induction ops as [|op ops IH]; intros st st' Hi Hv Hr.
  - cbn in Hr. injection Hr as <-. exact Hi.
  - inversion Hv; subst. cbn [cfs_run] in Hr. destruct (cfs_step st op) as [st1|] eqn:E; [|discriminate Hr].
    eapply IH; [|eassumption|exact Hr]. eapply cfs_step_inv; eassumption.
Qed.

Lemma cfs_inv_transparent cap c lv :
  cfs_inv cap (c, lv) ->
  exists l, lv_log lv = Some l /\
    forall start, c_iterate repaired (Some c) (UFs l) (lv_fs lv) start = u_iterate repaired (UFs l) (lv_fs lv) start.
Proof.
  intros [(l & s0 & gs & Hl & Hinv) (suf & Hc)]. cbn [fst snd] in *.
  exists l. split; [exact Hl|]. intros start.
  pose proof (cache_iterate_transparent cap c (lv_acked lv) suf repaired (lv_fs lv) start Hc) as Hm.
  unfold c_iterate in *. destruct (cache_hit c start); [|reflexivity].
  rewrite Hm. cbn [u_iterate]. rewrite (iterate_any maxsz l (lv_fs lv) (lv_acked lv) s0 gs start Hinv). reflexivity.
Qed.

Theorem cache_transparent_fs :
  forall (cap : N) (ops : list wal_op) (c : cache) (lv : live),
    0 < cap -> Forall valid_op ops ->
    cfs_run (cache_new cap, run_ops repaired maxsz [OReopen]) ops = Some (c, lv) ->
    exists l, lv_log lv = Some l /\
      forall start, c_iterate repaired (Some c) (UFs l) (lv_fs lv) start = u_iterate repaired (UFs l) (lv_fs lv) start.
Proof.
  intros cap ops c lv Hcap Hv Hrun.
  apply (cfs_inv_transparent cap). eapply cfs_run_inv; [|exact Hv|exact Hrun].
  split; cbn [fst snd].
  - destruct (run_linv maxsz [] maxsz_pos ltac:(constructor)) as (l & s0 & gs & Hl & Hinv). eauto.
  - exists []. apply cinv_reset; [exact Hcap|].
    destruct (run_linv maxsz [] maxsz_pos ltac:(constructor)) as (l & s0 & gs & Hl & Hinv).
    rewrite <- (li_acked _ _ _ _ _ _ Hinv). apply (li_gf _ _ _ _ _ _ Hinv).
Qed.
End CacheOverFs.
