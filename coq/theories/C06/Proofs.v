(* C06/Proofs.v — record codec: little-endian round trips, serialize/parse round trip, torn records never parse,
   parse_file on well-formed file contents. *)
From Coq Require Import List NArith ZArith Bool Lia ZifyN ZifyNat ZifyBool.
From BLB Require Import Lib.CRC Lib.CRCFast Gen.Consts C06.Model C06.Spec.
Import ListNotations.
Open Scope N_scope.

(* ---------- little-endian ---------- *)
Lemma land_255 x : N.land x 0xFF = x mod 256.
Proof. change 0xFF with (N.ones 8). rewrite N.land_ones. reflexivity. Qed.

Lemma shiftr_8 x : N.shiftr x 8 = x / 256.
Proof. rewrite N.shiftr_div_pow2. reflexivity. Qed.

Lemma byte_split x : x = N.land x 0xFF + 256 * N.shiftr x 8.
Proof. rewrite land_255, shiftr_8. rewrite N.add_comm. apply N.div_mod. discriminate. Qed.

Lemma le32_length x : length (le32 x) = 4%nat.
Proof. reflexivity. Qed.
Lemma le64_length x : length (le64 x) = 8%nat.
Proof. reflexivity. Qed.

Lemma of_le_le32 x : x < 2 ^ 32 -> of_le (le32 x) = x.
Proof.
  intros H. unfold le32, of_le. cbn [fold_right].
  assert (H8 : N.shiftr x 8 = x / 2 ^ 8) by apply N.shiftr_div_pow2.
  assert (H16 : N.shiftr x 16 = x / 2 ^ 16) by apply N.shiftr_div_pow2.
  assert (H24 : N.shiftr x 24 = x / 2 ^ 24) by apply N.shiftr_div_pow2.
  rewrite !land_255, H8, H16, H24.
  change (2 ^ 8) with 256. change (2 ^ 16) with 65536. change (2 ^ 24) with 16777216.
  change (2 ^ 32) with 4294967296 in H.
  clear H8 H16 H24. lia.
Qed.

Lemma of_le_cons x a : of_le (x :: a) = x + 256 * of_le a.
Proof. reflexivity. Qed.

Lemma of_le_app a b : of_le (a ++ b) = of_le a + 256 ^ N.of_nat (length a) * of_le b.
Proof.
  induction a as [|x a IH].
  - cbn [app length]. change (N.of_nat 0) with 0. rewrite N.pow_0_r, N.mul_1_l. reflexivity.
  - cbn [app length]. rewrite !of_le_cons, IH.
    rewrite Nat2N.inj_succ, N.pow_succ_r'.
    generalize (of_le a) (of_le b) (256 ^ N.of_nat (length a)). intros. lia.
Qed.

Lemma of_le_le64 x : x < two64 -> of_le (le64 x) = x.
Proof.
  intros H. unfold le64. rewrite of_le_app, le32_length.
  change (256 ^ N.of_nat 4) with (2 ^ 32).
  assert (L : N.land x mask32 = x mod 2 ^ 32).
  { change mask32 with (N.ones 32). apply N.land_ones. }
  rewrite !of_le_le32.
  - rewrite L, N.shiftr_div_pow2. rewrite N.add_comm. symmetry. rewrite N.mul_comm.
    rewrite N.mul_comm. apply N.div_mod. discriminate.
  - rewrite N.shiftr_div_pow2. apply N.div_lt_upper_bound; [discriminate|]. exact H.
  - rewrite L. apply N.mod_lt. discriminate.
Qed.

(* ---------- list helpers ---------- *)
Lemma firstn_app_exact {A} (a b : list A) n : n = length a -> firstn n (a ++ b) = a.
Proof. intros ->. rewrite firstn_app, Nat.sub_diag, firstn_all. cbn. apply app_nil_r. Qed.
Lemma skipn_app_exact {A} (a b : list A) n : n = length a -> skipn n (a ++ b) = b.
Proof. intros ->. rewrite skipn_app, Nat.sub_diag, skipn_all. reflexivity. Qed.

Lemma blen_app a b : blen (a ++ b) = blen a + blen b.
Proof. unfold blen. rewrite app_length. lia. Qed.

(* ---------- valid records (Spec.valid_rec) ---------- *)

Lemma max_data_lt : max_data < 2 ^ 32.
Proof. vm_compute. reflexivity. Qed.

Lemma rec_csum_lt id data : rec_csum id data < 2 ^ 32.
Proof. unfold rec_csum. rewrite crc32c_fast_correct'. apply crc32c_lt. Qed.

Lemma rec_header_length id len : length (rec_header id len) = 12%nat.
Proof. reflexivity. Qed.

Lemma serialize_length r : length (serialize r) = (16 + length (rdata r))%nat.
Proof. unfold serialize. rewrite !app_length, rec_header_length, le32_length. lia. Qed.

Lemma header_parse id len rest :
  id < two64 -> len < 2 ^ 32 ->
  of_le (firstn 8 (rec_header id len ++ rest)) = id /\
  of_le (firstn 4 (skipn 8 (rec_header id len ++ rest))) = len /\
  firstn 12 (rec_header id len ++ rest) = rec_header id len /\
  skipn 12 (rec_header id len ++ rest) = rest.
Proof.
  intros Hid Hlen. unfold rec_header. rewrite <- !app_assoc. repeat split.
  - rewrite firstn_app_exact by reflexivity. apply of_le_le64; assumption.
  - rewrite skipn_app_exact by reflexivity. rewrite firstn_app_exact by reflexivity. apply of_le_le32; assumption.
Qed.

Lemma nonnil_match {B} (b : bytes) (x y : B) :
  b <> [] -> match b with [] => x | _ => y end = y.
Proof. destruct b; congruence. Qed.

(* record codec round trip: what serialize writes, deserializeRecord reads back, and consumes exactly that *)
Lemma parse_one_serialize r rest :
  valid_rec r -> parse_one (serialize r ++ rest) = PRec r (rec_csum (rid r) (rdata r)) rest.
Proof.
  intros [Hid Hlen]. destruct r as [id data]. cbn [rid rdata] in *.
  pose proof max_data_lt as Hm.
  assert (Hl32 : blen data < 2 ^ 32) by lia.
  unfold serialize. cbn [rid rdata]. rewrite <- !app_assoc.
  set (tl := data ++ le32 (rec_csum id data) ++ rest).
  destruct (header_parse id (blen data) tl Hid Hl32) as (E1 & E2 & E3 & E4).
  unfold parse_one.
  rewrite nonnil_match by (unfold rec_header, le64, le32; discriminate).
  assert (Hb : blen (rec_header id (blen data) ++ tl) <? 12 = false).
  { apply N.ltb_ge. rewrite blen_app. unfold blen at 1. rewrite rec_header_length. lia. }
  rewrite Hb, E1, E2, E3, E4.
  assert (Hmx : max_data <? blen data = false) by (apply N.ltb_ge; exact Hlen).
  rewrite Hmx.
  assert (Ht : blen tl <? blen data + 4 = false).
  { apply N.ltb_ge. unfold tl. rewrite !blen_app. unfold blen at 3. rewrite le32_length. lia. }
  rewrite Ht.
  assert (Hn : N.to_nat (blen data) = length data) by (unfold blen; lia).
  rewrite Hn. unfold tl.
  rewrite firstn_app_exact by reflexivity.
  rewrite skipn_app_exact by reflexivity.
  rewrite firstn_app_exact by reflexivity.
  rewrite of_le_le32 by apply rec_csum_lt.
  fold (rec_csum id data). rewrite N.eqb_refl.
  f_equal.
  rewrite app_assoc. apply skipn_app_exact. rewrite app_length, le32_length. reflexivity.
Qed.

(* a strict prefix of a serialized record (the only damage a crash can cause) never parses as a record *)
Lemma parse_one_torn r n :
  valid_rec r -> (n < length (serialize r))%nat ->
  parse_one (firstn n (serialize r)) = if (n =? 0)%nat then PEof else PTorn.
Proof.
  intros [Hid Hlen] Hn. destruct r as [id data]. cbn [rid rdata] in *.
  pose proof max_data_lt as Hm.
  assert (Hl32 : blen data < 2 ^ 32) by lia.
  rewrite serialize_length in Hn. cbn [rdata] in Hn.
  destruct n as [|n]; [reflexivity|]. cbn [Nat.eqb].
  assert (Hlenf : length (firstn (S n) (serialize (mkRec id data))) = S n).
  { rewrite firstn_length, serialize_length. cbn [rdata]. lia. }
  unfold parse_one.
  rewrite nonnil_match by (intro E; rewrite E in Hlenf; discriminate).
  destruct (Nat.ltb (S n) 12) eqn:Hs.
  - apply Nat.ltb_lt in Hs.
    assert (Hb : blen (firstn (S n) (serialize (mkRec id data))) <? 12 = true).
    { apply N.ltb_lt. unfold blen. rewrite Hlenf. lia. }
    rewrite Hb. reflexivity.
  - apply Nat.ltb_ge in Hs.
    assert (Hb : blen (firstn (S n) (serialize (mkRec id data))) <? 12 = false).
    { apply N.ltb_ge. unfold blen. rewrite Hlenf. lia. }
    rewrite Hb.
    unfold serialize. cbn [rid rdata].
    rewrite firstn_app, rec_header_length.
    rewrite (firstn_all2 (rec_header id (blen data))) by (rewrite rec_header_length; lia).
    set (tl := firstn (S n - 12) (data ++ le32 (rec_csum id data))).
    destruct (header_parse id (blen data) tl Hid Hl32) as (E1 & E2 & E3 & E4).
    rewrite E1, E2, E4.
    assert (Hmx : max_data <? blen data = false) by (apply N.ltb_ge; exact Hlen).
    rewrite Hmx.
    assert (Ht : blen tl <? blen data + 4 = true).
    { apply N.ltb_lt. unfold tl, blen. rewrite firstn_length, app_length, le32_length. lia. }
    rewrite Ht. reflexivity.
Qed.

(* ---------- whole files ---------- *)
Definition file_of (rs : list record) : bytes := flat_map serialize rs.

(* what a crash can leave behind the last complete record: nothing, or a strict non-empty prefix of a record *)
Definition torn_tail (t : bytes) : Prop :=
  t = [] \/ exists r n, valid_rec r /\ (0 < n < length (serialize r))%nat /\ t = firstn n (serialize r).

Lemma parse_one_tail t :
  torn_tail t -> parse_one t = match t with [] => PEof | _ => PTorn end.
Proof.
  intros [->|(r & n & Hv & Hn & ->)]; [reflexivity|].
  rewrite parse_one_torn by (assumption || lia).
  destruct n; [lia|]. cbn [Nat.eqb].
  destruct (firstn (S n) (serialize r)) eqn:E; [|reflexivity].
  apply (f_equal (@length _)) in E. rewrite firstn_length in E. cbn in E. lia.
Qed.

Definition tail_status (t : bytes) : tail := match t with [] => TClean | _ => TTorn end.

Lemma file_of_blen_cons r rs : blen (file_of (r :: rs)) = 16 + blen (rdata r) + blen (file_of rs).
Proof.
  unfold file_of. cbn [flat_map]. rewrite blen_app. unfold blen at 1. rewrite serialize_length. unfold blen. lia.
Qed.

Lemma parse_all_wf : forall rs t fuel off,
  Forall valid_rec rs -> torn_tail t -> (length rs < fuel)%nat ->
  parse_all fuel (file_of rs ++ t) off =
  (map with_csum rs, off + blen (file_of rs), tail_status t).
Proof.
  induction rs as [|r rs IH]; intros t fuel off Hv Ht Hf.
  - destruct fuel; [cbn in Hf; lia|]. cbn [file_of flat_map app parse_all map].
    rewrite parse_one_tail by assumption.
    change (blen []) with 0. rewrite N.add_0_r.
    destruct t; reflexivity.
  - destruct fuel; [cbn in Hf; lia|]. inversion Hv as [|? ? Hr Hrs]; subst.
    cbn [parse_all]. unfold file_of. cbn [flat_map]. rewrite <- app_assoc.
    rewrite parse_one_serialize by assumption.
    fold (file_of rs).
    rewrite IH by (assumption || cbn in Hf; lia).
    cbn [map]. unfold with_csum at 2.
    f_equal. f_equal.
    change (flat_map serialize rs) with (file_of rs).
    pose proof (file_of_blen_cons r rs) as E. unfold file_of in E at 1. cbn [flat_map] in E.
    fold (file_of rs) in E. rewrite E. lia.
Qed.

Lemma file_of_length_ge rs : (length rs <= length (file_of rs))%nat.
Proof.
  induction rs as [|r rs IH]; [cbn; lia|].
  unfold file_of in *. cbn [flat_map length]. rewrite app_length, serialize_length. lia.
Qed.

(* reading a well-formed file (complete valid records, then possibly a torn record) returns exactly the records,
   the offset of the end of the last complete one, and whether a torn tail follows *)
Lemma parse_file_wf rs t :
  Forall valid_rec rs -> torn_tail t ->
  parse_file (file_of rs ++ t) = (map with_csum rs, blen (file_of rs), tail_status t).
Proof.
  intros Hv Ht. unfold parse_file.
  rewrite parse_all_wf; try assumption.
  - reflexivity.
  - rewrite app_length. pose proof (file_of_length_ge rs). lia.
Qed.
