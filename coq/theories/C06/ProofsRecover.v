(* C06/ProofsRecover.v — recovery: OpenFSLog (repaired model) on every directory of the shape a crash can leave
   (consecutively numbered files of complete records, the last one possibly empty and possibly followed by a torn
   record) yields a log whose observables are exactly the records of the directory. *)
From Coq Require Import List NArith ZArith Bool Lia ZifyN ZifyNat ZifyBool.
From BLB Require Import Lib.CRC Lib.CRCFast Gen.Consts C06.Model C06.Spec C06.Proofs.
Import ListNotations.
Open Scope N_scope.

(* ---------- the shape ---------- *)
Fixpoint dir_of (s0 : N) (gs : list (list record)) (t : bytes) : fs :=
  match gs with
  | [] => []
  | g :: rest =>
    match rest with
    | [] => [(s0, file_of g ++ t)]
    | _ => (s0, file_of g) :: dir_of (s0 + 1) rest t
    end
  end.

Definition gfirst (g : list record) : N := match g with [] => 0 | r :: _ => rid r end.
Definition gempty (g : list record) : bool := match g with [] => true | _ => false end.

Fixpoint infos_of (s0 : N) (gs : list (list record)) : list finfo :=
  match gs with
  | [] => []
  | g :: rest => mkFi s0 (gfirst g) :: infos_of (s0 + 1) rest
  end.

(* every group but the last is non-empty *)
Fixpoint init_nonempty (gs : list (list record)) : Prop :=
  match gs with
  | [] => True
  | g :: rest => match rest with [] => True | _ => g <> [] /\ init_nonempty rest end
  end.

Definition groups_valid (gs : list (list record)) : Prop := Forall (Forall valid_rec) gs.

(* ---------- reading one file ---------- *)
Lemma file_of_cons r g : file_of (r :: g) = serialize r ++ file_of g.
Proof. reflexivity. Qed.

Lemma open_ro_group g t :
  Forall valid_rec g -> torn_tail t ->
  open_ro repaired (file_of g ++ t) = Some (gempty g, gfirst g).
Proof.
  intros Hv Ht. unfold open_ro. destruct g as [|r g].
  - cbn [file_of flat_map app]. rewrite parse_one_tail by assumption.
    destruct t; reflexivity.
  - inversion Hv; subst. rewrite file_of_cons, <- app_assoc.
    rewrite parse_one_serialize by assumption. reflexivity.
Qed.

Lemma torn_tail_nil : torn_tail [].
Proof. left. reflexivity. Qed.

Lemma open_ro_group_clean g :
  Forall valid_rec g -> open_ro repaired (file_of g) = Some (gempty g, gfirst g).
Proof.
  intros Hv. rewrite <- (app_nil_r (file_of g)). apply open_ro_group; [assumption|apply torn_tail_nil].
Qed.

Lemma read_existing_dir : forall gs s0 t,
  groups_valid gs -> torn_tail t ->
  read_existing repaired (dir_of s0 gs t) = Some (infos_of s0 gs).
Proof.
  induction gs as [|g rest IH]; intros s0 t Hv Ht; [reflexivity|].
  inversion Hv as [|? ? Hg Hrest]; subst.
  destruct rest as [|g2 rest].
  - cbn [dir_of read_existing infos_of]. rewrite open_ro_group by assumption. reflexivity.
  - change (dir_of s0 (g :: g2 :: rest) t) with ((s0, file_of g) :: dir_of (s0 + 1) (g2 :: rest) t).
    cbn [read_existing]. rewrite open_ro_group_clean by assumption.
    rewrite IH by assumption. reflexivity.
Qed.

Lemma seqs_consecutive_infos : forall gs s0, seqs_consecutive (infos_of s0 gs) = true.
Proof.
  induction gs as [|g rest IH]; intros s0; [reflexivity|].
  destruct rest as [|g2 rest]; [reflexivity|].
  change (infos_of s0 (g :: g2 :: rest)) with (mkFi s0 (gfirst g) :: infos_of (s0 + 1) (g2 :: rest)).
  change (infos_of (s0 + 1) (g2 :: rest)) with (mkFi (s0 + 1) (gfirst g2) :: infos_of (s0 + 1 + 1) rest).
  cbn [seqs_consecutive fi_seq]. rewrite N.eqb_refl. cbn [andb].
  specialize (IH (s0 + 1)). exact IH.
Qed.

Lemma infos_length gs s0 : length (infos_of s0 gs) = length gs.
Proof. revert s0. induction gs; intros; cbn; auto. Qed.

Lemma last_seq_infos : forall gs s0 g,
  last_seq (infos_of s0 (gs ++ [g])) = s0 + N.of_nat (length gs).
Proof.
  induction gs as [|g0 gs IH]; intros s0 g.
  - cbn. lia.
  - cbn [app]. change (infos_of s0 (g0 :: gs ++ [g])) with (mkFi s0 (gfirst g0) :: infos_of (s0 + 1) (gs ++ [g])).
    unfold last_seq in *. specialize (IH (s0 + 1) g).
    destruct (infos_of (s0 + 1) (gs ++ [g])) eqn:E.
    + destruct gs; discriminate E.
    + cbn [last] in *. rewrite IH. cbn [length]. lia.
Qed.

(* ---------- directory lookups ---------- *)
Lemma fs_get_dir_lt : forall gs s0 t s, s < s0 -> fs_get (dir_of s0 gs t) s = None.
Proof.
  induction gs as [|g rest IH]; intros s0 t s Hs; [reflexivity|].
  destruct rest as [|g2 rest].
  - cbn [dir_of fs_get]. destruct (s =? s0) eqn:E; [apply N.eqb_eq in E; lia|reflexivity].
  - change (dir_of s0 (g :: g2 :: rest) t) with ((s0, file_of g) :: dir_of (s0 + 1) (g2 :: rest) t).
    cbn [fs_get]. destruct (s =? s0) eqn:E; [apply N.eqb_eq in E; lia|]. apply IH. lia.
Qed.

Lemma fs_get_dir_last : forall gs s0 g t,
  fs_get (dir_of s0 (gs ++ [g]) t) (s0 + N.of_nat (length gs)) = Some (file_of g ++ t).
Proof.
  induction gs as [|g0 gs IH]; intros s0 g t.
  - cbn [app dir_of fs_get length]. change (N.of_nat 0) with 0. rewrite N.add_0_r, N.eqb_refl. reflexivity.
  - cbn [app]. assert (Hne : gs ++ [g] <> []) by (destruct gs; discriminate).
    destruct (gs ++ [g]) as [|x y] eqn:E; [congruence|].
    change (dir_of s0 (g0 :: x :: y) t) with ((s0, file_of g0) :: dir_of (s0 + 1) (x :: y) t).
    cbn [fs_get]. destruct (s0 + N.of_nat (length (g0 :: gs)) =? s0) eqn:E2.
    + apply N.eqb_eq in E2. cbn [length] in E2. lia.
    + rewrite <- E. specialize (IH (s0 + 1) g t). cbn [length].
      replace (s0 + N.of_nat (S (length gs))) with (s0 + 1 + N.of_nat (length gs)) by lia. exact IH.
Qed.

(* cutting the torn tail off the last file *)
Lemma fs_repair_dir : forall gs s0 g t,
  fs_upd (dir_of s0 (gs ++ [g]) t) (s0 + N.of_nat (length gs)) (firstn (N.to_nat (blen (file_of g))))
  = dir_of s0 (gs ++ [g]) [].
Proof.
  induction gs as [|g0 gs IH]; intros s0 g t.
  - cbn [app dir_of length]. change (N.of_nat 0) with 0. rewrite N.add_0_r.
    unfold fs_upd. cbn [fs_get]. rewrite N.eqb_refl. cbn [fs_set]. rewrite N.eqb_refl.
    rewrite app_nil_r. f_equal. f_equal. apply firstn_app_exact. unfold blen. lia.
  - cbn [app]. assert (Hne : gs ++ [g] <> []) by (destruct gs; discriminate).
    destruct (gs ++ [g]) as [|x y] eqn:E; [congruence|].
    change (dir_of s0 (g0 :: x :: y) t) with ((s0, file_of g0) :: dir_of (s0 + 1) (x :: y) t).
    change (dir_of s0 (g0 :: x :: y) []) with ((s0, file_of g0) :: dir_of (s0 + 1) (x :: y) []).
    rewrite <- E.
    specialize (IH (s0 + 1) g t).
    replace (s0 + N.of_nat (length (g0 :: gs))) with (s0 + 1 + N.of_nat (length gs)) by (cbn [length]; lia).
    set (s := s0 + 1 + N.of_nat (length gs)) in *.
    unfold fs_upd in *. cbn [fs_get].
    assert (Hs : (s =? s0) = false) by (apply N.eqb_neq; lia).
    rewrite Hs.
    destruct (fs_get (dir_of (s0 + 1) (gs ++ [g]) t) s) eqn:G.
    + cbn [fs_set]. rewrite Hs.
      assert (Hlt : (s <? s0) = false) by (apply N.ltb_ge; lia).
      rewrite Hlt. f_equal. exact IH.
    + rewrite fs_get_dir_last in G. discriminate G.
Qed.

(* removing the last file *)
Lemma fs_del_dir_last : forall gs s0 g,
  gs <> [] ->
  fs_del (dir_of s0 (gs ++ [g]) []) (s0 + N.of_nat (length gs)) = dir_of s0 gs [].
Proof.
  induction gs as [|g0 gs IH]; intros s0 g Hne; [congruence|].
  cbn [app].
  destruct gs as [|g1 gs].
  - cbn [app dir_of length fs_del].
    assert (E : (s0 + N.of_nat 1 =? s0) = false) by (apply N.eqb_neq; lia).
    rewrite E. replace (s0 + N.of_nat 1) with (s0 + 1) by lia. rewrite N.eqb_refl.
    rewrite app_nil_r. reflexivity.
  - change ((g1 :: gs) ++ [g]) with (g1 :: gs ++ [g]).
    change (dir_of s0 (g0 :: g1 :: gs ++ [g]) []) with ((s0, file_of g0) :: dir_of (s0 + 1) (g1 :: gs ++ [g]) []).
    change (dir_of s0 (g0 :: g1 :: gs) []) with ((s0, file_of g0) :: dir_of (s0 + 1) (g1 :: gs) []).
    cbn [fs_del].
    assert (E : (s0 + N.of_nat (length (g0 :: g1 :: gs)) =? s0) = false) by (apply N.eqb_neq; cbn [length]; lia).
    rewrite E. f_equal.
    specialize (IH (s0 + 1) g ltac:(discriminate)).
    replace (s0 + N.of_nat (length (g0 :: g1 :: gs))) with (s0 + 1 + N.of_nat (length (g1 :: gs))) by (cbn [length]; lia).
    exact IH.
Qed.

(* ---------- opening the last file for append ---------- *)
Definition cur_of (s : N) (g : list record) : curfile := cf_of s (map with_csum g).

Lemma cur_of_nil s : cur_of s [] = mkCf s true 0 0.
Proof. reflexivity. Qed.

Lemma last_map_fst : forall (g : list record) (r : record) c,
  fst (last (map with_csum g) (r, c)) = last g r.
Proof.
  induction g as [|x g IH]; intros r c; [reflexivity|].
  destruct g as [|y g]; [reflexivity|].
  change (map with_csum (x :: y :: g)) with (with_csum x :: map with_csum (y :: g)).
  change (last (with_csum x :: map with_csum (y :: g)) (r, c)) with (last (map with_csum (y :: g)) (r, c)).
  rewrite IH. reflexivity.
Qed.

Lemma cur_of_cons s r g : cur_of s (r :: g) = mkCf s false (rid r) (rid (last (r :: g) r)).
Proof.
  unfold cur_of, cf_of. cbn [map with_csum]. f_equal.
  change (with_csum r :: map with_csum g) with (map with_csum (r :: g)).
  rewrite last_map_fst. reflexivity.
Qed.

Lemma open_rw_last gs s0 g t ms :
  Forall valid_rec g -> torn_tail t ->
  exists ms', open_rw (s0 + N.of_nat (length gs)) (dir_of s0 (gs ++ [g]) t, ms)
            = Some (cur_of (s0 + N.of_nat (length gs)) g, (dir_of s0 (gs ++ [g]) [], ms')).
Proof.
  intros Hv Ht. unfold open_rw. cbn [fst].
  rewrite fs_get_dir_last, parse_file_wf by assumption.
  destruct t as [|b t].
  - exists ms. reflexivity.
  - cbn [tail_status]. eexists. unfold emit. cbn [fst snd apply_mut].
    rewrite fs_repair_dir. reflexivity.
Qed.

Lemma removelast_cons2 {A} (a : A) l : l <> [] -> removelast (a :: l) = a :: removelast l.
Proof. destruct l; [congruence|reflexivity]. Qed.

Lemma removelast_infos : forall gs s0 g, removelast (infos_of s0 (gs ++ [g])) = infos_of s0 gs.
Proof.
  induction gs as [|g0 gs IH]; intros s0 g; [reflexivity|].
  cbn [app]. change (infos_of s0 (g0 :: gs ++ [g])) with (mkFi s0 (gfirst g0) :: infos_of (s0 + 1) (gs ++ [g])).
  rewrite removelast_cons2.
  - rewrite IH. reflexivity.
  - destruct gs; discriminate.
Qed.

Definition nonempty_groups (gs : list (list record)) : Prop := Forall (fun g => g <> []) gs.

Lemma init_nonempty_app : forall gs g, init_nonempty (gs ++ [g]) -> nonempty_groups gs.
Proof.
  induction gs as [|g0 gs IH]; intros g H; [constructor|].
  cbn [app] in H. assert (Hne : gs ++ [g] <> []) by (destruct gs; discriminate).
  cbn [init_nonempty] in H. destruct (gs ++ [g]) eqn:E; [congruence|].
  destruct H as [H0 H1]. constructor; [assumption|]. rewrite <- E in H1. eapply IH; eassumption.
Qed.

Definition log_of (s0 : N) (gs : list (list record)) (maxsz : N) : fslog :=
  mkLog (infos_of s0 gs) (cur_of (s0 + N.of_nat (length gs) - 1) (last gs [])) maxsz.

(* all groups non-empty, or the single empty file of a log without records *)
Definition clean_shape (gs : list (list record)) : Prop :=
  gs = [[]] \/ (gs <> [] /\ nonempty_groups gs).

Lemma groups_valid_app gs g : groups_valid (gs ++ [g]) -> groups_valid gs /\ Forall valid_rec g.
Proof.
  unfold groups_valid. intros H. apply Forall_app in H. destruct H as [H1 H2].
  inversion H2; subst. split; assumption.
Qed.

(* OpenFSLog on a crash-shaped directory: succeeds, cuts the torn tail, drops a trailing empty file *)
Lemma open_log_shape maxsz s0 gs t :
  gs <> [] -> groups_valid gs -> init_nonempty gs -> torn_tail t ->
  exists gs' ms,
    open_log repaired maxsz (dir_of s0 gs t) = (0%Z, Some (log_of s0 gs' maxsz), dir_of s0 gs' [], ms) /\
    concat gs' = concat gs /\ groups_valid gs' /\ clean_shape gs'.
Proof.
  intros Hne Hv Hin Ht.
  destruct (exists_last Hne) as (gs0 & g & ->).
  pose proof (init_nonempty_app _ _ Hin) as Hne0.
  destruct (groups_valid_app _ _ Hv) as [Hv0 Hvg].
  unfold open_log.
  rewrite read_existing_dir by assumption.
  rewrite seqs_consecutive_infos. cbn [negb].
  destruct (infos_of s0 (gs0 ++ [g])) as [|fi0 fis] eqn:Einf.
  { destruct gs0; discriminate Einf. }
  rewrite <- Einf. rewrite last_seq_infos.
  destruct (open_rw_last gs0 s0 g t [] Hvg Ht) as (ms1 & Hrw). rewrite Hrw.
  cbn [fx_drop repaired].
  rewrite infos_length, app_length. cbn [length]. rewrite Nat.add_1_r.
  cbn [drop_trailing].
  destruct g as [|r g].
  - (* last file holds no complete record *)
    rewrite cur_of_nil. cbn [cf_empty andb].
    rewrite infos_length, app_length. cbn [length].
    destruct gs0 as [|g1 gs1 _] using rev_ind.
    + (* the only file: a log without records *)
      cbn [app length Nat.add]. change (1 <? N.of_nat 1) with false. cbn [fst snd].
      exists [[]], ms1. repeat split.
      * unfold log_of. cbn [length last infos_of app]. rewrite cur_of_nil.
        change (N.of_nat 0) with 0. change (N.of_nat 1) with 1.
        replace (s0 + 0) with s0 by lia. replace (s0 + 1 - 1) with s0 by lia. reflexivity.
      * repeat constructor.
      * left. reflexivity.
    + (* a trailing empty file next to older files: dropped *)
      assert (Hlen : (1 <? N.of_nat (length (gs1 ++ [g1]) + 1)) = true).
      { apply N.ltb_lt. rewrite app_length. cbn [length]. lia. }
      rewrite Hlen.
      assert (Hgs0 : gs1 ++ [g1] <> []) by (destruct gs1; discriminate).
      cbn [cf_seq]. unfold emit at 1 2. cbn [fst snd apply_mut].
      rewrite fs_del_dir_last by assumption.
      rewrite removelast_infos.
      rewrite last_seq_infos.
      assert (Hvg1 : Forall valid_rec g1).
      { apply groups_valid_app in Hv0. tauto. }
      destruct (open_rw_last gs1 s0 g1 [] ((ms1 ++ [MUnlink (s0 + N.of_nat (length (gs1 ++ [g1])))]) ++ [MDirSync]) Hvg1 torn_tail_nil) as (ms2 & Hrw2).
      rewrite Hrw2.
      assert (Hg1 : g1 <> []).
      { apply Forall_app in Hne0. destruct Hne0 as [_ H1]. inversion H1; assumption. }
      destruct g1 as [|r1 g1']; [congruence|].
      rewrite app_length. cbn [length]. rewrite Nat.add_1_r.
      cbn [drop_trailing]. rewrite cur_of_cons. cbn [cf_empty andb fst snd].
      exists (gs1 ++ [r1 :: g1']), ms2. repeat split.
      * unfold log_of. rewrite last_last, app_length. cbn [length].
        rewrite cur_of_cons.
        replace (s0 + N.of_nat (length gs1 + 1) - 1) with (s0 + N.of_nat (length gs1)) by lia. reflexivity.
      * rewrite !concat_app. cbn [concat]. rewrite !app_nil_r. reflexivity.
      * assumption.
      * right. split; [destruct gs1; discriminate|]. assumption.
  - (* the last file holds records: nothing to drop *)
    rewrite cur_of_cons. cbn [cf_empty andb fst snd].
    exists (gs0 ++ [r :: g]), ms1. repeat split.
    + unfold log_of. rewrite last_last, app_length. cbn [length]. rewrite cur_of_cons.
      replace (s0 + N.of_nat (length gs0 + 1) - 1) with (s0 + N.of_nat (length gs0)) by lia. reflexivity.
    + assumption.
    + right. split; [destruct gs0; discriminate|].
      apply Forall_app. split; [assumption|]. constructor; [discriminate|constructor].
Qed.

(* ---------- observables of a clean log ---------- *)
Fixpoint dir_clean (s0 : N) (gs : list (list record)) : fs :=
  match gs with
  | [] => []
  | g :: rest => (s0, file_of g) :: dir_clean (s0 + 1) rest
  end.

Lemma dir_of_clean : forall gs s0, dir_of s0 gs [] = dir_clean s0 gs.
Proof.
  induction gs as [|g rest IH]; intros s0; [reflexivity|].
  destruct rest as [|g2 rest].
  - cbn [dir_of dir_clean]. rewrite app_nil_r. reflexivity.
  - change (dir_of s0 (g :: g2 :: rest) []) with ((s0, file_of g) :: dir_of (s0 + 1) (g2 :: rest) []).
    rewrite IH. reflexivity.
Qed.

Lemma fs_get_clean_lt : forall gs s0 s, s < s0 -> fs_get (dir_clean s0 gs) s = None.
Proof.
  induction gs as [|g rest IH]; intros s0 s Hs; [reflexivity|].
  cbn [dir_clean fs_get]. destruct (s =? s0) eqn:E; [apply N.eqb_eq in E; lia|]. apply IH. lia.
Qed.

Lemma fs_get_clean_nth : forall gs1 s0 g gs2,
  fs_get (dir_clean s0 (gs1 ++ g :: gs2)) (s0 + N.of_nat (length gs1)) = Some (file_of g).
Proof.
  induction gs1 as [|g0 gs1 IH]; intros s0 g gs2.
  - cbn [app dir_clean fs_get length]. change (N.of_nat 0) with 0. rewrite N.add_0_r, N.eqb_refl. reflexivity.
  - cbn [app dir_clean fs_get length].
    destruct (s0 + N.of_nat (S (length gs1)) =? s0) eqn:E; [apply N.eqb_eq in E; lia|].
    replace (s0 + N.of_nat (S (length gs1))) with (s0 + 1 + N.of_nat (length gs1)) by lia. apply IH.
Qed.

Lemma seqs_infos_app : forall gs1 s0 g gs2,
  map fi_seq (infos_of s0 (gs1 ++ g :: gs2)) =
  map fi_seq (infos_of s0 gs1) ++ (s0 + N.of_nat (length gs1)) :: map fi_seq (infos_of (s0 + N.of_nat (length gs1) + 1) gs2).
Proof.
  induction gs1 as [|g0 gs1 IH]; intros s0 g gs2.
  - cbn [app infos_of map length fi_seq]. change (N.of_nat 0) with 0. rewrite N.add_0_r. reflexivity.
  - cbn [app infos_of map length fi_seq]. rewrite IH. f_equal. f_equal.
    replace (s0 + 1 + N.of_nat (length gs1)) with (s0 + N.of_nat (S (length gs1))) by lia. reflexivity.
Qed.

(* iterating the files of gs2 (the groups after gs1) from position 0 returns their records *)
Lemma iter_files_from0 : forall gs2 gs1 s0 ff,
  groups_valid gs2 ->
  iter_files repaired (dir_clean s0 (gs1 ++ gs2))
             (map fi_seq (infos_of (s0 + N.of_nat (length gs1)) gs2)) 0 ff
  = (0%Z, map with_csum (concat gs2)).
Proof.
  induction gs2 as [|g gs2 IH]; intros gs1 s0 ff Hv; [reflexivity|].
  inversion Hv as [|? ? Hg Hrest]; subst.
  cbn [infos_of map fi_seq iter_files].
  rewrite fs_get_clean_nth.
  rewrite open_ro_group_clean by assumption.
  pose proof (parse_file_wf g [] Hg torn_tail_nil) as Hp. rewrite app_nil_r in Hp. rewrite Hp.
  cbn [tail_status tail_bad].
  assert (Hh : (if negb ff || (0 <=? gfirst g) then Some (map with_csum g) else drop_through (map with_csum g) (0 - 1))
               = Some (map with_csum g)).
  { replace (0 <=? gfirst g) with true by (symmetry; apply N.leb_le; lia). rewrite orb_true_r. reflexivity. }
  rewrite Hh.
  specialize (IH (gs1 ++ [g]) s0 false Hrest).
  rewrite <- app_assoc in IH. cbn [app] in IH. rewrite app_length in IH. cbn [length] in IH.
  replace (s0 + N.of_nat (length gs1 + 1)) with (s0 + N.of_nat (length gs1) + 1) in IH by lia.
  rewrite IH. cbn [concat]. rewrite map_app. reflexivity.
Qed.

Lemma cf_first_cur_of s g : cf_first (cur_of s g) = gfirst g.
Proof. destruct g; [reflexivity|]. rewrite cur_of_cons. reflexivity. Qed.
Lemma cf_empty_cur_of s g : cf_empty (cur_of s g) = gempty g.
Proof. destruct g; [reflexivity|]. rewrite cur_of_cons. reflexivity. Qed.

Lemma set_last_first_infos : forall gs s0,
  set_last_first (infos_of s0 gs) (gfirst (last gs [])) = infos_of s0 gs.
Proof.
  induction gs as [|g rest IH]; intros s0; [reflexivity|].
  destruct rest as [|g2 rest]; [reflexivity|].
  change (infos_of s0 (g :: g2 :: rest)) with (mkFi s0 (gfirst g) :: infos_of (s0 + 1) (g2 :: rest)).
  change (last (g :: g2 :: rest) []) with (last (g2 :: rest) []).
  specialize (IH (s0 + 1)).
  change (infos_of (s0 + 1) (g2 :: rest)) with (mkFi (s0 + 1) (gfirst g2) :: infos_of (s0 + 1 + 1) rest) in *.
  cbn [set_last_first]. cbn [set_last_first] in IH. rewrite IH. reflexivity.
Qed.

Lemma refresh_log_of s0 gs maxsz : refresh (log_of s0 gs maxsz) = log_of s0 gs maxsz.
Proof.
  unfold refresh, log_of. cbn [lg_files lg_cur lg_max]. rewrite cf_first_cur_of, set_last_first_infos. reflexivity.
Qed.

Lemma last_app_nonnil {A} (a b : list A) d : b <> [] -> last (a ++ b) d = last b d.
Proof.
  intros Hb. induction a as [|x a IH]; [reflexivity|].
  cbn [app]. destruct (a ++ b) eqn:E.
  - destruct a; [cbn in E; congruence|discriminate E].
  - cbn [last]. exact IH.
Qed.

Lemma last_indep {A} (l : list A) d d' : l <> [] -> last l d = last l d'.
Proof.
  induction l as [|x l IH]; [congruence|]. intros _. destruct l; [reflexivity|].
  change (last (x :: a :: l) d) with (last (a :: l) d). change (last (x :: a :: l) d') with (last (a :: l) d').
  apply IH. discriminate.
Qed.

(* the ids of a gap-free run increase: below the first id there is nothing *)
Lemma gap_free_cons a l : gap_free (a :: l) = true -> gap_free l = true.
Proof. destruct l; [reflexivity|]. cbn [gap_free]. intros H. apply andb_true_iff in H. tauto. Qed.

Lemma gap_free_app_r : forall a b, gap_free (a ++ b) = true -> gap_free b = true.
Proof. induction a as [|x a IH]; intros b H; [assumption|]. apply IH. eapply gap_free_cons. exact H. Qed.

Lemma gap_free_lt_hd : forall l a r, gap_free (a :: l) = true -> In r l -> rid a < rid r.
Proof.
  induction l as [|b l IH]; intros a r H Hin; [contradiction|].
  cbn [gap_free] in H. apply andb_true_iff in H. destruct H as [H1 H2]. apply N.eqb_eq in H1.
  destruct Hin as [<-|Hin]; [lia|]. specialize (IH b r H2 Hin). lia.
Qed.

Record observables_ok (l : fslog) (d : fs) (R : list record) : Prop := {
  ob_iter : log_iterate repaired l d 0 = (0%Z, map with_csum R);
  ob_first : first_id l = first_of R;
  ob_last : last_id l = last_of R;
  ob_append : forall id, id < two64 ->
      append_accepts repaired l d id = true <-> (R = [] \/ id = (fst (last_of R) + 1) mod two64)
}.

Lemma mod64_pred_succ id : id < two64 -> ((id + two64 - 1) mod two64 + 0 + 1) mod two64 = id.
Proof.
  intros H. unfold two64 in *.
  destruct (N.eq_dec id 0) as [->|Hn]; [reflexivity|].
  replace (id + 18446744073709551616 - 1) with (id - 1 + 1 * 18446744073709551616) by lia.
  rewrite N.mod_add by discriminate.
  rewrite (N.mod_small (id - 1)) by lia.
  replace (id - 1 + 0 + 1) with id by lia. apply N.mod_small. assumption.
Qed.

Lemma append_accepts_spec l d id :
  id < two64 ->
  append_accepts repaired l d id =
  if cf_empty (lg_cur l) then true else id =? (cf_last (lg_cur l) + 1) mod two64.
Proof.
  intros Hid. unfold append_accepts, log_append. cbn [fx_guard repaired andb].
  cbn [ids_ok].
  assert (Hmax : (max_data <? rle_len [(1, 165)]) = false) by (vm_compute; reflexivity).
  destruct (cf_empty (lg_cur l)) eqn:Ee.
  - rewrite mod64_pred_succ by assumption. rewrite N.eqb_refl. cbn [andb negb].
    destruct (lg_max l <=? fs_size d (cf_seq (lg_cur l))); cbn [write_recs]; rewrite Hmax; reflexivity.
  - rewrite N.add_0_r.
    destruct (id =? (cf_last (lg_cur l) + 1) mod two64) eqn:E; cbn [andb negb]; [|reflexivity].
    destruct (lg_max l <=? fs_size d (cf_seq (lg_cur l))); cbn [write_recs]; rewrite Hmax; reflexivity.
Qed.

Lemma gfc_loop_zero gs s0 :
  clean_shape gs -> gap_free (concat gs) = true -> gfc_loop (infos_of s0 gs) 0 0 0 = 0%nat.
Proof.
  intros [->|[Hne Hng]] Hgf; [reflexivity|].
  destruct gs as [|g0 rest]; [congruence|].
  cbn [infos_of gfc_loop fi_first].
  destruct (0 <? gfirst g0); [reflexivity|].
  destruct rest as [|g1 rest]; [reflexivity|].
  cbn [infos_of gfc_loop fi_first].
  inversion Hng as [|? ? H0 Hr]; subst. inversion Hr as [|? ? H1 _]; subst.
  destruct g0 as [|r0 g0]; [congruence|]. destruct g1 as [|r1 g1]; [congruence|].
  cbn [gfirst].
  assert (Hlt : rid r0 < rid r1).
  { cbn [concat] in Hgf. change ((r0 :: g0) ++ (r1 :: g1) ++ concat rest) with (r0 :: (g0 ++ (r1 :: g1) ++ concat rest)) in Hgf.
    eapply gap_free_lt_hd; [exact Hgf|]. apply in_or_app. right. left. reflexivity. }
  assert (E : (0 <? rid r1) = true) by (apply N.ltb_lt; lia).
  rewrite E. reflexivity.
Qed.

Lemma clean_log_observables maxsz s0 gs :
  clean_shape gs -> groups_valid gs -> gap_free (concat gs) = true ->
  observables_ok (log_of s0 gs maxsz) (dir_of s0 gs []) (concat gs).
Proof.
  intros Hc Hv Hgf. split.
  - (* iteration *)
    unfold log_iterate, gfc. rewrite !refresh_log_of. unfold log_of. cbn [lg_files].
    rewrite gfc_loop_zero by assumption. cbn [skipn].
    rewrite dir_of_clean.
    pose proof (iter_files_from0 gs [] s0 true Hv) as H. cbn [app length] in H.
    change (N.of_nat 0) with 0 in H. rewrite N.add_0_r in H. exact H.
  - (* FirstID *)
    unfold first_id. rewrite refresh_log_of. unfold single_empty, log_of. cbn [lg_files lg_cur].
    rewrite infos_length, cf_empty_cur_of.
    destruct Hc as [->|[Hne Hng]]; [reflexivity|].
    destruct gs as [|g0 rest]; [congruence|].
    inversion Hng as [|? ? H0 Hr]; subst. destruct g0 as [|r0 g0]; [congruence|].
    assert (Hl : gempty (last ((r0 :: g0) :: rest) []) = false).
    { destruct (exists_last Hne) as (a & b & E). rewrite E, last_last.
      rewrite E in Hng. apply Forall_app in Hng. destruct Hng as [_ Hb]. inversion Hb; subst.
      destruct b; [congruence|reflexivity]. }
    rewrite Hl, andb_false_r. reflexivity.
  - (* LastID *)
    unfold last_id, single_empty, log_of. cbn [lg_files lg_cur].
    rewrite infos_length, cf_empty_cur_of.
    destruct Hc as [->|[Hne Hng]]; [reflexivity|].
    destruct (exists_last Hne) as (a & b & ->). rewrite last_last.
    apply Forall_app in Hng. destruct Hng as [Ha Hb]. inversion Hb as [|? ? Hb0 _]; subst.
    destruct b as [|rb b]; [congruence|].
    cbn [gempty]. rewrite andb_false_r. rewrite cur_of_cons. cbn [cf_last].
    rewrite concat_app. cbn [concat]. rewrite app_nil_r.
    unfold last_of.
    destruct (concat a ++ rb :: b) as [|x y] eqn:E.
    + destruct (concat a); discriminate E.
    + f_equal. f_equal. rewrite <- E. rewrite last_app_nonnil by discriminate.
      apply last_indep. discriminate.
  - (* Append accepts exactly the next id (any id on an empty log) *)
    intros id Hid. rewrite append_accepts_spec by assumption.
    unfold log_of. cbn [lg_cur]. rewrite cf_empty_cur_of.
    destruct Hc as [->|[Hne Hng]].
    + cbn. split; [left; reflexivity|reflexivity].
    + destruct (exists_last Hne) as (a & b & ->). rewrite last_last.
      apply Forall_app in Hng. destruct Hng as [Ha Hb]. inversion Hb as [|? ? Hb0 _]; subst.
      destruct b as [|rb b]; [congruence|].
      cbn [gempty]. rewrite cur_of_cons. cbn [cf_last].
      rewrite concat_app. cbn [concat]. rewrite app_nil_r.
      assert (Hlast : fst (last_of (concat a ++ rb :: b)) = rid (last (rb :: b) rb)).
      { unfold last_of. destruct (concat a ++ rb :: b) as [|x y] eqn:E.
        - destruct (concat a); discriminate E.
        - cbn [fst]. rewrite <- E. rewrite last_app_nonnil by discriminate. f_equal. apply last_indep. discriminate. }
      rewrite Hlast. split.
      * intros H. right. apply N.eqb_eq in H. exact H.
      * intros [H|H]; [destruct (concat a); discriminate H|]. apply N.eqb_eq. exact H.
Qed.

(* ---------- the recovery theorem ---------- *)
Definition crash_shape (gs : list (list record)) (t : bytes) : Prop :=
  groups_valid gs /\ init_nonempty gs /\ gap_free (concat gs) = true /\ torn_tail t.

Lemma open_log_empty_dir maxsz :
  open_log repaired maxsz [] =
  (0%Z, Some (log_of 0 [[]] maxsz), dir_of 0 [[]] [], [MCreate 0; MDirSync]).
Proof. reflexivity. Qed.

Theorem recovery_exact maxsz s0 gs t :
  crash_shape gs t ->
  exists l d' ms,
    open_log repaired maxsz (dir_of s0 gs t) = (0%Z, Some l, d', ms) /\
    observables_ok l d' (concat gs).
Proof.
  intros (Hv & Hin & Hgf & Ht).
  destruct gs as [|g0 rest] eqn:Egs.
  - cbn [dir_of]. rewrite open_log_empty_dir. do 3 eexists. split; [reflexivity|].
    apply (clean_log_observables maxsz 0 [[]]).
    + left. reflexivity.
    + repeat constructor.
    + reflexivity.
  - rewrite <- Egs in *.
    assert (Hne : gs <> []) by (rewrite Egs; discriminate).
    destruct (open_log_shape maxsz s0 gs t Hne Hv Hin Ht) as (gs' & ms & Hopen & Hcat & Hv' & Hc').
    exists (log_of s0 gs' maxsz), (dir_of s0 gs' []), ms. split; [exact Hopen|].
    rewrite <- Hcat. apply clean_log_observables; try assumption. rewrite Hcat. assumption.
Qed.
