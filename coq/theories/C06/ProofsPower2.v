(* C06/ProofsPower2.v — power loss with the exact carve-out: at every crash point at which no un-synced ftruncate is
   pending, every crash_cache state reopens correctly, for ALL scenarios (including those that truncate inside a
   file, once that file has been fsynced again or removed). *)
From Coq Require Import List NArith ZArith Bool Lia ZifyN ZifyNat ZifyBool.
From BLB Require Import Lib.CRC Lib.CRCFast Gen.Consts C06.Model C06.Spec C06.CrashCache C06.Proofs C06.ProofsRecover
  C06.ProofsCrash C06.ProofsCache C06.ProofsTrim C06.ProofsRefine C06.ProofsPower.
Import ListNotations.
Open Scope N_scope.

(* ---------- append-only histories ---------- *)
Lemma append_only_prefix : forall h l, append_only (h ++ l) -> append_only h.
Proof.
  induction h as [|v h IH]; intros l H; [constructor|].
  destruct h as [|v' h']; [constructor|].
  cbn [app] in H. inversion H; subst. constructor. apply (IH l). assumption.
Qed.

Lemma not_ao_app h l : ~ append_only h -> ~ append_only (h ++ l).
Proof. intros H H2. apply H. eapply append_only_prefix. exact H2. Qed.

Lemma not_ao_trunc (b : bytes) n : n < blen b -> ~ append_only [b; firstn (N.to_nat n) b].
Proof.
  intros Hn H. inversion H; subst.
  match goal with E : _ ++ _ = firstn _ _ |- _ => apply (f_equal (@length _)) in E; rewrite app_length, firstn_length in E end.
  unfold blen in Hn. lia.
Qed.

(* ---------- quasi-clean cache states: every file is either fully durable or has a truncation pending ---------- *)
Record pquasi (P : pfs) : Prop := {
  pq_dirs : p_dirs P = [names (p_vol P)];
  pq_sorted : ksorted (p_vol P);
  pq_files : forall s b, fs_get (p_vol P) s = Some b -> p_files P s = [b] \/ ~ append_only (p_files P s) }.

Lemma pclean_pquasi P : pclean P -> pquasi P.
Proof. intros [Hd Hs Hf]. split; try assumption. intros s b H. left. apply Hf. exact H. Qed.

Lemma np_pclean P : pquasi P -> ~ pending_ftruncate P -> pclean P.
Proof.
  intros [Hd Hs Hf] Hnp. split; try assumption.
  intros s b H. destruct (Hf s b H) as [E|Hn]; [exact E|]. exfalso. apply Hnp.
  exists (names (p_vol P)), s. split; [rewrite Hd; left; reflexivity|]. split; [eapply fs_get_in_names; exact H|exact Hn].
Qed.

(* ---------- blocks, now with the un-synced ftruncate ---------- *)
Inductive block2 := B1 (b : block) | BTrunc (s n : N).

Definition block2_muts (b : block2) : list mut :=
  match b with B1 b => block_muts b | BTrunc s n => [MTruncate s n] end.

Definition block2_ok (d : fs) (b : block2) : Prop :=
  match b with
  | B1 b => block_ok d b
  | BTrunc s n => exists c, fs_get d s = Some c /\ n < blen c
  end.

Fixpoint blocks2_ok (d : fs) (bs : list block2) : Prop :=
  match bs with
  | [] => True
  | b :: r => block2_ok d b /\ blocks2_ok (apply_muts d (block2_muts b)) r
  end.

Definition blocks2_muts (bs : list block2) : list mut := concat (map block2_muts bs).

Definition block_result2 (mb : list mut) (P : pfs) (d : fs) : Prop :=
  (forall j d', (j <= length mb)%nat -> ~ pending_ftruncate (run_pfs P (firstn j mb)) ->
                crash_cache (run_pfs P (firstn j mb)) d' -> in_prefix d mb d') /\
  pquasi (run_pfs P mb).

(* a pending file stays pending as long as it is listed and its history only grows *)
Lemma pending_mono P Q :
  (forall D, In D (p_dirs P) -> forall s, In s D -> ~ append_only (p_files P s) ->
     exists D', In D' (p_dirs Q) /\ In s D' /\ ~ append_only (p_files Q s)) ->
  pending_ftruncate P -> pending_ftruncate Q.
Proof. intros H (D & s & HD & Hs & Hn). destruct (H D HD s Hs Hn) as (D' & H1 & H2 & H3). exists D', s. auto. Qed.

Lemma end_clean mb P d d' :
  p_vol P = d -> pquasi (run_pfs P mb) -> ~ pending_ftruncate (run_pfs P mb) ->
  crash_cache (run_pfs P mb) d' -> in_prefix d mb d'.
Proof.
  intros Hv Hq Hnp Hcc.
  pose proof (clean_states _ d' (np_pclean _ Hq Hnp) Hcc) as E.
  apply (in_prefix_none _ _ (length mb)); [lia|]. rewrite crash_fs_none, firstn_all, E, run_pfs_vol, Hv. reflexivity.
Qed.

(* create + directory sync *)
Lemma block2_create s P d : pquasi P -> p_vol P = d -> fs_get d s = None -> block_result2 (block_muts (BCreate s)) P d.
Proof.
  intros Hq Hv Hnone. pose proof Hq as [Hd Hs Hf]. rewrite Hv in *.
  assert (E1 : papply P (MCreate s) = mkP (fs_set d s []) (p_dirs P ++ [names (fs_set d s [])]) (fh_set (p_files P) s [[]])).
  { unfold papply. rewrite Hv, Hnone. cbn [apply_mut]. rewrite Hnone. reflexivity. }
  assert (Hother : forall t, In t (names d) -> fh_set (p_files P) s [[]] t = p_files P t).
  { intros t Ht. unfold fh_set. destruct (t =? s) eqn:E; [|reflexivity]. apply N.eqb_eq in E. subst t.
    destruct (in_names_fs_get _ _ Ht) as (c & Hc). congruence. }
  assert (Hend : pquasi (run_pfs P (block_muts (BCreate s)))).
  { cbn [block_muts run_pfs fold_left]. rewrite E1. unfold papply. cbn [p_vol p_dirs p_files apply_mut].
    split; cbn [p_vol p_dirs p_files]; [reflexivity|apply ksorted_fs_set; exact Hs|].
    intros t b H. rewrite fs_get_set in H. destruct (t =? s) eqn:E.
    - injection H as <-. left. unfold fh_set. rewrite E. reflexivity.
    - rewrite Hother by (eapply fs_get_in_names; exact H). apply Hf. exact H. }
  split; [|exact Hend].
  intros j d' Hj Hnp Hcc.
  assert (Hcl : pclean P).
  { apply np_pclean; [exact Hq|]. intros Hp. apply Hnp. revert Hp. apply pending_mono.
    intros D HD t Ht Hn. rewrite Hd in HD. destruct HD as [<-|[]].
    cbn [block_muts length] in Hj. destruct j as [|[|[|j]]]; [| | |lia]; cbn [block_muts firstn run_pfs fold_left].
    - exists (names d). rewrite Hd. split; [left; reflexivity|]. split; assumption.
    - rewrite E1. cbn [p_dirs p_files]. exists (names d). rewrite Hd. split; [left; reflexivity|]. split; [exact Ht|].
      rewrite Hother by exact Ht. exact Hn.
    - rewrite E1. unfold papply. cbn [p_vol p_dirs p_files apply_mut]. exists (names (fs_set d s [])).
      split; [left; reflexivity|]. split; [apply names_fs_set_in; right; exact Ht|]. rewrite Hother by exact Ht. exact Hn. }
  destruct (block_create s P d Hcl Hv Hnone) as (Hst & _ & _). exact (Hst j d' Hj Hcc).
Qed.

(* unlink + directory sync *)
Lemma block2_unlink s P d : pquasi P -> p_vol P = d -> block_result2 (block_muts (BUnlink s)) P d.
Proof.
  intros Hq Hv. pose proof Hq as [Hd Hs Hf]. rewrite Hv in *.
  assert (E1 : papply P (MUnlink s) = mkP (fs_del d s) (p_dirs P ++ [names (fs_del d s)]) (p_files P)).
  { unfold papply. rewrite Hv. reflexivity. }
  assert (Hend : pquasi (run_pfs P (block_muts (BUnlink s)))).
  { cbn [block_muts run_pfs fold_left]. rewrite E1. unfold papply. cbn [p_vol p_dirs p_files apply_mut].
    split; cbn [p_vol p_dirs p_files]; [reflexivity|apply ksorted_fs_del; exact Hs|].
    intros t b H. rewrite fs_get_del in H by exact Hs. destruct (t =? s); [discriminate|apply Hf; exact H]. }
  split; [|exact Hend].
  intros j d' Hj Hnp Hcc. cbn [block_muts length] in Hj.
  destruct (Nat.eq_dec j 2) as [->|Hne].
  - apply (end_clean _ P d d' Hv Hend); assumption.
  - assert (Hcl : pclean P).
    { apply np_pclean; [exact Hq|]. intros Hp. apply Hnp. revert Hp. apply pending_mono.
      intros D HD t Ht Hn. rewrite Hd in HD. destruct HD as [<-|[]].
      destruct j as [|[|j]]; [| |lia]; cbn [block_muts firstn run_pfs fold_left].
      - exists (names d). rewrite Hd. split; [left; reflexivity|]. split; assumption.
      - rewrite E1. cbn [p_dirs p_files]. exists (names d). rewrite Hd. split; [left; reflexivity|]. split; assumption. }
    destruct (block_unlink s P d Hcl Hv) as (Hst & _ & _). exact (Hst j d' Hj Hcc).
Qed.

(* writes into one file, then its fsync *)
Lemma writes_frame : forall xs P s c0,
  ksorted (p_vol P) -> fs_get (p_vol P) s = Some c0 ->
  p_dirs (run_pfs P (map (MWrite s) xs)) = p_dirs P /\
  (forall t, t <> s -> p_files (run_pfs P (map (MWrite s) xs)) t = p_files P t) /\
  p_vol (run_pfs P (map (MWrite s) xs)) = fs_set (p_vol P) s (c0 ++ concat xs) /\
  (exists l, p_files (run_pfs P (map (MWrite s) xs)) s = p_files P s ++ l).
Proof.
  induction xs as [|x xs IH]; intros P s c0 Hs Hg.
  - cbn [map run_pfs fold_left concat]. rewrite app_nil_r. repeat split; auto.
    + symmetry. apply fs_set_same; assumption.
    + exists []. rewrite app_nil_r. reflexivity.
  - cbn [map run_pfs fold_left]. fold (run_pfs (papply P (MWrite s x)) (map (MWrite s) xs)).
    assert (E : papply P (MWrite s x) = mkP (fs_set (p_vol P) s (c0 ++ x)) (p_dirs P)
                                             (fh_set (p_files P) s (p_files P s ++ [c0 ++ x]))).
    { unfold papply. rewrite Hg, (apply_write_present _ _ _ x Hg). reflexivity. }
    rewrite E.
    destruct (IH (mkP (fs_set (p_vol P) s (c0 ++ x)) (p_dirs P) (fh_set (p_files P) s (p_files P s ++ [c0 ++ x]))) s (c0 ++ x))
      as (H1 & H2 & H3 & (l & H4)); cbn [p_vol p_dirs p_files].
    + apply ksorted_fs_set. exact Hs.
    + rewrite fs_get_set, N.eqb_refl. reflexivity.
    + cbn [p_vol p_dirs p_files] in *. repeat split.
      * exact H1.
      * intros t Ht. rewrite (H2 t Ht). unfold fh_set. assert (E2 : (t =? s) = false) by (apply N.eqb_neq; exact Ht). rewrite E2. reflexivity.
      * rewrite H3, fs_set_set. cbn [concat]. rewrite <- app_assoc. reflexivity.
      * exists ([c0 ++ x] ++ l). rewrite H4. unfold fh_set. rewrite N.eqb_refl, <- app_assoc. reflexivity.
Qed.

Lemma block2_writes s xs P d :
  pquasi P -> p_vol P = d -> (exists c0, fs_get d s = Some c0) -> block_result2 (block_muts (BWrites s xs)) P d.
Proof.
  intros Hq Hv (c0 & Hg). pose proof Hq as [Hd Hs Hf]. rewrite Hv in *.
  assert (Hgv : fs_get (p_vol P) s = Some c0) by (rewrite Hv; exact Hg).
  assert (Hsv : ksorted (p_vol P)) by (rewrite Hv; exact Hs).
  (* the state after the fsync *)
  assert (Hfull : run_pfs P (block_muts (BWrites s xs)) = papply (run_pfs P (map (MWrite s) xs)) (MSync s)).
  { cbn [block_muts]. unfold run_pfs. rewrite fold_left_app. reflexivity. }
  destruct (writes_frame xs P s c0 Hsv Hgv) as (F1 & F2 & F3 & _). rewrite Hv in F3.
  assert (Hend : pquasi (run_pfs P (block_muts (BWrites s xs)))).
  { rewrite Hfull.
    assert (Hget : fs_get (p_vol (run_pfs P (map (MWrite s) xs))) s = Some (c0 ++ concat xs))
      by (rewrite F3, fs_get_set, N.eqb_refl; reflexivity).
    assert (E : papply (run_pfs P (map (MWrite s) xs)) (MSync s)
                = mkP (p_vol (run_pfs P (map (MWrite s) xs))) (p_dirs (run_pfs P (map (MWrite s) xs)))
                      (fh_set (p_files (run_pfs P (map (MWrite s) xs))) s [c0 ++ concat xs])).
    { unfold papply. rewrite Hget. reflexivity. }
    rewrite E.
    split; cbn [p_vol p_dirs p_files]; rewrite ?F3.
    - rewrite F1, Hd. f_equal. symmetry. eapply names_fs_set_present; eassumption.
    - apply ksorted_fs_set. exact Hs.
    - intros t b Hb. rewrite fs_get_set in Hb. unfold fh_set. destruct (t =? s) eqn:E.
      + injection Hb as <-. left. reflexivity.
      + apply N.eqb_neq in E. rewrite (F2 t E). apply Hf. exact Hb. }
  split; [|exact Hend].
  intros j d' Hj Hnp Hcc.
  assert (Hlen : length (block_muts (BWrites s xs)) = S (length xs)).
  { cbn [block_muts]. rewrite app_length, map_length. cbn [length]. lia. }
  destruct (Nat.eq_dec j (S (length xs))) as [->|Hne].
  - rewrite <- Hlen in Hnp, Hcc. rewrite firstn_all in Hnp, Hcc. apply (end_clean _ P d d' Hv Hend); assumption.
  - assert (Hle : (j <= length xs)%nat) by lia.
    assert (Hfj : firstn j (block_muts (BWrites s xs)) = map (MWrite s) (firstn j xs)).
    { cbn [block_muts]. rewrite firstn_app, map_length. replace (j - length xs)%nat with 0%nat by lia.
      cbn [firstn]. rewrite app_nil_r. apply firstn_map. }
    assert (Hcl : pclean P).
    { apply np_pclean; [exact Hq|]. intros Hp. apply Hnp. revert Hp. apply pending_mono.
      intros D HD t Ht Hn. rewrite Hfj.
      destruct (writes_frame (firstn j xs) P s c0 Hsv Hgv) as (G1 & G2 & _ & (l & G4)).
      exists D. rewrite G1. split; [exact HD|]. split; [exact Ht|].
      destruct (N.eq_dec t s) as [->|Hts]; [rewrite G4; apply not_ao_app; exact Hn|rewrite (G2 t Hts); exact Hn]. }
    destruct (block_writes s xs P d Hcl Hv (ex_intro _ c0 Hg)) as (Hst & _ & _). exact (Hst j d' Hj Hcc).
Qed.

(* an ftruncate that is not followed by an fsync: the file becomes pending *)
Lemma block2_trunc s n P d :
  pquasi P -> p_vol P = d -> (exists c, fs_get d s = Some c /\ n < blen c) -> block_result2 [MTruncate s n] P d.
Proof.
  intros Hq Hv (c & Hg & Hn). pose proof Hq as [Hd Hs Hf]. rewrite Hv in *.
  assert (E1 : papply P (MTruncate s n) = mkP (fs_set d s (firstn (N.to_nat n) c)) (p_dirs P)
                 (fh_set (p_files P) s (p_files P s ++ [firstn (N.to_nat n) c]))).
  { unfold papply. rewrite Hv, Hg. cbn [apply_mut]. unfold fs_upd. rewrite Hg. reflexivity. }
  assert (Hpend : ~ append_only (p_files P s ++ [firstn (N.to_nat n) c])).
  { destruct (Hf s c Hg) as [E|Hna]; [rewrite E; apply not_ao_trunc; exact Hn|apply not_ao_app; exact Hna]. }
  split.
  - intros j d' Hj Hnp Hcc. cbn [length] in Hj. destruct j as [|[|j]]; [| |lia].
    + cbn [firstn run_pfs fold_left] in *.
      pose proof (clean_states P d' (np_pclean P Hq Hnp) Hcc) as E.
      apply (in_prefix_none _ _ 0%nat); [cbn; lia|]. rewrite E, Hv. reflexivity.
    + exfalso. apply Hnp. cbn [firstn run_pfs fold_left]. rewrite E1. cbn [p_dirs p_files].
      exists (names d), s. rewrite Hd. split; [left; reflexivity|]. split; [eapply fs_get_in_names; exact Hg|].
      unfold fh_set. rewrite N.eqb_refl. exact Hpend.
  - cbn [run_pfs fold_left]. rewrite E1. split; cbn [p_vol p_dirs p_files].
    + rewrite Hd. f_equal. symmetry. eapply names_fs_set_present; eassumption.
    + apply ksorted_fs_set. exact Hs.
    + intros t b Hb. rewrite fs_get_set in Hb. unfold fh_set. destruct (t =? s) eqn:E.
      * right. exact Hpend.
      * apply Hf. exact Hb.
Qed.

Lemma block2_power b P d : pquasi P -> p_vol P = d -> block2_ok d b -> block_result2 (block2_muts b) P d.
Proof.
  intros Hq Hv Hok. destruct b as [[s|s|s xs]|s n]; cbn [block2_muts block2_ok] in *.
  - apply block2_create; assumption.
  - apply block2_unlink; assumption.
  - apply block2_writes; assumption.
  - apply block2_trunc; assumption.
Qed.

Theorem pl_blocks2 : forall bs P d,
  pquasi P -> p_vol P = d -> blocks2_ok d bs ->
  (forall j d', (j <= length (blocks2_muts bs))%nat ->
                ~ pending_ftruncate (run_pfs P (firstn j (blocks2_muts bs))) ->
                crash_cache (run_pfs P (firstn j (blocks2_muts bs))) d' -> in_prefix d (blocks2_muts bs) d') /\
  pquasi (run_pfs P (blocks2_muts bs)).
Proof.
  induction bs as [|b bs IH]; intros P d Hq Hv Hok.
  - cbn [blocks2_muts map concat]. split; [|exact Hq].
    intros j d' Hj Hnp Hcc. destruct j; [|cbn in Hj; lia]. cbn [firstn run_pfs fold_left] in *.
    apply (in_prefix_none _ _ 0%nat); [cbn; lia|]. rewrite (clean_states P d' (np_pclean P Hq Hnp) Hcc), Hv. reflexivity.
  - destruct Hok as [Hb Hrest].
    destruct (block2_power b P d Hq Hv Hb) as (Hst & Hq1).
    change (blocks2_muts (b :: bs)) with (block2_muts b ++ blocks2_muts bs).
    assert (Hv1 : p_vol (run_pfs P (block2_muts b)) = apply_muts d (block2_muts b)) by (rewrite run_pfs_vol, Hv; reflexivity).
    destruct (IH (run_pfs P (block2_muts b)) (apply_muts d (block2_muts b)) Hq1 Hv1 Hrest) as (Hst2 & Hq2).
    split.
    + intros j d' Hj Hnp Hcc.
      destruct (Nat.le_gt_cases j (length (block2_muts b))) as [Hle|Hgt].
      * apply in_prefix_app_l.
        assert (Ef : firstn j (block2_muts b ++ blocks2_muts bs) = firstn j (block2_muts b)).
        { rewrite firstn_app. replace (j - length (block2_muts b))%nat with 0%nat by lia. cbn [firstn]. apply app_nil_r. }
        rewrite Ef in Hnp, Hcc. exact (Hst j d' Hle Hnp Hcc).
      * apply in_prefix_app_r.
        assert (Ef : run_pfs P (firstn j (block2_muts b ++ blocks2_muts bs))
                     = run_pfs (run_pfs P (block2_muts b)) (firstn (j - length (block2_muts b)) (blocks2_muts bs))).
        { rewrite firstn_app, (firstn_all2 (block2_muts b)) by lia. apply run_pfs_app. }
        rewrite Ef in Hnp, Hcc. apply (Hst2 (j - length (block2_muts b))%nat d'); try assumption.
        rewrite app_length in Hj. lia.
    + rewrite run_pfs_app. exact Hq2.
Qed.
