(* C06/Props.v — property-level theorems only. Tags [FULL]/[PARTIAL]/[REFUTED] are read by bin/check. *)
From Coq Require Import List NArith ZArith.
From BLB Require Import Lib.CRC C06.Model C06.Spec C06.Proofs C06.ProofsRefuted C06.ProofsRecover C06.ProofsCrash C06.ProofsCache.
Import ListNotations.
Open Scope N_scope.

(* [FULL] record codec round trip: for every id below 2^64, every payload up to MaxRecordDataLen and every
   following file content, deserializeRecord applied to serialize(r) followed by rest returns exactly r, its
   stored checksum, and leaves exactly rest unread *)
Theorem record_codec_roundtrip :
  forall r rest, valid_rec r ->
    parse_one (serialize r ++ rest) = PRec r (rec_csum (rid r) (rdata r)) rest.
Proof. exact parse_one_serialize. Qed.
Print Assumptions record_codec_roundtrip.

(* [FULL] a damaged record is never returned as data under the property's crash quantifier: no strict prefix of
   a serialized record, at any cut position, for any id, length and payload, parses as a record; the reader
   answers EOF for the empty prefix and unexpected-EOF for every other one *)
Theorem wal_torn_never_data :
  forall r n, valid_rec r -> (n < length (serialize r))%nat ->
    parse_one (firstn n (serialize r)) = if (n =? 0)%nat then PEof else PTorn.
Proof. exact parse_one_torn. Qed.
Print Assumptions wal_torn_never_data.

(* [FULL] reading a whole file that consists of complete valid records followed by nothing or by a torn record
   returns exactly those records with their checksums, the offset where the torn tail starts, and whether there
   is one, whatever the number and sizes of the records *)
Theorem wal_file_read_exact :
  forall rs t, Forall valid_rec rs -> torn_tail t ->
    parse_file (file_of rs ++ t) = (map with_csum rs, blen (file_of rs), tail_status t).
Proof. exact parse_file_wf. Qed.
Print Assumptions wal_file_read_exact.

(* [REFUTED] crash atomicity is false for the code as it stands, witness F1: roll threshold 40, Append of a
   30-byte record, then an Append that rolls, crash right after the new file was created. The reopened log
   reports LastID 0, accepts any id and iterates nothing from position 2 -- f1_witness_facts *)
Theorem wal_crash_refuted_after_roll :
  exists maxsz ops i j cut,
    0 < maxsz /\ Forall valid_op ops /\ hd_error ops = Some OReopen /\
    ~ crash_atomic_at unfixed maxsz ops i j cut.
Proof. exact f1_refuted_packed. Qed.
Print Assumptions wal_crash_refuted_after_roll.

(* [REFUTED] crash atomicity is false for the code as it stands, witness F2: the first record ever written is
   torn after 5 bytes, OpenFSLog then fails because the torn tail is truncated through a read-only descriptor *)
Theorem wal_crash_refuted_torn_first_record :
  exists maxsz ops i j cut,
    0 < maxsz /\ Forall valid_op ops /\ hd_error ops = Some OReopen /\
    ~ crash_atomic_at unfixed maxsz ops i j cut.
Proof. exact f2_refuted_packed. Qed.
Print Assumptions wal_crash_refuted_torn_first_record.

(* [FULL] recovery, repaired code: for every directory of the shape a crash can leave -- consecutively numbered
   files of complete valid records forming a gap-free run, every file but the last non-empty, the last one possibly
   empty (crash right after a roll) and possibly followed by a torn record (torn final write, including a torn
   FIRST record) -- and every roll threshold, OpenFSLog succeeds and the reopened log iterates exactly the records
   of the directory with their bytes, FirstID and LastID are the ends of that run, and Append accepts exactly the
   next id (any id when there is no record). This is the statement that findings F1 and F2 falsify for the code as
   it stands *)
Theorem wal_recovery_exact :
  forall maxsz s0 gs t, crash_shape gs t ->
    exists l d' ms,
      open_log repaired maxsz (dir_of s0 gs t) = (0%Z, Some l, d', ms) /\
      log_iterate repaired l d' 0 = (0%Z, map with_csum (concat gs)) /\
      first_id l = first_of (concat gs) /\ last_id l = last_of (concat gs) /\
      (forall id, id < two64 ->
         append_accepts repaired l d' id = true <->
         (concat gs = [] \/ id = (fst (last_of (concat gs)) + 1) mod two64)).
Proof.
  intros maxsz s0 gs t H. destruct (recovery_exact maxsz s0 gs t H) as (l & d' & ms & Ho & [H1 H2 H3 H4]).
  exists l, d', ms. repeat split; try assumption; apply H4; assumption.
Qed.
Print Assumptions wal_recovery_exact.

(* [PARTIAL] crash atomicity of the repaired code for every scenario made of Append batches and Close/Open, every
   roll threshold above 0, every crash point between two file-system mutations and every cut of the write in
   flight: OpenFSLog succeeds and yields a gap-free run containing every acknowledged record with its bytes,
   followed by at most a prefix of the batch in flight, FirstID and LastID agree with iteration and only the
   next id can be appended. Partial because the scenario alphabet leaves out Truncate and Trim, see
   wal_crash_atomic below or not_yet_proved *)
Theorem wal_crash_atomic_append_reopen :
  forall (maxsz : N) (ops : list wal_op) (i j : nat) (cut : option N),
    0 < maxsz -> Forall valid_op ops -> Forall ar_op ops ->
    crash_atomic_at repaired maxsz ops i j cut.
Proof. exact crash_atomic_append_reopen. Qed.
Print Assumptions wal_crash_atomic_append_reopen.

(* [FULL] cache transparency over the reference log: for every capacity of at least 1 and every sequence of
   Append batches that are accepted, Truncates and Trims starting from an empty log, iteration through walCache from
   any position returns exactly what iteration of the underlying log returns, cache hit or not. FirstID and LastID
   are passed through by the code. The underlying log here is the memLog model, the repository's reference
   semantics. Ids stay below 2^64 - 1, and a run ends at the first Append error as raft stops there *)
Theorem wal_cache_transparent :
  forall (cap : N) (ops : list cop) (c : cache) (m : memlog),
    0 < cap -> Forall cop_room ops ->
    crun (cache_new cap, []) ops = Some (c, m) ->
    forall fx d start, c_iterate fx (Some c) (UMem m) d start = u_iterate fx (UMem m) d start.
Proof. exact cache_transparent. Qed.
Print Assumptions wal_cache_transparent.
