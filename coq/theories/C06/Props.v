(* C06/Props.v — property-level theorems only. Tags [FULL]/[PARTIAL]/[REFUTED] are read by bin/check. *)
From Coq Require Import List NArith.
From BLB Require Import Lib.CRC C06.Model.
Import ListNotations.
