(* C06/Props.v — property-level theorems only. Tags [FULL]/[PARTIAL]/[REFUTED] are read by bin/check. *)
From Coq Require Import List NArith ZArith.
From BLB Require Import Lib.CRC C06.Model C06.Spec C06.Proofs C06.ProofsRefuted.
Import ListNotations.
Open Scope N_scope.

(* [FULL] record codec round trip: for every id below 2^64, every payload up to MaxRecordDataLen and every
   following file content, deserializeRecord applied to serialize(r) followed by rest returns exactly r, its
   stored checksum, and leaves exactly rest unread *)
Theorem record_codec_roundtrip :
  forall r rest, valid_rec r ->
    parse_one (serialize r ++ rest) = PRec r (rec_csum (rid r) (rdata r)) rest.
Proof. exact parse_one_serialize. Qed.
Print Assumptions record_codec_roundtrip.

(* [FULL] a damaged record is never returned as data under the property's crash quantifier: no strict prefix of
   a serialized record, at any cut position, for any id, length and payload, parses as a record; the reader
   answers EOF for the empty prefix and unexpected-EOF for every other one *)
Theorem wal_torn_never_data :
  forall r n, valid_rec r -> (n < length (serialize r))%nat ->
    parse_one (firstn n (serialize r)) = if (n =? 0)%nat then PEof else PTorn.
Proof. exact parse_one_torn. Qed.
Print Assumptions wal_torn_never_data.

(* [FULL] reading a whole file that consists of complete valid records followed by nothing or by a torn record
   returns exactly those records with their checksums, the offset where the torn tail starts, and whether there
   is one, whatever the number and sizes of the records *)
Theorem wal_file_read_exact :
  forall rs t, Forall valid_rec rs -> torn_tail t ->
    parse_file (file_of rs ++ t) = (map with_csum rs, blen (file_of rs), tail_status t).
Proof. exact parse_file_wf. Qed.
Print Assumptions wal_file_read_exact.

(* [REFUTED] crash atomicity is false for the code as it stands, witness F1: roll threshold 40, Append of a
   30-byte record, then an Append that rolls, crash right after the new file was created. The reopened log
   reports LastID 0, accepts any id and iterates nothing from position 2 -- f1_witness_facts *)
Theorem wal_crash_refuted_after_roll :
  exists maxsz ops i j cut,
    0 < maxsz /\ Forall valid_op ops /\ hd_error ops = Some OReopen /\
    ~ crash_atomic_at unfixed maxsz ops i j cut.
Proof. exact f1_refuted_packed. Qed.
Print Assumptions wal_crash_refuted_after_roll.

(* [REFUTED] crash atomicity is false for the code as it stands, witness F2: the first record ever written is
   torn after 5 bytes, OpenFSLog then fails because the torn tail is truncated through a read-only descriptor *)
Theorem wal_crash_refuted_torn_first_record :
  exists maxsz ops i j cut,
    0 < maxsz /\ Forall valid_op ops /\ hd_error ops = Some OReopen /\
    ~ crash_atomic_at unfixed maxsz ops i j cut.
Proof. exact f2_refuted_packed. Qed.
Print Assumptions wal_crash_refuted_torn_first_record.
