(* C06/Props.v — property-level theorems only. Tags [FULL]/[PARTIAL]/[REFUTED] are read by bin/check. *)
From Coq Require Import List NArith ZArith.
From BLB Require Import Lib.CRC Lib.CRCProofs C06.Model C06.Spec C06.Proofs C06.ProofsRefuted C06.ProofsRecover C06.ProofsCrash C06.ProofsCache C06.ProofsTrim C06.ProofsBurst C06.ProofsRefine C06.ProofsCacheFs C06.ProofsEntry C06.CrashCache C06.ProofsPower C06.ProofsMem.
Import ListNotations.
Open Scope N_scope.

(* [FULL] record codec round trip: for every id below 2^64, every payload up to MaxRecordDataLen and every
   following file content, deserializeRecord applied to serialize(r) followed by rest returns exactly r, its
   stored checksum, and leaves exactly rest unread *)
Theorem record_codec_roundtrip :
  forall r rest, valid_rec r ->
    parse_one (serialize r ++ rest) = PRec r (rec_csum (rid r) (rdata r)) rest.
Proof. exact parse_one_serialize. Qed.
Print Assumptions record_codec_roundtrip.

(* [FULL] a damaged record is never returned as data under the property's crash quantifier: no strict prefix of
   a serialized record, at any cut position, for any id, length and payload, parses as a record; the reader
   answers EOF for the empty prefix and unexpected-EOF for every other one *)
Theorem wal_torn_never_data :
  forall r n, valid_rec r -> (n < length (serialize r))%nat ->
    parse_one (firstn n (serialize r)) = if (n =? 0)%nat then PEof else PTorn.
Proof. exact parse_one_torn. Qed.
Print Assumptions wal_torn_never_data.

(* [FULL] reading a whole file that consists of complete valid records followed by nothing or by a torn record
   returns exactly those records with their checksums, the offset where the torn tail starts, and whether there
   is one, whatever the number and sizes of the records *)
Theorem wal_file_read_exact :
  forall rs t, Forall valid_rec rs -> torn_tail t ->
    parse_file (file_of rs ++ t) = (map with_csum rs, blen (file_of rs), tail_status t).
Proof. exact parse_file_wf. Qed.
Print Assumptions wal_file_read_exact.

(* [REFUTED] crash atomicity is false for the code as it stands, witness F1: roll threshold 40, Append of a
   30-byte record, then an Append that rolls, crash right after the new file was created. The reopened log
   reports LastID 0, accepts any id and iterates nothing from position 2 -- f1_witness_facts *)
Theorem wal_crash_refuted_after_roll :
  exists maxsz ops i j cut,
    0 < maxsz /\ Forall valid_op ops /\ hd_error ops = Some OReopen /\
    ~ crash_atomic_at unfixed maxsz ops i j cut.
Proof. exact f1_refuted_packed. Qed.
Print Assumptions wal_crash_refuted_after_roll.

(* [REFUTED] crash atomicity is false for the code as it stands, witness F2: the first record ever written is
   torn after 5 bytes, OpenFSLog then fails because the torn tail is truncated through a read-only descriptor *)
Theorem wal_crash_refuted_torn_first_record :
  exists maxsz ops i j cut,
    0 < maxsz /\ Forall valid_op ops /\ hd_error ops = Some OReopen /\
    ~ crash_atomic_at unfixed maxsz ops i j cut.
Proof. exact f2_refuted_packed. Qed.
Print Assumptions wal_crash_refuted_torn_first_record.

(* [FULL] recovery, repaired code: for every directory of the shape a crash can leave -- consecutively numbered
   files of complete valid records forming a gap-free run, every file but the last non-empty, the last one possibly
   empty (crash right after a roll) and possibly followed by a torn record (torn final write, including a torn
   FIRST record) -- and every roll threshold, OpenFSLog succeeds and the reopened log iterates exactly the records
   of the directory with their bytes, FirstID and LastID are the ends of that run, and Append accepts exactly the
   next id (any id when there is no record). This is the statement that findings F1 and F2 falsify for the code as
   it stands *)
Theorem wal_recovery_exact :
  forall maxsz s0 gs t, crash_shape gs t ->
    exists l d' ms,
      open_log repaired maxsz (dir_of s0 gs t) = (0%Z, Some l, d', ms) /\
      log_iterate repaired l d' 0 = (0%Z, map with_csum (concat gs)) /\
      first_id l = first_of (concat gs) /\ last_id l = last_of (concat gs) /\
      (forall id, id < two64 ->
         append_accepts repaired l d' id = true <->
         (concat gs = [] \/ id = (fst (last_of (concat gs)) + 1) mod two64)).
Proof.
  intros maxsz s0 gs t H. destruct (recovery_exact maxsz s0 gs t H) as (l & d' & ms & Ho & [H1 H2 H3 H4]).
  exists l, d', ms. repeat split; try assumption; apply H4; assumption.
Qed.
Print Assumptions wal_recovery_exact.

(* [FULL] crash atomicity of the repaired code, the statement of DESIGN appendix C: for every roll threshold above 0,
   every scenario of Append batches, Truncate, Trim and Close/Open starting with the creation of the log, every
   crash point between two file-system mutations -- file creation, each write, each sync, each unlink, each
   directory sync, truncate -- and every cut of the write in flight, OpenFSLog succeeds and yields a gap-free run
   that contains every acknowledged and not removed record with exactly its bytes, followed by at most a prefix of
   the batch in flight and nothing that was never appended, FirstID and LastID are the ends of what iteration
   returns, and exactly the next id can be appended. Records are at most MaxRecordDataLen long and ids stay below
   2^64 - 1. Trim being a hint, the oracle follows the first id the log reports after a Trim, which the theorem
   bounds by the hint through must_of *)
Theorem wal_crash_atomic :
  forall (maxsz : N) (ops : list wal_op) (i j : nat) (cut : option N),
    0 < maxsz -> Forall valid_op ops ->
    crash_atomic_at repaired maxsz ops i j cut.
Proof. exact crash_atomic_all. Qed.
Print Assumptions wal_crash_atomic.

(* [FULL] refinement of the abstract gap-free log without crashes, repaired code: for every roll threshold above 0,
   after every sequence of Appends, Truncates, Trims and reopens following the creation of the log, FirstID and
   LastID are the ends of the abstract log, iteration from ANY start position returns exactly the abstract records
   with id at or above it with their bytes, and for every next operation the result code and the new abstract
   state are those of the abstract log: Append is accepted exactly when the batch is consecutive and continues the
   log or the log is empty, a rejected batch changes nothing, Truncate keeps exactly the ids up to k, and Trim is
   the documented relation, it discards some prefix of records with ids at most the hint and never empties a
   non-empty log. Records up to MaxRecordDataLen, ids below 2^64 - 1 *)
Theorem wal_refines_spec :
  forall (maxsz : N) (ops : list wal_op) (op : wal_op),
    0 < maxsz -> Forall valid_op ops -> valid_op op ->
    let lv := run_ops repaired maxsz (OReopen :: ops) in
    let acked := lv_acked lv in
    exists l, lv_log lv = Some l /\
      first_id l = first_of acked /\ last_id l = last_of acked /\
      (forall start, log_iterate repaired l (lv_fs lv) start
                     = (0%Z, map with_csum (filter (fun r => start <=? rid r) acked))) /\
      fst (fst (fst (op_run repaired maxsz lv op))) = spec_rc acked op /\
      spec_step acked op (lv_acked (step_live repaired maxsz lv op)).
Proof. exact refines_spec. Qed.
Print Assumptions wal_refines_spec.

(* [FULL] cache transparency over the file-system log, repaired code: for every capacity of at least 1 and every
   roll threshold above 0, after every sequence of operations on walCache over the fs log in which every Append is
   accepted -- a run ends at the first Append error as raft stops there -- iteration through the cache from any
   start position returns exactly what the underlying fs log returns. Obtained by composing wal_refines_spec with
   the cache invariant through the abstract log *)
Theorem wal_cache_transparent_fs :
  forall (maxsz : N), 0 < maxsz ->
  forall (cap : N) (ops : list wal_op) (c : cache) (lv : live),
    0 < cap -> Forall valid_op ops ->
    cfs_run maxsz (cache_new cap, run_ops repaired maxsz [OReopen]) ops = Some (c, lv) ->
    exists l, lv_log lv = Some l /\
      forall start, c_iterate repaired (Some c) (UFs l) (lv_fs lv) start = u_iterate repaired (UFs l) (lv_fs lv) start.
Proof. exact cache_transparent_fs. Qed.
Print Assumptions wal_cache_transparent_fs.

(* [FULL] raft entry codec round trip, raft/log.go: for every type byte, every term below 2^64 and every command,
   deserializeEntry applied to serializeEntry of the entry returns the entry -- format byte 0x80, type, uvarint
   term of 1 to 10 bytes, command -- in particular Uvarint reads back what PutUvarint wrote *)
Theorem entry_codec_roundtrip :
  forall e, e_term e < 2 ^ 64 -> deserialize_entry (serialize_entry e) = (0%Z, e).
Proof. exact entry_roundtrip. Qed.
Print Assumptions entry_codec_roundtrip.

(* [FULL] cache transparency over the reference log: for every capacity of at least 1 and every sequence of
   Append batches that are accepted, Truncates and Trims starting from an empty log, iteration through walCache from
   any position returns exactly what iteration of the underlying log returns, cache hit or not. FirstID and LastID
   are passed through by the code. The underlying log here is the memLog model, the repository's reference
   semantics. Ids stay below 2^64 - 1, and a run ends at the first Append error as raft stops there *)
Theorem wal_cache_transparent :
  forall (cap : N) (ops : list cop) (c : cache) (m : memlog),
    0 < cap -> Forall cop_room ops ->
    crun (cache_new cap, []) ops = Some (c, m) ->
    forall fx d start, c_iterate fx (Some c) (UMem m) d start = u_iterate fx (UMem m) d start.
Proof. exact cache_transparent. Qed.
Print Assumptions wal_cache_transparent.

(* [FULL] a damaged record is never returned as data, media corruption part: if the stored bytes of a valid record
   are altered by a single burst of at most 32 flipped bits placed anywhere in the id, the payload or the checksum
   but not in the 4 length bytes, the reader answers ErrCorruptData. Stated limit, outside the crash quantifier of
   C06: damage to the length field moves the position from which the checksum is read, so its detection is only
   probabilistic *)
Theorem wal_burst_detected :
  forall r (idb' d' cf' rest : bytes),
    valid_rec r ->
    length idb' = 8%nat -> length d' = length (rdata r) -> length cf' = 4%nat -> Forall (fun x => x < 256) cf' ->
    burst_error (bits_of ((rec_header (rid r) (blen (rdata r)) ++ rdata r) ++ le32 (rec_csum (rid r) (rdata r))))
                (bits_of ((idb' ++ le32 (blen (rdata r)) ++ d') ++ cf')) ->
    parse_one (idb' ++ le32 (blen (rdata r)) ++ d' ++ cf' ++ rest) = PCorrupt.
Proof. exact burst_detected. Qed.
Print Assumptions wal_burst_detected.

(* [FULL] sync discipline of the repaired code, the part of power-loss safety that the property's quantifier -- every
   prefix of the last unsynced write -- depends on: in every reachable state an acknowledged non-empty Append
   performs exactly, in this order, an optional create of a new file followed by a directory sync, one write per
   record into one file, and an fsync of that file, so no acknowledged byte is left unsynced. Trim and the
   deletions of Truncate are unlinks each followed by a directory sync, Truncate ends with at most one ftruncate immediately followed by the fsync of that file,
   and reopening a live log mutates nothing. The mutation traces of the real code are compared with these on
   every run, and the harness judges the states in which unsynced bytes vanish *)
Theorem wal_sync_discipline :
  forall (maxsz : N) (ops : list wal_op) (op : wal_op),
    0 < maxsz -> Forall valid_op ops -> valid_op op ->
    let lv := run_ops repaired maxsz (OReopen :: ops) in
    let '(rc, _, _, ms) := op_run repaired maxsz lv op in
    match op with
    | OAppend recs =>
      rc = 0%Z -> recs <> [] ->
      exists s pre, ms = pre ++ map (wr s) recs ++ [MSync s] /\ (pre = [] \/ pre = [MCreate s; MDirSync])
    | OTrim _ => dir_ops_synced ms
    | OTruncate _ => exists U T, ms = U ++ T /\ dir_ops_synced U /\ (T = [] \/ exists s o, T = [MTruncate s o; MSync s])
    | OReopen => ms = []
    end.
Proof. exact sync_discipline. Qed.
Print Assumptions wal_sync_discipline.

(* [FULL] crash_prefix is included in crash_cache: for every cache state whose histories end in the volatile state,
   every mutation list, every crash point j and every cut of the write in flight, the prefix-crash state -- the
   first j mutations applied, the write j cut at any byte -- is one of the power-loss states of the write-back
   cache model of CrashCache.v, in which the directory is any of its versions since the last directory sync and
   every file any of its versions since its last fsync or a torn state between two of them *)
Theorem crash_prefix_in_crash_cache :
  forall P ms j cut,
    pwf P -> (j <= length ms)%nat -> cut_ok ms j cut ->
    crash_cache (run_pfs P (firstn (match cut with None => j | Some _ => S j end) ms)) (crash_fs (p_vol P) ms j cut).
Proof. exact prefix_in_cache. Qed.
Print Assumptions crash_prefix_in_crash_cache.


(* [REFUTED] regression witness for finding F25, about the code BEFORE 09d27e0 in which logFile.Truncate did not
   fsync after its ftruncate, model variant repaired_nots: power-loss safety was false. Roll threshold 40: Append of
   records 1,2,3 in one batch, Truncate to 2 which cuts inside the file, Append of a new record 3 which rolls to a
   new file and fsyncs only that one, all acknowledged. After a power loss the old file may still end with the
   removed record 3 and the reopened log iterates ids 1,2,3,3 which is not gap-free, on which raft stops with Fatalf
   at every start. The monitor reports the same states on the real code if the fsync is ever removed *)
Theorem wal_powerloss_refuted_unsynced_ftruncate :
  exists maxsz ops i j, 0 < maxsz /\ Forall valid_op ops /\ ~ powerloss_at repaired_nots maxsz ops i j.
Proof. exact pl_refuted_packed. Qed.
Print Assumptions wal_powerloss_refuted_unsynced_ftruncate.

(* [FULL] power-loss safety of the code as it stands, unconditional: for every roll threshold above 0, every scenario
   of Appends, Truncates, Trims and reopens, every crash point and EVERY crash_cache state at that point -- un-synced
   bytes absent or present up to any prefix, an un-synced ftruncate undone, a created file absent until the directory
   sync, an unlinked file still present until the directory sync -- reopening yields a gap-free run containing every
   acknowledged and not removed record with its bytes, followed by at most a prefix of the unacknowledged batch, with
   the FirstID, LastID and Append clauses of wal_crash_atomic. This theorem needs the fsync at the end of every
   Append, the directory sync after every create and unlink, and the fsync after the ftruncate of Truncate, 09d27e0 *)
Theorem wal_powerloss :
  forall (maxsz : N) (ops : list wal_op) (i j : nat),
    0 < maxsz -> Forall valid_op ops -> powerloss_at repaired maxsz ops i j.
Proof. exact powerloss_all. Qed.
Print Assumptions wal_powerloss.

(* [FULL] memLog, the reference implementation, refines the abstract log with the documented Trim relation under
   the batch discipline of the harness -- a batch is acceptable as a whole or its FIRST id is already wrong: same
   result code, same new state for Append and Truncate, Trim discards exactly the records up to the hint, and the
   log stays gap-free *)
Theorem memlog_refines_spec :
  forall m op,
    gap_free m = true -> Forall id_room m -> valid_op op ->
    (forall recs, op = OAppend recs -> spec_accepts m recs = true \/ first_id_wrong m recs) ->
    fst (mem_step m op) = spec_rc m op /\ spec_step_doc m op (snd (mem_step m op)) /\
    gap_free (snd (mem_step m op)) = true.
Proof. exact memlog_refines. Qed.
Print Assumptions memlog_refines_spec.

(* [REFUTED] without that discipline memLog does not refine the abstract log, witness: on the log 1 the batch 2,9 is
   rejected by the abstract log and by fsLog without any effect, while memLog appends record 2 before it reports the
   error. A difference between the two implementations of wal.Log, harmless for raft which stops on any Append
   error *)
Theorem memlog_partial_batch_refuted :
  mem_step [mr1] (OAppend [mr2; mr9]) = (1%Z, [mr1; mr2]) /\
  spec_accepts [mr1] [mr2; mr9] = false /\
  ~ spec_step_doc [mr1] (OAppend [mr2; mr9]) (snd (mem_step [mr1] (OAppend [mr2; mr9]))).
Proof. exact memlog_partial_batch. Qed.
Print Assumptions memlog_partial_batch_refuted.
