(* C06/ProofsRefuted.v — the two witnesses against crash atomicity of the code as it stands (findings F1, F2),
   by computation on the model with all repairs switched off; and the same two crash points on the repaired model. *)
From Coq Require Import List NArith ZArith Bool Lia.
From BLB Require Import Lib.CRC Lib.CRCFast C06.Model C06.Spec.
Import ListNotations.
Open Scope N_scope.

Definition r1 : record := mkRec 1 (repeat 7 30).
Definition r2 : record := mkRec 2 [9].

(* F1: roll threshold 40; Append(1: 30 bytes) fills file 0 (46 bytes); Append(2) rolls: create file 1, dir sync,
   write, sync. Crash after the create (j = 1). *)
Definition f1_ops : list wal_op := [OReopen; OAppend [r1]; OAppend [r2]].
(* F2: the very first record of a file is torn after 5 bytes *)
Definition f2_ops : list wal_op := [OReopen; OAppend [r1]].

Lemma f1_witness_facts :
  exists l d ms,
    open_log unfixed 40 (crash_fs (lv_fs (run_ops unfixed 40 (firstn 2 f1_ops)))
                                  (snd (op_run unfixed 40 (run_ops unfixed 40 (firstn 2 f1_ops)) (OAppend [r2]))) 1 None)
      = (0%Z, Some l, d, ms) /\
    map fst (snd (log_iterate unfixed l d 0)) = [r1] /\     (* the acknowledged record is still there ... *)
    last_id l = (0, false) /\                               (* ... but LastID reports 0 *)
    append_accepts unfixed l d 1000 = true /\               (* any id can be appended (gap) *)
    log_iterate unfixed l d 2 = (0%Z, []).
Proof. do 3 eexists. split; [vm_compute; reflexivity|]. repeat split; vm_compute; reflexivity. Qed.

Ltac run_op_concrete H :=
  match type of H with
  | context [op_run ?fx ?m ?lv ?op] =>
    let E := fresh "E" in
    destruct (op_run fx m lv op) as [[[?rc ?ol] ?d] ?ms] eqn:E;
    vm_compute in E; inversion E; subst; clear E
  end.

Lemma f1_refuted : ~ crash_atomic_at unfixed 40 f1_ops 2 1 None.
Proof.
  unfold crash_atomic_at. cbn [nth_error f1_ops].
  intros H. run_op_concrete H.
  assert (Hj : (1 <= 4)%nat) by lia.
  specialize (H Hj I).
  destruct H as (l & d' & ms & recs & Hopen & Hit & _ & _ & _ & _ & Hlast & _).
  vm_compute in Hopen. inversion Hopen; subst; clear Hopen.
  vm_compute in Hit. inversion Hit; subst; clear Hit.
  vm_compute in Hlast. discriminate Hlast.
Qed.

Lemma f2_refuted : ~ crash_atomic_at unfixed 40 f2_ops 1 0 (Some 5).
Proof.
  unfold crash_atomic_at. cbn [nth_error f2_ops].
  intros H. run_op_concrete H.
  assert (Hj : (0 <= 2)%nat) by lia.
  specialize (H Hj).
  match type of H with
  | cut_ok ?ms _ _ -> _ =>
    assert (Hc : cut_ok ms 0 (Some 5))
  end.
  { cbn [cut_ok nth_error]. do 2 eexists. split; [reflexivity|]. vm_compute. reflexivity. }
  specialize (H Hc).
  destruct H as (l & d' & ms & recs & Hopen & _).
  vm_compute in Hopen. discriminate Hopen.
Qed.

(* the same two crash points on the repaired model satisfy the sentence's checkable clauses *)
Lemma f1_repaired_facts :
  exists l d ms,
    open_log repaired 40 (crash_fs (lv_fs (run_ops repaired 40 (firstn 2 f1_ops)))
                                   (snd (op_run repaired 40 (run_ops repaired 40 (firstn 2 f1_ops)) (OAppend [r2]))) 1 None)
      = (0%Z, Some l, d, ms) /\
    map fst (snd (log_iterate repaired l d 0)) = [r1] /\
    first_id l = (1, false) /\ last_id l = (1, false) /\
    append_accepts repaired l d 1000 = false /\ append_accepts repaired l d 1 = false /\
    append_accepts repaired l d 2 = true.
Proof. do 3 eexists. split; [vm_compute; reflexivity|]. repeat split; vm_compute; reflexivity. Qed.

Lemma f2_repaired_facts :
  exists l d ms,
    open_log repaired 40 (crash_fs (lv_fs (run_ops repaired 40 (firstn 1 f2_ops)))
                                   (snd (op_run repaired 40 (run_ops repaired 40 (firstn 1 f2_ops)) (OAppend [r1]))) 0 (Some 5))
      = (0%Z, Some l, d, ms) /\
    log_iterate repaired l d 0 = (0%Z, []) /\
    first_id l = (0, true) /\ last_id l = (0, true) /\
    append_accepts repaired l d 1 = true.
Proof. do 3 eexists. split; [vm_compute; reflexivity|]. repeat split; vm_compute; reflexivity. Qed.

Lemma valid_r1 : valid_rec r1.
Proof. split; vm_compute; [reflexivity | discriminate]. Qed.
Lemma valid_r2 : valid_rec r2.
Proof. split; vm_compute; [reflexivity | discriminate]. Qed.

Lemma f1_refuted_packed :
  exists maxsz ops i j cut,
    0 < maxsz /\ Forall valid_op ops /\ hd_error ops = Some OReopen /\
    ~ crash_atomic_at unfixed maxsz ops i j cut.
Proof.
  exists 40, f1_ops, 2%nat, 1%nat, None. repeat split.
  - repeat constructor; cbn; try apply valid_r1; try apply valid_r2; vm_compute; reflexivity.
  - exact f1_refuted.
Qed.

Lemma f2_refuted_packed :
  exists maxsz ops i j cut,
    0 < maxsz /\ Forall valid_op ops /\ hd_error ops = Some OReopen /\
    ~ crash_atomic_at unfixed maxsz ops i j cut.
Proof.
  exists 40, f2_ops, 1%nat, 0%nat, (Some 5). repeat split.
  - repeat constructor; cbn; try apply valid_r1; vm_compute; reflexivity.
  - exact f2_refuted.
Qed.
