(* C06/Spec.v — the property's sentence as Coq predicates over the model (definitions only).
   A scenario is a list of operations, the first of which is the initial OpenFSLog on an empty directory
   (OReopen from the state "no log, empty directory"). A crash point is (i, j, cut): operation i is in flight, j of
   its file-system mutations are complete and, if cut = Some c, mutation j (a write) reached the file with only its
   first c bytes (crash_prefix of DESIGN.md section 3). *)
From Coq Require Import List NArith ZArith Bool.
From BLB Require Import Lib.CRC C06.Model.
Import ListNotations.
Open Scope N_scope.

Inductive wal_op :=
| OAppend (recs : list record)
| OTruncate (k : N)
| OTrim (k : N)
| OReopen.                       (* Close; OpenFSLog *)

Definition to_wire (r : record) : N * rle := (rid r, map (fun x => (1, x)) (rdata r)).

Record live := mkLive { lv_log : option fslog; lv_fs : fs; lv_acked : list record }.

(* what the implementation does for one operation: result code, log afterwards, directory afterwards, mutations *)
Definition op_run (fx : fixes) (maxsz : N) (lv : live) (op : wal_op) : Z * option fslog * fs * list mut :=
  match op, lv_log lv with
  | OReopen, _ => open_log fx maxsz (lv_fs lv)
  | OAppend recs, Some l =>
    let '(rc, l', d', ms) := log_append fx l (lv_fs lv) (map to_wire recs) in (rc, Some l', d', ms)
  | OTruncate k, Some l =>
    let '(rc, l', d', ms) := log_truncate fx l (lv_fs lv) k in (rc, Some l', d', ms)
  | OTrim k, Some l =>
    let '(rc, l', d', ms) := log_trim l (lv_fs lv) k in (rc, Some l', d', ms)
  | _, None => (1%Z, None, lv_fs lv, [])
  end.

(* the oracle: acknowledged and not removed records. Trim is a hint: the log may keep more than asked, so the
   oracle follows the first id the implementation reports afterwards (never above hint+1: see must_of). *)
Definition acked_after (op : wal_op) (rc : Z) (acked : list record) (newlog : option fslog) : list record :=
  match op with
  | OAppend recs => if (rc =? 0)%Z then acked ++ recs else acked
  | OTruncate k => filter (fun r => rid r <=? k) acked
  | OTrim k =>
    match newlog with
    | Some l => let '(f, e) := first_id l in if e then [] else filter (fun r => f <=? rid r) acked
    | None => acked
    end
  | OReopen => acked
  end.

Definition step_live (fx : fixes) (maxsz : N) (lv : live) (op : wal_op) : live :=
  let '(rc, ol, d, _) := op_run fx maxsz lv op in
  mkLive ol d (acked_after op rc (lv_acked lv) ol).

Definition run_ops (fx : fixes) (maxsz : N) (ops : list wal_op) : live :=
  fold_left (step_live fx maxsz) ops (mkLive None [] []).

(* records that must survive a crash during op / records that may be present *)
Definition must_of (op : wal_op) (acked : list record) : list record :=
  match op with
  | OTruncate k => filter (fun r => rid r <=? k) acked
  | OTrim k => filter (fun r => k <? rid r) acked
  | _ => acked
  end.
Definition may_of (op : wal_op) (acked : list record) : list record :=
  match op with
  | OAppend recs => acked ++ recs
  | _ => acked
  end.

Definition first_of (R : list record) : N * bool := match R with [] => (0, true) | r :: _ => (rid r, false) end.
Definition last_of (R : list record) : N * bool := match R with [] => (0, true) | r :: _ => (rid (last R r), false) end.

Definition append_accepts (fx : fixes) (l : fslog) (d : fs) (id : N) : bool :=
  let '(rc, _, _, _) := log_append fx l d [(id, [(1, 165)])] in (rc =? 0)%Z.

(* the property's sentence for one crash state d *)
Definition crash_ok (fx : fixes) (maxsz : N) (d : fs) (must may : list record) : Prop :=
  exists l d' ms recs,
    open_log fx maxsz d = (0%Z, Some l, d', ms) /\                         (* the log can be reopened *)
    log_iterate fx l d' 0 = (0%Z, recs) /\                                  (* iteration succeeds and returns R *)
    let R := map fst recs in
    gap_free R = true /\                                                     (* gap-free *)
    (exists a b, R = a ++ must ++ b) /\                                      (* every acknowledged, not removed record, exact bytes *)
    (exists a b, may = a ++ R ++ b) /\                                       (* nothing but those and a prefix of the batch in flight *)
    first_id l = first_of R /\ last_id l = last_of R /\                      (* FirstID/LastID agree with iteration *)
    (forall id, id < two64 ->                                                (* only the next id can be appended *)
       append_accepts fx l d' id = true <-> (R = [] \/ id = (fst (last_of R) + 1) mod two64)).

Definition cut_ok (ms : list mut) (j : nat) (cut : option N) : Prop :=
  match cut with
  | None => True
  | Some c => exists s x, nth_error ms j = Some (MWrite s x) /\ c < blen x
  end.

Definition crash_atomic_at (fx : fixes) (maxsz : N) (ops : list wal_op) (i j : nat) (cut : option N) : Prop :=
  match nth_error ops i with
  | None => True
  | Some op =>
    let lv := run_ops fx maxsz (firstn i ops) in
    let '(_, _, _, ms) := op_run fx maxsz lv op in
    (j <= length ms)%nat -> cut_ok ms j cut ->
    crash_ok fx maxsz (crash_fs (lv_fs lv) ms j cut) (must_of op (lv_acked lv)) (may_of op (lv_acked lv))
  end.

Definition valid_rec (r : record) : Prop := rid r < two64 /\ blen (rdata r) <= max_data.
(* ids stay below 2^64 - 1 (the code computes "last id + 1" in uint64) *)
Definition id_room (r : record) : Prop := rid r + 1 < two64.
Definition valid_op (op : wal_op) : Prop :=
  match op with OAppend recs => Forall valid_rec recs /\ Forall id_room recs | _ => True end.

(* the statement of the target theorem wal_crash_atomic (DESIGN.md appendix C), for a given variant of the code *)
Definition wal_crash_atomic_stmt (fx : fixes) : Prop :=
  forall (maxsz : N) (ops : list wal_op) (i j : nat) (cut : option N),
    0 < maxsz -> Forall valid_op ops -> hd_error ops = Some OReopen ->
    crash_atomic_at fx maxsz ops i j cut.

(* ---------- the abstract log (documented semantics of wal.Log), independent of the implementation ---------- *)
(* Append accepts a batch iff its ids are consecutive and continue the log (any first id on an empty log) *)
Definition spec_accepts (acked recs : list record) : bool :=
  match recs with
  | [] => true
  | r0 :: _ =>
    gap_free recs &&
    match acked with
    | [] => true
    | a :: _ => rid (last acked a) + 1 =? rid r0
    end
  end.

(* one step of the abstract log; Trim is a relation: the log may discard any prefix of records with id <= hint,
   and never discards everything while records above... precisely: never empties a non-empty log *)
Definition spec_step (acked : list record) (op : wal_op) (acked' : list record) : Prop :=
  match op with
  | OAppend recs => acked' = if spec_accepts acked recs then acked ++ recs else acked
  | OTruncate k => acked' = filter (fun r => rid r <=? k) acked
  | OTrim k => exists n, acked' = skipn n acked /\ Forall (fun r => rid r <= k) (firstn n acked) /\
                         (acked <> [] -> acked' <> [])
  | OReopen => acked' = acked
  end.

(* result code of the abstract log *)
Definition spec_rc (acked : list record) (op : wal_op) : Z :=
  match op with
  | OAppend recs => if spec_accepts acked recs then 0%Z else 1%Z
  | _ => 0%Z
  end.
